package verify_test

// C39 (ledger side): ValidateStateProof and apply.StateProof accept a state proof transaction iff the proof is a
// valid proof for the ledger's verification context (voters commitment, online total weight, protocol version,
// last attested round), the message hashes to what was signed, and the signed weight reaches the weight that is
// acceptable for the round in which the transaction appears.
//
// Proofs are built by the real prover over real merklesignature keys with the consensus parameters of the current
// protocol (interval 256, proven weight 30% of the online total, strength target 256).
//
// Reference for the acceptable weight (from the comment of AcceptableStateProofWeight): with o = atRound - lastAttested
// (saturating): o <= interval/2 -> the online total; o >= interval -> the proven weight; in between linear from total
// down to the proven weight. The linear part is judged with a +-1 band (integer rounding is not specified).
//
// Tamperings judged (must be rejected): voters commitment, last attested round of the context (non-multiple and
// other multiples), every field of the message, a protocol version without state proofs, an online total weight that
// puts the proven weight at or above the signed weight, a reveal's signature, the transaction's state proof type and
// a last attested round that is not the ledger's next expected state proof round (apply.StateProof).

import (
	"errors"
	"fmt"
	"math/big"
	"sort"
	"sync"
	"testing"

	"github.com/algorand/go-algorand/config"
	"github.com/algorand/go-algorand/crypto"
	"github.com/algorand/go-algorand/crypto/merklearray"
	"github.com/algorand/go-algorand/crypto/merklesignature"
	"github.com/algorand/go-algorand/crypto/stateproof"
	"github.com/algorand/go-algorand/data/basics"
	"github.com/algorand/go-algorand/data/bookkeeping"
	"github.com/algorand/go-algorand/data/stateproofmsg"
	"github.com/algorand/go-algorand/data/transactions"
	"github.com/algorand/go-algorand/ledger/apply"
	"github.com/algorand/go-algorand/ledger/ledgercore"
	"github.com/algorand/go-algorand/protocol"
	"github.com/algorand/go-algorand/stateproof/verify"
	"verif.local/kit"
)

type c39applier struct {
	next    basics.Round
	ctx     *ledgercore.StateProofVerificationContext
	proto   config.ConsensusParams
	setTo   basics.Round
	setCall int
}

func (a *c39applier) BlockHdr(r basics.Round) (bookkeeping.BlockHeader, error) {
	// header path (protocols before tracker verification): voters header at lastAttested-interval, and the last attested header
	var hdr bookkeeping.BlockHeader
	hdr.Round = r
	hdr.CurrentProtocol = a.ctx.Version
	if r+basics.Round(a.proto.StateProofInterval) == a.ctx.LastAttestedRound {
		hdr.StateProofTracking = map[protocol.StateProofType]bookkeeping.StateProofTrackingData{
			protocol.StateProofBasic: {StateProofVotersCommitment: a.ctx.VotersCommitment, StateProofOnlineTotalWeight: a.ctx.OnlineTotalWeight},
		}
	}
	return hdr, nil
}
func (a *c39applier) GetStateProofNextRound() basics.Round   { return a.next }
func (a *c39applier) SetStateProofNextRound(r basics.Round)  { a.setTo = r; a.setCall++ }
func (a *c39applier) ConsensusParams() config.ConsensusParams { return a.proto }
func (a *c39applier) GetStateProofVerificationContext(r basics.Round) (*ledgercore.StateProofVerificationContext, error) {
	if r != a.ctx.LastAttestedRound {
		return nil, errors.New("no verification context for that round")
	}
	c := *a.ctx
	return &c, nil
}

// reference acceptable weight; exact=false inside the linear part (judge with a +-1 band)
func c39acceptable(total, proven uint64, interval uint64, lastAttested, atRound basics.Round) (w uint64, exact bool) {
	var o uint64
	if atRound > lastAttested {
		o = uint64(atRound - lastAttested)
	}
	half := interval / 2
	switch {
	case o <= half:
		return total, true
	case o >= interval:
		return proven, true
	}
	// linear: proven + (total-proven) * (interval - o) / half
	x := new(big.Int).SetUint64(total - proven)
	x.Mul(x, new(big.Int).SetUint64(interval-o))
	x.Div(x, new(big.Int).SetUint64(half))
	return proven + x.Uint64(), false
}

type c39ledgerCase struct {
	parts   []basics.Participant
	secs    []*merklesignature.Secrets
	tree    *merklearray.Tree
	total   uint64
	online  uint64 // OnlineTotalWeight of the context (>= total of the top voters)
	proven  uint64
	lar     basics.Round
	msg     stateproofmsg.Message
	signers []int
	proof   *stateproof.StateProof
	ctx     *ledgercore.StateProofVerificationContext
}

func (cs *c39ledgerCase) describe() map[string]any {
	w := make([]uint64, len(cs.parts))
	for i, p := range cs.parts {
		w[i] = p.Weight
	}
	d := map[string]any{"weights": w, "online_total_weight": cs.online, "proven_weight": cs.proven, "last_attested_round": cs.lar, "signers": cs.signers,
		"message": fmt.Sprintf("%+v", cs.msg)}
	if cs.proof != nil {
		d["signed_weight"] = cs.proof.SignedWeight
		d["reveals"] = len(cs.proof.PositionsToReveal)
	}
	return d
}

func TestVerifC39Ledger(t *testing.T) {
	c := kit.Start(t, "C39", "ledger")
	defer c.Finish()
	proto := config.Consensus[protocol.ConsensusCurrentVersion]
	interval := proto.StateProofInterval
	ncases := c.N(24, 400)
	c.Rule(fmt.Sprintf("%d PRNG cases with the current consensus parameters (interval %d, threshold 30%%, strength target %d): 4..32 participants with key lifetime 256 and skewed weights, online total weight equal to or above the sum of the voters, last attested round 512 or 768, signer subsets of about 100/80/60/45%% of the weight; the proof from the real prover is submitted to verify.ValidateStateProof and apply.StateProof (tracker path and block-header path) at rounds around every breakpoint of the acceptable-weight schedule, then with each tampered context/message/version/weight/type/next-round. distinct = (participants bucket, signer class, last attested round, schedule segment hit)", ncases, interval, proto.StateProofStrengthTarget))
	c.Assume("acceptable weight schedule as documented at AcceptableStateProofWeight; the linear part is judged with a +-1 band")
	c.Assume("key material from the system RNG inside merklesignature.New")
	// key pool: lifetime 256 keys valid over rounds 256..1100 (keys at 256,512,768,1024)
	npool := c.N(32, 48)
	pool := make([]*merklesignature.Secrets, npool)
	var wg sync.WaitGroup
	for i := range pool {
		wg.Add(1)
		go func(i int) {
			defer wg.Done()
			s, err := merklesignature.New(256, 1100, merklesignature.KeyLifetimeDefault)
			if err != nil {
				c.Harness("merklesignature.New: %v", err)
			}
			pool[i] = s
		}(i)
	}
	wg.Wait()
	ch := make(chan int, 8)
	for w := 0; w < 6; w++ {
		wg.Add(1)
		go func() {
			defer wg.Done()
			for i := range ch {
				if c.Violations() <= 20 {
					c39ledgerCaseRun(c, proto, pool, i)
				}
			}
		}()
	}
	for i := 0; i < ncases; i++ {
		ch <- i
	}
	close(ch)
	wg.Wait()
	c.Require("valid_transactions_accepted", 50)
	c.Require("insufficient_weight_for_round_rejected", 20)
	c.Require("tamperings_rejected", 200)
	c.Require("apply_accepts_and_advances_next_round", 20)
	for _, k := range []string{"voters-commitment", "context-round", "message", "version", "online-total-weight", "signature", "proof-type", "unexpected-round"} {
		c.Require("rejected:"+k, 10)
	}
}

func c39ledgerCaseRun(c *kit.Ctx, proto config.ConsensusParams, pool []*merklesignature.Secrets, i int) {
	r := c.Rand(3902, uint64(i))
	interval := proto.StateProofInterval
	cs := &c39ledgerCase{}
	np := r.Range(4, len(pool))
	perm := r.Perm(len(pool))
	shape := r.Intn(4)
	for k := 0; k < np; k++ {
		var w uint64
		switch shape {
		case 0:
			w = 1000000
		case 1:
			w = uint64(r.Range(1, 1000)) * 1000000
		case 2:
			w = uint64(1) << uint(10+k%24)
		default:
			w = uint64(r.Range(1, 100)) * 1000
			if k == 0 {
				w = 50000000
			}
		}
		cs.total += w
		cs.parts = append(cs.parts, basics.Participant{PK: *pool[perm[k]].GetVerifier(), Weight: w})
		cs.secs = append(cs.secs, pool[perm[k]])
	}
	cs.online = cs.total
	if r.Chance(1, 3) {
		cs.online += cs.total / uint64(r.Range(5, 50)) // online stake outside the top voters
	}
	var err error
	cs.tree, err = merklearray.BuildVectorCommitmentTree(basics.ParticipantsArray(cs.parts), crypto.HashFactory{HashType: stateproof.HashType})
	if err != nil {
		c.Harness("participants tree: %v", err)
	}
	cs.lar = basics.Round([]uint64{512, 768}[r.Intn(2)])
	cs.proven, _ = basics.Muldiv(cs.online, uint64(proto.StateProofWeightThreshold), 1<<32)
	cs.msg = stateproofmsg.Message{BlockHeadersCommitment: r.Bytes(32), VotersCommitment: r.Bytes(64), LnProvenWeight: r.Uint64() >> 40,
		FirstAttestedRound: cs.lar - basics.Round(interval) + 1, LastAttestedRound: cs.lar}
	cs.ctx = &ledgercore.StateProofVerificationContext{LastAttestedRound: cs.lar, VotersCommitment: cs.tree.Root(),
		OnlineTotalWeight: basics.MicroAlgos{Raw: cs.online}, Version: protocol.ConsensusCurrentVersion}
	sigClass := r.Intn(4)
	wantPct := []uint64{100, 80, 60, 45}[sigClass]
	want, _ := basics.Muldiv(cs.online, wantPct, uint64(100))
	var sw uint64
	for _, k := range r.Perm(np) {
		if sw >= want && wantPct < 100 {
			break
		}
		cs.signers = append(cs.signers, k)
		sw += cs.parts[k].Weight
	}
	sort.Ints(cs.signers)
	prover, err := stateproof.MakeProver(cs.msg.Hash(), uint64(cs.lar), cs.proven, cs.parts, cs.tree, proto.StateProofStrengthTarget)
	if err != nil {
		c.Harness("MakeProver: %v", err)
	}
	data := cs.msg.Hash()
	for _, k := range cs.signers {
		sig, err := cs.secs[k].GetSigner(uint64(cs.lar)).SignBytes(data[:])
		if err != nil {
			c.Harness("sign: %v", err)
		}
		if err := prover.IsValid(uint64(k), &sig, true); err != nil {
			c.Violation("valid-signature-refused", map[string]any{"case": cs.describe(), "position": k, "err": err.Error()})
			return
		}
		prover.Add(uint64(k), sig)
	}
	if c.Guard("CreateProof", cs.describe(), func() { cs.proof, err = prover.CreateProof() }) {
		return
	}
	if err != nil {
		if sw > cs.proven {
			c.Count("prover_declined:"+err.Error(), 1)
		}
		return
	}
	validate := func(ctx *ledgercore.StateProofVerificationContext, sp *stateproof.StateProof, at basics.Round, msg *stateproofmsg.Message) (err error) {
		c.Guard("ValidateStateProof", cs.describe(), func() { err = verify.ValidateStateProof(ctx, sp, at, msg) })
		c.Eval(1)
		return
	}
	applyTx := func(ctx *ledgercore.StateProofVerificationContext, tx transactions.StateProofTxnFields, at basics.Round, next basics.Round, tracker bool) (error, *c39applier) {
		p := proto
		p.StateProofUseTrackerVerification = tracker
		a := &c39applier{next: next, ctx: ctx, proto: p}
		var err error
		c.Guard("apply.StateProof", cs.describe(), func() { err = apply.StateProof(tx, at, a, true) })
		c.Eval(1)
		return err, a
	}
	tx := transactions.StateProofTxnFields{StateProofType: protocol.StateProofBasic, StateProof: *cs.proof, Message: cs.msg}

	// --- the acceptable-weight schedule
	half := basics.Round(interval / 2)
	rounds := []basics.Round{cs.lar - 5, cs.lar, cs.lar + 1, cs.lar + half, cs.lar + half + 1, cs.lar + half + half/2, cs.lar + basics.Round(interval) - 1,
		cs.lar + basics.Round(interval), cs.lar + basics.Round(interval) + 1, cs.lar + 10*basics.Round(interval), cs.lar + half + basics.Round(r.Range(1, int(half)-1))}
	// the first round at which the signed weight becomes acceptable (by the reference), and the one before
	for o := uint64(0); o <= interval; o++ {
		if w, _ := c39acceptable(cs.online, cs.proven, interval, cs.lar, cs.lar+basics.Round(o)); cs.proof.SignedWeight >= w {
			rounds = append(rounds, cs.lar+basics.Round(o), cs.lar+basics.Round(o)-1)
			break
		}
	}
	segs := map[string]bool{}
	var goodRound basics.Round
	for _, at := range rounds {
		need, exact := c39acceptable(cs.online, cs.proven, interval, cs.lar, at)
		err := validate(cs.ctx, cs.proof, at, &cs.msg)
		switch {
		case cs.proof.SignedWeight >= need+1 || (exact && cs.proof.SignedWeight >= need):
			if err != nil {
				c.Violation("valid-transaction-rejected", map[string]any{"case": cs.describe(), "at_round": at, "reference_acceptable_weight": need, "err": err.Error()})
			} else {
				c.Count("valid_transactions_accepted", 1)
				goodRound = at
			}
		case cs.proof.SignedWeight+1 < need || (exact && cs.proof.SignedWeight < need):
			if err == nil {
				c.Violation("accepts-insufficient-weight-for-round", map[string]any{"case": cs.describe(), "at_round": at, "reference_acceptable_weight": need})
			} else {
				c.Count("insufficient_weight_for_round_rejected", 1)
			}
		default:
			c.Count("within_rounding_band_not_judged", 1)
		}
		segs[fmt.Sprint(exact, need == cs.online)] = true
	}
	c.Distinct(fmt.Sprintf("%d|%d|%d|%d", len(cs.parts)/8, sigClass, cs.lar, len(segs)))
	if i < 2 {
		c.Sample(cs.describe())
	}
	if goodRound == 0 {
		return
	}
	at := goodRound

	// --- apply.StateProof on the valid transaction (both context sources)
	for _, tracker := range []bool{true, false} {
		err, a := applyTx(cs.ctx, tx, at, cs.lar, tracker)
		if err != nil {
			c.Violation("apply-rejects-valid-transaction", map[string]any{"case": cs.describe(), "at_round": at, "tracker_verification": tracker, "err": err.Error()})
		} else if a.setCall != 1 || a.setTo != cs.lar+basics.Round(interval) {
			c.Violation("apply-next-round-not-advanced", map[string]any{"case": cs.describe(), "set_calls": a.setCall, "set_to": a.setTo})
		} else {
			c.Count("apply_accepts_and_advances_next_round", 1)
		}
	}

	// --- tamperings
	type tamper struct {
		key, detail string
		run         func() error
	}
	var ts []tamper
	cloneCtx := func() *ledgercore.StateProofVerificationContext {
		x := *cs.ctx
		x.VotersCommitment = append(crypto.GenericDigest{}, x.VotersCommitment...)
		return &x
	}
	{
		x := cloneCtx()
		x.VotersCommitment[r.Intn(len(x.VotersCommitment))] ^= 1 << uint(r.Intn(8))
		ts = append(ts, tamper{"voters-commitment", "bit flipped in the context's voters commitment", func() error { return validate(x, cs.proof, at, &cs.msg) }})
		ts = append(ts, tamper{"voters-commitment", "bit flipped in the voters commitment (apply, tracker path)", func() error {
			err, a := applyTx(x, tx, at, cs.lar, true)
			if err == nil || a.setCall != 0 {
				return nil
			}
			return err
		}})
	}
	for _, d := range []int64{1, -1, int64(interval), -int64(interval), 128} {
		x := cloneCtx()
		x.LastAttestedRound = basics.Round(int64(cs.lar) + d)
		ts = append(ts, tamper{"context-round", fmt.Sprintf("context last attested round %d -> %d", cs.lar, x.LastAttestedRound), func() error {
			return validate(x, cs.proof, at+basics.Round(2*interval), &cs.msg)
		}})
	}
	msgT := func(detail string, f func(m *stateproofmsg.Message)) {
		m := cs.msg
		m.BlockHeadersCommitment = append([]byte{}, m.BlockHeadersCommitment...)
		m.VotersCommitment = append([]byte{}, m.VotersCommitment...)
		f(&m)
		ts = append(ts, tamper{"message", detail, func() error { return validate(cs.ctx, cs.proof, at, &m) }})
	}
	msgT("bit flipped in message.BlockHeadersCommitment", func(m *stateproofmsg.Message) { m.BlockHeadersCommitment[r.Intn(32)] ^= 1 })
	msgT("bit flipped in message.VotersCommitment", func(m *stateproofmsg.Message) { m.VotersCommitment[r.Intn(64)] ^= 0x80 })
	msgT("message.LnProvenWeight + 1", func(m *stateproofmsg.Message) { m.LnProvenWeight++ })
	msgT("message.FirstAttestedRound + 1", func(m *stateproofmsg.Message) { m.FirstAttestedRound++ })
	msgT("message.LastAttestedRound + 256", func(m *stateproofmsg.Message) { m.LastAttestedRound += 256 })
	msgT("message.BlockHeadersCommitment truncated", func(m *stateproofmsg.Message) { m.BlockHeadersCommitment = m.BlockHeadersCommitment[:31] })
	{
		x := cloneCtx()
		x.Version = protocol.ConsensusV33 // state proofs not enabled
		ts = append(ts, tamper{"version", "context protocol version without state proofs", func() error { return validate(x, cs.proof, at, &cs.msg) }})
	}
	for _, f := range []uint64{4, 10} {
		// online total so large that the proven weight reaches the signed weight
		x := cloneCtx()
		x.OnlineTotalWeight = basics.MicroAlgos{Raw: cs.proof.SignedWeight * f}
		if pw, _ := basics.Muldiv(x.OnlineTotalWeight.Raw, uint64(proto.StateProofWeightThreshold), 1<<32); pw < cs.proof.SignedWeight {
			continue
		}
		ts = append(ts, tamper{"online-total-weight", fmt.Sprintf("context online total weight %d -> %d (proven weight >= signed weight)", cs.online, x.OnlineTotalWeight.Raw),
			func() error { return validate(x, cs.proof, at+basics.Round(2*interval), &cs.msg) }})
	}
	{
		var sp stateproof.StateProof
		if err := protocol.Decode(protocol.Encode(cs.proof), &sp); err != nil {
			c.Harness("proof msgpack: %v", err)
		}
		for p, rv := range sp.Reveals {
			rv.SigSlot.Sig.Signature[len(rv.SigSlot.Sig.Signature)/2] ^= 4
			sp.Reveals[p] = rv
			break
		}
		ts = append(ts, tamper{"signature", "bit flipped in a revealed Falcon signature", func() error { return validate(cs.ctx, &sp, at, &cs.msg) }})
	}
	{
		tx2 := tx
		tx2.StateProofType = protocol.StateProofType(1)
		ts = append(ts, tamper{"proof-type", "transaction StateProofType = 1", func() error {
			err, a := applyTx(cs.ctx, tx2, at, cs.lar, true)
			if err == nil || a.setCall != 0 {
				return nil
			}
			return err
		}})
		for _, next := range []basics.Round{0, cs.lar + basics.Round(interval), cs.lar - basics.Round(interval)} {
			next := next
			ts = append(ts, tamper{"unexpected-round", fmt.Sprintf("ledger expects the state proof for round %d", next), func() error {
				err, a := applyTx(cs.ctx, tx, at, next, true)
				if err == nil || a.setCall != 0 {
					return nil
				}
				return err
			}})
		}
	}
	for _, tm := range ts {
		if err := tm.run(); err == nil {
			c.Violation("accepts-tampered-"+tm.key, map[string]any{"case": cs.describe(), "tampering": tm.detail, "at_round": at,
				"proof_msgpack_hex": fmt.Sprintf("%x", protocol.Encode(cs.proof))})
		} else {
			c.Count("tamperings_rejected", 1)
			c.Count("rejected:"+tm.key, 1)
		}
	}
}
