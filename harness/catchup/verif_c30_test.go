package catchup

// C30: catchup only appends authenticated blocks, in order.
//
// The real catchup.Service with its real universalBlockFetcher runs against in-process peers
// (loopback HTTP servers and websocket-style unicast peers) that an adversary controls. The node's
// ledger is a real in-memory data.Ledger behind a RECORDING wrapper; the block authenticator is a
// recording oracle that approves exactly the honest (header, certificate) pairs, header-only like
// the production authenticator (it does not look at the payset).
//
// Oracle, evaluated by the wrapper on EVERY write the service attempts
// (AddBlock / AddValidatedBlock from fetchAndWrite, EnsureBlock from fetchRound):
//   1. round == ledger.NextRound() at the moment of the call (a call for a round ahead of the
//      ledger is always a violation; a call for a round behind it is legitimate only while another
//      writer ("agreement") is active, which the code handles as "already in the ledger");
//   2. pipelined path: the (block incl. payset, certificate) pair was approved by the authenticator
//      for exactly that pair; by-certificate path: the certificate written is the trusted
//      certificate handed to fetchRound for that round and the block hashes to its digest;
//   3. the payset matches the header;
//   4. block and certificate are the honest chain's for that round.
// Nothing is demanded about liveness, retries, peer ranking or how often the authenticator is asked.
// With CatchupBlockValidateMode=3 (checks switched off by configuration) the same monitor only
// counts what it sees: that lane shows the monitor is sensitive, it is not a verdict.

import (
	"context"
	"encoding/binary"
	"errors"
	"fmt"
	"io"
	"net/http"
	"os"
	"path/filepath"
	"reflect"
	"sort"
	"strconv"
	"strings"
	"sync"
	"sync/atomic"
	"testing"
	"time"

	"github.com/gorilla/mux"

	"github.com/algorand/go-algorand/agreement"
	"github.com/algorand/go-algorand/components/mocks"
	"github.com/algorand/go-algorand/config"
	"github.com/algorand/go-algorand/crypto"
	"github.com/algorand/go-algorand/data"
	"github.com/algorand/go-algorand/data/basics"
	"github.com/algorand/go-algorand/data/bookkeeping"
	"github.com/algorand/go-algorand/data/committee"
	"github.com/algorand/go-algorand/data/transactions"
	"github.com/algorand/go-algorand/ledger/ledgercore"
	"github.com/algorand/go-algorand/logging"
	"github.com/algorand/go-algorand/network"
	"github.com/algorand/go-algorand/protocol"
	"github.com/algorand/go-algorand/rpcs"
	"github.com/algorand/go-algorand/util/execpool"
	"verif.local/kit"
)

const c30GenesisID = "verif-c30"

func c30Logger() logging.Logger {
	lg := logging.NewLogger()
	lg.SetOutput(io.Discard)
	lg.SetLevel(logging.Error)
	if os.Getenv("VERIF_C30_DEBUG") != "" {
		lg.SetOutput(os.Stdout)
		lg.SetLevel(logging.Warn)
	}
	return lg
}

// ---------------------------------------------------------------------------------------------
// the honest chain

type c30Chain struct {
	genBal  bookkeeping.GenesisBalances
	genHash crypto.Digest
	remote  *data.Ledger
	tip     basics.Round
	blk     []bookkeeping.Block
	cert    []agreement.Certificate
	encBlk  [][]byte
	encCert [][]byte
	full    []crypto.Digest // hash of the complete block encoding (header + payset)
	certD   []crypto.Digest
	scratch string
	seq     atomic.Uint64

	// real-certificate lane (production authenticator): online voters with real VRF / one-time keys
	real     bool
	voters   []*c30Voter
	weight   []map[string]uint64                  // per round: vote key -> verified committee weight (cert step)
	forged   []map[string]*c30Forged              // per round: "<step>/<same|alt>" -> genuine bundle of another step
	altBlk   []bookkeeping.Block                  // per round: a different valid block for that round (never certified)
}

type c30Voter struct {
	addr  basics.Address
	vrfPK crypto.VrfPubkey
	vrfSK crypto.VrfPrivkey
	ots   *crypto.OneTimeSignatureSecrets
}

type c30Forged struct {
	blk    *bookkeeping.Block
	bundle agreement.Certificate
	weight uint64
}

type c30RNG struct{ r *kit.Rand }

func (g c30RNG) RandBytes(b []byte) { g.r.Fill(b) }

// c30Selector / c30RawVote / c30ProposalValue mirror the unexported agreement types (same codec
// tags, same field types) so that votes can be produced outside package agreement with the exported
// crypto primitives. The harness self-check (production Authenticate accepts every honest
// certificate) fails if these encodings ever drift.
type c30Selector struct {
	_struct struct{}       `codec:""`
	Seed    committee.Seed `codec:"seed"`
	Round   basics.Round   `codec:"rnd"`
	Period  uint64         `codec:"per"`
	Step    uint64         `codec:"step"`
}

func (sel c30Selector) ToBeHashed() (protocol.HashID, []byte) {
	return protocol.AgreementSelector, protocol.EncodeReflect(&sel)
}

func (sel c30Selector) CommitteeSize(p config.ConsensusParams) uint64 {
	switch sel.Step {
	case 0:
		return p.NumProposers
	case 1:
		return p.SoftCommitteeSize
	case 2:
		return p.CertCommitteeSize
	case 253:
		return p.LateCommitteeSize
	case 254:
		return p.RedoCommitteeSize
	case 255:
		return p.DownCommitteeSize
	}
	return p.NextCommitteeSize
}

func c30Threshold(step uint64, p config.ConsensusParams) uint64 {
	switch step {
	case 1:
		return p.SoftCommitteeThreshold
	case 2:
		return p.CertCommitteeThreshold
	case 253:
		return p.LateCommitteeThreshold
	case 254:
		return p.RedoCommitteeThreshold
	case 255:
		return p.DownCommitteeThreshold
	}
	return p.NextCommitteeThreshold
}

type c30ProposalValue struct {
	_struct          struct{}       `codec:",omitempty,omitemptyarray"`
	OriginalPeriod   uint64         `codec:"oper"`
	OriginalProposer basics.Address `codec:"oprop"`
	BlockDigest      crypto.Digest  `codec:"dig"`
	EncodingDigest   crypto.Digest  `codec:"encdig"`
}

type c30RawVote struct {
	_struct  struct{}         `codec:",omitempty,omitemptyarray"`
	Sender   basics.Address   `codec:"snd"`
	Round    basics.Round     `codec:"rnd"`
	Period   uint64           `codec:"per"`
	Step     uint64           `codec:"step"`
	Proposal c30ProposalValue `codec:"prop"`
}

func (rv c30RawVote) ToBeHashed() (protocol.HashID, []byte) {
	return protocol.Vote, protocol.EncodeReflect(&rv)
}

func c30VoteKey(e reflect.Value) string {
	snd := e.FieldByName("Sender").Interface().(basics.Address)
	cred := e.FieldByName("Cred").Interface().(committee.UnauthenticatedCredential)
	sig := e.FieldByName("Sig").Interface().(crypto.OneTimeSignature)
	// identity of a vote = what authenticates it. PKSigOld is a deprecated field that
	// OneTimeSignatureVerifier.Verify does not look at: a certificate that differs from the genuine one
	// only there (seen with the bit-flip class) still consists of genuine votes.
	sig.PKSigOld = [64]byte{}
	return fmt.Sprintf("%x|%x|%x", snd[:], cred.Proof[:], protocol.Encode(&sig))
}

// c30MakeBundle builds a GENUINE bundle of the given step for blk: every online voter that the
// sortition selects for (round, period 0, step) votes with a real credential and a real one-time
// signature over the raw vote. It returns the bundle, the verified weight of every vote and the total.
func (ch *c30Chain) c30MakeBundle(blk *bookkeeping.Block, step uint64, proposer basics.Address) (agreement.Certificate, map[string]uint64, uint64, error) {
	var cert agreement.Certificate
	rnd := blk.Round()
	proto := config.Consensus[protocol.ConsensusCurrentVersion]
	balRnd := agreement.BalanceRound(rnd, proto)
	seed, err := ch.remote.Seed(rnd.SubSaturate(basics.Round(proto.SeedLookback)))
	if err != nil {
		return cert, nil, 0, err
	}
	total, err := ch.remote.Circulation(balRnd, rnd)
	if err != nil {
		return cert, nil, 0, err
	}
	pv := c30ProposalValue{OriginalProposer: proposer, BlockDigest: blk.Digest(), EncodingDigest: crypto.HashObj(blk)}
	cert.Round = rnd
	cert.Proposal.OriginalProposer = pv.OriginalProposer
	cert.Proposal.BlockDigest = pv.BlockDigest
	cert.Proposal.EncodingDigest = pv.EncodingDigest
	reflect.ValueOf(&cert).Elem().FieldByName("Step").SetUint(step)
	v := c30Votes(&cert)
	sl := reflect.MakeSlice(v.Type(), 0, len(ch.voters))
	weights := map[string]uint64{}
	sum := uint64(0)
	for _, vt := range ch.voters {
		rec, err := ch.remote.LookupAgreement(balRnd, vt.addr)
		if err != nil {
			return cert, nil, 0, err
		}
		sel := c30Selector{Seed: seed, Round: rnd, Step: step}
		ucred := committee.MakeCredential(&vt.vrfSK, sel)
		m := committee.Membership{Record: committee.BalanceRecord{OnlineAccountData: rec, Addr: vt.addr}, Selector: sel, TotalMoney: total}
		vc, err := ucred.Verify(proto, m)
		if err != nil || vc.Weight == 0 {
			continue // not selected for this committee
		}
		rv := c30RawVote{Sender: vt.addr, Round: rnd, Step: step, Proposal: pv}
		id := basics.OneTimeIDForRound(rnd, proto.EffectiveKeyDilution(rec.VoteKeyDilution))
		sig := vt.ots.Sign(id, rv)
		if !rec.VoteID.Verify(id, rv, sig) {
			return cert, nil, 0, fmt.Errorf("one-time signature of a freshly made vote does not verify")
		}
		e := reflect.New(v.Type().Elem()).Elem()
		e.FieldByName("Sender").Set(reflect.ValueOf(vt.addr))
		e.FieldByName("Cred").Set(reflect.ValueOf(ucred))
		e.FieldByName("Sig").Set(reflect.ValueOf(sig))
		sl = reflect.Append(sl, e)
		weights[c30VoteKey(e)] = vc.Weight
		sum += vc.Weight
	}
	v.Set(sl)
	return cert, weights, sum, nil
}

// refCertOK is the lane-2 reference for "this is a certificate for the honest block of round r":
// cert step, period 0, the honest proposal value, no equivocation votes, every vote one of the genuine
// cert-step votes of that round, distinct senders, total verified weight reaching the cert threshold.
// (Any such subset is a legitimate certificate; the exact stored one is not required.)
func (ch *c30Chain) refCertOK(r basics.Round, cert *agreement.Certificate) (bool, string) {
	hc := ch.cert[r]
	cv := reflect.ValueOf(cert).Elem()
	if cv.FieldByName("Step").Uint() != 2 {
		return false, fmt.Sprintf("step is %d, a certificate has step 2 (cert)", cv.FieldByName("Step").Uint())
	}
	if cv.FieldByName("Period").Uint() != 0 || cert.Round != r || cert.Proposal != hc.Proposal {
		return false, "round / period / proposal value differ from the certified ones"
	}
	if cv.FieldByName("EquivocationVotes").Len() != 0 {
		return false, "equivocation votes present (the honest chain has none)"
	}
	votes := c30Votes(cert)
	seen := map[basics.Address]bool{}
	sum := uint64(0)
	for i := 0; i < votes.Len(); i++ {
		e := votes.Index(i)
		w, ok := ch.weight[r][c30VoteKey(e)]
		if !ok {
			why := "contains a vote that is not one of the genuine cert-step votes of this round"
			// say what differs from the genuine vote of the same sender (for triage)
			hv := c30Votes(&hc)
			for k := 0; k < hv.Len(); k++ {
				g := hv.Index(k)
				if g.FieldByName("Sender").Interface() != e.FieldByName("Sender").Interface() {
					continue
				}
				if g.FieldByName("Cred").Interface() != e.FieldByName("Cred").Interface() {
					why += "; credential differs"
				}
				gs, es := g.FieldByName("Sig"), e.FieldByName("Sig")
				for f := 0; f < gs.NumField(); f++ {
					if gs.Type().Field(f).IsExported() && gs.Field(f).Interface() != es.Field(f).Interface() {
						why += "; signature field " + gs.Type().Field(f).Name + " differs"
					}
				}
			}
			return false, why
		}
		snd := e.FieldByName("Sender").Interface().(basics.Address)
		if seen[snd] {
			return false, "duplicate voter"
		}
		seen[snd] = true
		sum += w
	}
	if th := config.Consensus[protocol.ConsensusCurrentVersion].CertCommitteeThreshold; sum < th {
		return false, fmt.Sprintf("weight %d below the cert threshold %d", sum, th)
	}
	return true, ""
}

func c30FillRandom(v reflect.Value, r *kit.Rand) {
	switch v.Kind() {
	case reflect.Array:
		if v.Type().Elem().Kind() == reflect.Uint8 {
			b := r.Bytes(v.Len())
			for i := range b {
				v.Index(i).SetUint(uint64(b[i]))
			}
			return
		}
		for i := 0; i < v.Len(); i++ {
			c30FillRandom(v.Index(i), r)
		}
	case reflect.Struct:
		for i := 0; i < v.NumField(); i++ {
			if v.Type().Field(i).IsExported() {
				c30FillRandom(v.Field(i), r)
			}
		}
	}
}

// c30MakeCert builds a synthetic certificate for the oracle-authenticator lane: right round and
// block digest plus a few votes with PRNG-filled credentials/signatures (the vote type is
// unexported, its fields are exported: filled through reflection).
func c30MakeCert(r *kit.Rand, blk *bookkeeping.Block) agreement.Certificate {
	var cert agreement.Certificate
	cert.Round = blk.Round()
	cert.Step = 2
	cert.Proposal.BlockDigest = blk.Digest()
	copy(cert.Proposal.EncodingDigest[:], r.Bytes(32))
	copy(cert.Proposal.OriginalProposer[:], r.Bytes(32))
	v := reflect.ValueOf(&cert).Elem().FieldByName("Votes")
	n := r.Range(3, 6)
	sl := reflect.MakeSlice(v.Type(), n, n)
	for i := 0; i < n; i++ {
		c30FillRandom(sl.Index(i), r)
	}
	v.Set(sl)
	return cert
}

func c30Votes(cert *agreement.Certificate) reflect.Value {
	return reflect.ValueOf(cert).Elem().FieldByName("Votes")
}

func c30OpenLedger(ch *c30Chain, name string) (*data.Ledger, error) {
	cfg := config.GetDefaultLocal()
	cfg.Archival = true
	prefix := filepath.Join(ch.scratch, fmt.Sprintf("%s-%d", name, ch.seq.Add(1)))
	// LoadLedger adjusts the fee sink entry inside the balances map it is given: every ledger gets its
	// own copy (cases open ledgers concurrently).
	gb := ch.genBal
	gb.Balances = make(map[basics.Address]basics.AccountData, len(ch.genBal.Balances))
	for a, d := range ch.genBal.Balances {
		gb.Balances[a] = d
	}
	return data.LoadLedger(c30Logger(), prefix, true, protocol.ConsensusCurrentVersion, gb, c30GenesisID, ch.genHash, cfg)
}

func c30BuildChain(c *kit.Ctx, tip int, real bool) *c30Chain {
	r := c.Rand(3000)
	ch := &c30Chain{scratch: c.Scratch("c30"), tip: basics.Round(tip), real: real}
	proto := config.Consensus[protocol.ConsensusCurrentVersion]
	var users []basics.Address
	keys := map[basics.Address]*crypto.SignatureSecrets{}
	gen := map[basics.Address]basics.AccountData{}
	nusers := 4
	if real {
		nusers = 6
	}
	for i := 0; i < nusers; i++ {
		var seed crypto.Seed
		copy(seed[:], r.Bytes(32))
		s := crypto.GenerateSignatureSecrets(seed)
		a := basics.Address(s.SignatureVerifier)
		users = append(users, a)
		keys[a] = s
		gen[a] = basics.AccountData{Status: basics.Offline, MicroAlgos: basics.MicroAlgos{Raw: proto.MinBalance * 100000}}
		if real { // the users hold all online stake and vote in every committee
			var vs [32]byte
			copy(vs[:], r.Bytes(32))
			vt := &c30Voter{addr: a}
			vt.vrfPK, vt.vrfSK = crypto.VrfKeygenFromSeed(vs)
			vt.ots = crypto.GenerateOneTimeSignatureSecretsRNG(0, 2, c30RNG{c.Rand(3005, uint64(i))})
			ch.voters = append(ch.voters, vt)
			d := gen[a]
			d.Status = basics.Online
			d.VoteID = vt.ots.OneTimeSignatureVerifier
			d.SelectionID = vt.vrfPK
			d.VoteLastValid = 100000
			d.VoteKeyDilution = proto.DefaultKeyDilution
			gen[a] = d
		}
	}
	gen[sinkAddr] = basics.AccountData{Status: basics.Offline, MicroAlgos: basics.MicroAlgos{Raw: proto.MinBalance * 2000000}}
	gen[poolAddr] = basics.AccountData{Status: basics.Offline, MicroAlgos: basics.MicroAlgos{Raw: proto.MinBalance * 2000000}}
	ch.genBal = bookkeeping.MakeTimestampedGenesisBalances(gen, sinkAddr, poolAddr, 1700000000)
	copy(ch.genHash[:], r.Bytes(32))
	var err error
	ch.remote, err = c30OpenLedger(ch, "remote")
	if err != nil {
		c.Harness("cannot open remote ledger: %v", err)
		return nil
	}
	g, err := ch.remote.Block(0)
	if err != nil {
		c.Harness("genesis block: %v", err)
		return nil
	}
	ch.add(g, agreement.Certificate{})
	ch.weight = append(ch.weight, nil)
	ch.forged = append(ch.forged, nil)
	ch.altBlk = append(ch.altBlk, bookkeeping.Block{})
	var avv *agreement.AsyncVoteVerifier
	if real {
		avv = agreement.MakeAsyncVoteVerifier(nil)
		defer avv.Quit()
	}
	noteCtr := 0
	for rnd := basics.Round(1); rnd <= ch.tip; rnd++ {
		prev, err := ch.remote.BlockHdr(rnd - 1)
		if err != nil {
			c.Harness("BlockHdr: %v", err)
			return nil
		}
		hdr := bookkeeping.MakeBlock(prev).BlockHeader
		hdr.TimeStamp = prev.TimeStamp + 4 // deterministic chain (MakeBlock uses the wall clock)
		ev, err := ch.remote.StartEvaluator(hdr, 0, 0, nil)
		if err != nil {
			c.Harness("StartEvaluator: %v", err)
			return nil
		}
		ntx := r.Range(1, 3)
		if rnd%7 == 0 {
			ntx = 0 // some empty blocks
		}
		for k := 0; k < ntx; k++ {
			from := users[r.Intn(len(users))]
			to := users[r.Intn(len(users))]
			noteCtr++
			tx := transactions.Transaction{Type: protocol.PaymentTx,
				Header: transactions.Header{Sender: from, Fee: basics.MicroAlgos{Raw: proto.MinTxnFee}, FirstValid: rnd, LastValid: rnd + 10,
					GenesisHash: ch.genHash, Note: []byte(fmt.Sprintf("c30-%d", noteCtr))},
				PaymentTxnFields: transactions.PaymentTxnFields{Receiver: to, Amount: basics.MicroAlgos{Raw: uint64(r.Range(1, 100000))}}}
			if err := ev.TransactionGroup(tx.Sign(keys[from]).WithAD()); err != nil {
				c.Harness("honest chain txn: %v", err)
				return nil
			}
		}
		proposer := users[r.Intn(len(users))]
		ub, err := ev.GenerateBlock([]basics.Address{proposer})
		if err != nil {
			c.Harness("GenerateBlock: %v", err)
			return nil
		}
		// a finished block as agreement would propose it (payouts are enabled: a proposer is mandatory)
		var seed committee.Seed
		copy(seed[:], r.Bytes(32))
		blk := ub.FinishBlock(seed, proposer, false)
		var cert agreement.Certificate
		if real {
			var ws map[string]uint64
			var sum uint64
			cert, ws, sum, err = ch.c30MakeBundle(&blk, 2, proposer)
			if err != nil {
				c.Harness("cannot build a real certificate for round %d: %v", rnd, err)
				return nil
			}
			ch.weight = append(ch.weight, ws)
			// harness self-check: the PRODUCTION authenticator accepts the honest certificate
			if aerr := cert.Authenticate(blk, ch.remote, avv); aerr != nil {
				c.Harness("honest real certificate of round %d (weight %d) is refused by Certificate.Authenticate: %v", rnd, sum, aerr)
				return nil
			}
			// genuine bundles of the other steps, for the same block and for a competing valid block
			var altSeed committee.Seed
			copy(altSeed[:], r.Bytes(32))
			alt := ub.FinishBlock(altSeed, users[r.Intn(len(users))], false)
			ch.altBlk = append(ch.altBlk, alt)
			fm := map[string]*c30Forged{}
			for _, step := range []uint64{1, 3, 4, 253, 254, 255} {
				for vi, target := range []*bookkeeping.Block{&blk, &alt} {
					b, _, w, berr := ch.c30MakeBundle(target, step, proposer)
					if berr != nil {
						c.Harness("cannot build a step-%d bundle for round %d: %v", step, rnd, berr)
						return nil
					}
					if w < c30Threshold(step, proto) {
						c.Count("forged_bundles_below_their_threshold", 1)
						continue // not a genuine quorum of that step: not interesting
					}
					tb := *target
					fm[fmt.Sprintf("%d/%s", step, []string{"same", "alt"}[vi])] = &c30Forged{blk: &tb, bundle: b, weight: w}
					c.Count("genuine_non_cert_bundles_built", 1)
				}
			}
			ch.forged = append(ch.forged, fm)
		} else {
			cert = c30MakeCert(r, &blk)
			ch.weight = append(ch.weight, nil)
			ch.forged = append(ch.forged, nil)
			ch.altBlk = append(ch.altBlk, bookkeeping.Block{})
		}
		if err := ch.remote.AddBlock(blk, cert); err != nil {
			c.Harness("remote AddBlock: %v", err)
			return nil
		}
		ch.add(blk, cert)
		// harness self-check: the certificate encoding is stable through a decode/encode round trip
		var back agreement.Certificate
		if err := protocol.Decode(ch.encCert[rnd], &back); err != nil || string(protocol.Encode(&back)) != string(ch.encCert[rnd]) {
			c.Harness("synthetic certificate does not round-trip: %v", err)
			return nil
		}
		if !blk.ContentsMatchHeader() {
			c.Harness("honest block %d does not match its own header", rnd)
			return nil
		}
	}
	return ch
}

func (ch *c30Chain) add(blk bookkeeping.Block, cert agreement.Certificate) {
	ch.blk = append(ch.blk, blk)
	ch.cert = append(ch.cert, cert)
	eb, ec := protocol.Encode(&blk), protocol.Encode(&cert)
	ch.encBlk = append(ch.encBlk, eb)
	ch.encCert = append(ch.encCert, ec)
	ch.full = append(ch.full, crypto.Hash(eb))
	ch.certD = append(ch.certD, crypto.Hash(ec))
}

// ---------------------------------------------------------------------------------------------
// monitor: recording ledger + recording oracle authenticator

type c30Pair struct{ blk, cert crypto.Digest }

type c30Monitor struct {
	c      *kit.Ctx
	ch     *c30Chain
	caseNo int
	mode   int
	sanity bool // checks switched off by configuration: count, never alarm

	mu          sync.Mutex // serialises writes so that "NextRound at the time of the write" is exact
	approved    map[c30Pair]bool
	trusted     map[basics.Round]crypto.Digest // certificates handed to fetchRound
	external    atomic.Bool                    // another writer (agreement) is active in this case
	adv         *c30Adversary
	writesOK    int
	violated    atomic.Bool
	authAsked   int
	authRefused int
}

func c30FullDigest(b *bookkeeping.Block) crypto.Digest { return crypto.Hash(protocol.Encode(b)) }
func c30CertDigest(ct *agreement.Certificate) crypto.Digest {
	return crypto.Hash(protocol.Encode(ct))
}

// c30Auth is the lane-1 authenticator: approves exactly the honest (header, certificate) pair of the
// block's round and records which concrete (block, certificate) objects it approved.
type c30Auth struct{ m *c30Monitor }

func (a *c30Auth) Quit() {}
func (a *c30Auth) Authenticate(blk *bookkeeping.Block, cert *agreement.Certificate) error {
	m := a.m
	r := blk.Round()
	cd := c30CertDigest(cert)
	ok := r >= 1 && r <= m.ch.tip && blk.Hash() == m.ch.blk[r].Hash() && cd == m.ch.certD[r]
	m.mu.Lock()
	m.authAsked++
	if ok {
		m.approved[c30Pair{c30FullDigest(blk), cd}] = true
	} else {
		m.authRefused++
	}
	m.mu.Unlock()
	m.c.Count("authenticator_asked", 1)
	if !ok {
		m.c.Count("authenticator_refused", 1)
		return errors.New("verif oracle authenticator: not the honest (header, certificate) pair for this round")
	}
	return nil
}

// c30RealAuth is the lane-2 authenticator: what node.blockAuthenticatorImpl does (the production
// agreement.Certificate.Authenticate against the node's own ledger), plus recording.
type c30RealAuth struct {
	m   *c30Monitor
	l   agreement.LedgerReader
	avv *agreement.AsyncVoteVerifier
}

func (a *c30RealAuth) Quit() {}
func (a *c30RealAuth) Authenticate(blk *bookkeeping.Block, cert *agreement.Certificate) error {
	err := cert.Authenticate(*blk, a.l, a.avv)
	a.m.mu.Lock()
	a.m.authAsked++
	if err == nil {
		a.m.approved[c30Pair{c30FullDigest(blk), c30CertDigest(cert)}] = true
	} else {
		a.m.authRefused++
	}
	a.m.mu.Unlock()
	a.m.c.Count("authenticator_asked", 1)
	if err != nil {
		a.m.c.Count("authenticator_refused", 1)
	}
	return err
}

type c30Ledger struct {
	*data.Ledger
	m *c30Monitor
}

var errC30Refused = errors.New("verif monitor: write refused (see violation)")

// judge is the oracle. It is called with m.mu held. It returns the finding keys (empty = fine).
func (m *c30Monitor) judge(path string, blk *bookkeeping.Block, cert *agreement.Certificate, next basics.Round) (keys []string, detail map[string]any) {
	r := blk.Round()
	detail = map[string]any{"path": path, "round": uint64(r), "ledger_next_round": uint64(next)}
	if r > next {
		keys = append(keys, "write-ahead-of-order")
	} else if r < next && !m.external.Load() {
		keys = append(keys, "write-behind-order")
	}
	cd := c30CertDigest(cert)
	fd := c30FullDigest(blk)
	switch path {
	case "EnsureBlock": // by-certificate path: the trusted certificate is the authentication
		if t, ok := m.trusted[r]; !ok || t != cd {
			keys = append(keys, "write-unauthenticated")
			detail["why_unauthenticated"] = "certificate written is not the trusted certificate handed to fetchRound for this round"
		} else if crypto.Digest(blk.Hash()) != cert.Proposal.BlockDigest {
			keys = append(keys, "write-unauthenticated")
			detail["why_unauthenticated"] = "block does not hash to the digest in the trusted certificate"
		}
	default:
		if !m.approved[c30Pair{fd, cd}] {
			keys = append(keys, "write-unauthenticated")
			detail["why_unauthenticated"] = "this exact (block, certificate) pair was never approved by the authenticator"
		}
	}
	if !blk.ContentsMatchHeader() {
		keys = append(keys, "write-payset-mismatch")
	}
	if r < 1 || r > m.ch.tip || fd != m.ch.full[r] {
		keys = append(keys, "write-not-honest-block")
	} else if m.ch.real && path != "EnsureBlock" {
		if ok, why := m.ch.refCertOK(r, cert); !ok {
			keys = append(keys, "write-wrong-certificate")
			detail["why_not_a_certificate"] = why
		} else if cd != m.ch.certD[r] {
			m.c.Count("writes_with_other_valid_certificate_of_same_block", 1)
		}
	} else if cd != m.ch.certD[r] {
		keys = append(keys, "write-wrong-certificate")
	}
	return
}

// onWrite runs the oracle and then performs the write through do (with m.mu held).
func (m *c30Monitor) onWrite(path string, blk *bookkeeping.Block, cert *agreement.Certificate, inner *data.Ledger, do func() error) error {
	m.mu.Lock()
	defer m.mu.Unlock()
	next := inner.NextRound()
	m.c.Eval(1)
	m.c.Count("writes_seen:"+path, 1)
	keys, detail := m.judge(path, blk, cert, next)
	if m.sanity {
		// configuration switched the checks off: show that the monitor sees what then gets through
		only := map[string]bool{}
		for _, k := range keys {
			only[k] = true
		}
		if only["write-unauthenticated"] {
			m.c.Count("sanity_writes_without_authentication_seen", 1)
		}
		if only["write-payset-mismatch"] || only["write-not-honest-block"] || only["write-wrong-certificate"] {
			m.c.Count("sanity_bogus_writes_seen", 1)
			m.c.Distinct(fmt.Sprintf("sanity-bogus|%s|%v", path, keys))
			return errC30Refused // keep the ledger honest so the case can go on
		}
		m.c.Distinct(fmt.Sprintf("sanity-ok|%s|%s", path, m.adv.kindsFor(blk.Round())))
		return do()
	}
	if len(keys) > 0 {
		m.violated.Store(true)
		detail["case"] = m.caseNo
		detail["validate_mode"] = m.mode
		detail["all_findings"] = keys
		detail["block_header_hash"] = blk.Hash().String()
		detail["payset_len"] = len(blk.Payset)
		detail["served_for_this_round"] = m.adv.servedFor(blk.Round())
		detail["external_writer_active"] = m.external.Load()
		m.c.Violation(keys[0], detail)
		return errC30Refused
	}
	if blk.Round() == next {
		m.writesOK++
		m.c.Count("writes_ok:"+path, 1)
		m.c.Distinct(fmt.Sprintf("%s|mode%d|%s|ahead%v", path, m.mode, m.adv.kindsFor(blk.Round()), m.adv.arrivedAhead(blk.Round())))
	} else {
		m.c.Count("stale_write_attempts_while_external_writer", 1)
	}
	return do()
}

func (l *c30Ledger) AddBlock(blk bookkeeping.Block, cert agreement.Certificate) error {
	return l.m.onWrite("AddBlock", &blk, &cert, l.Ledger, func() error { return l.Ledger.AddBlock(blk, cert) })
}

func (l *c30Ledger) AddValidatedBlock(vb ledgercore.ValidatedBlock, cert agreement.Certificate) error {
	blk := vb.Block()
	return l.m.onWrite("AddValidatedBlock", &blk, &cert, l.Ledger, func() error { return l.Ledger.AddValidatedBlock(vb, cert) })
}

func (l *c30Ledger) EnsureBlock(blk *bookkeeping.Block, cert agreement.Certificate) {
	_ = l.m.onWrite("EnsureBlock", blk, &cert, l.Ledger, func() error {
		// data.Ledger.EnsureBlock retries forever on unexpected errors; one attempt is all the monitor needs
		return l.Ledger.AddBlock(*blk, cert)
	})
}

// externalWrite is the emulated agreement service writing the honest next block directly.
func (l *c30Ledger) externalWrite() bool {
	l.m.mu.Lock()
	defer l.m.mu.Unlock()
	r := l.Ledger.NextRound()
	if r > l.m.adv.horizon() {
		return false
	}
	if err := l.Ledger.AddBlock(l.m.ch.blk[r], l.m.ch.cert[r]); err == nil {
		l.m.c.Count("external_writes", 1)
	}
	return true
}

// ---------------------------------------------------------------------------------------------
// the adversary behind the peers

type c30Answer struct {
	Kind     string
	Block    *bookkeeping.Block
	Cert     *agreement.Certificate
	Raw      []byte
	NotFound bool
	Latest   *basics.Round
	Fail     bool // http 500 / ws request error
	BadShape bool // http: wrong content type; ws: certificate topic missing
	Hang     bool
	Delay    time.Duration
}

type c30Adversary struct {
	c      *kit.Ctx
	ch     *c30Chain
	caseNo int
	inner  *data.Ledger

	hor      atomic.Uint64
	closed   atomic.Bool
	mu       sync.Mutex
	attempts map[[2]uint64]uint64 // (peer, round) -> count
	peerReqs map[int]uint64
	bad      map[basics.Round]int
	budget   map[basics.Round]int
	served   map[basics.Round][]string
	ahead    map[basics.Round]bool
	profile  [][]int // per peer: malice (in eighths) per phase
	phaseLen []int
	holdLow  bool
}

func (a *c30Adversary) horizon() basics.Round { return basics.Round(a.hor.Load()) }

func (a *c30Adversary) servedFor(r basics.Round) []string {
	a.mu.Lock()
	defer a.mu.Unlock()
	return append([]string(nil), a.served[r]...)
}

func (a *c30Adversary) kindsFor(r basics.Round) string {
	a.mu.Lock()
	defer a.mu.Unlock()
	set := map[string]bool{}
	for _, s := range a.served[r] {
		set[s[strings.Index(s, ":")+1:]] = true
	}
	ks := make([]string, 0, len(set))
	for k := range set {
		ks = append(ks, k)
	}
	sort.Strings(ks)
	return strings.Join(ks, ",")
}

func (a *c30Adversary) arrivedAhead(r basics.Round) bool {
	a.mu.Lock()
	defer a.mu.Unlock()
	return a.ahead[r]
}

func c30CloneBlock(b bookkeeping.Block) *bookkeeping.Block {
	nb := b
	nb.Payset = append(transactions.Payset(nil), b.Payset...)
	return &nb
}

func c30CloneCert(ct agreement.Certificate) *agreement.Certificate {
	var out agreement.Certificate
	if err := protocol.Decode(protocol.Encode(&ct), &out); err != nil {
		panic(err)
	}
	return &out
}

// answer decides what a peer returns for one request. The decision is a function of
// (seed, case, peer, round, how often this peer was asked for this round), not of arrival order.
func (a *c30Adversary) answer(peer int, rnd basics.Round) c30Answer {
	if a.closed.Load() {
		return c30Answer{Kind: "not-yet", NotFound: true}
	}
	a.mu.Lock()
	k := [2]uint64{uint64(peer), uint64(rnd)}
	n := a.attempts[k]
	a.attempts[k] = n + 1
	reqNo := a.peerReqs[peer]
	a.peerReqs[peer] = reqNo + 1
	bad := a.bad[rnd]
	budget, ok := a.budget[rnd]
	a.mu.Unlock()
	r := a.c.Rand(3002, uint64(a.caseNo), uint64(peer), uint64(rnd), n)
	if !ok {
		budget = a.c.Rand(3003, uint64(a.caseNo), uint64(rnd)).Range(2, 14)
		a.mu.Lock()
		a.budget[rnd] = budget
		a.mu.Unlock()
	}
	delay := []time.Duration{0, 0, 0, 1, 2, 5, 10, 25, 60}[r.Intn(9)] * time.Millisecond
	hor := a.horizon()
	if rnd > hor || rnd > a.ch.tip || rnd < 1 {
		l := hor
		return c30Answer{Kind: "not-yet", NotFound: true, Latest: &l}
	}
	next := a.inner.NextRound()
	if a.holdLow && rnd <= next && r.Chance(2, 3) {
		delay += 90 * time.Millisecond // the lowest outstanding round answers last
	}
	phase := int(reqNo) / a.phaseLen[peer]
	malice := a.profile[peer][phase%len(a.profile[peer])]
	ans := c30Answer{Kind: "honest", Delay: delay}
	if bad < budget && r.Chance(malice, 8) {
		ans = a.attack(r, rnd)
		ans.Delay = delay
		a.c.Count("attack:"+ans.Kind, 1)
	} else {
		a.c.Count("honest_responses", 1)
	}
	a.mu.Lock()
	if ans.Kind != "honest" {
		a.bad[rnd]++
	}
	if len(a.served[rnd]) < 40 {
		a.served[rnd] = append(a.served[rnd], fmt.Sprintf("p%d:%s", peer, ans.Kind))
	}
	if rnd > next {
		a.ahead[rnd] = true
	}
	a.mu.Unlock()
	if rnd > next {
		a.c.Count("responses_served_ahead_of_ledger", 1)
	}
	return ans
}

func (a *c30Adversary) otherRound(r *kit.Rand, rnd basics.Round) basics.Round {
	for i := 0; i < 8; i++ {
		var o basics.Round
		if r.Chance(2, 3) {
			o = rnd + basics.Round(r.Range(1, 3))
			if r.Bool() && rnd > basics.Round(3) {
				o = rnd - basics.Round(r.Range(1, 3))
			}
		} else {
			o = basics.Round(r.Range(1, int(a.ch.tip)))
		}
		if o >= 1 && o <= a.ch.tip && o != rnd {
			return o
		}
	}
	if rnd > 1 {
		return rnd - 1
	}
	return rnd + 1
}

func (a *c30Adversary) attack(r *kit.Rand, rnd basics.Round) c30Answer {
	ch := a.ch
	if ch.real && r.Chance(2, 5) {
		// a GENUINE bundle of another step (real credentials and signatures reaching that step's
		// threshold) in the certificate slot: for the honest block, or for a competing valid block
		steps := []uint64{1, 1, 1, 3, 4, 253, 254, 255}
		step := steps[r.Intn(len(steps))]
		which := []string{"same", "alt"}[r.Intn(2)]
		if f := ch.forged[rnd][fmt.Sprintf("%d/%s", step, which)]; f != nil {
			name := map[uint64]string{1: "soft", 3: "next", 4: "next1", 253: "late", 254: "redo", 255: "down"}[step]
			return c30Answer{Kind: "genuine-" + name + "-bundle-" + which + "-block", Block: c30CloneBlock(*f.blk), Cert: c30CloneCert(f.bundle)}
		}
	}
	o := a.otherRound(r, rnd)
	hb, hc := ch.blk[rnd], ch.cert[rnd]
	switch r.Pick([]int{6, 8, 14, 8, 10, 6, 8, 6, 6, 6, 4, 3}) {
	case 0: // block and certificate of another round, as they are
		return c30Answer{Kind: "other-round-as-is", Block: c30CloneBlock(ch.blk[o]), Cert: c30CloneCert(ch.cert[o])}
	case 1: // another round's block relabelled to the requested round (contents still match that header)
		b := c30CloneBlock(ch.blk[o])
		b.BlockHeader.Round = rnd
		ct := c30CloneCert(hc)
		if r.Bool() {
			ct = c30CloneCert(ch.cert[o])
			ct.Round = rnd
		}
		return c30Answer{Kind: "other-round-relabelled", Block: b, Cert: ct}
	case 2: // original header + honest certificate, tampered payset
		b := c30CloneBlock(hb)
		kind := "payset-tampered"
		switch v := r.Intn(4); {
		case v == 0 && len(b.Payset) > 0:
			b.Payset = b.Payset[:len(b.Payset)-1]
		case v == 1 && len(b.Payset) > 0:
			b.Payset = append(b.Payset, b.Payset[0])
		case v == 2 && len(b.Payset) > 0:
			b.Payset[0].SignedTxn.Txn.Amount.Raw += uint64(r.Range(1, 1000000))
		default:
			src := ch.blk[o].Payset
			if len(src) == 0 {
				src = ch.blk[1].Payset
			}
			b.Payset = append(transactions.Payset(nil), src...)
			if len(hb.Payset) == len(b.Payset) && len(b.Payset) > 0 {
				b.Payset = append(b.Payset, b.Payset[0])
			}
		}
		return c30Answer{Kind: kind, Block: b, Cert: c30CloneCert(hc)}
	case 3: // tampered payset with a recomputed commitment (contents match, header hash differs)
		b := c30CloneBlock(hb)
		src := ch.blk[o].Payset
		if len(src) == 0 {
			src = ch.blk[1].Payset
		}
		b.Payset = append(append(transactions.Payset(nil), b.Payset...), src[0])
		if tc, err := b.PaysetCommit(); err == nil {
			b.TxnCommitments = tc
		}
		return c30Answer{Kind: "payset-tampered-recommitted", Block: b, Cert: c30CloneCert(hc)}
	case 4: // right block, certificate of another round
		ct := c30CloneCert(ch.cert[o])
		kind := "cert-of-other-round"
		if r.Chance(3, 4) {
			ct.Round = rnd
			kind = "cert-of-other-round-relabelled"
		}
		return c30Answer{Kind: kind, Block: c30CloneBlock(hb), Cert: ct}
	case 5: // right block, votes truncated
		ct := c30CloneCert(hc)
		v := c30Votes(ct)
		keep := r.Intn(v.Len())
		v.Set(v.Slice(0, keep))
		return c30Answer{Kind: "cert-votes-truncated", Block: c30CloneBlock(hb), Cert: ct}
	case 6: // right block, a vote duplicated / votes reordered
		ct := c30CloneCert(hc)
		v := c30Votes(ct)
		if r.Bool() {
			v.Set(reflect.Append(v, v.Index(r.Intn(v.Len()))))
			return c30Answer{Kind: "cert-vote-duplicated", Block: c30CloneBlock(hb), Cert: ct}
		}
		first := reflect.New(v.Type().Elem()).Elem()
		first.Set(v.Index(0))
		v.Index(0).Set(v.Index(v.Len() - 1))
		v.Index(v.Len() - 1).Set(first)
		return c30Answer{Kind: "cert-votes-reordered", Block: c30CloneBlock(hb), Cert: ct}
	case 7: // right block, certificate for a different value / period / step
		ct := c30CloneCert(hc)
		switch r.Intn(3) {
		case 0:
			ct.Proposal.BlockDigest[r.Intn(32)] ^= 1 << uint(r.Intn(8))
		case 1:
			ct.Period = 1
		default:
			ct.Step = 3
		}
		return c30Answer{Kind: "cert-field-changed", Block: c30CloneBlock(hb), Cert: ct}
	case 8: // a header field changed, payset untouched
		b := c30CloneBlock(hb)
		switch r.Intn(4) {
		case 0:
			b.TimeStamp++
		case 1:
			b.BlockHeader.Seed[r.Intn(32)] ^= 0x40
		case 2:
			b.Branch[r.Intn(32)] ^= 0x01
		default:
			b.TxnCounter++
		}
		return c30Answer{Kind: "header-field-changed", Block: b, Cert: c30CloneCert(hc)}
	case 9: // bytes that are not a block
		switch r.Intn(4) {
		case 0:
			return c30Answer{Kind: "garbage", Raw: r.Bytes(r.Range(1, 300))}
		case 1:
			full := protocol.Encode(&rpcs.EncodedBlockCert{Block: hb, Certificate: hc})
			return c30Answer{Kind: "truncated", Raw: full[:r.Intn(len(full))]}
		case 2:
			return c30Answer{Kind: "empty-body", Raw: []byte{}}
		default:
			full := protocol.Encode(&rpcs.EncodedBlockCert{Block: hb, Certificate: hc})
			i := r.Intn(len(full))
			full[i] ^= byte(1 << uint(r.Intn(8)))
			return c30Answer{Kind: "bitflip", Raw: full}
		}
	case 10: // nothing
		switch r.Intn(4) {
		case 0:
			return c30Answer{Kind: "not-found-no-latest", NotFound: true}
		case 1:
			l := rnd - 1
			return c30Answer{Kind: "not-found-behind", NotFound: true, Latest: &l}
		case 2:
			return c30Answer{Kind: "server-error", Fail: true}
		default:
			return c30Answer{Kind: "bad-shape", BadShape: true}
		}
	default: // late: answer only when the requester has given up
		return c30Answer{Kind: "hang", Hang: true}
	}
}

// ---------------------------------------------------------------------------------------------
// peers

type c30Net struct {
	mocks.MockNetwork
	byClass map[network.PeerOption][]network.Peer
}

func (n *c30Net) GetPeers(options ...network.PeerOption) []network.Peer {
	var out []network.Peer
	for _, o := range options {
		out = append(out, n.byClass[o]...)
	}
	return out
}
func (n *c30Net) GetGenesisID() string                                          { return c30GenesisID }
func (n *c30Net) RegisterHandlers(dispatch []network.TaggedMessageHandler)      {}
func (n *c30Net) RequestConnectOutgoing(replace bool, quit <-chan struct{})     {}
func (n *c30Net) RegisterHTTPHandler(path string, handler http.Handler)         {}
func (n *c30Net) RegisterHTTPHandlerFunc(path string, h func(http.ResponseWriter, *http.Request)) {
}

func c30Sleep(ctx context.Context, d time.Duration) {
	if d <= 0 {
		return
	}
	select {
	case <-ctx.Done():
	case <-time.After(d):
	}
}

// http peer: a loopback server; honest answers come from the real rpcs.BlockService over the honest ledger.
func c30HTTPHandler(a *c30Adversary, peer int, bs *rpcs.BlockService) func(http.ResponseWriter, *http.Request) {
	return func(w http.ResponseWriter, req *http.Request) {
		rs := mux.Vars(req)["round"]
		rv, err := strconv.ParseUint(rs, 36, 64)
		if err != nil {
			w.WriteHeader(http.StatusBadRequest)
			return
		}
		ans := a.answer(peer, basics.Round(rv))
		c30Sleep(req.Context(), ans.Delay)
		switch {
		case ans.Kind == "honest":
			bs.ServeBlockPath(w, req)
		case ans.Hang:
			c30Sleep(req.Context(), 3*time.Second)
			w.WriteHeader(http.StatusServiceUnavailable)
		case ans.NotFound:
			if ans.Latest != nil {
				w.Header().Set(rpcs.BlockResponseLatestRoundHeader, fmt.Sprintf("%d", *ans.Latest))
			}
			w.WriteHeader(http.StatusNotFound)
		case ans.Fail:
			w.WriteHeader(http.StatusInternalServerError)
			w.Write([]byte("adversary says no"))
		case ans.BadShape:
			w.Header().Set("Content-Type", "text/plain")
			w.WriteHeader(http.StatusOK)
			w.Write(protocol.Encode(&rpcs.EncodedBlockCert{Block: a.ch.blk[rv], Certificate: a.ch.cert[rv]}))
		default:
			body := ans.Raw
			if ans.Block != nil {
				body = protocol.Encode(&rpcs.EncodedBlockCert{Block: *ans.Block, Certificate: *ans.Cert})
			}
			w.Header().Set("Content-Type", rpcs.BlockResponseContentType)
			w.WriteHeader(http.StatusOK)
			w.Write(body)
		}
	}
}

// ws peer: implements network.UnicastPeer directly at the peer boundary.
type c30WSPeer struct {
	a    *c30Adversary
	peer int
}

func (p *c30WSPeer) GetAddress() string { return fmt.Sprintf("verif-ws-peer-%d-%d", p.a.caseNo, p.peer) }
func (p *c30WSPeer) Respond(ctx context.Context, reqMsg network.IncomingMessage, outMsg network.OutgoingMessage) error {
	return nil
}
func (p *c30WSPeer) Request(ctx context.Context, tag network.Tag, topics network.Topics) (*network.Response, error) {
	rb, ok := topics.GetValue(rpcs.RoundKey)
	if !ok {
		return nil, errors.New("no round")
	}
	rv, n := binary.Uvarint(rb)
	if n <= 0 {
		return nil, errors.New("bad round")
	}
	ans := p.a.answer(p.peer, basics.Round(rv))
	c30Sleep(ctx, ans.Delay)
	if ctx.Err() != nil {
		return nil, ctx.Err()
	}
	ch := p.a.ch
	switch {
	case ans.Kind == "honest":
		// what the real block service puts on the wire: the stored encodings
		eb, ec, err := ch.remote.EncodedBlockCert(basics.Round(rv))
		if err != nil {
			return nil, err
		}
		return &network.Response{Topics: network.Topics{network.MakeTopic(rpcs.BlockDataKey, eb), network.MakeTopic(rpcs.CertDataKey, ec)}}, nil
	case ans.Hang:
		c30Sleep(ctx, 3*time.Second)
		return nil, errors.New("adversary: too late")
	case ans.NotFound:
		t := network.Topics{network.MakeTopic(network.ErrorKey, []byte("requested block is not available"))}
		if ans.Latest != nil {
			t = append(t, network.MakeTopic(rpcs.LatestRoundKey, binary.BigEndian.AppendUint64(nil, uint64(*ans.Latest))))
		}
		return &network.Response{Topics: t}, nil
	case ans.Fail:
		return nil, errors.New("adversary says no")
	case ans.BadShape:
		return &network.Response{Topics: network.Topics{network.MakeTopic(rpcs.BlockDataKey, ch.encBlk[rv])}}, nil
	case ans.Block != nil:
		return &network.Response{Topics: network.Topics{network.MakeTopic(rpcs.BlockDataKey, protocol.Encode(ans.Block)),
			network.MakeTopic(rpcs.CertDataKey, protocol.Encode(ans.Cert))}}, nil
	default:
		half := len(ans.Raw) / 2
		return &network.Response{Topics: network.Topics{network.MakeTopic(rpcs.BlockDataKey, ans.Raw[:half]),
			network.MakeTopic(rpcs.CertDataKey, ans.Raw[half:])}}, nil
	}
}

// ---------------------------------------------------------------------------------------------
// one case = one catching-up node

type c30CaseResult struct {
	reachedTip bool
	last       basics.Round
}

func c30RunCase(c *kit.Ctx, ch *c30Chain, i int, mode int, sanity bool, vpool execpool.BacklogPool) (res c30CaseResult) {
	r := c.Rand(3001, uint64(i))
	inner, err := c30OpenLedger(ch, fmt.Sprintf("local%d", i))
	if err != nil {
		c.Harness("case %d: local ledger: %v", i, err)
		return
	}
	defer inner.Close()
	// some nodes start in the middle of the chain
	if r.Chance(1, 3) {
		for rnd := basics.Round(1); rnd <= basics.Round(r.Range(1, int(ch.tip)/2)); rnd++ {
			if err := inner.AddBlock(ch.blk[rnd], ch.cert[rnd]); err != nil {
				c.Harness("case %d: preload: %v", i, err)
				return
			}
		}
	}
	npeers := r.Range(2, 5)
	adv := &c30Adversary{c: c, ch: ch, caseNo: i, inner: inner, attempts: map[[2]uint64]uint64{}, peerReqs: map[int]uint64{},
		bad: map[basics.Round]int{}, budget: map[basics.Round]int{}, served: map[basics.Round][]string{}, ahead: map[basics.Round]bool{},
		holdLow: r.Chance(1, 2)}
	profiles := [][]int{{0}, {8}, {4}, {2, 7}, {8, 0}, {0, 8}, {6, 6, 0}, {3}}
	for p := 0; p < npeers; p++ {
		adv.profile = append(adv.profile, profiles[r.Intn(len(profiles))])
		adv.phaseLen = append(adv.phaseLen, r.Range(3, 25))
	}
	mon := &c30Monitor{c: c, ch: ch, caseNo: i, mode: mode, sanity: sanity, approved: map[c30Pair]bool{}, trusted: map[basics.Round]crypto.Digest{}, adv: adv}
	wl := &c30Ledger{Ledger: inner, m: mon}
	net := &c30Net{byClass: map[network.PeerOption][]network.Peer{}}
	bs := rpcs.MakeBlockService(c30Logger(), config.GetDefaultLocal(), ch.remote, net, c30GenesisID)
	classes := []network.PeerOption{network.PeersConnectedOut, network.PeersPhonebookRelays, network.PeersPhonebookArchivalNodes, network.PeersConnectedIn}
	var nodes []*basicRPCNode
	for p := 0; p < npeers; p++ {
		cl := classes[r.Intn(len(classes))]
		if r.Chance(1, 3) {
			net.byClass[cl] = append(net.byClass[cl], &c30WSPeer{a: adv, peer: p})
			c.Count("ws_peers", 1)
			continue
		}
		node := &basicRPCNode{}
		node.RegisterHTTPHandlerFunc(rpcs.BlockServiceBlockPath, c30HTTPHandler(adv, p, bs))
		if !node.start() {
			c.Harness("case %d: cannot listen on loopback", i)
			return
		}
		nodes = append(nodes, node)
		hp := testHTTPPeer(node.rootURL())
		net.byClass[cl] = append(net.byClass[cl], &hp)
		c.Count("http_peers", 1)
	}
	defer func() {
		adv.closed.Store(true)
		for _, n := range nodes {
			n.stop()
		}
		if tr, ok := http.DefaultTransport.(*http.Transport); ok {
			tr.CloseIdleConnections()
		}
	}()
	cfg := config.GetDefaultLocal()
	cfg.CatchupBlockValidateMode = mode
	cfg.CatchupHTTPBlockFetchTimeoutSec = 1 // only shortens how long a "late" peer can stall a request
	cfg.CatchupGossipBlockFetchTimeoutSec = 1
	cfg.CatchupParallelBlocks = uint64([]int{2, 4, 16}[r.Intn(3)])
	verifier := agreement.MakeAsyncVoteVerifier(nil)
	defer verifier.Quit()
	var auth BlockAuthenticator = &c30Auth{m: mon}
	if ch.real {
		auth = &c30RealAuth{m: mon, l: wl, avv: verifier}
	}
	s := MakeService(c30Logger(), cfg, net, wl, auth, nil, vpool)
	s.testStart()
	external := r.Chance(1, 5)
	done := make(chan struct{})
	go func() {
		defer close(done)
		adv.hor.Store(uint64(inner.LastRound()))
		for step := 0; step < 400 && inner.LastRound() < ch.tip && !mon.violated.Load() && s.ctx.Err() == nil; step++ {
			// pipelined sync up to a horizon beyond which the peers "do not have the block yet"
			h := inner.LastRound() + basics.Round(r.Range(1, 9))
			if h > ch.tip {
				h = ch.tip
			}
			adv.hor.Store(uint64(h))
			var wg sync.WaitGroup
			stopExt := make(chan struct{})
			if external {
				mon.external.Store(true)
				wg.Add(1)
				go func(rr *kit.Rand) { // the agreement service writing blocks on its own
					defer wg.Done()
					for {
						select {
						case <-stopExt:
							return
						case <-time.After(time.Duration(rr.Range(1, 40)) * time.Millisecond):
						}
						if rr.Chance(1, 3) {
							wl.externalWrite()
						}
					}
				}(c.Rand(3004, uint64(i), uint64(step)))
			}
			c.Count("sync_calls", 1)
			s.sync()
			close(stopExt)
			wg.Wait()
			// then agreement hands over certificates of the next rounds, one at a time
			for k := r.Range(0, 3); k > 0 && inner.LastRound() < ch.tip && !mon.violated.Load() && s.ctx.Err() == nil; k-- {
				nr := inner.NextRound()
				if nr > adv.horizon() {
					adv.hor.Store(uint64(nr))
				}
				mon.mu.Lock()
				mon.trusted[nr] = ch.certD[nr]
				mon.mu.Unlock()
				c.Count("fetch_round_calls", 1)
				s.fetchRound(ch.cert[nr], verifier)
			}
		}
	}()
	select {
	case <-done:
	case <-time.After(15 * time.Minute):
		s.cancel()
		<-done
		c.Harness("case %d: watchdog expired (inconclusive)", i)
		return
	}
	s.cancel()
	res.last = inner.LastRound()
	res.reachedTip = res.last == ch.tip
	// end-to-end: whatever is in the node's ledger is the honest chain
	if !sanity {
		for rnd := basics.Round(1); rnd <= res.last; rnd++ {
			b, err := inner.Block(rnd)
			if err != nil || c30FullDigest(&b) != ch.full[rnd] {
				c.Violation("ledger-not-honest-chain", map[string]any{"case": i, "round": uint64(rnd), "err": fmt.Sprint(err)})
				break
			}
		}
	}
	return
}

func c30Run(t *testing.T, part string, mode int, sanity bool, real bool, nQuick, nThorough, tipQuick, tipThorough int) {
	c := kit.Start(t, "C30", part)
	defer c.Finish()
	ncases, tip := c.N(nQuick, nThorough), c.N(tipQuick, tipThorough)
	if c.Lane == "race" {
		ncases = (ncases + 2) / 3 // the race detector slows the service and the loopback servers several times
	}
	c.Rule("each case is one catching-up node: real catchup.Service + universalBlockFetcher, real in-memory ledger behind the recording wrapper (some nodes start mid-chain), 2-5 adversary-controlled peers (loopback HTTP servers and unicast peers, in different peer classes) whose behaviour per request is drawn from (seed, case, peer, round, attempt): honest, another round's block (as is / relabelled), tampered payset under the original header, tampered payset with recomputed commitment, another round's certificate, truncated / duplicated / reordered votes, changed certificate or header fields, garbage / truncated / bit-flipped bytes, 404 / 500 / wrong content type / missing topic, hanging responses; PRNG response delays (optionally the lowest outstanding round answers last) release responses out of order; peers switch between honest and malicious phases; the node alternates pipelined sync() up to a moving horizon with fetchRound() by trusted certificate, in a fifth of the cases while an emulated agreement service writes blocks concurrently; every write attempt is judged by the recording ledger; distinct = distinct (write path, validate mode, set of attack kinds served for that round before it was written, whether responses for it arrived ahead of the ledger)")
	c.Assume("lane 1 authenticator: a recording oracle approving exactly the honest (header hash, certificate) pair of a round, header-only like agreement.Certificate.Authenticate; certificates are synthetic (right round/digest, PRNG votes); the production authenticator over real certificates is not exercised here")
	c.Assume("fetch timeouts are configured to 1 s (only bounds how long a hanging peer stalls a request); CatchupBlockValidateMode is " + strconv.Itoa(mode))
	logging.Base().SetOutput(io.Discard)
	ch := c30BuildChain(c, tip, real)
	if ch == nil {
		return
	}
	defer ch.remote.Close()
	var vpool execpool.BacklogPool
	if mode&12 != 0 {
		ep := execpool.MakePool(t)
		defer ep.Shutdown()
		vpool = execpool.MakeBacklog(ep, 0, execpool.LowPriority, t)
		defer vpool.Shutdown()
	}
	caseBase := mode * 100000
	if real {
		caseBase = 700000
		c.Assume("lane 2: the authenticator is the production agreement.Certificate.Authenticate against the node's own ledger; certificates and the forged bundles are REAL (online genesis accounts holding all online stake, real VRF credentials and one-time signatures built with mirror structs of the unexported vote/selector types; self-check: production Authenticate accepts every honest certificate)")
	}
	// cases are independent nodes; a few run side by side
	var wg sync.WaitGroup
	var nextCase atomic.Int64
	workers := 4
	for w := 0; w < workers; w++ {
		wg.Add(1)
		go func() {
			defer wg.Done()
			for {
				i := int(nextCase.Add(1)) - 1
				if i >= ncases || c.Violations() > 5 {
					return
				}
				res := c30RunCase(c, ch, caseBase+i, mode, sanity, vpool)
				c.Count("cases", 1)
				if res.reachedTip {
					c.Count("cases_reaching_tip", 1)
				}
				if i < 3 {
					c.Sample(map[string]any{"case": i, "validate_mode": mode, "final_round": uint64(res.last), "tip": uint64(ch.tip)})
				}
			}
		}()
	}
	wg.Wait()
	c.Require("cases", int64(ncases))
	c.Require("cases_reaching_tip", int64(ncases/2))
	// thresholds scale with the number of cases of the part (observed rates are >= 4x these)
	c.Require("responses_served_ahead_of_ledger", int64(max(5, ncases)))
	c.Require("attack:payset-tampered", int64(max(2, ncases/3)))
	if !real { // the real-certificate part spends 2/5 of its attacks on genuine non-cert bundles and has its own guards
		c.Require("attack:other-round-relabelled", int64(max(1, ncases/8)))
		c.Require("attack:cert-of-other-round-relabelled", int64(max(1, ncases/8)))
	}
	switch {
	case real:
		c.Require("writes_ok:AddBlock", int64(4*ncases))
		c.Require("authenticator_refused", int64(2*ncases))
		c.Require("attack:genuine-soft-bundle-same-block", int64(max(2, ncases/2)))
		c.Require("attack:genuine-soft-bundle-alt-block", int64(max(2, ncases/2)))
		c.Require("genuine_non_cert_bundles_built", int64(6*tip))
	case sanity:
		c.Require("sanity_writes_without_authentication_seen", 1)
		c.Require("sanity_bogus_writes_seen", 1)
	case mode == 0:
		c.Require("writes_ok:AddBlock", 100)
		c.Require("writes_ok:EnsureBlock", 30)
		c.Require("authenticator_refused", 30)
		c.Require("external_writes", 1)
	default:
		c.Require("writes_ok:AddValidatedBlock", 40)
		c.Require("writes_ok:EnsureBlock", 10)
		c.Require("authenticator_refused", 10)
	}
}

// default configuration (CatchupBlockValidateMode = 0): certificate and payset verified, AddBlock path
func TestVerifC30Default(t *testing.T) { c30Run(t, "default", 0, false, false, 24, 240, 28, 40) }

// mode 12: additionally validates the block through the ledger and writes with AddValidatedBlock
func TestVerifC30FullValidation(t *testing.T) { c30Run(t, "fullvalidation", 12, false, false, 8, 80, 24, 32) }

// mode 3: certificate and payset checks switched off by configuration; monitor sensitivity only
func TestVerifC30SanityChecksOff(t *testing.T) { c30Run(t, "sanity-checks-off", 3, true, false, 6, 24, 20, 28) }

// lane 2: production certificate authenticator over real certificates; peers additionally serve
// genuine soft / next / late / redo / down bundles in the certificate slot
func TestVerifC30RealCerts(t *testing.T) { c30Run(t, "realcerts", 0, false, true, 10, 80, 16, 24) }
