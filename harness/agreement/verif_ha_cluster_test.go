package agreement

// HA — agreement cluster harness (DESIGN.md §4 "HA", Appendix A), serving C01, C02, C03, C05.
//
// N real agreement.Service instances run in one process over
//   - a harness Network: every Broadcast/Relay is recorded (global sequence number shared with the
//     verifhook observers) and handed to a central scheduler; nothing is delivered unless the
//     scheduler says so,
//   - a harness Clock: virtual time only; TimeoutAt channels fire when the scheduler advances time,
//   - a simulated Ledger per node (durable across incarnations) whose Ensure* calls are the commit
//     events seen by the monitors,
//   - real participation keys (VRF credentials, one-time signatures, real sortition),
//   - an in-memory crash database per incarnation; a crash abandons the incarnation (all its later
//     sends, ledger writes and DB writes are discarded), takes a logical snapshot of the crash DB row
//     at that instant, and a new Service is started on the snapshot.
// Quiescence is detected exactly (not by wall-clock) through the coserviceMonitor that upstream's
// service_test.go uses for the same purpose.
//
// This file: accounts/keys, ledger, clock, network endpoints, incarnations, hook dispatch, quiescence.

import (
	"context"
	"database/sql"
	"encoding/binary"
	"fmt"
	"io"
	"sort"
	"sync"
	"sync/atomic"
	"time"

	"github.com/algorand/go-algorand/config"
	"github.com/algorand/go-algorand/crypto"
	"github.com/algorand/go-algorand/data/account"
	"github.com/algorand/go-algorand/data/basics"
	basics_testing "github.com/algorand/go-algorand/data/basics/testing"
	"github.com/algorand/go-algorand/data/bookkeeping"
	"github.com/algorand/go-algorand/data/committee"
	"github.com/algorand/go-algorand/logging"
	"github.com/algorand/go-algorand/protocol"
	"github.com/algorand/go-algorand/util/db"
	"github.com/algorand/go-algorand/util/execpool"
	"github.com/algorand/go-algorand/util/timers"
	"github.com/algorand/go-algorand/util/verifhook"
	"verif.local/kit"
)

const haAdversary = -1 // node index used for adversary-originated traffic

// ---------------------------------------------------------------------------------------------
// accounts

type haAccount struct {
	idx   int
	owner int // node index, haAdversary for adversary-held accounts
	addr  basics.Address
	part  account.Participation
	stake uint64
}

func haMakeAccount(r *kit.Rand, idx, owner int, stake uint64) *haAccount {
	var vseed [32]byte
	r.Fill(vseed[:])
	pk, sk := crypto.VrfKeygenFromSeed(vseed)
	var a basics.Address
	r.Fill(a[:])
	// One-time keys come from the system RNG (OneTimeSignatureSecrets.Sign draws from its RNG under a
	// read lock only, so a deterministic non-thread-safe PRNG must not be used). Signature bytes do not
	// influence any protocol decision; sortition depends on the VRF keys and stakes, which are seeded.
	ots := crypto.GenerateOneTimeSignatureSecrets(0, 1)
	return &haAccount{idx: idx, owner: owner, addr: a, stake: stake,
		part: account.Participation{Parent: a, VRF: &crypto.VRFSecrets{PK: pk, SK: sk}, Voting: ots, FirstValid: 0, LastValid: 9000}}
}

func (a *haAccount) data() basics.AccountData {
	return basics.AccountData{Status: basics.Online, MicroAlgos: basics.MicroAlgos{Raw: a.stake},
		VoteID: a.part.VotingSecrets().OneTimeSignatureVerifier, SelectionID: a.part.VRFSecrets().PK}
}

func (a *haAccount) record() account.ParticipationRecordForRound {
	return account.ParticipationRecordForRound{ParticipationRecord: account.ParticipationRecord{
		ParticipationID: a.part.ID(), Account: a.part.Parent, FirstValid: a.part.FirstValid, LastValid: a.part.LastValid,
		KeyDilution: a.part.KeyDilution, EffectiveLast: a.part.LastValid, VRF: a.part.VRF, Voting: a.part.Voting}}
}

// haKeyManager implements KeyManager for one incarnation; its pointer identity also identifies the
// incarnation inside the pseudonode hook observers.
type haKeyManager struct {
	inc  *haInc
	accs []*haAccount
}

func (m *haKeyManager) VotingKeys(votingRound, _ basics.Round) []account.ParticipationRecordForRound {
	var out []account.ParticipationRecordForRound
	for _, a := range m.accs {
		if a.part.OverlapsInterval(votingRound, votingRound) {
			out = append(out, a.record())
		}
	}
	return out
}

func (m *haKeyManager) Record(basics.Address, basics.Round, account.ParticipationAction) {}

// ---------------------------------------------------------------------------------------------
// ledger

// haChain is the data of one ledger: blocks, certificates, next round. Reads of rounds that are not
// there return errors (agreement must cope), they never panic.
type haLedger struct {
	mu      sync.Mutex
	cl      *haCluster
	node    int // -1: reference/pristine view
	entries map[basics.Round]bookkeeping.Block
	certs   map[basics.Round]Certificate
	next    basics.Round
	notif   map[basics.Round]chan struct{}
	fired   map[basics.Round]bool
	want    map[basics.Round]Certificate // EnsureDigest requests not yet satisfied
	state   map[basics.Address]basics.AccountData
	total   basics.MicroAlgos
	version protocol.ConsensusVersion
}

func haNewLedger(cl *haCluster, node int) *haLedger {
	l := &haLedger{cl: cl, node: node, entries: map[basics.Round]bookkeeping.Block{}, certs: map[basics.Round]Certificate{},
		next: 1, notif: map[basics.Round]chan struct{}{}, fired: map[basics.Round]bool{}, want: map[basics.Round]Certificate{},
		state: cl.balances, total: cl.totalStake, version: cl.version}
	l.entries[0] = cl.genesis
	return l
}

func (l *haLedger) NextRound() basics.Round { l.mu.Lock(); defer l.mu.Unlock(); return l.next }

func (l *haLedger) Wait(r basics.Round) chan struct{} {
	l.mu.Lock()
	defer l.mu.Unlock()
	ch, ok := l.notif[r]
	if !ok {
		ch = make(chan struct{})
		l.notif[r] = ch
	}
	if l.next > r && !l.fired[r] {
		l.fired[r] = true
		close(ch)
	}
	return ch
}

func (l *haLedger) notifyLocked(r basics.Round) {
	ch, ok := l.notif[r]
	if !ok {
		ch = make(chan struct{})
		l.notif[r] = ch
	}
	if !l.fired[r] {
		l.fired[r] = true
		close(ch)
	}
}

var errHaFuture = fmt.Errorf("ha ledger: round not committed yet")

func (l *haLedger) Seed(r basics.Round) (committee.Seed, error) {
	l.mu.Lock()
	defer l.mu.Unlock()
	if r >= l.next {
		return committee.Seed{}, errHaFuture
	}
	return l.entries[r].Seed(), nil
}

func (l *haLedger) LookupDigest(r basics.Round) (crypto.Digest, error) {
	l.mu.Lock()
	defer l.mu.Unlock()
	if r >= l.next {
		return crypto.Digest{}, errHaFuture
	}
	return l.entries[r].Digest(), nil
}

func (l *haLedger) LookupAgreement(r basics.Round, a basics.Address) (basics.OnlineAccountData, error) {
	l.mu.Lock()
	defer l.mu.Unlock()
	if r >= l.next {
		return basics.OnlineAccountData{}, errHaFuture
	}
	return basics_testing.OnlineAccountData(l.state[a]), nil
}

func (l *haLedger) Circulation(r basics.Round, _ basics.Round) (basics.MicroAlgos, error) {
	l.mu.Lock()
	defer l.mu.Unlock()
	if r >= l.next {
		return basics.MicroAlgos{}, errHaFuture
	}
	return l.total, nil
}

func (l *haLedger) ConsensusParams(r basics.Round) (config.ConsensusParams, error) {
	return config.Consensus[l.version], nil
}

func (l *haLedger) ConsensusVersion(r basics.Round) (protocol.ConsensusVersion, error) {
	return l.version, nil
}

// add appends a block (commit by agreement, or catch-up). Returns false if it was not applicable.
func (l *haLedger) add(b bookkeeping.Block, c Certificate) bool {
	l.mu.Lock()
	defer l.mu.Unlock()
	r := b.Round()
	if r != l.next {
		return false
	}
	l.entries[r] = b
	l.certs[r] = c
	l.next = r + 1
	delete(l.want, r)
	l.notifyLocked(r)
	return true
}

func (l *haLedger) block(r basics.Round) (bookkeeping.Block, Certificate, bool) {
	l.mu.Lock()
	defer l.mu.Unlock()
	if r >= l.next {
		return bookkeeping.Block{}, Certificate{}, false
	}
	return l.entries[r], l.certs[r], true
}

// haLedgerView is the Ledger handed to one incarnation: reads pass through to the node's durable
// ledger; writes are commit events (reported to the monitors) and are discarded once the incarnation is dead.
type haLedgerView struct {
	*haLedger
	inc *haInc
}

func (v haLedgerView) EnsureValidatedBlock(e ValidatedBlock, c Certificate) { v.ensure(e.Block(), c, "EnsureValidatedBlock") }
func (v haLedgerView) EnsureBlock(e bookkeeping.Block, c Certificate)       { v.ensure(e, c, "EnsureBlock") }

func (v haLedgerView) ensure(b bookkeeping.Block, c Certificate, how string) {
	v.inc.hookPoint("ha.ledger.ensure.before")
	if v.inc.isDead() {
		return
	}
	v.cl.onCommit(v.inc, b, c, how)
	v.haLedger.add(b, c)
	v.inc.hookPoint("ha.ledger.ensure.after")
}

func (v haLedgerView) EnsureDigest(c Certificate, _ *AsyncVoteVerifier) {
	if v.inc.isDead() {
		return
	}
	v.cl.onEnsureDigest(v.inc, c)
	v.mu.Lock()
	if c.Round >= v.next {
		v.want[c.Round] = c
	}
	v.mu.Unlock()
}

// ---------------------------------------------------------------------------------------------
// clock (virtual time)

type haTimer struct {
	d     time.Duration
	ch    chan time.Time
	fired bool
}

// haClock is one zeroed clock of one incarnation. Zero returns a new object (older ones stay valid
// for Since, as the service keeps them in historicalClocks).
type haClock struct {
	inc  *haInc
	zero time.Duration // virtual time of the zero point
}

func (c *haClock) Zero() timers.Clock[TimeoutType] {
	n := c.inc.node
	nc := &haClock{inc: c.inc, zero: time.Duration(n.now.Load())}
	n.clockMu.Lock()
	n.cur = nc
	n.timers = map[TimeoutType]*haTimer{}
	n.clockMu.Unlock()
	c.inc.monitor.clearClock()
	return nc
}

func (c *haClock) Since() time.Duration { return time.Duration(c.inc.node.now.Load()) - c.zero }

func (c *haClock) TimeoutAt(d time.Duration, tt TimeoutType) <-chan time.Time {
	n := c.inc.node
	n.clockMu.Lock()
	if n.cur != c {
		// first use of a restored (decoded) clock, or of the initial clock
		n.cur = c
		n.timers = map[TimeoutType]*haTimer{}
	}
	t, ok := n.timers[tt]
	if !ok || t.d != d {
		t = &haTimer{d: d, ch: make(chan time.Time)}
		n.timers[tt] = t
	}
	fire := false
	if !t.fired && c.zero+d <= time.Duration(n.now.Load()) {
		t.fired = true
		fire = true
	}
	n.clockMu.Unlock()
	if fire {
		// same accounting as upstream's testingClock: one clock token per fired timer, consumed by the demux
		c.inc.monitor.inc(clockCoserviceType)
		close(t.ch)
	}
	return t.ch
}

func (c *haClock) Encode() []byte {
	var b [8]byte
	binary.LittleEndian.PutUint64(b[:], uint64(c.zero))
	return b[:]
}

func (c *haClock) Decode(b []byte) (timers.Clock[TimeoutType], error) {
	if len(b) != 8 {
		return nil, fmt.Errorf("ha clock: bad encoding")
	}
	return &haClock{inc: c.inc, zero: time.Duration(binary.LittleEndian.Uint64(b))}, nil
}

// nextDeadline returns the earliest armed, unfired timer of the node's current incarnation.
func (n *haNode) nextDeadline() (time.Duration, bool) {
	n.clockMu.Lock()
	defer n.clockMu.Unlock()
	if n.cur == nil {
		return 0, false
	}
	best, ok := time.Duration(0), false
	for _, t := range n.timers {
		if t.fired {
			continue
		}
		at := n.cur.zero + t.d
		if !ok || at < best {
			best, ok = at, true
		}
	}
	return best, ok
}

// fireDue fires every armed timer that is due at the node's current virtual time.
func (n *haNode) fireDue() int {
	inc := n.live()
	if inc == nil {
		return 0
	}
	var due []*haTimer
	n.clockMu.Lock()
	if n.cur != nil && n.cur.inc == inc {
		for _, t := range n.timers {
			if !t.fired && n.cur.zero+t.d <= time.Duration(n.now.Load()) {
				t.fired = true
				due = append(due, t)
			}
		}
	}
	n.clockMu.Unlock()
	for _, t := range due {
		inc.monitor.inc(clockCoserviceType)
		close(t.ch)
	}
	return len(due)
}

// ---------------------------------------------------------------------------------------------
// network

type haHandle struct {
	src int
	id  uint64
}

type haEndpoint struct {
	inc      *haInc
	votes    chan Message
	payloads chan Message
	bundles  chan Message
}

func (e *haEndpoint) Messages(tag protocol.Tag) <-chan Message {
	switch tag {
	case protocol.AgreementVoteTag:
		return e.votes
	case protocol.ProposalPayloadTag:
		return e.payloads
	case protocol.VoteBundleTag:
		return e.bundles
	}
	panic("ha endpoint: bad tag")
}

func (e *haEndpoint) Broadcast(tag protocol.Tag, data []byte) error {
	e.inc.cl.onSend(e.inc, tag, data, haAdversary-1)
	return nil
}

func (e *haEndpoint) Relay(h MessageHandle, tag protocol.Tag, data []byte) error {
	ex := haAdversary - 1
	if hh, ok := h.(*haHandle); ok && hh != nil {
		ex = hh.src
	}
	e.inc.cl.onSend(e.inc, tag, data, ex)
	return nil
}

func (e *haEndpoint) Disconnect(h MessageHandle) {
	if hh, ok := h.(*haHandle); ok && hh != nil {
		e.inc.cl.onDisconnect(e.inc, hh.src)
	}
}

func (e *haEndpoint) Start() {}

// haWire is one message put on the wire by a live honest incarnation or by the adversary.
type haWire struct {
	seq     uint64
	src     int // node index or haAdversary
	incNo   int
	tag     protocol.Tag
	data    []byte
	exclude int
	at      time.Duration
}

// ---------------------------------------------------------------------------------------------
// incarnations and nodes

type haRand struct {
	mu sync.Mutex
	r  *kit.Rand
}

func (r *haRand) Uint64() uint64 { r.mu.Lock(); defer r.mu.Unlock(); return r.r.Uint64() }

// haInc is one incarnation (one agreement.Service) of a node.
type haInc struct {
	cl      *haCluster
	node    *haNode
	no      int
	svc     *Service
	monitor *coserviceMonitor
	ep      *haEndpoint
	keys    *haKeyManager
	crashDB db.Accessor
	dbName  string

	dead          atomic.Bool
	sum           uint // coservice sum, guarded by cl.qmu
	persistFlight atomic.Int32
	wantInterrupt atomic.Int32
	persistFail   atomic.Bool // inject persist failures (see breakPersist)
	// leaked counts coservice tokens that production's failure path never returns: when a checkpoint carries a
	// persistence error, pseudonodeVotesTask.execute returns without monitor.dec. Counted when the errored
	// checkpoint action is executed (agreement.do hook); quiescence is sum == leaked.
	leaked atomic.Int32

	// position of the player, updated from the "agreement.submitted" hook (mainLoop goroutine)
	posMu  sync.Mutex
	round  basics.Round
	period period
	step   step
}

func (i *haInc) isDead() bool { return i.dead.Load() }

func (i *haInc) pos() (basics.Round, period, step) {
	i.posMu.Lock()
	defer i.posMu.Unlock()
	return i.round, i.period, i.step
}

// coserviceListener: called with the monitor's lock held.
func (i *haInc) inc(sum uint, _ map[coserviceType]uint) { i.setSum(sum) }
func (i *haInc) dec(sum uint, _ map[coserviceType]uint) { i.setSum(sum) }
func (i *haInc) setSum(sum uint) {
	i.cl.qmu.Lock()
	i.sum = sum
	if sum <= uint(i.leaked.Load()) {
		i.cl.qcond.Broadcast()
	}
	i.cl.qmu.Unlock()
}

type haNode struct {
	cl     *haCluster
	idx    int
	accs   []*haAccount
	ledger *haLedger
	rnd    *haRand

	now     atomic.Int64 // node's virtual time (ns); lags global time while the node is frozen
	clockMu sync.Mutex
	cur     *haClock
	timers  map[TimeoutType]*haTimer

	incMu     sync.Mutex
	cur_      *haInc
	incs      int
	downSince time.Duration
	restartAt time.Duration
	frozen    bool
	crashing  atomic.Int32

	delivered map[crypto.Digest]time.Duration // per incarnation: when a byte-identical message was last delivered
}

func (n *haNode) live() *haInc {
	n.incMu.Lock()
	defer n.incMu.Unlock()
	if n.cur_ == nil || n.cur_.isDead() {
		return nil
	}
	return n.cur_
}

// ---------------------------------------------------------------------------------------------
// cluster

type haCommit struct {
	Seq    uint64
	Node   int
	Inc    int
	Round  basics.Round
	Period period
	Digest crypto.Digest
	How    string
	At     time.Duration
}

type haCluster struct {
	c       *kit.Ctx
	mon     *haMonitors
	caseID  string
	version protocol.ConsensusVersion
	r       *kit.Rand

	nodes      []*haNode
	accounts   []*haAccount
	byAddr     map[basics.Address]*haAccount
	balances   map[basics.Address]basics.AccountData
	totalStake basics.MicroAlgos
	genesis    bookkeeping.Block
	pool       execpool.BacklogPool
	log        logging.Logger

	nowA  atomic.Int64 // global virtual time (written by the scheduler goroutine only)
	nonce bool
	nonceCtr atomic.Int64

	qmu   sync.Mutex
	qcond *sync.Cond

	outMu  sync.Mutex
	outbox []*haWire

	crashMu sync.Mutex
	armed   map[string]*haArm // key: node|hook
	crashes []haCrashRec

	evMu  sync.Mutex
	trace []string // bounded schedule/event log for witnesses
	fp    uint64   // running fingerprint of the external schedule

	handleSeq atomic.Uint64
	failed    atomic.Bool // harness failure inside the run (watchdog etc.)
	failMsg   string
}

type haArm struct {
	node int
	hook string
	nth  int
	hits int
}

type haCrashRec struct {
	Node   int
	Inc    int
	Hook   string
	Hit    int
	Round  basics.Round
	Period period
	Step   step
	At     time.Duration
	Seq    uint64
}

var haDBCounter atomic.Uint64

// registries used by the global verifhook observers to find the incarnation
var (
	haBySvc     sync.Map // *Service -> *haInc
	haByPersist sync.Map // *asyncPersistenceLoop -> *haInc
	haHookOnce  sync.Once
)

func haSeq() uint64 { return verifhook.Seq.Add(1) }

func (cl *haCluster) logf(format string, a ...any) {
	s := fmt.Sprintf(format, a...)
	cl.evMu.Lock()
	if len(cl.trace) < 6000 {
		cl.trace = append(cl.trace, fmt.Sprintf("t=%v %s", cl.Now(), s))
	}
	cl.evMu.Unlock()
}

// sched records an external scheduling decision: it is part of the schedule fingerprint.
func (cl *haCluster) sched(format string, a ...any) {
	s := fmt.Sprintf(format, a...)
	cl.evMu.Lock()
	for i := 0; i < len(s); i++ {
		cl.fp = (cl.fp ^ uint64(s[i])) * 1099511628211
	}
	if len(cl.trace) < 6000 {
		cl.trace = append(cl.trace, fmt.Sprintf("t=%v %s", cl.Now(), s))
	}
	cl.evMu.Unlock()
}

func (cl *haCluster) traceTail(n int) []string {
	cl.evMu.Lock()
	defer cl.evMu.Unlock()
	if len(cl.trace) <= n {
		return append([]string(nil), cl.trace...)
	}
	return append([]string(nil), cl.trace[len(cl.trace)-n:]...)
}

type haClusterCfg struct {
	Nodes     int
	Stakes    []uint64 // per honest node
	AdvStakes []uint64 // adversary accounts
	Version   protocol.ConsensusVersion
}

func haNewCluster(c *kit.Ctx, mon *haMonitors, r *kit.Rand, caseID string, cfg haClusterCfg) *haCluster {
	cl := &haCluster{c: c, mon: mon, caseID: caseID, version: cfg.Version, r: r, byAddr: map[basics.Address]*haAccount{},
		balances: map[basics.Address]basics.AccountData{}, armed: map[string]*haArm{}, fp: 14695981039346656037}
	cl.qcond = sync.NewCond(&cl.qmu)
	lg := logging.NewLogger()
	lg.SetOutput(io.Discard)
	lg.SetLevel(logging.Error)
	cl.log = lg
	var seed committee.Seed
	r.Fill(seed[:])
	cl.genesis = bookkeeping.Block{BlockHeader: bookkeeping.BlockHeader{Round: 0, Seed: seed}}
	idx := 0
	for i := 0; i < cfg.Nodes; i++ {
		n := &haNode{cl: cl, idx: i, rnd: &haRand{r: kit.NewRand(r.Uint64(), uint64(i))}, timers: map[TimeoutType]*haTimer{}}
		a := haMakeAccount(r, idx, i, cfg.Stakes[i])
		idx++
		n.accs = []*haAccount{a}
		cl.accounts = append(cl.accounts, a)
		cl.nodes = append(cl.nodes, n)
	}
	for _, st := range cfg.AdvStakes {
		a := haMakeAccount(r, idx, haAdversary, st)
		idx++
		cl.accounts = append(cl.accounts, a)
	}
	for _, a := range cl.accounts {
		cl.byAddr[a.addr] = a
		cl.balances[a.addr] = a.data()
		cl.totalStake.Raw += a.stake
	}
	for _, n := range cl.nodes {
		n.ledger = haNewLedger(cl, n.idx)
	}
	cl.pool = haSharedPool()
	haInstallHooks()
	return cl
}

var (
	haPoolOnce sync.Once
	haPool     execpool.BacklogPool
)

// one verification pool for the whole process (each Service would otherwise start NumCPU workers)
func haSharedPool() execpool.BacklogPool {
	haPoolOnce.Do(func() {
		haPool = execpool.MakeBacklog(execpool.MakePool(nil), 0, execpool.HighPriority, nil)
	})
	return haPool
}

// startInc starts a new incarnation of node n on a crash DB holding `raw` (nil: empty DB).
func (cl *haCluster) startInc(n *haNode, raw []byte, hasRaw bool) *haInc {
	name := fmt.Sprintf("ha-crash-%d-%d", haDBCounter.Add(1), n.idx)
	acc, err := db.MakeAccessor(name, false, true)
	if err != nil {
		cl.fail("crash db: %v", err)
		return nil
	}
	if hasRaw {
		err = acc.Atomic(func(ctx context.Context, tx *sql.Tx) error {
			if err := agreeInstallDatabase(tx); err != nil {
				return err
			}
			_, err := tx.Exec("insert or replace into Service (rowid, data) values (1, ?)", raw)
			return err
		})
		if err != nil {
			cl.fail("crash db snapshot: %v", err)
			return nil
		}
	}
	n.incMu.Lock()
	n.incs++
	inc := &haInc{cl: cl, node: n, no: n.incs, crashDB: acc, dbName: name}
	n.incMu.Unlock()
	inc.monitor = &coserviceMonitor{id: n.idx}
	inc.monitor.coserviceListener = inc
	inc.ep = &haEndpoint{inc: inc, votes: make(chan Message, 4096), payloads: make(chan Message, 4096), bundles: make(chan Message, 4096)}
	inc.keys = &haKeyManager{inc: inc, accs: n.accs}
	clock := &haClock{inc: inc, zero: time.Duration(n.now.Load())}
	params := Parameters{
		Logger:         cl.log,
		Ledger:         haLedgerView{haLedger: n.ledger, inc: inc},
		Network:        inc.ep,
		KeyManager:     inc.keys,
		BlockValidator: testBlockValidator{},
		BlockFactory:   haBlockFactory{node: n.idx, cl: cl},
		Clock:          clock,
		Accessor:       acc,
		Local:          config.Local{CadaverSizeTarget: 0},
		RandomSource:   n.rnd,
		BacklogPool:    cl.pool,
	}
	svc, err := MakeService(params)
	if err != nil {
		cl.fail("MakeService: %v", err)
		return nil
	}
	svc.monitor = inc.monitor
	inc.svc = svc
	haBySvc.Store(svc, inc)
	haByPersist.Store(svc.persistenceLoop, inc)
	n.clockMu.Lock()
	n.cur = nil
	n.timers = map[TimeoutType]*haTimer{}
	n.clockMu.Unlock()
	n.delivered = map[crypto.Digest]time.Duration{}
	n.incMu.Lock()
	n.cur_ = inc
	n.incMu.Unlock()
	inc.monitor.inc(demuxCoserviceType) // the demux is busy until its first next(), as in upstream's setupAgreement
	svc.Start()
	return inc
}

// haBlockFactory is deterministic per (round, proposer): the block depends on the round only and
// FinishBlock adds the seed and the proposer.
// In the observation lane of C02 (cl.nonce) every assembled block carries a fresh nonce, like the
// real transaction pool whose block differs after a restart.
type haBlockFactory struct {
	node int
	cl   *haCluster
}

func (f haBlockFactory) AssembleBlock(r basics.Round, _ []basics.Address) (UnfinishedBlock, error) {
	h := bookkeeping.BlockHeader{Round: r}
	if f.cl.nonce {
		h.TimeStamp = f.cl.nonceCtr.Add(1)
	}
	return testValidatedBlock{Inside: bookkeeping.Block{BlockHeader: h}}, nil
}

func (cl *haCluster) fail(format string, a ...any) {
	if cl.failed.CompareAndSwap(false, true) {
		cl.failMsg = fmt.Sprintf(format, a...)
	}
	cl.qmu.Lock()
	cl.qcond.Broadcast()
	cl.qmu.Unlock()
}

// readCrashRow reads the durable content of an incarnation's crash DB (nil,false if no row).
func haReadCrashRow(acc db.Accessor) (raw []byte, ok bool, err error) {
	err = acc.Atomic(func(ctx context.Context, tx *sql.Tx) error {
		var n int
		if err := tx.QueryRow("select count(*) from sqlite_master where type='table' and name='Service'").Scan(&n); err != nil {
			return err
		}
		if n == 0 {
			return nil
		}
		row := tx.QueryRow("select data from Service where rowid = 1")
		var b []byte
		switch err := row.Scan(&b); err {
		case nil:
			raw, ok = b, true
			return nil
		case sql.ErrNoRows:
			return nil
		default:
			return err
		}
	})
	return
}

// crash abandons incarnation inc at hook point `hook`: from now on everything it does is discarded.
// The durable state (crash DB row) is captured at this instant and the node restarts on it later.
func (cl *haCluster) crash(inc *haInc, hook string, hit int) bool {
	n := inc.node
	// the crash procedure (freeze the incarnation, snapshot, bookkeeping) must be atomic for the scheduler:
	// while it runs the cluster does not count as quiescent and the node is not restartable
	n.crashing.Add(1)
	defer func() {
		n.crashing.Add(-1)
		cl.qmu.Lock()
		cl.qcond.Broadcast()
		cl.qmu.Unlock()
	}()
	if !inc.dead.CompareAndSwap(false, true) {
		return false
	}
	raw, ok, err := haReadCrashRow(inc.crashDB)
	if err != nil {
		cl.fail("snapshot crash db: %v", err)
	}
	r, p, s := inc.pos()
	rec := haCrashRec{Node: n.idx, Inc: inc.no, Hook: hook, Hit: hit, Round: r, Period: p, Step: s, At: cl.nowOf(n), Seq: haSeq()}
	cl.crashMu.Lock()
	cl.crashes = append(cl.crashes, rec)
	cl.crashMu.Unlock()
	n.incMu.Lock()
	n.downSince = rec.At
	n.incMu.Unlock()
	cl.logf("CRASH node=%d inc=%d hook=%s hit=%d pos=(%d,%d,%d) snapshot=%v", n.idx, inc.no, hook, hit, r, p, s, ok)
	cl.mon.onCrash(cl, rec, raw, ok)
	// hand the snapshot to the restart
	n.incMu.Lock()
	nSnap := haSnap{raw: raw, ok: ok}
	n.incMu.Unlock()
	cl.setSnap(n, nSnap)
	// shut the abandoned service down in the background so that its goroutines go away
	go func() {
		defer func() { recover() }()
		inc.svc.Shutdown()
		inc.crashDB.Close()
		haBySvc.Delete(inc.svc)
		haByPersist.Delete(inc.svc.persistenceLoop)
	}()
	return true
}

type haSnap struct {
	raw []byte
	ok  bool
}

var haSnaps sync.Map // *haNode -> haSnap

func (cl *haCluster) setSnap(n *haNode, s haSnap) { haSnaps.Store(n, s) }
func (cl *haCluster) takeSnap(n *haNode) haSnap {
	v, ok := haSnaps.LoadAndDelete(n)
	if !ok {
		return haSnap{}
	}
	return v.(haSnap)
}

// Now returns the global virtual time.
func (cl *haCluster) Now() time.Duration { return time.Duration(cl.nowA.Load()) }
func (cl *haCluster) setNow(t time.Duration) { cl.nowA.Store(int64(t)) }

func (cl *haCluster) nowOf(n *haNode) time.Duration { return time.Duration(n.now.Load()) }

// restart starts a new incarnation of a down node on the snapshot taken at its crash.
func (cl *haCluster) restart(n *haNode) {
	s := cl.takeSnap(n)
	n.now.Store(int64(cl.Now()))
	cl.sched("RESTART node=%d", n.idx)
	inc := cl.startInc(n, s.raw, s.ok)
	if inc != nil {
		cl.mon.onRestart(cl, n.idx, inc.no)
	}
}

// arm a crash at the nth hit of hook by node (counted per arm).
func (cl *haCluster) arm(node int, hook string, nth int) {
	cl.crashMu.Lock()
	cl.armed[fmt.Sprintf("%d|%s", node, hook)] = &haArm{node: node, hook: hook, nth: nth}
	cl.crashMu.Unlock()
}

func (cl *haCluster) disarmAll() {
	cl.crashMu.Lock()
	cl.armed = map[string]*haArm{}
	cl.crashMu.Unlock()
}

// hookPoint is called (from observers and from the harness ledger) when a live incarnation reaches a
// named crash point. It returns true if the incarnation was crashed here.
func (i *haInc) hookPoint(hook string) bool {
	if i.isDead() {
		return false
	}
	cl := i.cl
	cl.mon.countHook(hook)
	cl.crashMu.Lock()
	a := cl.armed[fmt.Sprintf("%d|%s", i.node.idx, hook)]
	fire := false
	hit := 0
	if a != nil {
		a.hits++
		hit = a.hits
		if a.hits == a.nth {
			fire = true
			delete(cl.armed, fmt.Sprintf("%d|%s", i.node.idx, hook))
		}
	}
	cl.crashMu.Unlock()
	if fire {
		return cl.crash(i, hook, hit)
	}
	return false
}

// ---------------------------------------------------------------------------------------------
// verifhook observers (global; dispatch to the incarnation through the registries)

const (
	haHookSubmitted  = "agreement.submitted"
	haHookDo         = "agreement.do"
	haHookPersistB   = "agreement.persist.before"
	haHookPersistA   = "agreement.persist.after"
	haHookVotesB     = "agreement.pseudonode.votes.beforewait"
	haHookVotesA     = "agreement.pseudonode.votes.afterwait"
	haHookAttested   = "ha.submitted.attest"  // derived: submitted with a persistent (attest) action
	haHookDoRelayOwn = "ha.do.relay-own-vote" // derived: about to relay one of the node's own votes
)

func haInstallHooks() {
	haHookOnce.Do(func() {
		verifhook.SetObserver(haHookSubmitted, func(_ string, v interface{}) {
			x := v.(verifSubmitted)
			iv, ok := haBySvc.Load(x.S)
			if !ok {
				return
			}
			inc := iv.(*haInc)
			inc.posMu.Lock()
			inc.round, inc.period, inc.step = x.Status.Round, x.Status.Period, x.Status.Step
			inc.posMu.Unlock()
			if x.Event.t() == roundInterruption {
				if inc.wantInterrupt.Load() > 0 {
					inc.wantInterrupt.Add(-1)
					inc.cl.qmu.Lock()
					inc.cl.qcond.Broadcast()
					inc.cl.qmu.Unlock()
				}
			}
			if inc.isDead() {
				return
			}
			inc.cl.mon.onSubmitted(inc, x)
			if persistent(x.Actions) {
				inc.hookPoint(haHookAttested)
			}
			inc.hookPoint(haHookSubmitted)
		})
		verifhook.SetObserver(haHookDo, func(_ string, v interface{}) {
			x := v.(verifDo)
			iv, ok := haBySvc.Load(x.S)
			if !ok {
				return
			}
			inc := iv.(*haInc)
			if ca, ok := x.Action.(checkpointAction); ok && ca.Err != nil && ca.done != nil {
				inc.leaked.Add(1)
			}
			if inc.isDead() {
				return
			}
			if na, ok := x.Action.(networkAction); ok && na.T == relay && na.Tag == protocol.AgreementVoteTag && na.h == nil {
				inc.hookPoint(haHookDoRelayOwn)
			}
			inc.hookPoint(haHookDo)
		})
		verifhook.SetObserver(haHookPersistB, func(_ string, v interface{}) {
			x := v.(verifPersist)
			iv, ok := haByPersist.Load(x.Loop)
			if !ok {
				return
			}
			inc := iv.(*haInc)
			inc.persistFlight.Add(1)
			if inc.isDead() {
				return
			}
			if inc.hookPoint(haHookPersistB) {
				return
			}
			if d := inc.cl.mon.persistDelay; d > 0 {
				// widen the window between "attest produced" and "state durable": a vote released without
				// waiting for the checkpoint then reaches the wire before persist-completed, deterministically.
				time.Sleep(d)
			}
			if inc.persistFail.Load() {
				haBreakDB(inc.crashDB)
			}
		})
		verifhook.SetObserver(haHookPersistA, func(_ string, v interface{}) {
			x := v.(verifPersist)
			iv, ok := haByPersist.Load(x.Loop)
			if !ok {
				return
			}
			inc := iv.(*haInc)
			defer func() {
				inc.persistFlight.Add(-1)
				inc.cl.qmu.Lock()
				inc.cl.qcond.Broadcast()
				inc.cl.qmu.Unlock()
			}()
			if inc.persistFail.Load() {
				haHealDB(inc.crashDB)
			}
			if inc.isDead() {
				return
			}
			inc.cl.mon.onPersisted(inc, x)
			inc.hookPoint(haHookPersistA)
		})
		votes := func(name string) verifhook.Observer {
			return func(_ string, v interface{}) {
				x := v.(verifVotesTask)
				km, ok := x.Keys.(*haKeyManager)
				if !ok {
					return
				}
				inc := km.inc
				if inc.isDead() {
					return
				}
				inc.cl.mon.onVotesTask(inc, name, x)
				inc.hookPoint(name)
			}
		}
		verifhook.SetObserver(haHookVotesB, votes(haHookVotesB))
		verifhook.SetObserver(haHookVotesA, votes(haHookVotesA))
	})
}

// haBreakDB makes the next insert into the crash DB fail without losing the stored row
// (a disk that refuses a write); haHealDB removes the fault.
func haBreakDB(acc db.Accessor) {
	acc.Atomic(func(ctx context.Context, tx *sql.Tx) error {
		_, err := tx.Exec("create trigger if not exists ha_fail before insert on Service begin select raise(abort, 'ha injected write failure'); end;")
		return err
	})
}

func haHealDB(acc db.Accessor) {
	acc.Atomic(func(ctx context.Context, tx *sql.Tx) error {
		_, err := tx.Exec("drop trigger if exists ha_fail")
		return err
	})
}

// ---------------------------------------------------------------------------------------------
// quiescence

// quiet reports whether every live incarnation is blocked in its demux with nothing in flight.
func (cl *haCluster) quietLocked() bool {
	for _, n := range cl.nodes {
		if n.crashing.Load() != 0 {
			return false
		}
		inc := n.live()
		if inc == nil {
			continue
		}
		if inc.sum != uint(inc.leaked.Load()) || inc.persistFlight.Load() != 0 || inc.wantInterrupt.Load() != 0 {
			return false
		}
		if inc.svc.persistenceLoop != nil && len(inc.svc.persistenceLoop.pending) != 0 {
			return false
		}
	}
	return true
}

// waitQuiet blocks until the cluster is quiescent. The wall-clock limit is a watchdog only: hitting it
// makes the run inconclusive (harness error), never a verdict.
func (cl *haCluster) waitQuiet() bool {
	deadline := time.Now().Add(90 * time.Second)
	stop := make(chan struct{})
	go func() {
		t := time.NewTicker(20 * time.Millisecond)
		defer t.Stop()
		for {
			select {
			case <-stop:
				return
			case <-t.C:
				cl.qmu.Lock()
				cl.qcond.Broadcast()
				cl.qmu.Unlock()
			}
		}
	}()
	defer close(stop)
	cl.qmu.Lock()
	defer cl.qmu.Unlock()
	for !cl.quietLocked() {
		if cl.failed.Load() {
			return false
		}
		if time.Now().After(deadline) {
			cl.qmu.Unlock()
			cl.fail("watchdog: cluster did not become quiescent within 90s (sums: %s)", cl.sums())
			cl.qmu.Lock()
			return false
		}
		cl.qcond.Wait()
	}
	return !cl.failed.Load()
}

func (cl *haCluster) sums() string {
	s := ""
	for _, n := range cl.nodes {
		if inc := n.live(); inc != nil {
			inc.monitor.Mutex.Lock()
			s += fmt.Sprintf("[n%d inc%d %v pf=%d wi=%d]", n.idx, inc.no, inc.monitor.c, inc.persistFlight.Load(), inc.wantInterrupt.Load())
			inc.monitor.Mutex.Unlock()
		}
	}
	return s
}

// ---------------------------------------------------------------------------------------------
// wire

func (cl *haCluster) onSend(inc *haInc, tag protocol.Tag, data []byte, exclude int) {
	if inc.isDead() {
		return // a crashed incarnation: the network "lost" whatever it tried to send after the crash point
	}
	w := &haWire{seq: haSeq(), src: inc.node.idx, incNo: inc.no, tag: tag, data: data, exclude: exclude, at: cl.nowOf(inc.node)}
	cl.mon.onWire(cl, inc, w)
	cl.outMu.Lock()
	cl.outbox = append(cl.outbox, w)
	cl.outMu.Unlock()
}

func (cl *haCluster) onDisconnect(inc *haInc, peer int) {
	cl.mon.c.Count("disconnect_hints", 1)
}

func (cl *haCluster) drainOutbox() []*haWire {
	cl.outMu.Lock()
	out := cl.outbox
	cl.outbox = nil
	cl.outMu.Unlock()
	sort.SliceStable(out, func(i, j int) bool { return out[i].seq < out[j].seq })
	return out
}

// deliver hands one message to the live incarnation of dst (lost if the node is down).
// During the asynchronous phase (dedup=true) byte-identical copies reaching a node within one virtual second
// (the relays of one broadcast by the other nodes) are collapsed into one delivery, which is a legal
// loss and keeps the message count linear; later re-broadcasts of the same bytes (partition recovery) get
// through. dup=true forces delivery of a duplicate. In the synchronous tail nothing is suppressed.
func (cl *haCluster) deliver(dst int, src int, tag protocol.Tag, data []byte, dup bool, dedup bool) bool {
	n := cl.nodes[dst]
	inc := n.live()
	if inc == nil {
		return false
	}
	if dedup {
		h := crypto.Hash(append([]byte(tag), data...))
		if at, seen := n.delivered[h]; seen && !dup && cl.Now()-at < time.Second {
			return false
		}
		n.delivered[h] = cl.Now()
	}
	// the tokenizer drops undecodable input without telling the coservice monitor; pre-check so that the
	// quiescence accounting stays exact
	if !haDecodable(tag, data) {
		return false
	}
	var ch chan Message
	switch tag {
	case protocol.AgreementVoteTag:
		ch = inc.ep.votes
	case protocol.ProposalPayloadTag:
		ch = inc.ep.payloads
	case protocol.VoteBundleTag:
		ch = inc.ep.bundles
	default:
		return false
	}
	inc.monitor.inc(tokenizerCoserviceType)
	select {
	case ch <- Message{MessageHandle: &haHandle{src: src, id: cl.handleSeq.Add(1)}, Data: data}:
		return true
	default:
		inc.monitor.dec(tokenizerCoserviceType)
		cl.mon.c.Count("inbox_overflow_drops", 1)
		return false
	}
}

func haDecodable(tag protocol.Tag, data []byte) bool {
	switch tag {
	case protocol.AgreementVoteTag:
		_, err := decodeVote(data)
		return err == nil
	case protocol.VoteBundleTag:
		_, err := decodeBundle(data)
		return err == nil
	case protocol.ProposalPayloadTag:
		o, err := decodeProposal(data)
		if err != nil {
			return false
		}
		return !proposalCarriesInvalidTxn(o.(compoundMessage).Proposal)
	}
	return false
}

// catchup copies blocks (with their certificates) that node dst is missing from the canonical chain
// into its ledger, as the catch-up service would; the agreement service then sees a round interruption.
func (cl *haCluster) catchup(dst int, upto basics.Round) int {
	n := cl.nodes[dst]
	cnt := 0
	for {
		nr := n.ledger.NextRound()
		if nr >= upto {
			break
		}
		b, c, ok := cl.mon.canonical(nr)
		if !ok {
			break
		}
		inc := n.live()
		var playerRound basics.Round
		if inc != nil {
			playerRound, _, _ = inc.pos()
			if playerRound == nr || playerRound == 0 {
				// the demux is waiting on Wait(playerRound): it will emit exactly one roundInterruption
				inc.wantInterrupt.Add(1)
			}
		}
		if !n.ledger.add(b, c) {
			if inc != nil && (playerRound == nr || playerRound == 0) {
				inc.wantInterrupt.Add(-1)
			}
			break
		}
		cnt++
		cl.sched("CATCHUP node=%d round=%d", dst, nr)
		cl.mon.c.Count("catchup_blocks", 1)
		if !cl.waitQuiet() {
			break
		}
	}
	return cnt
}

// shutdown stops every live incarnation.
func (cl *haCluster) shutdown() {
	cl.disarmAll()
	var wg sync.WaitGroup
	for _, n := range cl.nodes {
		inc := n.live()
		if inc == nil {
			continue
		}
		inc.dead.Store(true)
		wg.Add(1)
		go func(inc *haInc) {
			defer wg.Done()
			defer func() { recover() }()
			done := make(chan struct{})
			go func() {
				defer func() { recover() }()
				inc.svc.Shutdown()
				close(done)
			}()
			select {
			case <-done:
			case <-time.After(30 * time.Second):
			}
			inc.crashDB.Close()
			haBySvc.Delete(inc.svc)
			haByPersist.Delete(inc.svc.persistenceLoop)
		}(inc)
	}
	wg.Wait()
	for _, n := range cl.nodes {
		haSnaps.Delete(n)
	}
}
