package agreement

// HA parts: one test function per property (C01, C02, C03, C05). Every part runs cluster schedules with
// all monitors attached; it decides its own property and mentions findings of the sibling properties as
// observations (their own parts decide them).

import (
	"fmt"
	"os"
	"runtime"
	"sort"
	"strconv"
	"sync"
	"testing"
	"time"

	"verif.local/kit"
)

func haWorkers() int {
	if s := os.Getenv("VERIF_HA_WORKERS"); s != "" {
		if v, err := strconv.Atoi(s); err == nil && v > 0 {
			return v
		}
	}
	w := runtime.GOMAXPROCS(0) / 2
	if w < 2 {
		w = 2
	}
	if w > 8 {
		w = 8
	}
	return w
}

// haRunCases executes the cases on a pool of workers (case i always uses PRNG stream (cs.Stream, i), so the
// set of schedules does not depend on the number of workers) and calls each() sequentially per result.
func haRunCases(c *kit.Ctx, cases []*haCase, each func(*haResult)) {
	w := haWorkers()
	jobs := make(chan *haCase)
	results := make(chan *haResult, w)
	var wg sync.WaitGroup
	for i := 0; i < w; i++ {
		wg.Add(1)
		go func() {
			defer wg.Done()
			for cs := range jobs {
				res := haExec(c, cs)
				results <- &res
			}
		}()
	}
	go func() {
		for i, cs := range cases {
			cs.Ord = i
			if c.Violations() > 20 && os.Getenv("VERIF_HA_NOLIMIT") == "" {
				break
			}
			jobs <- cs
		}
		close(jobs)
		wg.Wait()
		close(results)
	}()
	for res := range results {
		each(res)
	}
}

type haAgg struct {
	c        *kit.Ctx
	harness  []string
	tailVirt []time.Duration
	tailPer  []int
	crashAt  map[string]int
}

func haNewAgg(c *kit.Ctx) *haAgg { return &haAgg{c: c, crashAt: map[string]int{}} }

// common bookkeeping for every finished schedule
func (a *haAgg) common(res *haResult) {
	c := a.c
	cs := res.Case
	c.Count("schedules", 1)
	if res.HarnessFail != "" {
		a.harness = append(a.harness, fmt.Sprintf("case %s/%d: %s", c.Prop, cs.Ord, res.HarnessFail))
		c.Count("harness_failures", 1)
		fmt.Printf("HA-HARNESS case=%s/%d %s\n  trace tail: %v\n", c.Prop, cs.Ord, res.HarnessFail, tailOf(res.Trace, 30))
		return
	}
	st := res.Stats
	c.Eval(st.Commits*3 + st.VotesOnWire)
	c.Count("commit_events", st.Commits)
	c.Count("rounds_decided", st.Rounds)
	c.Count("rounds_decided_in_period_gt0", st.PeriodGT0)
	c.Count("commits_by_digest_only", st.DigestOnly)
	c.Count("certificates_checked", st.CertsOK)
	c.Count("certificates_with_equivocation_pairs", st.CertPairs)
	c.Count("votes_on_wire_from_honest_keys", st.VotesOnWire)
	c.Count("own_votes_released", st.OwnVotes)
	c.Count("votes_reemitted_same_value_after_restore", st.ReEmitted)
	c.Count("crashes", st.Crashes)
	c.Count("crashes_between_attest_and_send", st.BetweenAP)
	c.Count("commits_after_a_crash", st.CommitAfterCrh)
	if st.ObsPropose > 0 {
		c.Count("observation_lane_reproposed_different_block_after_restart", st.ObsPropose)
	}
	c.Count("partition_changes", res.Flips)
	c.Count("distinct_node_positions_at_partition_changes", res.FlipPos)
	c.Count("messages_delivered", res.Deliveries)
	c.Count("messages_dropped", res.Drops)
	c.Count("scheduler_steps", res.Steps)
	if res.TailOK {
		c.Count("schedules_with_tail_commit", 1)
		a.tailVirt = append(a.tailVirt, res.TailVirtual)
		a.tailPer = append(a.tailPer, res.TailPeriods)
		c.Max("max_tail_virtual_ms", res.TailVirtual.Milliseconds())
		c.Max("max_tail_periods", int64(res.TailPeriods))
		if res.FastRecovery {
			c.Count("tails_needing_fast_recovery", 1)
		}
	} else {
		c.Count("schedules_without_tail_commit", 1)
		fmt.Printf("HA-NOTAIL case=%s/%d sync_round=%d sync_pos=%v virtual_end=%v steps=%d rounds=%d\n", c.Prop, cs.Ord, res.SyncRound, res.SyncPos, res.VirtualEnd, res.Steps, st.Rounds)
	}
	if st.MinSlack >= 0 {
		// smallest observed margin of a certificate over the cert threshold (kept as the negated max of negatives)
		c.Max("neg_min_cert_slack", -st.MinSlack)
	}
	for _, cr := range res.CrashRecs {
		a.crashAt[cr.Hook]++
		c.Count("crash@"+cr.Hook, 1)
	}
	for h, n := range res.HookHits {
		c.Count("hookhits@"+h, n)
	}
}

func tailOf(s []string, n int) []string {
	if len(s) > n {
		return s[len(s)-n:]
	}
	return s
}

// report turns the findings of a run into violations of this part's property / observations for siblings.
func (a *haAgg) report(res *haResult) {
	c := a.c
	seen := map[string]bool{}
	for _, f := range res.Findings {
		if seen[f.Prop+f.Key] {
			continue
		}
		seen[f.Prop+f.Key] = true
		f.Witness["case"] = res.Case
		f.Witness["seed"] = c.Seed
		f.Witness["replay"] = fmt.Sprintf("VERIF_SEED=%d VERIF_TIER=%s VERIF_HA_CASE=%s/%d <test binary> -test.run TestVerifHADebug", c.Seed, c.Tier, c.Prop, res.Case.Ord)
		f.Witness["schedule_fingerprint"] = fmt.Sprintf("%016x", res.FP)
		if f.Prop == c.Prop {
			c.Violation(f.Key, f.Witness)
		} else {
			c.Count("sibling_findings_"+f.Prop, 1)
			c.Observation("schedule %d/%d also showed a %s finding (%s); that property's own check decides it", res.Case.Stream, res.Case.Idx, f.Prop, f.Key)
		}
	}
}

func (a *haAgg) finish() {
	if len(a.harness) > 0 {
		a.c.Harness("%d schedule(s) hit a harness failure (inconclusive): %v", len(a.harness), a.harness[:min(3, len(a.harness))])
	}
}

func haDist(v []int) map[string]int {
	m := map[string]int{}
	for _, x := range v {
		m[strconv.Itoa(x)]++
	}
	return m
}

func haDurPct(v []time.Duration) map[string]string {
	if len(v) == 0 {
		return nil
	}
	s := append([]time.Duration(nil), v...)
	sort.Slice(s, func(i, j int) bool { return s[i] < s[j] })
	return map[string]string{"min": s[0].String(), "p50": s[len(s)/2].String(), "p90": s[len(s)*9/10].String(), "max": s[len(s)-1].String()}
}

// ---------------------------------------------------------------------------------------------
// case generation

var haCrashHooks = []string{haHookAttested, haHookPersistB, haHookPersistA, haHookVotesB, haHookVotesA, haHookDoRelayOwn,
	"ha.ledger.ensure.before", "ha.ledger.ensure.after", haHookDo, haHookSubmitted, "quiescent"}

// haGenCase draws one schedule description. profile selects the emphasis.
func haGenCase(c *kit.Ctx, stream uint64, i int, profile string) *haCase {
	r := c.Rand(stream, uint64(i), 0x67656e)
	cs := &haCase{Idx: i, Stream: stream, PersistFailNode: -1, TailRnds: 2, PrefixCapS: 120}
	cs.Nodes = []int{3, 4, 5, 7}[i%4]
	if r.Chance(1, 3) {
		cs.Stake = "skewed"
	} else {
		cs.Stake = "equal"
	}
	cs.PrefixRnds = r.Range(2, c.N(3, 4))
	cs.FlushTail = r.Bool()
	nets := []string{"S0", "S1", "S2", "S3", "S4", "mix", "S6", "S7"}
	cs.Net = nets[(i/4)%len(nets)]
	if i%11 == 10 {
		cs.Net = "S7"
	}
	switch cs.Net {
	case "S1", "mix":
		cs.DelayMaxMs = []int{5, 50, 500, 3000}[r.Intn(4)]
		cs.DropPm = []int{0, 20, 80, 200}[r.Intn(4)]
		cs.DupPm = []int{0, 30, 150}[r.Intn(3)]
	case "S2":
		cs.DelayMaxMs = []int{0, 50}[r.Intn(2)]
	case "S3":
		cs.DelayMaxMs = []int{0, 20}[r.Intn(2)]
		cs.DropPm = []int{0, 30}[r.Intn(2)]
	case "S6":
		cs.DelayMaxMs = []int{0, 0, 20}[r.Intn(3)]
	}
	cs.FlipPm = []int{150, 400, 800}[r.Intn(3)]
	cs.HoldHeal = r.Chance(1, 3)
	s7 := cs.Net == "S7"
	if s7 {
		// S7 is directed at one-period quorum intersection: honest nodes only, delays only, a quorum must be
		// reachable without one node (N >= 5, equal stake)
		cs.Nodes = []int{5, 7}[(i/2)%2]
		cs.Stake = "equal"
	}
	s8 := profile == "progress" && i%8 == 5
	if s8 {
		// S8: directed prefix in which both a bottom and a value next-quorum exist in one period and the nodes
		// are split between them (honest nodes, delays and losses only)
		cs.Nodes = []int{5, 7}[(i/8)%2]
		cs.Stake = "equal"
	}
	defer func() {
		if s7 {
			cs.Net, cs.Adv, cs.AdvPct, cs.AdvAccts = "S7", "none", 0, 0
			cs.Crashes, cs.QCrashPm = nil, 0
		}
		if s8 {
			cs.Net, cs.Adv, cs.AdvPct, cs.AdvAccts = "S8", "none", 0, 0
			cs.Crashes, cs.QCrashPm, cs.FlushTail = nil, 0, false
			cs.PrefixRnds, cs.PrefixCapS = 4, 400
		}
	}()
	switch profile {
	case "safety":
		advs := []string{"none", "echo", "echo", "mix", "silence", "replay", "malformed"}
		cs.Adv = advs[(i/24)%len(advs)]
		if r.Chance(1, 4) {
			cs.Adv = advs[r.Intn(len(advs))]
		}
		if cs.Adv == "echo" || cs.Adv == "silence" || cs.Adv == "mix" {
			cs.AdvPct = []int{10, 20}[r.Intn(2)]
			cs.AdvAccts = r.Range(1, 3)
			if cs.Net == "S0" || cs.Net == "S4" {
				cs.Net = "S3" // the equivocating adversary is only interesting together with partitions
			}
		}
		if r.Chance(1, 3) {
			haAddCrashes(r, cs, r.Range(1, 2), false)
		}
		if r.Chance(1, 5) {
			cs.QCrashPm = 3
		}
	case "crash":
		cs.Adv = "none"
		if r.Chance(1, 6) {
			cs.Adv = "replay"
		}
	case "progress":
		cs.Adv = []string{"none", "none", "echo", "replay"}[r.Intn(4)]
		if cs.Adv == "echo" {
			cs.AdvPct, cs.AdvAccts = 10, 2
		}
		if r.Chance(1, 3) {
			haAddCrashes(r, cs, 1, false)
		}
		cs.PrefixCapS = []int{30, 120, 400}[r.Intn(3)]
	}
	return cs
}

func haAddCrashes(r *kit.Rand, cs *haCase, k int, double bool) {
	for j := 0; j < k; j++ {
		cp := haCrashPlan{Node: r.Intn(cs.Nodes), Hook: haCrashHooks[r.Intn(len(haCrashHooks))], Nth: r.Range(1, 6), FromRound: r.Range(1, cs.PrefixRnds),
			DownMs: []int{0, 0, 500, 5000, 30000}[r.Intn(5)]}
		if double || r.Chance(1, 4) {
			cp.Again = []string{haHookSubmitted, haHookDo, haHookPersistA, haHookVotesA, haHookPersistB}[r.Intn(5)]
			cp.AgainNth = r.Range(1, 8)
		}
		cs.Crashes = append(cs.Crashes, cp)
	}
}

// ---------------------------------------------------------------------------------------------
// C01

func haCasesC01(c *kit.Ctx) []*haCase {
	n := c.N(44, 2500)
	if c.Lane == "race" {
		n = c.N(24, 50) // race lane: a 2% subsample (the detector slows everything down ~5-10x)
	}
	var cases []*haCase
	for i := 0; i < n; i++ {
		cases = append(cases, haGenCase(c, 1, i, "safety"))
	}
	return cases
}

func TestVerifHAC01(t *testing.T) {
	c := kit.Start(t, "C01", "cluster")
	defer c.Finish()
	c.Rule("schedules of a cluster of N in {3,4,5,7} real agreement services (equal/skewed stake, real VRF sortition and signatures) under PRNG-driven strategies: S0 benign, S1 bounded reorder with drops and duplicates, S2 starvation of nodes (frozen clock, no deliveries), S3 threshold-splitting partitions flipped at period boundaries and at the first cert vote, S4 payloads withheld until the node holds the certificate, S5 crashes at hook points and at quiescent points with restart from the crash DB snapshot (some double crashes), S6 one node receives everything while the others see nothing, S7 payloads delivered past the deadline timeout with cert votes and next votes delivered to different subsets first (honest nodes, delays only); adversary accounts with real keys holding 10-20% of stake that double-propose and send different soft/cert/next votes to different partitions, replay stale traffic, or inject malformed votes; every schedule ends with a synchronous tail. Oracle: one block digest per round over all Ensure* events of all nodes and incarnations, per node no second different block and no skipped round. distinct = distinct schedule fingerprints that produced a commit in a period >= 1 or after a crash")
	c.Assume("sampled schedules over small N; intra-node goroutine interleaving is whatever the Go runtime produces; the simulated ledger, clock and network are trusted; crash = abandon the incarnation at a hook point and restart on a snapshot of the crash DB row (SQLite transaction atomicity trusted)")
	cases := haCasesC01(c)
	n := len(cases)
	agg := haNewAgg(c)
	haRunCases(c, cases, func(res *haResult) {
		agg.common(res)
		agg.report(res)
		if res.HarnessFail != "" {
			return
		}
		if res.Stats.PeriodGT0 > 0 || res.Stats.CommitAfterCrh > 0 {
			c.Distinct(fmt.Sprintf("%016x", res.FP))
		}
		if res.Stats.PeriodGT0 > 0 {
			c.Sample(map[string]any{"case": res.Case.Idx, "nodes": res.Case.Nodes, "net": res.Case.Net, "adv": res.Case.Adv, "rounds": res.Stats.Rounds,
				"rounds_in_period_gt0": res.Stats.PeriodGT0, "crashes": res.Stats.Crashes, "partition_changes": res.Flips})
		}
	})
	c.Extra("flip_positions_note", "partition_changes counts configuration changes; positions are node (round.period.step) vectors at the change")
	c.Require("commit_events", 50)
	c.Require("rounds_decided_in_period_gt0", 3)
	c.Require("commits_after_a_crash", 2)
	c.Require("schedules_with_tail_commit", int64(n*3/4))
	agg.finish()
}

// ---------------------------------------------------------------------------------------------
// C02

func haCasesC02(c *kit.Ctx) []*haCase {
	hits := c.N(3, 8)
	scheds := c.N(4, 30)
	if c.Lane == "race" {
		hits, scheds = c.N(1, 2), c.N(2, 2) // race lane: a subsample (the detector slows everything down ~5-10x)
	}
	var cases []*haCase
	i := 0
	for _, hook := range haCrashHooks {
		for h := 1; h <= hits; h++ {
			for s := 0; s < scheds; s++ {
				cs := haGenCase(c, 2, i, "crash")
				r := c.Rand(2, uint64(i), 0x6372)
				cs.Nodes = []int{3, 4, 5}[s%3]
				cs.Net = []string{"S0", "S1", "S3", "S0"}[s%4]
				if cs.Net == "S1" {
					cs.DelayMaxMs, cs.DropPm, cs.DupPm = 50, 20, 30
				} else {
					cs.DelayMaxMs, cs.DropPm, cs.DupPm = 0, 0, 0
				}
				cs.PrefixRnds = 3
				cp := haCrashPlan{Node: r.Intn(cs.Nodes), Hook: hook, Nth: h, FromRound: r.Range(1, 2), DownMs: []int{0, 200, 4000}[r.Intn(3)]}
				if s%4 == 3 || r.Chance(1, 5) {
					cp.Again = []string{haHookSubmitted, haHookDo, haHookVotesA, haHookPersistB, "ha.ledger.ensure.before"}[r.Intn(5)]
					cp.AgainNth = r.Range(1, 10)
				}
				cs.Crashes = []haCrashPlan{cp}
				cs.PersistDelayUs = 300
				if r.Chance(1, 8) {
					// the crash DB refuses writes during round 2 (equal stakes: every account is selected for every
					// committee, which the coservice accounting of the failure path relies on)
					cs.Stake = "equal"
					cs.PersistFailNode = r.Intn(cs.Nodes)
					cs.PersistFailFrom = 2
				}
				cases = append(cases, cs)
				i++
			}
		}
	}
	// observation lane: nonce-bearing block factory (like the real pool, whose block differs after a restart)
	for s := 0; s < c.N(4, 40); s++ {
		cs := haGenCase(c, 3, s, "crash")
		r := c.Rand(3, uint64(s), 0x6372)
		cs.Nodes, cs.Net, cs.PrefixRnds, cs.NonceFactory = 4, "S0", 3, true
		cs.DelayMaxMs, cs.DropPm, cs.DupPm = 0, 0, 0
		cs.Crashes = []haCrashPlan{{Node: r.Intn(4), Hook: []string{haHookSubmitted, haHookDo}[s%2], Nth: r.Range(1, 6), FromRound: r.Range(1, 2)}}
		cases = append(cases, cs)
	}
	return cases
}

func TestVerifHAC02(t *testing.T) {
	c := kit.Start(t, "C02", "cluster")
	defer c.Finish()
	c.Rule("crash points enumerated x schedules sampled: for every hook point (attest produced by submitTop, before/after persist in the persistence loop, before/after the pseudonode's wait for the checkpoint, before relaying an own vote, before/after EnsureBlock, before any action, after any submitTop, quiescent) x the first k hits x several schedules (benign, reorder/drop, partitions), a node is abandoned at the point, the crash DB row is snapshotted and a new service restarts on it; a share of cases crashes the node a second time before its first post-restart persist; some cases make the crash DB refuse writes for a round. A sleep before persist widens the attest->durable window. Oracle 1: one value per (sender, round, period, step) over every vote put on the wire by honest nodes (AV, the vote inside PP, votes inside bundles), all incarnations. Oracle 2: the first release of an attest-derived vote by its owner must be preceded by a successful persist whose pending actions contain that attest, and the durable state at release must not be from an earlier round. distinct = distinct (hook point, player period, player step) at which a crash was taken")
	c.Assume("deterministic block factory per (round, proposer) in the deciding lane; process-level crash semantics (a transaction of the crash DB is atomic; fsync ordering inside SQLite is trusted); votes are attributed by sender address decoded at the harness network boundary")
	cases := haCasesC02(c)
	agg := haNewAgg(c)
	haRunCases(c, cases, func(res *haResult) {
		agg.common(res)
		agg.report(res)
		if res.HarnessFail != "" {
			return
		}
		for _, cr := range res.CrashRecs {
			c.Distinct(fmt.Sprintf("%s|p%d|s%d", cr.Hook, cr.Period, cr.Step))
		}
		if res.Stats.BetweenAP > 0 && res.Stats.ReEmitted > 0 {
			c.Sample(map[string]any{"case": res.Case.Idx, "crash": res.CrashRecs[0], "votes_reemitted_with_same_value": res.Stats.ReEmitted})
		}
	})
	c.Observation("reading note, not decided by this check: when persist fails, checkpointAction.do sends the error on the unbuffered persistStateDone channel; if the votes task had no selected vote nobody receives and the demux loop blocks (liveness under disk failure)")
	c.Require("crashes", int64(len(cases)/2))
	c.Require("crashes_between_attest_and_send", 5)
	c.Require("votes_reemitted_same_value_after_restore", 5)
	c.Require("persists_observed", 100)
	c.Require("own_votes_released", 200)
	for _, h := range []string{haHookAttested, haHookPersistB, haHookPersistA, haHookVotesB, haHookVotesA, haHookDoRelayOwn} {
		c.Require("crash@"+h, 1)
	}
	agg.finish()
}

// ---------------------------------------------------------------------------------------------
// C03

func haCasesC03(c *kit.Ctx) []*haCase {
	n := c.N(36, 2000)
	var cases []*haCase
	for i := 0; i < n; i++ {
		var cs *haCase
		switch {
		case i%3 == 0:
			cs = haGenCase(c, 4, i, "safety")
			cs.Adv, cs.AdvPct, cs.AdvAccts = "echo", 20, 1+i%3
			cs.Net = []string{"S3", "mix", "S4"}[(i/3)%3]
			cs.FlipPm = 800
			cs.Crashes, cs.QCrashPm = nil, 0
		case i%3 == 1 && (i/3)%2 == 0:
			// focused: the cert threshold is crossed only with the weight of an equivocator (one honest node is
			// down for the whole prefix, the adversary sends every node a decoy vote and the real vote)
			cs = haGenCase(c, 4, i, "safety")
			cs.Nodes = []int{5, 7}[(i/6)%2]
			cs.Stake = "equal"
			cs.Adv, cs.AdvPct, cs.AdvAccts = "pairs", 20, 1+(i/6)%3
			cs.Net, cs.DelayMaxMs, cs.DropPm, cs.DupPm = "S1", []int{0, 30}[(i/12)%2], 0, 0
			cs.QCrashPm = 0
			cs.Crashes = []haCrashPlan{{Node: i % cs.Nodes, Hook: "quiescent", Nth: 1, FromRound: 1, DownMs: 100000000}}
		case i%3 == 1:
			// focused: so many honest nodes are down that honest + adversary weight stays below every threshold;
			// only counting the equivocators' weight twice could produce a (bogus) quorum during the prefix
			cs = haGenCase(c, 4, i, "safety")
			cs.Nodes = []int{5, 7}[(i/6)%2]
			cs.Stake = "equal"
			cs.Adv, cs.AdvPct, cs.AdvAccts = "pairs", 20, 1+(i/6)%3
			cs.Net, cs.DelayMaxMs, cs.DropPm, cs.DupPm = "S1", 0, 0, 0
			cs.QCrashPm, cs.PrefixCapS, cs.PrefixRnds = 0, 40, 2
			cs.Crashes = nil
			for k := 0; k < cs.Nodes/2; k++ {
				cs.Crashes = append(cs.Crashes, haCrashPlan{Node: (i + k) % cs.Nodes, Hook: "quiescent", Nth: 1, FromRound: 1, DownMs: 100000000})
			}
		case i%6 == 5:
			// focused: a lagging node holds the certificate of the next period without its payload and then
			// receives the payload of the other (period-0) proposal it still tracks (S9)
			cs = haGenCase(c, 4, i, "safety")
			cs.Nodes = []int{5, 7}[(i/6)%2]
			cs.Stake = "equal"
			cs.Net, cs.Adv, cs.AdvPct, cs.AdvAccts = "S9", "none", 0, 0
			cs.DelayMaxMs, cs.DropPm, cs.DupPm = 0, 0, 0
			cs.Crashes, cs.QCrashPm, cs.PrefixRnds = nil, 0, 3
		default:
			cs = haGenCase(c, 4, i, "safety")
		}
		cases = append(cases, cs)
	}
	return cases
}

func TestVerifHAC03(t *testing.T) {
	c := kit.Start(t, "C03", "cluster")
	defer c.Finish()
	c.Rule("every commit event (EnsureBlock / EnsureValidatedBlock / EnsureDigest) of every node and incarnation along the C01 schedule families plus a focused family (equivocating adversary below the bound with partitions healed between soft and cert so that equivocation pairs end up in certificates; late payloads so that certificates arrive as bundles and by digest): (a) production Certificate.Authenticate against a pristine ledger view holding only the canonical chain, (b) an independent reference quorum checker (step, round, digest, non-bottom, distinct senders, one-time signature under the registered vote key for the round's ephemeral id, credential under the selection key / seed / cert committee parameters, pairs = two valid votes for two different values, weight >= cert threshold). distinct = distinct (#votes, #pairs, period) certificate shapes")
	c.Assume("the reference checker uses crypto primitives (ed25519 one-time signatures, VRF verification, sortition) but none of bundle.go/certificate.go; stake table fixed per run")
	cases := haCasesC03(c)
	agg := haNewAgg(c)
	shapes := map[string]bool{}
	haRunCases(c, cases, func(res *haResult) {
		agg.common(res)
		agg.report(res)
		for _, s := range res.Shapes {
			c.Distinct(s)
			shapes[s] = true
		}
	})
	var sh []string
	for s := range shapes {
		sh = append(sh, s)
	}
	sort.Strings(sh)
	c.Extra("certificate_shapes", sh)
	c.Sample(map[string]any{"certificate_shapes(votes/pairs/period)": sh})
	c.Require("certificates_checked", 100)
	c.Require("commits_by_digest_only", 1)
	c.Require("certificates_with_equivocation_pairs", 3)
	c.Require("s9_other_payload_after_certificate", 2)
	agg.finish()
}

// ---------------------------------------------------------------------------------------------
// C05

func haCasesC05(c *kit.Ctx) []*haCase {
	n := c.N(40, 2500)
	var cases []*haCase
	for i := 0; i < n; i++ {
		cs := haGenCase(c, 5, i, "progress")
		if cs.Net == "S0" {
			cs.Net = "S3"
		}
		cases = append(cases, cs)
	}
	return cases
}

// Bounded progress after the synchrony point: every honest node holds the next block within haC05K periods
// (period of the committing certificate minus the highest period any node was in at the synchrony point)
// and within haC05T of virtual time. Constants fixed at >= 3x the worst values measured on the unchanged
// tree over the thorough corpus (see the report / evidence counters max_tail_*).
const (
	haC05K = 8
	haC05T = 40 * time.Minute
)

func TestVerifHAC05(t *testing.T) {
	c := kit.Start(t, "C05", "cluster")
	defer c.Finish()
	c.Rule(fmt.Sprintf("asynchronous prefixes from the C01 families (partitions, drops, starved nodes, late payloads, crashes, equivocating adversary, S7 late payloads with split cert/next votes) plus the directed S8 family (in one period both a bottom and a value next-quorum form and the nodes are split between them, neither side a quorum, so that only the re-broadcast of the freshest bundle restores progress), then the synchrony point: faults stop, crashed nodes restart, in-flight messages are delivered or lost, ledgers catch up, the adversary goes silent; from there every message is delivered before any clock advances. Refuted if some node does not hold the next block within K=%d periods or T=%v of virtual time. distinct = distinct vectors of node (round.period.step) at the synchrony point", haC05K, haC05T))
	c.Assume("bounded restatement of an eventuality; adversary silent after the synchrony point; all honest nodes online in the tail (honest stake >= 80%); K and T are >= 3x the worst values measured on the unchanged tree")
	cases := haCasesC05(c)
	n := len(cases)
	agg := haNewAgg(c)
	haRunCases(c, cases, func(res *haResult) {
		agg.common(res)
		agg.report(res)
		if res.HarnessFail != "" {
			return
		}
		c.Eval(res.Case.Nodes)
		nontrivial := false
		for _, p := range res.SyncPos {
			if p != res.SyncPos[0] {
				nontrivial = true
			}
		}
		if nontrivial {
			c.Distinct(fmt.Sprint(res.SyncPos))
			c.Count("sync_points_with_nodes_at_different_positions", 1)
		}
		bad := ""
		switch {
		case !res.TailOK || res.TailVirtual < 0:
			bad = "no-commit-after-synchrony"
		case res.TailVirtual > haC05T:
			bad = "commit-later-than-T"
		case res.TailPeriods > haC05K:
			bad = "commit-later-than-K-periods"
		}
		if bad != "" {
			c.Violation(bad, map[string]any{"case": res.Case, "seed": c.Seed, "sync_round": res.SyncRound, "positions_at_sync": res.SyncPos,
				"tail_virtual": res.TailVirtual.String(), "tail_periods": res.TailPeriods, "virtual_end": res.VirtualEnd.String(), "trace": tailOf(res.Trace, 300)})
		}
		if nontrivial && len(res.SyncPos) > 0 {
			c.Sample(map[string]any{"case": res.Case.Idx, "positions_at_sync": res.SyncPos, "periods_to_commit": res.TailPeriods, "virtual_time_to_commit": res.TailVirtual.String()})
		}
	})
	c.Extra("periods_to_commit_distribution", haDist(agg.tailPer))
	c.Extra("virtual_time_to_commit", haDurPct(agg.tailVirt))
	c.Require("schedules_with_tail_commit", int64(n/2))
	c.Require("sync_points_with_nodes_at_different_positions", 5)
	c.Require("s8_split_next_quorum_prefixes_built", 3)
	agg.finish()
}

// TestVerifHADebug replays one generated case (VERIF_HA_CASE=Cnn/index) and prints its trace.
// Development aid and replay entry point for witnesses (seed, stream, case index identify the schedule).
func TestVerifHADebug(t *testing.T) {
	spec := os.Getenv("VERIF_HA_CASE")
	if spec == "" {
		t.Skip("set VERIF_HA_CASE=Cnn/<index in the part's case list> (and VERIF_SEED, VERIF_TIER)")
	}
	var prop string
	var idx int
	fmt.Sscanf(spec, "%3s/%d", &prop, &idx)
	c := kit.Start(t, prop, "debug")
	var cases []*haCase
	switch prop {
	case "C01":
		cases = haCasesC01(c)
	case "C02":
		cases = haCasesC02(c)
	case "C03":
		cases = haCasesC03(c)
	case "C05":
		cases = haCasesC05(c)
	}
	if idx >= len(cases) {
		t.Fatalf("only %d cases", len(cases))
	}
	cs := cases[idx]
	cs.Ord = idx
	t0 := time.Now()
	fmt.Printf("case: %+v\n", *cs)
	res := haExec(c, cs)
	fmt.Printf("wall: %v\n", time.Since(t0))
	tr := res.Trace
	if os.Getenv("VERIF_HA_TRACE") != "" {
		for _, l := range tr {
			fmt.Println(l)
		}
	}
	res.Trace = nil
	for _, f := range res.Findings {
		fmt.Printf("FINDING %s %s\n", f.Prop, f.Key)
		for k, v := range f.Witness {
			if k != "trace" {
				fmt.Printf("   %s: %+v\n", k, v)
			}
		}
	}
	res.Findings = nil
	fmt.Printf("result: %+v\n", res)
}
