package agreement

// HA monitors attached to every cluster run:
//   C01  one digest per round over all commit events of all honest incarnations; per node no second
//        different block for a round and no round r+1 before r.
//   C02  (1) one value per (sender, round, period, step) over all votes put on the wire by honest
//        nodes, all incarnations; (2) a vote is released only after the state that led to it is durable.
//   C03  production Certificate.Authenticate on a pristine ledger view + an independent reference
//        quorum checker, on every commit event.
// C05 (bounded progress) is evaluated by the runner, which knows the synchrony point.

import (
	"fmt"
	"os"
	"sort"
	"sync"
	"time"

	"github.com/algorand/go-algorand/config"
	"github.com/algorand/go-algorand/crypto"
	"github.com/algorand/go-algorand/data/basics"
	basics_testing "github.com/algorand/go-algorand/data/basics/testing"
	"github.com/algorand/go-algorand/data/bookkeeping"
	"github.com/algorand/go-algorand/data/committee"
	"github.com/algorand/go-algorand/protocol"
	"verif.local/kit"
)

type haVoteKey struct {
	sender basics.Address
	round  basics.Round
	period period
	step   step
}

type haVoteRec struct {
	value    proposalValue
	firstSeq uint64
	wireSrc  int
	wireInc  int
	tag      protocol.Tag
	at       time.Duration
}

type haAttKey struct {
	round  basics.Round
	period period
	step   step
	value  proposalValue
}

// haPersistRec is one successful persist of a node (durable state history across incarnations).
type haPersistRec struct {
	seq     uint64
	inc     int
	pRound  basics.Round // player position inside the persisted state
	pPeriod period
	pStep   step
	attests []haAttKey
}

type haFinding struct {
	Prop    string
	Key     string
	Witness map[string]any
}

// haMonitors holds the per-run oracle state. Findings are collected and reported by the runner.
type haMonitors struct {
	c            *kit.Ctx
	persistDelay time.Duration
	nonceFactory bool // observation lane: step=propose double votes are observations, not violations

	mu       sync.Mutex
	findings []haFinding

	// C01 / C03
	decided    map[basics.Round]crypto.Digest
	decidedBy  map[basics.Round]haCommit
	chainBlk   map[basics.Round]bookkeeping.Block
	chainCert  map[basics.Round]Certificate
	ref        *haLedger // pristine view: canonical chain only
	commits    []haCommit
	digestOnly int
	certShapes map[string]int
	minSlack   int64
	certPairs  int
	certsOK    int

	// C02
	votes       map[haVoteKey]haVoteRec
	persisted   map[int][]haPersistRec // node -> history
	released    map[haVoteKey]bool     // first-release check done
	reEmitted   int
	ownVotes    int
	votesOnWire int
	obsPropose  int
	betweenAP   int // crashes strictly between "attest produced" and "vote on wire"
	pendingAtt  map[int]map[haAttKey]uint64 // node -> attests produced (submitted) and not yet seen on the wire

	hookHits map[string]int
	evals    int
}

func haNewMonitors(c *kit.Ctx) *haMonitors {
	return &haMonitors{c: c, decided: map[basics.Round]crypto.Digest{}, decidedBy: map[basics.Round]haCommit{},
		chainBlk: map[basics.Round]bookkeeping.Block{}, chainCert: map[basics.Round]Certificate{}, certShapes: map[string]int{},
		minSlack: -1, votes: map[haVoteKey]haVoteRec{}, persisted: map[int][]haPersistRec{}, released: map[haVoteKey]bool{},
		pendingAtt: map[int]map[haAttKey]uint64{}, hookHits: map[string]int{}}
}

func (m *haMonitors) find(prop, key string, w map[string]any) {
	m.mu.Lock()
	if len(m.findings) < 50 {
		m.findings = append(m.findings, haFinding{Prop: prop, Key: key, Witness: w})
	}
	m.mu.Unlock()
}

func (m *haMonitors) countHook(h string) {
	m.mu.Lock()
	m.hookHits[h]++
	m.mu.Unlock()
}

func (m *haMonitors) canonical(r basics.Round) (bookkeeping.Block, Certificate, bool) {
	m.mu.Lock()
	defer m.mu.Unlock()
	b, ok := m.chainBlk[r]
	return b, m.chainCert[r], ok
}

var haVerbose = os.Getenv("VERIF_HA_VERBOSE") != ""

func haShort(d crypto.Digest) string { return d.String()[:8] }

// ---------------------------------------------------------------------------------------------
// C01 + C03: commit events

var (
	haAvvOnce sync.Once
	haAvv     *AsyncVoteVerifier
)

func haVerifier() *AsyncVoteVerifier {
	haAvvOnce.Do(func() { haAvv = MakeAsyncVoteVerifier(haSharedPool()) })
	return haAvv
}

func (cl *haCluster) onCommit(inc *haInc, b bookkeeping.Block, c Certificate, how string) {
	m := cl.mon
	n := inc.node
	r := b.Round()
	d := b.Digest()
	ev := haCommit{Seq: haSeq(), Node: n.idx, Inc: inc.no, Round: r, Period: c.Period, Digest: d, How: how, At: cl.nowOf(n)}
	cl.logf("COMMIT node=%d inc=%d round=%d period=%d digest=%s via %s", n.idx, inc.no, r, c.Period, haShort(d), how)
	m.mu.Lock()
	m.evals++
	m.commits = append(m.commits, ev)
	first, seen := m.decided[r]
	firstBy := m.decidedBy[r]
	if !seen {
		m.decided[r] = d
		m.decidedBy[r] = ev
	}
	m.mu.Unlock()
	// global: one digest per round
	if seen && first != d {
		m.find("C01", "two-blocks-one-round", map[string]any{"round": r, "first": firstBy, "second": ev, "trace": cl.traceTail(400)})
	}
	// per node: its own ledger
	next := n.ledger.NextRound()
	switch {
	case r > next:
		m.find("C01", "commit-skips-round", map[string]any{"node": n.idx, "ledger_next": next, "commit": ev, "trace": cl.traceTail(200)})
	case r < next:
		old, _, _ := n.ledger.block(r)
		if old.Digest() != d {
			m.find("C01", "node-recommits-different-block", map[string]any{"node": n.idx, "round": r, "had": haShort(old.Digest()), "commit": ev, "trace": cl.traceTail(200)})
		} else {
			m.c.Count("duplicate_commit_same_block", 1)
		}
	}
	// C03 on a pristine view (canonical chain below r)
	m.checkCert(cl, ev, b, c)
	// extend the canonical chain / pristine view (the first event for a round may have been digest-only)
	m.mu.Lock()
	_, have := m.chainBlk[r]
	if !have && (!seen || first == d) {
		m.chainBlk[r] = b
		m.chainCert[r] = c
	}
	m.mu.Unlock()
	if !have && (!seen || first == d) {
		m.ref.add(b, c)
	}
}

func (cl *haCluster) onEnsureDigest(inc *haInc, c Certificate) {
	m := cl.mon
	n := inc.node
	ev := haCommit{Seq: haSeq(), Node: n.idx, Inc: inc.no, Round: c.Round, Period: c.Period, Digest: c.Proposal.BlockDigest, How: "EnsureDigest", At: cl.nowOf(n)}
	cl.logf("ENSUREDIGEST node=%d inc=%d round=%d period=%d digest=%s", n.idx, inc.no, c.Round, c.Period, haShort(ev.Digest))
	m.mu.Lock()
	m.evals++
	m.digestOnly++
	first, seen := m.decided[c.Round]
	firstBy := m.decidedBy[c.Round]
	if !seen {
		m.decided[c.Round] = ev.Digest
		m.decidedBy[c.Round] = ev
	}
	m.mu.Unlock()
	if seen && first != ev.Digest {
		m.find("C01", "two-blocks-one-round", map[string]any{"round": c.Round, "first": firstBy, "second": ev, "trace": cl.traceTail(400)})
	}
	// the certificate alone must already prove the quorum (no block to compare the digest with)
	if err := haRefCheckBundle(cl, m.ref, unauthenticatedBundle(c), nil); err != nil {
		m.find("C03", "digest-certificate-fails-reference", map[string]any{"commit": ev, "error": err.Error()})
	}
}

func (m *haMonitors) checkCert(cl *haCluster, ev haCommit, b bookkeeping.Block, c Certificate) {
	if m.ref.NextRound() < b.Round() {
		// cannot happen unless C01 already failed (a node committed a round whose predecessor nobody committed)
		m.c.Count("c03_skipped_no_pristine_view", 1)
		return
	}
	errProd := c.Authenticate(b, m.ref, haVerifier())
	errRef := haRefCheckBundle(cl, m.ref, unauthenticatedBundle(c), &b)
	m.mu.Lock()
	m.evals += 2
	m.mu.Unlock()
	if errProd != nil {
		m.find("C03", "certificate-fails-authenticate", map[string]any{"commit": ev, "error": errProd.Error(), "cert": fmt.Sprintf("%+v", haCertSummary(c))})
	}
	if errRef != nil {
		m.find("C03", "certificate-fails-reference-checker", map[string]any{"commit": ev, "error": errRef.Error(), "cert": fmt.Sprintf("%+v", haCertSummary(c))})
	}
	if errProd == nil && errRef == nil {
		w := haBundleWeight(cl, m.ref, unauthenticatedBundle(c))
		proto := config.Consensus[cl.version]
		m.mu.Lock()
		m.certsOK++
		m.certPairs += len(c.EquivocationVotes)
		m.certShapes[fmt.Sprintf("v%d/p%d/per%d", len(c.Votes), len(c.EquivocationVotes), c.Period)]++
		slack := int64(w) - int64(proto.CertCommitteeThreshold)
		if m.minSlack < 0 || slack < m.minSlack {
			m.minSlack = slack
		}
		m.mu.Unlock()
	}
}

func haCertSummary(c Certificate) map[string]any {
	var vs, ps []string
	for _, v := range c.Votes {
		vs = append(vs, v.Sender.String()[:6])
	}
	for _, v := range c.EquivocationVotes {
		ps = append(ps, v.Sender.String()[:6])
	}
	return map[string]any{"round": c.Round, "period": c.Period, "step": c.Step, "digest": haShort(c.Proposal.BlockDigest), "voters": vs, "pairs": ps}
}

// haRefCheckBundle is the reference quorum checker, written from the protocol rules and using only the
// crypto primitives (one-time signature verification, VRF credential verification / sortition); it uses
// none of bundle.go / certificate.go. blk == nil: check the bundle alone (digest certificates).
//
//	step == cert; round == block round; digest == block digest; value != bottom;
//	senders pairwise distinct across votes and equivocation pairs;
//	every vote's one-time signature verifies for that round's ephemeral id under the sender's registered vote key;
//	every credential verifies under the sender's selection key and the round's seed with the cert committee parameters;
//	equivocation pairs are two valid votes for two different values;
//	sum of weights >= cert threshold.
func haRefCheckBundle(cl *haCluster, l *haLedger, b unauthenticatedBundle, blk *bookkeeping.Block) error {
	if b.Step != cert {
		return fmt.Errorf("step %d is not cert", b.Step)
	}
	if b.Proposal == (proposalValue{}) {
		return fmt.Errorf("certificate for bottom")
	}
	if blk != nil {
		if b.Round != blk.Round() {
			return fmt.Errorf("certificate round %d != block round %d", b.Round, blk.Round())
		}
		if b.Proposal.BlockDigest != blk.Digest() {
			return fmt.Errorf("certificate digest %v != block digest %v", b.Proposal.BlockDigest, blk.Digest())
		}
	}
	w, err := haRefWeight(cl, l, b)
	if err != nil {
		return err
	}
	proto := config.Consensus[cl.version]
	if w < proto.CertCommitteeThreshold {
		return fmt.Errorf("weight %d below cert threshold %d", w, proto.CertCommitteeThreshold)
	}
	return nil
}

func haBundleWeight(cl *haCluster, l *haLedger, b unauthenticatedBundle) uint64 {
	w, _ := haRefWeight(cl, l, b)
	return w
}

func haRefWeight(cl *haCluster, l *haLedger, b unauthenticatedBundle) (uint64, error) {
	proto := config.Consensus[cl.version]
	seen := map[basics.Address]bool{}
	var total uint64
	one := func(sender basics.Address, cred committee.UnauthenticatedCredential, val proposalValue, sig crypto.OneTimeSignature) (uint64, error) {
		ad, ok := cl.balances[sender]
		if !ok {
			return 0, fmt.Errorf("sender %v has no stake record", sender)
		}
		rec := basics_testing.OnlineAccountData(ad)
		if b.Round < rec.VoteFirstValid || (rec.VoteLastValid != 0 && b.Round > rec.VoteLastValid) {
			return 0, fmt.Errorf("sender %v votes outside its key validity", sender)
		}
		rv := rawVote{Sender: sender, Round: b.Round, Period: b.Period, Step: b.Step, Proposal: val}
		id := basics.OneTimeIDForRound(b.Round, proto.EffectiveKeyDilution(rec.VoteKeyDilution))
		if !rec.VoteID.Verify(id, rv, sig) {
			return 0, fmt.Errorf("one-time signature of %v does not verify", sender)
		}
		seedRnd := b.Round.SubSaturate(basics.Round(proto.SeedLookback))
		seed, err := l.Seed(seedRnd)
		if err != nil {
			return 0, fmt.Errorf("no seed for round %d in the pristine view", seedRnd)
		}
		mem := committee.Membership{Record: committee.BalanceRecord{OnlineAccountData: rec, Addr: sender},
			Selector: selector{Seed: seed, Round: b.Round, Period: b.Period, Step: b.Step}, TotalMoney: cl.totalStake}
		c, err := cred.Verify(proto, mem)
		if err != nil {
			return 0, fmt.Errorf("credential of %v: %v", sender, err)
		}
		return c.Weight, nil
	}
	for _, v := range b.Votes {
		if seen[v.Sender] {
			return 0, fmt.Errorf("sender %v appears twice", v.Sender)
		}
		seen[v.Sender] = true
		w, err := one(v.Sender, v.Cred, b.Proposal, v.Sig)
		if err != nil {
			return 0, err
		}
		total += w
	}
	for _, ev := range b.EquivocationVotes {
		if seen[ev.Sender] {
			return 0, fmt.Errorf("sender %v appears twice (pair)", ev.Sender)
		}
		seen[ev.Sender] = true
		if ev.Proposals[0] == ev.Proposals[1] {
			return 0, fmt.Errorf("equivocation pair of %v has identical values", ev.Sender)
		}
		w0, err := one(ev.Sender, ev.Cred, ev.Proposals[0], ev.Sigs[0])
		if err != nil {
			return 0, err
		}
		if _, err := one(ev.Sender, ev.Cred, ev.Proposals[1], ev.Sigs[1]); err != nil {
			return 0, err
		}
		total += w0
	}
	return total, nil
}

// ---------------------------------------------------------------------------------------------
// C02: votes on the wire, persist-before-release

func (m *haMonitors) honestOwner(cl *haCluster, a basics.Address) (int, bool) {
	acc, ok := cl.byAddr[a]
	if !ok || acc.owner == haAdversary {
		return 0, false
	}
	return acc.owner, true
}

func (m *haMonitors) onWire(cl *haCluster, inc *haInc, w *haWire) {
	switch w.tag {
	case protocol.AgreementVoteTag:
		o, err := decodeVote(w.data)
		if err != nil {
			return
		}
		m.seeVote(cl, inc, w, o.(unauthenticatedVote).R)
	case protocol.ProposalPayloadTag:
		o, err := decodeProposal(w.data)
		if err != nil {
			return
		}
		cm := o.(compoundMessage)
		if cm.Vote != (unauthenticatedVote{}) {
			m.seeVote(cl, inc, w, cm.Vote.R)
		}
	case protocol.VoteBundleTag:
		o, err := decodeBundle(w.data)
		if err != nil {
			return
		}
		b := o.(unauthenticatedBundle)
		for _, v := range b.Votes {
			m.seeVote(cl, inc, w, rawVote{Sender: v.Sender, Round: b.Round, Period: b.Period, Step: b.Step, Proposal: b.Proposal})
		}
		for _, ev := range b.EquivocationVotes {
			// honest nodes only bundle verified pairs: a pair signed by an honest key is two signed values
			m.seeVote(cl, inc, w, rawVote{Sender: ev.Sender, Round: b.Round, Period: b.Period, Step: b.Step, Proposal: ev.Proposals[0]})
			m.seeVote(cl, inc, w, rawVote{Sender: ev.Sender, Round: b.Round, Period: b.Period, Step: b.Step, Proposal: ev.Proposals[1]})
		}
	}
}

func haValStr(v proposalValue) string {
	if v == (proposalValue{}) {
		return "bottom"
	}
	return fmt.Sprintf("%s(op=%d,by=%s)", haShort(v.BlockDigest), v.OriginalPeriod, v.OriginalProposer.String()[:6])
}

func (m *haMonitors) seeVote(cl *haCluster, inc *haInc, w *haWire, rv rawVote) {
	owner, honest := m.honestOwner(cl, rv.Sender)
	if !honest {
		return
	}
	k := haVoteKey{rv.Sender, rv.Round, rv.Period, rv.Step}
	m.mu.Lock()
	m.evals++
	m.votesOnWire++
	prev, seen := m.votes[k]
	if !seen {
		m.votes[k] = haVoteRec{value: rv.Proposal, firstSeq: w.seq, wireSrc: w.src, wireInc: w.incNo, tag: w.tag, at: w.at}
	}
	own := owner == w.src
	if own && haVerbose {
		cl.logf("OWNVOTE node=%d inc=%d (%d,%d,%d) %s tag=%s seq=%d", w.src, w.incNo, rv.Round, rv.Period, rv.Step, haValStr(rv.Proposal), w.tag, w.seq)
	}
	if own {
		m.ownVotes++
		if seen && prev.value == rv.Proposal && prev.wireSrc == w.src && prev.wireInc != w.incNo {
			m.reEmitted++ // the benign case: the same vote re-emitted by a later incarnation
		}
	}
	first := !m.released[k]
	if own && first {
		m.released[k] = true
	}
	var hist []haPersistRec
	if own && first && rv.Step >= soft {
		hist = append(hist, m.persisted[owner]...)
		if pa := m.pendingAtt[owner]; pa != nil {
			delete(pa, haAttKey{rv.Round, rv.Period, rv.Step, rv.Proposal})
		}
	}
	m.mu.Unlock()

	if seen && prev.value != rv.Proposal {
		wit := map[string]any{"sender_node": owner, "sender": rv.Sender.String(), "round": rv.Round, "period": rv.Period, "step": rv.Step,
			"first_value": haValStr(prev.value), "first_seq": prev.firstSeq, "first_wire_src": prev.wireSrc, "first_incarnation": prev.wireInc,
			"second_value": haValStr(rv.Proposal), "second_seq": w.seq, "second_wire_src": w.src, "second_incarnation": w.incNo,
			"crashes": cl.crashList(), "trace": cl.traceTail(400)}
		if rv.Step == propose && m.nonceFactory {
			m.mu.Lock()
			m.obsPropose++
			m.mu.Unlock()
			m.c.Observation("C02 observation lane (nonce-bearing block factory): node %d proposed two different blocks for (round %d, period %d) across a restart (proposal votes come from the non-persistent assemble action)", owner, rv.Round, rv.Period)
		} else {
			m.find("C02", "two-values-one-slot", wit)
		}
	}

	// oracle 2: released only after durable. Only the first release of an attest-derived vote by its owner
	// is constrained (later re-sends, relays by others and fast-recovery dumps are not).
	if own && first && rv.Step >= soft {
		att := haAttKey{rv.Round, rv.Period, rv.Step, rv.Proposal}
		idx := -1
		for i, p := range hist {
			for _, a := range p.attests {
				if a == att {
					idx = i
				}
			}
		}
		wit := map[string]any{"node": owner, "incarnation": w.incNo, "round": rv.Round, "period": rv.Period, "step": rv.Step,
			"value": haValStr(rv.Proposal), "wire_seq": w.seq, "durable_history": haHistStr(hist), "crashes": cl.crashList(), "trace": cl.traceTail(300)}
		if idx < 0 {
			m.find("C02", "vote-released-before-durable", wit)
		} else {
			// the state that led to the vote was durable at some point; it must still protect the slot when the
			// vote leaves: a later durable state from an earlier round would make a restart begin that round afresh.
			last := hist[len(hist)-1]
			if last.pRound < rv.Round {
				wit["durable_at_release"] = fmt.Sprintf("player position (%d,%d,%d), %d pending attests", last.pRound, last.pPeriod, last.pStep, len(last.attests))
				m.find("C02", "durable-state-regressed-before-release", wit)
			}
		}
	}
}

func haHistStr(h []haPersistRec) []string {
	var out []string
	start := 0
	if len(h) > 12 {
		start = len(h) - 12
	}
	for _, p := range h[start:] {
		var as []string
		for _, a := range p.attests {
			as = append(as, fmt.Sprintf("attest(%d,%d,%d,%s)", a.round, a.period, a.step, haValStr(a.value)))
		}
		out = append(out, fmt.Sprintf("seq=%d inc=%d player=(%d,%d,%d) %v", p.seq, p.inc, p.pRound, p.pPeriod, p.pStep, as))
	}
	return out
}

func (cl *haCluster) crashList() []haCrashRec {
	cl.crashMu.Lock()
	defer cl.crashMu.Unlock()
	return append([]haCrashRec(nil), cl.crashes...)
}

// onPersisted: persist returned (hook placed before the checkpoint event is posted). Decodes the bytes just written.
func (m *haMonitors) onPersisted(inc *haInc, x verifPersist) {
	if x.Err != nil {
		m.c.Count("persist_failures_seen", 1)
		return
	}
	_, _, p, as, err := decode(x.Raw, &haClock{inc: inc}, inc.svc.log, false)
	if err != nil {
		m.find("C02", "persisted-state-undecodable", map[string]any{"node": inc.node.idx, "error": err.Error()})
		return
	}
	rec := haPersistRec{seq: haSeq(), inc: inc.no, pRound: p.Round, pPeriod: p.Period, pStep: p.Step}
	for _, a := range as {
		if pa, ok := a.(pseudonodeAction); ok && pa.T == attest {
			rec.attests = append(rec.attests, haAttKey{pa.Round, pa.Period, pa.Step, pa.Proposal})
		}
	}
	m.mu.Lock()
	m.persisted[inc.node.idx] = append(m.persisted[inc.node.idx], rec)
	m.mu.Unlock()
	if haVerbose {
		inc.cl.logf("PERSISTED node=%d inc=%d %v", inc.node.idx, inc.no, haHistStr([]haPersistRec{rec}))
	}
	m.c.Count("persists_observed", 1)
}

func (m *haMonitors) onSubmitted(inc *haInc, x verifSubmitted) {
	if haVerbose {
		var as []string
		for _, a := range x.Actions {
			if a.t() != ignore && a.t() != noop {
				as = append(as, a.String())
			}
		}
		if x.Event.t() != votePresent && x.Event.t() != payloadPresent && x.Event.t() != bundlePresent && len(as) > 0 {
			inc.cl.logf("SUBMIT node=%d inc=%d ev=%s -> (%d,%d,%d) %v", inc.node.idx, inc.no, x.Event.t(), x.Status.Round, x.Status.Period, x.Status.Step, as)
		}
	}
	for _, a := range x.Actions {
		if pa, ok := a.(pseudonodeAction); ok && pa.T == attest {
			m.mu.Lock()
			pm := m.pendingAtt[inc.node.idx]
			if pm == nil {
				pm = map[haAttKey]uint64{}
				m.pendingAtt[inc.node.idx] = pm
			}
			pm[haAttKey{pa.Round, pa.Period, pa.Step, pa.Proposal}] = haSeq()
			m.mu.Unlock()
		}
	}
}

func (m *haMonitors) onVotesTask(inc *haInc, name string, x verifVotesTask) {}

func (m *haMonitors) onCrash(cl *haCluster, rec haCrashRec, raw []byte, ok bool) {
	// the snapshot is what is durable when the node restarts: it is part of the durable-state history (a persist
	// that raced with the crash may be in the snapshot without its persist-completed hook having been seen)
	if ok {
		if _, _, p, as, err := decode(raw, &haClock{}, serviceLogger{cl.log}, false); err == nil {
			pr := haPersistRec{seq: haSeq(), inc: rec.Inc, pRound: p.Round, pPeriod: p.Period, pStep: p.Step}
			for _, a := range as {
				if pa, ok := a.(pseudonodeAction); ok && pa.T == attest {
					pr.attests = append(pr.attests, haAttKey{pa.Round, pa.Period, pa.Step, pa.Proposal})
				}
			}
			m.mu.Lock()
			m.persisted[rec.Node] = append(m.persisted[rec.Node], pr)
			m.mu.Unlock()
			if haVerbose {
				cl.logf("SNAPSHOT node=%d %v actions=%v", rec.Node, haHistStr([]haPersistRec{pr}), as)
			}
		} else if haVerbose {
			cl.logf("SNAPSHOT node=%d undecodable: %v", rec.Node, err)
		}
	}
	m.mu.Lock()
	// a crash falls "between attest produced and vote on wire" if some attest of this node was produced
	// (submitTop returned it) and its vote has not reached the wire yet
	if len(m.pendingAtt[rec.Node]) > 0 {
		m.betweenAP++
		m.pendingAtt[rec.Node] = map[haAttKey]uint64{}
	}
	m.mu.Unlock()
}

func (m *haMonitors) onRestart(cl *haCluster, node, inc int) {}

// ---------------------------------------------------------------------------------------------
// summaries

type haRunStats struct {
	Commits        int
	Rounds         int
	PeriodGT0      int // rounds decided in a period > 0
	DigestOnly     int
	CertsOK        int
	CertPairs      int
	MinSlack       int64
	VotesOnWire    int
	OwnVotes       int
	ReEmitted      int
	Persists       int
	BetweenAP      int
	Crashes        int
	CommitAfterCrh int // commits by an incarnation > 1
	ObsPropose     int // observation lane: step=propose double votes across a restart
}

func (m *haMonitors) stats(cl *haCluster) haRunStats {
	m.mu.Lock()
	defer m.mu.Unlock()
	s := haRunStats{Commits: len(m.commits), Rounds: len(m.decided), DigestOnly: m.digestOnly, CertsOK: m.certsOK, CertPairs: m.certPairs,
		MinSlack: m.minSlack, VotesOnWire: m.votesOnWire, OwnVotes: m.ownVotes, ReEmitted: m.reEmitted, BetweenAP: m.betweenAP, ObsPropose: m.obsPropose}
	per := map[basics.Round]bool{}
	for _, c := range m.commits {
		if c.Period > 0 {
			per[c.Round] = true
		}
		if c.Inc > 1 {
			s.CommitAfterCrh++
		}
	}
	s.PeriodGT0 = len(per)
	for _, h := range m.persisted {
		s.Persists += len(h)
	}
	s.Crashes = len(cl.crashList())
	return s
}

func (m *haMonitors) shapes() []string {
	m.mu.Lock()
	defer m.mu.Unlock()
	var out []string
	for k := range m.certShapes {
		out = append(out, k)
	}
	sort.Strings(out)
	return out
}
