package agreement

// HA scheduler: one totally ordered log of external steps (deliver / drop / duplicate / delay /
// partition change / clock advance / freeze / crash / restart / catch-up / adversary injection), driven by
// PRNG-parameterised strategies (DESIGN.md Appendix A: S0 benign, S1 bounded reorder, S2 starvation,
// S3 threshold-splitting partitions, S4 late payloads, S5 crash storms). Every schedule ends with a
// synchronous tail (S0) so that commits happen and C05's bounded-progress clock has a defined start.

import (
	"container/heap"
	"fmt"
	"os"
	"sort"
	"strconv"
	"time"

	"github.com/algorand/go-algorand/config"
	"github.com/algorand/go-algorand/data/basics"
	"github.com/algorand/go-algorand/protocol"
	"verif.local/kit"
)

// haCase is one generated schedule description (everything the PRNG decided up front; the rest of the
// PRNG stream is consumed while the schedule runs).
type haCase struct {
	Ord        int    `json:"ord"` // index in the part's case list: VERIF_HA_CASE=<prop>/<ord> replays it
	Idx        int    `json:"case"`
	Stream     uint64 `json:"stream"`
	Nodes      int    `json:"nodes"`
	Stake      string `json:"stake"`     // equal | skewed
	AdvPct     int    `json:"adv_pct"`   // adversary stake share in percent of total
	AdvAccts   int    `json:"adv_accts"` // number of adversary accounts
	Adv        string `json:"adv"`       // none | echo | silence | replay | malformed | mix
	Net        string `json:"net"`       // S0 | S1 | S2 | S3 | S4 | mix
	DelayMaxMs int    `json:"delay_max_ms"`
	DropPm     int    `json:"drop_permille"`
	DupPm      int    `json:"dup_permille"`
	FlipPm     int    `json:"flip_permille"` // chance to change the partition at a trigger
	HoldHeal   bool   `json:"hold_until_heal"`
	PrefixRnds int    `json:"prefix_rounds"`
	PrefixCapS int    `json:"prefix_cap_s"`
	TailRnds   int    `json:"tail_rounds"`
	FlushTail  bool   `json:"flush_inflight_at_sync"`
	Crashes    []haCrashPlan `json:"crashes"`
	QCrashPm   int    `json:"quiescent_crash_permille"`
	PersistFailNode int `json:"persist_fail_node"` // -1: none
	PersistFailFrom int `json:"persist_fail_from_round"`
	PersistDelayUs  int `json:"persist_delay_us"`
	NonceFactory    bool `json:"nonce_factory"`
}

type haCrashPlan struct {
	Node      int    `json:"node"`
	Hook      string `json:"hook"`
	Nth       int    `json:"nth"`
	FromRound int    `json:"from_round"` // armed when the node's ledger reaches this round
	DownMs    int    `json:"down_ms"`    // virtual downtime before restart
	Again     string `json:"again"`      // hook to arm (nth=AgainNth) right after the restart: double crash
	AgainNth  int    `json:"again_nth"`
	armed     bool
	done      bool
}

type haPending struct {
	at   time.Duration
	seq  uint64
	dst  int
	src  int
	tag  protocol.Tag
	data []byte
	dup  bool
	hold int // 0: none; 1: until partition heals / link opens; 2: payload held until dst asked for the digest
	rnd  basics.Round
}

type haPQ []*haPending

func (q haPQ) Len() int { return len(q) }
func (q haPQ) Less(i, j int) bool {
	if q[i].at != q[j].at {
		return q[i].at < q[j].at
	}
	return q[i].seq < q[j].seq
}
func (q haPQ) Swap(i, j int) { q[i], q[j] = q[j], q[i] }
func (q *haPQ) Push(x any)   { *q = append(*q, x.(*haPending)) }
func (q *haPQ) Pop() any {
	o := *q
	n := len(o)
	x := o[n-1]
	*q = o[:n-1]
	return x
}

// haRun is the state of one schedule execution.
type haRun struct {
	cl   *haCluster
	cs   *haCase
	r    *kit.Rand
	pq   haPQ
	held []*haPending
	seq  uint64

	group     []int // partition group per node; all equal = healed
	frozen    []bool
	thawAt    []time.Duration
	lateNodes map[int]bool // S4: nodes from which payloads are withheld
	crown     map[int]bool // when set, only these nodes receive anything (one-way starvation of the others)
	crownTill time.Duration

	// S7 (late payload past the deadline + split delivery of cert and next votes), re-drawn every round
	s7round  basics.Round
	s7late   map[int]bool  // nodes that get payloads late
	s7delay  time.Duration // payload delay (relative to when the payload was sent, i.e. ~ the start of the period)
	s7crown  int           // the node that sees cert votes first (and next votes late); -1: not chosen yet
	s7pickAt int           // 0: the sender of the round's first cert vote is crowned; 1: a PRNG-chosen node
	s7split  time.Duration // how much later the other side sees the withheld votes
	// S9 (lagging node, certificate of the next period before any payload; see routeS9)
	s9round  basics.Round
	s9lag    int
	s9init   bool
	s9heldP0 []*haPending // period-0 payloads held back for the lagging node
	s9heldP1 []*haPending // payloads of later periods held back for the lagging node
	s9phase  int
	s9at     time.Duration

	// S8 (split next quorums): in period 0 of the target round both a bottom and a value next-quorum form and the
	// nodes are split between them; see routeS8
	s8round   basics.Round
	s8B       map[int]bool // nodes that learn the bottom quorum (s8first is the one that gets it at once)
	s8first   int
	s8step4   map[int]bool // senders of step next+1 votes seen
	s8step5   map[int]bool // senders of step next+2 votes seen
	s8soft    []*haPending // soft votes held back
	s8late4   []*haPending // step next+1 votes held back for the rest of B
	s8phase   int
	forceSync bool
	s7payloadAt time.Duration // latest scheduled arrival of a late payload of this round
	s7jitter    time.Duration // next votes reach the non-crowned nodes this long after the late payload
	s7nextNow   bool          // variety: next votes are not held back
	lastPos   string
	certSeen  map[basics.Round]bool
	tail      bool
	adv       *haAdv
	wireLog   []*haWire

	// results
	syncAt       time.Duration
	syncRound    basics.Round
	syncPos      []string
	syncMaxPer   period
	tailDone     bool
	tailCommitAt map[int]time.Duration
	lagSince     map[int]time.Duration
	steps        int
	flips        int
	flipPos      map[string]bool
	deliveries   int
	drops        int
	dups         int
	restarts     int
	qcrashes     int
}

type haResult struct {
	Case         *haCase
	Stats        haRunStats
	Findings     []haFinding
	FP           uint64
	HarnessFail  string
	SyncRound    basics.Round
	SyncPos      []string
	TailOK       bool
	TailVirtual  time.Duration // virtual time from the synchrony point until every node holds block SyncRound
	TailPeriods  int           // period of the certificate that committed SyncRound minus the highest period at the synchrony point (>= 0)
	TailCertPer  int
	Steps        int
	Flips        int
	FlipPos      int
	Deliveries   int
	Drops        int
	CrashRecs    []haCrashRec
	Shapes       []string
	HookHits     map[string]int
	Trace        []string
	FastRecovery bool
	VirtualEnd   time.Duration
}

func haStakes(cs *haCase) (honest, adv []uint64) {
	const unit = 1000000
	honest = make([]uint64, cs.Nodes)
	tot := uint64(0)
	for i := range honest {
		honest[i] = unit
		if cs.Stake == "skewed" {
			// mild skew: the tail needs every honest node anyway; thresholds are ~76% of the committee
			honest[i] = unit * uint64(2+((i*7)%3)) / 2
		}
		tot += honest[i]
	}
	if cs.AdvPct > 0 && cs.AdvAccts > 0 {
		advTot := tot * uint64(cs.AdvPct) / uint64(100-cs.AdvPct)
		for i := 0; i < cs.AdvAccts; i++ {
			adv = append(adv, advTot/uint64(cs.AdvAccts))
		}
	}
	return
}

// haExec runs one case to completion and returns what the monitors saw.
func haExec(c *kit.Ctx, cs *haCase) (res haResult) {
	r := c.Rand(cs.Stream, uint64(cs.Idx), 0x4841)
	mon := haNewMonitors(c)
	mon.persistDelay = time.Duration(cs.PersistDelayUs) * time.Microsecond
	mon.nonceFactory = cs.NonceFactory
	hs, as := haStakes(cs)
	cl := haNewCluster(c, mon, r, fmt.Sprintf("%d/%d", cs.Stream, cs.Idx), haClusterCfg{Nodes: cs.Nodes, Stakes: hs, AdvStakes: as, Version: protocol.ConsensusCurrentVersion})
	mon.ref = haNewLedger(cl, -1)
	cl.nonce = cs.NonceFactory
	run := &haRun{cl: cl, cs: cs, r: r, group: make([]int, cs.Nodes), frozen: make([]bool, cs.Nodes), thawAt: make([]time.Duration, cs.Nodes),
		lateNodes: map[int]bool{}, s7crown: -1, certSeen: map[basics.Round]bool{}, tailCommitAt: map[int]time.Duration{}, lagSince: map[int]time.Duration{}, flipPos: map[string]bool{}}
	if len(as) > 0 || cs.Adv == "replay" || cs.Adv == "malformed" || cs.Adv == "mix" {
		run.adv = haNewAdv(run)
	}
	res.Case = cs
	defer func() {
		if p := recover(); p != nil {
			// a panic on the scheduler goroutine is a harness problem (panics inside the services kill the process
			// and are reported by the driver)
			res.HarnessFail = fmt.Sprintf("scheduler panic: %v", p)
		}
		cl.shutdown()
	}()
	run.execute()
	res.Stats = mon.stats(cl)
	mon.mu.Lock()
	res.Findings = append(res.Findings, mon.findings...)
	res.HookHits = map[string]int{}
	for k, v := range mon.hookHits {
		res.HookHits[k] = v
	}
	mon.mu.Unlock()
	res.FP = cl.fp
	if cl.failed.Load() {
		res.HarnessFail = cl.failMsg
	}
	res.SyncRound = run.syncRound
	res.SyncPos = run.syncPos
	res.TailOK = run.tailDone
	res.Steps = run.steps
	res.Flips = run.flips
	res.FlipPos = len(run.flipPos)
	res.Deliveries = run.deliveries
	res.Drops = run.drops
	res.CrashRecs = cl.crashList()
	res.Shapes = mon.shapes()
	res.VirtualEnd = cl.Now()
	// C05 quantities
	var last time.Duration
	all := true
	for i := range cl.nodes {
		at, ok := run.tailCommitAt[i]
		if !ok {
			all = false
			continue
		}
		if at > last {
			last = at
		}
	}
	if all && run.syncAt > 0 {
		res.TailVirtual = last - run.syncAt
	} else {
		res.TailVirtual = -1
	}
	if _, cert, ok := mon.canonical(run.syncRound); ok {
		res.TailCertPer = int(cert.Period)
		res.TailPeriods = int(cert.Period) - int(run.syncMaxPer)
		if res.TailPeriods < 0 {
			res.TailPeriods = 0
		}
	} else {
		res.TailPeriods = -1
	}
	lambda := config.Consensus[protocol.ConsensusCurrentVersion].FastRecoveryLambda
	res.FastRecovery = res.TailVirtual >= lambda
	if len(res.Findings) > 0 || res.HarnessFail != "" || !res.TailOK || os.Getenv("VERIF_HA_TRACE") != "" {
		res.Trace = cl.traceTail(500)
		if n, err := strconv.Atoi(os.Getenv("VERIF_HA_TRACE")); err == nil && n > 500 {
			res.Trace = cl.traceTail(n)
		}
	}
	return
}

func (run *haRun) posVector() []string {
	var out []string
	for _, n := range run.cl.nodes {
		inc := n.live()
		if inc == nil {
			out = append(out, "down")
			continue
		}
		r, p, s := inc.pos()
		out = append(out, fmt.Sprintf("%d.%d.%d", r, p, s))
	}
	return out
}

func (run *haRun) maxNext() basics.Round {
	var m basics.Round
	for _, n := range run.cl.nodes {
		if x := n.ledger.NextRound(); x > m {
			m = x
		}
	}
	return m
}

func (run *haRun) minNext() basics.Round {
	m := basics.Round(1 << 60)
	for _, n := range run.cl.nodes {
		if x := n.ledger.NextRound(); x < m {
			m = x
		}
	}
	return m
}

func (run *haRun) healed() bool {
	for _, g := range run.group {
		if g != run.group[0] {
			return false
		}
	}
	return true
}

func (run *haRun) execute() {
	cl, cs := run.cl, run.cs
	for _, n := range cl.nodes {
		cl.startInc(n, nil, false)
	}
	if !cl.waitQuiet() {
		return
	}
	if cs.Net == "S2" || cs.Net == "mix" {
		run.planStarvation()
	}
	if cs.Net == "S4" || (cs.Net == "mix" && run.r.Chance(1, 3)) {
		k := 1 + run.r.Intn(max(1, cs.Nodes/2))
		for _, i := range run.r.Perm(cs.Nodes)[:k] {
			run.lateNodes[i] = true
		}
		cl.sched("LATE-PAYLOAD nodes=%v", keysOf(run.lateNodes))
	}
	prefixCap := time.Duration(cs.PrefixCapS) * time.Second
	tailCap := time.Duration(0)
	targetTail := basics.Round(0)
	const maxSteps = 400000
	for run.steps = 0; run.steps < maxSteps; run.steps++ {
		if cl.failed.Load() {
			return
		}
		run.absorb()
		if !run.tail {
			if cs.Net == "S8" && !run.forceSync && run.s8Done() {
				run.forceSync = true
				cl.mon.c.Count("s8_split_next_quorum_prefixes_built", 1)
			}
			if run.maxNext() >= basics.Round(1+cs.PrefixRnds) || cl.Now() >= prefixCap || run.forceSync {
				run.synchronise()
				tailCap = cl.Now() + haTailCapVirtual
				targetTail = run.syncRound + basics.Round(cs.TailRnds)
				continue
			}
			run.prefixTick()
		} else {
			run.tailTick()
			if run.minNext() >= targetTail {
				run.tailDone = true
				return
			}
			if cl.Now() > tailCap || run.maxNext() > targetTail+12 {
				return // no progress (or one node left behind while the others run on) within the virtual-time cap: reported by the runner (C05) / vacuity elsewhere
			}
		}
		if !run.advance() {
			return
		}
	}
	cl.fail("schedule exceeded %d steps", maxSteps)
}

// absorb routes everything the nodes sent since the last step.
func (run *haRun) absorb() {
	cl := run.cl
	for _, w := range cl.drainOutbox() {
		run.wireLog = append(run.wireLog, w)
		if len(run.wireLog) > 4000 {
			run.wireLog = run.wireLog[1000:]
		}
		if run.adv != nil && !run.tail {
			run.adv.observe(w)
		}
		if w.tag == protocol.AgreementVoteTag && !run.tail {
			if o, err := decodeVote(w.data); err == nil {
				uv := o.(unauthenticatedVote)
				if uv.R.Step == cert && !run.certSeen[uv.R.Round] {
					run.certSeen[uv.R.Round] = true
					run.trigger("first-cert-vote")
				}
			}
		}
		for dst := range cl.nodes {
			if dst == w.src || dst == w.exclude {
				continue
			}
			run.route(w, dst)
		}
	}
}

func (run *haRun) push(p *haPending) {
	run.seq++
	p.seq = run.seq
	heap.Push(&run.pq, p)
}

// route decides the fate of one (message, destination) pair.
func (run *haRun) route(w *haWire, dst int) {
	cl, cs := run.cl, run.cs
	p := &haPending{at: cl.Now(), dst: dst, src: w.src, tag: w.tag, data: w.data}
	if run.tail {
		run.push(p)
		return
	}
	if cs.Net == "S7" {
		run.routeS7(w, dst, p)
		return
	}
	if cs.Net == "S8" {
		run.routeS8(w, dst, p)
		return
	}
	if cs.Net == "S9" {
		run.routeS9(w, dst, p)
		return
	}
	// crown: only the crowned nodes receive
	if run.crown != nil && !run.crown[dst] {
		run.drops++
		cl.sched("CDROP %d->%d %s", w.src, dst, w.tag)
		return
	}
	// partitions
	if run.group[w.src] != run.group[dst] {
		if cs.HoldHeal {
			p.hold = 1
			run.held = append(run.held, p)
			cl.sched("HOLD %d->%d %s", w.src, dst, w.tag)
		} else {
			run.drops++
			cl.sched("PDROP %d->%d %s", w.src, dst, w.tag)
		}
		return
	}
	// S4: payloads towards "late" nodes are withheld until the node asked its ledger for the digest
	if run.lateNodes[dst] && w.tag == protocol.ProposalPayloadTag {
		p.hold = 2
		if o, err := decodeProposal(w.data); err == nil {
			p.rnd = o.(compoundMessage).Proposal.Round()
		}
		run.held = append(run.held, p)
		cl.sched("HOLDPAYLOAD %d->%d", w.src, dst)
		return
	}
	if cs.DropPm > 0 && run.r.Intn(1000) < cs.DropPm {
		run.drops++
		cl.sched("DROP %d->%d %s", w.src, dst, w.tag)
		return
	}
	if cs.DelayMaxMs > 0 {
		d := time.Duration(run.r.Intn(cs.DelayMaxMs+1)) * time.Millisecond
		p.at = cl.Now() + d
		if d > 0 {
			cl.sched("DELAY %d->%d %s %v", w.src, dst, w.tag, d)
		}
	}
	run.push(p)
	if cs.DupPm > 0 && run.r.Intn(1000) < cs.DupPm {
		q := *p
		q.dup = true
		q.at = p.at + time.Duration(run.r.Intn(cs.DelayMaxMs+50))*time.Millisecond
		run.push(&q)
		run.dups++
		cl.sched("DUP %d->%d %s", w.src, dst, w.tag)
	}
}

// s7Redraw draws the S7 parameters of a new round: which nodes get the payload late, how late relative to
// their timers (mostly inside the window between the deadline timeout, at which a node without the block
// next-votes bottom, and the following step timer; sometimes before or after it), who is crowned, and the split.
func (run *haRun) s7Redraw(r basics.Round) {
	cs := run.cs
	run.s7round = r
	run.s7late = map[int]bool{}
	k := cs.Nodes // everybody but the proposer itself (which holds its own block) gets the payload late
	if run.r.Chance(1, 4) {
		k = cs.Nodes - 1 - run.r.Intn(2)
	}
	run.s7payloadAt = 0
	run.s7jitter = time.Duration(5+run.r.Intn(600)) * time.Millisecond
	run.s7nextNow = run.r.Chance(1, 5)
	for _, i := range run.r.Perm(cs.Nodes)[:k] {
		run.s7late[i] = true
	}
	deadline := config.Consensus[run.cl.version].AgreementDeadlineTimeoutPeriod0
	switch run.r.Intn(20) {
	case 0, 1, 2: // before the deadline (after the filter timeout)
		run.s7delay = deadline - time.Duration(100+run.r.Intn(800))*time.Millisecond
	case 3, 4: // after the next step timer
		run.s7delay = deadline + recoveryExtraTimeout + time.Duration(100+run.r.Intn(5000))*time.Millisecond
	default: // between the deadline timeout and the following step timer
		run.s7delay = deadline + time.Duration(20+run.r.Intn(int(recoveryExtraTimeout/time.Millisecond)-40))*time.Millisecond
	}
	run.s7crown = -1
	run.s7pickAt = 0
	if run.r.Chance(1, 4) {
		run.s7pickAt = 1
	}
	run.s7split = time.Duration(8+run.r.Intn(40)) * time.Second
	run.cl.sched("S7 round=%d late=%v payload_delay=%v pick=%d split=%v", r, keysOf(run.s7late), run.s7delay, run.s7pickAt, run.s7split)
}

// routeS7: honest nodes only, delays only. Proposal votes and soft votes reach everybody at once; payloads reach
// the late nodes after s7delay; cert votes reach the crowned node at once and the others s7split later; next
// votes (and fast-recovery votes, bundles) reach the others at once and the crowned node s7split later.
func (run *haRun) routeS7(w *haWire, dst int, p *haPending) {
	cl := run.cl
	if mx := run.maxNext(); mx != run.s7round {
		run.s7Redraw(mx)
	}
	switch w.tag {
	case protocol.ProposalPayloadTag:
		o, err := decodeProposal(w.data)
		if err == nil && o.(compoundMessage).Proposal.Round() == run.s7round && run.s7late[dst] {
			p.at = cl.Now() + run.s7delay
			if p.at > run.s7payloadAt {
				run.s7payloadAt = p.at
			}
			cl.sched("S7 LATEPAYLOAD %d->%d at=%v", w.src, dst, p.at)
		}
	case protocol.AgreementVoteTag:
		o, err := decodeVote(w.data)
		if err != nil {
			break
		}
		rv := o.(unauthenticatedVote).R
		if rv.Round != run.s7round || rv.Period != 0 {
			break // only period 0 of the current round is manipulated; later periods run undisturbed
		}
		if rv.Step == cert && run.s7crown < 0 {
			run.s7crown = w.src
			if run.s7pickAt == 1 {
				run.s7crown = run.r.Intn(run.cs.Nodes)
			}
			cl.sched("S7 CROWN node=%d", run.s7crown)
		}
		switch {
		case rv.Step == cert && run.s7crown >= 0 && dst != run.s7crown:
			p.at = cl.Now() + run.s7split
		case rv.Step >= next && run.s7crown >= 0 && dst == run.s7crown:
			p.at = cl.Now() + run.s7split
		case rv.Step >= next && !run.s7nextNow:
			// the others see the next votes only after the late payload has arrived
			if at := run.s7payloadAt + run.s7jitter; at > p.at {
				p.at = at
			}
		}
	case protocol.VoteBundleTag:
		o, err := decodeBundle(w.data)
		if err == nil {
			b := o.(unauthenticatedBundle)
			if b.Round == run.s7round && b.Period == 0 && run.s7crown >= 0 && dst == run.s7crown {
				p.at = cl.Now() + run.s7split
			}
		}
	}
	run.push(p)
}

// routeS8 builds, with honest nodes and message delays/losses only, the prefix in which only the re-broadcast of
// the freshest bundle can restore progress: in period 0 of round s8round
//   - proposals and payloads reach everybody, soft votes are held back: nobody cert-votes, at the deadline all
//     next-vote bottom (these step-next votes are lost);
//   - the step next+1 bottom votes reach one node of set B at once (it enters period 1 through the bottom quorum),
//     are held back for the rest of B and lost for set A;
//   - then the soft votes arrive: v is staged, the remaining nodes next-vote v at step next+2; these votes reach
//     only set A, which enters period 1 through the value quorum;
//   - finally the held step next+1 votes reach the rest of B, which enters period 1 through the bottom quorum.
// Neither A nor B is a quorum. Everything else of that round is lost, then the synchrony point is forced.
// PRNG: the target round, the members and size of B, the first node.
func (run *haRun) routeS8(w *haWire, dst int, p *haPending) {
	cl := run.cl
	if run.s8B == nil {
		n := run.cs.Nodes
		run.s8round = basics.Round(1 + run.r.Intn(2))
		sizeB := 2 + run.r.Intn(n-3) // 2..n-2: neither side reaches a quorum (which needs n-1 nodes)
		perm := run.r.Perm(n)
		run.s8B = map[int]bool{}
		for _, i := range perm[:sizeB] {
			run.s8B[i] = true
		}
		run.s8first = perm[0]
		run.s8step4, run.s8step5 = map[int]bool{}, map[int]bool{}
		cl.sched("S8 round=%d B=%v first=%d", run.s8round, keysOf(run.s8B), run.s8first)
	}
	var rv rawVote
	isVote := false
	switch w.tag {
	case protocol.AgreementVoteTag:
		if o, err := decodeVote(w.data); err == nil {
			rv, isVote = o.(unauthenticatedVote).R, true
		}
	case protocol.VoteBundleTag:
		if o, err := decodeBundle(w.data); err == nil && o.(unauthenticatedBundle).Round == run.s8round {
			run.drops++
			return // no bundle of the target round gets through before the synchrony point
		}
	case protocol.ProposalPayloadTag:
		if o, err := decodeProposal(w.data); err == nil {
			cm := o.(compoundMessage)
			if cm.Proposal.Round() == run.s8round && cm.Proposal.OriginalPeriod == 0 && (cm.Vote == (unauthenticatedVote{}) || cm.Vote.R.Period == 0) {
				run.push(p)
				return
			}
			if cm.Proposal.Round() == run.s8round {
				run.drops++
				return
			}
		}
	}
	if !isVote || rv.Round != run.s8round {
		run.push(p) // other rounds run undisturbed
		return
	}
	if rv.Period != 0 {
		run.drops++ // period >= 1 of the target round: nothing gets through before the synchrony point
		return
	}
	author := w.src // relays carry other nodes' votes: phases are driven by who cast a vote, not by who forwards it
	if acc, ok := cl.byAddr[rv.Sender]; ok && acc.owner >= 0 {
		author = acc.owner
	}
	switch {
	case rv.Step == propose:
		run.push(p)
	case rv.Step == soft:
		if run.s8phase >= 1 {
			run.push(p)
		} else {
			run.s8soft = append(run.s8soft, p)
		}
	case rv.Step == next+1:
		run.s8step4[author] = true
		switch {
		case dst == run.s8first:
			run.push(p)
		case run.s8B[dst]:
			if run.s8phase >= 2 {
				run.push(p)
			} else {
				run.s8late4 = append(run.s8late4, p)
			}
		default:
			run.drops++
		}
		if run.s8phase == 0 && len(run.s8step4) >= run.cs.Nodes-1 {
			run.s8phase = 1
			cl.sched("S8 release soft votes (%d)", len(run.s8soft))
			for _, q := range run.s8soft {
				q.at = cl.Now()
				run.push(q)
			}
			run.s8soft = nil
		}
	case rv.Step == next+2:
		run.s8step5[author] = true
		if !run.s8B[dst] {
			run.push(p)
		} else {
			run.drops++
		}
		if run.s8phase == 1 && len(run.s8step5) >= run.cs.Nodes-1 {
			run.s8phase = 2
			cl.sched("S8 release held bottom votes (%d)", len(run.s8late4))
			for _, q := range run.s8late4 {
				q.at = cl.Now()
				run.push(q)
			}
			run.s8late4 = nil
		}
	default:
		run.drops++ // cert, step next, steps > next+2, fast-recovery votes of period 0: lost
	}
}

// routeS9 (honest nodes, delays and losses only) makes one node L lag one period behind and lets it see the
// certificate of the next period before any payload: in period 0 of round s9round
//   - proposal votes reach everybody, but L gets no payload (they are held back); all soft votes are lost, so
//     period 0 fails: at the deadline everybody next-votes bottom; L receives none of the next votes and stays in
//     period 0 while the others move to period 1, propose, soft-vote, cert-vote and commit a block A;
//   - of period 1, L receives only the cert votes: it holds a certificate for A without A's payload
//     (stageDigest / EnsureDigest) while its proposal store still has the lowest period-0 proposal B;
//   - then the held period-0 payloads (B's among them) are released to L, and A's payload a little later.
// A correct node ignores B's payload and commits A with its certificate once A's payload arrives.
// PRNG: the round, the lagging node, the delay before A's payload is released.
func (run *haRun) routeS9(w *haWire, dst int, p *haPending) {
	cl := run.cl
	if !run.s9init {
		run.s9init = true
		run.s9round = basics.Round(1 + run.r.Intn(2))
		run.s9lag = run.r.Intn(run.cs.Nodes)
		cl.sched("S9 round=%d lagging=%d", run.s9round, run.s9lag)
	}
	L := run.s9lag
	if run.s9phase >= 3 {
		run.push(p) // the construction is over
		return
	}
	switch w.tag {
	case protocol.ProposalPayloadTag:
		o, err := decodeProposal(w.data)
		if err != nil || o.(compoundMessage).Proposal.Round() != run.s9round || dst != L {
			break
		}
		if o.(compoundMessage).Proposal.OriginalPeriod == 0 {
			run.s9heldP0 = append(run.s9heldP0, p)
		} else {
			run.s9heldP1 = append(run.s9heldP1, p)
		}
		return
	case protocol.VoteBundleTag:
		if o, err := decodeBundle(w.data); err == nil && o.(unauthenticatedBundle).Round == run.s9round && dst == L {
			run.drops++
			return
		}
	case protocol.AgreementVoteTag:
		o, err := decodeVote(w.data)
		if err != nil {
			break
		}
		rv := o.(unauthenticatedVote).R
		if rv.Round != run.s9round {
			break
		}
		switch {
		case rv.Period == 0 && rv.Step == propose:
		case rv.Period == 0 && rv.Step == soft:
			run.drops++
			return
		case rv.Step == cert:
		default: // next and fast-recovery votes of any period, and propose/soft votes of later periods
			if dst == L {
				run.drops++
				return
			}
		}
	}
	run.push(p)
}

// s9Tick releases the held payloads once the lagging node holds the certificate without the block.
func (run *haRun) s9Tick() {
	cl := run.cl
	if !run.s9init || run.s9phase >= 3 {
		return
	}
	l := cl.nodes[run.s9lag].ledger
	switch run.s9phase {
	case 0:
		l.mu.Lock()
		_, wants := l.want[run.s9round]
		l.mu.Unlock()
		if !wants {
			if l.NextRound() > run.s9round {
				run.s9phase = 3 // the node got the block some other way
			}
			return
		}
		run.s9phase = 1
		run.s9at = cl.Now() + time.Duration(200+run.r.Intn(3000))*time.Millisecond
		cl.sched("S9 release %d period-0 payloads to the lagging node; later payloads at %v", len(run.s9heldP0), run.s9at)
		cl.mon.c.Count("s9_other_payload_after_certificate", 1)
		for _, q := range run.s9heldP0 {
			q.at = cl.Now()
			run.push(q)
		}
		run.s9heldP0 = nil
	case 1:
		if cl.Now() >= run.s9at {
			run.s9phase = 3
			for _, q := range append(run.s9heldP0, run.s9heldP1...) {
				q.at = cl.Now()
				run.push(q)
			}
			run.s9heldP0, run.s9heldP1 = nil, nil
		}
	}
}

// s8Done: every node has left period 0 of the target round after the construction completed.
func (run *haRun) s8Done() bool {
	if run.s8phase < 2 {
		return false
	}
	for _, n := range run.cl.nodes {
		inc := n.live()
		if inc == nil {
			return false
		}
		r, p, _ := inc.pos()
		if r != run.s8round || p < 1 {
			return false
		}
	}
	return true
}

func keysOf(m map[int]bool) []int {
	var out []int
	for k := range m {
		out = append(out, k)
	}
	sort.Ints(out)
	return out
}

// trigger: a point at which the partition may change (period boundary, first cert vote, time).
func (run *haRun) trigger(why string) {
	cs := run.cs
	if run.tail {
		return
	}
	if cs.Net == "S6" {
		// S6: at the first cert vote of a round one node is crowned: only it receives traffic for a while, so it
		// may commit alone while the others have to carry the value into the next period
		if why == "first-cert-vote" && run.crown == nil {
			run.crown = map[int]bool{run.r.Intn(cs.Nodes): true}
			run.crownTill = run.cl.Now() + time.Duration(2+run.r.Intn(30))*time.Second
			run.cl.sched("CROWN nodes=%v until=%v", keysOf(run.crown), run.crownTill)
		}
		return
	}
	if cs.Net != "S3" && cs.Net != "mix" {
		return
	}
	if run.r.Intn(1000) >= cs.FlipPm {
		return
	}
	run.flips++
	for _, s := range run.posVector() {
		run.flipPos[s] = true
	}
	n := cs.Nodes
	if why == "first-cert-vote" && run.r.Chance(1, 2) {
		// only one node gets to see the cert votes (it may commit alone; the others must carry the value)
		run.crown = map[int]bool{run.r.Intn(n): true}
		run.crownTill = run.cl.Now() + time.Duration(5+run.r.Intn(40))*time.Second
		run.cl.sched("CROWN nodes=%v until=%v", keysOf(run.crown), run.crownTill)
		return
	}
	switch run.r.Intn(4) {
	case 0: // heal
		for i := range run.group {
			run.group[i] = 0
		}
	case 1: // isolate one node
		for i := range run.group {
			run.group[i] = 0
		}
		run.group[run.r.Intn(n)] = 1
	default: // threshold-splitting: two groups, neither of which reaches a quorum on its own
		perm := run.r.Perm(n)
		for i, x := range perm {
			if i < (n+1)/2 {
				run.group[x] = 0
			} else {
				run.group[x] = 1
			}
		}
	}
	run.cl.sched("PARTITION why=%s groups=%v", why, run.group)
	if run.healed() {
		run.releaseHeld(1)
	}
}

func (run *haRun) releaseHeld(kind int) {
	var keep []*haPending
	for _, p := range run.held {
		if p.hold == kind && (kind != 1 || run.group[p.src] == run.group[p.dst] || p.src == haAdversary) {
			p.hold = 0
			p.at = run.cl.Now()
			run.push(p)
		} else {
			keep = append(keep, p)
		}
	}
	run.held = keep
}

func (run *haRun) planStarvation() {
	// S2: one or two nodes are starved (no deliveries, frozen clock) until a change point
	cs := run.cs
	k := 1
	if cs.Nodes >= 5 && run.r.Chance(1, 3) {
		k = 2
	}
	for _, i := range run.r.Perm(cs.Nodes)[:k] {
		run.frozen[i] = true
		run.thawAt[i] = time.Duration(1+run.r.Intn(max(1, cs.PrefixCapS))) * time.Second
		run.cl.sched("STARVE node=%d until=%v", i, run.thawAt[i])
	}
}

// prefixTick: asynchronous-phase bookkeeping at every step.
func (run *haRun) prefixTick() {
	cl, cs := run.cl, run.cs
	// period/round boundary trigger
	pv := fmt.Sprint(run.posVector())
	if pv != run.lastPos {
		run.lastPos = pv
		run.trigger("position-change")
	}
	// S4 release
	if len(run.lateNodes) > 0 {
		var keep []*haPending
		for _, p := range run.held {
			rel := false
			if p.hold == 2 {
				l := cl.nodes[p.dst].ledger
				l.mu.Lock()
				_, wants := l.want[p.rnd]
				done := l.next > p.rnd
				l.mu.Unlock()
				rel = wants || done
			}
			if rel {
				p.hold = 0
				p.at = cl.Now()
				run.push(p)
				cl.sched("RELEASEPAYLOAD ->%d round=%d", p.dst, p.rnd)
				cl.mon.c.Count("late_payload_releases", 1)
			} else {
				keep = append(keep, p)
			}
		}
		run.held = keep
	}
	if cs.Net == "S9" {
		run.s9Tick()
	}
	if run.crown != nil && cl.Now() >= run.crownTill {
		run.crown = nil
		cl.sched("UNCROWN")
	}
	// thaw starved nodes
	for i := range run.frozen {
		if run.frozen[i] && cl.Now() >= run.thawAt[i] {
			run.frozen[i] = false
			cl.sched("THAW node=%d", i)
		}
	}
	// crash plans
	for i := range cs.Crashes {
		cp := &cs.Crashes[i]
		if cp.armed || cp.done {
			continue
		}
		if cl.nodes[cp.Node].ledger.NextRound() >= basics.Round(cp.FromRound) && cl.nodes[cp.Node].live() != nil {
			cp.armed = true
			if cp.Hook == "quiescent" {
				if inc := cl.nodes[cp.Node].live(); inc != nil {
					cl.mon.countHook("quiescent")
					cl.crash(inc, "quiescent", 1)
				}
			} else {
				cl.arm(cp.Node, cp.Hook, cp.Nth)
			}
		}
	}
	// random quiescent-point crashes
	if cs.QCrashPm > 0 && run.r.Intn(1000) < cs.QCrashPm {
		i := run.r.Intn(cs.Nodes)
		if inc := cl.nodes[i].live(); inc != nil && run.downCount() == 0 {
			cl.mon.countHook("quiescent")
			cl.crash(inc, "quiescent", 1)
			run.qcrashes++
		}
	}
	run.handleDown()
	// persist failure injection
	if cs.PersistFailNode >= 0 {
		n := cl.nodes[cs.PersistFailNode]
		if inc := n.live(); inc != nil {
			on := n.ledger.NextRound() >= basics.Round(cs.PersistFailFrom) && n.ledger.NextRound() < basics.Round(cs.PersistFailFrom+1)
			if on != inc.persistFail.Load() {
				inc.persistFail.Store(on)
				cl.sched("PERSISTFAIL node=%d on=%v", n.idx, on)
			}
		}
	}
	// occasional catch-up of a lagging node (the catch-up service exists during asynchrony too)
	if run.r.Intn(1000) < 15 {
		mx := run.maxNext()
		for i, n := range cl.nodes {
			if n.live() != nil && !run.frozen[i] && n.ledger.NextRound()+1 < mx {
				cl.catchup(i, mx-1)
			}
		}
	}
	if run.adv != nil {
		run.adv.tick()
	}
}

func (run *haRun) downCount() int {
	k := 0
	for _, n := range run.cl.nodes {
		if n.live() == nil {
			k++
		}
	}
	return k
}

// handleDown schedules and performs restarts of crashed nodes.
func (run *haRun) handleDown() {
	cl, cs := run.cl, run.cs
	for _, n := range cl.nodes {
		if n.live() != nil || n.crashing.Load() != 0 {
			continue
		}
		n.incMu.Lock()
		if n.restartAt == 0 {
			down := time.Duration(run.r.Intn(3000)) * time.Millisecond
			for i := range cs.Crashes {
				cp := &cs.Crashes[i]
				if cp.Node == n.idx && cp.armed && !cp.done {
					down = time.Duration(cp.DownMs) * time.Millisecond
				}
			}
			n.restartAt = n.downSince + down + 1
		}
		due := cl.Now() >= n.restartAt
		n.incMu.Unlock()
		if !due {
			continue
		}
		n.incMu.Lock()
		n.restartAt = 0
		n.incMu.Unlock()
		var again string
		var againNth int
		for i := range cs.Crashes {
			cp := &cs.Crashes[i]
			if cp.Node == n.idx && cp.armed && !cp.done {
				cp.done = true
				again, againNth = cp.Again, cp.AgainNth
			}
		}
		if again != "" {
			cl.arm(n.idx, again, againNth) // double crash: armed before the new incarnation runs
		}
		cl.restart(n)
		run.restarts++
		cl.waitQuiet()
	}
}

// synchronise: the synchrony point. All faults stop; from here every message is delivered before any
// clock advances past the receiver's next deadline.
func (run *haRun) synchronise() {
	cl, cs := run.cl, run.cs
	cl.disarmAll()
	cl.waitQuiet() // a crash procedure that is still running completes first
	run.tail = true
	for i := range run.group {
		run.group[i] = 0
	}
	for i := range run.frozen {
		run.frozen[i] = false
	}
	run.lateNodes = map[int]bool{}
	run.crown = nil
	cl.sched("SYNC-POINT")
	// restart whatever is down
	for _, n := range cl.nodes {
		if n.live() == nil {
			n.incMu.Lock()
			n.restartAt = 0
			n.incMu.Unlock()
			cl.restart(n)
			run.restarts++
		}
		if inc := n.live(); inc != nil {
			inc.persistFail.Store(false)
		}
	}
	cl.waitQuiet()
	// messages still in flight: delivered now or lost (both are legal outcomes of the asynchronous phase)
	if cs.FlushTail {
		for _, p := range run.held {
			p.hold = 0
			p.at = cl.Now()
			run.push(p)
		}
		run.held = nil
		for _, p := range run.pq {
			p.at = cl.Now()
		}
		heap.Init(&run.pq)
	} else {
		run.held = nil
		run.pq = nil
	}
	// drain what is deliverable now so that the measured phase starts from a settled network
	for run.pq.Len() > 0 {
		run.deliverBatch()
		cl.waitQuiet()
		run.absorb()
	}
	// ledgers catch up to the furthest node (catch-up service)
	mx := run.maxNext()
	for i := range cl.nodes {
		cl.catchup(i, mx)
	}
	cl.waitQuiet()
	run.absorb()
	run.syncAt = cl.Now()
	run.syncRound = run.maxNext()
	run.syncPos = run.posVector()
	for _, n := range cl.nodes {
		if inc := n.live(); inc != nil {
			r, p, _ := inc.pos()
			if r == run.syncRound && p > run.syncMaxPer {
				run.syncMaxPer = p
			}
		}
	}
	cl.sched("SYNCED round=%d pos=%v", run.syncRound, run.syncPos)
}

// tailTick: benign scheduler plus the catch-up service for nodes that hold a certificate without the block.
func (run *haRun) noteTailCommits() {
	for i, n := range run.cl.nodes {
		if n.ledger.NextRound() > run.syncRound {
			if _, ok := run.tailCommitAt[i]; !ok {
				run.tailCommitAt[i] = run.cl.Now()
			}
		}
	}
}

func (run *haRun) tailTick() {
	cl := run.cl
	defer run.noteTailCommits()
	run.noteTailCommits()
	for i, n := range cl.nodes {
		nr := n.ledger.NextRound()
		n.ledger.mu.Lock()
		_, wants := n.ledger.want[nr]
		n.ledger.mu.Unlock()
		if wants {
			cl.catchup(i, nr+1)
		}
	}
	// a node that was left behind (the others reached their quorum without it and moved on; votes of a period
	// more than one ahead of its own are not fresh for it) is served by the catch-up service after a delay
	mx := run.maxNext()
	for i, n := range cl.nodes {
		if n.ledger.NextRound() >= mx {
			delete(run.lagSince, i)
			continue
		}
		since, ok := run.lagSince[i]
		if !ok {
			run.lagSince[i] = cl.Now()
			continue
		}
		if cl.Now()-since >= haCatchupDelay {
			cl.mon.c.Count("tail_catchups_of_lagging_nodes", 1)
			cl.catchup(i, mx)
			delete(run.lagSince, i)
		}
	}
}

// haCatchupDelay is how long (virtual) a node may lag behind the others' ledgers before the simulated
// catch-up service delivers the missing blocks to it.
const haCatchupDelay = 10 * time.Second

// deliverBatch delivers, for every destination, at most one due message (the earliest); nodes process in parallel.
func (run *haRun) deliverBatch() int {
	cl := run.cl
	taken := map[int]bool{}
	var back []*haPending
	k := 0
	for run.pq.Len() > 0 && run.pq[0].at <= cl.Now() {
		p := heap.Pop(&run.pq).(*haPending)
		if taken[p.dst] || (!run.tail && run.frozen[p.dst]) {
			back = append(back, p)
			if len(back) > 4*len(cl.nodes)+64 {
				break
			}
			continue
		}
		if cl.deliver(p.dst, p.src, p.tag, p.data, p.dup, !run.tail) {
			taken[p.dst] = true
			run.deliveries++
			k++
		}
	}
	for _, p := range back {
		heap.Push(&run.pq, p)
	}
	return k
}

func (run *haRun) dueNow() bool {
	for _, p := range run.pq {
		if p.at <= run.cl.Now() && (run.tail || !run.frozen[p.dst]) {
			return true
		}
	}
	return false
}

// advance performs the next external step: deliver what is due, otherwise move virtual time to the next event.
func (run *haRun) advance() bool {
	cl := run.cl
	if run.dueNow() {
		if run.deliverBatch() > 0 {
			return cl.waitQuiet()
		}
	}
	// next event time
	next := time.Duration(-1)
	consider := func(t time.Duration) {
		if t > cl.Now() && (next < 0 || t < next) {
			next = t
		}
	}
	for _, p := range run.pq {
		if run.tail || !run.frozen[p.dst] {
			consider(p.at)
		}
	}
	fired := 0
	for i, n := range cl.nodes {
		if !run.tail && run.frozen[i] {
			consider(run.thawAt[i])
			continue
		}
		if n.live() == nil {
			n.incMu.Lock()
			if n.restartAt > 0 {
				consider(n.restartAt)
			}
			n.incMu.Unlock()
			continue
		}
		// a thawed node catches up with global time first
		if time.Duration(n.now.Load()) < cl.Now() {
			n.now.Store(int64(cl.Now()))
			fired += n.fireDue()
		}
		if d, ok := n.nextDeadline(); ok {
			if d <= cl.Now() {
				fired += n.fireDue()
			} else {
				consider(d)
			}
		}
	}
	if fired > 0 {
		return cl.waitQuiet()
	}
	if run.crown != nil && !run.tail {
		consider(run.crownTill)
	}
	if run.cs.Net == "S9" && run.s9phase == 1 && !run.tail {
		consider(run.s9at)
	}
	if next < 0 {
		// nothing armed anywhere: the cluster is stuck (every node down or frozen without a wake-up)
		if !run.tail && run.downCount() > 0 {
			run.handleDown()
			return true
		}
		cl.logf("STUCK no future event; pos=%v", run.posVector())
		if !run.tail {
			// let the prefix end: the synchrony point restarts and heals everything
			cl.setNow(cl.Now() + time.Duration(run.cs.PrefixCapS)*time.Second)
			return true
		}
		return false
	}
	cl.setNow(next)
	for i, n := range cl.nodes {
		if !run.tail && run.frozen[i] {
			continue
		}
		n.now.Store(int64(cl.Now()))
	}
	for i, n := range cl.nodes {
		if !run.tail && run.frozen[i] {
			continue
		}
		n.fireDue()
	}
	return cl.waitQuiet()
}

// haTailCapVirtual bounds the synchronous tail in virtual time (watchdog for the schedule, and the
// observation window of C05, whose own bound T is smaller).
const haTailCapVirtual = 3 * time.Hour
