package agreement

// C07 (in-package part): persisted consensus state restores exactly.
//
// States are reached by driving a real rootRouter + player with PRNG-generated, protocol-valid
// event streams (c07World: 7 voters of which 2 may equivocate, 5 needed for any quorum, honest
// voters vote one value per (round, period, step); proposal-votes with payloads, pipelined
// payloads for the next round, bundles, timeouts, fast timeouts, round interruptions,
// checkpoints, verification replies to the player's own crypto requests, the node's own votes
// and proposals looped back). Votes are struct-level (weights chosen, signatures and
// credentials are deterministic filler bytes): player and router never verify cryptography.
//
// part "codec", at many points S = (router, player, pending actions) of every stream:
//   (a) encode(decode(encode(S))) == encode(S) bytewise for msgp and reflection codecs and all
//       cross pairs, and encode_msgp(S) == encode_reflect(S);
//   (b) the structural description (all fields, exported or not, nil == empty) of
//       decode(encode(S)) equals that of S, outside c07NotPersisted: the explicit list of fields
//       the code deliberately does not persist. A field that is not on the list and does not
//       survive is a violation;
//   plus: the restored pending actions compare equal (type, ComparableStr, encoding).
// part "behaviour", (c): machines restored from encode(S) (msgp decode and reflection decode)
//   are fed the same subsequent events as the uncrashed machine; after every event the emitted
//   actions (type, ComparableStr, encoding) and the encoded state must be identical. Every batch
//   with a persistent (attest) action is first written through the real asyncPersistenceLoop
//   (Enqueue, as Service.persistState does) into an in-memory crash database; once the loop has
//   acknowledged it, restore() must return exactly that state, and snapshots taken at persist
//   points restore the machines from what the database holds, not from the in-memory encoding.
//
// What the oracle deliberately does not demand (the code does not persist it by design, see
// encode/decode and the struct tags): children of rounds before the player's round, the
// credential-arrival history / dynamic filter timeout and the late-credential tracking inside
// the proposal seeker, validated-block caches and arrival time stamps of proposals and votes,
// network message handles, completion channels, and the listener wrappers the routers rebuild
// lazily. Consequences for (c), so that the comparison stays fair: streams stay below 40
// completed rounds (the arrival history never fills, the filter timeout is the default on both
// sides); while a restored machine is being compared, the stream contains no proposal-vote for a
// (round, period) whose late-credential state was non-empty at the snapshot or for a round
// before it, and no verification reply to a request issued before the snapshot (after a real
// crash such replies do not exist: the request dies with the process).

import (
	"bytes"
	"encoding/binary"
	"fmt"
	"os"
	"runtime/debug"
	"sort"
	"strings"
	"sync"
	"sync/atomic"
	"testing"
	"time"

	"github.com/algorand/go-algorand/config"
	"github.com/algorand/go-algorand/crypto"
	"github.com/algorand/go-algorand/data/basics"
	"github.com/algorand/go-algorand/data/bookkeeping"
	"github.com/algorand/go-algorand/data/committee"
	"github.com/algorand/go-algorand/logging"
	"github.com/algorand/go-algorand/protocol"
	"github.com/algorand/go-algorand/util/db"
	"github.com/algorand/go-algorand/util/timers"
	"verif.local/kit"
)

// c07NotPersisted: "Type.field" pairs excluded from the structural comparison (b). Established
// on the unchanged tree by reading encode()/decode() and the struct definitions.
var c07NotPersisted = map[string]bool{
	// listener/actor wrappers: set on construction (makeRootRouter) or rebuilt lazily by update()
	"rootRouter.root": true, "rootRouter.proposalRoot": true, "rootRouter.voteRoot": true,
	"roundRouter.proposalRoot": true, "roundRouter.voteRoot": true,
	"periodRouter.proposalRoot": true, "periodRouter.voteRoot": true,
	"stepRouter.voteRoot": true,
	// credential arrival history / dynamic filter timeout (decode re-creates an empty history)
	"player.lowestCredentialArrivals": true, "player.dynamicFilterTimeout": true,
	"proposalSeeker.lowestIncludingLate": true, "proposalSeeker.hasLowestIncludingLate": true,
	"vote.validatedAt": true, "proposal.validatedAt": true, "unauthenticatedProposal.receivedAt": true,
	"ensureAction.voteValidatedAt": true, "ensureAction.dynamicFilterTimeout": true,
	// cached validated block
	"proposal.ve": true,
	// network message handles
	"message.messageHandle": true, "networkAction.h": true,
	// completion channels
	"checkpointAction.done": true, "checkpointEvent.done": true,
}

var c07FP = kit.FPOptions{NilEqualsEmpty: true, Skip: c07NotPersisted}

// c07LastLog keeps the last error-level log line: a Panicf message of the code under test would otherwise be masked
// by the nil dereference of a deferred tracer call (voteAggregator.handle defers logVoteAggregatorResult(e, res)).
type c07LastLog struct {
	mu   sync.Mutex
	last string
}

func (l *c07LastLog) Write(b []byte) (int, error) {
	l.mu.Lock()
	l.last = string(b)
	l.mu.Unlock()
	return len(b), nil
}

func (l *c07LastLog) get() string {
	l.mu.Lock()
	defer l.mu.Unlock()
	return strings.TrimSpace(l.last)
}

var c07LogSink = &c07LastLog{}

var c07ObserveOnce sync.Once

var c07PanicsObserved int32

var c07Log = func() logging.Logger {
	l := logging.NewLogger()
	l.SetOutput(c07LogSink)
	l.SetLevel(logging.Error)
	return l
}()

var c07Clock = timers.MakeMonotonicClock[TimeoutType](time.Date(2015, 1, 2, 5, 6, 7, 8, time.UTC))

// ---------------------------------------------------------------------------------------
// the world: event generation

const c07Voters = 7 // voters 5 and 6 may equivocate; quorum = 5 voters

type c07Key struct {
	r round
	p period
}

type c07Req struct {
	a        cryptoAction
	issuedAt int
}

type c07World struct {
	r        *kit.Rand
	ver      protocol.ConsensusVersion
	voters   [c07Voters]basics.Address
	cands    map[round][]proposal
	lead     map[c07Key]proposalValue
	nextBot  map[c07Key]bool
	choice   map[string]proposalValue
	queue    []event // burst / loopback events waiting to be delivered
	qdesc    []string
	reqs     []c07Req
	handle   int
	eventIdx int
}

func c07NewWorld(r *kit.Rand) *c07World {
	w := &c07World{r: r, ver: protocol.ConsensusCurrentVersion, cands: map[round][]proposal{}, lead: map[c07Key]proposalValue{},
		nextBot: map[c07Key]bool{}, choice: map[string]proposalValue{}}
	for i := range w.voters {
		copy(w.voters[i][:], r.Bytes(32))
	}
	return w
}

func c07Weight(ver protocol.ConsensusVersion, s step, seed byte) uint64 {
	if s == propose {
		return 1 + uint64(seed%3)
	}
	T, _, _ := c04ThresholdC07(config.Consensus[ver], s)
	return (T + 4) / 5
}

// c04ThresholdC07 duplicates the tiny step->threshold table so that this file does not depend on the C04 harness.
func c04ThresholdC07(proto config.ConsensusParams, s step) (uint64, uint64, bool) {
	switch {
	case s == propose:
		return 0, proto.NumProposers, false
	case s == soft:
		return proto.SoftCommitteeThreshold, proto.SoftCommitteeSize, true
	case s == cert:
		return proto.CertCommitteeThreshold, proto.CertCommitteeSize, true
	case s == late:
		return proto.LateCommitteeThreshold, proto.LateCommitteeSize, true
	case s == redo:
		return proto.RedoCommitteeThreshold, proto.RedoCommitteeSize, true
	case s == down:
		return proto.DownCommitteeThreshold, proto.DownCommitteeSize, true
	default:
		return proto.NextCommitteeThreshold, proto.NextCommitteeSize, true
	}
}

// c07VoteFromRaw derives the "verified" vote for a raw vote: the credential depends on
// (sender, round, period, step) only, the signature on the whole raw vote. Deterministic, so a
// verification reply can be rebuilt from the request alone.
func c07VoteFromRaw(ver protocol.ConsensusVersion, rv rawVote) vote {
	var buf [32 + 24]byte
	copy(buf[:], rv.Sender[:])
	binary.LittleEndian.PutUint64(buf[32:], uint64(rv.Round))
	binary.LittleEndian.PutUint64(buf[40:], uint64(rv.Period))
	binary.LittleEndian.PutUint64(buf[48:], uint64(rv.Step))
	h := crypto.Hash(buf[:])
	h2 := crypto.Hash(append(h[:], 1))
	hv := crypto.Hash(append(protocol.Encode(&rv), 2))
	hv2 := crypto.Hash(append(hv[:], 3))
	var cred committee.Credential
	cred.Weight = c07Weight(ver, rv.Step, h[0])
	cred.VrfOut = h
	cred.DomainSeparationEnabled = true
	copy(cred.Hashable.RawOut[:32], h[:])
	copy(cred.Hashable.RawOut[32:], h2[:])
	cred.Hashable.Member = rv.Sender
	copy(cred.Proof[:32], h2[:])
	copy(cred.Proof[32:64], h[:])
	copy(cred.Proof[64:], h2[:16])
	var sig crypto.OneTimeSignature
	copy(sig.Sig[:32], hv[:])
	copy(sig.Sig[32:], hv2[:])
	copy(sig.PK[:], hv2[:])
	copy(sig.PK2[:], hv[:])
	copy(sig.PK1Sig[:32], hv2[:])
	copy(sig.PK1Sig[32:], hv[:])
	copy(sig.PK2Sig[:32], hv[:])
	copy(sig.PK2Sig[32:], hv[:])
	return vote{R: rv, Cred: cred, Sig: sig}
}

func (w *c07World) vote(voter int, r round, p period, s step, v proposalValue) vote {
	return c07VoteFromRaw(w.ver, rawVote{Sender: w.voters[voter], Round: r, Period: p, Step: s, Proposal: v})
}

func (w *c07World) voterIdx(a basics.Address) int {
	for i := range w.voters {
		if w.voters[i] == a {
			return i
		}
	}
	return -1
}

func (w *c07World) newProposal(r round, p period, proposer int) proposal {
	var up unauthenticatedProposal
	up.Block = bookkeeping.Block{BlockHeader: bookkeeping.BlockHeader{Round: r, TimeStamp: int64(1700000000 + w.r.Intn(100000))}}
	copy(up.Block.BlockHeader.Branch[:], w.r.Bytes(32))
	copy(up.Block.BlockHeader.Seed[:], w.r.Bytes(32))
	copy(up.SeedProof[:], w.r.Bytes(len(up.SeedProof)))
	up.OriginalPeriod = p
	up.OriginalProposer = w.voters[proposer]
	pr := proposal{unauthenticatedProposal: up}
	if w.r.Bool() {
		pr.ve = testValidatedBlock{Inside: up.Block} // cached validated block (not persisted by design)
	}
	w.cands[r] = append(w.cands[r], pr)
	return pr
}

// candidates of round r usable in period p (original period <= p); creates one if none.
func (w *c07World) candidates(r round, p period) []proposal {
	var out []proposal
	for _, c := range w.cands[r] {
		if c.OriginalPeriod <= p {
			out = append(out, c)
		}
	}
	if len(out) == 0 || (len(w.cands[r]) < 3 && w.r.Chance(1, 12)) {
		out = append(out, w.newProposal(r, p, w.r.Intn(c07Voters)))
	}
	return out
}

func (w *c07World) leading(r round, p period) proposalValue {
	k := c07Key{r, p}
	if v, ok := w.lead[k]; ok {
		return v
	}
	// a later period usually keeps the value of the previous one (re-proposal)
	if p > 0 {
		if pv, ok := w.lead[c07Key{r, p - 1}]; ok && w.r.Chance(2, 3) {
			w.lead[k] = pv
			return pv
		}
	}
	cs := w.candidates(r, p)
	v := cs[w.r.Intn(len(cs))].value()
	w.lead[k] = v
	w.nextBot[k] = w.r.Bool()
	return v
}

func (w *c07World) stepLeading(r round, p period, s step) proposalValue {
	v := w.leading(r, p)
	switch {
	case s == down:
		return bottom
	case s >= next && s < late:
		if w.nextBot[c07Key{r, p}] {
			return bottom
		}
	}
	return v
}

// valueFor picks the value voter votes at (r,p,s): honest voters are consistent, voters 5 and 6 are not.
func (w *c07World) valueFor(voter int, r round, p period, s step) proposalValue {
	pick := func() proposalValue {
		if w.r.Chance(7, 8) {
			return w.stepLeading(r, p, s)
		}
		cs := w.candidates(r, p)
		v := cs[w.r.Intn(len(cs))].value()
		if s >= next && s != late && s != redo && w.r.Chance(1, 3) {
			v = bottom
		}
		if s == down && voter < 5 {
			v = bottom
		}
		return v
	}
	if voter >= 5 {
		return pick()
	}
	k := fmt.Sprintf("%d/%d/%d/%d", voter, r, p, s)
	if v, ok := w.choice[k]; ok {
		return v
	}
	v := pick()
	w.choice[k] = v
	return v
}

func (w *c07World) nextHandle() MessageHandle {
	w.handle++
	return fmt.Sprintf("peer-%d", w.handle)
}

func (w *c07World) proto() ConsensusVersionView { return ConsensusVersionView{Version: w.ver} }

func c07Short(v proposalValue) string {
	if v == bottom {
		return "bot"
	}
	return fmt.Sprintf("%x", v.BlockDigest[:3])
}

// restriction: which events must not be generated while restored machines are being compared
type c07Restrict struct {
	active    bool
	snapRound round
	taint     map[c07Key]bool
	snapAt    int
}

func (rs *c07Restrict) proposalVoteBarred(r round, p period) bool {
	return rs.active && (r < rs.snapRound || rs.taint[c07Key{r, p}])
}

// next generates the next event for a machine whose player is pl.
func (w *c07World) next(pl player, rs *c07Restrict) (event, string) {
	r := w.r
	w.eventIdx++
	for tries := 0; tries < 50; tries++ {
		// queued events (bursts, loopback) are interleaved with fresh ones
		if len(w.queue) > 0 && r.Chance(3, 5) {
			k := 0
			if r.Chance(1, 3) {
				k = r.Intn(len(w.queue))
			}
			e, d := w.queue[k], w.qdesc[k]
			w.queue = append(w.queue[:k], w.queue[k+1:]...)
			w.qdesc = append(w.qdesc[:k], w.qdesc[k+1:]...)
			if me, ok := e.(messageEvent); ok && (me.T == votePresent || me.T == voteVerified) && me.Input.UnauthenticatedVote.R.Step == propose &&
				rs.proposalVoteBarred(me.Input.UnauthenticatedVote.R.Round, me.Input.UnauthenticatedVote.R.Period) {
				continue
			}
			return e, "queued:" + d
		}
		switch r.Pick([]int{50, 12, 8, 12, 3, 1, 2, 8, 6}) {
		case 0:
			if e, d, ok := w.genVote(pl, rs); ok {
				return e, d
			}
		case 1:
			if e, d, ok := w.genPayload(pl); ok {
				return e, d
			}
		case 2:
			if e, d, ok := w.genBundle(pl); ok {
				return e, d
			}
		case 3:
			return timeoutEvent{T: timeout, RandomEntropy: r.Uint64(), Round: pl.Round, Proto: w.proto()}, "timeout"
		case 4:
			return timeoutEvent{T: fastTimeout, RandomEntropy: r.Uint64(), Round: pl.Round, Proto: w.proto()}, "fastTimeout"
		case 5:
			if r.Chance(1, 4) {
				nr := pl.Round + round(r.Range(1, 2))
				return roundInterruptionEvent{Round: nr, Proto: w.proto()}, fmt.Sprintf("roundInterruption(%d)", nr)
			}
		case 6:
			ce := checkpointEvent{Round: pl.Round, Period: pl.Period, Step: pl.Step}
			if r.Chance(1, 4) {
				ce.Err = makeSerErrStr("disk full")
			}
			return ce, "checkpoint"
		case 7:
			if e, d, ok := w.genReply(rs); ok {
				return e, d
			}
		case 8:
			w.genBurst(pl, rs)
		}
	}
	return timeoutEvent{T: timeout, RandomEntropy: r.Uint64(), Round: pl.Round, Proto: w.proto()}, "timeout"
}

func (w *c07World) pickRPS(pl player) (round, period, step) {
	r := w.r
	rd := pl.Round
	switch r.Pick([]int{85, 12, 3}) {
	case 1:
		rd = pl.Round + 1
	case 2:
		if pl.Round > 1 {
			rd = pl.Round - 1
		}
	}
	var p period
	if rd == pl.Round+1 {
		if r.Chance(1, 10) {
			p = 1
		}
	} else {
		switch r.Pick([]int{65, 12, 13, 5, 5}) {
		case 0:
			p = pl.Period
		case 1:
			p = pl.Period + 1
		case 2:
			p = pl.Period
			if p > 0 {
				p--
			}
		case 3:
			p = pl.Period + period(r.Range(2, 4))
		case 4:
			p = 0
		}
	}
	steps := []step{propose, soft, cert, next, next + 1, next + 2, next + 3, late, redo, down}
	s := steps[r.Pick([]int{20, 22, 22, 12, 4, 2, 2, 5, 5, 6})]
	return rd, p, s
}

func (w *c07World) voteEvent(voter int, rd round, p period, s step, v proposalValue, form int) (event, string) {
	r := w.r
	if s == propose {
		// a proposal-vote in the value's original period comes from its proposer
		cs := w.candidates(rd, p)
		c := cs[r.Intn(len(cs))]
		if voter < 5 {
			if lv := w.leading(rd, p); r.Chance(1, 2) {
				for _, x := range cs {
					if x.value() == lv {
						c = x
					}
				}
			}
		}
		v = c.value()
		if c.OriginalPeriod == p {
			voter = w.voterIdx(c.OriginalProposer)
		}
	}
	vt := w.vote(voter, rd, p, s, v)
	desc := fmt.Sprintf("v%d@(%d,%d,%d)=%s", voter, rd, p, s, c07Short(v))
	msg := message{Tag: protocol.AgreementVoteTag, UnauthenticatedVote: vt.u()}
	if !r.Chance(1, 10) {
		msg.messageHandle = w.nextHandle()
	}
	switch form {
	case 0: // verified
		msg.Vote = vt
		return messageEvent{T: voteVerified, Input: msg, Proto: w.proto()}, "voteVerified " + desc
	case 1: // present (a proposal-vote may carry its payload as tail: compound message)
		e := messageEvent{T: votePresent, Input: msg, Proto: w.proto()}
		if s == propose && r.Bool() {
			for _, c := range w.cands[rd] {
				if c.value() == v {
					tail := messageEvent{T: payloadPresent, Proto: w.proto(),
						Input: message{messageHandle: msg.messageHandle, Tag: protocol.ProposalPayloadTag, UnauthenticatedProposal: c.u()}}
					e.Tail = &tail
					desc += "+tail"
				}
			}
		}
		return e, "votePresent " + desc
	case 2: // verification failed
		msg.Vote = vt
		return messageEvent{T: voteVerified, Input: msg, Err: makeSerErrStr("bad signature"), Proto: w.proto()}, "voteVerified(err) " + desc
	default: // verification cancelled
		msg.Vote = vt
		return messageEvent{T: voteVerified, Input: msg, Cancelled: true, Err: makeSerErrStr("cancelled"), Proto: w.proto()}, "voteVerified(cancelled) " + desc
	}
}

func (w *c07World) genVote(pl player, rs *c07Restrict) (event, string, bool) {
	rd, p, s := w.pickRPS(pl)
	if s == propose && rs.proposalVoteBarred(rd, p) {
		return nil, "", false
	}
	voter := w.r.Intn(c07Voters)
	v := bottom
	if s != propose {
		v = w.valueFor(voter, rd, p, s)
		if (s == soft || s == cert) && v == bottom {
			return nil, "", false
		}
	}
	e, d := w.voteEvent(voter, rd, p, s, v, w.r.Pick([]int{65, 27, 5, 3}))
	return e, d, true
}

// genBurst queues the votes of all voters for one (round, period, step): how thresholds are reached.
func (w *c07World) genBurst(pl player, rs *c07Restrict) {
	r := w.r
	rd, p := pl.Round, pl.Period
	if r.Chance(1, 8) {
		rd++
		p = 0
	} else if r.Chance(1, 6) {
		p++
	}
	var s step
	switch r.Pick([]int{20, 30, 30, 14, 2, 2, 2}) {
	case 0:
		s = propose
	case 1:
		s = soft
	case 2:
		s = cert
	case 3:
		s = next + step(r.Intn(2))
	case 4:
		s = late
	case 5:
		s = redo
	case 6:
		s = down
	}
	if s == propose {
		if rs.proposalVoteBarred(rd, p) {
			return
		}
		// the proposers' votes together with their payloads
		for _, c := range w.candidates(rd, p) {
			if c.OriginalPeriod != p && r.Bool() {
				continue
			}
			voter := w.voterIdx(c.OriginalProposer)
			vt := w.vote(voter, rd, p, propose, c.value())
			h := w.nextHandle()
			w.push(messageEvent{T: voteVerified, Proto: w.proto(), Input: message{messageHandle: h, Tag: protocol.AgreementVoteTag, Vote: vt, UnauthenticatedVote: vt.u()}},
				fmt.Sprintf("voteVerified v%d@(%d,%d,0)=%s", voter, rd, p, c07Short(c.value())))
			w.push(messageEvent{T: payloadPresent, Proto: w.proto(), Input: message{messageHandle: h, Tag: protocol.ProposalPayloadTag, UnauthenticatedProposal: c.u()}},
				fmt.Sprintf("payloadPresent %s r%d", c07Short(c.value()), rd))
			w.push(messageEvent{T: payloadVerified, Proto: w.proto(), Input: message{messageHandle: h, Tag: protocol.ProposalPayloadTag, UnauthenticatedProposal: c.u(), Proposal: c}},
				fmt.Sprintf("payloadVerified %s r%d", c07Short(c.value()), rd))
		}
		return
	}
	for _, voter := range r.Perm(c07Voters) {
		if r.Chance(1, 8) {
			continue
		}
		v := w.valueFor(voter, rd, p, s)
		if (s == soft || s == cert) && v == bottom {
			continue
		}
		e, d := w.voteEvent(voter, rd, p, s, v, r.Pick([]int{85, 15}))
		w.push(e, d)
	}
}

func (w *c07World) push(e event, d string) {
	if len(w.queue) > 60 {
		return
	}
	w.queue = append(w.queue, e)
	w.qdesc = append(w.qdesc, d)
}

func (w *c07World) genPayload(pl player) (event, string, bool) {
	r := w.r
	rd := pl.Round
	if r.Chance(1, 3) {
		rd++ // pipelined payload for the next round
	}
	cs := w.candidates(rd, pl.Period)
	c := cs[r.Intn(len(cs))]
	msg := message{Tag: protocol.ProposalPayloadTag, UnauthenticatedProposal: c.u()}
	if !r.Chance(1, 8) {
		msg.messageHandle = w.nextHandle()
	}
	d := fmt.Sprintf("%s r%d", c07Short(c.value()), rd)
	switch r.Pick([]int{40, 50, 5, 5}) {
	case 0:
		return messageEvent{T: payloadPresent, Input: msg, Proto: w.proto()}, "payloadPresent " + d, true
	case 1:
		msg.Proposal = c
		return messageEvent{T: payloadVerified, Input: msg, Proto: w.proto()}, "payloadVerified " + d, true
	case 2:
		msg.Proposal = c
		return messageEvent{T: payloadVerified, Input: msg, Err: makeSerErrStr("bad payload"), Proto: w.proto()}, "payloadVerified(err) " + d, true
	default:
		msg.Proposal = c
		return messageEvent{T: payloadVerified, Input: msg, Cancelled: true, Err: makeSerErrStr("cancelled"), Proto: w.proto()}, "payloadVerified(cancelled) " + d, true
	}
}

// makeBundle assembles a quorum of the world's votes for (rd,p,s,v): honest supporters plus voters 5/6 (as votes or pairs).
func (w *c07World) bundleFor(rd round, p period, s step, v proposalValue) (bundle, bool) {
	r := w.r
	b := bundle{U: unauthenticatedBundle{Round: rd, Period: p, Step: s, Proposal: v}}
	n := 0
	for _, voter := range r.Perm(c07Voters) {
		if voter >= 5 {
			if r.Bool() {
				cs := w.candidates(rd, p)
				o := cs[r.Intn(len(cs))].value()
				if o != v && !(o == bottom && (s == soft || s == cert)) {
					v0, v1 := w.vote(voter, rd, p, s, v), w.vote(voter, rd, p, s, o)
					ev := equivocationVote{Sender: w.voters[voter], Round: rd, Period: p, Step: s, Cred: v0.Cred,
						Proposals: [2]proposalValue{v, o}, Sigs: [2]crypto.OneTimeSignature{v0.Sig, v1.Sig}}
					b.EquivocationVotes = append(b.EquivocationVotes, ev)
					b.U.EquivocationVotes = append(b.U.EquivocationVotes, equivocationVoteAuthenticator{Sender: ev.Sender, Cred: v0.Cred.UnauthenticatedCredential, Sigs: ev.Sigs, Proposals: ev.Proposals})
					n++
					continue
				}
			}
		} else if w.valueFor(voter, rd, p, s) != v {
			continue
		}
		vt := w.vote(voter, rd, p, s, v)
		b.Votes = append(b.Votes, vt)
		b.U.Votes = append(b.U.Votes, voteAuthenticator{Sender: vt.R.Sender, Cred: vt.Cred.UnauthenticatedCredential, Sig: vt.Sig})
		n++
	}
	return b, n >= 5 && len(b.Votes) > 0
}

func (w *c07World) genBundle(pl player) (event, string, bool) {
	r := w.r
	rd := pl.Round
	p := pl.Period
	switch r.Pick([]int{55, 20, 15, 10}) {
	case 1:
		p++
	case 2:
		if p > 0 {
			p--
		}
	case 3:
		p += period(r.Range(2, 4))
	}
	s := []step{soft, cert, next, next + 1, late, redo, down}[r.Pick([]int{25, 25, 25, 10, 5, 5, 5})]
	v := w.stepLeading(rd, p, s)
	if (s == soft || s == cert) && v == bottom {
		return nil, "", false
	}
	b, ok := w.bundleFor(rd, p, s, v)
	if !ok {
		return nil, "", false
	}
	d := fmt.Sprintf("(%d,%d,%d)=%s votes=%d pairs=%d", rd, p, s, c07Short(v), len(b.Votes), len(b.EquivocationVotes))
	msg := message{Tag: protocol.VoteBundleTag, UnauthenticatedBundle: b.U, messageHandle: w.nextHandle()}
	switch r.Pick([]int{30, 62, 8}) {
	case 0:
		return messageEvent{T: bundlePresent, Input: msg, Proto: w.proto()}, "bundlePresent " + d, true
	case 1:
		msg.Bundle = b
		return messageEvent{T: bundleVerified, Input: msg, Proto: w.proto()}, "bundleVerified " + d, true
	default:
		msg.Bundle = b
		return messageEvent{T: bundleVerified, Input: msg, Err: makeSerErrStr("bad bundle"), Proto: w.proto()}, "bundleVerified(err) " + d, true
	}
}

// genReply answers one of the player's own verification requests (closed loop).
func (w *c07World) genReply(rs *c07Restrict) (event, string, bool) {
	var idx []int
	for i, q := range w.reqs {
		if rs.active && q.issuedAt <= rs.snapAt {
			continue // the request died with the crashed process
		}
		idx = append(idx, i)
	}
	if len(idx) == 0 {
		return nil, "", false
	}
	k := idx[w.r.Intn(len(idx))]
	q := w.reqs[k]
	w.reqs = append(w.reqs[:k], w.reqs[k+1:]...)
	m := q.a.M
	switch q.a.T {
	case verifyVote:
		rv := m.UnauthenticatedVote.R
		if rv.Step == propose && rs.proposalVoteBarred(rv.Round, rv.Period) {
			return nil, "", false
		}
		m.Vote = c07VoteFromRaw(w.ver, rv)
		e := messageEvent{T: voteVerified, Input: m, TaskIndex: q.a.TaskIndex, Proto: w.proto()}
		if w.r.Chance(1, 12) {
			e.Err = makeSerErrStr("bad signature")
		}
		return e, fmt.Sprintf("reply voteVerified task=%d (%d,%d,%d)", q.a.TaskIndex, rv.Round, rv.Period, rv.Step), true
	case verifyPayload:
		m.Proposal = proposal{unauthenticatedProposal: m.UnauthenticatedProposal}
		return messageEvent{T: payloadVerified, Input: m, Proto: w.proto()}, fmt.Sprintf("reply payloadVerified r%d", m.UnauthenticatedProposal.Round()), true
	case verifyBundle:
		ub := m.UnauthenticatedBundle
		b := bundle{U: ub}
		for _, va := range ub.Votes {
			b.Votes = append(b.Votes, c07VoteFromRaw(w.ver, rawVote{Sender: va.Sender, Round: ub.Round, Period: ub.Period, Step: ub.Step, Proposal: ub.Proposal}))
		}
		for _, ea := range ub.EquivocationVotes {
			v0 := c07VoteFromRaw(w.ver, rawVote{Sender: ea.Sender, Round: ub.Round, Period: ub.Period, Step: ub.Step, Proposal: ea.Proposals[0]})
			b.EquivocationVotes = append(b.EquivocationVotes, equivocationVote{Sender: ea.Sender, Round: ub.Round, Period: ub.Period, Step: ub.Step, Cred: v0.Cred, Proposals: ea.Proposals, Sigs: ea.Sigs})
		}
		m.Bundle = b
		return messageEvent{T: bundleVerified, Input: m, Proto: w.proto()}, fmt.Sprintf("reply bundleVerified (%d,%d,%d)", ub.Round, ub.Period, ub.Step), true
	}
	return nil, "", false
}

// observe looks at the actions of the uncrashed machine: verification requests are remembered, the node's own
// votes and proposals (voter 0 holds the node's keys) are looped back as the pseudonode does.
func (w *c07World) observe(acts []action, at int) {
	for _, a := range acts {
		switch a := a.(type) {
		case cryptoAction:
			if len(w.reqs) < 40 {
				w.reqs = append(w.reqs, c07Req{a: a, issuedAt: at})
			}
		case pseudonodeAction:
			switch a.T {
			case attest:
				k := fmt.Sprintf("%d/%d/%d/%d", 0, a.Round, a.Period, a.Step)
				if prev, ok := w.choice[k]; ok && prev != a.Proposal {
					continue // voter 0 already voted something else there (as a network voter); stay honest
				}
				w.choice[k] = a.Proposal
				if w.r.Chance(4, 5) {
					vt := w.vote(0, a.Round, a.Period, a.Step, a.Proposal)
					w.push(messageEvent{T: voteVerified, Proto: w.proto(), Input: message{Tag: protocol.AgreementVoteTag, Vote: vt, UnauthenticatedVote: vt.u()}},
						fmt.Sprintf("own voteVerified v0@(%d,%d,%d)=%s", a.Round, a.Period, a.Step, c07Short(a.Proposal)))
				}
			case assemble:
				if w.r.Chance(1, 2) && len(w.cands[a.Round]) < 4 {
					c := w.newProposal(a.Round, a.Period, 0)
					vt := w.vote(0, a.Round, a.Period, propose, c.value())
					w.push(messageEvent{T: payloadVerified, Proto: w.proto(), Input: message{Tag: protocol.ProposalPayloadTag, UnauthenticatedProposal: c.u(), Proposal: c}},
						fmt.Sprintf("own payloadVerified %s r%d", c07Short(c.value()), a.Round))
					w.push(messageEvent{T: voteVerified, Proto: w.proto(), Input: message{Tag: protocol.AgreementVoteTag, Vote: vt, UnauthenticatedVote: vt.u()}},
						fmt.Sprintf("own voteVerified v0@(%d,%d,0)=%s", a.Round, a.Period, c07Short(c.value())))
				}
			case repropose:
				vt := w.vote(0, a.Round, a.Period, propose, a.Proposal)
				w.push(messageEvent{T: voteVerified, Proto: w.proto(), Input: message{Tag: protocol.AgreementVoteTag, Vote: vt, UnauthenticatedVote: vt.u()}},
					fmt.Sprintf("own voteVerified(repropose) v0@(%d,%d,0)=%s", a.Round, a.Period, c07Short(a.Proposal)))
			}
		}
	}
}

// ---------------------------------------------------------------------------------------
// machines

type c07Machine struct {
	rr rootRouter
	p  player
	tr *tracer
}

func c07NewMachine(start round) *c07Machine {
	p := player{Round: start, Step: soft, Deadline: Deadline{Duration: FilterTimeout(0, protocol.ConsensusCurrentVersion), Type: TimeoutFilter},
		lowestCredentialArrivals: makeCredentialArrivalHistory(dynamicFilterCredentialArrivalHistory)}
	return &c07Machine{rr: makeRootRouter(p), p: p, tr: &tracer{log: serviceLogger{c07Log}}}
}

func (m *c07Machine) step(e event) (acts []action, pan string) {
	defer func() {
		if os.Getenv("VERIF_C07_NORECOVER") != "" {
			return // debugging aid: let the process die so that the runtime prints the whole panic chain
		}
		if r := recover(); r != nil {
			pan = fmt.Sprint(r)
			if strings.Contains(pan, "runtime error") {
				pan += " @ " + c07Frames(string(debug.Stack())) + " | last error log: " + c07LogSink.get()
			}
		}
	}()
	m.p, acts = m.rr.submitTop(m.tr, m.p, e)
	return acts, ""
}

// c07Frames keeps the agreement frames of a stack trace (for the witness of a runtime error).
func c07Frames(st string) string {
	var out []string
	for _, ln := range strings.Split(st, "\n") {
		if strings.Contains(ln, "/agreement/") && !strings.Contains(ln, "verif_") {
			out = append(out, strings.TrimSpace(ln))
		}
		if len(out) >= 6 {
			break
		}
	}
	return strings.Join(out, " <- ")
}

func (m *c07Machine) encode(acts []action, reflect bool) []byte {
	return encode(c07Clock, m.rr, m.p, acts, reflect)
}

func c07Restore(raw []byte, reflect bool) (*c07Machine, []action, error) {
	_, rr, p, a, err := decode(raw, c07Clock, serviceLogger{c07Log}, reflect)
	if err != nil {
		return nil, nil, err
	}
	return &c07Machine{rr: rr, p: p, tr: &tracer{log: serviceLogger{c07Log}}}, a, nil
}

// stateOnDisk is what encode() keeps of the router: children of rounds before the player's round are dropped.
func (m *c07Machine) routerAsPersisted() rootRouter {
	rr := m.rr
	ch := map[round]*roundRouter{}
	for r, c := range m.rr.Children {
		if r >= m.p.Round {
			ch[r] = c
		}
	}
	rr.Children = ch
	return rr
}

type c07Shape struct {
	rounds, periods, steps, votes, equivocators, assemblers, pipelined, pending int
	certFresh                                                                  bool
}

func (m *c07Machine) shape() c07Shape {
	var s c07Shape
	for r, rr := range m.rr.Children {
		if r < m.p.Round {
			continue
		}
		s.rounds++
		s.assemblers += len(rr.ProposalStore.Assemblers)
		for _, a := range rr.ProposalStore.Assemblers {
			if r > m.p.Round && (a.Filled || len(a.Authenticators) > 0) {
				s.pipelined++
			}
		}
		if r == m.p.Round && rr.VoteTrackerRound.Ok && rr.VoteTrackerRound.Freshest.T == certThreshold {
			s.certFresh = true
		}
		for _, pr := range rr.Children {
			s.periods++
			for _, sr := range pr.Children {
				s.steps++
				s.votes += len(sr.VoteTracker.Voters)
				s.equivocators += len(sr.VoteTracker.Equivocators)
			}
		}
	}
	s.pending = len(m.p.Pending.Pending)
	return s
}

func c07Bucket(n int) int {
	switch {
	case n <= 2:
		return n
	case n <= 5:
		return 3
	case n <= 12:
		return 4
	default:
		return 5
	}
}

func (m *c07Machine) shapeKey(acts []action) string {
	s := m.shape()
	stepClass := int(m.p.Step)
	if m.p.Step > next {
		stepClass = 4
	}
	return fmt.Sprintf("per%d|st%d|nap%v|fr%v|r%d|p%d|s%d|v%d|eq%d|as%d|pipe%d|pend%d|cert%v|acts%d", c07Bucket(int(m.p.Period)), stepClass, m.p.Napping, m.p.FastRecoveryDeadline != 0,
		s.rounds, c07Bucket(s.periods), c07Bucket(s.steps), c07Bucket(s.votes), c07Bucket(s.equivocators), c07Bucket(s.assemblers), c07Bucket(s.pipelined), c07Bucket(s.pending), s.certFresh, c07Bucket(len(acts)))
}

func c07CountShape(c *kit.Ctx, m *c07Machine, acts []action) {
	s := m.shape()
	c.Count("states", 1)
	if m.p.Period > 0 {
		c.Count("states_period_gt0", 1)
	}
	if s.equivocators > 0 {
		c.Count("states_with_equivocation_records", 1)
	}
	if s.pipelined > 0 {
		c.Count("states_with_pipelined_next_round", 1)
	}
	if s.pending > 0 {
		c.Count("states_with_pending_proposal_tails", 1)
	}
	if m.p.Napping {
		c.Count("states_napping", 1)
	}
	if m.p.Step >= next {
		c.Count("states_in_next_steps", 1)
	}
	if s.certFresh {
		c.Count("states_cert_threshold_without_block", 1)
	}
	if len(acts) > 0 {
		c.Count("states_with_pending_actions", 1)
	}
	if persistent(acts) {
		c.Count("states_at_persist_points", 1)
	}
	c.Max("max_step_trackers", int64(s.steps))
	c.Max("max_period_routers", int64(s.periods))
	c.Max("max_votes_tracked", int64(s.votes))
	c.Max("max_period", int64(m.p.Period))
}

// c07Canon removes schedule-dependent order from an action: broadcastVotes lists the votes of a tracker in map
// iteration order, which differs between two machines in the same state.
func c07Canon(a action) action {
	na, ok := a.(networkAction)
	if !ok || na.T != broadcastVotes {
		return a
	}
	vs := append([]unauthenticatedVote(nil), na.UnauthenticatedVotes...)
	sort.Slice(vs, func(i, j int) bool {
		return bytes.Compare(protocol.Encode(&vs[i]), protocol.Encode(&vs[j])) < 0
	})
	na.UnauthenticatedVotes = vs
	return na
}

func c07ActionsDiffer(a, b []action) string {
	if len(a) != len(b) {
		return fmt.Sprintf("number of actions %d vs %d (%v vs %v)", len(a), len(b), c07ActStr(a), c07ActStr(b))
	}
	for i := range a {
		if a[i].t() != b[i].t() {
			return fmt.Sprintf("action %d type %v vs %v", i, a[i].t(), b[i].t())
		}
		if a[i].ComparableStr() != b[i].ComparableStr() {
			return fmt.Sprintf("action %d %q vs %q", i, a[i].ComparableStr(), b[i].ComparableStr())
		}
		if !bytes.Equal(protocol.EncodeReflect(c07Canon(a[i])), protocol.EncodeReflect(c07Canon(b[i]))) {
			return fmt.Sprintf("action %d (%s): encodings differ", i, a[i].ComparableStr())
		}
	}
	return ""
}

func c07ActStr(a []action) []string {
	var out []string
	for _, x := range a {
		out = append(out, x.ComparableStr())
	}
	return out
}

// c07WhereEncodingsDiffer names the component of the disk state whose two encodings differ and shows the bytes.
func c07WhereEncodingsDiffer(a, b []byte) string {
	var da, db diskState
	if protocol.DecodeReflect(a, &da) != nil || protocol.DecodeReflect(b, &db) != nil {
		return "outer diskState not decodable"
	}
	show := func(name string, x, y []byte) string {
		n := len(x)
		if len(y) < n {
			n = len(y)
		}
		i := 0
		for i < n && x[i] == y[i] {
			i++
		}
		lo, hx, hy := i-48, i+48, i+48
		if lo < 0 {
			lo = 0
		}
		if hx > len(x) {
			hx = len(x)
		}
		if hy > len(y) {
			hy = len(y)
		}
		return fmt.Sprintf("%s differs at byte %d of %d/%d: %q vs %q", name, i, len(x), len(y), x[lo:hx], y[lo:hy])
	}
	switch {
	case !bytes.Equal(da.Router, db.Router):
		return show("Router", da.Router, db.Router)
	case !bytes.Equal(da.Player, db.Player):
		return show("Player", da.Player, db.Player)
	case !bytes.Equal(da.Clock, db.Clock):
		return show("Clock", da.Clock, db.Clock)
	}
	return "ActionTypes/Actions differ"
}

// c07FirstDiff shows where two canonical descriptions diverge.
func c07FirstDiff(a, b string) string {
	n := len(a)
	if len(b) < n {
		n = len(b)
	}
	i := 0
	for i < n && a[i] == b[i] {
		i++
	}
	lo := i - 260
	if lo < 0 {
		lo = 0
	}
	cut := func(s string) string {
		hi := i + 160
		if hi > len(s) {
			hi = len(s)
		}
		if lo > len(s) {
			return ""
		}
		return s[lo:hi]
	}
	return fmt.Sprintf("at offset %d: original …%s… restored …%s…", i, cut(a), cut(b))
}

// ---------------------------------------------------------------------------------------
// part codec

// c07Parallel runs independent streams on a few workers (stream s always uses its own PRNG streams, so the cases do
// not depend on the schedule).
func c07Parallel(n int, f func(s int)) {
	var wg sync.WaitGroup
	ch := make(chan int)
	for w := 0; w < 8; w++ {
		wg.Add(1)
		go func() {
			defer wg.Done()
			for s := range ch {
				f(s)
			}
		}()
	}
	for s := 0; s < n; s++ {
		ch <- s
	}
	close(ch)
	wg.Wait()
}

func c07CheckCodec(c *kit.Ctx, m *c07Machine, acts []action, where map[string]any) {
	wit := func(msg string) map[string]any {
		w := map[string]any{"message": msg, "player": fmt.Sprintf("%+v", struct {
			Round    round
			Period   period
			Step     step
			Napping  bool
			Deadline Deadline
		}{m.p.Round, m.p.Period, m.p.Step, m.p.Napping, m.p.Deadline}), "pending_actions": c07ActStr(acts)}
		for k, v := range where {
			w[k] = v
		}
		return w
	}
	c.Eval(1)
	encs := map[bool][]byte{false: m.encode(acts, false), true: m.encode(acts, true)}
	c.Count("bytes_encoded", len(encs[false]))
	c.Max("max_state_bytes", int64(len(encs[false])))
	if !bytes.Equal(encs[false], encs[true]) {
		// Not demanded by the property (both decode to the same state, checked below): the msgp encoder orders
		// map[proposalValue] entries by (period, proposer, digest, encoding digest), the reflection encoder by encoded key bytes.
		c07ObserveOnce.Do(func() {
			c.Observation("encode(msgp) and encode(reflect) of the same state differ bytewise (not a restore defect; both are decoded and compared): %s", c07WhereEncodingsDiffer(encs[false], encs[true]))
		})
		c.Count("msgp_and_reflect_encodings_differ_bytewise", 1)
	}
	origDesc := kit.Describe(struct {
		Router  rootRouter
		Player  player
		Actions []action
	}{m.routerAsPersisted(), m.p, acts}, c07FP)
	for _, enc := range []bool{false, true} {
		e0 := encs[enc]
		for _, dec := range []bool{false, true} {
			pair := fmt.Sprintf("encode(reflect=%v) -> decode(reflect=%v)", enc, dec)
			var rm *c07Machine
			var ra []action
			var err error
			if c.Guard("decode", wit(pair+": decode panicked"), func() { rm, ra, err = c07Restore(e0, dec) }) {
				return
			}
			if err != nil {
				c.Violation("decode-error", wit(fmt.Sprintf("%s of a reachable state failed: %v", pair, err)))
				return
			}
			// (a) bytewise idempotence for every codec pair
			e1 := rm.encode(ra, enc)
			c.Eval(1)
			if !bytes.Equal(e0, e1) {
				c.Violation("reencode-differs", wit(fmt.Sprintf("%s -> encode(reflect=%v) differs from the first encoding (%d vs %d bytes): %s", pair, enc, len(e1), len(e0), c07WhereEncodingsDiffer(e0, e1))))
				return
			}
			// (b) every field outside the not-persisted list survives
			resDesc := kit.Describe(struct {
				Router  rootRouter
				Player  player
				Actions []action
			}{rm.rr, rm.p, ra}, c07FP)
			c.Eval(1)
			if origDesc != resDesc {
				c.Violation("field-does-not-survive", wit(fmt.Sprintf("%s: structural description differs %s", pair, c07FirstDiff(origDesc, resDesc))))
				return
			}
			if d := c07ActionsDiffer(acts, ra); d != "" {
				c.Violation("pending-actions-differ", wit(pair+": restored pending actions: "+d))
				return
			}
		}
	}
}

// c07Persisted: the action list that accompanies a state in the crash database. The Service encodes its state only
// when the batch contains a persistent (attest) action, and then with that batch; between persist points the
// router/player state is checked with an empty list (other batches are never written).
func c07Persisted(c *kit.Ctx, acts []action) []action {
	if persistent(acts) {
		for _, a := range acts {
			if a.t() == stageDigest {
				c.Count("persist_points_with_stageDigest_action", 1)
			}
		}
		return acts
	}
	for _, a := range acts {
		if a.t() == stageDigest {
			c.Count("non_persisted_batches_with_stageDigest_action", 1)
		}
	}
	return nil
}

func c07Stream(c *kit.Ctx, stream uint64, idx int, nEvents int, visit func(m *c07Machine, acts []action, w *c07World, i int, trace []string) bool,
	restrict func() *c07Restrict, after func(e event, desc string, acts []action, i int)) {
	r := c.Rand(stream, uint64(idx))
	w := c07NewWorld(r)
	m := c07NewMachine(round(r.Range(2, 400)))
	start := m.p.Round
	var trace []string
	for i := 0; i < nEvents && c.Violations() <= 20; i++ {
		e, desc := w.next(m.p, restrict())
		trace = append(trace, fmt.Sprintf("%d:%s", i, desc))
		if len(trace) > 40 {
			trace = trace[1:]
		}
		acts, pan := m.step(e)
		if pan != "" {
			// the uncrashed machine itself refuses the stream (contract checker / assumption): not this property
			c.Count("streams_ended_by_primary_panic", 1)
			c.Count("primary_panic: "+strings.SplitN(pan, ":", 2)[0], 1)
			if atomic.AddInt32(&c07PanicsObserved, 1) <= 3 {
				c.Observation("uncrashed machine panicked (stream c.Rand(%d,%d), event %d %s): %s", stream, idx, i, desc, pan)
			}
			return
		}
		c.Count("events", 1)
		c.Count("ev."+strings.SplitN(strings.TrimPrefix(strings.TrimPrefix(desc, "queued:"), "own "), " ", 2)[0], 1)
		for _, a := range acts {
			c.Count("act."+a.t().String(), 1)
		}
		w.observe(acts, i)
		if after != nil {
			after(e, desc, acts, i)
		}
		if !visit(m, acts, w, i, trace) {
			return
		}
		if m.p.Round > start+32 {
			c.Count("streams_ended_by_round_cap", 1)
			return
		}
	}
}

func TestVerifC07Codec(t *testing.T) {
	c := kit.Start(t, "C07", "codec")
	defer c.Finish()
	c.Rule("states = (router, player, pending actions) reached along PRNG-driven protocol-valid event streams (7 voters, 2 of them possibly equivocating, proposal-votes with payloads, pipelined payloads, bundles, timeouts, fast timeouts, round interruptions, checkpoints, verification replies, own votes looped back) into a real rootRouter+player; checked at every persist point (an attest action pending) and at PRNG-chosen other points: bytewise idempotence over msgp/reflection codec pairs and survival of every field outside the not-persisted list; distinct = distinct state-shape classes (period, step, napping, numbers of round/period/step routers, votes, equivocators, assemblers, pipelined payloads, pending tails, pending actions)")
	c.Assume("votes are struct-level (chosen weights, filler signatures): player and router do not verify cryptography; the not-persisted list c07NotPersisted was established on the unchanged tree")
	nstreams := c.N(24, 1000)
	var sampled, sampledLate int32
	c07Parallel(nstreams, func(s int) {
		if c.Violations() > 20 {
			return
		}
		none := &c07Restrict{}
		c07Stream(c, 70, s, c.N(400, 600), func(m *c07Machine, acts []action, w *c07World, i int, trace []string) bool {
			if !(persistent(acts) || w.r.Chance(1, 8)) {
				return true
			}
			acts = c07Persisted(c, acts)
			c07CountShape(c, m, acts)
			c.Distinct(m.shapeKey(acts))
			c07CheckCodec(c, m, acts, map[string]any{"stream": s, "event_index": i, "replay": fmt.Sprintf("VERIF_SEED=%d: stream %d is generated from c.Rand(70,%d)", c.Seed, s, s), "last_events": append([]string(nil), trace...)})
			if atomic.AddInt32(&sampled, 1) <= 4 || (i > 300 && atomic.AddInt32(&sampledLate, 1) <= 2) {
				sh := m.shape()
				c.Sample(map[string]any{"stream": s, "event": i, "round": uint64(m.p.Round), "period": uint64(m.p.Period), "step": uint64(m.p.Step),
					"round_routers": sh.rounds, "period_routers": sh.periods, "step_trackers": sh.steps, "votes": sh.votes, "equivocators": sh.equivocators, "bytes": len(m.encode(acts, false))})
			}
			return true
		}, func() *c07Restrict { return none }, nil)
		c.Count("streams", 1)
	})
	c.Require("states", int64(c.N(1200, 60000)))
	c.Require("states_period_gt0", 100)
	c.Require("states_with_equivocation_records", 100)
	c.Require("states_with_pipelined_next_round", 100)
	c.Require("states_with_pending_proposal_tails", 50)
	c.Require("states_at_persist_points", 100)
	c.Require("states_in_next_steps", 50)
	c.Require("max_step_trackers", 6)
}

// ---------------------------------------------------------------------------------------
// the crash database, written the way the Service writes it

// c07Ledger: the persistence loop only waits for the previous round to be on disk.
type c07Ledger struct{ LedgerReader }

func (c07Ledger) Wait(basics.Round) chan struct{} {
	ch := make(chan struct{})
	close(ch)
	return ch
}

// c07Crash is an in-memory crash database behind the real asyncPersistenceLoop. Every batch with a persistent
// (attest) action goes through Enqueue exactly as Service.persistState does; the harness waits for the loop's
// checkpointEvent (the acknowledgement that releases the vote) and then reads the database back with restore().
type c07Crash struct {
	acc     db.Accessor
	loop    *asyncPersistenceLoop
	lastKey [3]uint64
	have    bool
	lastRaw []byte
}

func c07NewCrash(c *kit.Ctx, name string) *c07Crash {
	acc, err := db.MakeAccessor(name, false, true)
	if err != nil {
		c.Harness("crash db: %v", err)
	}
	restore(c07Log, acc) // creates the Service table, as the first start of a node does
	cr := &c07Crash{acc: acc, loop: makeAsyncPersistenceLoop(serviceLogger{c07Log}, acc, c07Ledger{})}
	cr.loop.Start()
	return cr
}

func (cr *c07Crash) close() {
	cr.loop.Quit()
	cr.acc.Close()
}

// persist hands the state to the persistence loop and waits for its acknowledgement.
func (cr *c07Crash) persist(c *kit.Ctx, m *c07Machine, acts []action) (raw []byte, sameKey bool, ackErr *serializableError) {
	raw = m.encode(acts, false)
	key := [3]uint64{uint64(m.p.Round), uint64(m.p.Period), uint64(m.p.Step)}
	sameKey = cr.have && key == cr.lastKey
	cr.have, cr.lastKey, cr.lastRaw = true, key, raw
	evs := cr.loop.Enqueue(c07Clock, m.p.Round, m.p.Period, m.p.Step, raw, make(chan error, 1))
	select {
	case e := <-evs:
		if ce, ok := e.(checkpointEvent); ok {
			ackErr = ce.Err
		}
	case <-time.After(2 * time.Minute): // watchdog only
		c.Harness("persistence loop did not acknowledge a request")
	}
	return
}

func c07DescribeRaw(raw []byte) string {
	if raw == nil {
		return "nothing"
	}
	rm, ra, err := c07Restore(raw, false)
	if err != nil {
		return "undecodable: " + err.Error()
	}
	sh := rm.shape()
	return fmt.Sprintf("%d bytes: player (%d,%d,%d) deadline %v, %d step trackers, %d votes, pending actions %v", len(raw), rm.p.Round, rm.p.Period, rm.p.Step, rm.p.Deadline.Duration, sh.steps, sh.votes, c07ActStr(ra))
}

// ---------------------------------------------------------------------------------------
// part behaviour

type c07Replica struct {
	name string
	m    *c07Machine
}

type c07Compare struct {
	rs        c07Restrict
	replicas  []c07Replica
	remaining int
	snapTrace []string
}

func TestVerifC07Behaviour(t *testing.T) {
	c := kit.Start(t, "C07", "behaviour")
	defer c.Finish()
	c.Rule("same streams as part codec (other PRNG stream); every batch with a persistent (attest) action is written through the real asyncPersistenceLoop into an in-memory crash database and read back with restore() once acknowledged (including consecutive votes at an unchanged round/period/step: soft then cert vote, fast-recovery votes); at persist points (state taken from that database) and PRNG-chosen points the state is encoded and restored twice (msgp decode, reflection decode); the restored machines then receive the next 5-80 events of the uncrashed machine's stream; after every event actions (type, ComparableStr, encoding) and the encoded state must equal the uncrashed machine's; distinct = distinct state-shape classes at the snapshot")
	c.Assume("while a comparison runs the stream has no proposal-vote whose handling depends on the deliberately unpersisted late-credential state, and no verification reply to a request older than the snapshot; streams stay below 40 rounds (credential history never full)")
	nstreams := c.N(50, 2000)
	var sampled, sampledRich int32
	c07Parallel(nstreams, func(s int) {
		if c.Violations() > 20 {
			return
		}
		var cur *c07Compare
		restrictNone := &c07Restrict{}
		var lastEvent event
		crash := c07NewCrash(c, fmt.Sprintf("verif-c07-crash-%d-%d-%d", os.Getpid(), c.Seed, s))
		defer crash.close()
		c07Stream(c, 71, s, c.N(500, 600), func(m *c07Machine, acts []action, w *c07World, i int, trace []string) bool {
			where := func(extra string) map[string]any {
				wt := map[string]any{"stream": s, "event_index": i, "message": extra, "replay": fmt.Sprintf("VERIF_SEED=%d: stream %d is generated from c.Rand(71,%d)", c.Seed, s, s),
					"last_events": append([]string(nil), trace...)}
				if cur != nil {
					wt["snapshot_at_event"] = cur.rs.snapAt
					wt["events_around_snapshot"] = cur.snapTrace
				}
				return wt
			}
			// every batch with a persistent action is written through the real persistence loop, as Service.persistState does;
			// once the loop has acknowledged it (that is what releases the vote), a crash must find exactly that state
			var fromDB []byte
			if persistent(acts) {
				raw, sameKey, ackErr := crash.persist(c, m, acts)
				c.Count("persist_requests", 1)
				if sameKey {
					c.Count("persist_requests_with_unchanged_round_period_step", 1)
				}
				if ackErr != nil {
					c.Harness("in-memory crash database refused a write: %v", ackErr)
				}
				got, rerr := restore(c07Log, crash.acc)
				c.Eval(1)
				if rerr != nil || !bytes.Equal(got, raw) {
					c.Violation("crash-db-does-not-hold-acknowledged-state", where(fmt.Sprintf("after the persistence loop acknowledged the checkpoint (unchanged round/period/step since the previous one: %v), restore() returns %s (error %v); the state handed to the loop was %s",
						sameKey, c07DescribeRaw(got), rerr, c07DescribeRaw(raw))))
					return false
				}
				fromDB = got
			} else if crash.have && w.r.Chance(1, 10) {
				// a crash between persist points finds the last acknowledged state
				got, rerr := restore(c07Log, crash.acc)
				c.Eval(1)
				c.Count("crash_db_reads_between_persist_points", 1)
				if rerr != nil || !bytes.Equal(got, crash.lastRaw) {
					c.Violation("crash-db-does-not-hold-acknowledged-state", where(fmt.Sprintf("between persist points restore() returns %s (error %v); the last acknowledged state was %s", c07DescribeRaw(got), rerr, c07DescribeRaw(crash.lastRaw))))
					return false
				}
			}
			if cur != nil {
				// feed the same event to the restored machines and compare
				var want []byte
				for _, rp := range cur.replicas {
					racts, pan := rp.m.step(lastEvent)
					c.Eval(1)
					if pan != "" {
						c.Violation("restored-machine-panics", where(fmt.Sprintf("%s panicked on an event the uncrashed machine handled: %s", rp.name, pan)))
						return false
					}
					if d := c07ActionsDiffer(acts, racts); d != "" {
						c.Violation("actions-differ-after-restore", where(fmt.Sprintf("%s, %d events after the snapshot: %s", rp.name, i-cur.rs.snapAt, d)))
						return false
					}
					// the state proper (actions were compared above: a broadcastVotes action lists votes in map order)
					if want == nil {
						want = m.encode(nil, false)
					}
					if got := rp.m.encode(nil, false); !bytes.Equal(want, got) {
						od := kit.Describe(struct {
							R rootRouter
							P player
						}{m.routerAsPersisted(), m.p}, c07FP)
						rd := kit.Describe(struct {
							R rootRouter
							P player
						}{rp.m.routerAsPersisted(), rp.m.p}, c07FP)
						c.Violation("state-differs-after-restore", where(fmt.Sprintf("%s, %d events after the snapshot: encoded states differ (%d vs %d bytes) %s", rp.name, i-cur.rs.snapAt, len(want), len(got), c07FirstDiff(od, rd))))
						return false
					}
					c.Count("events_compared", 1)
				}
				cur.remaining--
				if cur.remaining == 0 {
					c.Count("continuations_completed", 1)
					cur = nil
				}
			}
			if cur == nil && (persistent(acts) || w.r.Chance(1, 10)) {
				acts := c07Persisted(c, acts)
				raw := fromDB // at a persist point the machines are restored from what the crash database holds
				if raw == nil {
					raw = m.encode(acts, false)
				} else {
					c.Count("snapshots_restored_from_crash_db", 1)
				}
				cmp := &c07Compare{remaining: w.r.Range(5, 80), snapTrace: append([]string(nil), trace...)}
				cmp.rs = c07Restrict{active: true, snapRound: m.p.Round, snapAt: i, taint: map[c07Key]bool{}}
				for rd, rr := range m.rr.Children {
					for p, pr := range rr.Children {
						if pr.ProposalTracker.Freezer.hasLowestIncludingLate {
							cmp.rs.taint[c07Key{rd, p}] = true
						}
					}
				}
				for _, dec := range []bool{false, true} {
					rm, ra, err := c07Restore(raw, dec)
					if err != nil {
						c.Violation("decode-error", where(fmt.Sprintf("decode(reflect=%v) failed: %v", dec, err)))
						return false
					}
					if d := c07ActionsDiffer(acts, ra); d != "" {
						c.Violation("pending-actions-differ", where("restored pending actions: "+d))
						return false
					}
					cmp.replicas = append(cmp.replicas, c07Replica{name: fmt.Sprintf("machine restored with decode(reflect=%v)", dec), m: rm})
				}
				cur = cmp
				sh0 := m.shape()
				c.Count("snapshots", 1)
				if persistent(acts) {
					c.Count("snapshots_at_persist_points", 1)
				}
				c07CountShape(c, m, acts)
				c.Distinct(m.shapeKey(acts))
				if atomic.AddInt32(&sampled, 1) <= 3 || (m.p.Period > 0 && sh0.equivocators > 0 && atomic.AddInt32(&sampledRich, 1) <= 2) {
					sh := sh0
					c.Sample(map[string]any{"stream": s, "snapshot_at_event": i, "round": uint64(m.p.Round), "period": uint64(m.p.Period), "step": uint64(m.p.Step),
						"step_trackers": sh.steps, "votes": sh.votes, "equivocators": sh.equivocators, "continuation_events": cmp.remaining})
				}
			}
			return true
		}, func() *c07Restrict {
			if cur != nil {
				return &cur.rs
			}
			return restrictNone
		}, func(e event, desc string, acts []action, i int) { lastEvent = e })
		c.Count("streams", 1)
	})
	c.Require("snapshots", int64(c.N(400, 16000)))
	c.Require("events_compared", int64(c.N(10000, 1000000)))
	c.Require("continuations_completed", int64(c.N(300, 15000)))
	c.Require("states_period_gt0", 30)
	c.Require("states_with_equivocation_records", 30)
	c.Require("states_with_pipelined_next_round", 30)
	c.Require("snapshots_at_persist_points", 30)
	c.Require("snapshots_restored_from_crash_db", 30)
	c.Require("persist_requests", int64(c.N(500, 20000)))
	c.Require("persist_requests_with_unchanged_round_period_step", int64(c.N(50, 2000)))
}
