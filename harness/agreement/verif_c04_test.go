package agreement

// C04: a bundle / certificate is accepted only if it proves a quorum.
//
// Oracle: a reference quorum checker (c04RefBundle / c04RefCert) written from the protocol
// rules, using the crypto primitives (one-time-signature verification, VRF credential
// verification + sortition) and the ledger lookups directly, but none of bundle.go,
// certificate.go or vote.go:
//   - the step is not propose; round, period, step and value of every vote are the bundle's;
//   - senders are pairwise distinct across votes and equivocation pairs;
//   - every vote is signed with the sender's registered vote key for that round's ephemeral
//     identifier, the round lies in the key's validity window, the credential is a valid VRF
//     proof under the sender's selection key for (seed, round, period, step) and sortition
//     gives it weight > 0; soft/cert votes are not for bottom;
//   - an equivocation pair is two valid votes by one sender for two different values (it
//     counts for any value, once);
//   - the weights sum to at least the step's threshold;
//   - a certificate additionally has step cert, the block's round and the block's digest.
// A VIOLATION is: the real unauthenticatedBundle.verify / Certificate.Authenticate /
// unauthenticatedVote.verify ACCEPTS what the reference REJECTS (soundness, which is what the
// property states). The converse (real rejects, reference accepts) is only printed as a
// completeness discrepancy: the property does not promise it. One class of it is expected and
// counted separately: bundles with more entries than the step threshold are refused by the
// real code as a size bound although their distinct valid votes do prove a quorum.
//
// The reference is deliberately not stricter than the statement: it does not demand that
// late/redo votes carry a value or that down votes carry bottom (only the vote *maker*
// enforces that), and it treats the legacy, unverified PKSigOld field of a one-time signature
// as irrelevant (it calls the same signature primitive as the code).

import (
	"context"
	"fmt"
	"os"
	"path/filepath"
	"sort"
	"strings"
	"sync"
	"testing"

	"github.com/algorand/go-algorand/config"
	"github.com/algorand/go-algorand/crypto"
	"github.com/algorand/go-algorand/data/basics"
	"github.com/algorand/go-algorand/data/bookkeeping"
	"github.com/algorand/go-algorand/data/committee"
	"github.com/algorand/go-algorand/protocol"
	"verif.local/kit"
)

// ---------------------------------------------------------------------------------------
// environment: small committees, deterministic keys, an immutable ledger

const c04Version = protocol.ConsensusVersion("verif-c04-small-committees")

var c04SetupOnce sync.Once

// c04Setup registers a consensus version equal to the current one except for small committees,
// so that thresholds are reached by 3-9 voters of a 12-account stake table.
func c04Setup() {
	c04SetupOnce.Do(func() {
		p := config.Consensus[protocol.ConsensusCurrentVersion]
		p.NumProposers = 6
		p.SoftCommitteeSize, p.SoftCommitteeThreshold = 30, 20
		p.CertCommitteeSize, p.CertCommitteeThreshold = 24, 16
		p.NextCommitteeSize, p.NextCommitteeThreshold = 36, 24
		p.LateCommitteeSize, p.LateCommitteeThreshold = 20, 12
		p.RedoCommitteeSize, p.RedoCommitteeThreshold = 28, 18
		p.DownCommitteeSize, p.DownCommitteeThreshold = 40, 26
		config.Consensus[c04Version] = p
	})
}

type c04Acct struct {
	addr  basics.Address
	vrf   crypto.VRFSecrets
	ots   crypto.OneTimeSigner
	stake uint64
}

// c04Ledger is an immutable LedgerReader: the same accounts at every round, one seed per round,
// errors (never panics) for rounds it does not know.
type c04Ledger struct {
	id    int
	seeds []committee.Seed
	accts map[basics.Address]basics.OnlineAccountData
	total uint64
}

func (l *c04Ledger) NextRound() basics.Round { return basics.Round(len(l.seeds)) }
func (l *c04Ledger) Wait(basics.Round) chan struct{} {
	ch := make(chan struct{})
	close(ch)
	return ch
}
func (l *c04Ledger) Seed(r basics.Round) (committee.Seed, error) {
	if int(r) >= len(l.seeds) {
		return committee.Seed{}, fmt.Errorf("c04Ledger: no seed for round %d", r)
	}
	return l.seeds[r], nil
}
func (l *c04Ledger) LookupAgreement(r basics.Round, a basics.Address) (basics.OnlineAccountData, error) {
	if int(r) >= len(l.seeds) {
		return basics.OnlineAccountData{}, fmt.Errorf("c04Ledger: no balances for round %d", r)
	}
	return l.accts[a], nil // unknown address: empty record, as the real ledger answers
}
func (l *c04Ledger) Circulation(r basics.Round, _ basics.Round) (basics.MicroAlgos, error) {
	if int(r) >= len(l.seeds) {
		return basics.MicroAlgos{}, fmt.Errorf("c04Ledger: no circulation for round %d", r)
	}
	return basics.MicroAlgos{Raw: l.total}, nil
}
func (l *c04Ledger) LookupDigest(basics.Round) (crypto.Digest, error) { return crypto.Digest{}, nil }
func (l *c04Ledger) ConsensusParams(basics.Round) (config.ConsensusParams, error) {
	return config.Consensus[c04Version], nil
}
func (l *c04Ledger) ConsensusVersion(basics.Round) (protocol.ConsensusVersion, error) {
	return c04Version, nil
}

var c04LedgerIDs struct {
	sync.Mutex
	n int
}

func c04NextLedgerID() int {
	c04LedgerIDs.Lock()
	defer c04LedgerIDs.Unlock()
	c04LedgerIDs.n++
	return c04LedgerIDs.n
}

// variant returns a copy of the ledger in which one account's record is changed (the
// circulation stays the same so that the other voters keep their weights).
func (l *c04Ledger) variant(a basics.Address, f func(*basics.OnlineAccountData)) *c04Ledger {
	n := &c04Ledger{id: c04NextLedgerID(), seeds: l.seeds, total: l.total, accts: make(map[basics.Address]basics.OnlineAccountData, len(l.accts))}
	for k, v := range l.accts {
		n.accts[k] = v
	}
	rec := n.accts[a]
	f(&rec)
	n.accts[a] = rec
	return n
}

type c04Committee struct {
	accts  []*c04Acct
	ledger *c04Ledger
}

// c04NewCommittee derives keys, stakes and seeds from the PRNG only (same seed => same committee).
func c04NewCommittee(r *kit.Rand, stakes []uint64, rounds int) *c04Committee {
	c04Setup()
	cm := &c04Committee{}
	l := &c04Ledger{id: c04NextLedgerID(), accts: map[basics.Address]basics.OnlineAccountData{}}
	for i := 0; i < rounds; i++ {
		var s committee.Seed
		copy(s[:], r.Bytes(32))
		l.seeds = append(l.seeds, s)
	}
	for _, st := range stakes {
		a := &c04Acct{stake: st}
		copy(a.addr[:], r.Bytes(32))
		var vs [32]byte
		copy(vs[:], r.Bytes(32))
		a.vrf.PK, a.vrf.SK = crypto.VrfKeygenFromSeed(vs)
		a.ots.OneTimeSignatureSecrets = crypto.GenerateOneTimeSignatureSecretsRNG(0, 1, crypto.MakePRNG(r.Bytes(32)))
		cm.accts = append(cm.accts, a)
		l.accts[a.addr] = basics.OnlineAccountData{
			MicroAlgosWithRewards: basics.MicroAlgos{Raw: st},
			VotingData: basics.VotingData{
				VoteID:         a.ots.OneTimeSignatureVerifier,
				SelectionID:    a.vrf.PK,
				VoteFirstValid: 1,
				VoteLastValid:  100000,
			},
		}
		l.total += st
	}
	cm.ledger = l
	return cm
}

// sign produces a vote signed with the account's keys for exactly the given raw vote (no
// plausibility checks: bottom in cert, propose steps etc. can be signed on purpose).
func (cm *c04Committee) sign(a *c04Acct, rv rawVote) unauthenticatedVote {
	proto := config.Consensus[c04Version]
	id := basics.OneTimeIDForRound(rv.Round, a.ots.KeyDilution(proto.DefaultKeyDilution))
	sig := a.ots.Sign(id, rv)
	return unauthenticatedVote{R: rv, Cred: cm.cred(a, rv.Round, rv.Period, rv.Step), Sig: sig}
}

func (cm *c04Committee) cred(a *c04Acct, r basics.Round, p period, s step) committee.UnauthenticatedCredential {
	proto := config.Consensus[c04Version]
	var seed committee.Seed
	sr := r.SubSaturate(basics.Round(proto.SeedLookback))
	if int(sr) < len(cm.ledger.seeds) {
		seed = cm.ledger.seeds[sr]
	}
	return committee.MakeCredential(&a.vrf.SK, selector{Seed: seed, Round: r, Period: p, Step: s})
}

// ---------------------------------------------------------------------------------------
// the reference quorum checker

func c04Threshold(proto config.ConsensusParams, s step) (threshold, size uint64, ok bool) {
	switch {
	case s == propose:
		return 0, 0, false
	case s == soft:
		return proto.SoftCommitteeThreshold, proto.SoftCommitteeSize, true
	case s == cert:
		return proto.CertCommitteeThreshold, proto.CertCommitteeSize, true
	case s == late:
		return proto.LateCommitteeThreshold, proto.LateCommitteeSize, true
	case s == redo:
		return proto.RedoCommitteeThreshold, proto.RedoCommitteeSize, true
	case s == down:
		return proto.DownCommitteeThreshold, proto.DownCommitteeSize, true
	default: // next, next+1, ...
		return proto.NextCommitteeThreshold, proto.NextCommitteeSize, true
	}
}

type c04VoteKey struct {
	lid  int
	rv   rawVote
	pf   crypto.VrfProof
	sig  crypto.OneTimeSignature
	real bool
}

type c04VoteVerdict struct {
	ok     bool
	weight uint64
	why    string
}

// c04Memo caches per-vote verdicts of one case (pure functions of ledger, vote, credential, signature).
type c04Memo map[c04VoteKey]c04VoteVerdict

// c04RefVote decides one vote from the rules; inBundle excludes the propose step (bundles never carry it).
func c04RefVote(l *c04Ledger, rv rawVote, cred committee.UnauthenticatedCredential, sig crypto.OneTimeSignature, memo c04Memo) (res c04VoteVerdict) {
	key := c04VoteKey{lid: l.id, rv: rv, pf: cred.Proof, sig: sig}
	if memo != nil {
		if v, ok := memo[key]; ok {
			return v
		}
		defer func() { memo[key] = res }()
	}
	proto := config.Consensus[c04Version]
	if (rv.Step == soft || rv.Step == cert || rv.Step == propose) && rv.Proposal == bottom {
		return c04VoteVerdict{why: "bottom value in a propose/soft/cert vote"}
	}
	if rv.Step == propose {
		if rv.Period == rv.Proposal.OriginalPeriod && rv.Sender != rv.Proposal.OriginalProposer {
			return c04VoteVerdict{why: "proposal-vote not by the original proposer"}
		}
		if rv.Proposal.OriginalPeriod > rv.Period {
			return c04VoteVerdict{why: "proposal-vote for a value from a future period"}
		}
	}
	balRound := rv.Round.SubSaturate(basics.Round(2 * proto.SeedRefreshInterval * proto.SeedLookback))
	seedRound := rv.Round.SubSaturate(basics.Round(proto.SeedLookback))
	if int(balRound) >= len(l.seeds) || int(seedRound) >= len(l.seeds) {
		return c04VoteVerdict{why: "round unknown to the ledger"}
	}
	rec := l.accts[rv.Sender]
	if rv.Round < rec.VoteFirstValid || (rec.VoteLastValid != 0 && rv.Round > rec.VoteLastValid) {
		return c04VoteVerdict{why: "round outside the vote key validity window"}
	}
	dilution := rec.VoteKeyDilution
	if dilution == 0 {
		dilution = proto.DefaultKeyDilution
	}
	eph := crypto.OneTimeSignatureIdentifier{Batch: uint64(rv.Round) / dilution, Offset: uint64(rv.Round) % dilution}
	if !rec.VoteID.Verify(eph, rv, sig) {
		return c04VoteVerdict{why: "one-time signature does not verify"}
	}
	_, size, _ := c04Threshold(proto, rv.Step)
	if rv.Step == propose {
		size = proto.NumProposers
	}
	sel := selector{Seed: l.seeds[seedRound], Round: rv.Round, Period: rv.Period, Step: rv.Step}
	if ok, _ := rec.SelectionID.Verify(cred.Proof, sel); !ok {
		return c04VoteVerdict{why: "VRF proof does not verify"}
	}
	if rec.MicroAlgosWithRewards.Raw == 0 {
		return c04VoteVerdict{why: "sender has no stake"}
	}
	if rec.MicroAlgosWithRewards.Raw > l.total || size == 0 || size > l.total {
		return c04VoteVerdict{why: "harness: stake table inconsistent"}
	}
	// sortition: the committee package turns the verified VRF output into a weight
	c, err := cred.Verify(proto, committee.Membership{
		Record:     committee.BalanceRecord{OnlineAccountData: rec, Addr: rv.Sender},
		Selector:   sel,
		TotalMoney: basics.MicroAlgos{Raw: l.total},
	})
	if err != nil || c.Weight == 0 {
		return c04VoteVerdict{why: "credential not selected (weight 0)"}
	}
	return c04VoteVerdict{ok: true, weight: c.Weight}
}

// c04RefBundle: does b prove a quorum for (b.Round, b.Period, b.Step, b.Proposal)?
func c04RefBundle(l *c04Ledger, b unauthenticatedBundle, memo c04Memo) (bool, string, uint64) {
	proto := config.Consensus[c04Version]
	threshold, _, ok := c04Threshold(proto, b.Step)
	if !ok {
		return false, "bundle for the propose step", 0
	}
	seen := map[basics.Address]bool{}
	var weight uint64
	for i, v := range b.Votes {
		if seen[v.Sender] {
			return false, fmt.Sprintf("sender of vote %d appears twice", i), 0
		}
		seen[v.Sender] = true
		rv := rawVote{Sender: v.Sender, Round: b.Round, Period: b.Period, Step: b.Step, Proposal: b.Proposal}
		vd := c04RefVote(l, rv, v.Cred, v.Sig, memo)
		if !vd.ok {
			return false, fmt.Sprintf("vote %d invalid: %s", i, vd.why), 0
		}
		weight += vd.weight
	}
	for i, ev := range b.EquivocationVotes {
		if seen[ev.Sender] {
			return false, fmt.Sprintf("sender of pair %d appears twice", i), 0
		}
		seen[ev.Sender] = true
		if ev.Proposals[0] == ev.Proposals[1] {
			return false, fmt.Sprintf("pair %d has identical values", i), 0
		}
		var w uint64
		for k := 0; k < 2; k++ {
			rv := rawVote{Sender: ev.Sender, Round: b.Round, Period: b.Period, Step: b.Step, Proposal: ev.Proposals[k]}
			vd := c04RefVote(l, rv, ev.Cred, ev.Sigs[k], memo)
			if !vd.ok {
				return false, fmt.Sprintf("pair %d vote %d invalid: %s", i, k, vd.why), 0
			}
			w = vd.weight
		}
		weight += w
	}
	if (b.Step == soft || b.Step == cert) && b.Proposal == bottom {
		return false, "soft/cert bundle for bottom", weight
	}
	if weight < threshold {
		return false, fmt.Sprintf("weight %d below threshold %d", weight, threshold), weight
	}
	return true, "", weight
}

func c04RefCert(l *c04Ledger, c Certificate, blk bookkeeping.Block, memo c04Memo) (bool, string) {
	if c.Step != cert {
		return false, "certificate step is not cert"
	}
	if c.Round != blk.Round() {
		return false, "certificate round is not the block's round"
	}
	if c.Proposal.BlockDigest != blk.Digest() {
		return false, "certificate digest is not the block's digest"
	}
	if c.Proposal == bottom {
		return false, "certificate for bottom"
	}
	ok, why, _ := c04RefBundle(l, unauthenticatedBundle(c), memo)
	return ok, why
}

// ---------------------------------------------------------------------------------------
// inputs

type c04Input struct {
	op  string // operator (finding class is "accepts-"+op)
	pos int
	b   unauthenticatedBundle
	l   *c04Ledger
	blk *bookkeeping.Block // non-nil: presented as Certificate for this block
}

type c04Item struct { // one voter's contribution
	acct   int
	weight uint64
	vote   voteAuthenticator
	pair   *equivocationVoteAuthenticator
}

type c04Case struct {
	idx    int
	cm     *c04Committee
	round  basics.Round
	period period
	step   step
	value  proposalValue
	other  [2]proposalValue
	blk    bookkeeping.Block
	items  []c04Item
	memo   c04Memo
	thresh uint64
	r      *kit.Rand
}

func c04StepName(s step) string {
	switch {
	case s == propose:
		return "propose"
	case s == soft:
		return "soft"
	case s == cert:
		return "cert"
	case s == late:
		return "late"
	case s == redo:
		return "redo"
	case s == down:
		return "down"
	default:
		return "next"
	}
}

func c04RandValue(r *kit.Rand, proposer basics.Address, per period) proposalValue {
	var v proposalValue
	copy(v.BlockDigest[:], r.Bytes(32))
	copy(v.EncodingDigest[:], r.Bytes(32))
	v.OriginalProposer = proposer
	v.OriginalPeriod = per
	return v
}

var c04Profiles = [][]uint64{
	{2000, 1500, 1500, 1000, 1000, 800, 700, 500, 400, 300, 200, 100, 0, 0},
	{900, 900, 900, 900, 800, 800, 800, 800, 800, 800, 800, 800, 0, 0},
	{3000, 2500, 1000, 700, 600, 500, 500, 400, 300, 300, 100, 100, 0, 0},
	{1200, 1100, 1000, 1000, 900, 900, 800, 800, 700, 600, 500, 500, 0, 0},
}

func c04MakeCase(c *kit.Ctx, idx int, r *kit.Rand, wide bool) *c04Case {
	cs := &c04Case{idx: idx, r: r, memo: c04Memo{}}
	var stakes []uint64
	if wide { // many small equal stakes: more selected voters than a small threshold (for the size bound)
		for i := 0; i < 44; i++ {
			stakes = append(stakes, 500)
		}
	} else {
		prof := c04Profiles[r.Intn(len(c04Profiles))]
		perm := r.Perm(len(prof))
		for _, j := range perm {
			stakes = append(stakes, prof[j])
		}
	}
	cs.cm = c04NewCommittee(r, stakes, 20)
	cs.round = basics.Round(r.Range(3, 14))
	cs.period = period([]int{0, 0, 0, 1, 2, 5}[r.Intn(6)])
	steps := []step{soft, cert, cert, next, next + 1, next + 7, late, redo, down}
	cs.step = steps[r.Intn(len(steps))]
	if wide {
		cs.step = late
	}
	proto := config.Consensus[c04Version]
	cs.thresh, _, _ = c04Threshold(proto, cs.step)
	cs.blk = bookkeeping.Block{BlockHeader: bookkeeping.BlockHeader{Round: cs.round}}
	copy(cs.blk.BlockHeader.Branch[:], r.Bytes(32))
	cs.value = c04RandValue(r, cs.cm.accts[0].addr, 0)
	cs.value.BlockDigest = cs.blk.Digest()
	if cs.step == down || (cs.step >= next && cs.step < late && r.Chance(1, 2)) {
		cs.value = bottom
	}
	cs.other[0] = c04RandValue(r, cs.cm.accts[1].addr, 0)
	cs.other[1] = c04RandValue(r, cs.cm.accts[2].addr, cs.period)
	// every account votes; the selected ones (weight > 0) become items
	nEquiv := r.Intn(4)
	for i, a := range cs.cm.accts {
		rv := rawVote{Sender: a.addr, Round: cs.round, Period: cs.period, Step: cs.step, Proposal: cs.value}
		uv := cs.cm.sign(a, rv)
		vd := c04RefVote(cs.cm.ledger, rv, uv.Cred, uv.Sig, cs.memo)
		if !vd.ok {
			continue
		}
		it := c04Item{acct: i, weight: vd.weight, vote: voteAuthenticator{Sender: a.addr, Cred: uv.Cred, Sig: uv.Sig}}
		if nEquiv > 0 && r.Chance(1, 2) {
			nEquiv--
			it.pair = cs.makePair(a, r.Intn(3))
		}
		cs.items = append(cs.items, it)
	}
	return cs
}

// makePair builds a genuine equivocation pair of account a: kind 0 = (value, other0), 1 = (other0, other1), 2 = (other1, value).
func (cs *c04Case) makePair(a *c04Acct, kind int) *equivocationVoteAuthenticator {
	vals := [][2]proposalValue{{cs.value, cs.other[0]}, {cs.other[0], cs.other[1]}, {cs.other[1], cs.value}}[kind]
	if (cs.step == soft || cs.step == cert) && (vals[0] == bottom || vals[1] == bottom) {
		vals = [2]proposalValue{cs.other[0], cs.other[1]}
	}
	ev := &equivocationVoteAuthenticator{Sender: a.addr, Proposals: vals}
	for k := 0; k < 2; k++ {
		uv := cs.cm.sign(a, rawVote{Sender: a.addr, Round: cs.round, Period: cs.period, Step: cs.step, Proposal: vals[k]})
		ev.Cred = uv.Cred
		ev.Sigs[k] = uv.Sig
	}
	return ev
}

// bundleOf assembles the items selected by mask; usePair: items that have a pair contribute it instead of their vote.
func (cs *c04Case) bundleOf(mask uint64, usePair bool) (unauthenticatedBundle, uint64) {
	b := unauthenticatedBundle{Round: cs.round, Period: cs.period, Step: cs.step, Proposal: cs.value}
	var w uint64
	for i, it := range cs.items {
		if mask&(1<<uint(i)) == 0 {
			continue
		}
		w += it.weight
		if usePair && it.pair != nil {
			b.EquivocationVotes = append(b.EquivocationVotes, *it.pair)
		} else {
			b.Votes = append(b.Votes, it.vote)
		}
	}
	return b, w
}

func c04CloneBundle(b unauthenticatedBundle) unauthenticatedBundle {
	n := b
	n.Votes = append([]voteAuthenticator(nil), b.Votes...)
	n.EquivocationVotes = append([]equivocationVoteAuthenticator(nil), b.EquivocationVotes...)
	return n
}

func c04FlipSig(r *kit.Rand, s *crypto.OneTimeSignature, field int) string {
	names := []string{"Sig", "PK", "PKSigOld", "PK2", "PK1Sig", "PK2Sig"}
	var buf []byte
	switch field {
	case 0:
		buf = s.Sig[:]
	case 1:
		buf = s.PK[:]
	case 2:
		buf = s.PKSigOld[:]
	case 3:
		buf = s.PK2[:]
	case 4:
		buf = s.PK1Sig[:]
	default:
		buf = s.PK2Sig[:]
	}
	bit := r.Intn(len(buf) * 8)
	buf[bit/8] ^= 1 << uint(bit%8)
	return names[field]
}

// inputs enumerates subsets around the threshold and every mutation operator at every position.
func (cs *c04Case) inputs() []c04Input {
	r := cs.r
	l := cs.cm.ledger
	var out []c04Input
	add := func(op string, pos int, b unauthenticatedBundle, lg *c04Ledger, blk *bookkeeping.Block) {
		out = append(out, c04Input{op: op, pos: pos, b: b, l: lg, blk: blk})
	}
	n := len(cs.items)
	if n == 0 {
		return nil
	}
	if n > 16 {
		n = 16
	}
	// --- subsets of every weight around the threshold (threshold-3 .. threshold+3), votes and pairs mixed
	type cand struct {
		mask uint64
		w    uint64
	}
	buckets := map[int64][]cand{}
	var over, under []cand
	for mask := uint64(1); mask < 1<<uint(n); mask++ {
		var w uint64
		for i := 0; i < n; i++ {
			if mask&(1<<uint(i)) != 0 {
				w += cs.items[i].weight
			}
		}
		d := int64(w) - int64(cs.thresh)
		if d >= -3 && d <= 3 {
			buckets[d] = append(buckets[d], cand{mask, w})
		}
		if d >= 0 && d <= 6 {
			over = append(over, cand{mask, w})
		}
		if d < 0 && d >= -8 {
			under = append(under, cand{mask, w})
		}
	}
	for d := int64(-3); d <= 3; d++ {
		bs := buckets[d]
		for k := 0; k < 2 && len(bs) > 0; k++ {
			cd := bs[r.Intn(len(bs))]
			b, _ := cs.bundleOf(cd.mask, r.Bool())
			add(fmt.Sprintf("subset%+d", d), -1, b, l, nil)
		}
	}
	for k := 0; k < 3; k++ { // arbitrary subsets
		b, _ := cs.bundleOf(r.Uint64()&(1<<uint(n)-1)|1, r.Bool())
		add("subset-random", -1, b, l, nil)
	}
	all, _ := cs.bundleOf(1<<uint(n)-1, true)
	add("subset-all", -1, all, l, nil)
	if len(over) == 0 {
		return out
	}
	// --- base bundles: B0 proves a quorum (small slack), B1 misses it
	b0c := over[r.Intn(len(over))]
	B0, _ := cs.bundleOf(b0c.mask, true)
	B0v, _ := cs.bundleOf(b0c.mask, false)
	var B1 unauthenticatedBundle
	var b1w uint64
	haveB1 := len(under) > 0
	if haveB1 {
		cd := under[r.Intn(len(under))]
		B1, b1w = cs.bundleOf(cd.mask, true)
	}
	blk := cs.blk
	otherBlkSameRound := bookkeeping.Block{BlockHeader: bookkeeping.BlockHeader{Round: cs.round}}
	copy(otherBlkSameRound.BlockHeader.Branch[:], r.Bytes(32))
	otherRoundBlk := blk
	otherRoundBlk.BlockHeader.Round = cs.round + 1

	add("valid", -1, B0, l, nil)
	add("valid-votes-only", -1, B0v, l, nil)
	// certificates: valid one for its block, and presented for other blocks
	add("cert-for-its-block", -1, B0v, l, &blk)
	add("cert-for-its-block", -1, B0, l, &blk)
	add("cert-other-digest", -1, B0v, l, &otherBlkSameRound)
	add("cert-other-round", -1, B0v, l, &otherRoundBlk)
	if haveB1 {
		add("cert-below-threshold", -1, B1, l, &blk)
	}

	// --- whole-bundle field swaps (signatures stay as they were)
	for _, base := range []unauthenticatedBundle{B0, B0v} {
		m := c04CloneBundle(base)
		m.Round += basics.Round(r.Range(1, 3))
		add("swap-round", -1, m, l, nil)
		m = c04CloneBundle(base)
		m.Round -= 1
		add("swap-round", -1, m, l, nil)
		m = c04CloneBundle(base)
		m.Period += period(r.Range(1, 3))
		add("swap-period", -1, m, l, nil)
		for _, s := range []step{soft, cert, next, next + 1, late, redo, down, propose} {
			if s == base.Step {
				continue
			}
			m = c04CloneBundle(base)
			m.Step = s
			if s == propose {
				add("step-propose-relabel", -1, m, l, nil)
			} else {
				add("swap-step", -1, m, l, nil)
				if s == cert {
					add("swap-step-as-cert", -1, m, l, &blk)
				}
			}
		}
		m = c04CloneBundle(base)
		m.Proposal.BlockDigest[r.Intn(32)] ^= 1 << uint(r.Intn(8))
		add("swap-digest", -1, m, l, nil)
		m = c04CloneBundle(base)
		m.Proposal.EncodingDigest[r.Intn(32)] ^= 1 << uint(r.Intn(8))
		add("swap-encoding-digest", -1, m, l, nil)
		m = c04CloneBundle(base)
		m.Proposal.OriginalProposer = cs.cm.accts[r.Intn(len(cs.cm.accts))].addr
		if m.Proposal != base.Proposal {
			add("swap-original-proposer", -1, m, l, nil)
		}
		m = c04CloneBundle(base)
		m.Proposal.OriginalPeriod++
		add("swap-original-period", -1, m, l, nil)
		m = c04CloneBundle(base)
		m.Proposal = cs.other[0]
		add("swap-value", -1, m, l, nil)
		if base.Proposal != bottom {
			m = c04CloneBundle(base)
			m.Proposal = bottom
			add("bottom-relabel", -1, m, l, nil)
		}
	}
	// a non-cert quorum presented as a certificate
	if cs.step != cert && cs.value != bottom {
		add("non-cert-step-as-cert", -1, B0v, l, &blk)
	}

	// --- per-position operators
	bases := []unauthenticatedBundle{B0}
	if haveB1 {
		bases = append(bases, B1)
	}
	for bi, base := range bases {
		tag := ""
		if bi == 1 {
			tag = "-below" // the mutation would lift the weight over the threshold
			_ = b1w
		}
		for i := range base.Votes {
			// duplicate a voter (adjacent and at the end)
			m := c04CloneBundle(base)
			m.Votes = append(m.Votes[:i+1], append([]voteAuthenticator{base.Votes[i]}, m.Votes[i+1:]...)...)
			add("duplicate-voter"+tag, i, m, l, nil)
			m = c04CloneBundle(base)
			m.Votes = append(m.Votes, base.Votes[i])
			add("duplicate-voter"+tag, i, m, l, nil)
			if cs.step == cert && cs.value != bottom {
				add("cert-duplicate-voter"+tag, i, m, l, &blk)
			}
			// the same voter once as a vote and once as a genuine pair
			a := cs.acctOf(base.Votes[i].Sender)
			m = c04CloneBundle(base)
			m.EquivocationVotes = append(m.EquivocationVotes, *cs.makePair(a, r.Intn(3)))
			add("voter-as-vote-and-pair"+tag, i, m, l, nil)
			// the voter's contribution replaced by a "pair" with identical values
			m = c04CloneBundle(base)
			v := base.Votes[i]
			m.Votes = append(m.Votes[:i], m.Votes[i+1:]...)
			m.EquivocationVotes = append(m.EquivocationVotes, equivocationVoteAuthenticator{Sender: v.Sender, Cred: v.Cred,
				Sigs: [2]crypto.OneTimeSignature{v.Sig, v.Sig}, Proposals: [2]proposalValue{base.Proposal, base.Proposal}})
			add("pair-identical-values"+tag, i, m, l, nil)
		}
		for j := range base.EquivocationVotes {
			m := c04CloneBundle(base)
			m.EquivocationVotes = append(m.EquivocationVotes, base.EquivocationVotes[j])
			add("duplicate-pair"+tag, j, m, l, nil)
			// pair's sender additionally as a plain vote
			a := cs.acctOf(base.EquivocationVotes[j].Sender)
			uv := cs.cm.sign(a, rawVote{Sender: a.addr, Round: base.Round, Period: base.Period, Step: base.Step, Proposal: base.Proposal})
			if !((base.Step == soft || base.Step == cert) && base.Proposal == bottom) {
				m = c04CloneBundle(base)
				m.Votes = append(m.Votes, voteAuthenticator{Sender: a.addr, Cred: uv.Cred, Sig: uv.Sig})
				add("voter-as-vote-and-pair"+tag, j, m, l, nil)
			}
			m = c04CloneBundle(base)
			m.EquivocationVotes[j].Proposals[1] = m.EquivocationVotes[j].Proposals[0]
			m.EquivocationVotes[j].Sigs[1] = m.EquivocationVotes[j].Sigs[0]
			add("pair-identical-values"+tag, j, m, l, nil)
		}
	}
	// operators that invalidate one vote of a bundle that otherwise proves a quorum
	for i := range B0.Votes {
		a := cs.acctOf(B0.Votes[i].Sender)
		for f := 0; f < 6; f++ {
			m := c04CloneBundle(B0)
			name := c04FlipSig(r, &m.Votes[i].Sig, f)
			add("sig-bitflip-"+name, i, m, l, nil)
		}
		m := c04CloneBundle(B0)
		m.Votes[i].Cred.Proof[r.Intn(len(m.Votes[i].Cred.Proof))] ^= 1 << uint(r.Intn(8))
		add("cred-bitflip", i, m, l, nil)
		m = c04CloneBundle(B0)
		m.Votes[i].Cred = cs.cm.cred(a, cs.round+1, cs.period, cs.step)
		add("cred-other-round", i, m, l, nil)
		m = c04CloneBundle(B0)
		m.Votes[i].Cred = cs.cm.cred(a, cs.round, cs.period+1, cs.step)
		add("cred-other-period", i, m, l, nil)
		m = c04CloneBundle(B0)
		os := soft
		if cs.step == soft {
			os = cert
		}
		m.Votes[i].Cred = cs.cm.cred(a, cs.round, cs.period, os)
		add("cred-other-step", i, m, l, nil)
		other := cs.cm.accts[(cs.items[0].acct+1+r.Intn(len(cs.cm.accts)-1))%len(cs.cm.accts)]
		if other.addr != a.addr {
			m = c04CloneBundle(B0)
			m.Votes[i].Cred = cs.cm.cred(other, cs.round, cs.period, cs.step)
			add("cred-other-account", i, m, l, nil)
			m = c04CloneBundle(B0)
			m.Votes[i].Sender = other.addr
			add("sender-swapped", i, m, l, nil)
		}
		// a vote genuinely signed for another value, packed into this bundle
		uv := cs.cm.sign(a, rawVote{Sender: a.addr, Round: cs.round, Period: cs.period, Step: cs.step, Proposal: cs.other[0]})
		m = c04CloneBundle(B0)
		m.Votes[i].Sig = uv.Sig
		add("vote-for-other-value", i, m, l, nil)
		// a vote genuinely signed for another round / step
		uv = cs.cm.sign(a, rawVote{Sender: a.addr, Round: cs.round + 1, Period: cs.period, Step: cs.step, Proposal: cs.value})
		m = c04CloneBundle(B0)
		m.Votes[i].Sig, m.Votes[i].Cred = uv.Sig, uv.Cred
		add("vote-from-other-round", i, m, l, nil)
		// ledger variants: the same bundle checked against a ledger where this sender is not entitled
		add("sender-without-stake", i, B0, l.variant(a.addr, func(d *basics.OnlineAccountData) { d.MicroAlgosWithRewards.Raw = 0 }), nil)
		add("sender-offline", i, B0, l.variant(a.addr, func(d *basics.OnlineAccountData) { *d = basics.OnlineAccountData{} }), nil)
		add("sender-before-first-valid", i, B0, l.variant(a.addr, func(d *basics.OnlineAccountData) { d.VoteFirstValid = cs.round + 1 }), nil)
		add("sender-after-last-valid", i, B0, l.variant(a.addr, func(d *basics.OnlineAccountData) { d.VoteLastValid = cs.round - 1 }), nil)
		add("sender-at-last-valid", i, B0, l.variant(a.addr, func(d *basics.OnlineAccountData) { d.VoteLastValid = cs.round; d.VoteFirstValid = cs.round }), nil)
		add("sender-other-vote-key", i, B0, l.variant(a.addr, func(d *basics.OnlineAccountData) { d.VoteID = other.ots.OneTimeSignatureVerifier }), nil)
		add("sender-other-selection-key", i, B0, l.variant(a.addr, func(d *basics.OnlineAccountData) { d.SelectionID = other.vrf.PK }), nil)
		add("sender-other-key-dilution", i, B0, l.variant(a.addr, func(d *basics.OnlineAccountData) { d.VoteKeyDilution = 7 }), nil)
		// removing the vote altogether
		m = c04CloneBundle(B0)
		m.Votes = append(m.Votes[:i], m.Votes[i+1:]...)
		add("vote-removed", i, m, l, nil)
	}
	for j := range B0.EquivocationVotes {
		for k := 0; k < 2; k++ {
			m := c04CloneBundle(B0)
			name := c04FlipSig(r, &m.EquivocationVotes[j].Sigs[k], []int{0, 1, 3, 4, 5}[r.Intn(5)])
			add("pair-sig-bitflip-"+name, j, m, l, nil)
		}
		m := c04CloneBundle(B0)
		m.EquivocationVotes[j].Proposals[r.Intn(2)].BlockDigest[3] ^= 4
		add("pair-swap-digest", j, m, l, nil)
		if cs.step == soft || cs.step == cert {
			// a pair one of whose votes is genuinely signed for bottom
			a := cs.acctOf(B0.EquivocationVotes[j].Sender)
			uv := cs.cm.sign(a, rawVote{Sender: a.addr, Round: cs.round, Period: cs.period, Step: cs.step, Proposal: bottom})
			m = c04CloneBundle(B0)
			m.EquivocationVotes[j].Proposals[1] = bottom
			m.EquivocationVotes[j].Sigs[1] = uv.Sig
			add("pair-with-bottom-in-soft-cert", j, m, l, nil)
		}
		m = c04CloneBundle(B0)
		m.EquivocationVotes[j].Cred = cs.cm.cred(cs.acctOf(B0.EquivocationVotes[j].Sender), cs.round, cs.period+1, cs.step)
		add("pair-cred-other-period", j, m, l, nil)
	}
	// --- votes genuinely signed by accounts that have the keys but no stake
	for _, a := range cs.cm.accts {
		if a.stake != 0 {
			continue
		}
		uv := cs.cm.sign(a, rawVote{Sender: a.addr, Round: cs.round, Period: cs.period, Step: cs.step, Proposal: cs.value})
		if (cs.step == soft || cs.step == cert) && cs.value == bottom {
			continue
		}
		m := c04CloneBundle(B0)
		m.Votes = append(m.Votes, voteAuthenticator{Sender: a.addr, Cred: uv.Cred, Sig: uv.Sig})
		add("extra-voter-without-stake", -1, m, l, nil)
	}
	// --- bundles whose votes are genuinely signed for an inadmissible (step, value)
	if cs.step == soft || cs.step == cert {
		m := cs.resigned(b0c.mask, cs.step, bottom, false)
		add("bottom-signed-in-soft-cert", -1, m, l, nil)
		if cs.step == cert {
			zb := bookkeeping.Block{BlockHeader: bookkeeping.BlockHeader{Round: cs.round}}
			add("bottom-signed-cert-as-certificate", -1, m, l, &zb)
		}
		// only pairs (their values are not bottom), bundle value bottom
		pm := cs.resigned(1<<uint(n)-1, cs.step, bottom, true)
		add("bottom-bundle-of-pairs-only", -1, pm, l, nil)
	}
	{
		pv := cs.value
		if pv == bottom {
			pv = cs.other[0]
		}
		m := cs.resigned(1<<uint(n)-1, propose, pv, false)
		add("step-propose-signed", -1, m, l, nil)
		pm := cs.resigned(1<<uint(n)-1, cs.step, cs.value, true)
		add("pairs-only", -1, pm, l, nil)
	}
	return out
}

func (cs *c04Case) acctOf(a basics.Address) *c04Acct {
	for _, x := range cs.cm.accts {
		if x.addr == a {
			return x
		}
	}
	return cs.cm.accts[0]
}

// resigned builds a bundle for (step, value) in which every selected account of mask signs afresh; pairsOnly: each
// contributes a genuine equivocation pair (other0, other1) instead of a vote.
func (cs *c04Case) resigned(mask uint64, s step, v proposalValue, pairsOnly bool) unauthenticatedBundle {
	b := unauthenticatedBundle{Round: cs.round, Period: cs.period, Step: s, Proposal: v}
	for i, it := range cs.items {
		if i >= 16 || mask&(1<<uint(i)) == 0 {
			continue
		}
		a := cs.cm.accts[it.acct]
		if pairsOnly {
			ev := equivocationVoteAuthenticator{Sender: a.addr, Proposals: [2]proposalValue{cs.other[0], cs.other[1]}}
			for k := 0; k < 2; k++ {
				uv := cs.cm.sign(a, rawVote{Sender: a.addr, Round: cs.round, Period: cs.period, Step: s, Proposal: ev.Proposals[k]})
				ev.Cred, ev.Sigs[k] = uv.Cred, uv.Sig
			}
			b.EquivocationVotes = append(b.EquivocationVotes, ev)
			continue
		}
		uv := cs.cm.sign(a, rawVote{Sender: a.addr, Round: cs.round, Period: cs.period, Step: s, Proposal: v})
		b.Votes = append(b.Votes, voteAuthenticator{Sender: a.addr, Cred: uv.Cred, Sig: uv.Sig})
	}
	return b
}

// oversize: more distinct valid entries than the step threshold.
func (cs *c04Case) oversizeInputs() []c04Input {
	var out []c04Input
	n := len(cs.items)
	if uint64(n) <= cs.thresh {
		return nil
	}
	b := unauthenticatedBundle{Round: cs.round, Period: cs.period, Step: cs.step, Proposal: cs.value}
	for _, it := range cs.items {
		b.Votes = append(b.Votes, it.vote)
	}
	out = append(out, c04Input{op: "oversize", pos: -1, b: b, l: cs.cm.ledger})
	k := c04CloneBundle(b)
	k.Votes = k.Votes[:cs.thresh]
	out = append(out, c04Input{op: "size-at-bound", pos: -1, b: k, l: cs.cm.ledger})
	k = c04CloneBundle(b)
	k.Votes = k.Votes[:cs.thresh+1]
	out = append(out, c04Input{op: "oversize", pos: -1, b: k, l: cs.cm.ledger})
	// votes + pairs together exceed the bound
	k = c04CloneBundle(b)
	k.Votes = k.Votes[:cs.thresh]
	a := cs.cm.accts[cs.items[cs.thresh].acct]
	k.EquivocationVotes = append(k.EquivocationVotes, *cs.makePair(a, 1))
	out = append(out, c04Input{op: "oversize", pos: -1, b: k, l: cs.cm.ledger})
	// oversize by duplicates
	k = c04CloneBundle(b)
	k.Votes = k.Votes[:3]
	for uint64(len(k.Votes)) <= cs.thresh {
		k.Votes = append(k.Votes, k.Votes[cs.r.Intn(3)])
	}
	out = append(out, c04Input{op: "oversize-by-duplicates", pos: -1, b: k, l: cs.cm.ledger})
	return out
}

// ---------------------------------------------------------------------------------------
// evaluation

type c04Stats struct{}

func c04Describe(b unauthenticatedBundle) map[string]any {
	d := map[string]any{"round": uint64(b.Round), "period": uint64(b.Period), "step": uint64(b.Step),
		"value": fmt.Sprintf("%x/%x/%d/%x", b.Proposal.BlockDigest[:4], b.Proposal.EncodingDigest[:4], b.Proposal.OriginalPeriod, b.Proposal.OriginalProposer[:4])}
	var vs, ps []string
	for _, v := range b.Votes {
		vs = append(vs, fmt.Sprintf("%x", v.Sender[:4]))
	}
	for _, p := range b.EquivocationVotes {
		ps = append(ps, fmt.Sprintf("%x(%x|%x)", p.Sender[:4], p.Proposals[0].BlockDigest[:3], p.Proposals[1].BlockDigest[:3]))
	}
	d["vote_senders"] = vs
	d["pair_senders"] = ps
	return d
}

func c04Eval(c *kit.Ctx, avv *AsyncVoteVerifier, cs *c04Case, in c04Input, st *c04Stats) {
	stepName := c04StepName(in.b.Step)
	var refOK bool
	var refWhy string
	if in.blk != nil {
		refOK, refWhy = c04RefCert(in.l, Certificate(in.b), *in.blk, cs.memo)
	} else {
		refOK, refWhy, _ = c04RefBundle(in.l, in.b, cs.memo)
	}
	var err error
	witness := func() map[string]any {
		w := map[string]any{"case": cs.idx, "operator": in.op, "position": in.pos, "bundle": c04Describe(in.b),
			"case_step": c04StepName(cs.step), "threshold": cs.thresh, "reference": refWhy, "as_certificate": in.blk != nil,
			"replay": fmt.Sprintf("VERIF_SEED=%d: case %d is generated from c.Rand(4,%d); operator %q at position %d", c.Seed, cs.idx, cs.idx, in.op, in.pos)}
		var ws []uint64
		for _, it := range cs.items {
			ws = append(ws, it.weight)
		}
		w["selected_weights"] = ws
		if err != nil {
			w["real_error"] = err.Error()
		}
		return w
	}
	if c.Guard("bundle-verify", map[string]any{"case": cs.idx, "operator": in.op, "position": in.pos}, func() {
		if in.blk != nil {
			err = Certificate(in.b).Authenticate(*in.blk, in.l, avv)
		} else {
			_, err = in.b.verify(context.Background(), in.l, avv)
		}
	}) {
		return
	}
	realOK := err == nil
	c.Eval(1)
	c.Count("inputs", 1)
	c.Count("op."+in.op, 1)
	verdict := "reject"
	if realOK {
		verdict = "accept"
		c.Count("accepted", 1)
		c.Count("accepted."+stepName, 1)
		c.Count("op_accepted."+in.op, 1)
	} else {
		c.Count("rejected", 1)
		if !strings.HasPrefix(in.op, "subset") && !strings.HasPrefix(in.op, "valid") {
			c.Count("mutants_rejected", 1)
		}
	}
	if in.blk != nil {
		c.Count("certificate_inputs", 1)
	}
	if len(in.b.EquivocationVotes) > 0 {
		c.Count("inputs_with_pairs", 1)
	}
	c.Distinct(in.op + "|" + stepName + "|" + verdict)
	switch {
	case realOK && !refOK:
		c.Violation("accepts-"+in.op, witness())
	case !realOK && refOK:
		if strings.HasPrefix(in.op, "oversize") && strings.Contains(err.Error(), "bundle too large") {
			c.Count("size_bound_rejections_of_quorum_proofs", 1)
			return
		}
		c.Count("completeness_discrepancies", 1)
		c.Observation("completeness discrepancy (real rejects, reference accepts): case %d op %s pos %d: %v", cs.idx, in.op, in.pos, err)
	}
	// per-vote level: every distinct vote of the input through unauthenticatedVote.verify
	c04EvalVotes(c, cs, in)
}

func c04EvalVotes(c *kit.Ctx, cs *c04Case, in c04Input) {
	check := func(rv rawVote, cred committee.UnauthenticatedCredential, sig crypto.OneTimeSignature) {
		key := c04VoteKey{lid: in.l.id, rv: rv, pf: cred.Proof, sig: sig, real: true}
		if _, done := cs.memo[key]; done {
			return
		}
		cs.memo[key] = c04VoteVerdict{}
		ref := c04RefVote(in.l, rv, cred, sig, cs.memo)
		var v vote
		var err error
		if c.Guard("vote-verify", map[string]any{"case": cs.idx, "operator": in.op}, func() {
			v, err = unauthenticatedVote{R: rv, Cred: cred, Sig: sig}.verify(in.l)
		}) {
			return
		}
		c.Eval(1)
		c.Count("single_votes", 1)
		if err == nil {
			c.Count("single_votes_accepted", 1)
		} else {
			c.Count("single_votes_rejected", 1)
		}
		w := map[string]any{"case": cs.idx, "operator": in.op, "vote": fmt.Sprintf("%+v", rv), "reference": ref.why}
		switch {
		case err == nil && !ref.ok:
			c.Violation("vote-accepts-"+in.op, w)
		case err == nil && v.Cred.Weight != ref.weight:
			w["real_weight"], w["reference_weight"] = v.Cred.Weight, ref.weight
			c.Violation("vote-weight", w)
		case err != nil && ref.ok:
			c.Count("completeness_discrepancies", 1)
			c.Observation("completeness discrepancy on a single vote: case %d op %s: %v", cs.idx, in.op, err)
		}
	}
	b := in.b
	for _, v := range b.Votes {
		check(rawVote{Sender: v.Sender, Round: b.Round, Period: b.Period, Step: b.Step, Proposal: b.Proposal}, v.Cred, v.Sig)
	}
	for _, ev := range b.EquivocationVotes {
		for k := 0; k < 2; k++ {
			check(rawVote{Sender: ev.Sender, Round: b.Round, Period: b.Period, Step: b.Step, Proposal: ev.Proposals[k]}, ev.Cred, ev.Sigs[k])
		}
	}
}

func TestVerifC04Mutations(t *testing.T) {
	c := kit.Start(t, "C04", "mutations")
	defer c.Finish()
	c04Setup()
	c.Rule("per case a fresh committee (PRNG-derived keys, one of 4 stake profiles, 12 staked + 2 unstaked accounts, committee sizes 20-40, thresholds 12-26) votes with real one-time signatures and VRF credentials for a PRNG-chosen (round, period, step in soft/cert/next/next+k/late/redo/down, value); inputs = vote/pair subsets of every weight in threshold-3..threshold+3, and ~60 mutation operators applied at every position of a quorum bundle and of a just-below-quorum bundle; each input goes through the real verify/Authenticate and the reference checker; distinct = (operator, step, real verdict) triples seen")
	c.Assume("trusted: the ed25519/VRF primitives and committee.UnauthenticatedCredential.Verify (sortition), which the reference calls too; the reference checker (~120 lines)")
	c.Assume("the consensus version used has small committee sizes; everything else equals the current version")
	avv := MakeAsyncVoteVerifier(nil)
	defer avv.Quit()
	ncases := c.N(60, 3000)
	if c.Lane == "asan" { // same cases, fewer of them: the sanitizer build is several times slower
		ncases = c.N(20, 800)
	}
	st := &c04Stats{}
	scratch := c.Scratch("cases")
	defer os.RemoveAll(scratch)
	workers := 6
	var wg sync.WaitGroup
	next := make(chan int, workers)
	for w := 0; w < workers; w++ {
		wg.Add(1)
		go func(w int) {
			defer wg.Done()
			for i := range next {
				if c.Violations() > 20 {
					continue
				}
				// the case index survives a process crash (sanitizer, fatal error) as the witness
				os.WriteFile(filepath.Join(scratch, fmt.Sprintf("worker%d.current-case", w)), []byte(fmt.Sprintf("C04 seed %d case %d\n", c.Seed, i)), 0o644)
				r := c.Rand(4, uint64(i))
				wide := i%12 == 11
				cs := c04MakeCase(c, i, r, wide)
				var ins []c04Input
				if wide {
					ins = cs.oversizeInputs()
				} else {
					ins = cs.inputs()
				}
				c.Count("cases", 1)
				c.Max("max_selected_voters", int64(len(cs.items)))
				for _, in := range ins {
					c04Eval(c, avv, cs, in, st)
				}
				if i < 4 {
					var ws []uint64
					for _, it := range cs.items {
						ws = append(ws, it.weight)
					}
					sort.Slice(ws, func(a, b int) bool { return ws[a] > ws[b] })
					c.Sample(map[string]any{"case": i, "step": c04StepName(cs.step), "round": uint64(cs.round), "period": uint64(cs.period),
						"threshold": cs.thresh, "selected_weights": ws, "inputs": len(ins), "value_is_bottom": cs.value == bottom})
				}
			}
		}(w)
	}
	for i := 0; i < ncases; i++ {
		next <- i
	}
	close(next)
	wg.Wait()
	c.Require("inputs", int64(ncases*100))
	c.Require("accepted", 100)
	c.Require("mutants_rejected", 1000)
	c.Require("certificate_inputs", 50)
	c.Require("inputs_with_pairs", 100)
	c.Require("op.duplicate-voter-below", 10)
	c.Require("op.voter-as-vote-and-pair-below", 10)
	c.Require("size_bound_rejections_of_quorum_proofs", 1)
	if n := c.Counter("completeness_discrepancies"); n > 0 {
		fmt.Printf("OBSERVATION property=C04 completeness discrepancies (real rejects what the reference accepts): %d\n", n)
	}
}
