package agreement

// C06: for any sequence of accepted votes of one step, the voteTracker signals a quorum at most
// once, exactly when some value's weight (each equivocator counted once for every value) first
// reaches the step threshold; duplicates never add weight; the emitted bundle proves the quorum.
//
// Oracle: a reference tally (c06Model, ~60 lines): the first value of a sender is its direct vote;
// a second, different value turns the sender into an equivocator whose weight leaves its first
// value and counts once toward every value; anything later from that sender, and any repeated
// vote, changes nothing. The model emits at the first index at which some value that still has a
// direct voter has direct weight + equivocator weight >= threshold, and never again. After every
// vote the real tracker's event (type, round, period, step, value), its per-value count(), its
// numbers of direct voters / equivocators and its equivocator weight are compared with the
// model's; an emitted bundle is checked structurally against the votes that were fed (synthetic
// votes) or through the real verify and the C04 reference checker (real signed votes).
//
// The property's own assumption (the code deliberately panics outside it): the equivocators'
// weight stays below the threshold and no two values reach the threshold. The model evaluates a
// vote before it is fed; a vote that would leave the assumption ends the sequence and is not
// fed. A panic of the tracker inside the assumption is a violation.

import (
	"context"
	"fmt"
	"io"
	"runtime/debug"
	"sort"
	"strings"
	"sync"
	"testing"

	"github.com/algorand/go-algorand/config"
	"github.com/algorand/go-algorand/crypto"
	"github.com/algorand/go-algorand/data/basics"
	"github.com/algorand/go-algorand/data/committee"
	"github.com/algorand/go-algorand/logging"
	"github.com/algorand/go-algorand/protocol"
	"verif.local/kit"
)

// ---------------------------------------------------------------------------------------
// reference tally

type c06Model struct {
	T       uint64
	first   map[int]int    // direct voters: sender -> value
	second  map[int]int    // equivocators: sender -> second value
	old     map[int]int    // equivocators: sender -> first value
	direct  map[int]uint64 // value -> weight of direct voters
	nDirect map[int]int    // value -> number of direct voters
	E       uint64         // weight of equivocators
	emitted bool
}

func c06NewModel(T uint64) *c06Model {
	return &c06Model{T: T, first: map[int]int{}, second: map[int]int{}, old: map[int]int{}, direct: map[int]uint64{}, nDirect: map[int]int{}}
}

// over lists the values with a direct voter whose tally reaches the threshold.
func (m *c06Model) over() []int {
	var res []int
	for v, n := range m.nDirect {
		if n > 0 && m.direct[v]+m.E >= m.T {
			res = append(res, v)
		}
	}
	sort.Ints(res)
	return res
}

// peek reports whether feeding (s, v, w) would leave the property's assumption.
func (m *c06Model) peek(s, v int, w uint64) (outside bool) {
	if _, eq := m.second[s]; eq {
		return false
	}
	fv, voted := m.first[s]
	if voted && fv == v {
		return false
	}
	E := m.E
	if voted {
		E += w
	}
	if E >= m.T {
		return true
	}
	// tallies after the vote differ from the current ones only at fv (loses w and a voter) or at v (gains them)
	n := 0
	sawV := false
	for val, k := range m.nDirect {
		d := m.direct[val]
		switch {
		case voted && val == fv:
			k--
			d -= w
		case !voted && val == v:
			k++
			d += w
			sawV = true
		}
		if k > 0 && d+E >= m.T {
			n++
		}
	}
	if !voted && !sawV && w+E >= m.T {
		n++
	}
	return n >= 2
}

// apply feeds a vote; emit is the value for which the quorum is signalled at this index (ok=false: none).
func (m *c06Model) apply(s, v int, w uint64) (emit int, ok bool, kind string) {
	if _, eq := m.second[s]; eq {
		return 0, false, "from-equivocator"
	}
	if fv, voted := m.first[s]; voted {
		if fv == v {
			return 0, false, "duplicate"
		}
		delete(m.first, s)
		m.old[s], m.second[s] = fv, v
		m.direct[fv] -= w
		m.nDirect[fv]--
		m.E += w
		kind = "equivocation"
	} else {
		m.first[s] = v
		m.direct[v] += w
		m.nDirect[v]++
		kind = "first"
	}
	if m.emitted {
		return 0, false, kind
	}
	if ov := m.over(); len(ov) == 1 {
		m.emitted = true
		return ov[0], true, kind
	}
	return 0, false, kind
}

func (m *c06Model) shape() string {
	var ds []string
	for v, n := range m.nDirect {
		if n > 0 {
			ds = append(ds, fmt.Sprintf("%d:%d", n, m.direct[v]))
		}
	}
	sort.Strings(ds)
	return fmt.Sprintf("%v|E%d/%d|em%v", ds, len(m.second), m.E, m.emitted)
}

// ---------------------------------------------------------------------------------------
// driving the real tracker

type c06Universe struct {
	proto   protocol.ConsensusVersion
	round   basics.Round
	period  period
	step    step
	T       uint64
	senders []basics.Address
	weights []uint64
	values  []proposalValue
	// votes[s][v]: the vote of sender s for value v (synthetic: marker signature/credential; real: verified vote)
	votes [][]vote
}

func c06SyntheticUniverse(ver protocol.ConsensusVersion, s step, weights []uint64, nValues int, withBottom bool) *c06Universe {
	u := &c06Universe{proto: ver, round: 7, period: 2, step: s, weights: weights}
	u.T, _, _ = c04Threshold(config.Consensus[ver], s)
	for i := range weights {
		var a basics.Address
		a[0], a[1], a[31] = 0xA0, byte(i), byte(i*37+1)
		u.senders = append(u.senders, a)
	}
	for v := 0; v < nValues; v++ {
		var pv proposalValue
		if !(withBottom && v == 0) {
			pv.BlockDigest[0], pv.BlockDigest[1] = 0xD0, byte(v)
			pv.EncodingDigest[0], pv.EncodingDigest[5] = 0xE0, byte(v)
			pv.OriginalProposer = u.senders[v%len(u.senders)]
		}
		u.values = append(u.values, pv)
	}
	u.votes = make([][]vote, len(weights))
	for si := range weights {
		for vi := range u.values {
			var sig crypto.OneTimeSignature
			sig.Sig[0], sig.Sig[1], sig.Sig[2] = 0x51, byte(si), byte(vi)
			var cred committee.Credential
			cred.Weight = weights[si]
			cred.Proof[0], cred.Proof[1] = 0xC0, byte(si)
			u.votes[si] = append(u.votes[si], vote{
				R:    rawVote{Sender: u.senders[si], Round: u.round, Period: u.period, Step: s, Proposal: u.values[vi]},
				Cred: cred, Sig: sig})
		}
	}
	return u
}

type c06Runner struct {
	u       *c06Universe
	tr      *voteTracker
	lst     listener
	rh      routerHandle
	m       *c06Model
	emitIdx int
	fed     int
	kind    string // how the reference classified the last vote
}

var c06Log = func() logging.Logger {
	l := logging.NewLogger()
	l.SetOutput(io.Discard)
	l.SetLevel(logging.Error)
	return l
}()

func c06NewRunner(u *c06Universe) *c06Runner {
	tr := new(voteTracker)
	// wrapped exactly as stepRouter.update does, so the tracker's own contract is checked as well
	lst := checkedListener{listener: tr, listenerContract: new(voteTrackerContract)}
	return &c06Runner{u: u, tr: tr, lst: lst, m: c06NewModel(u.T), emitIdx: -1,
		rh: routerHandle{t: &tracer{log: serviceLogger{c06Log}}, src: voteMachineStep}}
}

// feed gives (sender, value) to tracker and model and compares; check=false only replays (prefix already checked).
// It returns a finding key and message, or "" if all is well.
func (rn *c06Runner) feed(si, vi int, check bool, bundleCheck func(b unauthenticatedBundle, value proposalValue, m *c06Model) string) (string, string) {
	u := rn.u
	v := u.votes[si][vi]
	w := v.Cred.Weight
	out := rn.lst.handle(rn.rh, player{}, voteAcceptedEvent{Vote: v, Proto: u.proto})
	emitV, emit, kind := rn.m.apply(si, vi, w)
	rn.kind = kind
	idx := rn.fed
	rn.fed++
	if !check {
		return "", ""
	}
	te, ok := out.(thresholdEvent)
	if !ok {
		return "event-type", fmt.Sprintf("index %d: tracker returned %T", idx, out)
	}
	if (te.T != none) != emit {
		if emit {
			return "missing-threshold", fmt.Sprintf("index %d (%s): reference signals a quorum for value %d here, tracker returned none", idx, kind, emitV)
		}
		if rn.m.emitted && rn.emitIdx >= 0 {
			return "second-threshold", fmt.Sprintf("index %d (%s): tracker signals %v again (first signalled at index %d)", idx, kind, te.T, rn.emitIdx)
		}
		return "extra-threshold", fmt.Sprintf("index %d (%s): tracker signals %v for %v, reference tally has no value at the threshold", idx, kind, te.T, te.Proposal.BlockDigest)
	}
	if emit {
		rn.emitIdx = idx
		want := nextThreshold
		if u.step == soft {
			want = softThreshold
		} else if u.step == cert {
			want = certThreshold
		}
		if te.T != want || te.Round != u.round || te.Period != u.period || te.Step != u.step {
			return "threshold-fields", fmt.Sprintf("index %d: event %v (%d,%d,%d), expected %v (%d,%d,%d)", idx, te.T, te.Round, te.Period, te.Step, want, u.round, u.period, u.step)
		}
		if te.Proposal != u.values[emitV] {
			return "wrong-value", fmt.Sprintf("index %d: tracker signals value %x, reference tally says value #%d %x", idx, te.Proposal.BlockDigest[:4], emitV, u.values[emitV].BlockDigest[:4])
		}
		if msg := bundleCheck(te.Bundle, u.values[emitV], rn.m); msg != "" {
			return "bundle-not-a-quorum-proof", fmt.Sprintf("index %d: %s", idx, msg)
		}
	}
	// tallies: duplicates add nothing, an equivocator counts once for every value
	for val := range u.values {
		got, want := rn.tr.count(u.values[val]), rn.m.direct[val]+rn.m.E
		if got != want {
			return "tally-" + kind, fmt.Sprintf("index %d (%s): count(value #%d) = %d, reference tally %d (direct %d + equivocators %d)", idx, kind, val, got, want, rn.m.direct[val], rn.m.E)
		}
	}
	if len(rn.tr.Voters) != len(rn.m.first) || len(rn.tr.Equivocators) != len(rn.m.second) || rn.tr.EquivocatorsCount != rn.m.E {
		return "tally-" + kind, fmt.Sprintf("index %d (%s): voters/equivocators/equivocator weight = %d/%d/%d, reference %d/%d/%d", idx, kind,
			len(rn.tr.Voters), len(rn.tr.Equivocators), rn.tr.EquivocatorsCount, len(rn.m.first), len(rn.m.second), rn.m.E)
	}
	return "", ""
}

// c06StructuralBundleCheck: the bundle is a quorum proof built from the votes that were fed.
func (u *c06Universe) structuralBundleCheck(b unauthenticatedBundle, value proposalValue, m *c06Model) string {
	if b.Round != u.round || b.Period != u.period || b.Step != u.step {
		return fmt.Sprintf("bundle is for (%d,%d,%d), votes were for (%d,%d,%d)", b.Round, b.Period, b.Step, u.round, u.period, u.step)
	}
	if b.Proposal != value {
		return "bundle value differs from the signalled value"
	}
	idx := map[basics.Address]int{}
	for i, a := range u.senders {
		idx[a] = i
	}
	valIdx := func(pv proposalValue) int {
		for i, x := range u.values {
			if x == pv {
				return i
			}
		}
		return -1
	}
	seen := map[basics.Address]bool{}
	var weight uint64
	for i, va := range b.Votes {
		si, known := idx[va.Sender]
		if !known || seen[va.Sender] {
			return fmt.Sprintf("vote %d: unknown or repeated sender", i)
		}
		seen[va.Sender] = true
		fv, direct := m.first[si]
		if !direct || u.values[fv] != value {
			return fmt.Sprintf("vote %d: sender #%d is not a direct voter of the signalled value", i, si)
		}
		fed := u.votes[si][fv]
		if va.Sig != fed.Sig || va.Cred != fed.Cred.UnauthenticatedCredential {
			return fmt.Sprintf("vote %d: signature/credential are not those of sender #%d's vote for this value", i, si)
		}
		weight += fed.Cred.Weight
	}
	for i, ev := range b.EquivocationVotes {
		si, known := idx[ev.Sender]
		if !known || seen[ev.Sender] {
			return fmt.Sprintf("pair %d: unknown or repeated sender", i)
		}
		seen[ev.Sender] = true
		if _, eq := m.second[si]; !eq {
			return fmt.Sprintf("pair %d: sender #%d did not equivocate", i, si)
		}
		if ev.Proposals[0] == ev.Proposals[1] {
			return fmt.Sprintf("pair %d: identical values", i)
		}
		for k := 0; k < 2; k++ {
			vi := valIdx(ev.Proposals[k])
			if vi < 0 || (vi != m.old[si] && vi != m.second[si]) {
				return fmt.Sprintf("pair %d: value %d was never voted by sender #%d", i, k, si)
			}
			fed := u.votes[si][vi]
			if ev.Sigs[k] != fed.Sig || ev.Cred != fed.Cred.UnauthenticatedCredential {
				return fmt.Sprintf("pair %d: signature/credential %d are not those of the sender's vote", i, k)
			}
		}
		weight += u.votes[si][0].Cred.Weight
	}
	if weight < u.T {
		return fmt.Sprintf("bundle weight %d below threshold %d", weight, u.T)
	}
	return ""
}

type c06Sym struct{ S, V int }

// c06Guard is kit.Guard with a lazily built witness (the enumeration visits millions of nodes).
func c06Guard(c *kit.Ctx, input func() map[string]any, f func()) (panicked bool) {
	defer func() {
		if r := recover(); r != nil {
			panicked = true
			c.Violation("panic:tracker", map[string]any{"panic": fmt.Sprint(r), "input": input(), "stack": string(debug.Stack())})
		}
	}()
	f()
	return false
}

func c06SeqString(seq []c06Sym) string {
	var sb strings.Builder
	for i, s := range seq {
		if i > 0 {
			sb.WriteByte(' ')
		}
		fmt.Fprintf(&sb, "s%d>v%d", s.S, s.V)
	}
	return sb.String()
}

// c06Replay runs a whole sequence with checks; used for witnesses and shrinking.
func c06Replay(u *c06Universe, seq []c06Sym, bundleCheck func(unauthenticatedBundle, proposalValue, *c06Model) string) (fk, msg string) {
	defer func() {
		if r := recover(); r != nil {
			fk, msg = "panic:tracker", fmt.Sprint(r)
		}
	}()
	rn := c06NewRunner(u)
	for _, s := range seq {
		if rn.m.peek(s.S, s.V, u.weights[s.S]) {
			return "", ""
		}
		if fk, msg = rn.feed(s.S, s.V, true, bundleCheck); fk != "" {
			return fk, msg
		}
	}
	return "", ""
}

func c06Report(c *kit.Ctx, u *c06Universe, cfgName string, seq []c06Sym, fk, msg string, bundleCheck func(unauthenticatedBundle, proposalValue, *c06Model) string) {
	small := kit.Shrink(seq, 2000, func(s []c06Sym) bool { k, _ := c06Replay(u, s, bundleCheck); return k == fk })
	_, smsg := c06Replay(u, small, bundleCheck)
	c.Violation(fk, map[string]any{"config": cfgName, "step": c04StepName(u.step), "threshold": u.T, "weights": u.weights,
		"sequence": c06SeqString(seq), "message": msg, "minimised_sequence": c06SeqString(small), "minimised_message": smsg,
		"legend": "sN>vM = sender N votes value M; v0 is bottom in configurations named *-bot"})
}

// ---------------------------------------------------------------------------------------
// exhaustive part

type c06Cfg struct {
	maxLen  int
	name    string
	step    step
	weights func(T uint64) []uint64
	bottom  bool
}

func c06Div(T uint64, k uint64) uint64 { return (T + k - 1) / k }

func c06Configs(quick bool) []c06Cfg {
	maxLen := 6
	if quick {
		maxLen = 4
	}
	ws := []struct {
		n string
		f func(T uint64) []uint64
	}{
		{"halves", func(T uint64) []uint64 { h := c06Div(T, 2); return []uint64{h, h, h, h} }},                  // 2nd distinct voter crosses
		{"thirds", func(T uint64) []uint64 { h := c06Div(T, 3); return []uint64{h, h, h, h} }},                  // 3rd crosses
		{"quarters", func(T uint64) []uint64 { h := c06Div(T, 4); return []uint64{h, h, h, h} }},                // 4th crosses
		{"big-plus-one", func(T uint64) []uint64 { return []uint64{T - 1, 1, 1, 1} }},                            // whale + anyone
		{"mixed", func(T uint64) []uint64 { return []uint64{T / 2, T/3 + 1, T/6 + 1, 1} }},                       // exact-threshold sums
		{"exact", func(T uint64) []uint64 { return []uint64{T - 2, 1, 1, 1} }},                                   // reaches T exactly with 3
		{"one-short", func(T uint64) []uint64 { h := c06Div(T, 3); return []uint64{h, h, T - 2*h - 1 + 0, 1} }}, // 3 voters: T-1, 4th makes exactly T
	}
	type stepCfg struct {
		s   step
		bot bool
		len int
	}
	steps := []stepCfg{{soft, false, maxLen}, {next, true, maxLen}}
	if !quick { // the other step types differ only in threshold and event type: one level shallower
		steps = append(steps, stepCfg{cert, false, maxLen - 1}, stepCfg{down, true, maxLen - 1})
	}
	var out []c06Cfg
	for _, st := range steps {
		for _, w := range ws {
			n := c04StepName(st.s) + "/" + w.n
			if st.bot {
				n += "-bot"
			}
			out = append(out, c06Cfg{name: n, step: st.s, weights: w.f, bottom: st.bot, maxLen: st.len})
		}
	}
	return out
}

type c06Local struct {
	evals, nodes, pruned, emissions, emitByEquiv, dups, equivs, fromEq int64
	byStep                                                          map[string]int64
	distinct                                                        map[string]struct{}
}

func TestVerifC06Exhaustive(t *testing.T) {
	c := kit.Start(t, "C06", "exhaustive")
	defer c.Finish()
	maxLen := c.N(4, 6)
	c.Rule(fmt.Sprintf("all sequences (with repeats) up to length %d (cert/down in the thorough tier: one less) over 4 senders x 3 values (12 symbols) of synthetic struct-level votes fed to a fresh voteTracker (wrapped in its contract checker), under 7 weight assignments (threshold crossed by the 2nd, 3rd, 4th voter, by a whale plus anyone, exactly, and by an equivocator) and steps soft/next (thorough also cert/down; value 0 is bottom for next/down); a branch ends where the next vote would leave the tracker's assumption (equivocator weight >= threshold or two values at the threshold); distinct = (configuration, final tally shape)", maxLen))
	c.Assume("votes are struct-level (no cryptography): the tracker does not look at signatures; weights are per sender")
	cfgs := c06Configs(c.Quick())
	type task struct {
		cfg    c06Cfg
		prefix []c06Sym
	}
	var tasks []task
	const nS, nV = 4, 3
	for _, cf := range cfgs {
		for a := 0; a < nS*nV; a++ {
			for b := 0; b < nS*nV; b++ {
				tasks = append(tasks, task{cf, []c06Sym{{a / nV, a % nV}, {b / nV, b % nV}}})
			}
		}
		// the length-1 nodes
		for a := 0; a < nS*nV; a++ {
			tasks = append(tasks, task{cf, []c06Sym{{a / nV, a % nV}}})
		}
	}
	var mu sync.Mutex
	total := c06Local{byStep: map[string]int64{}, distinct: map[string]struct{}{}}
	var wg sync.WaitGroup
	ch := make(chan task, 64)
	for w := 0; w < 16; w++ {
		wg.Add(1)
		go func() {
			defer wg.Done()
			for tk := range ch {
				if c.Violations() > 20 {
					continue
				}
				lc := c06Local{byStep: map[string]int64{}, distinct: map[string]struct{}{}}
				u := c06SyntheticUniverse(protocol.ConsensusCurrentVersion, tk.cfg.step, tk.cfg.weights(mustT(tk.cfg.step)), nV, tk.cfg.bottom)
				seq := append([]c06Sym(nil), tk.prefix...)
				limit := tk.cfg.maxLen
				if len(tk.prefix) == 1 {
					limit = 1 // only the node itself
				}
				c06DFS(c, u, tk.cfg.name, seq, limit, &lc, len(tk.prefix) == 2)
				mu.Lock()
				total.evals += lc.evals
				total.nodes += lc.nodes
				total.pruned += lc.pruned
				total.emissions += lc.emissions
				total.emitByEquiv += lc.emitByEquiv
				total.dups += lc.dups
				total.equivs += lc.equivs
				total.fromEq += lc.fromEq
				for k, v := range lc.byStep {
					total.byStep[k] += v
				}
				for k := range lc.distinct {
					total.distinct[k] = struct{}{}
				}
				mu.Unlock()
			}
		}()
	}
	for _, tk := range tasks {
		ch <- tk
	}
	close(ch)
	wg.Wait()
	c.Eval(int(total.evals))
	c.Count("sequences", int(total.nodes))
	c.Count("branches_cut_at_assumption", int(total.pruned))
	c.Count("threshold_emissions", int(total.emissions))
	c.Count("quorum_completed_by_equivocation", int(total.emitByEquiv))
	c.Count("duplicate_votes_fed", int(total.dups))
	c.Count("equivocations_fed", int(total.equivs))
	c.Count("votes_from_known_equivocators_fed", int(total.fromEq))
	for k, v := range total.byStep {
		c.Count("emissions."+k, int(v))
	}
	for k := range total.distinct {
		c.Distinct(k)
	}
	if c.Violations() == 0 {
		c.Exhaustive()
	}
	c.Sample(map[string]any{"senders": nS, "values": nV, "max_len": maxLen, "configurations": len(cfgs), "example_weights_soft_mixed": c06Configs(true)[4].weights(mustT(soft)), "soft_threshold": mustT(soft)})
	c.Require("sequences", int64(c.N(100000, 30000000)))
	c.Require("threshold_emissions", 1000)
	c.Require("quorum_completed_by_equivocation", 50)
	c.Require("duplicate_votes_fed", 1000)
	c.Require("equivocations_fed", 1000)
	c.Require("branches_cut_at_assumption", 10)
}

func mustT(s step) uint64 {
	T, _, _ := c04Threshold(config.Consensus[protocol.ConsensusCurrentVersion], s)
	return T
}

// c06DFS checks the node seq (its last vote; the prefix was checked by the parent node) and descends.
// checkAll: this node is the root of a task, its whole prefix is checked here.
func c06DFS(c *kit.Ctx, u *c06Universe, cfgName string, seq []c06Sym, maxLen int, lc *c06Local, checkAll bool) {
	var fk, msg string
	var outside bool
	var rn *c06Runner
	panicked := c06Guard(c, func() map[string]any {
		return map[string]any{"config": cfgName, "weights": u.weights, "threshold": u.T, "sequence": c06SeqString(seq)}
	}, func() {
		rn = c06NewRunner(u)
		for i, s := range seq {
			last := i == len(seq)-1
			if rn.m.peek(s.S, s.V, u.weights[s.S]) {
				outside = true
				return
			}
			was := rn.m.emitted
			if fk, msg = rn.feed(s.S, s.V, last || checkAll, u.structuralBundleCheck); fk != "" {
				return
			}
			if last {
				lc.evals++
				lc.nodes++
				_, isEq := rn.m.second[s.S]
				switch {
				case !was && rn.m.emitted:
					lc.emissions++
					lc.byStep[c04StepName(u.step)]++
					if isEq {
						lc.emitByEquiv++
					}
				}
			}
		}
	})
	if panicked {
		return
	}
	if outside {
		lc.pruned++
		return
	}
	if fk != "" {
		c06Report(c, u, cfgName, seq, fk, msg, u.structuralBundleCheck)
		return
	}
	switch rn.kind { // how the reference classified the last vote (evidence only)
	case "duplicate":
		lc.dups++
	case "equivocation":
		lc.equivs++
	case "from-equivocator":
		lc.fromEq++
	}
	if len(seq) >= maxLen {
		lc.distinct[cfgName+"|"+rn.m.shape()] = struct{}{}
		return
	}
	for a := 0; a < len(u.senders)*len(u.values); a++ {
		if c.Violations() > 20 {
			return
		}
		next := append(seq, c06Sym{a / len(u.values), a % len(u.values)})
		c06DFS(c, u, cfgName, next, maxLen, lc, false)
	}
}

// ---------------------------------------------------------------------------------------
// random long sequences (synthetic) and real signed votes

func TestVerifC06Random(t *testing.T) {
	c := kit.Start(t, "C06", "random")
	defer c.Finish()
	c04Setup()
	c.Rule("(a) random sequences of 20-120 synthetic votes over 9 senders x 4 values with PRNG weights, all step types, duplicates and up to 3 equivocators; (b) sequences of real signed votes (fresh small committee per case, votes verified by unauthenticatedVote.verify) with duplicates and equivocators, where the emitted bundle must pass the real unauthenticatedBundle.verify and the C04 reference quorum checker; distinct = (step, final tally shape)")
	c.Assume("the C04 reference quorum checker (verif_c04_test.go) and the crypto primitives it calls")
	// (a)
	nseq := c.N(3000, 150000)
	allSteps := []step{soft, cert, next, next + 1, next + 4, late, redo, down}
	for i := 0; i < nseq && c.Violations() <= 20; i++ {
		r := c.Rand(6, uint64(i))
		st := allSteps[r.Intn(len(allSteps))]
		T := mustT(st)
		nS := 9
		weights := make([]uint64, nS)
		mode := r.Intn(3)
		for k := range weights {
			switch mode {
			case 0:
				weights[k] = c06Div(T, uint64(r.Range(3, 7)))
			case 1:
				weights[k] = uint64(r.Range(1, int(T/3)))
			default:
				weights[k] = []uint64{1, 2, T / 5, T / 4, T / 2}[r.Intn(5)]
			}
			if weights[k] == 0 {
				weights[k] = 1
			}
		}
		withBottom := st >= next
		u := c06SyntheticUniverse(protocol.ConsensusCurrentVersion, st, weights, 4, withBottom)
		n := r.Range(20, 120)
		favourite := r.Intn(4)
		eqs := map[int]bool{}
		for k := 0; k < r.Intn(4); k++ {
			eqs[r.Intn(nS)] = true
		}
		choice := map[int]int{}
		var seq []c06Sym
		for k := 0; k < n; k++ {
			s := r.Intn(nS)
			v, has := choice[s]
			if !has || (eqs[s] && r.Chance(1, 3)) {
				v = favourite
				if r.Chance(1, 4) {
					v = r.Intn(4)
				}
				if !has {
					choice[s] = v
				}
			}
			seq = append(seq, c06Sym{s, v})
		}
		var fk, msg string
		var rn *c06Runner
		cut := -1
		panicked := c.Guard("tracker", map[string]any{"case": i, "weights": weights, "threshold": T, "sequence": c06SeqString(seq)}, func() {
			rn = c06NewRunner(u)
			for k, s := range seq {
				if rn.m.peek(s.S, s.V, weights[s.S]) {
					cut = k
					return
				}
				was := rn.m.emitted
				if fk, msg = rn.feed(s.S, s.V, true, u.structuralBundleCheck); fk != "" {
					return
				}
				c.Eval(1)
				c.Count("votes_fed", 1)
				if !was && rn.m.emitted {
					c.Count("threshold_emissions", 1)
					c.Count("emissions."+c04StepName(st), 1)
					if _, isEq := rn.m.second[s.S]; isEq {
						c.Count("quorum_completed_by_equivocation", 1)
					}
				}
			}
		})
		if panicked {
			continue
		}
		if cut >= 0 {
			c.Count("sequences_cut_at_assumption", 1)
		}
		if fk != "" {
			c06Report(c, u, fmt.Sprintf("random#%d", i), seq, fk, msg, u.structuralBundleCheck)
			continue
		}
		c.Count("sequences", 1)
		c.Count("equivocators_seen", len(rn.m.second))
		if i < 2 {
			c.Sample(map[string]any{"synthetic_case": i, "step": c04StepName(st), "threshold": T, "weights": weights, "votes": len(seq), "first_votes": c06SeqString(seq[:12]),
				"emitted_at": rn.emitIdx, "equivocators": len(rn.m.second), "cut_at_assumption": cut})
		}
		c.Distinct(c04StepName(st) + "|" + rn.m.shape())
	}
	// (b)
	avv := MakeAsyncVoteVerifier(nil)
	defer avv.Quit()
	nreal := c.N(100, 2000)
	for i := 0; i < nreal && c.Violations() <= 20; i++ {
		c06RealCase(c, avv, i)
	}
	c.Require("sequences", int64(c.N(2000, 100000)))
	c.Require("threshold_emissions", 500)
	c.Require("quorum_completed_by_equivocation", 5)
	c.Require("real_sequences", int64(c.N(80, 1500)))
	c.Require("real_bundles_verified", int64(c.N(40, 800)))
	c.Require("real_bundles_with_pairs", 3)
}

func c06RealCase(c *kit.Ctx, avv *AsyncVoteVerifier, i int) {
	r := c.Rand(7, uint64(i))
	prof := c04Profiles[r.Intn(len(c04Profiles))]
	var stakes []uint64
	for _, j := range r.Perm(len(prof)) {
		stakes = append(stakes, prof[j])
	}
	cm := c04NewCommittee(r, stakes, 20)
	steps := []step{soft, cert, next, next + 2, late, redo, down}
	st := steps[r.Intn(len(steps))]
	u := &c06Universe{proto: c04Version, round: basics.Round(r.Range(3, 14)), period: period(r.Intn(3)), step: st}
	u.T, _, _ = c04Threshold(config.Consensus[c04Version], st)
	vals := []proposalValue{c04RandValue(r, cm.accts[0].addr, 0), c04RandValue(r, cm.accts[1].addr, 0), c04RandValue(r, cm.accts[2].addr, u.period)}
	if st >= next && r.Bool() {
		vals[0] = bottom
	}
	u.values = vals
	memo := c04Memo{}
	var accts []*c04Acct
	for _, a := range cm.accts {
		var row []vote
		okAll := true
		for _, pv := range vals {
			uv := cm.sign(a, rawVote{Sender: a.addr, Round: u.round, Period: u.period, Step: st, Proposal: pv})
			v, err := uv.verify(cm.ledger)
			if err != nil {
				okAll = false
				break
			}
			row = append(row, v)
		}
		if !okAll {
			continue // not selected
		}
		accts = append(accts, a)
		u.senders = append(u.senders, a.addr)
		u.weights = append(u.weights, row[0].Cred.Weight)
		u.votes = append(u.votes, row)
	}
	if len(accts) < 3 {
		return
	}
	// the lightest voters may equivocate (their weight stays far below the threshold)
	order := make([]int, len(accts))
	for k := range order {
		order[k] = k
	}
	sort.SliceStable(order, func(a, b int) bool { return u.weights[order[a]] < u.weights[order[b]] })
	eqs := map[int]bool{}
	for k := 0; k < r.Intn(3) && k < len(order); k++ {
		eqs[order[k]] = true
	}
	var seq []c06Sym
	fav := r.Intn(len(vals))
	for _, s := range r.Perm(len(accts)) {
		v := fav
		if r.Chance(1, 6) {
			v = r.Intn(len(vals))
		}
		seq = append(seq, c06Sym{s, v})
		if eqs[s] {
			seq = append(seq, c06Sym{s, (v + 1 + r.Intn(len(vals)-1)) % len(vals)})
		}
		if r.Chance(1, 4) {
			seq = append(seq, c06Sym{s, v})
		}
	}
	// shuffle lightly: swap a few neighbours so that equivocations interleave
	for k := 0; k < len(seq); k++ {
		a, b := r.Intn(len(seq)), r.Intn(len(seq))
		seq[a], seq[b] = seq[b], seq[a]
	}
	bundleCheck := func(b unauthenticatedBundle, value proposalValue, m *c06Model) string {
		if msg := u.structuralBundleCheck(b, value, m); msg != "" {
			return msg
		}
		if _, err := b.verify(context.Background(), cm.ledger, avv); err != nil {
			return "the real unauthenticatedBundle.verify rejects the emitted bundle: " + err.Error()
		}
		if ok, why, _ := c04RefBundle(cm.ledger, b, memo); !ok {
			return "the reference quorum checker rejects the emitted bundle: " + why
		}
		c.Count("real_bundles_verified", 1)
		if len(b.EquivocationVotes) > 0 {
			c.Count("real_bundles_with_pairs", 1)
		}
		return ""
	}
	var fk, msg string
	var rn *c06Runner
	panicked := c.Guard("tracker", map[string]any{"real_case": i, "weights": u.weights, "threshold": u.T, "sequence": c06SeqString(seq)}, func() {
		rn = c06NewRunner(u)
		for _, s := range seq {
			if rn.m.peek(s.S, s.V, u.weights[s.S]) {
				c.Count("sequences_cut_at_assumption", 1)
				return
			}
			was := rn.m.emitted
			if fk, msg = rn.feed(s.S, s.V, true, bundleCheck); fk != "" {
				return
			}
			c.Eval(1)
			if !was && rn.m.emitted {
				c.Count("threshold_emissions", 1)
				c.Count("emissions.real."+c04StepName(st), 1)
				if _, isEq := rn.m.second[s.S]; isEq {
					c.Count("quorum_completed_by_equivocation", 1)
				}
			}
		}
	})
	if panicked {
		return
	}
	if fk != "" {
		c.Violation(fk, map[string]any{"real_case": i, "replay": fmt.Sprintf("VERIF_SEED=%d: committee and sequence derive from c.Rand(7,%d)", c.Seed, i),
			"step": c04StepName(st), "threshold": u.T, "weights": u.weights, "sequence": c06SeqString(seq), "message": msg})
		return
	}
	c.Count("real_sequences", 1)
	c.Distinct("real|" + c04StepName(st) + "|" + rn.m.shape())
	if i < 3 {
		c.Sample(map[string]any{"real_case": i, "step": c04StepName(st), "threshold": u.T, "weights": u.weights, "sequence": c06SeqString(seq), "emitted_at": rn.emitIdx})
	}
}
