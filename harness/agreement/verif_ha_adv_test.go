package agreement

// HA adversary (DESIGN.md Appendix A, A1-A5): harness-held accounts with real keys and real stake.
// It sees all honest traffic and controls delivery of its own messages.
//
//   echo      (A1/A2) double-proposes (block X to one half of the nodes, block Y to the other half) and then
//             supports, towards each node, exactly the value that node's side voted for: soft/cert/next/
//             fast-recovery votes for different values (and bottom) go to different nodes. Together with the
//             threshold-splitting partitions this is the strongest vote pattern a stake minority has; below
//             the equivocation bound it must not yield two certificates.
//   silence   (A4) as echo, but only towards one chosen node.
//   replay    (A3) stale votes/bundles/payloads of earlier steps, periods and rounds are re-injected.
//   malformed (A5) recorded votes with a changed field (signature then fails) or a foreign credential.
// After the synchrony point the adversary is silent.

import (
	"github.com/algorand/go-algorand/data/basics"
	"github.com/algorand/go-algorand/data/bookkeeping"
	"github.com/algorand/go-algorand/protocol"
)

// haRO turns a ledger into a read-only agreement.Ledger (makeVote wants the full interface).
type haRO struct{ *haLedger }

func (haRO) EnsureBlock(bookkeeping.Block, Certificate)          {}
func (haRO) EnsureValidatedBlock(ValidatedBlock, Certificate)   {}
func (haRO) EnsureDigest(Certificate, *AsyncVoteVerifier)       {}

type haEchoKey struct {
	dst    int
	acct   int
	round  basics.Round
	period period
	step   step
	value  proposalValue
}

type haRP struct {
	round  basics.Round
	period period
}

type haAdv struct {
	run      *haRun
	accs     []*haAccount
	led      haRO
	mode     string
	echoed   map[haEchoKey]bool
	proposed map[haRP]bool
	target   int
	injected int
	equivSent map[haVoteKey]map[proposalValue]bool
}

func haNewAdv(run *haRun) *haAdv {
	a := &haAdv{run: run, led: haRO{run.cl.mon.ref}, mode: run.cs.Adv, echoed: map[haEchoKey]bool{}, proposed: map[haRP]bool{},
		equivSent: map[haVoteKey]map[proposalValue]bool{}}
	for _, acc := range run.cl.accounts {
		if acc.owner == haAdversary {
			a.accs = append(a.accs, acc)
		}
	}
	a.target = run.r.Intn(run.cs.Nodes)
	return a
}

func (a *haAdv) does(what string) bool { return a.mode == what || a.mode == "mix" }

// inject puts an adversary message in front of dst now.
func (a *haAdv) inject(dst int, tag protocol.Tag, data []byte, dup bool) {
	a.run.push(&haPending{at: a.run.cl.Now(), dst: dst, src: haAdversary, tag: tag, data: data, dup: dup})
	a.injected++
	a.run.cl.mon.c.Count("adversary_messages", 1)
}

// vote makes a valid (selected) vote of an adversary account, or ok=false.
func (a *haAdv) vote(acc *haAccount, r basics.Round, p period, s step, v proposalValue) (unauthenticatedVote, bool) {
	if a.led.NextRound() < r { // the adversary's view has not reached round r-1 yet
		return unauthenticatedVote{}, false
	}
	switch s {
	case propose, soft, cert, late, redo:
		if v == bottom {
			return unauthenticatedVote{}, false
		}
	case down:
		if v != bottom {
			return unauthenticatedVote{}, false
		}
	}
	rec := acc.record()
	uv, err := makeVote(rawVote{Sender: acc.addr, Round: r, Period: p, Step: s, Proposal: v}, rec.VotingSigner(), acc.part.VRF, a.led)
	if err != nil {
		return unauthenticatedVote{}, false
	}
	if _, err := uv.verify(a.led); err != nil {
		return unauthenticatedVote{}, false // not selected for this committee
	}
	return uv, true
}

func (a *haAdv) noteEquiv(acc *haAccount, r basics.Round, p period, s step, v proposalValue) {
	k := haVoteKey{acc.addr, r, p, s}
	m := a.equivSent[k]
	if m == nil {
		m = map[proposalValue]bool{}
		a.equivSent[k] = m
	}
	if !m[v] {
		m[v] = true
		if len(m) == 2 {
			a.run.cl.mon.c.Count("adversary_equivocations", 1)
		}
	}
}

// observe sees one honest wire message.
func (a *haAdv) observe(w *haWire) {
	if len(a.accs) == 0 || !(a.does("echo") || a.does("silence") || a.does("pairs")) {
		return
	}
	switch w.tag {
	case protocol.AgreementVoteTag:
		o, err := decodeVote(w.data)
		if err != nil {
			return
		}
		uv := o.(unauthenticatedVote)
		if own, honest := a.run.cl.mon.honestOwner(a.run.cl, uv.R.Sender); !honest || own != w.src {
			return
		}
		if uv.R.Step == propose {
			a.doublePropose(uv.R.Round, uv.R.Period)
			return
		}
		if a.mode == "pairs" {
			a.pairs(uv.R)
			return
		}
		a.echo(w.src, uv.R)
	case protocol.ProposalPayloadTag:
		o, err := decodeProposal(w.data)
		if err != nil {
			return
		}
		cm := o.(compoundMessage)
		if cm.Vote != (unauthenticatedVote{}) {
			a.doublePropose(cm.Vote.R.Round, cm.Vote.R.Period)
		}
	}
}

// echo: support the value that w.src voted for, towards w.src and the nodes on its side.
func (a *haAdv) echo(src int, rv rawVote) {
	run := a.run
	var dsts []int
	if a.mode == "silence" || (a.mode == "mix" && run.r.Chance(1, 4)) {
		if src == a.target {
			dsts = []int{src}
		}
	} else {
		for d := range run.cl.nodes {
			if run.group[d] == run.group[src] {
				dsts = append(dsts, d)
			}
		}
	}
	for _, acc := range a.accs {
		var uv unauthenticatedVote
		made := false
		for _, d := range dsts {
			k := haEchoKey{d, acc.idx, rv.Round, rv.Period, rv.Step, rv.Proposal}
			if a.echoed[k] {
				continue
			}
			a.echoed[k] = true
			if !made {
				var ok bool
				uv, ok = a.vote(acc, rv.Round, rv.Period, rv.Step, rv.Proposal)
				if !ok {
					break
				}
				made = true
				a.noteEquiv(acc, rv.Round, rv.Period, rv.Step, rv.Proposal)
			}
			a.inject(d, protocol.AgreementVoteTag, protocol.Encode(&uv), false)
		}
	}
}

// pairs: towards every node, each adversary account votes for a decoy value and for the value the
// honest nodes vote for (in either order), in the same (round, period, step): every node sees the equivocation, must count the
// weight once for the honest value, and packs the pair into the bundle/certificate when it needs the weight.
func (a *haAdv) pairs(rv rawVote) {
	if rv.Proposal == bottom {
		return
	}
	run := a.run
	decoy := rv.Proposal
	decoy.BlockDigest[0] ^= 0x55
	decoy.EncodingDigest[0] ^= 0x55
	for _, acc := range a.accs {
		k := haEchoKey{-2, acc.idx, rv.Round, rv.Period, rv.Step, rv.Proposal}
		if a.echoed[k] {
			continue
		}
		a.echoed[k] = true
		u1, ok1 := a.vote(acc, rv.Round, rv.Period, rv.Step, decoy)
		u2, ok2 := a.vote(acc, rv.Round, rv.Period, rv.Step, rv.Proposal)
		if !ok1 || !ok2 {
			continue
		}
		a.noteEquiv(acc, rv.Round, rv.Period, rv.Step, decoy)
		a.noteEquiv(acc, rv.Round, rv.Period, rv.Step, rv.Proposal)
		if run.r.Bool() {
			u1, u2 = u2, u1 // real vote first, decoy second
		}
		for d := range run.cl.nodes {
			a.inject(d, protocol.AgreementVoteTag, protocol.Encode(&u1), false)
			a.inject(d, protocol.AgreementVoteTag, protocol.Encode(&u2), false)
		}
	}
}

// doublePropose: every selected adversary account proposes block X to one half and block Y to the other half.
func (a *haAdv) doublePropose(r basics.Round, p period) {
	if a.proposed[haRP{r, p}] || a.led.NextRound() < r {
		return
	}
	a.proposed[haRP{r, p}] = true
	run := a.run
	for _, acc := range a.accs {
		for variant := 0; variant < 2; variant++ {
			blk := testValidatedBlock{Inside: bookkeeping.Block{BlockHeader: bookkeeping.BlockHeader{Round: r, TimeStamp: int64(1000 + variant)}}}
			prop, val, err := proposalForBlock(acc.addr, acc.part.VRF, blk, p, a.led)
			if err != nil {
				return
			}
			uv, ok := a.vote(acc, r, p, propose, val)
			if !ok {
				break // not selected as proposer
			}
			a.noteEquiv(acc, r, p, propose, val)
			tp := transmittedPayload{unauthenticatedProposal: prop.u(), PriorVote: uv}
			data := protocol.Encode(&tp)
			for d := range run.cl.nodes {
				side := run.group[d]
				if run.healed() {
					side = d % 2
				}
				if side%2 == variant {
					a.inject(d, protocol.ProposalPayloadTag, data, false)
				}
			}
		}
	}
}

// tick: replay and malformed traffic.
func (a *haAdv) tick() {
	run := a.run
	if len(run.wireLog) == 0 {
		return
	}
	if a.does("replay") && run.r.Intn(1000) < 60 {
		w := run.wireLog[run.r.Intn(len(run.wireLog))]
		d := run.r.Intn(run.cs.Nodes)
		a.inject(d, w.tag, w.data, true)
		run.cl.sched("REPLAY ->%d %s seq=%d", d, w.tag, w.seq)
		run.cl.mon.c.Count("stale_replays", 1)
	}
	if a.does("malformed") && run.r.Intn(1000) < 40 {
		w := run.wireLog[run.r.Intn(len(run.wireLog))]
		if w.tag != protocol.AgreementVoteTag {
			return
		}
		o, err := decodeVote(w.data)
		if err != nil {
			return
		}
		uv := o.(unauthenticatedVote)
		switch run.r.Intn(5) {
		case 0:
			uv.R.Period++
		case 1:
			uv.R.Step = cert
		case 2:
			uv.R.Proposal.BlockDigest[0] ^= 1
		case 3:
			uv.Sig.Sig[3] ^= 0x40
		case 4:
			// credential of another message
			w2 := run.wireLog[run.r.Intn(len(run.wireLog))]
			if w2.tag == protocol.AgreementVoteTag {
				if o2, err := decodeVote(w2.data); err == nil {
					uv.Cred = o2.(unauthenticatedVote).Cred
				}
			}
		}
		d := run.r.Intn(run.cs.Nodes)
		a.inject(d, protocol.AgreementVoteTag, protocol.Encode(&uv), true)
		run.cl.sched("MALFORMED ->%d", d)
		run.cl.mon.c.Count("malformed_votes_injected", 1)
	}
}
