//go:debug randseednop=0

package msgpall

// C40 / C41 over every msgp-generated type of the consensus/network surface, in ONE test binary.
// The per-package type and bound tables are registered by generated in-package files
// (/verif/harness/<pkg>/verif_c40gen.go, tools/gen_msgp_harness.py, regenerated at check time); the monitor
// logic is in verif.local/kit/msgpmon/mon; this file only binds the production codec API and the id derivations.

import (
	"encoding/hex"
	"math/rand"
	"os"
	"strconv"
	"strings"
	"testing"

	"github.com/algorand/msgp/msgp"

	"github.com/algorand/go-algorand/crypto"
	"github.com/algorand/go-algorand/crypto/merklesignature"
	"github.com/algorand/go-algorand/data/bookkeeping"
	"github.com/algorand/go-algorand/data/transactions"
	"github.com/algorand/go-algorand/protocol"
	"verif.local/kit/msgpmon"
	"verif.local/kit/msgpmon/mon"
)

type msgpObj interface {
	msgp.Marshaler
	msgp.Unmarshaler
}

func hx(b []byte) string { return hex.EncodeToString(b) }

// ids: the same identifier derived on the code paths that exist in production:
//   - the dedicated method (Transaction.ID uses a pooled buffer + MarshalMsg; Block.Digest / BlockHeader.Hash use crypto.HashObj),
//   - crypto.HashObj (ToBeHashed: protocol.Encode),
//   - the hash of domain-prefix || protocol.EncodeReflect (any caller still on the reflection encoder).
func ids(pkg, typ string, o msgpmon.Obj) []mon.ID {
	switch v := o.(type) {
	case *transactions.Transaction:
		id := v.ID()
		ho := crypto.HashObj(*v)
		hr := crypto.Hash(append([]byte(protocol.Transaction), protocol.EncodeReflect(v)...))
		return []mon.ID{{Name: "txid", Val: hx(id[:])}, {Name: "txid-HashObj", Val: hx(ho[:]), SameAs: "txid"}, {Name: "txid-from-reflect-encoding", Val: hx(hr[:]), SameAs: "txid"}}
	case *transactions.SignedTxn:
		id := v.ID()
		id2 := v.Txn.ID()
		return []mon.ID{{Name: "txid", Val: hx(id[:])}, {Name: "txid-inner", Val: hx(id2[:]), SameAs: "txid"}}
	case *transactions.SignedTxnInBlock:
		id := v.SignedTxn.ID()
		return []mon.ID{{Name: "txid", Val: hx(id[:])}}
	case *transactions.SignedTxnWithAD:
		id := v.SignedTxn.ID()
		return []mon.ID{{Name: "txid", Val: hx(id[:])}}
	case *bookkeeping.BlockHeader:
		h := v.Hash()
		hr := crypto.Hash(append([]byte(protocol.BlockHeader), protocol.EncodeReflect(v)...))
		return []mon.ID{{Name: "blockhash", Val: hx(h[:])}, {Name: "blockhash-from-reflect-encoding", Val: hx(hr[:]), SameAs: "blockhash"}}
	case *bookkeeping.Block:
		h := v.Hash()
		d := v.Digest()
		hr := crypto.Hash(append([]byte(protocol.BlockHeader), protocol.EncodeReflect(&v.BlockHeader)...))
		return []mon.ID{{Name: "blockhash", Val: hx(h[:])}, {Name: "blockdigest", Val: hx(d[:]), SameAs: "blockhash"}, {Name: "blockhash-from-reflect-encoding", Val: hx(hr[:]), SameAs: "blockhash"}}
	}
	return nil
}

func codec() *mon.Codec {
	return &mon.Codec{
		Encode:        func(o msgpmon.Obj) []byte { return protocol.Encode(o.(msgpObj)) },
		EncodeReflect: protocol.EncodeReflect,
		Decode:        func(b []byte, o msgpmon.Obj) error { return protocol.Decode(b, o.(msgpObj)) },
		DecodeReflect: protocol.DecodeReflect,
		DecodeSequential: func(b []byte, o msgpmon.Obj) error {
			return protocol.NewMsgpDecoderBytes(b).Decode(o.(msgpObj))
		},
		Randomize: func(o msgpmon.Obj, variant int) (any, error) {
			opts := []protocol.RandomizeObjectOption{protocol.RandomizeObjectSilenceAllocWarnings()}
			switch variant {
			case 1:
				opts = append(opts, protocol.RandomizeObjectWithZeroesEveryN(3))
			case 2:
				opts = append(opts, protocol.RandomizeObjectWithAllUintSizes())
			case 3:
				opts = append(opts, protocol.RandomizeObjectWithZeroesEveryN(6), protocol.RandomizeObjectWithAllUintSizes(), protocol.RandomizeObjectWithMaxCollectionLen(4))
			}
			return protocol.RandomizeObject(o, opts...)
		},
		SeedRandomize: func(s int64) { rand.Seed(s) },
		InvalidObject: protocol.ErrInvalidObject.Error(),
		IDs:           ids,
	}
}

func TestVerifC40Msgp(t *testing.T) { mon.RunC40(t, codec()) }

// TestVerifC40Replay: VERIF_C40_REPLAY=pkg,type,case (+ VERIF_SEED) re-creates one boundary-generator case of a witness.
func TestVerifC40Replay(t *testing.T) {
	spec := strings.Split(os.Getenv("VERIF_C40_REPLAY"), ",")
	if len(spec) != 3 {
		t.Skip("VERIF_C40_REPLAY not set")
	}
	ci, _ := strconv.Atoi(spec[2])
	mon.ReplayC40(t, codec(), spec[0], spec[1], ci)
}

func TestVerifC41Msgp(t *testing.T)  { mon.RunC41(t, codec()) }
func TestVerifC41Child(t *testing.T) { mon.RunC41Child(t, codec()) }

// TestVerifC40MinimalWitnesses prints the minimal instances of the two encoder-divergence classes found on the
// pinned tree (documentation of the known findings; not part of the verdict).
func TestVerifC40MinimalWitnesses(t *testing.T) {
	k := &merklesignature.KeyRoundPair{Key: &crypto.FalconSigner{}}
	t.Logf("KeyRoundPair{Key:&FalconSigner{}}: Encode=%x EncodeReflect=%x", protocol.Encode(k), protocol.EncodeReflect(k))
	tx := &transactions.Transaction{Type: protocol.HeartbeatTx, HeartbeatTxnFields: &transactions.HeartbeatTxnFields{}}
	hr := crypto.Hash(append([]byte(protocol.Transaction), protocol.EncodeReflect(tx)...))
	t.Logf("Transaction{Type:hb,HeartbeatTxnFields:&{}}: Encode=%x EncodeReflect=%x txid=%s txid(reflect bytes)=%s", protocol.Encode(tx), protocol.EncodeReflect(tx), tx.ID(), transactions.Txid(hr))
	var back transactions.Transaction
	if err := protocol.Decode(protocol.EncodeReflect(tx), &back); err == nil {
		t.Logf("decoding the reflect bytes gives HeartbeatTxnFields==nil: %v, txid %s", back.HeartbeatTxnFields == nil, back.ID())
	}
}
