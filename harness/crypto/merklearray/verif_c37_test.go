package merklearray_test

// C37: merkle array proofs are complete and sound.
//
//   complete: for any array and any set of positions the proof returned by Tree.Prove verifies
//             (Verify for plain trees, VerifyVectorCommitment for vector commitments) against Tree.Root,
//             and Tree.Root equals a root recomputed by a small independent reference from the array alone;
//   sound:    a claim (root, {position -> element}, proof) derived from an honest one by changing ONE of
//             element / position / root / TreeDepth / a path digest / the hash type does not verify.
//
// The oracle never demands a rejection when the mutated claim is still TRUE (e.g. the array holds the same
// bytes at the other position, the "other" root has the same bytes) or when the mutation did not change
// anything the verifier is defined over (nil vs empty vs all-zero digests, swapping equal digests): such
// mutations are skipped and counted. It also demands nothing for the empty position set (nothing is claimed).

import (
	"bytes"
	"encoding/binary"
	"encoding/hex"
	"errors"
	"fmt"
	"os"
	"sort"
	"sync"
	"testing"

	"github.com/algorand/go-algorand/crypto"
	"github.com/algorand/go-algorand/crypto/merklearray"
	"github.com/algorand/go-algorand/protocol"
	"verif.local/kit"
)

type c37el []byte

func (e c37el) ToBeHashed() (protocol.HashID, []byte) { return protocol.TestHashable, e }

type c37arr []c37el

func (a c37arr) Length() uint64 { return uint64(len(a)) }
func (a c37arr) Marshal(pos uint64) (crypto.Hashable, error) {
	if pos >= uint64(len(a)) {
		return nil, errors.New("c37arr: position out of range")
	}
	return a[pos], nil
}

// ---- reference: root and depth from the array alone (documented layout) -------------------------------
// leaf = H(hashid || data); inner node = H("MA" || left || right), a missing right child counts as zeros of
// the digest size; layers are halved until one node is left; the empty plain array has the empty root.
// Vector commitment: the array is padded with bottom leaves H("MB") to the next power of two (1 for n<=1)
// and element i sits at the tree index whose bit pattern (width = depth) is i reversed.

func c37refHash(hf crypto.HashFactory, id protocol.HashID, data []byte) []byte {
	h := hf.NewHash()
	h.Write([]byte(id))
	h.Write(data)
	return h.Sum(nil)
}

func c37bitrev(i uint64, w int) uint64 {
	var r uint64
	for k := 0; k < w; k++ {
		r = r<<1 | (i>>uint(k))&1
	}
	return r
}

func c37refTree(a c37arr, hf crypto.HashFactory, vc bool) (root []byte, depth int) {
	var layer [][]byte
	if vc {
		w := 0
		for (1 << uint(w)) < len(a) {
			w++
		}
		for t := uint64(0); t < 1<<uint(w); t++ {
			if i := c37bitrev(t, w); i < uint64(len(a)) {
				layer = append(layer, c37refHash(hf, protocol.TestHashable, a[i]))
			} else {
				layer = append(layer, c37refHash(hf, protocol.MerkleVectorCommitmentBottomLeaf, nil))
			}
		}
	} else {
		for _, e := range a {
			layer = append(layer, c37refHash(hf, protocol.TestHashable, e))
		}
	}
	if len(layer) == 0 {
		return []byte{}, 0
	}
	size := hf.NewHash().Size()
	for len(layer) > 1 {
		next := make([][]byte, 0, (len(layer)+1)/2)
		for i := 0; i < len(layer); i += 2 {
			buf := make([]byte, 2*size)
			copy(buf, layer[i])
			if i+1 < len(layer) {
				copy(buf[size:], layer[i+1])
			}
			next = append(next, c37refHash(hf, protocol.MerkleArrayNode, buf))
		}
		layer = next
		depth++
	}
	return layer[0], depth
}

// ---- claims ---------------------------------------------------------------------------------------------

type c37claim struct {
	root  []byte
	elems map[uint64]c37el
	proof merklearray.Proof
}

func (cl c37claim) clone() c37claim {
	n := c37claim{root: append([]byte{}, cl.root...), elems: make(map[uint64]c37el, len(cl.elems)), proof: cl.proof}
	for p, e := range cl.elems {
		n.elems[p] = append(c37el{}, e...)
	}
	n.proof.Path = make([]crypto.GenericDigest, len(cl.proof.Path))
	for i, d := range cl.proof.Path {
		if d != nil {
			n.proof.Path[i] = append(crypto.GenericDigest{}, d...)
		}
	}
	return n
}

func (cl c37claim) describe() map[string]any {
	pos := make([]uint64, 0, len(cl.elems))
	for p := range cl.elems {
		pos = append(pos, p)
	}
	sort.Slice(pos, func(i, j int) bool { return pos[i] < pos[j] })
	el := make([]string, 0, len(pos))
	for _, p := range pos {
		el = append(el, fmt.Sprintf("%d:%x", p, []byte(cl.elems[p])))
	}
	path := make([]string, 0, len(cl.proof.Path))
	for _, d := range cl.proof.Path {
		path = append(path, hex.EncodeToString(d))
	}
	return map[string]any{"root": hex.EncodeToString(cl.root), "elems(pos:hex)": el, "proof.TreeDepth": cl.proof.TreeDepth,
		"proof.HashType": cl.proof.HashFactory.HashType.String() + fmt.Sprintf("(%d)", cl.proof.HashFactory.HashType), "proof.Path": path}
}

func c37verify(vc bool, cl c37claim) error {
	m := make(map[uint64]crypto.Hashable, len(cl.elems))
	for p, e := range cl.elems {
		m[p] = e
	}
	pr := cl.proof
	if vc {
		return merklearray.VerifyVectorCommitment(cl.root, m, &pr)
	}
	return merklearray.Verify(cl.root, m, &pr)
}

// normalised digest: what the pair hashing is defined over (missing == empty == zeros of the digest size)
func c37norm(d []byte, size int) string {
	b := make([]byte, size)
	copy(b, d)
	if len(d) > size {
		return string(d)
	}
	return string(b)
}

func c37samePath(a, b []crypto.GenericDigest, size int) bool {
	if len(a) != len(b) {
		return false
	}
	for i := range a {
		if c37norm(a[i], size) != c37norm(b[i], size) {
			return false
		}
	}
	return true
}

// ---- one tree under test ---------------------------------------------------------------------------------

type c37tree struct {
	a       c37arr
	hf      crypto.HashFactory
	vc      bool
	tree    *merklearray.Tree
	refRoot []byte
	depth   int
	label   string // how to rebuild the array
}

func (t *c37tree) kind() string {
	if t.vc {
		return "vc"
	}
	return "plain"
}

func c37build(c *kit.Ctx, a c37arr, hf crypto.HashFactory, vc bool, label string) *c37tree {
	t := &c37tree{a: a, hf: hf, vc: vc, label: label}
	var err error
	c.Guard("build", label, func() {
		if vc {
			t.tree, err = merklearray.BuildVectorCommitmentTree(a, hf)
		} else {
			t.tree, err = merklearray.Build(a, hf)
		}
	})
	if t.tree == nil || err != nil {
		if err != nil {
			c.Violation("complete:build-failed", map[string]any{"array": label, "hash": hf.HashType.String(), "kind": t.kind(), "err": err.Error()})
		}
		return nil
	}
	t.refRoot, t.depth = c37refTree(a, hf, vc)
	c.Eval(1)
	if got := t.tree.Root(); !bytes.Equal(got, t.refRoot) {
		c.Violation("root-vs-reference", map[string]any{"array": t.arrayWitness(nil), "hash": hf.HashType.String(), "kind": t.kind(),
			"got": hex.EncodeToString(got), "reference": hex.EncodeToString(t.refRoot)})
		return nil
	}
	return t
}

func (t *c37tree) arrayWitness(pos []uint64) any {
	if len(t.a) <= 40 {
		out := make([]string, len(t.a))
		for i, e := range t.a {
			out[i] = hex.EncodeToString(e)
		}
		return map[string]any{"n": len(t.a), "elements_hex": out, "rule": t.label}
	}
	out := map[string]string{}
	for _, p := range pos {
		if p < uint64(len(t.a)) {
			out[fmt.Sprint(p)] = hex.EncodeToString(t.a[p])
		}
	}
	return map[string]any{"n": len(t.a), "rule": t.label, "elements_at_positions_hex": out}
}

// claimTrue: the mutated claim states only facts that hold for the real array and root.
func (t *c37tree) claimTrue(cl c37claim) bool {
	if !bytes.Equal(cl.root, t.refRoot) {
		return false
	}
	for p, e := range cl.elems {
		if p >= uint64(len(t.a)) || !bytes.Equal(e, t.a[p]) {
			return false
		}
	}
	return true
}

type c37mut struct {
	op      string // operator class (part of the finding key)
	detail  string
	cl      c37claim
	content bool // true: root/elements/positions changed (oracle: claim must be false); false: only the proof changed
	from, to uint64 // position operators: the element proven at from is presented at to
}

// c37key maps an ACCEPTED mutation to its finding class. Four narrow classes are recorded as known findings on
// the pinned tree (see /verif/known-findings.jsonl); each is delimited here from the tree shape so that any
// other accepted mutation keeps a key of its own and stays a violation:
//
//	treedepth-increased-plain-verify          plain tree, TreeDepth raised
//	treedepth-decreased-plain-verify          plain tree, TreeDepth lowered to d' and every claimed position < 2^d'
//	treedepth-changed-vc-verify-positions-0   vector commitment, TreeDepth changed, claimed position set exactly {0}
//	accepts-phantom-sibling-position-plain    plain tree, one element moved from p (< n) to q (>= n) where q differs
//	                                          from p only in bits l at which p's ancestor is the last node of an
//	                                          odd-length layer (its sibling is missing; the pair hash of
//	                                          (missing, X) equals that of (X, missing))
func (t *c37tree) findingKey(m c37mut) string {
	k := t.kind()
	switch m.op {
	case "treedepth-increased", "treedepth-decreased":
		if t.vc {
			if _, has0 := m.cl.elems[0]; has0 && len(m.cl.elems) == 1 {
				return "treedepth-changed-vc-verify-positions-0"
			}
			return "accepts-" + m.op + "-vc"
		}
		if m.op == "treedepth-decreased" {
			for p := range m.cl.elems {
				if m.cl.proof.TreeDepth >= 64 || p >= uint64(1)<<m.cl.proof.TreeDepth {
					return "accepts-treedepth-decreased-position-out-of-bound-plain"
				}
			}
		}
		return m.op + "-plain-verify"
	case "position-beyond-array":
		if !t.vc && t.isPhantomSibling(m.from, m.to) {
			return "accepts-phantom-sibling-position-plain"
		}
	}
	return "accepts-" + m.op + "-" + k
}

// isPhantomSibling: q is p with a non-empty set of bits flipped, each bit l being a level at which the ancestor
// of leaf p is the last node of a layer of odd length > 1 (layer sizes n, ceil(n/2), ...).
func (t *c37tree) isPhantomSibling(p, q uint64) bool {
	n := uint64(len(t.a))
	if p >= n || q < n {
		return false
	}
	var mask uint64
	for l, size := uint(0), n; size > 1; l, size = l+1, (size+1)/2 {
		if size&1 == 1 && p>>l == size-1 {
			mask |= 1 << l
		}
	}
	d := p ^ q
	return d != 0 && d&^mask == 0
}

func (t *c37tree) sortedPos(cl c37claim) []uint64 {
	pos := make([]uint64, 0, len(cl.elems))
	for p := range cl.elems {
		pos = append(pos, p)
	}
	sort.Slice(pos, func(i, j int) bool { return pos[i] < pos[j] })
	return pos
}

// mutations produces single-field mutations of an honest claim. full=true enumerates parameters
// exhaustively where that is cheap (small trees), otherwise parameters are drawn from r.
func (t *c37tree) mutations(r *kit.Rand, honest c37claim, full bool) []c37mut {
	var out []c37mut
	pos := t.sortedPos(honest)
	n := uint64(len(t.a))
	add := func(op, detail string, content bool, f func(cl *c37claim) bool) {
		cl := honest.clone()
		if f(&cl) {
			out = append(out, c37mut{op: op, detail: detail, cl: cl, content: content})
		}
	}
	pick := func() uint64 { return pos[r.Intn(len(pos))] }

	// --- element changed at a proven position
	{
		p := pick()
		add("element-changed", fmt.Sprintf("bit flipped in element at %d", p), true, func(cl *c37claim) bool {
			e := cl.elems[p]
			if len(e) == 0 {
				cl.elems[p] = c37el{1}
			} else {
				e[r.Intn(len(e))] ^= 1 << uint(r.Intn(8))
			}
			return true
		})
		p = pick()
		add("element-changed", fmt.Sprintf("byte appended to element at %d", p), true, func(cl *c37claim) bool {
			cl.elems[p] = append(cl.elems[p], byte(r.Intn(256)))
			return true
		})
		if n > 1 {
			p = pick()
			q := r.Uint64n(n)
			add("element-changed", fmt.Sprintf("element at %d replaced by array element %d", p, q), true, func(cl *c37claim) bool {
				cl.elems[p] = append(c37el{}, t.a[q]...)
				return true
			})
		}
		if len(pos) > 1 {
			i := r.Intn(len(pos))
			j := (i + 1 + r.Intn(len(pos)-1)) % len(pos)
			add("elements-swapped", fmt.Sprintf("elements at %d and %d swapped", pos[i], pos[j]), true, func(cl *c37claim) bool {
				cl.elems[pos[i]], cl.elems[pos[j]] = cl.elems[pos[j]], cl.elems[pos[i]]
				return true
			})
		}
	}
	// --- element presented at another position
	{
		p := pick()
		width := uint64(1) << uint(t.depth)
		var targets []uint64
		if full {
			for q := uint64(0); q <= width+1; q++ {
				targets = append(targets, q)
			}
			targets = append(targets, width+p, 2*width+p, 1<<32|p, 1<<63|p)
		} else {
			targets = []uint64{p ^ 1, p + 1, p - 1, p ^ (1 << uint(r.Intn(t.depth+1))), p ^ (1 << uint(r.Intn(t.depth+1))), n, n + 1, n - 1,
				r.Uint64n(width), r.Uint64n(width), width, width + p, 2*width + p, 1<<63 | p, r.Uint64()}
			if n&1 == 1 {
				targets = append(targets, n)
			}
		}
		seen := map[uint64]bool{}
		for _, q := range targets {
			if _, used := honest.elems[q]; used || seen[q] {
				continue
			}
			seen[q] = true
			q := q
			op := "position-moved"
			if q >= n {
				op = "position-beyond-array"
			}
			add(op, fmt.Sprintf("element proven at %d presented at %d", p, q), true, func(cl *c37claim) bool {
				cl.elems[q] = cl.elems[p]
				delete(cl.elems, p)
				return true
			})
			if k := len(out) - 1; k >= 0 && out[k].op == op {
				out[k].from, out[k].to = p, q
			}
		}
		// an additional, false, (position, element) pair
		q := r.Uint64n(width + 2)
		if _, used := honest.elems[q]; !used {
			add("element-added", fmt.Sprintf("extra pair added at %d", q), true, func(cl *c37claim) bool {
				cl.elems[q] = c37el(append([]byte("forged"), r.Bytes(2)...))
				return true
			})
		}
	}
	// --- root
	{
		if len(honest.root) > 0 {
			add("root-changed", "bit flipped in root", true, func(cl *c37claim) bool {
				cl.root[r.Intn(len(cl.root))] ^= 1 << uint(r.Intn(8))
				return true
			})
			add("root-changed", "root truncated by one byte", true, func(cl *c37claim) bool { cl.root = cl.root[:len(cl.root)-1]; return true })
			add("root-changed", "root emptied", true, func(cl *c37claim) bool { cl.root = []byte{}; return true })
		}
		add("root-changed", "byte appended to root", true, func(cl *c37claim) bool { cl.root = append(cl.root, 0); return true })
		other, _ := c37refTree(t.a, t.hf, !t.vc)
		add("root-changed", "root of the other tree kind over the same array", true, func(cl *c37claim) bool { cl.root = other; return true })
		if n > 1 {
			b := append(c37arr{}, t.a...)
			k := r.Intn(len(b))
			b[k] = append(append(c37el{}, b[k]...), 0xff)
			oroot, _ := c37refTree(b, t.hf, t.vc)
			add("root-changed", fmt.Sprintf("root of the array with element %d altered", k), true, func(cl *c37claim) bool { cl.root = oroot; return true })
		}
	}
	// --- tree depth
	{
		d := int(honest.proof.TreeDepth)
		var ds []int
		if full {
			for x := 0; x <= d+3; x++ {
				ds = append(ds, x)
			}
			ds = append(ds, 16, 17, 63, 64, 65, 255)
		} else {
			ds = []int{d + 1, d - 1, d + 1 + r.Intn(8), r.Intn(d + 1), 0, 63, 64, 255}
		}
		seen := map[int]bool{d: true}
		for _, x := range ds {
			if x < 0 || x > 255 || seen[x] {
				continue
			}
			seen[x] = true
			x := x
			op := "treedepth-increased"
			if x < d {
				op = "treedepth-decreased"
			}
			add(op, fmt.Sprintf("TreeDepth %d -> %d", d, x), false, func(cl *c37claim) bool { cl.proof.TreeDepth = uint8(x); return true })
		}
	}
	// --- path digests
	{
		np := len(honest.proof.Path)
		size := t.hf.NewHash().Size()
		if np > 0 {
			i := r.Intn(np)
			add("path-digest-changed", fmt.Sprintf("bit flipped in path digest %d", i), false, func(cl *c37claim) bool {
				d := make([]byte, size)
				copy(d, cl.proof.Path[i])
				d[r.Intn(size)] ^= 1 << uint(r.Intn(8))
				cl.proof.Path[i] = d
				return true
			})
			i = r.Intn(np)
			add("path-digest-dropped", fmt.Sprintf("path digest %d dropped", i), false, func(cl *c37claim) bool {
				cl.proof.Path = append(cl.proof.Path[:i:i], cl.proof.Path[i+1:]...)
				return true
			})
			i = r.Intn(np)
			add("path-digest-duplicated", fmt.Sprintf("path digest %d duplicated", i), false, func(cl *c37claim) bool {
				p := append([]crypto.GenericDigest{}, cl.proof.Path[:i+1]...)
				cl.proof.Path = append(p, cl.proof.Path[i:]...)
				return true
			})
			add("path-digest-dropped", "last path digest dropped", false, func(cl *c37claim) bool {
				cl.proof.Path = cl.proof.Path[:np-1]
				return true
			})
		}
		if np > 1 {
			i := r.Intn(np)
			j := (i + 1 + r.Intn(np-1)) % np
			add("path-digests-reordered", fmt.Sprintf("path digests %d and %d swapped", i, j), false, func(cl *c37claim) bool {
				cl.proof.Path[i], cl.proof.Path[j] = cl.proof.Path[j], cl.proof.Path[i]
				return !c37samePath(cl.proof.Path, honest.proof.Path, size)
			})
		}
		add("path-digest-appended", "zero digest appended to path", false, func(cl *c37claim) bool {
			cl.proof.Path = append(cl.proof.Path, make([]byte, size))
			return true
		})
		add("path-digest-appended", "root appended to path", false, func(cl *c37claim) bool {
			cl.proof.Path = append(cl.proof.Path, append([]byte{}, honest.root...))
			return true
		})
	}
	// --- hash type
	// (valid types only: HashFactory.Validate rejects others when a proof is decoded, and NewHash documents
	// that an invalid type "shouldn't be reached"; the invalid type is probed separately as an observation)
	for ht := crypto.HashType(0); ht < crypto.MaxHashType; ht++ {
		if ht == t.hf.HashType {
			continue
		}
		ht := ht
		add("hashtype-changed", fmt.Sprintf("hash type %d -> %d", t.hf.HashType, ht), false, func(cl *c37claim) bool {
			cl.proof.HashFactory.HashType = ht
			return true
		})
	}
	return out
}

// checkCase: completeness for the position list idxs and soundness of mutated claims.
func (t *c37tree) checkCase(c *kit.Ctx, r *kit.Rand, idxs []uint64, full bool, caseID string) {
	n := uint64(len(t.a))
	in := append([]uint64{}, idxs...) // Prove sorts its argument
	var proof *merklearray.Proof
	var err error
	base := map[string]any{"case": caseID, "hash": t.hf.HashType.String(), "kind": t.kind(), "positions": idxs}
	if c.Guard("prove", base, func() { proof, err = t.tree.Prove(in) }) {
		return
	}
	c.Eval(1)
	if err != nil || proof == nil {
		c.Violation("complete:prove-failed", map[string]any{"case": caseID, "hash": t.hf.HashType.String(), "kind": t.kind(),
			"array": t.arrayWitness(idxs), "positions": idxs, "err": fmt.Sprint(err)})
		return
	}
	honest := c37claim{root: append([]byte{}, t.tree.Root()...), elems: map[uint64]c37el{}, proof: *proof}
	for _, p := range idxs {
		honest.elems[p] = t.a[p]
	}
	honest = honest.clone()
	var verr error
	if c.Guard("verify", base, func() { verr = c37verify(t.vc, honest) }) {
		return
	}
	if verr != nil {
		c.Violation("complete:honest-proof-rejected", map[string]any{"case": caseID, "hash": t.hf.HashType.String(), "kind": t.kind(),
			"array": t.arrayWitness(idxs), "positions": idxs, "claim": honest.describe(), "err": verr.Error()})
		return
	}
	c.Count("honest_proofs_verified", 1)
	if len(honest.elems) == 0 {
		c.Count("empty_position_sets", 1)
		return // nothing is claimed; no mutation can make a false claim out of it
	}
	c.Distinct(fmt.Sprintf("%s|%d|%d|%d|%x", t.kind(), t.hf.HashType, n, len(honest.elems), c37shape(t.sortedPos(honest), t.depth)))
	// single-leaf helpers: the concatenated representation must round-trip to a verifying proof
	if len(idxs) == 1 && t.depth > 0 {
		slp := merklearray.SingleLeafProof{Proof: honest.clone().proof}
		var rt merklearray.SingleLeafProof
		var rerr error
		if !c.Guard("singleleaf", base, func() {
			rt, rerr = merklearray.ProofDataToSingleLeafProof(t.hf.HashType.String(), slp.GetConcatenatedProof())
		}) {
			c.Eval(1)
			cl := honest.clone()
			if rerr == nil {
				cl.proof = *rt.ToProof()
				rerr = c37verify(t.vc, cl)
			}
			if rerr != nil {
				c.Violation("complete:single-leaf-roundtrip-rejected", map[string]any{"case": caseID, "hash": t.hf.HashType.String(), "kind": t.kind(),
					"array": t.arrayWitness(idxs), "positions": idxs, "claim": cl.describe(), "err": rerr.Error()})
			}
			c.Count("single_leaf_roundtrips", 1)
		}
	}
	size := t.hf.NewHash().Size()
	// Outside the admissible domain (fails HashFactory.Validate, cannot be decoded): an invalid hash type must at
	// least not be ACCEPTED; a panic here is reported as an observation, not judged.
	{
		cl := honest.clone()
		cl.proof.HashFactory.HashType = crypto.MaxHashType
		accepted := false
		func() {
			defer func() {
				if rec := recover(); rec != nil {
					c.Count("invalid_hashtype_panics", 1)
					if c.Counter("invalid_hashtype_panics") == 1 {
						c.Observation("merklearray.%s panics (%v) for a proof whose HashFactory.HashType is invalid (%d) and whose path is non-empty; such a proof fails HashFactory.Validate and cannot be produced by decoding. input: %v",
							map[bool]string{true: "VerifyVectorCommitment", false: "Verify"}[t.vc], rec, crypto.MaxHashType, cl.describe())
					}
				}
			}()
			accepted = c37verify(t.vc, cl) == nil
		}()
		if accepted {
			c.Violation("accepts-invalid-hashtype-"+t.kind(), map[string]any{"case": caseID, "array": t.arrayWitness(idxs), "mutated_claim_accepted": cl.describe()})
		}
	}
	for _, m := range t.mutations(r, honest, full) {
		if c.Violations() > c37cap {
			return
		}
		if m.content {
			if t.claimTrue(m.cl) {
				c.Count("mutations_skipped_claim_still_true", 1)
				continue
			}
		} else if m.cl.proof.TreeDepth == honest.proof.TreeDepth && m.cl.proof.HashFactory == honest.proof.HashFactory &&
			c37samePath(m.cl.proof.Path, honest.proof.Path, size) {
			c.Count("mutations_skipped_noop", 1)
			continue
		}
		var merr error
		m := m
		if c.Guard("verify-mutated", map[string]any{"case": caseID, "mutation": m.detail, "claim": m.cl.describe()}, func() { merr = c37verify(t.vc, m.cl) }) {
			continue
		}
		c.Eval(1)
		if merr == nil {
			c.Count("mutations_accepted", 1)
			c.Count("accepted:"+t.findingKey(m), 1)
			c.Violation(t.findingKey(m), map[string]any{"case": caseID, "hash": t.hf.HashType.String(), "kind": t.kind(),
				"array": t.arrayWitness(idxs), "proved_positions": idxs, "mutation": m.detail,
				"honest_claim": honest.describe(), "mutated_claim_accepted": m.cl.describe(),
				"verifier": map[bool]string{true: "merklearray.VerifyVectorCommitment", false: "merklearray.Verify"}[t.vc]})
		} else {
			c.Count("mutations_rejected", 1)
			c.Count("rejected:"+m.op, 1)
		}
	}
}

// c37shape buckets a position set for the distinct-case key: which levels have both children proven.
func c37shape(pos []uint64, depth int) []byte {
	h := make([]byte, 0, depth+1)
	cur := pos
	for l := 0; l <= depth && len(cur) > 0; l++ {
		pairs := 0
		var next []uint64
		for i := 0; i < len(cur); i++ {
			if i+1 < len(cur) && cur[i+1] == cur[i]^1 {
				pairs++
				i++
			}
			if len(next) == 0 || next[len(next)-1] != cur[i]/2 {
				next = append(next, cur[i]/2)
			}
		}
		if pairs > 255 {
			pairs = 255
		}
		h = append(h, byte(pairs))
		cur = next
	}
	return h
}

// c37array makes an array of n short elements. Elements are distinct unless dup is set, in which case some
// elements repeat earlier ones (which makes "same element at another position" mutations legitimately true
// now and then — the oracle has to cope).
func c37array(r *kit.Rand, n int, dup bool) (c37arr, string) {
	salt := r.Bytes(2)
	a := make(c37arr, n)
	for i := range a {
		var b [binary.MaxVarintLen64]byte
		k := binary.PutUvarint(b[:], uint64(i))
		a[i] = append(append(c37el{}, salt...), b[:k]...)
		if dup && i > 0 && r.Chance(1, 4) {
			a[i] = a[r.Intn(i)]
		}
	}
	return a, fmt.Sprintf("element i = %x || uvarint(i)%s", salt, map[bool]string{true: ", 1/4 of the elements copy an earlier one", false: ""}[dup])
}

// c37cap: stop exploring after this many violations (VERIF_NOCAP=1 lifts it, for triage of all classes)
var c37cap = func() int {
	if os.Getenv("VERIF_NOCAP") != "" {
		return 1 << 30
	}
	return 20
}()

var c37hashes = []crypto.HashType{crypto.Sha512_256, crypto.Sumhash, crypto.Sha256, crypto.Sha512}

func c37assume(c *kit.Ctx) {
	c.Assume("the four hash functions are collision resistant on the inputs generated (an accepted mutation is blamed on the verifier, not on a collision)")
	c.Assume("reference root: leaf=H(id||data), node=H(\"MA\"||l||r) with a missing right child as zeros, vector commitments padded with H(\"MB\") leaves at bit-reversed indexes")
}

func TestVerifC37Exhaustive(t *testing.T) {
	c := kit.Start(t, "C37", "exhaustive")
	defer c.Finish()
	c37assume(c)
	full := c.N(9, 12)
	pairsUpTo := c.N(20, 33) // sizes up to which every pair of positions is taken
	c.Rule(fmt.Sprintf("arrays of size 0..33 x 4 hash functions x {plain, vector commitment}; for sizes <= %d every subset of positions, above that every single position, every pair of positions (sizes <= %d) plus PRNG subsets and the full set; each honest proof must verify and the root must equal the reference; then every single-field mutation operator (element, position incl. every position up to 2^depth+1, root, every TreeDepth 0..depth+3 and 16,17,63,64,65,255, path digest flip/drop/duplicate/swap/append, hash type) must be rejected unless the mutated claim is still true; distinct = (kind, hash, size, |positions|, per-level sibling-pair shape)", full, pairsUpTo))
	type job struct {
		n  int
		ht crypto.HashType
		vc bool
	}
	var jobs []job
	for n := 0; n <= 33; n++ {
		for _, ht := range c37hashes {
			for _, vc := range []bool{false, true} {
				jobs = append(jobs, job{n, ht, vc})
			}
		}
	}
	var wg sync.WaitGroup
	ch := make(chan job)
	for w := 0; w < 8; w++ {
		wg.Add(1)
		go func() {
			defer wg.Done()
			for j := range ch {
				if c.Violations() > c37cap {
					continue
				}
				jid := uint64(j.n)<<8 | uint64(j.ht)<<1 | map[bool]uint64{true: 1}[j.vc]
				ar := c.Rand(37, jid)
				a, label := c37array(ar, j.n, false)
				tr := c37build(c, a, crypto.HashFactory{HashType: j.ht}, j.vc, label)
				if tr == nil {
					continue
				}
				c.Count("trees", 1)
				run := func(idxs []uint64, tag string) {
					id := fmt.Sprintf("n=%d hash=%d vc=%v positions=%v (%s)", j.n, j.ht, j.vc, idxs, tag)
					var h uint64 = 1469598103934665603
					for _, p := range idxs {
						h = (h ^ p) * 1099511628211
					}
					tr.checkCase(c, c.Rand(38, jid, h), idxs, true, id)
					c.Count("cases", 1)
				}
				if j.n <= full {
					for mask := uint64(0); mask < 1<<uint(j.n); mask++ {
						var idxs []uint64
						for p := 0; p < j.n; p++ {
							if mask>>uint(p)&1 == 1 {
								idxs = append(idxs, uint64(p))
							}
						}
						run(idxs, "subset")
					}
				} else {
					run(nil, "empty")
					for p := 0; p < j.n; p++ {
						run([]uint64{uint64(p)}, "single")
						if j.n > pairsUpTo {
							continue
						}
						for q := p + 1; q < j.n; q++ {
							run([]uint64{uint64(p), uint64(q)}, "pair")
						}
					}
					for k := 0; k < c.N(6, 60); k++ {
						sr := c.Rand(39, jid, uint64(k))
						var idxs []uint64
						den := sr.Range(2, 6)
						for p := 0; p < j.n; p++ {
							if sr.Chance(1, den) {
								idxs = append(idxs, uint64(p))
							}
						}
						if len(idxs) > 0 {
							run(idxs, "random subset")
						}
					}
					all := make([]uint64, j.n)
					for p := range all {
						all[p] = uint64(p)
					}
					run(all, "all positions")
				}
				if j.n > 0 {
					// a position list as callers may pass it: unsorted, with duplicates
					sr := c.Rand(40, jid)
					idxs := []uint64{sr.Uint64n(uint64(j.n)), sr.Uint64n(uint64(j.n)), sr.Uint64n(uint64(j.n))}
					idxs = append(idxs, idxs[0])
					var proof *merklearray.Proof
					var err error
					in := append([]uint64{}, idxs...)
					if !c.Guard("prove", idxs, func() { proof, err = tr.tree.Prove(in) }) {
						c.Eval(1)
						cl := c37claim{root: tr.tree.Root(), elems: map[uint64]c37el{}}
						for _, p := range idxs {
							cl.elems[p] = a[p]
						}
						if err == nil {
							cl.proof = *proof
							err = c37verify(j.vc, cl)
						}
						if err != nil {
							c.Violation("complete:unsorted-duplicate-positions", map[string]any{"n": j.n, "hash": j.ht.String(), "vc": j.vc, "positions": idxs, "array": tr.arrayWitness(idxs), "err": err.Error()})
						}
						c.Count("unsorted_duplicate_position_lists", 1)
					}
				}
			}
		}()
	}
	for _, j := range jobs {
		ch <- j
	}
	close(ch)
	wg.Wait()
	c.Sample(map[string]any{"sizes": "0..33", "all_subsets_up_to_size": full, "hashes": []string{"sha512_256", "sumhash", "sha256", "sha512"}, "kinds": []string{"plain", "vc"}})
	c.Require("cases", 5000)
	c.Require("honest_proofs_verified", 5000)
	c.Require("mutations_rejected", 100000)
	for _, op := range []string{"element-changed", "elements-swapped", "position-moved", "position-beyond-array", "element-added", "root-changed",
		"treedepth-increased", "treedepth-decreased", "path-digest-changed", "path-digest-dropped", "path-digest-duplicated", "path-digests-reordered",
		"path-digest-appended", "hashtype-changed"} {
		c.Require("rejected:"+op, 100)
	}
}

func TestVerifC37Random(t *testing.T) {
	c := kit.Start(t, "C37", "random")
	defer c.Finish()
	c37assume(c)
	maxLog := c.N(12, 14)
	c.Rule(fmt.Sprintf("PRNG arrays with sizes biased to 2^k-1, 2^k, 2^k+1 up to 2^%d (a quarter of them with repeated elements), PRNG hash function and tree kind, several PRNG position sets per tree (sparse, dense, clustered, the last positions); same completeness and single-field-mutation oracle as the exhaustive part with PRNG-chosen mutation parameters; distinct = (kind, hash, size, |positions|, sibling-pair shape)", maxLog))
	ntrees := c.N(160, 2400)
	if c.Lane == "race" { // the race lane watches the concurrent tree builder; it needs trees, not volume
		ntrees = c.N(160, 400)
	}
	var wg sync.WaitGroup
	ch := make(chan int)
	for w := 0; w < 8; w++ {
		wg.Add(1)
		go func() {
			defer wg.Done()
			for i := range ch {
				if c.Violations() > c37cap {
					continue
				}
				r := c.Rand(41, uint64(i))
				var n int
				switch r.Intn(4) {
				case 0:
					n = r.Range(1, 70)
				case 1, 2:
					n = (1 << uint(r.Range(1, maxLog))) + r.Intn(3) - 1
				default:
					n = r.Range(1, 1<<uint(r.Range(1, maxLog)))
				}
				if n > 1<<uint(maxLog) {
					n = 1 << uint(maxLog)
				}
				ht := c37hashes[r.Intn(len(c37hashes))]
				if ht == crypto.Sumhash && n > 2048 && r.Chance(3, 4) {
					ht = crypto.Sha512_256 // sumhash is ~20x slower; keep a few large sumhash trees only
				}
				vc := r.Bool()
				a, label := c37array(r, n, r.Chance(1, 4))
				label = fmt.Sprintf("tree %d: n=%d, %s", i, n, label)
				tr := c37build(c, a, crypto.HashFactory{HashType: ht}, vc, label)
				if tr == nil {
					continue
				}
				c.Count("trees", 1)
				c.Max("max_array_size", int64(n))
				for k := 0; k < 6; k++ {
					set := map[uint64]bool{}
					switch r.Intn(5) {
					case 0: // sparse
						for x := r.Range(1, 8); x > 0; x-- {
							set[r.Uint64n(uint64(n))] = true
						}
					case 1: // dense
						den := r.Range(2, 5)
						lim := n
						if lim > 600 {
							lim = 600
						}
						off := r.Intn(n - lim + 1)
						for p := 0; p < lim; p++ {
							if r.Chance(1, den) {
								set[uint64(off+p)] = true
							}
						}
					case 2: // clustered run
						st := r.Intn(n)
						for p := st; p < n && p < st+r.Range(1, 40); p++ {
							set[uint64(p)] = true
						}
					case 3: // the tail of the array (incomplete subtrees)
						for p := n - 1; p >= 0 && p >= n-r.Range(1, 5); p-- {
							set[uint64(p)] = true
						}
					default: // first, last, and a few
						set[0] = true
						set[uint64(n-1)] = true
						for x := r.Intn(4); x > 0; x-- {
							set[r.Uint64n(uint64(n))] = true
						}
					}
					if len(set) == 0 {
						set[uint64(n-1)] = true
					}
					idxs := make([]uint64, 0, len(set))
					for p := range set {
						idxs = append(idxs, p)
					}
					sort.Slice(idxs, func(x, y int) bool { return idxs[x] < idxs[y] })
					if r.Bool() { // callers may pass positions in any order
						pm := r.Perm(len(idxs))
						sh := make([]uint64, len(idxs))
						for x, y := range pm {
							sh[x] = idxs[y]
						}
						idxs = sh
					}
					tr.checkCase(c, r, idxs, false, fmt.Sprintf("tree %d set %d", i, k))
					c.Count("cases", 1)
				}
			}
		}()
	}
	for i := 0; i < ntrees; i++ {
		ch <- i
	}
	close(ch)
	wg.Wait()
	c.Require("cases", 500)
	c.Require("honest_proofs_verified", 500)
	c.Require("mutations_rejected", 10000)
	c.Require("max_array_size", 2048)
	for _, op := range []string{"element-changed", "position-moved", "position-beyond-array", "root-changed", "treedepth-increased",
		"treedepth-decreased", "path-digest-changed", "path-digest-dropped", "path-digests-reordered", "hashtype-changed"} {
		c.Require("rejected:"+op, 50)
	}
}
