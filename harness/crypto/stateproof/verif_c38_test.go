package stateproof

// C38: the state proof prover and verifier agree on the required number of reveals.
//
//   (A) numReveals(sw, P, t) = n without error  =>  verifyWeights(sw, P, n, t) accepts;
//   (B) verifyWeights(sw, P, n', t) accepts      =>  the security inequality FROM ITS DEFINITION holds:
//           n' * (ln(sw) - P/2^16) >= t * ln(2)
//       evaluated by the monitor with 512-bit big.Float arithmetic (its own ln series, cross-checked against
//       math.Log). The code replaces ln(sw) by a lower bound, ln 2 by (T-1)/2^16 on the left and T/2^16 on the
//       right: all conservative, so an honest verifyWeights can never accept what the exact inequality
//       refuses. The monitor flags only when the exact left side is below the exact right side by more than
//       2^-400 relative (its own numerical error is < 2^-480): the tolerance is on the code's side.
//       Nothing is demanded the other way round (the verifier may reject counts the exact inequality admits,
//       the prover may ask for one reveal more than necessary).
//   (C) LnIntApproximation(x)/2^16 >= ln(x): the documented precondition "p = P/2^b >= ln(provenWeight)".
//   (D) every coin from getNextCoin is < signedWeight, and the coin sequence equals an independent
//       reimplementation of the documented rejection sampling (SHAKE256 over the seed, 64 bits per attempt,
//       accept z < floor(2^64/sw)*sw, coin = z mod sw).

import (
	"encoding/binary"
	"fmt"
	"math"
	"math/big"
	"math/bits"
	"sort"
	"sync"
	"testing"

	"golang.org/x/crypto/sha3"

	"github.com/algorand/go-algorand/crypto"
	"github.com/algorand/go-algorand/protocol"
	"verif.local/kit"
)

const c38prec = 512

func c38f() *big.Float { return new(big.Float).SetPrec(c38prec).SetMode(big.ToNearestEven) }

// atanh series: 2*sum z^(2k+1)/(2k+1), for 0 <= z <= 1/3; stops when the term is below 2^-530.
func c38twoAtanh(z *big.Float) *big.Float {
	sum := c38f()
	if z.Sign() == 0 {
		return sum
	}
	z2 := c38f().Mul(z, z)
	pow := c38f().Set(z)
	for k := int64(0); ; k++ {
		term := c38f().Quo(pow, c38f().SetInt64(2*k+1))
		sum.Add(sum, term)
		if term.MantExp(nil) < -530 {
			break
		}
		pow.Mul(pow, z2)
	}
	return sum.Mul(sum, c38f().SetInt64(2))
}

var c38ln2 = func() *big.Float { return c38twoAtanh(c38f().Quo(c38f().SetInt64(1), c38f().SetInt64(3))) }()

// c38ln returns ln(x) for x >= 1 with an absolute error far below 2^-480.
func c38ln(x uint64) *big.Float {
	e := bits.Len64(x) - 1
	m := c38f().SetUint64(x)
	m.SetMantExp(m, -e) // m in [1,2)
	one := c38f().SetInt64(1)
	z := c38f().Quo(c38f().Sub(m, one), c38f().Add(m, one))
	r := c38twoAtanh(z)
	return r.Add(r, c38f().Mul(c38f().SetInt64(int64(e)), c38ln2))
}

// exactHolds: n*(ln sw - P/2^16) >= t*ln2, with the tolerance on the code's side.
// returns holds and the two sides (for witnesses).
func c38exact(lnSw *big.Float, lnProven, n, target uint64) (bool, *big.Float, *big.Float) {
	p := c38f().SetUint64(lnProven)
	p.SetMantExp(p, -int(precisionBits))
	lhs := c38f().Sub(lnSw, p)
	lhs.Mul(lhs, c38f().SetUint64(n))
	rhs := c38f().Mul(c38f().SetUint64(target), c38ln2)
	// tolerance: 2^-400 * max(1, rhs)
	tol := c38f().SetInt64(1)
	if rhs.Cmp(tol) > 0 {
		tol.Set(rhs)
	}
	tol.SetMantExp(tol, -400)
	return c38f().Add(lhs, tol).Cmp(rhs) >= 0, lhs, rhs
}

// minimal n for which the exact inequality holds (0 if none <= 2*MaxReveals)
func c38exactMin(lnSw *big.Float, lnProven, target uint64) uint64 {
	p := c38f().SetUint64(lnProven)
	p.SetMantExp(p, -int(precisionBits))
	d := c38f().Sub(lnSw, p)
	if d.Sign() <= 0 {
		return 0
	}
	q := c38f().Quo(c38f().Mul(c38f().SetUint64(target), c38ln2), d)
	if q.Cmp(c38f().SetInt64(2*MaxReveals)) > 0 {
		return 0
	}
	n, _ := q.Uint64()
	for ; n <= 2*MaxReveals; n++ {
		if ok, _, _ := c38exact(lnSw, lnProven, n, target); ok {
			return n
		}
	}
	return 0
}

type c38case struct {
	SignedWeight   uint64
	LnProvenWeight uint64
	StrengthTarget uint64
	Origin         string
}

func c38checkTriple(c *kit.Ctx, r *kit.Rand, cs c38case, lnSw *big.Float) {
	sw, P, t := cs.SignedWeight, cs.LnProvenWeight, cs.StrengthTarget
	var n uint64
	var err error
	if c.Guard("numReveals", cs, func() { n, err = numReveals(sw, P, t) }) {
		return
	}
	c.Eval(1)
	cands := []uint64{0, 1, 2, MaxReveals, MaxReveals + 1, uint64(r.Intn(MaxReveals + 1))}
	if err == nil {
		c.Count("prover_can_prove", 1)
		var verr error
		c.Guard("verifyWeights", cs, func() { verr = verifyWeights(sw, P, n, t) })
		if verr != nil {
			c.Violation("prover-count-rejected-by-verifier", map[string]any{"case": cs, "numReveals": n, "verifyWeights_error": verr.Error()})
		}
		if n < 1 || n > MaxReveals {
			c.Violation("prover-count-out-of-range", map[string]any{"case": cs, "numReveals": n})
		}
		cands = append(cands, n, n-1, n+1, n/2, uint64(r.Intn(int(n)+1)))
		if n >= 2 {
			cands = append(cands, n-2)
		}
		c.Distinct(fmt.Sprintf("ok|d=%d|n=%d|t=%d", bits.Len64(sw), n, t))
	} else {
		c.Count("prover_refuses:"+err.Error(), 1)
		c.Distinct(fmt.Sprintf("err|d=%d|%s|t=%d", bits.Len64(sw), err.Error()[:12], t))
	}
	nmin := c38exactMin(lnSw, P, t)
	if nmin > 0 {
		cands = append(cands, nmin, nmin-1)
		if err == nil {
			c.Max("max_prover_minus_exact_minimum", int64(n)-int64(nmin))
			if n < nmin { // implied by (A)+(B); kept as a direct statement
				c.Violation("prover-count-below-exact-minimum", map[string]any{"case": cs, "numReveals": n, "exact_minimum": nmin})
			}
		}
	}
	seen := map[uint64]bool{}
	for _, nn := range cands {
		if seen[nn] || nn > MaxReveals+1 {
			continue
		}
		seen[nn] = true
		var verr error
		if c.Guard("verifyWeights", cs, func() { verr = verifyWeights(sw, P, nn, t) }) {
			continue
		}
		c.Eval(1)
		ok, lhs, rhs := c38exact(lnSw, P, nn, t)
		switch {
		case verr == nil && nn > MaxReveals:
			c.Violation("verifier-accepts-more-than-max-reveals", map[string]any{"case": cs, "reveals": nn})
		case verr == nil && !ok:
			c.Violation("verifier-accepts-insufficient-reveals", map[string]any{"case": cs, "reveals": nn,
				"exact_lhs n*(ln(sw)-P/2^16)": lhs.Text('g', 40), "exact_rhs t*ln2": rhs.Text('g', 40), "prover_numReveals": n, "prover_err": fmt.Sprint(err)})
		case verr == nil:
			c.Count("verifier_accepts_and_exact_holds", 1)
		case !ok:
			c.Count("insufficient_counts_rejected", 1)
		default:
			c.Count("conservative_rejections(exact holds, verifier refuses)", 1)
		}
		if err == nil && nn < n && verr != nil {
			c.Count("smaller_than_prover_count_rejected", 1)
		}
		if err == nil && nn+1 == n && verr == nil {
			c.Count("prover_count_minus_one_also_accepted", 1)
		}
	}
}

func c38lnApprox(c *kit.Ctx, x uint64, lnX *big.Float) uint64 {
	P, err := LnIntApproximation(x)
	if err != nil {
		c.Violation("ln-approximation-error", map[string]any{"x": x, "err": err.Error()})
		return 0
	}
	c.Eval(1)
	p := c38f().SetUint64(P)
	p.SetMantExp(p, -int(precisionBits))
	tol := c38f().SetMantExp(c38f().SetInt64(1), -400)
	if c38f().Add(p, tol).Cmp(lnX) < 0 {
		c.Violation("ln-approximation-below-ln", map[string]any{"x": x, "LnIntApproximation": P, "P/2^16": p.Text('g', 40), "ln(x)": lnX.Text('g', 40)})
	}
	c.Count("ln_approximations_checked", 1)
	return P
}

func c38selfCheck(c *kit.Ctx) {
	// the monitor's own ln against float64 math.Log, and ln2 against the code's constant
	for _, x := range []uint64{1, 2, 3, 5, 7, 10, 1000, 1<<32 - 1, 1 << 32, 1<<53 + 1, 1<<63 - 1, 1 << 63, math.MaxUint64} {
		got, _ := c38ln(x).Float64()
		want := math.Log(float64(x))
		if math.Abs(got-want) > 1e-12*math.Max(1, want) {
			c.Harness("monitor ln(%d) = %v, math.Log = %v", x, got, want)
		}
	}
	t := c38f().Mul(c38ln2, c38f().SetInt64(1<<precisionBits))
	tf, _ := t.Float64()
	if uint64(math.Ceil(tf)) != ln2IntApproximation {
		c.Observation("ln2IntApproximation=%d but ceil(2^16*ln2)=%d", ln2IntApproximation, uint64(math.Ceil(tf)))
	}
}

func c38signedWeights(quick bool) []uint64 {
	set := map[uint64]bool{1: true, 2: true, 3: true}
	for k := uint(1); k < 64; k++ {
		set[1<<k-1], set[1<<k], set[1<<k+1] = true, true, true
		if !quick || k%4 == 0 {
			set[1<<k+1<<(k-1)] = true            // 1.5 * 2^k
			set[(1<<k)+(1<<k)/3] = true          // ~1.33 * 2^k
			set[(1<<(k+1)-1)-(1<<k)/16] = true   // just below 2^(k+1)
		}
	}
	set[math.MaxUint64], set[math.MaxUint64-1] = true, true
	delete(set, 0)
	out := make([]uint64, 0, len(set))
	for v := range set {
		out = append(out, v)
	}
	// deterministic order
	for i := 1; i < len(out); i++ {
		for j := i; j > 0 && out[j] < out[j-1]; j-- {
			out[j], out[j-1] = out[j-1], out[j]
		}
	}
	return out
}

func TestVerifC38Weights(t *testing.T) {
	c := kit.Start(t, "C38", "weights")
	defer c.Finish()
	c38selfCheck(c)
	quick := c.Quick()
	c.Rule("signed weight at 1,2,3, 2^k-1, 2^k, 2^k+1 (all k) and 1.33/1.5/1.97 x 2^k; proven weight = signedWeight>>j and signedWeight-(signedWeight>>j) for all j, signedWeight-1, -2 (lnProvenWeight from LnIntApproximation and +-1 around it, plus arbitrary integers incl. 0 and the integer just around 2^16*ln(signedWeight)); strength targets " +
		map[bool]string{true: "{0,1,2,3,7,8,64,128,255,256,257,1000} + 2 PRNG", false: "0..257 and 1000, 10^6"}[quick] +
		"; plus PRNG triples; for each triple numReveals, then verifyWeights on the prover's count, counts around it, around the exact minimum, 0,1,2,MaxReveals,MaxReveals+1 and PRNG counts, each judged against the exact 512-bit inequality. distinct = (outcome, bit length of signedWeight, reveal count, target)")
	c.Assume("math/big arithmetic; the monitor's ln series (cross-checked against math.Log at start); the security inequality n*(ln signedWeight - ln provenWeight) >= target*ln 2 as the definition of 'enough reveals'")
	sws := c38signedWeights(quick)
	var targets []uint64
	if quick {
		targets = []uint64{0, 1, 2, 3, 7, 8, 64, 128, 255, 256, 257, 1000}
	} else {
		for t := uint64(0); t <= 257; t++ {
			targets = append(targets, t)
		}
		targets = append(targets, 1000, 1000000)
	}
	type job struct {
		idx  uint64
		sw   uint64
		prng bool
	}
	ch := make(chan job, 64)
	var wg sync.WaitGroup
	for w := 0; w < 8; w++ {
		wg.Add(1)
		go func() {
			defer wg.Done()
			for j := range ch {
				if c.Violations() > 20 {
					continue
				}
				r := c.Rand(38, j.idx)
				sw := j.sw
				lnSw := c38ln(sw)
				jq := quick || j.prng // fewer proven-weight candidates
				// lnProvenWeight candidates
				ps := map[uint64]string{0: "P=0", 1: "P=1"}
				addPW := func(pw uint64, how string) {
					if pw == 0 {
						return
					}
					P := c38lnApprox(c, pw, c38ln(pw))
					ps[P] = how
					if !jq {
						ps[P+1] = how + " +1"
						if P > 0 {
							ps[P-1] = how + " -1"
						}
					}
				}
				for sh := uint(0); sh < 64; sh++ {
					if jq && sh > 8 && sh%5 != 0 {
						continue
					}
					addPW(sw>>sh, fmt.Sprintf("provenWeight=signedWeight>>%d", sh))
					if sh > 0 {
						addPW(sw-sw>>sh, fmt.Sprintf("provenWeight=signedWeight-(signedWeight>>%d)", sh))
					}
				}
				addPW(sw-1, "provenWeight=signedWeight-1")
				addPW(sw-2, "provenWeight=signedWeight-2")
				addPW(sw+1, "provenWeight=signedWeight+1")
				// integers around 2^16*ln(sw): where the difference ln(sw)-P/2^16 changes sign
				f, _ := c38f().Mul(lnSw, c38f().SetInt64(1<<precisionBits)).Float64()
				for d := -3; d <= 3; d++ {
					if v := int64(f) + int64(d); v >= 0 {
						ps[uint64(v)] = fmt.Sprintf("P=floor(2^16*ln(signedWeight))%+d", d)
					}
				}
				ps[r.Uint64n(1<<22)] = "PRNG P < 2^22"
				ps[math.MaxUint64] = "P=2^64-1"
				ts := append([]uint64{}, targets...)
				if quick {
					ts = append(ts, uint64(r.Range(1, 256)), uint64(r.Range(1, 256)))
				}
				if j.prng { // PRNG signed weights: the consensus target and three PRNG targets
					ts = []uint64{256, uint64(r.Range(1, 256)), uint64(r.Range(1, 256)), uint64(r.Range(1, 64))}
				}
				pkeys := make([]uint64, 0, len(ps))
				for P := range ps {
					pkeys = append(pkeys, P)
				}
				sort.Slice(pkeys, func(a, b int) bool { return pkeys[a] < pkeys[b] })
				for _, P := range pkeys {
					how := ps[P]
					for _, t := range ts {
						c38checkTriple(c, r, c38case{sw, P, t, how}, lnSw)
						c.Count("triples", 1)
					}
				}
			}
		}()
	}
	var idx uint64
	for _, sw := range sws {
		idx++
		ch <- job{idx, sw, false}
	}
	// PRNG triples (one signed weight per job, several proven weights/targets each)
	nrand := c.N(1500, 40000)
	for i := 0; i < nrand; i++ {
		idx++
		r := c.Rand(381, uint64(i))
		sw := r.Boundary64()
		if r.Bool() {
			sw = r.Uint64() >> uint(r.Intn(64))
		}
		if sw == 0 {
			sw = 1
		}
		ch <- job{idx, sw, true}
	}
	close(ch)
	wg.Wait()
	c.Sample(map[string]any{"signed_weight_shapes": len(sws), "targets": len(targets), "prng_signed_weights": nrand})
	c.Require("triples", 100000)
	c.Require("prover_can_prove", 10000)
	c.Require("insufficient_counts_rejected", 10000)
	c.Require("smaller_than_prover_count_rejected", 10000)
	c.Require("verifier_accepts_and_exact_holds", 10000)
	c.Require("ln_approximations_checked", 1000)
}

// reference coin sequence, written from the comments in coinGenerator.go without big.Int
type c38refCoins struct {
	shk sha3.ShakeHash
	sw  uint64
}

func c38newRef(seed coinChoiceSeed) *c38refCoins {
	// documented layout: hash id, version byte, participants commitment, LE64 lnProvenWeight,
	// signature commitment, LE64 signedWeight, message hash
	shk := sha3.NewShake256()
	shk.Write([]byte(protocol.StateProofCoin))
	shk.Write([]byte{VersionForCoinGenerator})
	shk.Write(seed.partCommitment)
	var le [8]byte
	binary.LittleEndian.PutUint64(le[:], seed.lnProvenWeight)
	shk.Write(le[:])
	shk.Write(seed.sigCommitment)
	binary.LittleEndian.PutUint64(le[:], seed.signedWeight)
	shk.Write(le[:])
	shk.Write(seed.data[:])
	return &c38refCoins{shk: shk, sw: seed.signedWeight}
}

func (g *c38refCoins) next() (coin uint64, rejected int) {
	for {
		var b [8]byte
		g.shk.Read(b[:])
		z := binary.LittleEndian.Uint64(b[:])
		accept := true
		if g.sw > 1 {
			k, _ := bits.Div64(1, 0, g.sw) // floor(2^64/sw), sw >= 2
			hi, lo := bits.Mul64(k, g.sw)  // threshold = k*sw (may be exactly 2^64)
			accept = hi == 1 || z < lo
		}
		if accept {
			return z % g.sw, rejected
		}
		rejected++
	}
}

func TestVerifC38Coins(t *testing.T) {
	c := kit.Start(t, "C38", "coins")
	defer c.Finish()
	perShape := c.N(20000, 1000000)
	c.Rule(fmt.Sprintf("64 signed-weight shapes (1, 2, 3, powers of two, 2^k+-1, values just above 2^63 where half of the samples are rejected, 2^64-1, PRNG) x PRNG seeds (commitments, lnProvenWeight, message); %d coins per shape; each coin must be < signedWeight and equal the reference rejection sampler. distinct = (signed weight shape, whether a rejection happened)", perShape))
	c.Assume("golang.org/x/crypto/sha3 SHAKE256 (shared by the code and the reference)")
	var shapes []uint64
	shapes = append(shapes, 1, 2, 3, 5, 6, 7, 10, 255, 256, 257, 1<<32-1, 1<<32, 1<<32+1, 1<<62, 1<<62+1, 1<<63-1, 1<<63, 1<<63+1, 1<<63+1<<62, 3<<62-1,
		math.MaxUint64, math.MaxUint64-1, math.MaxUint64/2, math.MaxUint64/3, math.MaxUint64/3+1, 6148914691236517205, 12297829382473034411)
	for i := 0; len(shapes) < 64; i++ {
		r := c.Rand(382, uint64(i))
		v := r.Boundary64()
		if v == 0 {
			v = 1
		}
		shapes = append(shapes, v)
	}
	var wg sync.WaitGroup
	ch := make(chan int, 64)
	for w := 0; w < 8; w++ {
		wg.Add(1)
		go func() {
			defer wg.Done()
			for i := range ch {
				r := c.Rand(383, uint64(i))
				sw := shapes[i]
				seed := coinChoiceSeed{partCommitment: r.Bytes(crypto.SumhashDigestSize), lnProvenWeight: r.Uint64(), sigCommitment: r.Bytes(crypto.SumhashDigestSize), signedWeight: sw}
				r.Fill(seed.data[:])
				wit := map[string]any{"signedWeight": sw, "partCommitment": fmt.Sprintf("%x", seed.partCommitment), "sigCommitment": fmt.Sprintf("%x", seed.sigCommitment),
					"lnProvenWeight": seed.lnProvenWeight, "data": fmt.Sprintf("%x", seed.data)}
				var cg coinGenerator
				if c.Guard("makeCoinGenerator", wit, func() { s := seed; cg = makeCoinGenerator(&s) }) {
					continue
				}
				ref := c38newRef(seed)
				rejections := 0
				for k := 0; k < perShape; k++ {
					var coin uint64
					if c.Guard("getNextCoin", wit, func() { coin = cg.getNextCoin() }) {
						break
					}
					want, rej := ref.next()
					rejections += rej
					if coin >= sw {
						wit["coin_index"], wit["coin"] = k, coin
						c.Violation("coin-not-below-signed-weight", wit)
						break
					}
					if coin != want {
						wit["coin_index"], wit["coin"], wit["reference_coin"] = k, coin, want
						c.Violation("coin-differs-from-reference-sampler", wit)
						break
					}
				}
				c.Eval(perShape)
				c.Count("coins", perShape)
				c.Count("reference_rejections", rejections)
				c.Distinct(fmt.Sprintf("%d|%v", sw, rejections > 0))
			}
		}()
	}
	for i := range shapes {
		ch <- i
	}
	close(ch)
	wg.Wait()
	c.Require("coins", 1000000)
	c.Require("reference_rejections", 1000)
}
