package stateproof

// C39: state proofs verify iff enough valid signatures back them.
//
// Real merklesignature keys (small key lifetimes), real prover, real verifier.
//   complete: a proof returned by Prover.CreateProof (signed weight > proven weight, all signatures valid)
//             verifies for its message and round, also after a msgpack round trip;
//   gate:     with signed weight <= proven weight CreateProof returns no proof; IsValid refuses signatures that are
//             not by the participant on this message for this round;
//   sound:    every single-field tampering of a valid proof, of the message, of the round or of the verifier's
//             trusted inputs is rejected; a proof into which invalid signatures were smuggled (Add without IsValid)
//             verifies only if none of the invalid slots is among the reveals.
//
// Legitimate acceptances the oracle allows (each computed exactly, none is a blanket exception):
//   * another round inside the same key-lifetime window of every revealed participant (VerifyBytes maps a round to
//     firstRoundInKeyLifetime; one ephemeral key serves the whole window);
//   * a changed SignedWeight / lnProvenWeight for which the Fiat-Shamir coins, re-derived by an independent
//     reference sampler, still all fall into the slots listed in PositionsToReveal and verifyWeights still holds
//     (happens when one participant dominates: the design is probabilistic, soundness error 2^-target);
//   * one position dropped from / appended to PositionsToReveal when verifyWeights accepts the new count and the
//     appended coin falls into the appended position's slot (that is simply another valid proof);
//   * a raised strength target that the existing number of reveals still satisfies.
// CreateProof may also legitimately refuse when the signed weight is barely above the proven weight
// (numReveals: too many reveals / negative equation): counted, not judged.

import (
	"bytes"
	"encoding/binary"
	"fmt"
	"math/bits"
	"sort"
	"sync"
	"testing"

	"golang.org/x/crypto/sha3"

	"github.com/algorand/go-algorand/crypto"
	"github.com/algorand/go-algorand/crypto/merklearray"
	"github.com/algorand/go-algorand/crypto/merklesignature"
	"github.com/algorand/go-algorand/data/basics"
	"github.com/algorand/go-algorand/protocol"
	"verif.local/kit"
)

type c39key struct {
	sec                          *merklesignature.Secrets
	firstValid, lastValid, lifet uint64
}

// key shapes: (firstValid, lastValid, keyLifetime); every shape has a key covering rounds 512 and 513
var c39shapes = [][3]uint64{
	{256, 512, 256}, // two keys, round 512 uses the last one
	{1, 600, 256},   // keys at 256 and 512
	{500, 530, 16},  // 512 is the first key (vector commitment index 0)
	{505, 519, 8},   // single key in a one-leaf tree
	{512, 512, 256}, // valid for exactly one round
	{510, 515, 2},   // lifetime 2: rounds 512,513 share a key, 514 does not
	{300, 1100, 256}, // keys 512, 768, 1024: index 0 of 3 (padded tree)
	{100, 520, 64},  // several keys, 512 is the last
}

func c39makeKeys(c *kit.Ctx, n int) []c39key {
	keys := make([]c39key, n)
	var wg sync.WaitGroup
	for i := range keys {
		wg.Add(1)
		go func(i int) {
			defer wg.Done()
			sh := c39shapes[i%len(c39shapes)]
			sec, err := merklesignature.New(sh[0], sh[1], sh[2])
			if err != nil {
				c.Harness("merklesignature.New%v: %v", sh, err)
			}
			keys[i] = c39key{sec, sh[0], sh[1], sh[2]}
		}(i)
	}
	wg.Wait()
	return keys
}

// reference coin sampler (same construction as in the C38 monitor, written from the comments)
func c39coins(partcom []byte, lnPW uint64, sigcom []byte, sw uint64, data MessageHash, n int) []uint64 {
	shk := sha3.NewShake256()
	shk.Write([]byte(protocol.StateProofCoin))
	shk.Write([]byte{VersionForCoinGenerator})
	shk.Write(partcom)
	var le [8]byte
	binary.LittleEndian.PutUint64(le[:], lnPW)
	shk.Write(le[:])
	shk.Write(sigcom)
	binary.LittleEndian.PutUint64(le[:], sw)
	shk.Write(le[:])
	shk.Write(data[:])
	out := make([]uint64, 0, n)
	for len(out) < n {
		var b [8]byte
		shk.Read(b[:])
		z := binary.LittleEndian.Uint64(b[:])
		accept := true
		if sw > 1 {
			k, _ := bits.Div64(1, 0, sw)
			hi, lo := bits.Mul64(k, sw)
			accept = hi == 1 || z < lo
		}
		if accept {
			out = append(out, z%sw)
		}
	}
	return out
}

type c39case struct {
	id      string
	parts   []basics.Participant
	keys    []c39key // per participant
	tree    *merklearray.Tree
	data    MessageHash
	round   uint64
	pw      uint64
	lnPW    uint64
	target  uint64
	signers []uint64
	sw      uint64
	prover  *Prover
	proof   *StateProof
}

func (cs *c39case) describe() map[string]any {
	w := make([]uint64, len(cs.parts))
	sh := make([]string, len(cs.parts))
	for i, p := range cs.parts {
		w[i] = p.Weight
		sh[i] = fmt.Sprintf("%d-%d/%d", cs.keys[i].firstValid, cs.keys[i].lastValid, cs.keys[i].lifet)
	}
	d := map[string]any{"case": cs.id, "weights": w, "key_shapes(first-last/lifetime)": sh, "round": cs.round, "message_hash": fmt.Sprintf("%x", cs.data),
		"proven_weight": cs.pw, "ln_proven_weight": cs.lnPW, "strength_target": cs.target, "signers": cs.signers, "signed_weight": cs.sw}
	if cs.proof != nil {
		d["positions_to_reveal"] = cs.proof.PositionsToReveal
	}
	return d
}

func c39clone(c *kit.Ctx, sp *StateProof) *StateProof {
	var out StateProof
	if err := protocol.Decode(protocol.Encode(sp), &out); err != nil {
		c.Harness("state proof does not survive msgpack: %v", err)
	}
	return &out
}

func c39revealed(sp *StateProof) []uint64 {
	var pos []uint64
	for p := range sp.Reveals {
		pos = append(pos, p)
	}
	sort.Slice(pos, func(i, j int) bool { return pos[i] < pos[j] })
	return pos
}

// coinsFit: do the reference coins for (partcom, lnPW, sp.SigCommit, sp.SignedWeight, data) fall into the slots named by PositionsToReveal?
func c39coinsFit(partcom []byte, lnPW uint64, data MessageHash, sp *StateProof) bool {
	if sp.SignedWeight == 0 {
		return false
	}
	coins := c39coins(partcom, lnPW, sp.SigCommit, sp.SignedWeight, data, len(sp.PositionsToReveal))
	for j, pos := range sp.PositionsToReveal {
		r, ok := sp.Reveals[pos]
		if !ok || !(r.SigSlot.L <= coins[j] && coins[j] < r.SigSlot.L+r.Part.Weight) {
			return false
		}
	}
	return true
}

type c39mut struct {
	op     string
	detail string
	// what is presented to the verifier
	sp      *StateProof
	data    MessageHash
	round   uint64
	partcom crypto.GenericDigest
	lnPW    uint64
	target  uint64
	// legit reports whether acceptance of this tampered input is a designed behaviour (see header)
	legit func() bool
}

func c39flip(r *kit.Rand, b []byte) {
	if len(b) > 0 {
		b[r.Intn(len(b))] ^= 1 << uint(r.Intn(8))
	}
}

func (cs *c39case) mutations(c *kit.Ctx, r *kit.Rand) []*c39mut {
	var out []*c39mut
	never := func() bool { return false }
	base := func(op, detail string) *c39mut {
		m := &c39mut{op: op, detail: detail, sp: c39clone(c, cs.proof), data: cs.data, round: cs.round,
			partcom: cs.tree.Root(), lnPW: cs.lnPW, target: cs.target, legit: never}
		out = append(out, m)
		return m
	}
	revealed := c39revealed(cs.proof)
	pickRev := func() uint64 { return revealed[r.Intn(len(revealed))] }
	n := len(cs.proof.PositionsToReveal)

	// message
	m := base("message", "bit flipped in the message hash")
	c39flip(r, m.data[:])

	// round: legit iff every revealed participant's key window is unchanged
	for _, nr := range []uint64{cs.round + 1, cs.round - 1, cs.round + 2, cs.round + 256, cs.round - 256, cs.round + 16, 0} {
		nr := nr
		if nr == cs.round {
			continue
		}
		m := base("round", fmt.Sprintf("round %d -> %d", cs.round, nr))
		m.round = nr
		m.legit = func() bool {
			for _, p := range revealed {
				l := cs.parts[p].PK.KeyLifetime
				if nr/l != cs.round/l {
					return false
				}
			}
			return true
		}
	}

	// one reveal altered
	alter := func(op, detail string, f func(rv *Reveal)) {
		p := pickRev()
		m := base(op, fmt.Sprintf("%s (reveal at position %d)", detail, p))
		rv := m.sp.Reveals[p]
		f(&rv)
		m.sp.Reveals[p] = rv
	}
	alter("signature", "bit flipped in the Falcon signature", func(rv *Reveal) { c39flip(r, rv.SigSlot.Sig.Signature) })
	alter("signature", "Falcon signature truncated", func(rv *Reveal) {
		rv.SigSlot.Sig.Signature = rv.SigSlot.Sig.Signature[:len(rv.SigSlot.Sig.Signature)-1]
	})
	alter("signature", "bit flipped in the ephemeral verifying key", func(rv *Reveal) { c39flip(r, rv.SigSlot.Sig.VerifyingKey.PublicKey[:]) })
	alter("signature", "vector commitment index of the ephemeral key changed", func(rv *Reveal) { rv.SigSlot.Sig.VectorCommitmentIndex ^= 1 << uint(r.Intn(3)) })
	alter("signature", "TreeDepth of the ephemeral key proof +1", func(rv *Reveal) { rv.SigSlot.Sig.Proof.TreeDepth++ })
	alter("signature", "path digest of the ephemeral key proof altered / appended", func(rv *Reveal) {
		if len(rv.SigSlot.Sig.Proof.Path) > 0 {
			c39flip(r, rv.SigSlot.Sig.Proof.Path[r.Intn(len(rv.SigSlot.Sig.Proof.Path))])
		} else {
			rv.SigSlot.Sig.Proof.Path = append(rv.SigSlot.Sig.Proof.Path, make([]byte, HashSize))
		}
	})
	alter("reveal", "slot offset L + 1", func(rv *Reveal) { rv.SigSlot.L++ })
	alter("reveal", "slot offset L - 1", func(rv *Reveal) { rv.SigSlot.L-- })
	alter("weight", "participant weight + 1", func(rv *Reveal) { rv.Part.Weight++ })
	alter("weight", "participant weight doubled", func(rv *Reveal) { rv.Part.Weight *= 2 })
	alter("participant", "bit flipped in the participant's key commitment", func(rv *Reveal) { c39flip(r, rv.Part.PK.Commitment[:]) })
	alter("participant", "participant key lifetime changed", func(rv *Reveal) { rv.Part.PK.KeyLifetime *= 2 })
	if len(cs.signers) > 1 {
		// signature of another signer put into this reveal
		p := pickRev()
		o := cs.signers[r.Intn(len(cs.signers))]
		if o != p {
			m := base("signature", fmt.Sprintf("reveal at %d carries the signature slot of signer %d", p, o))
			rv := m.sp.Reveals[p]
			rv.SigSlot.Sig = cs.prover.sigs[o].Sig
			m.sp.Reveals[p] = rv
		}
	}
	if len(revealed) > 1 {
		a, b := pickRev(), pickRev()
		if a != b {
			m := base("reveal", fmt.Sprintf("reveals at %d and %d swapped", a, b))
			m.sp.Reveals[a], m.sp.Reveals[b] = m.sp.Reveals[b], m.sp.Reveals[a]
		}
	}
	{
		p := pickRev()
		m := base("reveal", fmt.Sprintf("reveal at %d removed", p))
		delete(m.sp.Reveals, p)
	}
	{
		// a copy of a reveal at a position that is not revealed
		for try := 0; try < 8; try++ {
			q := uint64(r.Intn(len(cs.parts) + 2))
			if _, ok := cs.proof.Reveals[q]; !ok {
				p := pickRev()
				m := base("reveal", fmt.Sprintf("reveal at %d duplicated to position %d", p, q))
				m.sp.Reveals[q] = m.sp.Reveals[p]
				break
			}
		}
	}

	// positions
	if len(revealed) > 1 {
		j := r.Intn(n)
		for _, q := range revealed {
			if q != cs.proof.PositionsToReveal[j] {
				m := base("position", fmt.Sprintf("PositionsToReveal[%d] %d -> %d", j, cs.proof.PositionsToReveal[j], q))
				m.sp.PositionsToReveal[j] = q
				break
			}
		}
	}
	{
		j := r.Intn(n)
		q := uint64(r.Intn(len(cs.parts) + 1))
		if _, ok := cs.proof.Reveals[q]; !ok {
			m := base("position", fmt.Sprintf("PositionsToReveal[%d] -> unrevealed position %d", j, q))
			m.sp.PositionsToReveal[j] = q
		}
	}
	if n > 1 {
		j, k := r.Intn(n), r.Intn(n)
		if cs.proof.PositionsToReveal[j] != cs.proof.PositionsToReveal[k] {
			m := base("position", fmt.Sprintf("PositionsToReveal[%d] and [%d] swapped", j, k))
			m.sp.PositionsToReveal[j], m.sp.PositionsToReveal[k] = m.sp.PositionsToReveal[k], m.sp.PositionsToReveal[j]
		}
	}
	{
		m := base("position", "last entry of PositionsToReveal dropped")
		m.sp.PositionsToReveal = m.sp.PositionsToReveal[:n-1]
		m.legit = func() bool { return verifyWeights(cs.sw, cs.lnPW, uint64(n-1), cs.target) == nil }
		q := pickRev()
		m2 := base("position", fmt.Sprintf("position %d appended to PositionsToReveal", q))
		m2.sp.PositionsToReveal = append(m2.sp.PositionsToReveal, q)
		sp2 := m2.sp
		m2.legit = func() bool {
			return verifyWeights(cs.sw, cs.lnPW, uint64(n+1), cs.target) == nil && c39coinsFit(cs.tree.Root(), cs.lnPW, cs.data, sp2)
		}
		m3 := base("position", "PositionsToReveal emptied")
		m3.sp.PositionsToReveal = nil
		m3.legit = func() bool { return verifyWeights(cs.sw, cs.lnPW, 0, cs.target) == nil }
	}

	// signed weight field
	total := uint64(0)
	for _, p := range cs.parts {
		total += p.Weight
	}
	for _, nsw := range []uint64{cs.sw + 1, cs.sw - 1, cs.sw * 2, total, total + 1, cs.pw + 1, cs.sw + uint64(r.Intn(1000)) + 2, 0, ^uint64(0)} {
		if nsw == cs.sw {
			continue
		}
		m := base("signed-weight", fmt.Sprintf("SignedWeight %d -> %d", cs.sw, nsw))
		m.sp.SignedWeight = nsw
		sp2 := m.sp
		m.legit = func() bool {
			return nsw > 0 && verifyWeights(nsw, cs.lnPW, uint64(n), cs.target) == nil && c39coinsFit(cs.tree.Root(), cs.lnPW, cs.data, sp2)
		}
	}

	// commitments and merkle proofs
	m = base("sig-commitment", "bit flipped in SigCommit")
	c39flip(r, m.sp.SigCommit)
	for _, which := range []string{"SigProofs", "PartProofs"} {
		which := which
		get := func(sp *StateProof) *merklearray.Proof {
			if which == "SigProofs" {
				return &sp.SigProofs
			}
			return &sp.PartProofs
		}
		if np := len(get(cs.proof).Path); np > 0 {
			m := base("merkle-proof", "bit flipped in a "+which+" path digest")
			c39flip(r, get(m.sp).Path[r.Intn(np)])
			m = base("merkle-proof", "a "+which+" path digest dropped")
			i := r.Intn(np)
			get(m.sp).Path = append(get(m.sp).Path[:i:i], get(m.sp).Path[i+1:]...)
		}
		m := base("merkle-proof", which+" path digest appended")
		get(m.sp).Path = append(get(m.sp).Path, make([]byte, HashSize))
		for _, d := range []int{1, -1} {
			nd := int(get(cs.proof).TreeDepth) + d
			if nd < 0 {
				continue
			}
			op := "merkle-proof-treedepth"
			if len(revealed) == 1 && revealed[0] == 0 {
				op = "merkle-proof-treedepth-positions-0" // the C37 class treedepth-changed-vc-verify-positions-0 seen through the state proof
			}
			m := base(op, fmt.Sprintf("%s.TreeDepth %d -> %d", which, get(cs.proof).TreeDepth, nd))
			get(m.sp).TreeDepth = uint8(nd)
		}
		m = base("merkle-proof", which+" hash type changed to sha512_256")
		get(m.sp).HashFactory.HashType = crypto.Sha512_256
	}
	m = base("salt", "MerkleSignatureSaltVersion + 1")
	m.sp.MerkleSignatureSaltVersion++

	// the verifier's trusted inputs
	m = base("participants-commitment", "bit flipped in the participants commitment given to the verifier")
	m.partcom = append(crypto.GenericDigest{}, m.partcom...)
	c39flip(r, m.partcom)
	for _, npw := range []uint64{cs.sw, cs.sw + 1, total, cs.pw + (cs.sw-cs.pw)/2, cs.pw * 2} {
		if npw == 0 {
			continue
		}
		nln, err := LnIntApproximation(npw)
		if err != nil || nln == cs.lnPW {
			continue
		}
		m := base("proven-weight", fmt.Sprintf("verifier's proven weight %d -> %d", cs.pw, npw))
		m.lnPW = nln
		m.legit = func() bool {
			return npw < cs.sw && verifyWeights(cs.sw, nln, uint64(n), cs.target) == nil && c39coinsFit(cs.tree.Root(), nln, cs.data, cs.proof)
		}
	}
	for _, nt := range []uint64{cs.target * 2, cs.target * 16, cs.target + 1} {
		nt := nt
		m := base("strength-target", fmt.Sprintf("verifier's strength target %d -> %d", cs.target, nt))
		m.target = nt
		m.legit = func() bool { return verifyWeights(cs.sw, cs.lnPW, uint64(n), nt) == nil }
	}
	return out
}

func c39verify(m *c39mut) error {
	return MkVerifierWithLnProvenWeight(m.partcom, m.lnPW, m.target).Verify(basics.Round(m.round), m.data, m.sp)
}

// build makes participants, signs, and runs the prover. ok=false when the case ended early (counted or reported).
func c39build(c *kit.Ctx, r *kit.Rand, pool []c39key, id string, maxParts int) *c39case {
	cs := &c39case{id: id}
	np := r.Range(4, maxParts)
	if r.Chance(1, 8) {
		np = r.Range(1, 3)
	}
	perm := r.Perm(len(pool))
	shape := r.Intn(5)
	cs.round = []uint64{512, 512, 513}[r.Intn(3)]
	total := uint64(0)
	for i := 0; i < np; i++ {
		k := pool[perm[i%len(perm)]]
		var w uint64
		switch shape {
		case 0: // equal
			w = 1000
		case 1: // geometric
			w = uint64(1) << uint(i%20)
		case 2: // one dominant
			w = uint64(r.Range(1, 50))
			if i == 0 {
				w = 1000000
			}
		case 3: // PRNG, some zero
			w = r.Uint64() >> uint(r.Range(20, 60))
			if r.Chance(1, 6) {
				w = 0
			}
		default: // large stakes (micro-algo scale)
			w = uint64(r.Range(1, 1000)) * 1000000000
		}
		if i == np-1 && total == 0 && w == 0 {
			w = 7
		}
		total += w
		cs.parts = append(cs.parts, basics.Participant{PK: *k.sec.GetVerifier(), Weight: w})
		cs.keys = append(cs.keys, k)
	}
	r.Fill(cs.data[:])
	var err error
	cs.tree, err = merklearray.BuildVectorCommitmentTree(basics.ParticipantsArray(cs.parts), crypto.HashFactory{HashType: HashType})
	if err != nil {
		c.Harness("participants tree: %v", err)
	}
	// proven weight: consensus-like 30%, or PRNG fraction; strength target small or the consensus value
	switch r.Intn(4) {
	case 0:
		cs.pw, _ = basics.Muldiv(total, uint64(30), uint64(100))
	case 1:
		cs.pw, _ = basics.Muldiv(total, uint64(r.Range(1, 90)), uint64(100))
	case 2:
		cs.pw = total / 2
	default:
		cs.pw, _ = basics.Muldiv(total, uint64(r.Range(5, 60)), uint64(100))
	}
	if cs.pw == 0 {
		cs.pw = 1
	}
	cs.lnPW, _ = LnIntApproximation(cs.pw)
	cs.target = []uint64{4, 8, 16, 32, 64, 256}[r.Intn(6)]
	cs.prover, err = MakeProver(cs.data, cs.round, cs.pw, cs.parts, cs.tree, cs.target)
	if err != nil {
		c.Harness("MakeProver: %v", err)
	}
	return cs
}

// sign returns participant pos's signature on (data, round).
func (cs *c39case) sign(c *kit.Ctx, pos uint64, data MessageHash, round uint64) (merklesignature.Signature, bool) {
	sig, err := cs.keys[pos].sec.GetSigner(round).SignBytes(data[:])
	if err != nil {
		return sig, false
	}
	return sig, true
}

// chooseSigners picks positions until the signed weight reaches the wanted level.
func (cs *c39case) chooseSigners(r *kit.Rand, want uint64) {
	order := r.Perm(len(cs.parts))
	cs.signers, cs.sw = nil, 0
	for _, i := range order {
		if cs.sw >= want {
			break
		}
		if cs.parts[i].Weight == 0 {
			continue
		}
		cs.signers = append(cs.signers, uint64(i))
		cs.sw += cs.parts[i].Weight
	}
	sort.Slice(cs.signers, func(a, b int) bool { return cs.signers[a] < cs.signers[b] })
}

func TestVerifC39Proofs(t *testing.T) {
	c := kit.Start(t, "C39", "proofs")
	defer c.Finish()
	ncases := c.N(64, 1200)
	maxParts := c.N(24, 64)
	c.Rule(fmt.Sprintf("%d PRNG cases: 1..%d participants holding real merklesignature keys of 8 (firstValid,lastValid,lifetime) shapes, weight shapes equal/geometric/one dominant/PRNG with zeros/large, proven weight 30%%, 50%% or PRNG fraction of the total, strength target in {4,8,16,32,64,256}, round 512 or 513, signer subsets aiming at: everything, just above, well above, exactly at, and below the proven weight; valid proofs are verified (also after msgpack), then ~60 single-field tamperings each (message, round, signature, reveal, participant, weight, position, signed weight, commitments, merkle proofs, salt, verifier inputs) plus proofs with smuggled invalid signatures. distinct = (weight shape class, participants bucket, signer class, reveals bucket, target)", ncases, maxParts))
	c.Assume("Falcon, sumhash and SHAKE256 as primitives; key material comes from the system RNG inside merklesignature.New (cases and verdicts do not depend on it)")
	c.Assume("legitimate acceptances of tampered inputs are those listed in the harness header, each decided by an exact side computation (key-lifetime window, reference coin sampler, verifyWeights)")
	pool := c39makeKeys(c, c.N(32, 72))
	var wg sync.WaitGroup
	ch := make(chan int, 16)
	for w := 0; w < 8; w++ {
		wg.Add(1)
		go func() {
			defer wg.Done()
			for i := range ch {
				if c.Violations() > 20 {
					continue
				}
				c39runCase(c, pool, i, maxParts)
			}
		}()
	}
	for i := 0; i < ncases; i++ {
		ch <- i
	}
	close(ch)
	wg.Wait()
	c.Require("valid_proofs_verified", 30)
	c.Require("tamperings_rejected", 1500)
	c.Require("below_threshold_refused", 5)
	c.Require("invalid_signatures_refused_by_IsValid", 30)
	c.Require("poisoned_proofs_built", 5)
	for _, op := range []string{"message", "round", "signature", "reveal", "weight", "participant", "position", "signed-weight", "sig-commitment", "merkle-proof", "salt", "participants-commitment", "proven-weight", "strength-target"} {
		c.Require("rejected:"+op, 10)
	}
}

func c39runCase(c *kit.Ctx, pool []c39key, i int, maxParts int) {
	r := c.Rand(39, uint64(i))
	cs := c39build(c, r, pool, fmt.Sprintf("case %d", i), maxParts)
	total := uint64(0)
	for _, p := range cs.parts {
		total += p.Weight
	}
	class := r.Intn(6)
	var want uint64
	switch class {
	case 0:
		want = total // everybody signs
	case 1:
		want = cs.pw + 1 // just above
	case 2:
		want = cs.pw + (total-cs.pw)/2
	case 3:
		want = cs.pw * 2
	case 4:
		want = cs.pw // may end exactly at or slightly above
	default:
		want = cs.pw / 2 // below
	}
	cs.chooseSigners(r, want)
	if class == 5 && cs.sw > cs.pw { // make sure a below-threshold set exists
		for cs.sw > cs.pw && len(cs.signers) > 0 {
			last := cs.signers[len(cs.signers)-1]
			cs.sw -= cs.parts[last].Weight
			cs.signers = cs.signers[:len(cs.signers)-1]
		}
	}
	// IsValid must refuse signatures that are not this participant's on this message in this round's key window
	if len(cs.signers) > 0 {
		pos := cs.signers[r.Intn(len(cs.signers))]
		other := MessageHash{}
		r.Fill(other[:])
		type bad struct {
			what string
			sig  merklesignature.Signature
			ok   bool
		}
		var bads []bad
		s1, ok1 := cs.sign(c, pos, other, cs.round)
		bads = append(bads, bad{"signature on another message", s1, ok1})
		l := cs.parts[pos].PK.KeyLifetime
		for _, orr := range []uint64{cs.round + l, cs.round - l} {
			s2, ok2 := cs.sign(c, pos, cs.data, orr)
			bads = append(bads, bad{fmt.Sprintf("signature with the key of round %d", orr), s2, ok2})
		}
		if o := uint64(r.Intn(len(cs.parts))); cs.parts[o].PK.Commitment != cs.parts[pos].PK.Commitment {
			s3, ok3 := cs.sign(c, o, cs.data, cs.round)
			bads = append(bads, bad{fmt.Sprintf("signature by participant %d", o), s3, ok3})
		}
		for _, b := range bads {
			if !b.ok {
				continue
			}
			b := b
			var err error
			if c.Guard("IsValid", cs.describe(), func() { err = cs.prover.IsValid(pos, &b.sig, true) }) {
				continue
			}
			c.Eval(1)
			if err == nil {
				c.Violation("prover-accepts-invalid-signature", map[string]any{"case": cs.describe(), "position": pos, "what": b.what})
			} else {
				c.Count("invalid_signatures_refused_by_IsValid", 1)
			}
		}
	}
	// honest signatures
	for _, pos := range cs.signers {
		sig, ok := cs.sign(c, pos, cs.data, cs.round)
		if !ok {
			c.Harness("participant %d cannot sign round %d (%v)", pos, cs.round, cs.describe())
		}
		var err error
		c.Guard("IsValid/Add", cs.describe(), func() {
			if err = cs.prover.IsValid(pos, &sig, true); err == nil {
				err = cs.prover.Add(pos, sig)
			}
		})
		if err != nil {
			c.Violation("valid-signature-refused", map[string]any{"case": cs.describe(), "position": pos, "err": err.Error()})
			return
		}
	}
	var err error
	if c.Guard("CreateProof", cs.describe(), func() { cs.proof, err = cs.prover.CreateProof() }) {
		return
	}
	c.Eval(1)
	sigClass := "above"
	if cs.sw <= cs.pw {
		sigClass = "not-above"
		if err == nil {
			verr := MkVerifierWithLnProvenWeight(cs.tree.Root(), cs.lnPW, cs.target).Verify(basics.Round(cs.round), cs.data, cs.proof)
			c.Violation("proof-built-without-enough-weight", map[string]any{"case": cs.describe(), "verifies": verr == nil})
		} else {
			c.Count("below_threshold_refused", 1)
		}
		c.Distinct(fmt.Sprintf("below|%d|%d", len(cs.parts)/8, cs.target))
		// smuggle: take the proof of a prover configured with a lower proven weight and present it to the real verifier
		if cs.sw > 1 && len(cs.signers) > 0 {
			low, _ := MakeProver(cs.data, cs.round, cs.sw/2, cs.parts, cs.tree, cs.target)
			for _, pos := range cs.signers {
				sig, _ := cs.sign(c, pos, cs.data, cs.round)
				low.Add(pos, sig)
			}
			if sp, perr := low.CreateProof(); perr == nil {
				c.Eval(1)
				verr := MkVerifierWithLnProvenWeight(cs.tree.Root(), cs.lnPW, cs.target).Verify(basics.Round(cs.round), cs.data, sp)
				if verr == nil {
					c.Violation("accepts-proof-with-signed-weight-not-above-proven", map[string]any{"case": cs.describe(), "proof_built_for_proven_weight": cs.sw / 2})
				} else {
					c.Count("tamperings_rejected", 1)
					c.Count("rejected:proven-weight", 1)
				}
			}
		}
		return
	}
	if err != nil {
		// signed weight above proven weight but too close: the prover may decline (C38 covers that decision)
		c.Count("prover_declined:"+err.Error(), 1)
		return
	}
	honest := c39mut{sp: cs.proof, data: cs.data, round: cs.round, partcom: cs.tree.Root(), lnPW: cs.lnPW, target: cs.target}
	var verr error
	if c.Guard("Verify", cs.describe(), func() { verr = c39verify(&honest) }) {
		return
	}
	c.Eval(1)
	if verr != nil {
		c.Violation("valid-proof-rejected", map[string]any{"case": cs.describe(), "err": verr.Error()})
		return
	}
	rt := honest
	rt.sp = c39clone(c, cs.proof)
	if verr = c39verify(&rt); verr != nil {
		c.Violation("valid-proof-rejected-after-msgpack", map[string]any{"case": cs.describe(), "err": verr.Error()})
		return
	}
	// the verifier built from the proven weight itself (what the ledger does)
	if v, e := MkVerifier(cs.tree.Root(), cs.pw, cs.target); e != nil || v.Verify(basics.Round(cs.round), cs.data, cs.proof) != nil {
		c.Violation("valid-proof-rejected-by-MkVerifier", map[string]any{"case": cs.describe()})
	}
	c.Eval(2)
	c.Count("valid_proofs_verified", 1)
	c.Max("max_reveals", int64(len(cs.proof.PositionsToReveal)))
	// sanity of the monitor's own coin reference: it must reproduce the honest proof
	if !c39coinsFit(cs.tree.Root(), cs.lnPW, cs.data, cs.proof) {
		c.Harness("reference coin sampler disagrees with a proof that verifies (%v)", cs.describe())
	}
	wshape := "mixed"
	if len(c39revealed(cs.proof)) == 1 {
		wshape = "single-revealed-position"
	}
	c.Distinct(fmt.Sprintf("%s|%d|%s|%d|%d|%d", wshape, len(cs.parts)/8, sigClass, class, len(cs.proof.PositionsToReveal)/16, cs.target))
	if i < 3 {
		c.Sample(cs.describe())
	}

	for _, m := range cs.mutations(c, r) {
		m := m
		var merr error
		if c.Guard("Verify(tampered)", map[string]any{"case": cs.describe(), "tampering": m.detail}, func() { merr = c39verify(m) }) {
			continue
		}
		c.Eval(1)
		if merr != nil {
			c.Count("tamperings_rejected", 1)
			c.Count("rejected:"+m.op, 1)
			continue
		}
		if m.legit() {
			c.Count("tamperings_accepted_by_design:"+m.op, 1)
			continue
		}
		c.Violation("accepts-tampered-"+m.op, map[string]any{"case": cs.describe(), "tampering": m.detail,
			"revealed_positions": c39revealed(cs.proof), "proof_msgpack_hex": fmt.Sprintf("%x", protocol.Encode(m.sp)),
			"verifier": map[string]any{"participants_commitment": fmt.Sprintf("%x", []byte(m.partcom)), "ln_proven_weight": m.lnPW, "strength_target": m.target, "round": m.round, "message_hash": fmt.Sprintf("%x", m.data)}})
	}

	// smuggled invalid signatures: Add() does not check, so a dishonest prover can commit to them; the proof may
	// verify only if no invalid slot is revealed
	non := []uint64{}
	in := map[uint64]bool{}
	for _, s := range cs.signers {
		in[s] = true
	}
	for p := range cs.parts {
		if !in[uint64(p)] && cs.parts[p].Weight > 0 {
			non = append(non, uint64(p))
		}
	}
	poison := func(what string, positions []uint64, mk func(pos uint64) (merklesignature.Signature, bool)) {
		pv, _ := MakeProver(cs.data, cs.round, cs.pw, cs.parts, cs.tree, cs.target)
		bad := map[uint64]bool{}
		for _, pos := range cs.signers {
			sig, _ := cs.sign(c, pos, cs.data, cs.round)
			for _, b := range positions {
				if b == pos {
					if s2, ok := mk(pos); ok {
						sig = s2
						bad[pos] = true
					}
				}
			}
			pv.Add(pos, sig)
		}
		for _, b := range positions {
			if !in[b] {
				if s2, ok := mk(b); ok {
					if pv.Add(b, s2) == nil {
						bad[b] = true
					}
				}
			}
		}
		if len(bad) == 0 {
			return
		}
		var sp *StateProof
		var perr error
		if c.Guard("CreateProof(poisoned)", cs.describe(), func() { sp, perr = pv.CreateProof() }) || perr != nil {
			return
		}
		c.Count("poisoned_proofs_built", 1)
		lnPW := cs.lnPW
		verr := MkVerifierWithLnProvenWeight(cs.tree.Root(), lnPW, cs.target).Verify(basics.Round(cs.round), cs.data, sp)
		c.Eval(1)
		hit := []uint64{}
		for p := range sp.Reveals {
			if bad[p] {
				hit = append(hit, p)
			}
		}
		switch {
		case verr == nil && len(hit) > 0:
			c.Violation("accepts-invalid-signature-in-reveal", map[string]any{"case": cs.describe(), "what": what, "invalid_positions_revealed": hit,
				"proof_msgpack_hex": fmt.Sprintf("%x", protocol.Encode(sp))})
		case verr == nil:
			c.Count("poisoned_proofs_verifying_without_revealing_an_invalid_slot", 1)
		case len(hit) > 0:
			c.Count("poisoned_proofs_rejected", 1)
		default:
			// rejected although no invalid slot was revealed: the honest part of such a proof is valid, so this would be a completeness failure
			c.Violation("rejects-proof-whose-reveals-are-all-valid", map[string]any{"case": cs.describe(), "what": what, "err": verr.Error()})
		}
	}
	other := MessageHash{}
	r.Fill(other[:])
	pick := func(from []uint64, k int) []uint64 {
		if len(from) == 0 {
			return nil
		}
		var out []uint64
		for _, j := range r.Perm(len(from)) {
			if len(out) < k {
				out = append(out, from[j])
			}
		}
		return out
	}
	poison("signers' signatures on another message", pick(cs.signers, 1+r.Intn(3)), func(pos uint64) (merklesignature.Signature, bool) {
		return cs.sign(c, pos, other, cs.round)
	})
	poison("non-signers added with signatures on another message", pick(non, 1+r.Intn(3)), func(pos uint64) (merklesignature.Signature, bool) {
		return cs.sign(c, pos, other, cs.round)
	})
	poison("non-signers added with another participant's signature", pick(non, 1+r.Intn(2)), func(pos uint64) (merklesignature.Signature, bool) {
		o := cs.signers[r.Intn(len(cs.signers))]
		if bytes.Equal(cs.parts[o].PK.Commitment[:], cs.parts[pos].PK.Commitment[:]) {
			return merklesignature.Signature{}, false
		}
		return cs.sign(c, o, cs.data, cs.round)
	})
	poison("signers' signatures made with the key of another lifetime window", pick(cs.signers, 1+r.Intn(2)), func(pos uint64) (merklesignature.Signature, bool) {
		l := cs.parts[pos].PK.KeyLifetime
		if s, ok := cs.sign(c, pos, cs.data, cs.round+l); ok {
			return s, true
		}
		return cs.sign(c, pos, cs.data, cs.round-l)
	})
}
