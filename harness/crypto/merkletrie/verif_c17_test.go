package merkletrie_test

// C17: the merkle trie root depends only on the element set (not on the order of
// adds/deletes, commits, evictions, reloads from storage, or the memory configuration).

import (
	"bytes"
	"fmt"
	"sort"
	"sync"
	"testing"

	"github.com/algorand/go-algorand/crypto"
	"github.com/algorand/go-algorand/crypto/merkletrie"
	"verif.local/kit"
)

// refRoot computes the root from the set alone, following the documented node layout:
// a subtree holding one key is a leaf carrying the remaining suffix; otherwise an interior
// node hashing len(path)|path|{kind,len(childhash),index byte,childhash}* over children sorted by byte.
func refRoot(keys [][]byte) crypto.Digest {
	if len(keys) == 0 {
		return crypto.Digest{}
	}
	ks := make([][]byte, len(keys))
	copy(ks, keys)
	sort.Slice(ks, func(i, j int) bool { return bytes.Compare(ks[i], ks[j]) < 0 })
	h, leaf := refNode(ks, 0)
	if leaf {
		return crypto.Hash(append([]byte{0}, h...))
	}
	return crypto.Hash(append([]byte{1}, h...))
}

func refNode(ks [][]byte, depth int) ([]byte, bool) {
	if len(ks) == 1 {
		return ks[0][depth:], true
	}
	acc := []byte{byte(depth)}
	acc = append(acc, ks[0][:depth]...)
	for i := 0; i < len(ks); {
		b := ks[i][depth]
		j := i
		for j < len(ks) && ks[j][depth] == b {
			j++
		}
		ch, leaf := refNode(ks[i:j], depth+1)
		if leaf {
			acc = append(acc, 0)
		} else {
			acc = append(acc, 1)
		}
		acc = append(acc, byte(len(ch)), b)
		acc = append(acc, ch...)
		i = j
	}
	d := crypto.Hash(acc)
	return d[:], false
}

// snapCommitter is an in-memory committer that can be cloned (to model reload after a crash:
// pages are stored inside one DB transaction by the ledger, so a reload sees the last Commit).
type snapCommitter struct{ m map[uint64][]byte }

func (s *snapCommitter) StorePage(page uint64, content []byte) error {
	if content == nil {
		delete(s.m, page)
	} else {
		s.m[page] = append([]byte(nil), content...)
	}
	return nil
}
func (s *snapCommitter) LoadPage(page uint64) ([]byte, error) { return s.m[page], nil }
func (s *snapCommitter) clone() *snapCommitter {
	c := &snapCommitter{m: make(map[uint64][]byte, len(s.m))}
	for k, v := range s.m {
		c.m[k] = append([]byte(nil), v...)
	}
	return c
}

type trieSim struct {
	cfg       merkletrie.MemoryConfig
	com       *snapCommitter
	t         *merkletrie.Trie
	set       map[string]bool // model: current set
	committed map[string]bool // model: set at last completed commit
	dirty     bool
}

func newSim(cfg merkletrie.MemoryConfig) (*trieSim, error) {
	s := &trieSim{cfg: cfg, com: &snapCommitter{m: map[uint64][]byte{}}, set: map[string]bool{}, committed: map[string]bool{}}
	t, err := merkletrie.MakeTrie(s.com, cfg)
	s.t = t
	return s, err
}

func cloneSet(m map[string]bool) map[string]bool {
	c := make(map[string]bool, len(m))
	for k := range m {
		c[k] = true
	}
	return c
}

func setKeys(m map[string]bool) [][]byte {
	out := make([][]byte, 0, len(m))
	for k := range m {
		out = append(out, []byte(k))
	}
	sort.Slice(out, func(i, j int) bool { return bytes.Compare(out[i], out[j]) < 0 })
	return out
}

const (
	opAdd = iota
	opDel
	opCommit
	opEvictCommit
	opEvict
	opReload
	opRoot
)

type op struct {
	Kind int
	Key  []byte
}

func (o op) String() string {
	n := []string{"add", "del", "commit", "evict(commit)", "evict", "reload", "root"}[o.Kind]
	if o.Kind <= opDel {
		return fmt.Sprintf("%s(%x)", n, o.Key)
	}
	return n
}

// apply returns a non-empty finding key on violation.
func (s *trieSim) apply(o op, c *kit.Ctx) (string, string) {
	switch o.Kind {
	case opAdd:
		ok, err := s.t.Add(o.Key)
		if err != nil {
			return "unexpected-error", "Add: " + err.Error()
		}
		if ok == s.set[string(o.Key)] {
			return "membership-bit", fmt.Sprintf("Add(%x) returned %v but model has=%v", o.Key, ok, s.set[string(o.Key)])
		}
		if ok {
			s.set[string(o.Key)] = true
			s.dirty = true
		}
	case opDel:
		ok, err := s.t.Delete(o.Key)
		if err != nil {
			return "unexpected-error", "Delete: " + err.Error()
		}
		if ok != s.set[string(o.Key)] {
			return "membership-bit", fmt.Sprintf("Delete(%x) returned %v but model has=%v", o.Key, ok, s.set[string(o.Key)])
		}
		if ok {
			delete(s.set, string(o.Key))
			s.dirty = true
		}
	case opCommit:
		if _, err := s.t.Commit(); err != nil {
			return "unexpected-error", "Commit: " + err.Error()
		}
		s.committed = cloneSet(s.set)
		s.dirty = false
	case opEvictCommit:
		n, err := s.t.Evict(true)
		if err != nil {
			return "unexpected-error", "Evict(true): " + err.Error()
		}
		if n > 0 {
			c.Count("evictions_dropping_nodes", 1)
		}
		s.committed = cloneSet(s.set)
		s.dirty = false
	case opEvict:
		n, err := s.t.Evict(false)
		if err != nil {
			if err == merkletrie.ErrUnableToEvictPendingCommits {
				return "", ""
			}
			return "unexpected-error", "Evict(false): " + err.Error()
		}
		if n > 0 {
			c.Count("evictions_dropping_nodes", 1)
		}
	case opReload:
		// crash + restart: a new trie over a copy of the storage as of the last completed commit.
		// (Commit is atomic at the ledger level; StorePage calls of one Commit are one DB transaction.)
		if s.dirty {
			// storage only holds the committed state; uncommitted modifications are lost
			s.set = cloneSet(s.committed)
			s.dirty = false
		}
		s.com = s.com.clone()
		t, err := merkletrie.MakeTrie(s.com, s.cfg)
		if err != nil {
			return "unexpected-error", "reload MakeTrie: " + err.Error()
		}
		s.t = t
		c.Count("reloads", 1)
	case opRoot:
		return s.checkRoot(c)
	}
	return "", ""
}

func (s *trieSim) checkRoot(c *kit.Ctx) (string, string) {
	got, err := s.t.RootHash() // commits if modified — except on an EMPTY trie, where it returns early
	if err != nil {
		return "unexpected-error", "RootHash: " + err.Error()
	}
	if s.dirty && len(s.set) > 0 {
		s.committed = cloneSet(s.set)
		s.dirty = false
	}
	keys := setKeys(s.set)
	want := refRoot(keys)
	c.Eval(1)
	if got != want {
		return "root-vs-reference", fmt.Sprintf("root %v != reference %v for set %x", got, want, keys)
	}
	// oracle 1: fresh trie, sorted insertion, default-ish config, no commit/evict
	fresh, _ := merkletrie.MakeTrie(nil, merkletrie.MemoryConfig{NodesCountPerPage: 116, CachedNodesCount: 1 << 20, PageFillFactor: 0.95, MaxChildrenPagesThreshold: 32})
	for _, k := range keys {
		if _, err := fresh.Add(k); err != nil {
			return "unexpected-error", "fresh Add: " + err.Error()
		}
	}
	fr, err := fresh.RootHash()
	if err != nil {
		return "unexpected-error", "fresh RootHash: " + err.Error()
	}
	if fr != got {
		return "root-vs-fresh", fmt.Sprintf("root %v != fresh-build root %v for set %x", got, fr, keys)
	}
	return "", ""
}

func runSeq(c *kit.Ctx, cfg merkletrie.MemoryConfig, ops []op, cfgName string) {
	var fk, msg string
	var at int
	panicked := c.Guard("trie", map[string]any{"cfg": cfgName, "ops": fmt.Sprint(ops)}, func() {
		s, err := newSim(cfg)
		if err != nil {
			fk, msg = "unexpected-error", "MakeTrie: "+err.Error()
			return
		}
		for i, o := range ops {
			if fk, msg = s.apply(o, c); fk != "" {
				at = i
				return
			}
		}
		at = len(ops)
		fk, msg = s.checkRoot(c)
		kinds := 0
		for _, o := range ops {
			kinds |= 1 << o.Kind
		}
		c.Distinct(fmt.Sprintf("%s|%x|%d", cfgName, setKeys(s.set), kinds))
	})
	if panicked {
		return
	}
	if fk != "" {
		c.Violation(fk, map[string]any{"cfg": cfgName, "config": fmt.Sprintf("%+v", cfg), "ops": fmt.Sprint(ops), "failed_at_op": at, "message": msg})
	}
}

// replayFails re-runs ops on a fresh simulator and returns the finding key ("" if none).
func replayFails(cfg merkletrie.MemoryConfig, ops []op) (fk string) {
	defer func() {
		if r := recover(); r != nil {
			fk = "panic:trie"
		}
	}()
	c := kit.Start(&testing.T{}, "C17", "shrink")
	s, err := newSim(cfg)
	if err != nil {
		return "unexpected-error"
	}
	for _, o := range ops {
		if fk, _ = s.apply(o, c); fk != "" {
			return fk
		}
	}
	fk, _ = s.checkRoot(c)
	return fk
}

func TestVerifC17Exhaustive(t *testing.T) {
	c := kit.Start(t, "C17", "exhaustive")
	defer c.Finish()
	c.Rule("all operation sequences over the alphabet {add k, delete k, commit, evict(commit), evict, reload-from-storage} up to a bounded length over small key universes sharing prefixes, for several page/cache configurations; after each sequence RootHash is compared with a recursive reference computed from the set and with a freshly built trie; distinct = distinct (config, final set, set of op kinds used)")
	c.Assume("reload models a restart at the last completed Commit (the ledger stores the pages of one Commit in one DB transaction)")
	type uni struct {
		keys   [][]byte
		maxLen int
	}
	u4 := [][]byte{{0, 0, 0}, {0, 0, 1}, {0, 1, 0}, {1, 0, 0}}
	u6 := append(append([][]byte{}, u4...), []byte{0, 0, 2}, []byte{0, 1, 1})
	p2c1 := merkletrie.MemoryConfig{NodesCountPerPage: 2, CachedNodesCount: 1, PageFillFactor: 0.5, MaxChildrenPagesThreshold: 1}
	p3c2 := merkletrie.MemoryConfig{NodesCountPerPage: 3, CachedNodesCount: 2, PageFillFactor: 0.95, MaxChildrenPagesThreshold: 2}
	p116 := merkletrie.MemoryConfig{NodesCountPerPage: 116, CachedNodesCount: 16, PageFillFactor: 0.95, MaxChildrenPagesThreshold: 32}
	type cfgT struct {
		name string
		cfg  merkletrie.MemoryConfig
	}
	type job struct {
		uni
		cfgs []cfgT
	}
	var unis []job
	if c.Quick() {
		unis = []job{{uni{u4, 5}, []cfgT{{"p2c1", p2c1}, {"p3c2", p3c2}}}, {uni{u6, 4}, []cfgT{{"p2c1", p2c1}, {"p3c2", p3c2}}}}
	} else {
		unis = []job{{uni{u4, 6}, []cfgT{{"p2c1", p2c1}}}, {uni{u4, 5}, []cfgT{{"p3c2", p3c2}, {"p116", p116}}},
			{uni{u6, 5}, []cfgT{{"p2c1", p2c1}}}, {uni{u6, 4}, []cfgT{{"p3c2", p3c2}, {"p116", p116}}}}
	}
	for _, u := range unis {
		var alphabet []op
		for _, k := range u.keys {
			alphabet = append(alphabet, op{opAdd, k})
		}
		for _, k := range u.keys {
			alphabet = append(alphabet, op{opDel, k})
		}
		alphabet = append(alphabet, op{Kind: opCommit}, op{Kind: opEvictCommit}, op{Kind: opEvict}, op{Kind: opReload})
		for _, cf := range u.cfgs {
			// work units = first operation (always an add) x second operation; enumerated by 16 workers
			type unit struct{ a, b int }
			units := make(chan unit, 1024)
			var wg sync.WaitGroup
			for w := 0; w < 16; w++ {
				wg.Add(1)
				go func() {
					defer wg.Done()
					for un := range units {
						seq := make([]op, 0, u.maxLen)
						var rec func(depth int)
						rec = func(depth int) {
							if c.Violations() > 20 {
								return
							}
							runSeq(c, cf.cfg, seq, cf.name)
							c.Count("sequences", 1)
							if depth == u.maxLen {
								return
							}
							for _, a := range alphabet {
								seq = append(seq, a)
								rec(depth + 1)
								seq = seq[:len(seq)-1]
							}
						}
						seq = append(seq, alphabet[un.a])
						if un.b < 0 {
							runSeq(c, cf.cfg, seq, cf.name)
							c.Count("sequences", 1)
							continue
						}
						seq = append(seq, alphabet[un.b])
						rec(2)
					}
				}()
			}
			for a := range alphabet {
				// prune: sequences that start with a no-op on the empty trie add nothing
				if alphabet[a].Kind != opAdd {
					continue
				}
				units <- unit{a, -1}
				for b := range alphabet {
					units <- unit{a, b}
				}
			}
			close(units)
			wg.Wait()
		}
	}
	c.Exhaustive()
	c.Sample(map[string]any{"universe": "4 keys of length 3 sharing prefixes", "alphabet": 12, "max_len": unis[0].maxLen})
	c.Require("sequences", 1000)
	c.Require("reloads", 10)
}

func TestVerifC17Random(t *testing.T) {
	c := kit.Start(t, "C17", "random")
	defer c.Finish()
	c.Rule("random operation sequences (10^3-10^4 ops) over 32-byte keys with clustered prefixes under PRNG-chosen page sizes, cache sizes, fill factors and page thresholds, with commits, evictions and reloads; root checked against the recursive reference and a fresh build at PRNG-chosen points; distinct = distinct (config, set size bucket, ops-kinds) at check points")
	nseq := c.N(40, 1200)
	for i := 0; i < nseq; i++ {
		r := c.Rand(17, uint64(i))
		cfg := merkletrie.MemoryConfig{
			NodesCountPerPage:         []int64{2, 3, 8, 116}[r.Intn(4)],
			CachedNodesCount:          []int{1, 16, 1 << 20}[r.Intn(3)],
			PageFillFactor:            []float32{0.1, 0.5, 0.95, 1.0}[r.Intn(4)],
			MaxChildrenPagesThreshold: []uint64{1, 2, 32}[r.Intn(3)],
		}
		cfgName := fmt.Sprintf("%+v", cfg)
		klen := 32
		pool := make([][]byte, 0, 64)
		npool := r.Range(4, 200)
		for len(pool) < npool {
			k := r.Bytes(klen)
			if len(pool) > 0 && r.Chance(3, 4) {
				// share a random-length prefix with an existing key
				base := pool[r.Intn(len(pool))]
				n := r.Intn(klen)
				copy(k, base[:n])
			}
			pool = append(pool, k)
		}
		nops := r.Range(50, c.N(1500, 10000))
		var fk, msg string
		var trace []string
		var all []op
		panicked := c.Guard("trie", map[string]any{"case": i, "cfg": cfgName}, func() {
			s, err := newSim(cfg)
			if err != nil {
				fk, msg = "unexpected-error", "MakeTrie: "+err.Error()
				return
			}
			kinds := 0
			for j := 0; j < nops; j++ {
				var o op
				switch r.Pick([]int{40, 30, 4, 3, 3, 2, 4}) {
				case 0:
					o = op{opAdd, pool[r.Intn(len(pool))]}
				case 1:
					o = op{opDel, pool[r.Intn(len(pool))]}
				case 2:
					o = op{Kind: opCommit}
				case 3:
					o = op{Kind: opEvictCommit}
				case 4:
					o = op{Kind: opEvict}
				case 5:
					o = op{Kind: opReload}
				case 6:
					o = op{Kind: opRoot}
				}
				kinds |= 1 << o.Kind
				all = append(all, o)
				if len(trace) < 400 {
					trace = append(trace, o.String())
				}
				c.Count("ops", 1)
				if fk, msg = s.apply(o, c); fk != "" {
					msg = fmt.Sprintf("op %d %s: %s", j, o, msg)
					return
				}
				if o.Kind == opRoot {
					c.Distinct(fmt.Sprintf("%s|%d|%d", cfgName, len(s.set)/8, kinds))
				}
			}
			fk, msg = s.checkRoot(c)
			c.Distinct(fmt.Sprintf("%s|%d|%d", cfgName, len(s.set)/8, kinds))
			if i < 3 {
				c.Sample(map[string]any{"case": i, "config": cfgName, "ops": nops, "final_set_size": len(s.set), "first_ops": trace[:min(12, len(trace))]})
			}
		})
		if !panicked && fk != "" {
			small := kit.Shrink(all, 3000, func(ops []op) bool { return replayFails(cfg, ops) == fk })
			c.Violation(fk, map[string]any{"case": i, "config": cfgName, "message": msg, "minimised_ops": fmt.Sprint(small), "first_ops": trace})
		}
	}
	c.Require("ops", 1000)
	c.Require("reloads", 5)
	c.Require("evictions_dropping_nodes", 1)
}
