package crypto

// C36: participation keys (one-time signature secrets) are forward secure.
//
// Model: identifiers (batch, offset) are ordered lexicographically; the key covers batches
// [start, start+numBatches) and offsets [0, dilution). After DeleteBeforeFineGrained(cur, dilution) calls the
// watermark is the maximum cur seen. Then
//   (1) Sign(id) for id < watermark must not verify                         (forward security through the API)
//   (2) Sign(id) for id >= watermark inside the key's range must verify      (later rounds stay signable)
//   (3) no secret that is able to certify an identifier < watermark may remain in the live structure, in its
//       persisted encoding (Snapshot -> msgpack, what a restart reloads) or in the structure decoded from it:
//       checked (a) by actually forging a signature for an earlier identifier from every remaining secret and
//       (b) by searching the encoding for the seeds of secrets recorded before the deletion.
// Not demanded (legitimate): wiping of process memory behind re-sliced arrays (the code says it does not),
// anything about identifiers whose offset is >= dilution (they are not rounds), anything about ids before the
// key's first batch.

import (
	"bytes"
	"fmt"
	"sync"
	"testing"

	"github.com/algorand/go-algorand/logging"
	"github.com/algorand/go-algorand/protocol"
	"verif.local/kit"
)

type c36msg []byte

func (m c36msg) ToBeHashed() (protocol.HashID, []byte) { return protocol.Vote, m }

type c36rng struct{ r *kit.Rand }

func (g c36rng) RandBytes(b []byte) { g.r.Fill(b) }

type c36ID = OneTimeSignatureIdentifier

func c36less(a, b c36ID) bool { return a.Batch < b.Batch || (a.Batch == b.Batch && a.Offset < b.Offset) }

// a secret seen in the structure at some time, with what it can certify
type c36secret struct {
	seed     [32]byte
	batchKey bool // true: can certify any offset of batch; false: certifies exactly (batch, offset)
	batch    uint64
	offset   uint64
}

// stale: the secret can certify some round identifier (offset < dilution) strictly below the watermark
func (s c36secret) stale(wm c36ID) bool {
	if s.batchKey {
		return s.batch < wm.Batch || (s.batch == wm.Batch && wm.Offset > 0)
	}
	return c36less(c36ID{Batch: s.batch, Offset: s.offset}, wm)
}

type c36sim struct {
	start, nb, dil uint64
	s              *OneTimeSignatureSecrets
	rng            c36rng
	wm             c36ID
	recorded       map[[32]byte]c36secret
	history        []c36ID
}

func c36new(r *kit.Rand, start, nb, dil uint64) *c36sim {
	g := c36rng{r}
	m := &c36sim{start: start, nb: nb, dil: dil, rng: g, recorded: map[[32]byte]c36secret{}}
	m.s = GenerateOneTimeSignatureSecretsRNG(start, nb, g)
	m.record(m.s)
	return m
}

func c36secretsOf(s *OneTimeSignatureSecrets) []c36secret {
	var out []c36secret
	for i := range s.Batches {
		var sd [32]byte
		copy(sd[:], s.Batches[i].SK[:32])
		out = append(out, c36secret{seed: sd, batchKey: true, batch: s.FirstBatch + uint64(i)})
	}
	for j := range s.Offsets {
		var sd [32]byte
		copy(sd[:], s.Offsets[j].SK[:32])
		out = append(out, c36secret{seed: sd, batch: s.FirstBatch - 1, offset: s.FirstOffset + uint64(j)})
	}
	return out
}

func (m *c36sim) record(s *OneTimeSignatureSecrets) {
	for _, x := range c36secretsOf(s) {
		if _, ok := m.recorded[x.seed]; !ok {
			m.recorded[x.seed] = x
		}
	}
}

func (m *c36sim) inRange(id c36ID) bool {
	return id.Batch >= m.start && id.Batch < m.start+m.nb && id.Offset < m.dil
}

func (m *c36sim) witness(extra map[string]any) map[string]any {
	w := map[string]any{"start_batch": m.start, "num_batches": m.nb, "key_dilution": m.dil,
		"delete_before_calls(batch,offset)": fmt.Sprint(m.history), "watermark": fmt.Sprint(m.wm),
		"state": fmt.Sprintf("FirstBatch=%d len(Batches)=%d FirstOffset=%d len(Offsets)=%d", m.s.FirstBatch, len(m.s.Batches), m.s.FirstOffset, len(m.s.Offsets))}
	for k, v := range extra {
		w[k] = v
	}
	return w
}

func (m *c36sim) advance(c *kit.Ctx, cur c36ID) {
	m.history = append(m.history, cur)
	c.Guard("DeleteBeforeFineGrained", m.witness(nil), func() { m.s.DeleteBeforeFineGrained(cur, m.dil) })
	if c36less(m.wm, cur) {
		m.wm = cur
	}
	m.record(m.s) // secrets created by the expansion of a batch
}

// c36forge builds a one-time signature for id from one remaining secret, the way anybody holding that secret could.
func c36forge(s *OneTimeSignatureSecrets, batchIdx, offIdx int, id c36ID, msg Hashable, g RNG) OneTimeSignature {
	if batchIdx >= 0 {
		pk, sk := ed25519GenerateKeyRNG(g)
		return OneTimeSignature{
			Sig: ed25519Sign(sk, HashRep(msg)), PK: pk,
			PK1Sig: ed25519Sign(s.Batches[batchIdx].SK, HashRep(OneTimeSignatureSubkeyOffsetID{SubKeyPK: pk, Batch: id.Batch, Offset: id.Offset})),
			PK2:    s.Batches[batchIdx].PK, PK2Sig: s.Batches[batchIdx].PKSigNew,
		}
	}
	return OneTimeSignature{
		Sig: ed25519Sign(s.Offsets[offIdx].SK, HashRep(msg)), PK: s.Offsets[offIdx].PK, PK1Sig: s.Offsets[offIdx].PKSigNew,
		PK2: s.OffsetsPK2, PK2Sig: s.OffsetsPK2Sig,
	}
}

// checkSecrets runs oracles (1)-(3a) on one secrets object (live, or decoded from the persisted encoding).
func (m *c36sim) checkSecrets(c *kit.Ctx, s *OneTimeSignatureSecrets, which string, r *kit.Rand) {
	msg := c36msg(r.Bytes(8))
	v := s.OneTimeSignatureVerifier
	var ids []c36ID
	for b := m.start; b < m.start+m.nb; b++ {
		for o := uint64(0); o < m.dil; o++ {
			ids = append(ids, c36ID{Batch: b, Offset: o})
		}
	}
	if m.start > 0 {
		ids = append(ids, c36ID{Batch: m.start - 1, Offset: m.dil - 1})
	}
	ids = append(ids, c36ID{Batch: m.start + m.nb, Offset: 0})
	for _, id := range ids {
		var sig OneTimeSignature
		var ok bool
		if c.Guard("Sign/Verify", m.witness(map[string]any{"id": fmt.Sprint(id), "object": which}), func() {
			sig = s.Sign(id, msg)
			ok = v.Verify(id, msg, sig)
		}) {
			continue
		}
		c.Eval(1)
		switch {
		case c36less(id, m.wm):
			if ok {
				c.Violation("signs-deleted-identifier", m.witness(map[string]any{"object": which, "id(batch,offset)": fmt.Sprint(id),
					"what": "Sign produced a signature that verifies for an identifier below the watermark"}))
			} else {
				c.Count("earlier_ids_refused", 1)
			}
		case m.inRange(id):
			if !ok {
				c.Violation("cannot-sign-later-identifier", m.witness(map[string]any{"object": which, "id(batch,offset)": fmt.Sprint(id),
					"what": "Sign did not produce a verifying signature for an identifier >= watermark inside the key's range"}))
			} else {
				c.Count("later_ids_signed", 1)
				// the signature is bound to its identifier and message (otherwise (1) would be meaningless)
				other := c36ID{Batch: id.Batch, Offset: id.Offset + 1}
				if r.Bool() && id.Batch > 0 {
					other = c36ID{Batch: id.Batch - 1, Offset: id.Offset}
				}
				if v.Verify(other, msg, sig) {
					c.Violation("signature-valid-for-other-identifier", m.witness(map[string]any{"object": which, "signed_id": fmt.Sprint(id), "verified_id": fmt.Sprint(other)}))
				}
				if v.Verify(id, append(c36msg{1}, msg...), sig) {
					c.Violation("signature-valid-for-other-message", m.witness(map[string]any{"object": which, "signed_id": fmt.Sprint(id)}))
				}
				c.Eval(2)
			}
		}
	}
	// (3a) forge from whatever is left
	forgeMsg := c36msg("forged vote")
	for i := range s.Batches {
		b := s.FirstBatch + uint64(i)
		early := c36ID{Batch: b, Offset: 0}
		c.Count("remaining_secrets_examined", 1)
		if c36less(early, m.wm) {
			sig := c36forge(s, i, -1, early, forgeMsg, m.rng)
			c.Eval(1)
			if v.Verify(early, forgeMsg, sig) {
				c.Violation("forgeable-from-remaining-batch-key", m.witness(map[string]any{"object": which, "forged_id(batch,offset)": fmt.Sprint(early),
					"what": fmt.Sprintf("Batches[%d] (batch %d) is still present and certifies an identifier below the watermark", i, b)}))
			}
		} else if i == 0 && m.inRange(c36ID{Batch: b, Offset: m.dil - 1}) {
			// positive control for the forging routine itself
			late := c36ID{Batch: b, Offset: m.dil - 1}
			if !v.Verify(late, forgeMsg, c36forge(s, i, -1, late, forgeMsg, m.rng)) {
				c.Harness("forge control failed: a signature built from a live batch key does not verify (%v)", m.witness(nil))
			}
			c.Count("forge_controls_ok", 1)
		}
	}
	for j := range s.Offsets {
		id := c36ID{Batch: s.FirstBatch - 1, Offset: s.FirstOffset + uint64(j)}
		c.Count("remaining_secrets_examined", 1)
		if c36less(id, m.wm) {
			c.Eval(1)
			if v.Verify(id, forgeMsg, c36forge(s, -1, j, id, forgeMsg, m.rng)) {
				c.Violation("forgeable-from-remaining-offset-key", m.witness(map[string]any{"object": which, "forged_id(batch,offset)": fmt.Sprint(id),
					"what": fmt.Sprintf("Offsets[%d] is still present and signs an identifier below the watermark", j)}))
			}
		}
	}
}

// check runs all oracles for the current state.
func (m *c36sim) check(c *kit.Ctx, r *kit.Rand) {
	m.checkSecrets(c, m.s, "live", r)
	// persisted form: exactly what participation.go / participationRegistry.go store
	snap := m.s.Snapshot()
	enc := protocol.Encode(&snap)
	stale := 0
	for _, x := range m.recorded {
		if !x.stale(m.wm) {
			continue
		}
		stale++
		c.Eval(1)
		if bytes.Contains(enc, x.seed[:]) {
			c.Violation("stale-secret-in-encoding", m.witness(map[string]any{"secret_for": fmt.Sprintf("batchKey=%v batch=%d offset=%d", x.batchKey, x.batch, x.offset),
				"what": "the seed of a secret able to certify an identifier below the watermark is present in the msgpack encoding of Snapshot()"}))
		}
	}
	c.Count("stale_secrets_searched_in_encoding", stale)
	// positive control of the search: a live secret must be found in the encoding
	if live := c36secretsOf(m.s); len(live) > 0 {
		if !bytes.Contains(enc, live[0].seed[:]) {
			c.Harness("seed search control failed: live secret not found in encoding")
		}
		c.Count("search_controls_ok", 1)
	}
	var dec OneTimeSignatureSecrets
	if err := protocol.Decode(enc, &dec); err != nil {
		c.Violation("persisted-encoding-does-not-decode", m.witness(map[string]any{"err": err.Error()}))
		return
	}
	dec.rng = m.rng
	m.checkSecrets(c, &dec, "decoded-from-snapshot", r)
	c.Distinct(fmt.Sprintf("%d/%d/%d|%d,%d,%d,%d", m.start, m.nb, m.dil, m.s.FirstBatch, len(m.s.Batches), m.s.FirstOffset, len(m.s.Offsets)))
}

// cur candidates: every identifier of the range plus points just outside it
func c36points(start, nb, dil uint64) []c36ID {
	var p []c36ID
	if start > 0 {
		p = append(p, c36ID{Batch: start - 1, Offset: dil - 1})
	}
	for b := start; b < start+nb; b++ {
		for o := uint64(0); o < dil; o++ {
			p = append(p, c36ID{Batch: b, Offset: o})
		}
	}
	return append(p, c36ID{Batch: start + nb, Offset: 0}, c36ID{Batch: start + nb + 1, Offset: dil - 1})
}

func TestVerifC36Exhaustive(t *testing.T) {
	c := kit.Start(t, "C36", "exhaustive")
	defer c.Finish()
	logging.Base().SetLevel(logging.Error) // Sign warns on every refused identifier
	triples := !c.Quick() && c.Lane != "asan" // the sanitizer lane re-runs singles and pairs (same C code paths, ~5x slower)
	c.Rule("all (numBatches in 1..4) x (keyDilution in {1,2,3,5,8}) x (startBatch 0 or 3; both in thorough): every single DeleteBeforeFineGrained point, every ORDERED pair of points (non-monotone pairs included; the watermark is the max)" +
		map[bool]string{true: ", every monotone triple of points", false: ""}[triples] +
		"; points = every identifier of the range plus one before and two after it. After the last call every identifier of the range (+ one before, one after) is signed and verified on the live object and on the object decoded from the Snapshot encoding; every remaining secret is used to forge an earlier identifier; seeds of secrets recorded before deletion are searched in the encoding. distinct = (config, FirstBatch, len(Batches), FirstOffset, len(Offsets))")
	c.Assume("ed25519 (libsodium fork) signatures are unforgeable without the secret; forward security is judged on the Go-visible structure and its persisted encoding, not on freed or re-sliced process memory (the code documents that it does not wipe memory)")
	type job struct {
		start, nb, dil uint64
		seq            []c36ID
		idx            uint64
	}
	ch := make(chan job, 64)
	var wg sync.WaitGroup
	for w := 0; w < 8; w++ {
		wg.Add(1)
		go func() {
			defer wg.Done()
			for j := range ch {
				if c.Violations() > 20 {
					continue
				}
				r := c.Rand(36, j.start, j.nb, j.dil, j.idx)
				m := c36new(r, j.start, j.nb, j.dil)
				if len(j.seq) == 0 {
					m.check(c, r)
				}
				for _, cur := range j.seq {
					m.advance(c, cur)
				}
				if len(j.seq) > 0 {
					m.check(c, r)
				}
				c.Count("sequences", 1)
				if len(j.seq) > 1 && c36less(j.seq[len(j.seq)-1], m.wm) {
					c.Count("sequences_with_backward_call", 1)
				}
				if j.idx%997 == 0 {
					c.Sample(m.witness(nil))
				}
			}
		}()
	}
	var idx uint64
	for nb := uint64(1); nb <= 4; nb++ {
		for _, dil := range []uint64{1, 2, 3, 5, 8} {
			starts := []uint64{0, 3}
			if c.Quick() {
				starts = []uint64{[]uint64{0, 3}[(nb+dil)%2]}
			}
			for _, start := range starts {
				pts := c36points(start, nb, dil)
				send := func(seq ...c36ID) {
					idx++
					ch <- job{start, nb, dil, append([]c36ID{}, seq...), idx}
				}
				send()
				for _, a := range pts {
					send(a)
					for _, b := range pts {
						send(a, b)
					}
				}
				if triples {
					for i := range pts {
						for j := i; j < len(pts); j++ {
							for k := j; k < len(pts); k++ {
								send(pts[i], pts[j], pts[k])
							}
						}
					}
				}
			}
		}
	}
	close(ch)
	wg.Wait()
	c.Exhaustive()
	c.Require("sequences", 3000)
	c.Require("earlier_ids_refused", 10000)
	c.Require("later_ids_signed", 10000)
	c.Require("remaining_secrets_examined", 1000)
	c.Require("stale_secrets_searched_in_encoding", 1000)
	c.Require("forge_controls_ok", 100)
	c.Require("search_controls_ok", 100)
	c.Require("sequences_with_backward_call", 100)
}
