package driver_test

// C46: wallet keys are deterministic, unique and password-protected (kmd SQLite wallet driver).
//
// Oracle = reference wallet {highest generated index, key set (addr -> secret key), multisig set}.
// The derived sequence D[1..] is obtained as a BLACK BOX from a pristine wallet created from the
// same master derivation key (it only ever calls GenerateKey / ExportKey), so the model predicts for
// the wallet under test - which also imports and deletes keys - exactly which address every
// GenerateKey returns: D[j] for the smallest j > highest whose address is not present. It also
// predicts ListKeys (as a set, never an address twice), the secret returned by ExportKey, that a
// wallet restored from the exported master derivation key regenerates D[1], D[2], ..., and that
// ExportKey / DeleteKey / ExportMasterDerivationKey / DeleteMultisigAddr / Sign* / CheckPassword /
// Init fail with a wrong password and leave keys, multisig addresses and the generation index
// unchanged.
//
// Not demanded (so never reported): the error returned by DeleteKey for an absent key (nil or
// error are both accepted), error texts, the order of ListKeys, rename with a wrong password
// (observation only - the statement does not list it).

import (
	"bytes"
	"fmt"
	"os"
	"sort"
	"sync"
	"testing"

	"github.com/algorand/go-algorand/crypto"
	"github.com/algorand/go-algorand/daemon/kmd/config"
	"github.com/algorand/go-algorand/daemon/kmd/wallet"
	"github.com/algorand/go-algorand/daemon/kmd/wallet/driver"
	"github.com/algorand/go-algorand/data/basics"
	"github.com/algorand/go-algorand/data/transactions"
	"github.com/algorand/go-algorand/logging"
	"github.com/algorand/go-algorand/protocol"
	"verif.local/kit"
)

type c46Key struct {
	addr crypto.Digest
	sk   crypto.PrivateKey
}

type c46Msig struct {
	threshold uint8
	pks       []crypto.PublicKey
}

// c46Wallet = one wallet under test + its reference model.
type c46Wallet struct {
	id, name, pw []byte
	h            wallet.Wallet
	highest      uint64
	keys         map[crypto.Digest]crypto.PrivateKey
	msigs        map[crypto.Digest]c46Msig
	deleted      []uint64 // derived indices that were generated and later deleted
}

type c46Sim struct {
	dir      string
	cfg      config.KMDConfig
	drv      *driver.SQLiteWalletDriver
	mdk      crypto.MasterDerivationKey
	pristine *c46Wallet
	D        []c46Key // D[0] unused
	wallets  []*c46Wallet
	ctr      int
	fresh    uint64 // counter for fresh imported keys (deterministic seeds)
	seedSalt uint64
	cnt      map[string]int
}

// the upstream e2e fixtures lower the scrypt cost the same way ({"scrypt":{"scrypt_n":2},"allow_unsafe_scrypt":true})
func c46Config(dir string) config.KMDConfig {
	cfg := config.DefaultConfig(dir)
	cfg.DriverConfig.SQLiteWalletDriverConfig.UnsafeScrypt = true
	cfg.DriverConfig.SQLiteWalletDriverConfig.ScryptParams = config.ScryptParams{ScryptN: 2, ScryptR: 1, ScryptP: 1}
	return cfg
}

func c46NewDriver(cfg config.KMDConfig) (*driver.SQLiteWalletDriver, error) {
	d := &driver.SQLiteWalletDriver{}
	return d, d.InitWithConfig(cfg, logging.Base())
}

func newC46Sim(dir string, mdk crypto.MasterDerivationKey, salt uint64) (*c46Sim, error) {
	s := &c46Sim{dir: dir, cfg: c46Config(dir), mdk: mdk, D: make([]c46Key, 1), seedSalt: salt, cnt: map[string]int{}}
	var err error
	if s.drv, err = c46NewDriver(s.cfg); err != nil {
		return nil, err
	}
	if s.pristine, err = s.create([]byte("pristine-pw"), mdk); err != nil {
		return nil, err
	}
	return s, nil
}

func (s *c46Sim) create(pw []byte, mdk crypto.MasterDerivationKey) (*c46Wallet, error) {
	s.ctr++
	w := &c46Wallet{id: []byte(fmt.Sprintf("id%04d", s.ctr)), name: []byte(fmt.Sprintf("wallet-%d", s.ctr)), pw: pw,
		keys: map[crypto.Digest]crypto.PrivateKey{}, msigs: map[crypto.Digest]c46Msig{}}
	if err := s.drv.CreateWallet(w.name, w.id, pw, mdk); err != nil {
		return nil, fmt.Errorf("CreateWallet: %w", err)
	}
	return w, s.open(w)
}

func (s *c46Sim) open(w *c46Wallet) error {
	h, err := s.drv.FetchWallet(w.id)
	if err != nil {
		return fmt.Errorf("FetchWallet: %w", err)
	}
	if err = h.Init(w.pw); err != nil {
		return fmt.Errorf("Init(right password): %w", err)
	}
	w.h = h
	return nil
}

// d returns D[j], extending the derived sequence through the pristine wallet when needed.
func (s *c46Sim) d(j uint64) (c46Key, error) {
	for uint64(len(s.D)) <= j {
		a, err := s.pristine.h.GenerateKey(false)
		if err != nil {
			return c46Key{}, fmt.Errorf("pristine GenerateKey: %w", err)
		}
		sk, err := s.pristine.h.ExportKey(a, s.pristine.pw)
		if err != nil {
			return c46Key{}, fmt.Errorf("pristine ExportKey: %w", err)
		}
		s.D = append(s.D, c46Key{a, sk})
	}
	return s.D[j], nil
}

func (s *c46Sim) freshKey() c46Key {
	s.fresh++
	r := kit.NewRand(s.seedSalt, 0xf5e5, s.fresh)
	var seed crypto.Seed
	r.Fill(seed[:])
	sec := crypto.GenerateSignatureSecrets(seed)
	return c46Key{crypto.Digest(sec.SignatureVerifier), crypto.PrivateKey(sec.SK)}
}

// c46Wrong returns a password that is not the right one. The wallet derives its key with scrypt,
// i.e. PBKDF2-HMAC-SHA256, and HMAC zero-pads keys shorter than its block size: passwords that
// differ ONLY by trailing 0x00 bytes are the same key for the primitive (a documented property of
// HMAC, not of the wallet code). Such variants are therefore not "wrong passwords" for this
// monitor; c46SamePassword defines the equivalence and a separate probe records it as an
// observation.
func c46Wrong(pw []byte, variant uint64) []byte {
	var out []byte
	switch variant % 5 {
	case 0:
		out = append(append([]byte(nil), pw...), 'x')
	case 1:
		if len(pw) > 0 {
			out = append([]byte(nil), pw[:len(pw)-1]...)
		} else {
			out = []byte{1}
		}
	case 2:
		if len(pw) > 0 {
			out = []byte{}
		} else {
			out = []byte(" ")
		}
	case 3:
		if len(pw) > 0 {
			out = append([]byte(nil), pw...)
			out[int(variant/5)%len(out)] ^= 1
		} else {
			out = []byte("\x00\x01")
		}
	default:
		out = []byte(fmt.Sprintf("guess-%d", variant))
	}
	if c46SamePassword(out, pw) {
		out = append(bytes.TrimRight(out, "\x00"), 'y')
	}
	return out
}

// c46SamePassword: equal as HMAC keys (both shorter than the 64-byte block): equal after dropping trailing zero bytes.
func c46SamePassword(a, b []byte) bool {
	return bytes.Equal(bytes.TrimRight(a, "\x00"), bytes.TrimRight(b, "\x00"))
}

func (w *c46Wallet) sortedKeys() []crypto.Digest {
	out := make([]crypto.Digest, 0, len(w.keys))
	for a := range w.keys {
		out = append(out, a)
	}
	sort.Slice(out, func(i, j int) bool { return bytes.Compare(out[i][:], out[j][:]) < 0 })
	return out
}

func (w *c46Wallet) sortedMsigs() []crypto.Digest {
	out := make([]crypto.Digest, 0, len(w.msigs))
	for a := range w.msigs {
		out = append(out, a)
	}
	sort.Slice(out, func(i, j int) bool { return bytes.Compare(out[i][:], out[j][:]) < 0 })
	return out
}

// checkState compares everything observable without changing state against the model.
func (s *c46Sim) checkState(w *c46Wallet) (string, string) {
	addrs, err := w.h.ListKeys()
	if err != nil {
		return "unexpected-error", "ListKeys: " + err.Error()
	}
	seen := map[crypto.Digest]bool{}
	for _, a := range addrs {
		if seen[a] {
			return "address-listed-twice", fmt.Sprintf("ListKeys shows %v twice (%d entries)", a, len(addrs))
		}
		seen[a] = true
		if _, ok := w.keys[a]; !ok {
			return "listkeys-vs-model", fmt.Sprintf("ListKeys shows %v which the model does not hold", a)
		}
	}
	for a := range w.keys {
		if !seen[a] {
			return "listkeys-vs-model", fmt.Sprintf("ListKeys lacks %v which the model holds", a)
		}
	}
	ms, err := w.h.ListMultisigAddrs()
	if err != nil {
		return "unexpected-error", "ListMultisigAddrs: " + err.Error()
	}
	mseen := map[crypto.Digest]bool{}
	for _, a := range ms {
		if mseen[a] {
			return "address-listed-twice", fmt.Sprintf("ListMultisigAddrs shows %v twice", a)
		}
		mseen[a] = true
		if _, ok := w.msigs[a]; !ok {
			return "listmsig-vs-model", fmt.Sprintf("ListMultisigAddrs shows %v which the model does not hold", a)
		}
	}
	if len(ms) != len(w.msigs) {
		return "listmsig-vs-model", fmt.Sprintf("ListMultisigAddrs has %d entries, model %d", len(ms), len(w.msigs))
	}
	return "", ""
}

// predict returns the index and key the next GenerateKey must return.
func (s *c46Sim) predict(w *c46Wallet) (uint64, c46Key, error) {
	j := w.highest + 1
	for {
		k, err := s.d(j)
		if err != nil {
			return 0, c46Key{}, err
		}
		if _, present := w.keys[k.addr]; !present {
			return j, k, nil
		}
		j++
	}
}

func (s *c46Sim) generate(w *c46Wallet) (string, string) {
	j, want, err := s.predict(w)
	if err != nil {
		return "harness", err.Error()
	}
	got, err := w.h.GenerateKey(false)
	if err != nil {
		return "unexpected-error", "GenerateKey: " + err.Error()
	}
	s.cnt["generates"]++
	if j != w.highest+1 {
		s.cnt["generates_skipping_imported"]++
	}
	if got != want.addr {
		idx := "not in D[1..highest+8]"
		for i := uint64(1); i <= w.highest+8; i++ {
			if k, e := s.d(i); e == nil && k.addr == got {
				idx = fmt.Sprintf("D[%d]", i)
			}
		}
		_, dup := w.keys[got]
		return "generate-vs-derived-sequence", fmt.Sprintf("GenerateKey returned %v (%s, already present=%v); model (highest=%d) predicts D[%d]=%v", got, idx, dup, w.highest, j, want.addr)
	}
	w.highest = j
	w.keys[got] = want.sk
	return "", ""
}

func c46Payment(sender crypto.Digest) transactions.Transaction {
	return transactions.Transaction{Type: protocol.PaymentTx,
		Header:           transactions.Header{Sender: basics.Address(sender), Fee: basics.MicroAlgos{Raw: 1000}, FirstValid: 1, LastValid: 100},
		PaymentTxnFields: transactions.PaymentTxnFields{Receiver: basics.Address(sender), Amount: basics.MicroAlgos{Raw: 1}}}
}

const (
	c46Generate = iota
	c46ImportFresh
	c46ImportDerived
	c46Delete
	c46Export
	c46ExportMDK
	c46MsigImport
	c46MsigDelete
	c46Sign
	c46Rename
	c46Reopen
	c46Restore
	c46CheckPw
	c46NewDriverInst
	c46NumKinds
)

var c46Names = []string{"generate", "import-fresh", "import-derived", "delete", "export", "export-mdk", "msig-import", "msig-delete", "sign", "rename", "reopen", "restore", "check-password", "new-driver"}

type c46Op struct {
	Kind  int
	W     uint64 // wallet selector
	A, B  uint64 // abstract selectors, resolved against the current model (so sequences stay replayable when shrunk)
	Wrong bool   // use a wrong password
}

func (o c46Op) String() string {
	p := ""
	if o.Wrong {
		p = ",WRONG-PW"
	}
	return fmt.Sprintf("%s(w%d,%d,%d%s)", c46Names[o.Kind], o.W, o.A%1000, o.B%1000, p)
}

func c46GenOp(r *kit.Rand) c46Op {
	k := r.Pick([]int{22, 8, 12, 10, 10, 5, 4, 4, 8, 3, 4, 2, 3, 1})
	o := c46Op{Kind: k, W: r.Uint64(), A: r.Uint64(), B: r.Uint64()}
	switch k {
	case c46Delete, c46Export, c46ExportMDK, c46MsigDelete, c46Sign, c46Rename, c46Reopen, c46CheckPw:
		o.Wrong = r.Chance(1, 2)
	}
	return o
}

// apply runs one operation against the real wallet and the model. Returns a finding key ("" = ok).
func (s *c46Sim) apply(o c46Op) (fk string, msg string) {
	w := s.wallets[o.W%uint64(len(s.wallets))]
	pw := w.pw
	if o.Wrong {
		pw = c46Wrong(w.pw, o.B)
		s.cnt["wrong_password_calls"]++
	}
	keys := w.sortedKeys()
	pickKey := func() (crypto.Digest, bool) {
		if len(keys) > 0 && o.A%8 != 0 {
			return keys[o.A%uint64(len(keys))], true
		}
		return s.freshKey().addr, false // an address the wallet does not hold
	}
	switch o.Kind {
	case c46Generate:
		if o.A%16 == 0 {
			// the sqlite wallet has no mnemonic UX; asking for one must not consume an index
			if _, err := w.h.GenerateKey(true); err == nil {
				return "generate-mnemonic-accepted", "GenerateKey(true) succeeded"
			}
			return s.checkState(w)
		}
		return s.generate(w)
	case c46ImportFresh:
		k := s.freshKey()
		if len(keys) > 0 && o.A%6 == 0 { // re-import of a key already held
			a := keys[o.B%uint64(len(keys))]
			k = c46Key{a, w.keys[a]}
		}
		return s.importKey(w, k)
	case c46ImportDerived:
		// an upcoming member of the derived sequence (must later be skipped), or a passed one
		var j uint64
		if o.A%5 == 0 && w.highest > 0 {
			j = 1 + o.B%w.highest
		} else {
			j = w.highest + 1 + o.B%4
		}
		k, err := s.d(j)
		if err != nil {
			return "harness", err.Error()
		}
		if j > w.highest {
			s.cnt["imports_of_upcoming_derived"]++
		}
		return s.importKey(w, k)
	case c46Delete:
		a, held := pickKey()
		err := w.h.DeleteKey(a, pw)
		if o.Wrong {
			if err == nil {
				return "wrong-password-accepted:DeleteKey", fmt.Sprintf("DeleteKey(%v) with wrong password %q succeeded (held=%v)", a, pw, held)
			}
			s.cnt["wrong_password_rejected"]++
			return s.checkState(w)
		}
		if held {
			if err != nil {
				return "unexpected-error", "DeleteKey(right password): " + err.Error()
			}
			for i := uint64(1); i <= w.highest; i++ {
				if k, e := s.d(i); e == nil && k.addr == a {
					w.deleted = append(w.deleted, i)
					s.cnt["deletes_of_generated"]++
				}
			}
			delete(w.keys, a)
			s.cnt["deletes"]++
		}
		return s.checkState(w)
	case c46Export:
		a, held := pickKey()
		sk, err := w.h.ExportKey(a, pw)
		if o.Wrong {
			if err == nil {
				return "wrong-password-accepted:ExportKey", fmt.Sprintf("ExportKey(%v) with wrong password %q returned a key (held=%v)", a, pw, held)
			}
			s.cnt["wrong_password_rejected"]++
			return s.checkState(w)
		}
		if held {
			if err != nil {
				return "unexpected-error", "ExportKey(right password): " + err.Error()
			}
			if sk != w.keys[a] {
				return "export-vs-model", fmt.Sprintf("ExportKey(%v) returned a different secret than imported/derived", a)
			}
			s.cnt["exports_checked"]++
		} else if err == nil {
			return "export-absent-key", fmt.Sprintf("ExportKey(%v) succeeded for an address the wallet never held / deleted", a)
		}
		return "", ""
	case c46ExportMDK:
		m, err := w.h.ExportMasterDerivationKey(pw)
		if o.Wrong {
			if err == nil {
				return "wrong-password-accepted:ExportMasterDerivationKey", fmt.Sprintf("ExportMasterDerivationKey with wrong password %q succeeded", pw)
			}
			s.cnt["wrong_password_rejected"]++
			return "", ""
		}
		if err != nil {
			return "unexpected-error", "ExportMasterDerivationKey(right password): " + err.Error()
		}
		if m != s.mdk {
			return "mdk-vs-created", "ExportMasterDerivationKey returned a key different from the one the wallet was created from"
		}
		return "", ""
	case c46MsigImport:
		n := 1 + int(o.A%3)
		pks := make([]crypto.PublicKey, 0, n)
		for i := 0; i < n; i++ {
			if len(keys) > 0 && i == 0 {
				pks = append(pks, crypto.PublicKey(keys[o.B%uint64(len(keys))]))
			} else {
				pks = append(pks, crypto.PublicKey(s.freshKey().addr))
			}
		}
		thr := uint8(1 + o.B%uint64(n))
		want, _ := crypto.MultisigAddrGen(1, thr, pks)
		a, err := w.h.ImportMultisigAddr(1, thr, pks)
		if _, held := w.msigs[want]; held {
			if err == nil {
				return "import-duplicate-accepted", fmt.Sprintf("ImportMultisigAddr of %v, already held, succeeded", want)
			}
			return s.checkState(w)
		}
		if err != nil {
			return "unexpected-error", "ImportMultisigAddr: " + err.Error()
		}
		if a != want {
			return "import-address", fmt.Sprintf("ImportMultisigAddr returned %v, the pre-image hashes to %v", a, want)
		}
		w.msigs[a] = c46Msig{thr, pks}
		s.cnt["msig_imports"]++
		return s.checkState(w)
	case c46MsigDelete:
		ms := w.sortedMsigs()
		if len(ms) == 0 {
			return "", ""
		}
		a := ms[o.A%uint64(len(ms))]
		err := w.h.DeleteMultisigAddr(a, pw)
		if o.Wrong {
			if err == nil {
				return "wrong-password-accepted:DeleteMultisigAddr", fmt.Sprintf("DeleteMultisigAddr(%v) with wrong password %q succeeded", a, pw)
			}
			s.cnt["wrong_password_rejected"]++
			return s.checkState(w)
		}
		if err != nil {
			return "unexpected-error", "DeleteMultisigAddr(right password): " + err.Error()
		}
		delete(w.msigs, a)
		return s.checkState(w)
	case c46Sign:
		if len(keys) == 0 {
			return "", ""
		}
		a := keys[o.A%uint64(len(keys))]
		ms := w.sortedMsigs()
		which := o.B % 4
		var err error
		var name string
		switch {
		case which == 0:
			name = "SignTransaction"
			_, err = w.h.SignTransaction(c46Payment(a), crypto.PublicKey{}, pw)
		case which == 1:
			name = "SignProgram"
			_, err = w.h.SignProgram([]byte{1, 32, 1, 1, 34}, a, pw)
		default:
			// multisig signing needs a stored pre-image whose first key the wallet holds
			var ma crypto.Digest
			var mm c46Msig
			found := false
			for _, x := range ms {
				if _, ok := w.keys[crypto.Digest(w.msigs[x].pks[0])]; ok {
					ma, mm, found = x, w.msigs[x], true
					break
				}
			}
			if !found {
				name = "SignTransaction"
				_, err = w.h.SignTransaction(c46Payment(a), crypto.PublicKey(a), pw)
			} else if which == 2 {
				name = "MultisigSignTransaction"
				_, err = w.h.MultisigSignTransaction(c46Payment(ma), mm.pks[0], crypto.MultisigSig{}, pw, crypto.Digest{})
			} else {
				name = "MultisigSignProgram"
				_, err = w.h.MultisigSignProgram([]byte{1, 32, 1, 1, 34}, ma, mm.pks[0], crypto.MultisigSig{}, pw, o.A%2 == 0)
			}
		}
		if o.Wrong {
			if err == nil {
				return "wrong-password-accepted:" + name, fmt.Sprintf("%s with wrong password %q produced a signature for %v", name, pw, a)
			}
			s.cnt["wrong_password_rejected"]++
			s.cnt["wrong_password_sign_rejected"]++
			return s.checkState(w)
		}
		if err != nil {
			return "unexpected-error", name + "(right password, key held): " + err.Error()
		}
		s.cnt["signs_right_password"]++
		return "", ""
	case c46Rename:
		s.ctr++
		nn := []byte(fmt.Sprintf("renamed-%d", s.ctr))
		err := s.drv.RenameWallet(nn, w.id, pw)
		if o.Wrong {
			if err == nil {
				s.cnt["rename_wrong_password_accepted"]++
				w.name = nn
			}
		} else {
			if err != nil {
				return "unexpected-error", "RenameWallet(right password): " + err.Error()
			}
			w.name = nn
			s.cnt["renames"]++
		}
		md, err := w.h.Metadata()
		if err != nil {
			return "unexpected-error", "Metadata: " + err.Error()
		}
		if !bytes.Equal(md.Name, w.name) || !bytes.Equal(md.ID, w.id) {
			return "metadata-vs-model", fmt.Sprintf("metadata name/id %q/%q, model %q/%q", md.Name, md.ID, w.name, w.id)
		}
		return s.checkState(w)
	case c46Reopen:
		h, err := s.drv.FetchWallet(w.id)
		if err != nil {
			return "unexpected-error", "FetchWallet: " + err.Error()
		}
		if o.Wrong {
			if err = h.Init(pw); err == nil {
				return "wrong-password-accepted:Init", fmt.Sprintf("Init with wrong password %q succeeded", pw)
			}
			s.cnt["wrong_password_rejected"]++
			return "", ""
		}
		if err = h.Init(w.pw); err != nil {
			return "unexpected-error", "Init(right password): " + err.Error()
		}
		w.h = h
		s.cnt["reopens"]++
		return s.checkState(w)
	case c46Restore:
		if len(s.wallets) >= 3 {
			return "", ""
		}
		m, err := w.h.ExportMasterDerivationKey(w.pw)
		if err != nil {
			return "unexpected-error", "ExportMasterDerivationKey(right password): " + err.Error()
		}
		npw := []byte(fmt.Sprintf("restored-%d", o.A%97))
		if o.A%7 == 0 {
			npw = []byte{}
		}
		nw, err := s.create(npw, m)
		if err != nil {
			return "unexpected-error", "restore: " + err.Error()
		}
		s.wallets = append(s.wallets, nw)
		s.cnt["restores"]++
		return "", ""
	case c46CheckPw:
		err := w.h.CheckPassword(pw)
		if o.Wrong {
			if err == nil {
				return "wrong-password-accepted:CheckPassword", fmt.Sprintf("CheckPassword(%q) succeeded, password is %q", pw, w.pw)
			}
			s.cnt["wrong_password_rejected"]++
			return "", ""
		}
		if err != nil {
			return "unexpected-error", "CheckPassword(right password): " + err.Error()
		}
		return "", ""
	case c46NewDriverInst:
		d, err := c46NewDriver(s.cfg)
		if err != nil {
			return "unexpected-error", "second driver instance: " + err.Error()
		}
		s.drv = d
		for _, x := range append([]*c46Wallet{s.pristine}, s.wallets...) {
			if err := s.open(x); err != nil {
				return "unexpected-error", "re-open after new driver: " + err.Error()
			}
		}
		s.cnt["reopens"]++
		return s.checkState(w)
	}
	return "", ""
}

func (s *c46Sim) importKey(w *c46Wallet, k c46Key) (string, string) {
	_, held := w.keys[k.addr]
	got, err := w.h.ImportKey(k.sk)
	if held {
		if err == nil {
			return "import-duplicate-accepted", fmt.Sprintf("ImportKey of %v, already held, succeeded", k.addr)
		}
		s.cnt["duplicate_imports_rejected"]++
		return s.checkState(w)
	}
	if err != nil {
		return "unexpected-error", "ImportKey: " + err.Error()
	}
	if got != k.addr {
		return "import-address", fmt.Sprintf("ImportKey returned %v for a key whose public part is %v", got, k.addr)
	}
	w.keys[k.addr] = k.sk
	s.cnt["imports"]++
	return "", ""
}

// final checks everything at the end of a history, incl. restore-regenerates-the-same-addresses.
func (s *c46Sim) final() (string, string) {
	for wi, w := range s.wallets {
		if fk, msg := s.checkState(w); fk != "" {
			return fk, fmt.Sprintf("final w%d: %s", wi, msg)
		}
		for _, a := range w.sortedKeys() {
			sk, err := w.h.ExportKey(a, w.pw)
			if err != nil {
				return "unexpected-error", "final ExportKey: " + err.Error()
			}
			if sk != w.keys[a] {
				return "export-vs-model", fmt.Sprintf("final: ExportKey(%v) differs from the imported/derived secret", a)
			}
		}
		for i := 0; i < 2; i++ {
			if fk, msg := s.generate(w); fk != "" {
				return fk, fmt.Sprintf("final w%d: %s", wi, msg)
			}
		}
	}
	// probe (observation only, see c46Wrong): is a trailing-NUL variant of the password accepted by Init?
	if h, err := s.drv.FetchWallet(s.wallets[0].id); err == nil {
		s.cnt["trailing_nul_probes"]++
		if h.Init(append(append([]byte(nil), s.wallets[0].pw...), 0)) == nil {
			s.cnt["trailing_nul_password_accepted_by_init"]++
		}
	}
	// restore: a brand-new wallet from the exported MDK regenerates D[1], D[2], ...
	w0 := s.wallets[0]
	m, err := w0.h.ExportMasterDerivationKey(w0.pw)
	if err != nil {
		return "unexpected-error", "final ExportMasterDerivationKey: " + err.Error()
	}
	rw, err := s.create([]byte("restore-final"), m)
	if err != nil {
		return "unexpected-error", "final restore: " + err.Error()
	}
	n := int(w0.highest)
	if n > 12 {
		n = 12
	}
	for i := 0; i < n; i++ {
		if fk, msg := s.generate(rw); fk != "" {
			return "restore-" + fk, "restored wallet: " + msg
		}
	}
	s.cnt["restores"]++
	s.cnt["restored_keys_compared"] += n
	return s.checkState(rw)
}

func c46MDK(r *kit.Rand) (m crypto.MasterDerivationKey) {
	r.Fill(m[:])
	m[0] |= 1 // never the all-zero key (which means "generate one")
	return
}

func c46Password(r *kit.Rand) []byte {
	switch r.Intn(6) {
	case 0:
		return []byte{} // blank passwords are allowed by the driver
	case 1:
		return []byte("a")
	default:
		return r.Bytes(r.Range(1, 24))
	}
}

// c46Run executes ops on a fresh wallet directory. Returns finding key, message, failing op index.
func c46Run(c *kit.Ctx, mdk crypto.MasterDerivationKey, pw []byte, salt uint64, ops []c46Op, cnt map[string]int) (fk, msg string, at int) {
	dir := c.Scratch("wallets")
	defer os.RemoveAll(dir)
	s, err := newC46Sim(dir, mdk, salt)
	if err != nil {
		return "harness", err.Error(), -1
	}
	w, err := s.create(pw, mdk)
	if err != nil {
		return "harness", err.Error(), -1
	}
	s.wallets = []*c46Wallet{w}
	defer func() {
		for k, v := range s.cnt {
			cnt[k] += v
		}
		kinds := 0
		for _, x := range s.wallets {
			if len(x.deleted) > 0 {
				kinds |= 1
			}
			if len(x.msigs) > 0 {
				kinds |= 2
			}
			cnt["max_highest"] = max(cnt["max_highest"], int(x.highest))
		}
		cnt["shape"] = kinds | len(s.wallets)<<2 | int(min(w.highest, 31))<<5 | min(len(w.keys), 31)<<10
	}()
	for i, o := range ops {
		if fk, msg = s.apply(o); fk != "" {
			return fk, msg, i
		}
	}
	fk, msg = s.final()
	return fk, msg, len(ops)
}

func TestVerifC46Sequential(t *testing.T) {
	c := kit.Start(t, "C46", "sequential")
	defer c.Finish()
	c.Rule("random histories over up to 3 wallets sharing one master derivation key: generate (incl. refused mnemonic request), import of fresh keys / of keys already held / of upcoming and passed members of the derived sequence, delete, export, export MDK, multisig import/delete, Sign*/MultisigSign*, rename, re-open (new handle, new driver instance), restore from the exported MDK, CheckPassword/Init - about half of the password-taking calls with a wrong password (suffix, prefix, blank, bit flip, unrelated); after every call the real wallet is compared with the reference {highest index, key set, multisig set}; at the end every key is exported, two more keys are generated per wallet and a fresh wallet restored from the MDK must regenerate D[1..]; distinct = (wallet count, highest index, key count, deleted/multisig present)")
	c.Assume("the derived sequence D is taken from a pristine wallet of the same driver created from the same master derivation key (black box); scrypt cost lowered through the driver's own allow_unsafe_scrypt configuration as the upstream e2e fixtures do")
	ncase := c.N(150, 1200)
	tot := map[string]int{}
	for i := 0; i < ncase && c.Violations() < 20; i++ {
		r := c.Rand(46, uint64(i))
		mdk := c46MDK(r)
		pw := c46Password(r)
		nops := r.Range(20, c.N(90, 160))
		ops := make([]c46Op, nops)
		for j := range ops {
			ops[j] = c46GenOp(r)
		}
		salt := r.Uint64()
		cnt := map[string]int{}
		var fk, msg string
		var at int
		if c.Guard("wallet", map[string]any{"case": i, "ops": fmt.Sprint(ops)}, func() { fk, msg, at = c46Run(c, mdk, pw, salt, ops, cnt) }) {
			continue
		}
		if fk == "harness" {
			c.Harness("case %d: %s", i, msg)
		}
		c.Eval(min(at+1, len(ops)) + 1)
		for k, v := range cnt {
			if k == "shape" || k == "max_highest" {
				continue
			}
			tot[k] += v
		}
		c.Max("max_generation_index", int64(cnt["max_highest"]))
		c.Distinct(fmt.Sprint(cnt["shape"]))
		if i < 3 {
			c.Sample(map[string]any{"case": i, "password_len": len(pw), "ops": len(ops), "first_ops": fmt.Sprint(ops[:min(10, len(ops))]), "counters": cnt})
		}
		if fk != "" {
			small := kit.Shrink(ops[:min(at+1, len(ops))], 80, func(cand []c46Op) bool {
				f, _, _ := c46Run(c, mdk, pw, salt, cand, map[string]int{})
				return f == fk
			})
			_, smsg, _ := c46Run(c, mdk, pw, salt, small, map[string]int{})
			c.Violation(fk, map[string]any{"seed": c.Seed, "case": i, "failed_at_op": at, "message": msg, "password": fmt.Sprintf("%q", pw),
				"minimised_ops": fmt.Sprint(small), "minimised_message": smsg, "ops": fmt.Sprint(ops[:min(at+1, len(ops))])})
		}
	}
	for k, v := range tot {
		c.Count(k, v)
	}
	if n := tot["trailing_nul_password_accepted_by_init"]; n > 0 {
		c.Observation("Init accepted the password with one 0x00 byte appended in %d of %d probes: scrypt/PBKDF2-HMAC zero-pads short keys, so passwords differing only by trailing NUL bytes are equivalent for unlocking (not treated as wrong passwords by this monitor)", n, tot["trailing_nul_probes"])
	}
	if n := tot["rename_wrong_password_accepted"]; n > 0 {
		c.Observation("RenameWallet succeeded %d times with a wrong password (not part of the property statement)", n)
	}
	if c.Violations() > 0 {
		return // exploration was cut short; the verdict is the violation, not vacuity
	}
	c.Require("generates", int64(ncase))
	c.Require("generates_skipping_imported", int64(ncase/4))
	c.Require("imports_of_upcoming_derived", int64(ncase/2))
	c.Require("wrong_password_rejected", int64(ncase))
	c.Require("wrong_password_sign_rejected", int64(ncase/10))
	c.Require("deletes_of_generated", int64(ncase/10))
	c.Require("restored_keys_compared", int64(ncase))
	c.Require("reopens", int64(ncase/10))
	c.Require("exports_checked", int64(ncase))
}

// TestVerifC46Concurrent: 4 goroutines generate and import concurrently on one wallet (two share a
// handle, two have their own). Individual calls may fail (database busy) - that is acceptable and
// only counted. Demanded, independent of the schedule:
//
//	(a) the address of every successful call is listed afterwards; (b) no address is listed twice;
//	(c) successful generates returned pairwise distinct members of D, none of which was also the
//	    result of a successful import; (d) no gap: every D[j] with j <= the largest generated index
//	    is present (generated, imported or pre-existing - nothing is deleted here), i.e. the
//	    generates are consecutive members of D modulo skipped imports; (e) nothing foreign is listed;
//	(f) a later sequential GenerateKey continues right after the largest generated index.
func TestVerifC46Concurrent(t *testing.T) {
	c := kit.Start(t, "C46", "concurrent")
	defer c.Finish()
	c.Rule("per case one wallet with a few pre-imported derived keys; 4 goroutines (2 sharing a handle, 2 with own handles) each run 12-30 calls of GenerateKey / ImportKey(fresh) / ImportKey(D[j] for upcoming j) chosen by per-goroutine PRNG streams; schedule-independent invariants (a)-(f) checked after the join; distinct = (generated count, imported-derived count, max index)")
	c.Assume("failed calls are accepted whatever the error; the goroutine interleaving is not controlled (invariants are schedule independent), so counters may vary slightly between runs of one seed")
	ncase := c.N(20, 150)
	for i := 0; i < ncase && c.Violations() < 20; i++ {
		r := c.Rand(47, uint64(i))
		mdk := c46MDK(r)
		pw := c46Password(r)
		salt := r.Uint64()
		perG := r.Range(12, 30)
		npre := r.Intn(4)
		pre := make([]uint64, npre)
		for k := range pre {
			pre[k] = uint64(r.Range(1, 10))
		}
		c.Guard("wallet-concurrent", map[string]any{"case": i}, func() {
			dir := c.Scratch("wallets-conc")
			defer os.RemoveAll(dir)
			s, err := newC46Sim(dir, mdk, salt)
			if err != nil {
				c.Harness("case %d: %v", i, err)
			}
			w, err := s.create(pw, mdk)
			if err != nil {
				c.Harness("case %d: %v", i, err)
			}
			s.wallets = []*c46Wallet{w}
			maxIdx := uint64(4*perG + 24)
			if _, err := s.d(maxIdx); err != nil {
				c.Harness("case %d: %v", i, err)
			}
			idxOf := map[crypto.Digest]uint64{}
			for j := uint64(1); j <= maxIdx; j++ {
				idxOf[s.D[j].addr] = j
			}
			for _, j := range pre {
				if fk, msg := s.importKey(w, s.D[j]); fk != "" {
					c.Violation(fk, map[string]any{"case": i, "message": "pre-import: " + msg})
					return
				}
			}
			if r.Bool() { // start from a non-zero index
				if fk, msg := s.generate(w); fk != "" {
					c.Violation(fk, map[string]any{"case": i, "message": "pre-generate: " + msg})
					return
				}
			}
			handles := []wallet.Wallet{w.h, w.h}
			for g := 2; g < 4; g++ {
				h, err := s.drv.FetchWallet(w.id)
				if err == nil {
					err = h.Init(w.pw)
				}
				if err != nil {
					c.Violation("unexpected-error", map[string]any{"case": i, "message": "extra handle: " + err.Error()})
					return
				}
				handles = append(handles, h)
			}
			type res struct {
				gen   bool
				want  crypto.Digest // imports: the address we tried to import
				got   crypto.Digest
				err   error
				fresh bool
			}
			results := make([][]res, 4)
			// fresh keys are prepared up front (freshKey is not goroutine safe)
			freshKeys := make([][]c46Key, 4)
			for g := range freshKeys {
				for k := 0; k < perG; k++ {
					freshKeys[g] = append(freshKeys[g], s.freshKey())
				}
			}
			start := w.highest
			var wg sync.WaitGroup
			for g := 0; g < 4; g++ {
				wg.Add(1)
				go func(g int) {
					defer wg.Done()
					gr := c.Rand(48, uint64(i), uint64(g))
					for k := 0; k < perG; k++ {
						switch gr.Pick([]int{5, 2, 3}) {
						case 0:
							a, err := handles[g].GenerateKey(false)
							results[g] = append(results[g], res{gen: true, got: a, err: err})
						case 1:
							fk := freshKeys[g][k]
							a, err := handles[g].ImportKey(fk.sk)
							results[g] = append(results[g], res{want: fk.addr, got: a, err: err, fresh: true})
						default:
							// an upcoming derived key: somewhere in the window the generators are about to reach
							j := start + 1 + uint64(gr.Intn(4*perG/2+8))
							dk := s.D[j]
							a, err := handles[g].ImportKey(dk.sk)
							results[g] = append(results[g], res{want: dk.addr, got: a, err: err})
						}
					}
				}(g)
			}
			wg.Wait()

			listed, err := w.h.ListKeys()
			if err != nil {
				c.Violation("unexpected-error", map[string]any{"case": i, "message": "ListKeys after join: " + err.Error()})
				return
			}
			present := map[crypto.Digest]int{}
			for _, a := range listed {
				present[a]++
			}
			viol := func(key, msg string) {
				c.Violation("concurrent:"+key, map[string]any{"seed": c.Seed, "case": i, "message": msg, "per_goroutine_calls": perG, "pre_imported_indices": fmt.Sprint(pre), "start_highest": start})
			}
			for a, n := range present {
				if n > 1 {
					viol("address-listed-twice", fmt.Sprintf("%v listed %d times", a, n))
					return
				}
			}
			allowed := map[crypto.Digest]bool{}
			for a := range w.keys {
				allowed[a] = true
			}
			generated := map[crypto.Digest]bool{}
			importedOK := map[crypto.Digest]bool{}
			var maxGen uint64
			failed, ngen, nimpD := 0, 0, 0
			for g := range results {
				for _, x := range results[g] {
					if x.gen {
						if x.err != nil {
							failed++
							continue
						}
						ngen++
						j, inD := idxOf[x.got]
						if !inD {
							viol("generate-not-in-derived-sequence", fmt.Sprintf("GenerateKey returned %v which is not among D[1..%d]", x.got, maxIdx))
							return
						}
						if generated[x.got] {
							viol("generate-duplicate", fmt.Sprintf("two successful GenerateKey calls returned D[%d]=%v", j, x.got))
							return
						}
						generated[x.got] = true
						allowed[x.got] = true
						if j > maxGen {
							maxGen = j
						}
						if j <= start {
							viol("generate-reused-index", fmt.Sprintf("GenerateKey returned D[%d] although the index was already %d", j, start))
							return
						}
						continue
					}
					allowed[x.want] = true // a failed import may or may not have stored the key; it is not foreign
					if x.err != nil {
						failed++
						continue
					}
					if x.got != x.want {
						viol("import-address", fmt.Sprintf("ImportKey returned %v for %v", x.got, x.want))
						return
					}
					if importedOK[x.got] {
						viol("import-duplicate-accepted", fmt.Sprintf("two successful ImportKey calls for %v", x.got))
						return
					}
					importedOK[x.got] = true
					if !x.fresh {
						nimpD++
					}
				}
			}
			for a := range generated {
				if importedOK[a] {
					viol("generated-and-imported", fmt.Sprintf("D[%d]=%v was returned by a successful GenerateKey and accepted by a successful ImportKey", idxOf[a], a))
					return
				}
				if _, was := w.keys[a]; was {
					viol("generated-existing", fmt.Sprintf("GenerateKey returned D[%d] which was present before the concurrent phase", idxOf[a]))
					return
				}
			}
			for a := range generated {
				if present[a] == 0 {
					viol("successful-generate-not-listed", fmt.Sprintf("D[%d]=%v was returned by GenerateKey but is not listed", idxOf[a], a))
					return
				}
			}
			for a := range importedOK {
				if present[a] == 0 {
					viol("successful-import-not-listed", fmt.Sprintf("%v was imported successfully but is not listed", a))
					return
				}
			}
			for a := range w.keys {
				if present[a] == 0 {
					viol("key-lost", fmt.Sprintf("%v was present before the concurrent phase and is gone", a))
					return
				}
			}
			for a := range present {
				if !allowed[a] {
					viol("foreign-key-listed", fmt.Sprintf("%v is listed but was never generated/imported", a))
					return
				}
			}
			for j := start + 1; j <= maxGen; j++ {
				if present[s.D[j].addr] == 0 {
					viol("gap-in-derived-sequence", fmt.Sprintf("D[%d] is absent although D[%d] was generated (generated indices must be consecutive modulo imported keys)", j, maxGen))
					return
				}
			}
			// bring the model up to date and continue sequentially
			for a := range present {
				if j, ok := idxOf[a]; ok {
					w.keys[a] = s.D[j].sk
				}
			}
			for g := range results {
				for k, x := range results[g] {
					if !x.gen && x.fresh && present[x.want] > 0 {
						w.keys[x.want] = freshKeys[g][k].sk
					}
				}
			}
			if maxGen > w.highest {
				w.highest = maxGen
			}
			for k := 0; k < 2; k++ {
				if fk, msg := s.generate(w); fk != "" {
					viol("after-join-"+fk, msg)
					return
				}
			}
			if fk, msg := s.checkState(w); fk != "" {
				viol("after-join-"+fk, msg)
				return
			}
			c.Eval(1)
			c.Count("concurrent_calls", 4*perG)
			c.Count("concurrent_successful_generates", ngen)
			c.Count("concurrent_successful_imports_of_derived", nimpD)
			c.Count("concurrent_failed_calls", failed)
			if uint64(ngen) < maxGen-start {
				c.Count("cases_with_generate_skipping_concurrent_import", 1)
			}
			c.Distinct(fmt.Sprintf("%d|%d|%d", ngen, nimpD, maxGen))
			if i < 3 {
				c.Sample(map[string]any{"case": i, "calls": 4 * perG, "successful_generates": ngen, "successful_imports_of_derived": nimpD, "failed_calls": failed, "max_generated_index": maxGen, "listed": len(listed)})
			}
		})
	}
	if c.Violations() > 0 {
		return
	}
	c.Require("concurrent_successful_generates", int64(ncase*10))
	c.Require("concurrent_successful_imports_of_derived", int64(ncase))
	c.Require("cases_with_generate_skipping_concurrent_import", int64(ncase/4))
}
