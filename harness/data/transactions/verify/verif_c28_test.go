package verify

// C28 (part "verify"): a transaction is accepted by the stateless verifier only if exactly one
// authorization is present and it is valid for the authorizer the transaction claims (AuthAddr, or the
// sender). The second half of the property (the claimed authorizer is the sender's *current* authorizer)
// needs ledger state and is monitored in ledger/verif_c28_test.go.
//
// Oracle: c28Ref is an independent reference for "exactly one valid authorization by the claimed
// authorizer". It uses single-signature verification (never the batch verifier), derives multisig, logic
// and PQ addresses itself, and evaluates the (template) logic-signature programs natively. The verdict is
// one-directional, as the property is ("accepted only if"): verify.TxnGroup / the verified-transaction
// cache accepting a group in which some member is not authorized per c28Ref is a violation. The real code
// may reject more (well-formedness, heartbeat proof, sizes, consensus gating, any invalid subsig even
// above the threshold): that is never flagged.

import (
	"bytes"
	"context"
	"errors"
	"fmt"
	"testing"

	"github.com/algorand/go-algorand/config"
	"github.com/algorand/go-algorand/crypto"
	"github.com/algorand/go-algorand/crypto/merklesignature"
	"github.com/algorand/go-algorand/data/basics"
	"github.com/algorand/go-algorand/data/bookkeeping"
	"github.com/algorand/go-algorand/data/committee"
	"github.com/algorand/go-algorand/data/transactions"
	"github.com/algorand/go-algorand/data/transactions/logic"
	"github.com/algorand/go-algorand/protocol"
	"github.com/algorand/go-algorand/util/execpool"
	"verif.local/kit"
)

// ---------------------------------------------------------------------------------------------
// accounts

type c28Kind int

const (
	c28Ed c28Kind = iota
	c28Msig
	c28LsigContract  // address = hash(program)
	c28LsigDelegated // program signed by an ed25519 key
	c28LsigDelMsig   // program signed by a multisig (Msig or LMsig field according to the protocol)
	c28PQ
	c28LsigDelPQ
	c28NumKinds
)

func (k c28Kind) String() string {
	return [...]string{"ed", "msig", "lsig-contract", "lsig-delegated", "lsig-delegated-msig", "pq", "lsig-delegated-pq"}[k]
}

type c28PQKey struct {
	signer crypto.FalconSigner
	salt   basics.PQAddressSalt
	addr   basics.Address
}

type c28Acct struct {
	kind c28Kind
	addr basics.Address
	// ed
	sk *crypto.SignatureSecrets
	// msig
	thr uint8
	sks []*crypto.SignatureSecrets // position i signs for pks[i]; duplicates allowed
	// lsig
	prog  []byte
	limit uint64 // template parameter
	// pq
	pq *c28PQKey
}

func c28Key(r *kit.Rand) *crypto.SignatureSecrets {
	var seed crypto.Seed
	r.Fill(seed[:])
	return crypto.GenerateSignatureSecrets(seed)
}

// c28RefMsigAddr derives the multisig address from (version, threshold, keys) without the code under test:
// Hash("MultisigAddr" || version || threshold || pk1 || pk2 ...).
func c28RefMsigAddr(version, thr uint8, pks []crypto.PublicKey) crypto.Digest {
	buf := append([]byte("MultisigAddr"), version, thr)
	for _, pk := range pks {
		buf = append(buf, pk[:]...)
	}
	return crypto.Hash(buf)
}

// template program: approve iff arg0 == "ok" && Amount <= limit && RekeyTo == 0 && CloseRemainderTo == 0
func c28Program(limit uint64) ([]byte, error) {
	src := fmt.Sprintf(`#pragma version 6
arg 0
byte "ok"
==
txn Amount
int %d
<=
&&
txn RekeyTo
global ZeroAddress
==
&&
txn CloseRemainderTo
global ZeroAddress
==
&&`, limit)
	ops, err := logic.AssembleString(src)
	if err != nil {
		return nil, err
	}
	return ops.Program, nil
}

// c28RefProgramApproves evaluates the template natively.
func c28RefProgramApproves(limit uint64, s *transactions.SignedTxn) bool {
	if len(s.Lsig.Args) < 1 || !bytes.Equal(s.Lsig.Args[0], []byte("ok")) {
		return false
	}
	// `txn Amount` reads the payment field, which is zero for other types (WellFormed enforces it)
	return s.Txn.Amount.Raw <= limit && s.Txn.RekeyTo.IsZero() && s.Txn.CloseRemainderTo.IsZero()
}

type c28World struct {
	c       *kit.Ctx
	pqs     []*c28PQKey
	progs   map[string]uint64 // program bytes -> limit (the known templates)
	cv      protocol.ConsensusVersion
	proto   config.ConsensusParams
	hdr     bookkeeping.BlockHeader
	ledger  logic.LedgerForSignature
	hbCache []c28HB
}

type c28HB struct {
	fv, lv basics.Round
	kd     uint64
	seed   committee.Seed
	voteID crypto.OneTimeSignatureVerifier
	proof  crypto.HeartbeatProof
}

func c28NewWorld(c *kit.Ctx, cv protocol.ConsensusVersion, pqs []*c28PQKey, hbs []c28HB) *c28World {
	return &c28World{c: c, pqs: pqs, progs: map[string]uint64{}, cv: cv, proto: config.Consensus[cv],
		hdr: createDummyBlockHeader(cv), ledger: &DummyLedgerForSignature{}, hbCache: hbs}
}

func (w *c28World) lmsig() bool { return w.proto.LogicSigLMsig }

func (w *c28World) newAcct(r *kit.Rand, kind c28Kind) (*c28Acct, error) {
	a := &c28Acct{kind: kind}
	switch kind {
	case c28Ed:
		a.sk = c28Key(r)
		a.addr = basics.Address(a.sk.SignatureVerifier)
	case c28Msig, c28LsigDelMsig:
		n := r.Range(1, 5)
		for i := 0; i < n; i++ {
			if i > 0 && r.Chance(1, 5) {
				a.sks = append(a.sks, a.sks[r.Intn(i)]) // duplicated key in the address preimage
			} else {
				a.sks = append(a.sks, c28Key(r))
			}
		}
		a.thr = uint8(r.Range(1, n))
		pks := make([]crypto.PublicKey, n)
		for i := range pks {
			pks[i] = a.sks[i].SignatureVerifier
		}
		a.addr = basics.Address(c28RefMsigAddr(1, a.thr, pks))
	case c28PQ, c28LsigDelPQ:
		a.pq = w.pqs[r.Intn(len(w.pqs))]
		a.addr = a.pq.addr
	case c28LsigDelegated:
		a.sk = c28Key(r)
		a.addr = basics.Address(a.sk.SignatureVerifier)
	}
	if kind == c28LsigContract || kind == c28LsigDelegated || kind == c28LsigDelMsig || kind == c28LsigDelPQ {
		a.limit = uint64(r.Range(1000, 1_000_000))
		p, err := c28Program(a.limit)
		if err != nil {
			return nil, err
		}
		a.prog = p
		w.progs[string(p)] = a.limit
		if kind == c28LsigContract {
			a.addr = basics.Address(crypto.HashObj(logic.Program(p)))
		}
	}
	return a, nil
}

// ---------------------------------------------------------------------------------------------
// signing (the honest signer). k = number of subsigs to produce for multisigs (-1: exactly threshold).

func (w *c28World) msigFor(a *c28Acct, msg crypto.Hashable, r *kit.Rand, k int) crypto.MultisigSig {
	n := len(a.sks)
	if k < 0 {
		k = int(a.thr)
	}
	m := crypto.MultisigSig{Version: 1, Threshold: a.thr, Subsigs: make([]crypto.MultisigSubsig, n)}
	for i := range a.sks {
		m.Subsigs[i].Key = a.sks[i].SignatureVerifier
	}
	for _, i := range r.Perm(n)[:min(k, n)] {
		m.Subsigs[i].Sig = a.sks[i].Sign(msg)
	}
	return m
}

func (w *c28World) pqSig(p *c28PQKey, msg crypto.Hashable) (transactions.PQSig, error) {
	sig, err := p.signer.Sign(msg)
	if err != nil {
		return transactions.PQSig{}, err
	}
	return transactions.PQSig{Scheme: protocol.PQSchemeFalcon1024, Salt: p.salt, PublicKey: append([]byte(nil), p.signer.PublicKey[:]...), Signature: sig}, nil
}

// sign authorizes txn with account a as the (claimed) authorizer.
func (w *c28World) sign(txn transactions.Transaction, a *c28Acct, r *kit.Rand, k int) (transactions.SignedTxn, error) {
	s := transactions.SignedTxn{Txn: txn}
	if a.addr != txn.Sender {
		s.AuthAddr = a.addr
	}
	switch a.kind {
	case c28Ed:
		s.Sig = a.sk.Sign(txn)
	case c28Msig:
		s.Msig = w.msigFor(a, txn, r, k)
	case c28PQ:
		p, err := w.pqSig(a.pq, txn)
		if err != nil {
			return s, err
		}
		s.PQsig = p
	default:
		s.Lsig.Logic = append([]byte(nil), a.prog...)
		s.Lsig.Args = [][]byte{[]byte("ok")}
		switch a.kind {
		case c28LsigDelegated:
			s.Lsig.Sig = a.sk.Sign(logic.Program(a.prog))
		case c28LsigDelMsig:
			if w.lmsig() {
				s.Lsig.LMsig = w.msigFor(a, logic.MultisigProgram{Addr: crypto.Digest(a.addr), Program: a.prog}, r, k)
			} else {
				s.Lsig.Msig = w.msigFor(a, logic.Program(a.prog), r, k)
			}
		case c28LsigDelPQ:
			p, err := w.pqSig(a.pq, logic.PQDelegatedProgram{Addr: a.addr, Program: a.prog})
			if err != nil {
				return s, err
			}
			s.Lsig.PQsig = p
		}
	}
	return s, nil
}

// ---------------------------------------------------------------------------------------------
// the reference

func c28RefEd(pk basics.Address, msg crypto.Hashable, sig crypto.Signature) bool {
	return crypto.SignatureVerifier(pk).VerifyBytes(crypto.HashRep(msg), sig)
}

// c28RefMultisig: version 1, address derives from (version, threshold, keys), at least threshold subsig
// slots carry a signature that verifies under that slot's key. (Duplicate keys in the preimage are separate
// slots, as upstream: the address commits to the slot list.)
func c28RefMultisig(addr basics.Address, msg crypto.Hashable, m crypto.MultisigSig) bool {
	if m.Version != 1 || m.Threshold == 0 || len(m.Subsigs) == 0 || int(m.Threshold) > len(m.Subsigs) || len(m.Subsigs) > 255 {
		return false
	}
	pks := make([]crypto.PublicKey, len(m.Subsigs))
	for i := range m.Subsigs {
		pks[i] = m.Subsigs[i].Key
	}
	if c28RefMsigAddr(m.Version, m.Threshold, pks) != crypto.Digest(addr) {
		return false
	}
	valid := 0
	raw := crypto.HashRep(msg)
	for _, ss := range m.Subsigs {
		if ss.Sig != (crypto.Signature{}) && ss.Key.VerifyBytes(raw, ss.Sig) {
			valid++
		}
	}
	return valid >= int(m.Threshold)
}

func c28RefPQ(proto config.ConsensusParams, addr basics.Address, msg crypto.Hashable, p transactions.PQSig) bool {
	if p.Scheme != protocol.PQSchemeFalcon1024 || !proto.EnablePQSchemeFalcon1024 {
		return false
	}
	if basics.PQAddress(p.Scheme, p.Salt, p.PublicKey) != addr || len(p.Signature) == 0 {
		return false
	}
	return crypto.VerifyFalcon1024(msg, p.PublicKey, p.Signature) == nil // trusted primitive: the Falcon verifier itself
}

// c28Ref returns whether s carries exactly one valid authorization by its claimed authorizer, and why not.
// unknown=true means the reference cannot decide (authorized logic signature with a program that is not one
// of the harness templates); such cases are skipped, never flagged.
func (w *c28World) ref(s *transactions.SignedTxn) (ok bool, why string, unknown bool) {
	auth := s.Txn.Sender
	if !s.AuthAddr.IsZero() {
		auth = s.AuthAddr
	}
	n := 0
	hasSig := s.Sig != (crypto.Signature{})
	hasMsig := !(s.Msig.Version == 0 && s.Msig.Threshold == 0 && s.Msig.Subsigs == nil)
	hasLsig := len(s.Lsig.Logic) != 0
	hasPQ := !(s.PQsig.Scheme == (protocol.PQScheme{}) && s.PQsig.Salt == 0 && len(s.PQsig.PublicKey) == 0 && len(s.PQsig.Signature) == 0)
	for _, b := range []bool{hasSig, hasMsig, hasLsig, hasPQ} {
		if b {
			n++
		}
	}
	if n == 0 {
		// legitimate: the state-proof transaction from the special sender carries no authorization
		if s.Txn.Type == protocol.StateProofTx && s.Txn.Sender == transactions.StateProofSender {
			return true, "", false
		}
		return false, "no authorization", false
	}
	if n > 1 {
		return false, "more than one authorization category", false
	}
	switch {
	case hasSig:
		if !c28RefEd(auth, s.Txn, s.Sig) {
			return false, "signature does not verify under the authorizer key", false
		}
	case hasMsig:
		if !c28RefMultisig(auth, s.Txn, s.Msig) {
			return false, "multisig: wrong address or fewer than threshold valid subsigs", false
		}
	case hasPQ:
		if !c28RefPQ(w.proto, auth, s.Txn, s.PQsig) {
			return false, "pq signature invalid/not enabled/address mismatch", false
		}
	case hasLsig:
		l := &s.Lsig
		d := 0
		dSig := l.Sig != (crypto.Signature{})
		dMsig := !(l.Msig.Version == 0 && l.Msig.Threshold == 0 && l.Msig.Subsigs == nil)
		dLMsig := !(l.LMsig.Version == 0 && l.LMsig.Threshold == 0 && l.LMsig.Subsigs == nil)
		dPQ := !(l.PQsig.Scheme == (protocol.PQScheme{}) && l.PQsig.Salt == 0 && len(l.PQsig.PublicKey) == 0 && len(l.PQsig.Signature) == 0)
		for _, b := range []bool{dSig, dMsig, dLMsig, dPQ} {
			if b {
				d++
			}
		}
		switch {
		case d > 1:
			return false, "logicsig with more than one delegation", false
		case d == 0:
			if crypto.HashObj(logic.Program(l.Logic)) != crypto.Digest(auth) {
				return false, "logicsig neither delegated nor the authorizer's own program", false
			}
		case dSig:
			if !c28RefEd(auth, logic.Program(l.Logic), l.Sig) {
				return false, "logicsig delegation signature invalid", false
			}
		case dMsig:
			if !c28RefMultisig(auth, logic.Program(l.Logic), l.Msig) {
				return false, "logicsig delegation multisig invalid", false
			}
		case dLMsig:
			if !c28RefMultisig(auth, logic.MultisigProgram{Addr: crypto.Digest(auth), Program: l.Logic}, l.LMsig) {
				return false, "logicsig delegation lmsig invalid", false
			}
		case dPQ:
			if !c28RefPQ(w.proto, auth, logic.PQDelegatedProgram{Addr: auth, Program: l.Logic}, l.PQsig) {
				return false, "logicsig pq delegation invalid", false
			}
		}
		limit, known := w.progs[string(l.Logic)]
		if !known {
			return false, "", true
		}
		if !c28RefProgramApproves(limit, s) {
			return false, "logicsig program rejects", false
		}
	}
	return true, "", false
}

// ---------------------------------------------------------------------------------------------
// transaction generator: every transaction type, well-formed under the protocol in force

func (w *c28World) baseTxn(r *kit.Rand, sender basics.Address, maxAmount uint64) transactions.Transaction {
	fv := basics.Round(r.Range(1, 1000))
	hdr := transactions.Header{
		Sender: sender, Fee: basics.MicroAlgos{Raw: w.proto.MinTxnFee + uint64(r.Intn(2000))},
		FirstValid: fv, LastValid: fv + basics.Round(r.Intn(int(w.proto.MaxTxnLife))),
		GenesisHash: crypto.Digest{1, 2, 3},
	}
	if r.Chance(1, 2) {
		hdr.Note = r.Bytes(r.Range(1, 40))
	}
	if r.Chance(1, 4) {
		r.Fill(hdr.Lease[:])
	}
	if r.Chance(1, 4) {
		hdr.GenesisID = "c28net"
	}
	var other basics.Address
	r.Fill(other[:])
	t := transactions.Transaction{Header: hdr}
	switch r.Intn(8) {
	case 0, 1:
		t.Type = protocol.PaymentTx
		t.Receiver = other
		t.Amount = basics.MicroAlgos{Raw: uint64(r.Intn(int(maxAmount) + 1))}
	case 2:
		t.Type = protocol.KeyRegistrationTx
		if r.Bool() {
			r.Fill(t.VotePK[:])
			r.Fill(t.SelectionPK[:])
			var c merklesignature.Commitment
			r.Fill(c[:])
			t.StateProofPK = c
			t.VoteFirst = fv
			t.VoteLast = fv + 1000
			t.VoteKeyDilution = 100
		}
	case 3:
		t.Type = protocol.AssetConfigTx
		if r.Bool() {
			t.AssetParams = basics.AssetParams{Total: r.Uint64(), Decimals: uint32(r.Intn(10)), UnitName: "U", AssetName: "c28", Manager: other}
		} else {
			t.ConfigAsset = basics.AssetIndex(r.Range(1, 1<<20))
			t.AssetParams = basics.AssetParams{Manager: other}
		}
	case 4:
		t.Type = protocol.AssetTransferTx
		t.XferAsset = basics.AssetIndex(r.Range(1, 1<<20))
		t.AssetAmount = r.Uint64()
		t.AssetReceiver = other
	case 5:
		t.Type = protocol.AssetFreezeTx
		t.FreezeAccount = other
		t.FreezeAsset = basics.AssetIndex(r.Range(1, 1<<20))
		t.AssetFrozen = r.Bool()
	case 6:
		t.Type = protocol.ApplicationCallTx
		t.ApplicationID = basics.AppIndex(r.Range(1, 1<<20))
		t.ApplicationArgs = [][]byte{r.Bytes(r.Range(1, 8))}
		if r.Bool() {
			t.Accounts = []basics.Address{other}
		}
	case 7:
		if len(w.hbCache) > 0 && w.proto.Heartbeat {
			hb := w.hbCache[r.Intn(len(w.hbCache))]
			t.Type = protocol.HeartbeatTx
			t.FirstValid, t.LastValid = hb.fv, hb.lv
			t.Lease = [32]byte{}
			t.HeartbeatTxnFields = &transactions.HeartbeatTxnFields{HbAddress: other, HbProof: hb.proof, HbSeed: hb.seed, HbVoteID: hb.voteID, HbKeyDilution: hb.kd}
		} else {
			t.Type = protocol.PaymentTx
			t.Receiver = other
		}
	}
	return t
}

func c28MakeHB(r *kit.Rand) c28HB {
	fv := basics.Round(r.Range(1, 500))
	kd := uint64(111)
	lv := fv + 15
	firstID := basics.OneTimeIDForRound(fv, kd)
	lastID := basics.OneTimeIDForRound(lv, kd)
	otss := crypto.GenerateOneTimeSignatureSecrets(firstID.Batch, lastID.Batch-firstID.Batch+1)
	var seed committee.Seed
	r.Fill(seed[:])
	return c28HB{fv: fv, lv: lv, kd: kd, seed: seed, voteID: otss.OneTimeSignatureVerifier, proof: otss.Sign(lastID, seed).ToHeartbeatProof()}
}

// ---------------------------------------------------------------------------------------------
// mutations applied after signing. Each returns a label; "" = not applicable.

type c28Mut struct {
	name string
	f    func(r *kit.Rand, s *transactions.SignedTxn) bool
}

func c28FlipSig(r *kit.Rand, sig *crypto.Signature) { sig[r.Intn(len(sig))] ^= 1 << uint(r.Intn(8)) }

func c28Msigs(s *transactions.SignedTxn) []*crypto.MultisigSig {
	var out []*crypto.MultisigSig
	for _, m := range []*crypto.MultisigSig{&s.Msig, &s.Lsig.Msig, &s.Lsig.LMsig} {
		if len(m.Subsigs) > 0 {
			out = append(out, m)
		}
	}
	return out
}

func c28CloneSubsigs(m *crypto.MultisigSig) {
	m.Subsigs = append([]crypto.MultisigSubsig(nil), m.Subsigs...)
}

var c28Muts = []c28Mut{
	// --- the signed message (every header field, type specific fields) ---
	{"fee+1", func(r *kit.Rand, s *transactions.SignedTxn) bool {
		if s.Txn.Type == protocol.StateProofTx {
			return false
		}
		s.Txn.Fee.Raw++
		return true
	}},
	{"fee=0", func(r *kit.Rand, s *transactions.SignedTxn) bool {
		if s.Txn.Fee.Raw == 0 {
			return false
		}
		s.Txn.Fee.Raw = 0
		return true
	}},
	{"firstvalid-1", func(r *kit.Rand, s *transactions.SignedTxn) bool {
		if s.Txn.FirstValid == 0 || s.Txn.Type == protocol.HeartbeatTx {
			return false
		}
		s.Txn.FirstValid--
		return true
	}},
	{"lastvalid-1", func(r *kit.Rand, s *transactions.SignedTxn) bool {
		if s.Txn.LastValid <= s.Txn.FirstValid {
			return false
		}
		s.Txn.LastValid--
		return true
	}},
	{"note", func(r *kit.Rand, s *transactions.SignedTxn) bool {
		if s.Txn.Type == protocol.StateProofTx {
			return false
		}
		if len(s.Txn.Note) == 0 || r.Bool() {
			s.Txn.Note = append(append([]byte(nil), s.Txn.Note...), byte(r.Intn(256)))
		} else {
			n := append([]byte(nil), s.Txn.Note...)
			n[r.Intn(len(n))] ^= 1 << uint(r.Intn(8))
			s.Txn.Note = n
		}
		return true
	}},
	{"genesis-id", func(r *kit.Rand, s *transactions.SignedTxn) bool {
		if s.Txn.GenesisID == "" {
			s.Txn.GenesisID = "x"
		} else {
			s.Txn.GenesisID = ""
		}
		return true
	}},
	{"genesis-hash", func(r *kit.Rand, s *transactions.SignedTxn) bool {
		s.Txn.GenesisHash[r.Intn(32)] ^= 1 << uint(r.Intn(8))
		return true
	}},
	{"lease", func(r *kit.Rand, s *transactions.SignedTxn) bool {
		if s.Txn.Type == protocol.StateProofTx {
			return false
		}
		s.Txn.Lease[r.Intn(32)] ^= 1 << uint(r.Intn(8))
		return true
	}},
	{"rekey-to", func(r *kit.Rand, s *transactions.SignedTxn) bool {
		if s.Txn.Type == protocol.StateProofTx {
			return false
		}
		s.Txn.RekeyTo[r.Intn(32)] ^= 1 << uint(r.Intn(8))
		return true
	}},
	{"sender", func(r *kit.Rand, s *transactions.SignedTxn) bool {
		if s.Txn.Type == protocol.StateProofTx {
			return false
		}
		// if the transaction is authorized through AuthAddr, the claimed authorizer stays and only the message changes
		s.Txn.Sender[r.Intn(32)] ^= 1 << uint(r.Intn(8))
		return true
	}},
	{"group-singleton-id", func(r *kit.Rand, s *transactions.SignedTxn) bool {
		// set the group id a singleton group would have for the *mutated* transaction, so the group check passes
		// and only the signature can stop it
		if s.Txn.Type == protocol.StateProofTx {
			return false
		}
		t := s.Txn
		t.Group = crypto.Digest{}
		s.Txn.Group = crypto.HashObj(transactions.TxGroup{TxGroupHashes: []crypto.Digest{crypto.Digest(t.ID())}})
		return true
	}},
	{"amount+1", func(r *kit.Rand, s *transactions.SignedTxn) bool {
		if s.Txn.Type != protocol.PaymentTx {
			return false
		}
		s.Txn.Amount.Raw++
		return true
	}},
	{"amount-1", func(r *kit.Rand, s *transactions.SignedTxn) bool {
		if s.Txn.Type != protocol.PaymentTx || s.Txn.Amount.Raw == 0 {
			return false
		}
		s.Txn.Amount.Raw--
		return true
	}},
	{"receiver", func(r *kit.Rand, s *transactions.SignedTxn) bool {
		switch s.Txn.Type {
		case protocol.PaymentTx:
			s.Txn.Receiver[r.Intn(32)] ^= 1 << uint(r.Intn(8))
		case protocol.AssetTransferTx:
			s.Txn.AssetReceiver[r.Intn(32)] ^= 1 << uint(r.Intn(8))
		default:
			return false
		}
		return true
	}},
	{"close-to", func(r *kit.Rand, s *transactions.SignedTxn) bool {
		switch s.Txn.Type {
		case protocol.PaymentTx:
			s.Txn.CloseRemainderTo[r.Intn(32)] ^= 1 << uint(r.Intn(8))
		case protocol.AssetTransferTx:
			s.Txn.AssetCloseTo[r.Intn(32)] ^= 1 << uint(r.Intn(8))
		default:
			return false
		}
		return true
	}},
	{"type-fields", func(r *kit.Rand, s *transactions.SignedTxn) bool {
		switch s.Txn.Type {
		case protocol.KeyRegistrationTx:
			if s.Txn.VotePK.IsEmpty() {
				return false
			}
			s.Txn.VotePK[r.Intn(32)] ^= 1
		case protocol.AssetConfigTx:
			s.Txn.AssetParams.Manager[r.Intn(32)] ^= 1
		case protocol.AssetTransferTx:
			if r.Bool() {
				s.Txn.AssetAmount++
			} else {
				s.Txn.XferAsset++
			}
		case protocol.AssetFreezeTx:
			if r.Bool() {
				s.Txn.AssetFrozen = !s.Txn.AssetFrozen
			} else {
				s.Txn.FreezeAccount[r.Intn(32)] ^= 1
			}
		case protocol.ApplicationCallTx:
			switch r.Intn(3) {
			case 0:
				s.Txn.ApplicationID++
			case 1:
				a := append([]byte(nil), s.Txn.ApplicationArgs[0]...)
				a[0] ^= 1
				s.Txn.ApplicationArgs = [][]byte{a}
			case 2:
				s.Txn.OnCompletion = transactions.CloseOutOC
			}
		case protocol.HeartbeatTx:
			hb := *s.Txn.HeartbeatTxnFields
			hb.HbAddress[r.Intn(32)] ^= 1
			s.Txn.HeartbeatTxnFields = &hb
		default:
			return false
		}
		return true
	}},
	// --- the authorization ---
	{"authaddr", func(r *kit.Rand, s *transactions.SignedTxn) bool {
		if s.Txn.Type == protocol.StateProofTx {
			return false
		}
		if s.AuthAddr.IsZero() {
			r.Fill(s.AuthAddr[:])
		} else if r.Bool() {
			s.AuthAddr = basics.Address{}
		} else {
			s.AuthAddr[r.Intn(32)] ^= 1 << uint(r.Intn(8))
		}
		return true
	}},
	{"sig-bitflip", func(r *kit.Rand, s *transactions.SignedTxn) bool {
		switch {
		case s.Sig != (crypto.Signature{}):
			c28FlipSig(r, &s.Sig)
		case s.Lsig.Sig != (crypto.Signature{}):
			c28FlipSig(r, &s.Lsig.Sig)
		default:
			return false
		}
		return true
	}},
	{"sig-dropped", func(r *kit.Rand, s *transactions.SignedTxn) bool {
		switch {
		case s.Sig != (crypto.Signature{}):
			s.Sig = crypto.Signature{}
		case s.Lsig.Sig != (crypto.Signature{}):
			s.Lsig.Sig = crypto.Signature{}
		default:
			return false
		}
		return true
	}},
	{"sig-by-other-key", func(r *kit.Rand, s *transactions.SignedTxn) bool {
		if s.Sig == (crypto.Signature{}) {
			return false
		}
		s.Sig = c28Key(r).Sign(s.Txn) // a perfectly good signature, by somebody else
		return true
	}},
	{"msig-subsig-bitflip", func(r *kit.Rand, s *transactions.SignedTxn) bool {
		ms := c28Msigs(s)
		if len(ms) == 0 {
			return false
		}
		m := ms[0]
		c28CloneSubsigs(m)
		for _, i := range r.Perm(len(m.Subsigs)) {
			if m.Subsigs[i].Sig != (crypto.Signature{}) {
				c28FlipSig(r, &m.Subsigs[i].Sig)
				return true
			}
		}
		return false
	}},
	{"msig-subsig-removed", func(r *kit.Rand, s *transactions.SignedTxn) bool {
		// blank one signature: legitimate iff at least threshold valid ones remain
		ms := c28Msigs(s)
		if len(ms) == 0 {
			return false
		}
		m := ms[0]
		c28CloneSubsigs(m)
		for _, i := range r.Perm(len(m.Subsigs)) {
			if m.Subsigs[i].Sig != (crypto.Signature{}) {
				m.Subsigs[i].Sig = crypto.Signature{}
				return true
			}
		}
		return false
	}},
	{"msig-subsig-copied", func(r *kit.Rand, s *transactions.SignedTxn) bool {
		// copy one valid signature into an empty slot (of another key): must not count as a second signer
		ms := c28Msigs(s)
		if len(ms) == 0 {
			return false
		}
		m := ms[0]
		c28CloneSubsigs(m)
		src, dst := -1, -1
		for _, i := range r.Perm(len(m.Subsigs)) {
			if m.Subsigs[i].Sig != (crypto.Signature{}) && src < 0 {
				src = i
			} else if m.Subsigs[i].Sig == (crypto.Signature{}) && dst < 0 {
				dst = i
			}
		}
		if src < 0 || dst < 0 {
			return false
		}
		// and drop one other valid signature so that the copy is needed to reach the threshold
		m.Subsigs[dst].Sig = m.Subsigs[src].Sig
		for _, i := range r.Perm(len(m.Subsigs)) {
			if i != src && i != dst && m.Subsigs[i].Sig != (crypto.Signature{}) {
				m.Subsigs[i].Sig = crypto.Signature{}
				break
			}
		}
		return true
	}},
	{"msig-key-replaced", func(r *kit.Rand, s *transactions.SignedTxn) bool {
		// replace a key by an attacker key that signs: the address no longer derives
		ms := c28Msigs(s)
		if len(ms) == 0 {
			return false
		}
		m := ms[0]
		c28CloneSubsigs(m)
		i := r.Intn(len(m.Subsigs))
		k := c28Key(r)
		m.Subsigs[i].Key = k.SignatureVerifier
		if m == &s.Msig {
			m.Subsigs[i].Sig = k.Sign(s.Txn)
		} else if m == &s.Lsig.Msig {
			m.Subsigs[i].Sig = k.Sign(logic.Program(s.Lsig.Logic))
		}
		return true
	}},
	{"msig-threshold-1", func(r *kit.Rand, s *transactions.SignedTxn) bool {
		ms := c28Msigs(s)
		if len(ms) == 0 || ms[0].Threshold == 0 {
			return false
		}
		ms[0].Threshold--
		return true
	}},
	{"msig-version", func(r *kit.Rand, s *transactions.SignedTxn) bool {
		ms := c28Msigs(s)
		if len(ms) == 0 {
			return false
		}
		ms[0].Version = uint8(r.Range(0, 3))
		if ms[0].Version == 1 {
			ms[0].Version = 2
		}
		return true
	}},
	{"msig-subsig-dropped-slot", func(r *kit.Rand, s *transactions.SignedTxn) bool {
		ms := c28Msigs(s)
		if len(ms) == 0 || len(ms[0].Subsigs) < 2 {
			return false
		}
		m := ms[0]
		i := r.Intn(len(m.Subsigs))
		m.Subsigs = append(append([]crypto.MultisigSubsig(nil), m.Subsigs[:i]...), m.Subsigs[i+1:]...)
		return true
	}},
	{"msig-subsig-duplicated-slot", func(r *kit.Rand, s *transactions.SignedTxn) bool {
		ms := c28Msigs(s)
		if len(ms) == 0 {
			return false
		}
		m := ms[0]
		for _, i := range r.Perm(len(m.Subsigs)) {
			if m.Subsigs[i].Sig != (crypto.Signature{}) {
				m.Subsigs = append(append([]crypto.MultisigSubsig(nil), m.Subsigs...), m.Subsigs[i])
				return true
			}
		}
		return false
	}},
	{"msig-slots-swapped", func(r *kit.Rand, s *transactions.SignedTxn) bool {
		ms := c28Msigs(s)
		if len(ms) == 0 || len(ms[0].Subsigs) < 2 {
			return false
		}
		m := ms[0]
		c28CloneSubsigs(m)
		i := r.Intn(len(m.Subsigs) - 1)
		if m.Subsigs[i] == m.Subsigs[i+1] {
			return false
		}
		m.Subsigs[i], m.Subsigs[i+1] = m.Subsigs[i+1], m.Subsigs[i]
		return true
	}},
	{"lsig-msig-field-moved", func(r *kit.Rand, s *transactions.SignedTxn) bool {
		// signatures over Program moved to the field that is verified over MultisigProgram, and vice versa
		if len(s.Lsig.Msig.Subsigs) > 0 {
			s.Lsig.LMsig, s.Lsig.Msig = s.Lsig.Msig, crypto.MultisigSig{}
			return true
		}
		if len(s.Lsig.LMsig.Subsigs) > 0 {
			s.Lsig.Msig, s.Lsig.LMsig = s.Lsig.LMsig, crypto.MultisigSig{}
			return true
		}
		return false
	}},
	{"lsig-program-byte", func(r *kit.Rand, s *transactions.SignedTxn) bool {
		if len(s.Lsig.Logic) == 0 {
			return false
		}
		p := append([]byte(nil), s.Lsig.Logic...)
		p[r.Range(1, len(p)-1)] ^= 1 << uint(r.Intn(8))
		s.Lsig.Logic = p
		return true
	}},
	{"lsig-program-replaced-by-approve-all", func(r *kit.Rand, s *transactions.SignedTxn) bool {
		if len(s.Lsig.Logic) == 0 {
			return false
		}
		s.Lsig.Logic = []byte{6, 0x81, 1} // #pragma version 6; pushint 1
		return true
	}},
	{"lsig-args", func(r *kit.Rand, s *transactions.SignedTxn) bool {
		// arguments are not signed: the program decides
		if len(s.Lsig.Logic) == 0 {
			return false
		}
		switch r.Intn(3) {
		case 0:
			s.Lsig.Args = nil
		case 1:
			s.Lsig.Args = [][]byte{[]byte("no")}
		case 2:
			s.Lsig.Args = [][]byte{[]byte("ok"), r.Bytes(r.Range(0, 10))} // still approves
		}
		return true
	}},
	{"lsig-amount-over-limit", func(r *kit.Rand, s *transactions.SignedTxn) bool {
		if len(s.Lsig.Logic) == 0 || s.Txn.Type != protocol.PaymentTx {
			return false
		}
		s.Txn.Amount.Raw += 1_000_001 // the program bounds the amount; the message is not signed in lsig mode
		return true
	}},
	{"lsig-rekey", func(r *kit.Rand, s *transactions.SignedTxn) bool {
		if len(s.Lsig.Logic) == 0 || s.Txn.Type == protocol.HeartbeatTx {
			return false
		}
		r.Fill(s.Txn.RekeyTo[:])
		return true
	}},
	{"lsig-message-allowed-change", func(r *kit.Rand, s *transactions.SignedTxn) bool {
		// in logicsig mode a change the program does not look at is legitimately accepted
		if len(s.Lsig.Logic) == 0 {
			return false
		}
		s.Txn.Note = append(append([]byte(nil), s.Txn.Note...), 'x')
		return true
	}},
	// --- number of categories ---
	{"second-category-sig", func(r *kit.Rand, s *transactions.SignedTxn) bool {
		if s.Sig != (crypto.Signature{}) || s.Txn.Type == protocol.StateProofTx {
			return false
		}
		k := c28Key(r)
		s.Sig = k.Sign(s.Txn) // valid signature by a stranger, next to the real authorization
		return true
	}},
	{"second-category-msig", func(r *kit.Rand, s *transactions.SignedTxn) bool {
		if len(s.Msig.Subsigs) > 0 || s.Txn.Type == protocol.StateProofTx {
			return false
		}
		k := c28Key(r)
		s.Msig = crypto.MultisigSig{Version: 1, Threshold: 1, Subsigs: []crypto.MultisigSubsig{{Key: k.SignatureVerifier, Sig: k.Sign(s.Txn)}}}
		return true
	}},
	{"second-category-lsig", func(r *kit.Rand, s *transactions.SignedTxn) bool {
		if len(s.Lsig.Logic) > 0 || s.Txn.Type == protocol.StateProofTx {
			return false
		}
		s.Lsig.Logic = []byte{6, 0x81, 1}
		return true
	}},
	{"all-authorization-removed", func(r *kit.Rand, s *transactions.SignedTxn) bool {
		if s.Txn.Type == protocol.StateProofTx {
			return false
		}
		s.Sig, s.Msig, s.Lsig, s.PQsig = crypto.Signature{}, crypto.MultisigSig{}, transactions.LogicSig{}, transactions.PQSig{}
		return true
	}},
	{"pq-sig-byte", func(r *kit.Rand, s *transactions.SignedTxn) bool {
		p := &s.PQsig
		if len(p.Signature) == 0 {
			p = &s.Lsig.PQsig
		}
		if len(p.Signature) == 0 {
			return false
		}
		b := append([]byte(nil), p.Signature...)
		b[r.Intn(len(b))] ^= 1 << uint(r.Intn(8))
		p.Signature = b
		return true
	}},
	{"pq-public-key-byte", func(r *kit.Rand, s *transactions.SignedTxn) bool {
		p := &s.PQsig
		if len(p.PublicKey) == 0 {
			p = &s.Lsig.PQsig
		}
		if len(p.PublicKey) == 0 {
			return false
		}
		b := append([]byte(nil), p.PublicKey...)
		b[r.Intn(len(b))] ^= 1 << uint(r.Intn(8))
		p.PublicKey = b
		return true
	}},
	{"pq-salt", func(r *kit.Rand, s *transactions.SignedTxn) bool {
		p := &s.PQsig
		if len(p.PublicKey) == 0 {
			p = &s.Lsig.PQsig
		}
		if len(p.PublicKey) == 0 {
			return false
		}
		p.Salt++
		return true
	}},
	{"pq-sig-moved-to-lsig-delegation", func(r *kit.Rand, s *transactions.SignedTxn) bool {
		// a PQ signature over the transaction presented as a delegation of an approve-all program
		if len(s.PQsig.Signature) == 0 {
			return false
		}
		s.Lsig = transactions.LogicSig{Logic: []byte{6, 0x81, 1}, PQsig: s.PQsig}
		s.PQsig = transactions.PQSig{}
		return true
	}},
	{"stateproof-exemption-other-type", func(r *kit.Rand, s *transactions.SignedTxn) bool {
		// the exemption is for the state-proof transaction type only: the special sender cannot pay without authorization
		if s.Txn.Type != protocol.StateProofTx {
			return false
		}
		s.Txn.Type = protocol.PaymentTx
		s.Txn.StateProofTxnFields = transactions.StateProofTxnFields{}
		s.Txn.Receiver = basics.Address{9, 9}
		s.Txn.Amount.Raw = 1
		return true
	}},
}

// c28SignedMessage is what the authorization of s covers (for classification of findings only).
func c28SignedMessage(s *transactions.SignedTxn) []byte {
	if len(s.Lsig.Logic) != 0 {
		return append([]byte("P:"), s.Lsig.Logic...)
	}
	return append([]byte("T:"), protocol.Encode(&s.Txn)...)
}

func c28Clone(s transactions.SignedTxn) transactions.SignedTxn {
	var out transactions.SignedTxn
	if err := protocol.Decode(protocol.Encode(&s), &out); err != nil {
		panic(err)
	}
	return out
}

// ---------------------------------------------------------------------------------------------
// the monitor

type c28Monitor struct {
	w     *c28World
	cache VerifiedTransactionCache
	pool  execpool.BacklogPool
}

func c28SigRelated(err error) bool {
	var ge *TxGroupError
	if errors.As(err, &ge) {
		switch ge.Reason {
		case TxGroupErrorReasonHasNoSig, TxGroupErrorReasonSigNotWellFormed, TxGroupErrorReasonMsigNotWellFormed, TxGroupErrorReasonLogicSigFailed:
			return true
		}
		return errors.Is(err, errAuthAddrEqualsSender)
	}
	return errors.Is(err, crypto.ErrBatchHasFailedSigs)
}

// check runs one group through verify.TxnGroup (and, for a share of cases, through PaysetGroups and the
// verified-transaction cache) and compares with the reference. orig is the honest signed group the mutant was
// derived from (nil for unmutated groups).
func (m *c28Monitor) check(label string, caseID string, group []transactions.SignedTxn, orig []transactions.SignedTxn, usePayset bool) (accepted bool) {
	c := m.w.c
	allOK := true
	unknown := false
	var whys []string
	for i := range group {
		ok, why, unk := m.w.ref(&group[i])
		if unk {
			unknown = true
		}
		if !ok {
			allOK = false
			whys = append(whys, fmt.Sprintf("[%d] %s", i, why))
		}
	}
	work := make([]transactions.SignedTxn, len(group))
	for i := range group {
		work[i] = group[i]
	}
	var err error
	c.Guard("verify.TxnGroup", map[string]any{"case": caseID, "mutation": label}, func() {
		if usePayset {
			err = PaysetGroups(context.Background(), [][]transactions.SignedTxn{work}, m.w.hdr, m.pool, MakeVerifiedTransactionCache(50), m.w.ledger)
		} else {
			_, err = TxnGroup(work, &m.w.hdr, nil, m.w.ledger)
		}
	})
	accepted = err == nil
	c.Eval(1)
	if unknown {
		c.Count("reference_undecided_skipped", 1)
		return accepted
	}
	if accepted && !allOK {
		key := "accepts-invalid-authorization"
		if orig != nil {
			for i := range group {
				if i < len(orig) && !bytes.Equal(c28SignedMessage(&group[i]), c28SignedMessage(&orig[i])) {
					key = "accepts-altered-signed-message"
				}
			}
		}
		c.Violation(key, map[string]any{"case": caseID, "mutation": label, "protocol": string(m.w.cv), "via": map[bool]string{true: "PaysetGroups", false: "TxnGroup"}[usePayset],
			"reference": whys, "group_msgpack_hex": fmt.Sprintf("%x", protocol.EncodeReflect(group))})
		return accepted
	}
	if orig == nil {
		if accepted {
			c.Count("honest_accepted", 1)
		} else if allOK {
			c.Count("honest_rejected", 1)
			c.Observation("an honestly authorized group was rejected (not a violation of C28): case %s: %v", caseID, err)
		}
		return accepted
	}
	switch {
	case !accepted && !allOK && c28SigRelated(err):
		c.Count("mutants_rejected_by_authorization_check", 1)
		c.Count("rejected:"+label, 1)
	case !accepted && !allOK:
		c.Count("mutants_rejected_by_other_check", 1)
	case !accepted && allOK:
		c.Count("mutants_still_authorized_rejected_by_stricter_rule", 1)
	case accepted && allOK:
		c.Count("mutants_still_authorized_accepted", 1)
		c.Count("accepted:"+label, 1)
	}
	return accepted
}

func (w *c28World) group(txns []transactions.Transaction) {
	if len(txns) < 2 {
		return
	}
	var tg transactions.TxGroup
	for i := range txns {
		txns[i].Group = crypto.Digest{}
		tg.TxGroupHashes = append(tg.TxGroupHashes, crypto.Digest(txns[i].ID()))
	}
	g := crypto.HashObj(tg)
	for i := range txns {
		txns[i].Group = g
	}
}

func c28Protocols() []protocol.ConsensusVersion {
	// Future/v42: PQ signatures, LMsig delegation, AuthAddr != Sender enforced; v41: LMsig, no PQ; v40: Msig delegation.
	return []protocol.ConsensusVersion{protocol.ConsensusFuture, protocol.ConsensusV41, protocol.ConsensusV40}
}

func c28Setup(c *kit.Ctx) ([]*c28PQKey, []c28HB) {
	var pqs []*c28PQKey
	for i := 0; i < 3; i++ {
		var seed crypto.FalconSeed
		c.Rand(28, 1000, uint64(i)).Fill(seed[:])
		signer, err := crypto.GenerateFalconSigner(seed)
		if err != nil {
			c.Harness("falcon keygen: %v", err)
		}
		salt, addr, err := basics.CanonicalPQAddressSalt(protocol.PQSchemeFalcon1024, signer.PublicKey[:])
		if err != nil {
			c.Harness("pq address: %v", err)
		}
		pqs = append(pqs, &c28PQKey{signer: signer, salt: salt, addr: addr})
	}
	var hbs []c28HB
	for i := 0; i < 4; i++ {
		hbs = append(hbs, c28MakeHB(c.Rand(28, 1001, uint64(i))))
	}
	return pqs, hbs
}

func TestVerifC28Verify(t *testing.T) {
	c := kit.Start(t, "C28", "verify")
	defer c.Finish()
	c.Rule("signed transactions of every type (pay, keyreg, acfg, axfer, afrz, appl, hb, stpf) authorized by ed25519 keys, multisigs (1..5 slots incl. duplicated keys, every threshold, k=0..n signatures), contract and delegated logic signatures (sig / msig or lmsig / PQ delegation) and Falcon-1024 PQ signatures, with and without AuthAddr, under Future, v41 and v40, singly and in groups of 2..16 with one mutated member; each honest transaction is then mutated field-wise (every header field, type fields, AuthAddr, signature material, subsig slots, program, args, second authorization category) and byte-wise on its msgpack encoding; verify.TxnGroup / PaysetGroups / the verified-transaction cache are compared with an independent reference for 'exactly one valid authorization by the claimed authorizer'; both ed25519 batch verifier implementations are used; distinct = (protocol, authorization kind, transaction type, mutation) combinations that were decided")
	c.Assume("trusted: single-signature ed25519 verification and the Falcon verifier (primitives), SHA-512/256, msgpack encoding of Transaction; the logic-signature template program is evaluated natively by the reference, other programs are not judged")
	c.Assume("Falcon signatures are produced by the library's deterministic signer")
	pqs, hbs := c28Setup(c)
	pool := execpool.MakeBacklog(nil, 0, execpool.LowPriority, nil)
	defer pool.Shutdown()

	ncases := c.N(420, 4200)
	if c.Lane == "asan" {
		ncases = 900 // the sanitizer lane looks for memory errors in the cgo verification paths, not for more cases
	}
	for ci := 0; ci < ncases && c.Violations() < 20; ci++ {
		r := c.Rand(28, 1, uint64(ci))
		cv := c28Protocols()[ci%3]
		crypto.SetEd25519BatchVerifier((ci/3)%2 == 0)
		w := c28NewWorld(c, cv, pqs, hbs)
		mon := &c28Monitor{w: w, pool: pool}
		caseID := fmt.Sprintf("seed=%d case=%d proto=%s", c.Seed, ci, cv)

		// the honest group
		gsize := 1
		if r.Chance(1, 4) {
			gsize = r.Range(2, 16)
		}
		var accts []*c28Acct
		var txns []transactions.Transaction
		for i := 0; i < gsize; i++ {
			kind := c28Kind(r.Intn(int(c28NumKinds)))
			if (kind == c28PQ || kind == c28LsigDelPQ) && !w.proto.PQSigEnabled() {
				kind = c28Ed
			}
			a, err := w.newAcct(r, kind)
			if err != nil {
				c.Harness("account: %v", err)
			}
			sender := a.addr
			if r.Chance(1, 3) { // rekeyed sender: the authorizer is claimed through AuthAddr
				r.Fill(sender[:])
			}
			maxAmt := uint64(1_000_000)
			if a.prog != nil {
				maxAmt = a.limit
			}
			tx := w.baseTxn(r, sender, maxAmt)
			if gsize > 1 && tx.Type == protocol.HeartbeatTx {
				tx.Type, tx.HeartbeatTxnFields = protocol.PaymentTx, nil
			}
			accts = append(accts, a)
			txns = append(txns, tx)
		}
		if gsize == 1 && r.Chance(1, 25) {
			// the state-proof transaction: no authorization at all, from the special sender
			txns[0] = transactions.Transaction{Type: protocol.StateProofTx, Header: transactions.Header{Sender: transactions.StateProofSender,
				FirstValid: 5, LastValid: 50, GenesisHash: crypto.Digest{1, 2, 3}}}
			txns[0].StateProofTxnFields.Message.LastAttestedRound = 512
		}
		w.group(txns)
		honest := make([]transactions.SignedTxn, gsize)
		for i := range txns {
			if txns[i].Type == protocol.StateProofTx {
				honest[i] = transactions.SignedTxn{Txn: txns[i]}
				continue
			}
			k := -1
			if r.Chance(1, 3) {
				k = r.Range(0, 5) // any number of subsigs incl. too few / more than needed
			}
			s, err := w.sign(txns[i], accts[i], r, k)
			if err != nil {
				c.Harness("sign: %v", err)
			}
			honest[i] = s
		}
		okHonest := mon.check("", caseID, honest, nil, ci%5 == 4)
		if !okHonest {
			// under-signed multisig etc.: still mutate, the reference decides each mutant on its own
			c.Count("honest_groups_not_accepted", 1)
		}

		// field-wise mutation of one member
		victim := r.Intn(gsize)
		for mi, mu := range c28Muts {
			rm := c.Rand(28, 2, uint64(ci), uint64(mi))
			g := make([]transactions.SignedTxn, gsize)
			for i := range honest {
				g[i] = c28Clone(honest[i])
			}
			if !mu.f(rm, &g[victim]) {
				continue
			}
			if gsize > 1 && !bytes.Equal(protocol.Encode(&g[victim].Txn), protocol.Encode(&honest[victim].Txn)) {
				// the message changed: give the whole group the id of the mutated member list and let every other
				// member be re-signed honestly, so that only the victim's authorization is stale
				tt := make([]transactions.Transaction, gsize)
				for i := range g {
					tt[i] = g[i].Txn
				}
				w.group(tt)
				for i := range g {
					if i == victim {
						g[i].Txn = tt[i]
						continue
					}
					s, err := w.sign(tt[i], accts[i], rm, -1)
					if err != nil {
						c.Harness("sign: %v", err)
					}
					g[i] = s
				}
			}
			mon.check(mu.name, caseID, g, honest, (ci+mi)%7 == 6)
			c.Distinct(fmt.Sprintf("%s|%s|%s|%s", cv, accts[victim].kind, txns[victim].Type, mu.name))
		}

		// byte-wise mutation of the encoded signed transaction (singletons; every byte of small ones, sampled for large)
		if gsize == 1 {
			enc := protocol.Encode(&honest[0])
			positions := len(enc)
			step := 1
			if positions > c.N(160, 700) {
				step = positions / c.N(160, 700)
			}
			for p := r.Intn(step); p < positions; p += step {
				rb := c.Rand(28, 3, uint64(ci), uint64(p))
				mutated := append([]byte(nil), enc...)
				switch rb.Intn(3) {
				case 0:
					mutated[p] ^= 1 << uint(rb.Intn(8))
				case 1:
					mutated[p] = byte(rb.Intn(256))
				case 2:
					mutated[p]++
				}
				if bytes.Equal(mutated, enc) {
					continue
				}
				var s transactions.SignedTxn
				if err := protocol.Decode(mutated, &s); err != nil {
					c.Count("byte_mutants_undecodable", 1)
					continue
				}
				c.Count("byte_mutants_decoded", 1)
				mon.check("byte", caseID+fmt.Sprintf(" byte=%d", p), []transactions.SignedTxn{s}, honest, false)
			}
			c.Distinct(fmt.Sprintf("%s|%s|%s|byte", cv, accts[0].kind, txns[0].Type))
		}
		if ci < 4 {
			c.Sample(map[string]any{"case": ci, "protocol": string(cv), "group_size": gsize, "victim_kind": accts[victim].kind.String(), "victim_type": string(txns[victim].Type), "honest_accepted": okHonest})
		}
	}

	c28Thresholds(c, pqs, hbs)
	c28Cache(c, pqs, hbs)

	scale := int64(ncases) / 420
	c.Require("honest_accepted", 150*scale)
	c.Require("mutants_rejected_by_authorization_check", 3000*scale)
	c.Require("mutants_still_authorized_accepted", 100*scale)
	c.Require("byte_mutants_decoded", 3000*scale)
	c.Require("threshold_cases", 100)
	c.Require("cache_queries_vouched", 20)
	c.Require("cache_queries_mutant_not_vouched", 100)
	for _, must := range []string{"rejected:fee+1", "rejected:sender", "rejected:authaddr", "rejected:sig-bitflip", "rejected:msig-subsig-copied", "rejected:msig-threshold-1",
		"rejected:second-category-sig", "rejected:lsig-program-byte", "rejected:lsig-amount-over-limit", "rejected:pq-sig-byte", "rejected:all-authorization-removed",
		"rejected:stateproof-exemption-other-type", "accepted:lsig-message-allowed-change"} {
		c.Require(must, 1)
	}
}

// c28Thresholds enumerates small multisigs completely: n = 1..4 slots (with and without a duplicated key),
// every threshold, every subset of slots signing, and for every signing subset every single signature replaced
// by an invalid one.
func c28Thresholds(c *kit.Ctx, pqs []*c28PQKey, hbs []c28HB) {
	r := c.Rand(28, 5)
	w := c28NewWorld(c, protocol.ConsensusFuture, pqs, hbs)
	mon := &c28Monitor{w: w}
	for n := 1; n <= 4; n++ {
		for dup := 0; dup < 2; dup++ {
			if dup == 1 && n < 2 {
				continue
			}
			sks := make([]*crypto.SignatureSecrets, n)
			for i := range sks {
				sks[i] = c28Key(r)
			}
			if dup == 1 {
				sks[n-1] = sks[0]
			}
			for thr := 1; thr <= n; thr++ {
				pks := make([]crypto.PublicKey, n)
				for i := range pks {
					pks[i] = sks[i].SignatureVerifier
				}
				addr := basics.Address(c28RefMsigAddr(1, uint8(thr), pks))
				tx := w.baseTxn(r, addr, 1000)
				if tx.Type == protocol.HeartbeatTx {
					tx.Type, tx.HeartbeatTxnFields = protocol.PaymentTx, nil
				}
				for mask := 0; mask < 1<<n; mask++ {
					for bad := -1; bad < n; bad++ {
						if bad >= 0 && mask&(1<<bad) == 0 {
							continue
						}
						crypto.SetEd25519BatchVerifier((mask+bad)%2 == 0)
						m := crypto.MultisigSig{Version: 1, Threshold: uint8(thr), Subsigs: make([]crypto.MultisigSubsig, n)}
						valid := 0
						for i := 0; i < n; i++ {
							m.Subsigs[i].Key = pks[i]
							if mask&(1<<i) != 0 {
								m.Subsigs[i].Sig = sks[i].Sign(tx)
								if i == bad {
									m.Subsigs[i].Sig[7] ^= 0x10
								} else {
									valid++
								}
							}
						}
						s := transactions.SignedTxn{Txn: tx, Msig: m}
						honestLike := []transactions.SignedTxn{s}
						acc := mon.check("msig-enumeration", fmt.Sprintf("thresholds n=%d thr=%d mask=%b bad=%d dup=%d", n, thr, mask, bad, dup), honestLike, honestLike, false)
						c.Count("threshold_cases", 1)
						if valid < thr {
							c.Count("threshold_cases_below", 1)
						}
						if acc {
							c.Count("threshold_cases_accepted", 1)
						}
						c.Distinct(fmt.Sprintf("thr|%d|%d|%d|%v|%d", n, thr, valid, bad >= 0, dup))
					}
				}
			}
		}
	}
}

// c28Cache: groups verified into a real VerifiedTransactionCache; the cache is then asked about mutants of those
// groups (what Eval does before PaysetGroups). A mutant the cache vouches for must be authorized per the reference.
func c28Cache(c *kit.Ctx, pqs []*c28PQKey, hbs []c28HB) {
	n := c.N(60, 1500)
	for ci := 0; ci < n && c.Violations() < 20; ci++ {
		r := c.Rand(28, 6, uint64(ci))
		cv := c28Protocols()[ci%3]
		crypto.SetEd25519BatchVerifier(ci%2 == 0)
		w := c28NewWorld(c, cv, pqs, hbs)
		cache := MakeVerifiedTransactionCache(r.Range(4, 64))
		spec := transactions.SpecialAddresses{FeeSink: w.hdr.FeeSink, RewardsPool: w.hdr.RewardsPool}
		var groups [][]transactions.SignedTxn
		var gaccts [][]*c28Acct
		for gi := 0; gi < r.Range(1, 6); gi++ {
			gsize := r.Range(1, 4)
			var accts []*c28Acct
			var txns []transactions.Transaction
			for i := 0; i < gsize; i++ {
				kind := c28Kind(r.Intn(int(c28NumKinds)))
				if (kind == c28PQ || kind == c28LsigDelPQ) && !w.proto.PQSigEnabled() {
					kind = c28Msig
				}
				a, err := w.newAcct(r, kind)
				if err != nil {
					c.Harness("account: %v", err)
				}
				tx := w.baseTxn(r, a.addr, 1000)
				if tx.Type == protocol.HeartbeatTx {
					tx.Type, tx.HeartbeatTxnFields = protocol.PaymentTx, nil
				}
				accts = append(accts, a)
				txns = append(txns, tx)
			}
			w.group(txns)
			g := make([]transactions.SignedTxn, gsize)
			for i := range txns {
				s, err := w.sign(txns[i], accts[i], r, -1)
				if err != nil {
					c.Harness("sign: %v", err)
				}
				g[i] = s
			}
			if _, err := TxnGroup(g, &w.hdr, cache, w.ledger); err != nil {
				c.Observation("cache part: honest group rejected: %v", err)
				continue
			}
			groups = append(groups, g)
			gaccts = append(gaccts, accts)
		}
		for gi, g := range groups {
			// the unmodified group must be answered from the cache (otherwise the cache leg is vacuous)
			if len(cache.GetUnverifiedTransactionGroups([][]transactions.SignedTxn{g}, spec, cv)) == 0 {
				c.Count("cache_queries_vouched", 1)
			}
			for mi, mu := range c28Muts {
				rm := c.Rand(28, 7, uint64(ci), uint64(gi), uint64(mi))
				q := make([]transactions.SignedTxn, len(g))
				for i := range g {
					q[i] = c28Clone(g[i])
				}
				victim := rm.Intn(len(q))
				if !mu.f(rm, &q[victim]) {
					continue
				}
				var unv [][]transactions.SignedTxn
				if c.Guard("cache.GetUnverifiedTransactionGroups", map[string]any{"case": ci, "mutation": mu.name}, func() {
					unv = cache.GetUnverifiedTransactionGroups([][]transactions.SignedTxn{q}, spec, cv)
				}) {
					continue
				}
				c.Eval(1)
				if len(unv) != 0 {
					c.Count("cache_queries_mutant_not_vouched", 1)
					continue
				}
				for i := range q {
					ok, why, unk := w.ref(&q[i])
					if !ok && !unk {
						c.Violation("cache-vouches-for-unauthorized", map[string]any{"case": fmt.Sprintf("seed=%d cache-case=%d group=%d", c.Seed, ci, gi), "mutation": mu.name, "member": i,
							"reference": why, "kind": gaccts[gi][i].kind.String(), "group_msgpack_hex": fmt.Sprintf("%x", protocol.EncodeReflect(q))})
					}
				}
				c.Count("cache_queries_mutant_vouched_and_authorized", 1)
			}
		}
	}
}
