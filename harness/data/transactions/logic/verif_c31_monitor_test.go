package logic

// C31 (part 1 of 3): the step monitor and the evaluation environment.
//
// The monitor is installed as the production EvalTracer. After every opcode (of the program
// under test and of every inner application call it triggers) it asserts the bounds the property
// states, each taken from the limit the code itself declares:
//
//   - stack depth <= maxStackDepth (1000) after every successful step (a failing step may leave a
//     transiently deeper stack: the interpreter detects overflow after the push and then stops);
//   - every byte value on the stack <= maxStringSize (4096) after every successful step, and every
//     scratch value after store/stores and at program end. One documented legacy behaviour is
//     honoured: under a consensus protocol with LogicSigVersion < 13 `pushbytess` does not check
//     its constants (eval.go byteImmArgs keeps the historical behaviour until v13 is in effect);
//     when that exact path is observed the length assertion is disarmed for that evaluation;
//   - cost: every successful step costs >= 1 (so evaluation terminates); own cost <= own budget
//     when not pooled (and for isolated ClearState programs); pooled counters never negative and
//     never higher than (initial pool + inner-app-call credits - total cost consumed);
//   - 0 <= pc <= len(program);
//   - callstack depth <= cost consumed (the code has no explicit frame limit; each frame is pushed
//     by a callsub that costs at least 1, which is what bounds recursion);
//   - log calls/bytes, inner transaction counts and inner app-call depth within protocol limits.

import (
	"errors"
	"fmt"
	"runtime/debug"
	"strings"

	"github.com/algorand/go-algorand/config"
	"github.com/algorand/go-algorand/data/basics"
	"github.com/algorand/go-algorand/data/transactions"
	"github.com/algorand/go-algorand/protocol"
	"verif.local/kit"
)

type c31Viol struct {
	Key    string `json:"key"`
	Detail string `json:"detail"`
}

// c31Stats is what one worker process measured; merged by the parent.
type c31Stats struct {
	Cases       int64            `json:"cases"`
	Evals       int64            `json:"evals"` // Check+Eval oracle evaluations
	Steps       int64            `json:"steps"`
	OpOK        [256]int64       `json:"op_ok"`  // successful executions per opcode byte
	OpErr       [256]int64       `json:"op_err"` // failing executions per opcode byte
	SubOK       [32]int64        `json:"sub_ok"` // successful executions per 0xd4 sub-opcode
	Outcomes    map[string]int64 `json:"outcomes"`
	ErrClasses  map[string]int64 `json:"err_classes"`
	Counters    map[string]int64 `json:"counters"`
	Max         map[string]int64 `json:"max"`
	Violations  []c31Witness     `json:"violations"`
	Samples     []map[string]any `json:"samples"`
	HarnessErrs []string         `json:"harness_errors"`
	Next        uint64           `json:"next"` // checkpoints: first case index not covered by these numbers
}

type c31Witness struct {
	Key     string         `json:"key"`
	Witness map[string]any `json:"witness"`
}

func c31NewStats() *c31Stats {
	return &c31Stats{Outcomes: map[string]int64{}, ErrClasses: map[string]int64{}, Counters: map[string]int64{}, Max: map[string]int64{}}
}

func (s *c31Stats) max(name string, v int64) {
	if v > s.Max[name] {
		s.Max[name] = v
	}
}

type c31AbortSteps struct{}

type c31CxCost struct {
	cx   *EvalContext
	cost int
}

type c31Monitor struct {
	NullEvalTracer
	st             *c31Stats
	proto          *config.ConsensusParams
	pooled         bool
	initial        int // pooled budget when the evaluation started
	bumps          int // credits added by inner application calls
	total          int // sum of cost deltas observed
	costs          []c31CxCost
	opStack        []uint16
	legacyOversize bool
	steps          int
	aborted        bool
	viol           []c31Viol
}

func c31NewMonitor(st *c31Stats, ep *EvalParams) *c31Monitor {
	m := &c31Monitor{st: st, proto: ep.Proto}
	if ep.runMode == ModeApp && ep.PooledApplicationBudget != nil {
		m.pooled, m.initial = true, *ep.PooledApplicationBudget
	}
	if ep.runMode == ModeSig && ep.PooledLogicSigBudget != nil {
		m.pooled, m.initial = true, *ep.PooledLogicSigBudget
	}
	return m
}

func (m *c31Monitor) flag(cx *EvalContext, key, format string, a ...any) {
	if len(m.viol) >= 3 {
		return
	}
	op := "?"
	if n := len(m.opStack); n > 0 {
		op = fmt.Sprintf("0x%02x", m.opStack[n-1]&0xff)
	}
	m.viol = append(m.viol, c31Viol{Key: key, Detail: fmt.Sprintf("step %d, opcode %s, pc(after)=%d, program version %d, mode %s: %s",
		m.steps, op, cx.pc, cx.version, cx.runMode, fmt.Sprintf(format, a...))})
}

func (m *c31Monitor) BeforeTxnGroup(ep *EvalParams) {
	if ep.caller == nil || !ep.Proto.EnableAppCostPooling {
		return
	}
	// NewInnerEvalParams credits the pool once per inner application call
	for i := range ep.TxnGroup {
		if ep.TxnGroup[i].Txn.Type == protocol.ApplicationCallTx {
			m.bumps += ep.Proto.MaxAppProgramCost
		}
	}
}

func (m *c31Monitor) BeforeOpcode(cx *EvalContext) {
	var code uint16
	if cx.pc >= 0 && cx.pc < len(cx.program) {
		code = uint16(cx.program[cx.pc])
		if cx.version <= LogicVersion && opsByOpcode[cx.version][byte(code)].SubOps != nil && cx.pc+1 < len(cx.program) {
			code |= uint16(cx.program[cx.pc+1]) << 8
		}
	}
	m.opStack = append(m.opStack, code)
}

func (m *c31Monitor) checkBytes(cx *EvalContext, where string, v []byte, op byte, ok bool) {
	if len(v) <= maxStringSize {
		return
	}
	m.st.max("max_byte_value_transient", int64(len(v)))
	if !ok || m.legacyOversize {
		return
	}
	if op == 0x82 && cx.Proto.LogicSigVersion < 13 {
		// documented legacy path: pushbytess constants are unchecked before protocol v13
		m.legacyOversize = true
		m.st.Counters["legacy_oversize_pushbytess"]++
		return
	}
	m.flag(cx, "byte-length-exceeded", "%s holds a %d byte value (limit %d)", where, len(v), maxStringSize)
}

func (m *c31Monitor) scanScratch(cx *EvalContext, op byte) {
	for i := range cx.Scratch {
		if b := cx.Scratch[i].Bytes; b != nil {
			m.checkBytes(cx, fmt.Sprintf("scratch[%d]", i), b, op, true)
		}
	}
}

func (m *c31Monitor) lastCost(cx *EvalContext) *c31CxCost {
	for i := range m.costs {
		if m.costs[i].cx == cx {
			return &m.costs[i]
		}
	}
	m.costs = append(m.costs, c31CxCost{cx: cx})
	return &m.costs[len(m.costs)-1]
}

func (m *c31Monitor) AfterOpcode(cx *EvalContext, err error) {
	st := m.st
	var code uint16
	if n := len(m.opStack); n > 0 {
		code = m.opStack[n-1]
		defer func() { m.opStack = m.opStack[:len(m.opStack)-1] }()
	}
	op := byte(code)
	ok := err == nil
	m.steps++
	st.Steps++
	if ok {
		st.OpOK[op]++
		if sub := code >> 8; sub != 0 && sub < 32 {
			st.SubOK[sub]++
		}
	} else {
		st.OpErr[op]++
	}
	if m.aborted {
		return
	}
	if m.steps > 20_000_000 {
		m.aborted = true
		panic(c31AbortSteps{}) // evaluation does not stop: abort it (reported as a violation by the caller)
	}

	// pc stays inside the program
	if cx.pc < 0 || cx.pc > len(cx.program) {
		m.flag(cx, "pc-outside-program", "pc=%d, program length %d", cx.pc, len(cx.program))
	}

	// stack depth and byte lengths
	d := len(cx.Stack)
	if ok {
		if d > maxStackDepth {
			m.flag(cx, "stack-depth-exceeded", "stack depth %d after a successful step (limit %d)", d, maxStackDepth)
		}
		if int64(d) > st.Max["max_stack_depth"] {
			st.Max["max_stack_depth"] = int64(d)
		}
	} else if int64(d) > st.Max["max_stack_depth_transient"] {
		st.Max["max_stack_depth_transient"] = int64(d)
	}
	for i := range cx.Stack {
		if b := cx.Stack[i].Bytes; len(b) > 64 {
			if int64(len(b)) > st.Max["max_byte_value"] && len(b) <= maxStringSize {
				st.Max["max_byte_value"] = int64(len(b))
			}
			if len(b) > maxStringSize {
				m.checkBytes(cx, fmt.Sprintf("stack[%d] of %d", i, d), b, op, ok)
			}
		}
	}
	if ok && (op == 0x35 || op == 0x3f) { // store, stores
		m.scanScratch(cx, op)
	}

	// cost accounting
	lc := m.lastCost(cx)
	delta := cx.cost - lc.cost
	lc.cost = cx.cost
	if delta < 0 {
		m.flag(cx, "cost-decreased", "cost went from %d to %d", cx.cost-delta, cx.cost)
	}
	if ok && delta < 1 {
		m.flag(cx, "zero-cost-step", "a successful step consumed %d cost", delta)
	}
	m.total += delta
	if int64(cx.cost) > st.Max["max_cost_one_program"] {
		st.Max["max_cost_one_program"] = int64(cx.cost)
	}
	if int64(m.total) > st.Max["max_cost_one_evaluation"] {
		st.Max["max_cost_one_evaluation"] = int64(m.total)
	}
	switch cx.runMode {
	case ModeSig:
		if cx.PooledLogicSigBudget != nil {
			m.checkPool(cx, "PooledLogicSigBudget", *cx.PooledLogicSigBudget)
		} else if cx.cost > int(cx.Proto.LogicSigMaxCost) {
			m.flag(cx, "cost-exceeds-budget", "logicsig cost %d > LogicSigMaxCost %d", cx.cost, cx.Proto.LogicSigMaxCost)
		}
	case ModeApp:
		if cx.PooledApplicationBudget != nil {
			m.checkPool(cx, "PooledApplicationBudget", *cx.PooledApplicationBudget)
		} else if cx.cost > cx.Proto.MaxAppProgramCost {
			m.flag(cx, "cost-exceeds-budget", "app cost %d > MaxAppProgramCost %d", cx.cost, cx.Proto.MaxAppProgramCost)
		}
		if cx.Proto.IsolateClearState && cx.txn.Txn.OnCompletion == transactions.ClearStateOC && cx.cost > cx.Proto.MaxAppProgramCost {
			m.flag(cx, "cost-exceeds-budget", "isolated ClearState cost %d > MaxAppProgramCost %d", cx.cost, cx.Proto.MaxAppProgramCost)
		}
	}

	// call stack: every frame was pushed by a callsub that was charged
	if len(cx.callstack) > cx.cost {
		m.flag(cx, "callstack-exceeds-cost", "callstack depth %d with cost %d", len(cx.callstack), cx.cost)
	}
	if int64(len(cx.callstack)) > st.Max["max_callstack_depth"] {
		st.Max["max_callstack_depth"] = int64(len(cx.callstack))
	}

	if cx.runMode == ModeApp {
		m.checkEffects(cx)
	}
}

func (m *c31Monitor) checkPool(cx *EvalContext, name string, pool int) {
	if pool < 0 {
		m.flag(cx, "pooled-budget-negative", "%s = %d", name, pool)
	}
	if m.pooled {
		if avail := m.initial + m.bumps - m.total; pool > avail {
			m.flag(cx, "pooled-budget-undercharged", "%s = %d but initial %d + credits %d - consumed %d = %d", name, pool, m.initial, m.bumps, m.total, avail)
		}
		if m.total > m.initial+m.bumps {
			m.flag(cx, "cost-exceeds-budget", "consumed %d > initial pool %d + credits %d", m.total, m.initial, m.bumps)
		}
	}
}

func (m *c31Monitor) checkEffects(cx *EvalContext) {
	st := m.st
	logs := cx.txn.EvalDelta.Logs
	if len(logs) > cx.MaxLogCalls && cx.MaxLogCalls > 0 {
		m.flag(cx, "log-limit-exceeded", "%d log calls (limit %d)", len(logs), cx.MaxLogCalls)
	}
	sz := 0
	for _, l := range logs {
		sz += len(l)
	}
	if sz > cx.MaxLogSize && cx.MaxLogSize > 0 {
		m.flag(cx, "log-limit-exceeded", "%d log bytes (limit %d)", sz, cx.MaxLogSize)
	}
	if int64(len(logs)) > st.Max["max_log_calls"] {
		st.Max["max_log_calls"] = int64(len(logs))
	}
	if cx.pooledAllowedInners != nil && cx.Proto.EnableInnerTransactionPooling {
		if *cx.pooledAllowedInners < 0 {
			m.flag(cx, "inner-txn-limit-exceeded", "pooledAllowedInners = %d", *cx.pooledAllowedInners)
		}
	} else if n := len(cx.txn.EvalDelta.InnerTxns); n > cx.Proto.MaxInnerTransactions {
		m.flag(cx, "inner-txn-limit-exceeded", "%d inner transactions (limit %d)", n, cx.Proto.MaxInnerTransactions)
	}
	if len(cx.subtxns) > cx.Proto.MaxTxGroupSize {
		m.flag(cx, "inner-txn-limit-exceeded", "%d transactions under construction (group limit %d)", len(cx.subtxns), cx.Proto.MaxTxGroupSize)
	}
	if n := int64(len(cx.txn.EvalDelta.InnerTxns)); n > st.Max["max_inner_txns"] {
		st.Max["max_inner_txns"] = n
	}
	depth := 0
	for p := cx.caller; p != nil; p = p.caller {
		depth++
	}
	if depth > maxAppCallDepth {
		m.flag(cx, "inner-app-depth-exceeded", "inner application call depth %d (limit %d)", depth, maxAppCallDepth)
	}
	if int64(depth) > st.Max["max_inner_app_depth"] {
		st.Max["max_inner_app_depth"] = int64(depth)
	}
}

func (m *c31Monitor) AfterProgram(cx *EvalContext, pass bool, err error) {
	if cx.program == nil {
		return
	}
	if !m.legacyOversize {
		m.scanScratch(cx, 0)
	}
	if cx.runMode == ModeApp && cx.txn != nil {
		m.checkEffects(cx)
	}
}

// ---------------------------------------------------------------------------------------------
// environment

var c31ProtoCache = map[uint32]*config.ConsensusParams{}

type c31EnvCfg struct {
	lsv       uint64 // consensus LogicSigVersion
	sigPool   bool
	appPool   bool
	innerPool bool
	isolate   bool
	trace     bool
	group     int
	gi        int
	oc        transactions.OnCompletion
	create    bool
	unfunded  bool
	bigBox    bool
	access    bool
}

func c31Proto(cfg *c31EnvCfg) *config.ConsensusParams {
	key := uint32(cfg.lsv)
	for i, b := range []bool{cfg.sigPool, cfg.appPool, cfg.innerPool, cfg.isolate} {
		if b {
			key |= 1 << (8 + i)
		}
	}
	c31Mu.Lock()
	defer c31Mu.Unlock()
	if p, ok := c31ProtoCache[key]; ok {
		return p
	}
	p := makeTestProto(func(p *config.ConsensusParams) {
		p.LogicSigVersion = cfg.lsv
		p.Application = cfg.lsv >= appsEnabledVersion
		p.LogicSigMaxCost = 20000
		p.EnableLogicSigCostPooling = cfg.sigPool
		p.EnableAppCostPooling = cfg.appPool
		p.EnableInnerTransactionPooling = cfg.innerPool
		p.IsolateClearState = cfg.isolate
		p.EnableBareBudgetError = cfg.lsv >= 9
	})
	c31ProtoCache[key] = p
	return p
}

func c31Cfg(r *kit.Rand, mode RunMode) *c31EnvCfg {
	cfg := &c31EnvCfg{lsv: LogicVersion, sigPool: true, appPool: true, innerPool: true, isolate: true}
	switch r.Intn(10) {
	case 0:
		cfg.lsv = uint64(r.Range(1, LogicVersion)) // older consensus: newer programs are refused, legacy paths run
	case 1:
		cfg.lsv = LogicVersion - 1 // the current release protocol
	}
	if r.Chance(1, 5) {
		cfg.sigPool = false
	}
	if r.Chance(1, 5) {
		cfg.appPool = false
	}
	if r.Chance(1, 6) {
		cfg.innerPool = false
	}
	if r.Chance(1, 8) {
		cfg.isolate = false
	}
	cfg.trace = r.Chance(1, 40)
	cfg.group = r.Range(1, 4)
	cfg.gi = r.Intn(cfg.group)
	if mode == ModeApp {
		switch r.Intn(12) {
		case 0:
			cfg.oc = transactions.OptInOC
		case 1:
			cfg.oc = transactions.CloseOutOC
		case 2:
			cfg.oc = transactions.ClearStateOC
		case 3:
			cfg.oc = transactions.UpdateApplicationOC
		case 4:
			cfg.oc = transactions.DeleteApplicationOC
		}
		cfg.create = r.Chance(1, 12)
		cfg.unfunded = r.Chance(1, 10)
		cfg.bigBox = r.Chance(1, 20)
		cfg.access = r.Chance(1, 20)
	}
	return cfg
}

var c31Scratcher = []byte{4, 0x81, 7, 0x35, 0, 0x80, 3, 'a', 'b', 'c', 0x35, 1, 0x81, 1} // v4: int 7; store 0; byte "abc"; store 1; int 1

// c31Run evaluates one program once (Check + Eval) under the monitor. The outcome string is one of
// pass / reject / error:<class>; violations (monitor findings, recovered-panic errors) are appended to out.
type c31Result struct {
	outcome string
	check   string
	viol    []c31Viol
	cost    int
	steps   int
}

func c31ErrClass(err error) string {
	s := err.Error()
	s = strings.TrimPrefix(s, "rejected by logic err=")
	s = strings.TrimPrefix(s, "logic eval error: ")
	s = strings.TrimPrefix(s, "pc=")
	var b strings.Builder
	prevDigit := false
	for _, ch := range s {
		if b.Len() >= 44 {
			break
		}
		switch {
		case ch >= '0' && ch <= '9':
			if !prevDigit {
				b.WriteByte('N')
			}
			prevDigit = true
			continue
		case ch == '\n':
			ch = ' '
		}
		prevDigit = false
		b.WriteRune(ch)
	}
	return b.String()
}

// c31PanicOrigin inspects a goroutine stack captured at recover time and tells where the panic was
// raised: "mock" (the upstream test Ledger, part of the trusted harness base), "harness" (this
// harness) or "code" (production code).
func c31PanicOrigin(stack string) (origin string, frame string) {
	lines := strings.Split(stack, "\n")
	// the original panic is the last "panic(" entry of the listing (re-panics from deferred
	// functions appear above it)
	start := -1
	for i, ln := range lines {
		if strings.HasPrefix(ln, "panic(") {
			start = i
		}
	}
	for i := start + 1; i >= 1 && i+1 < len(lines); i++ {
		fn := lines[i]
		if strings.HasPrefix(fn, "\t") || !strings.HasPrefix(lines[i+1], "\t") {
			continue
		}
		loc := strings.TrimSpace(lines[i+1])
		if strings.HasPrefix(fn, "runtime.") || strings.Contains(loc, "/src/runtime/") {
			continue
		}
		frame = fn + " @ " + loc
		switch {
		case strings.Contains(loc, "verif_c31"):
			return "harness", frame
		case strings.Contains(loc, "_test.go"):
			return "mock", frame
		default:
			return "code", frame
		}
	}
	return "code", "(no frame found)"
}

func c31IsPanicErr(err error) (panicError, bool) {
	var pe panicError
	if errors.As(err, &pe) {
		return pe, true
	}
	return pe, false
}

func c31Addr(s string) (a basics.Address) {
	copy(a[:], s)
	return
}

var (
	c31SampleTxn = makeSampleTxn()
	c31SamplePay = makeSampleTxnGroup(makeSampleTxn())[1]
)

func c31BuildGroup(r *kit.Rand, mode RunMode, version uint64, cfg *c31EnvCfg, prog []byte, args [][]byte) []transactions.SignedTxn {
	txns := make([]transactions.SignedTxn, cfg.group)
	for i := range txns {
		t := c31SampleTxn // a copy; the slices inside are only ever read or replaced
		if version < 2 && mode == ModeSig {
			// v0/v1 programs are only allowed in groups that use no later features
			t.Txn.RekeyTo = basics.Address{}
		}
		switch {
		case mode == ModeApp && (i == cfg.gi || i == 0):
			t.Txn.Type = protocol.ApplicationCallTx
			t.Txn.ApplicationID = 888
			if i == cfg.gi {
				if r.Bool() { // a reference to a box of the first foreign app (56)
					t.Txn.Boxes = append(append([]transactions.BoxRef{}, t.Txn.Boxes...), transactions.BoxRef{Index: 1, Name: []byte("self")}, transactions.BoxRef{Index: 1, Name: []byte("fresh")})
				}
				t.Txn.OnCompletion = cfg.oc
				if cfg.create {
					t.Txn.ApplicationID = 0
				}
				if cfg.oc == transactions.UpdateApplicationOC || cfg.create {
					t.Txn.ApprovalProgram = prog
					t.Txn.ClearStateProgram = prog
				}
			}
		case i%2 == 1:
			t = c31SamplePay // the plain payment of the upstream sample group
		}
		if len(args) > 0 && i == cfg.gi {
			t.Txn.ApplicationArgs = append([][]byte{}, args...)
			if len(t.Txn.ApplicationArgs) > 12 {
				t.Txn.ApplicationArgs = t.Txn.ApplicationArgs[:12]
			}
		}
		txns[i] = t
	}
	if mode == ModeSig {
		txns[cfg.gi].Lsig.Logic = prog
		txns[cfg.gi].Lsig.Args = args
	}
	return txns
}

func c31BuildLedger(r *kit.Rand, cfg *c31EnvCfg, sample *transactions.Transaction, callees [][]byte) *Ledger {
	l := NewLedger(nil)
	l.NewAccount(sample.Sender, 10_000_000)
	l.NewAccount(sample.Receiver, 5_000_000)
	if !cfg.unfunded {
		l.NewAccount(basics.AppIndex(888).Address(), 2_000_000)
	}
	creator := sample.Receiver
	var callee []byte
	if len(callees) > 0 {
		callee = callees[0]
	}
	l.NewApp(creator, 888, basics.AppParams{ApprovalProgram: callee, ClearStateProgram: callee,
		StateSchemas: basics.StateSchemas{GlobalStateSchema: basics.StateSchema{NumUint: 8, NumByteSlice: 8}, LocalStateSchema: basics.StateSchema{NumUint: 4, NumByteSlice: 4}}})
	l.NewGlobal(888, "u", 7)
	l.NewGlobal(888, "b", "bytes-value")
	l.NewGlobal(888, "", 1)
	l.NewLocals(sample.Sender, 888)
	l.NewLocal(sample.Sender, 888, "lu", 9)
	l.NewLocal(sample.Sender, 888, "lb", "local-bytes")
	for i, id := range []basics.AppIndex{56, 100, 111} {
		var p []byte
		if len(callees) > 0 {
			p = callees[(i+1)%len(callees)]
		}
		cr := creator
		if i == 2 {
			cr = c31Addr("other-creator-other-creator-00000")
		}
		l.NewApp(cr, id, basics.AppParams{ApprovalProgram: p, ClearStateProgram: p,
			StateSchemas: basics.StateSchemas{GlobalStateSchema: basics.StateSchema{NumUint: 2, NumByteSlice: 2}}})
		l.NewGlobal(id, "g", uint64(i))
		l.NewAccount(id.Address(), 500_000)
	}
	l.NewAsset(creator, 55, basics.AssetParams{Total: 1000, Decimals: 2, UnitName: "u55", AssetName: "asset55", Manager: creator, Reserve: creator, Freeze: creator, Clawback: basics.AppIndex(888).Address()})
	l.NewAsset(sample.Sender, 77, basics.AssetParams{Total: ^uint64(0), DefaultFrozen: true, UnitName: "u77"})
	l.NewHolding(sample.Sender, 55, 123, false)
	l.NewHolding(basics.AppIndex(888).Address(), 55, 77, false)
	selfLen, otherLen := 24, 50
	if cfg.bigBox {
		selfLen = []int{0, 200, 201, 1000}[r.Intn(4)]
	}
	_ = l.NewBox(888, "self", make([]byte, selfLen), basics.AppIndex(888).Address())
	_ = l.NewBox(888, "other", []byte(strings.Repeat("0123456789", otherLen/10)), basics.AppIndex(888).Address())
	_ = l.NewBox(56, "self", make([]byte, 10), basics.AppIndex(56).Address())
	if r.Chance(1, 2) {
		_ = l.SetForeignBoxReads(56, true)
		_ = l.SetFamilyBoxAccess(56, true)
		_ = l.SetFamilyBoxAccess(888, true)
	}
	return l
}

// c31Run performs Check and Eval of prog in the given mode. version is only used to shape the
// environment (the program's own prefix decides what the interpreter does).
func c31Run(st *c31Stats, r *kit.Rand, mode RunMode, version uint64, prog []byte, callees [][]byte, args [][]byte) (res c31Result) {
	cfg := c31Cfg(r, mode)
	proto := c31Proto(cfg)
	txns := c31BuildGroup(r, mode, version, cfg, prog, args)
	ledger := c31BuildLedger(r, cfg, &txns[0].Txn, callees)

	var ep *EvalParams
	if mode == ModeSig {
		ep = NewSigEvalParams(txns, proto, ledger)
	} else {
		ep = NewAppEvalParams(transactions.WrapSignedTxnsWithAD(txns), proto, &transactions.SpecialAddresses{FeeSink: c31Addr("fee-sink-fee-sink-fee-sink-00000")})
		if ep == nil {
			res.outcome = "error:no-app-params"
			return
		}
		ep.Ledger = ledger
		ep.SigLedger = ledger
		if cfg.access && version >= sharedResourcesVersion {
			convertEPToAccess(ep, r.Bool())
		}
	}
	if cfg.trace {
		ep.Trace = &strings.Builder{}
	}

	report := func(where string, err error) bool {
		pe, isPanic := c31IsPanicErr(err)
		if !isPanic {
			if err != nil && strings.Contains(err.Error(), "panic in TEAL Eval") {
				res.viol = append(res.viol, c31Viol{"panic-error", where + " returned an error carrying the recovered-panic text: " + c31Trunc(err.Error(), 1500)})
				return true
			}
			return false
		}
		if _, aborted := pe.PanicValue.(c31AbortSteps); aborted {
			res.viol = append(res.viol, c31Viol{"evaluation-does-not-terminate", where + ": more than 20,000,000 steps in one evaluation; aborted by the monitor"})
			return true
		}
		origin, frame := c31PanicOrigin(pe.StackTrace)
		switch origin {
		case "mock":
			st.Counters["mock_ledger_panics"]++
		case "harness":
			st.HarnessErrs = append(st.HarnessErrs, fmt.Sprintf("panic inside the harness: %v at %s", pe.PanicValue, frame))
		default:
			key := "panic-error"
			if fn, _, ok := strings.Cut(frame, " @ "); ok {
				if i := strings.LastIndex(fn, "("); i > 0 {
					fn = fn[:i] // drop the argument list
				}
				st.Counters["recovered_panic@"+fn[strings.LastIndex(fn, "/")+1:]]++
			}
			if cfg.trace {
				key = "panic-error-with-trace-enabled"
			}
			res.viol = append(res.viol, c31Viol{key, fmt.Sprintf("%s returned the recovered-panic error: panic value %q raised at %s; stack: %s", where, fmt.Sprint(pe.PanicValue), frame, c31Trunc(pe.StackTrace, 2500))})
		}
		return true
	}

	// static check
	var cerr error
	if mode == ModeSig {
		cerr = CheckSignature(cfg.gi, ep)
	} else {
		cerr = CheckContract(prog, cfg.gi, ep)
	}
	st.Evals++
	res.check = "check-ok"
	if cerr != nil {
		res.check = "check-err"
		report("Check", cerr)
	}

	// an earlier application call of the group leaves scratch space behind for gload
	if mode == ModeApp && cfg.gi > 0 && version >= 4 && cfg.lsv >= 4 {
		_, _, _ = EvalContract(c31Scratcher, 0, 888, ep)
		if r.Bool() {
			ep.TxnGroup[0].ApplyData.ApplicationID = 5005 // as if txn 0 had created an app (gaid/gaids)
		}
	}

	mon := c31NewMonitor(st, ep)
	ep.Tracer = mon
	var pass bool
	var err error
	var cx *EvalContext
	if mode == ModeSig {
		pass, cx, err = EvalSignatureFull(cfg.gi, ep)
	} else {
		aid := txns[cfg.gi].Txn.ApplicationID
		if aid == 0 {
			aid = 888
		}
		pass, cx, err = EvalContract(prog, cfg.gi, aid, ep)
	}
	st.Evals++
	res.viol = append(res.viol, mon.viol...)
	res.steps = mon.steps
	if cx != nil {
		res.cost = cx.cost
	}
	switch {
	case err == nil && pass:
		res.outcome = "pass"
	case err == nil:
		res.outcome = "reject"
	default:
		if report("Eval", err) {
			res.outcome = "error:recovered-panic"
		} else {
			res.outcome = "error:" + c31ErrClass(err)
		}
	}
	return res
}

func c31Trunc(s string, n int) string {
	if len(s) > n {
		return s[:n] + "…"
	}
	return s
}

// c31Guarded runs f; a panic that escapes the interpreter's own recovery is returned with its origin.
func c31Guarded(f func()) (panicked bool, origin, frame, value, stack string) {
	defer func() {
		if x := recover(); x != nil {
			stack = string(debug.Stack())
			origin, frame = c31PanicOrigin(stack)
			if _, ok := x.(c31AbortSteps); ok {
				origin = "abort"
			}
			panicked, value = true, fmt.Sprint(x)
		}
	}()
	f()
	return
}
