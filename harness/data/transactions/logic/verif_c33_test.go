package logic

// C33: assemble -> disassemble -> assemble reproduces the bytecode for every program the assembler
// accepts, and every program the assembler accepts passes the static check of its version.
//
// Oracle (no reference model needed, the property is a fixed-point equation):
//   for a generated source p with b = A(p):  D(b) succeeds, A(D(b)) succeeds, A(D(b)) == b bytewise,
//   and Check(b) succeeds for p's version in the mode implied by the opcodes used;
//   for random bytecode b that passes the static check, t = D(b), b1 = A(t) (when both succeed):
//   A(D(b1)) == b1 and Check(b1) succeeds.   b == b1 is NOT demanded (b may be non-canonical).
// Legitimate behaviour honoured: re-assembly of disassembled text runs with `#pragma typetrack false`
// (disassembly drops type annotations) and takes the version from the emitted `#pragma version`;
// the static cost budget of pre-v4 programs is a resource limit, not a structural failure (the
// protocol used has a huge budget and exactly that error is ignored); sources rejected by the
// assembler are outside the property and only counted; the mode for the check is the one the
// generator restricted its opcode choice to.

import (
	"bytes"
	"encoding/base32"
	"encoding/base64"
	"encoding/binary"
	"encoding/hex"
	"fmt"
	"sort"
	"strings"
	"sync"
	"testing"

	"github.com/algorand/go-algorand/config"
	"github.com/algorand/go-algorand/data/basics"
	"github.com/algorand/go-algorand/data/transactions"
	"github.com/algorand/go-algorand/protocol"
	"verif.local/kit"
)

const c33Notrack = "#pragma typetrack false\n"

var c33ProtoOnce sync.Once
var c33ProtoVal *config.ConsensusParams

func c33Proto() *config.ConsensusParams {
	c33ProtoOnce.Do(func() {
		c33ProtoVal = makeTestProto(func(p *config.ConsensusParams) {
			p.LogicSigMaxCost = 1 << 40
			p.MaxAppProgramCost = 1 << 40
		})
	})
	return c33ProtoVal
}

// c33Check runs the static checker on program in the given mode with a protocol that supports
// every version. The "static cost budget" error is reported as nil (see header).
func c33Check(program []byte, mode RunMode) error {
	var err error
	if mode == ModeApp {
		var stxn transactions.SignedTxn
		stxn.Txn.Type = protocol.ApplicationCallTx
		stxn.Txn.ApplicationID = 888
		ep := NewAppEvalParams(transactions.WrapSignedTxnsWithAD([]transactions.SignedTxn{stxn}), c33Proto(), &transactions.SpecialAddresses{})
		err = CheckContract(program, 0, ep)
	} else {
		var stxn transactions.SignedTxn
		stxn.Txn.Type = protocol.PaymentTx
		stxn.Lsig.Logic = program
		ep := NewSigEvalParams([]transactions.SignedTxn{stxn}, c33Proto(), &NoHeaderLedger{})
		err = CheckSignature(0, ep)
	}
	if err != nil && strings.Contains(err.Error(), "static cost budget") {
		return nil
	}
	return err
}

func c33Errs(ops *OpStream, err error) string {
	var sb strings.Builder
	if err != nil {
		sb.WriteString(err.Error())
	}
	if ops != nil {
		for i, e := range ops.Errors {
			if i > 4 {
				break
			}
			sb.WriteString(" | ")
			sb.WriteString(e.Error())
		}
	}
	s := sb.String()
	if len(s) > 600 {
		s = s[:600]
	}
	return s
}

func c33Clip(s string, n int) string {
	if len(s) > n {
		return s[:n] + fmt.Sprintf("...(%d more bytes)", len(s)-n)
	}
	return s
}

// c33SourceOracle applies the oracle to one source text. ver is the version handed to the assembler
// (assemblerNoVersion when the text carries its own #pragma version). Returns the assembled program
// (nil if the assembler rejected the text).
func c33SourceOracle(c *kit.Ctx, source string, ver uint64, mode RunMode, meta map[string]any) []byte {
	wit := func(extra map[string]any) map[string]any {
		m := map[string]any{"source": c33Clip(source, 6000), "assembler_version_arg": int64(ver), "mode": c33ModeName(mode)}
		for k, v := range meta {
			m[k] = v
		}
		for k, v := range extra {
			m[k] = v
		}
		return m
	}
	var ops *OpStream
	var err error
	if c.Guard("assemble", wit(nil), func() { ops, err = AssembleStringWithVersion(source, ver) }) {
		return nil
	}
	if err != nil || ops.Program == nil {
		c.Count("sources_rejected_by_assembler", 1)
		return nil
	}
	c.Count("sources_assembled", 1)
	b := ops.Program
	c33ProgramOracle(c, b, mode, wit)
	return b
}

// c33ProgramOracle: b is a program produced by the assembler. D(b) must succeed, A(D(b)) must
// succeed and equal b, Check(b) must pass.
func c33ProgramOracle(c *kit.Ctx, b []byte, mode RunMode, wit func(map[string]any) map[string]any) bool {
	c.Eval(1)
	var text string
	var err error
	if c.Guard("disassemble", wit(map[string]any{"assembled": hex.EncodeToString(b)}), func() { text, err = Disassemble(b) }) {
		return false
	}
	if err != nil {
		c.Violation("disassemble-fails", wit(map[string]any{"assembled": c33Clip(hex.EncodeToString(b), 4000), "error": err.Error(), "partial_disassembly": c33Clip(text, 2000)}))
		return false
	}
	var ops2 *OpStream
	if c.Guard("reassemble", wit(map[string]any{"disassembly": c33Clip(text, 4000)}), func() {
		ops2, err = AssembleStringWithVersion(c33Notrack+text, assemblerNoVersion)
	}) {
		return false
	}
	if err != nil || ops2.Program == nil {
		c.Violation("reassemble-fails", wit(map[string]any{"assembled": c33Clip(hex.EncodeToString(b), 4000), "disassembly": c33Clip(text, 4000), "errors": c33Errs(ops2, err)}))
		return false
	}
	if !bytes.Equal(ops2.Program, b) {
		at := 0
		for at < len(b) && at < len(ops2.Program) && b[at] == ops2.Program[at] {
			at++
		}
		c.Violation("roundtrip-differs", wit(map[string]any{"assembled": c33Clip(hex.EncodeToString(b), 4000), "reassembled": c33Clip(hex.EncodeToString(ops2.Program), 4000),
			"first_difference_at": at, "disassembly": c33Clip(text, 4000)}))
		return false
	}
	c.Count("roundtrips_equal", 1)
	var cerr error
	if c.Guard("check", wit(map[string]any{"assembled": hex.EncodeToString(b)}), func() { cerr = c33Check(b, mode) }) {
		return false
	}
	if cerr != nil {
		c.Violation("assembled-fails-check", wit(map[string]any{"assembled": c33Clip(hex.EncodeToString(b), 4000), "check_error": cerr.Error(), "disassembly": c33Clip(text, 3000)}))
		return false
	}
	c.Count("assembled_pass_check", 1)
	return true
}

func c33ModeName(m RunMode) string {
	if m == ModeApp {
		return "application"
	}
	return "signature"
}

// ---------------------------------------------------------------------------------------------
// literals

var c33B32 = base32.StdEncoding.WithPadding(base32.NoPadding)

func c33StringLit(b []byte) string {
	var sb strings.Builder
	sb.WriteByte('"')
	for _, ch := range b {
		switch {
		case ch == '"':
			sb.WriteString(`\"`)
		case ch == '\\':
			sb.WriteString(`\\`)
		case ch == '\n':
			sb.WriteString(`\n`)
		case ch == '\t':
			sb.WriteString(`\t`)
		case ch == '\r':
			sb.WriteString(`\r`)
		case ch >= 32 && ch < 127:
			sb.WriteByte(ch)
		default:
			fmt.Fprintf(&sb, `\x%02x`, ch)
		}
	}
	sb.WriteByte('"')
	return sb.String()
}

// c33ByteLit renders b in one of the literal syntaxes of the assembler. kind < 0: random.
func c33ByteLit(r *kit.Rand, b []byte, kind int) string {
	if kind < 0 {
		kind = r.Intn(10)
	}
	if len(b) == 0 && (kind == 3 || kind == 4 || kind == 6 || kind == 7) {
		kind = 0 // the two-token forms need a non-empty second token
	}
	switch kind {
	case 1:
		return "base64(" + base64.StdEncoding.EncodeToString(b) + ")"
	case 2:
		return "b64(" + base64.StdEncoding.EncodeToString(b) + ")"
	case 3:
		return "base64 " + base64.StdEncoding.EncodeToString(b)
	case 4:
		return "b64 " + base64.StdEncoding.EncodeToString(b)
	case 5:
		return "base32(" + c33B32.EncodeToString(b) + ")"
	case 6:
		return "b32 " + base32.StdEncoding.EncodeToString(b)
	case 7:
		return "base32 " + c33B32.EncodeToString(b)
	case 8, 9:
		return c33StringLit(b)
	}
	return "0x" + hex.EncodeToString(b)
}

func c33IntLit(r *kit.Rand, x uint64, kind int) string {
	if kind < 0 {
		kind = r.Intn(6)
	}
	switch kind {
	case 1:
		return fmt.Sprintf("0x%x", x)
	case 2:
		return fmt.Sprintf("0o%o", x)
	case 3:
		return fmt.Sprintf("0b%b", x)
	case 4:
		return fmt.Sprintf("0X%X", x)
	}
	return fmt.Sprintf("%d", x)
}

var c33NamedOnce sync.Once
var c33NamedVal []string

// names the `int` pseudo-op accepts (filled lazily: the maps are built in the package's init())
func c33NamedInts() []string {
	c33NamedOnce.Do(func() {
		for k := range txnTypeMap {
			if !strings.ContainsAny(k, " \t;") && k != "" {
				c33NamedVal = append(c33NamedVal, k)
			}
		}
		for k := range onCompletionMap {
			c33NamedVal = append(c33NamedVal, k)
		}
		sort.Strings(c33NamedVal)
	})
	return c33NamedVal
}

func c33RandBytes(r *kit.Rand) []byte {
	switch r.Intn(10) {
	case 0:
		return nil
	case 1:
		return r.Bytes(32)
	case 2:
		return r.Bytes(r.Range(1, 4))
	case 3: // printable text, exercises the string form and the disassembler's comment
		n := r.Range(1, 20)
		b := make([]byte, n)
		const alpha = "abcXYZ019 ;/\\\"'#:()\t"
		for i := range b {
			b[i] = alpha[r.Intn(len(alpha))]
		}
		return b
	case 4:
		return r.Bytes(r.Range(60, 200))
	default:
		return r.Bytes(r.Range(1, 40))
	}
}

// ---------------------------------------------------------------------------------------------
// field names usable by the assembler for an immediate at a version (generator side only)

func c33Group(spec *OpSpec, im *immediate) *FieldGroup {
	if spec.Name == "itxn_field" {
		return &ItxnSettableFields
	}
	return im.Group
}

func c33FieldNames(spec *OpSpec, im *immediate, v uint64, all bool) []string {
	g := c33Group(spec, im)
	var out []string
	for _, n := range g.Names {
		if n == "" {
			continue
		}
		fs, ok := g.SpecByName(n)
		if !ok {
			continue
		}
		if all || fs.Version() <= v {
			out = append(out, n)
		}
	}
	return out
}

func c33SortedSpecs(v uint64, mode RunMode) []OpSpec {
	var out []OpSpec
	for _, s := range OpsByName[v] {
		if mode == 0 || s.Modes&mode != 0 {
			out = append(out, s)
		}
	}
	sort.Slice(out, func(i, j int) bool { return out[i].Name < out[j].Name })
	return out
}

func c33ModeOf(spec *OpSpec) RunMode {
	if spec.Modes == ModeApp {
		return ModeApp
	}
	return ModeSig
}

// ---------------------------------------------------------------------------------------------
// part "ops": every opcode of every version with every immediate kind / every field name

func c33CblockPrefix() string {
	var sb strings.Builder
	sb.WriteString("intcblock")
	for i := 0; i < 256; i++ {
		fmt.Fprintf(&sb, " %d", i*3)
	}
	sb.WriteString("\nbytecblock")
	for i := 0; i < 256; i++ {
		fmt.Fprintf(&sb, " 0x%04x", i)
	}
	sb.WriteString("\n")
	return sb.String()
}

type c33Variant struct {
	pre, line, post string
	tag             string
}

func c33OpVariants(spec *OpSpec, v uint64) []c33Variant {
	var out []c33Variant
	imms := spec.OpDetails.Immediates
	if len(imms) == 0 {
		return []c33Variant{{line: spec.Name, tag: "plain"}}
	}
	// candidate texts per immediate
	cands := make([][]string, len(imms))
	pre, post := "", ""
	for i := range imms {
		im := &imms[i]
		switch im.kind {
		case immByte:
			if im.Group != nil {
				cands[i] = c33FieldNames(spec, im, v, true)
			} else {
				cands[i] = []string{"0", "1", "3", "4", "127", "128", "255"}
				if spec.Name == "intc" || spec.Name == "bytec" {
					pre = c33CblockPrefix()
				}
			}
		case immInt8:
			cands[i] = []string{"0", "-1", "1", "-128", "127"}
		case immLabel, immVarintLabel:
			cands[i] = []string{"fwd", "end", "back", "self"}
		case immInt:
			cands[i] = []string{"0", "1", "127", "128", "255", "256", "16383", "16384", "4294967296", "9223372036854775808", "18446744073709551615", "0x10", "0o17", "0b101"}
		case immBytes:
			r := kit.NewRand(33, 1)
			for k := 0; k < 10; k++ {
				cands[i] = append(cands[i], c33ByteLit(r, []byte("hello wo//rld;\x00\xff"), k))
			}
			cands[i] = append(cands[i], "0x", `""`, c33ByteLit(r, bytes.Repeat([]byte{0xab}, 200), 0), c33ByteLit(r, bytes.Repeat([]byte{'z'}, 4096), 9))
		case immInts:
			long := make([]string, 300)
			for k := range long {
				long[k] = fmt.Sprint(uint64(k) * 1_000_003)
			}
			cands[i] = []string{"", "0", "1 2 3", "18446744073709551615 0 9223372036854775808", strings.Join(long[:127], " "), strings.Join(long[:128], " "), strings.Join(long, " ")}
		case immBytess:
			long := make([]string, 200)
			for k := range long {
				long[k] = fmt.Sprintf("0x%06x", k)
			}
			cands[i] = []string{"", "0x", "0x00 0x", `"a b" base64 AAAA b32(MFRGG) 0xff`, strings.Join(long[:127], " "), strings.Join(long[:128], " "), strings.Join(long, " ")}
		case immLabels:
			cands[i] = []string{"0", "1", "2", "3", "127", "128", "255"}
		}
	}
	// vary one immediate at a time
	for vi := range imms {
		for ci, cand := range cands[vi] {
			if vi > 0 && ci == 0 {
				continue // the all-defaults line was produced while varying immediate 0
			}
			parts := []string{spec.Name}
			lpre, lpost := pre, post
			ok := true
			for i := range imms {
				txt := cands[i][0]
				if i == vi {
					txt = cand
				}
				switch imms[i].kind {
				case immLabel, immVarintLabel:
					switch txt {
					case "fwd":
						lpost += "err\nTGT:\nerr\n"
					case "end":
						lpost += "err\nTGT:\n"
					case "back":
						lpre += "TGT:\nerr\n"
					case "self":
						lpre += "TGT:\n"
					}
					txt = "TGT"
				case immLabels:
					n := 0
					fmt.Sscan(txt, &n)
					var ls []string
					for k := 0; k < n; k++ {
						ls = append(ls, fmt.Sprintf("T%d", k%7))
					}
					for k := 0; k < 7 && k < n; k++ {
						if k%2 == 0 {
							lpost += fmt.Sprintf("T%d:\nerr\n", k)
						} else {
							lpre += fmt.Sprintf("T%d:\nerr\n", k)
						}
					}
					txt = strings.Join(ls, " ")
				}
				if txt != "" {
					parts = append(parts, txt)
				}
			}
			if !ok {
				continue
			}
			out = append(out, c33Variant{pre: lpre, line: strings.Join(parts, " "), post: lpost, tag: fmt.Sprintf("imm%d=%s", vi, c33Clip(cand, 24))})
		}
	}
	return out
}

func c33PseudoVariants(v uint64) []c33Variant {
	var out []c33Variant
	add := func(line, tag string) { out = append(out, c33Variant{line: line, tag: tag}) }
	for _, n := range c33NamedInts() {
		add("int "+n, "int-named")
	}
	for _, s := range []string{"0", "1", "255", "256", "0x7f", "0o17", "0b1", "18446744073709551615", "1_000"} {
		add("int "+s, "int")
	}
	add("int 5\nint 5\nint 6\nint 7\nint 7\nint 7\nint 8\nint 9\nint 9\nint 10\nint 10\nint 11", "int-frequency-sorting")
	r := kit.NewRand(33, 2)
	for k := 0; k < 10; k++ {
		add("byte "+c33ByteLit(r, []byte("p//q; r\x01"), k), "byte")
	}
	add(`byte "x"`+"\n"+`byte "x"`+"\n"+`byte "y"`+"\n"+`byte 0x78`+"\n"+`byte "zz"`+"\n"+`byte "zz"`+"\n"+`byte "zz"`, "byte-frequency-sorting")
	add("byte 0x", "byte-empty")
	add("addr "+basics.Address{1, 2, 3}.String(), "addr")
	add("addr "+basics.Address{}.String()+"\naddr "+basics.Address{}.String(), "addr-twice")
	add(`method "add(uint64,uint64)uint128"`, "method")
	add(`method "x()void"`+"\n"+`method "x()void"`, "method-twice")
	add("extract", "extract3-sugar")
	add("extract 1 2", "extract-sugar")
	add("replace", "replace3-sugar")
	add("replace 7", "replace2-sugar")
	for _, base := range []string{"txn", "gtxn 1", "gtxns", "itxn", "gitxn 2"} {
		for _, n := range TxnArrayFields.Names {
			if n != "" {
				add(fmt.Sprintf("%s %s 3", base, n), "array-sugar")
			}
		}
	}
	add("int 1; int 2; +; pop", "semicolons")
	add("int 1 // comment ; int 2\npop", "comment")
	add("  \tint\t1   ;;  pop ;", "whitespace")
	add("intcblock 1 2\nint 1\nint 2\nint 3\nbytecblock 0x01\nbyte 0x01\nbyte 0x02", "pseudo-with-explicit-cblock")
	return out
}

func TestVerifC33Ops(t *testing.T) {
	c := kit.Start(t, "C33", "ops")
	defer c.Finish()
	c.Rule("for every version 0..LogicVersion and every opcode of OpsByName[version]: one-instruction sources with every immediate varied over boundary values (byte, int8, varuint), EVERY field name of the immediate's field group, every byte-literal syntax, constant lists of 0..300 entries, labels forward / at end / backward / self, switch and match tables of 0..255 labels; plus the pseudo-ops int (all named constants, all number syntaxes), byte, addr, method, txn/gtxn/gtxns/itxn/gitxn array sugar, extract/replace sugar; version given alternately by argument and by #pragma; distinct = distinct (version, opcode, variant) accepted by the assembler")
	c.Assume("sources the assembler rejects (e.g. a field newer than the version) are outside the property; the static check uses a protocol supporting every version with an effectively unlimited cost budget")
	var wg sync.WaitGroup
	sem := make(chan struct{}, 12)
	for v := uint64(0); v <= LogicVersion; v++ {
		v := v
		wg.Add(1)
		sem <- struct{}{}
		go func() {
			defer wg.Done()
			defer func() { <-sem }()
			n := 0
			run := func(vr c33Variant, name string, mode RunMode) {
				if c.Violations() > 30 {
					return
				}
				n++
				src := c33Notrack + vr.pre + vr.line + "\n" + vr.post
				ver := v
				if n%2 == 0 {
					src = fmt.Sprintf("#pragma version %d\n", v) + src
					ver = assemblerNoVersion
				}
				c.Count("sources", 1)
				if b := c33SourceOracle(c, src, ver, mode, map[string]any{"version": v, "opcode": name, "variant": vr.tag}); b != nil {
					c.Distinct(fmt.Sprintf("%d|%s|%s", v, name, vr.tag))
					c.Count("accepted_variants", 1)
					if strings.HasPrefix(vr.tag, "imm") && strings.Contains(vr.line, " ") {
						c.Count("accepted_with_immediates", 1)
					}
				}
			}
			for _, spec := range c33SortedSpecs(v, 0) {
				spec := spec
				for _, vr := range c33OpVariants(&spec, v) {
					run(vr, spec.Name, c33ModeOf(&spec))
				}
			}
			for _, vr := range c33PseudoVariants(v) {
				mode := ModeSig
				if strings.HasPrefix(vr.line, "itxn") || strings.HasPrefix(vr.line, "gitxn") {
					mode = ModeApp
				}
				run(vr, "pseudo", mode)
			}
		}()
	}
	wg.Wait()
	c.Sample(map[string]any{"example_source": c33Notrack + "#pragma version 8\nT1:\nerr\nswitch T0 T1\nT0:\nerr\n"})
	c.Require("accepted_variants", 8000)
	c.Require("accepted_with_immediates", 4000)
	c.Require("roundtrips_equal", 8000)
	c.Require("assembled_pass_check", 8000)
}

// ---------------------------------------------------------------------------------------------
// part "programs": random well-formed sources

type c33Gen struct {
	r        *kit.Rand
	v        uint64
	mode     RunMode
	explicit bool // explicit intcblock/bytecblock at the start (style A) vs. pseudo-op constants (style B)
	nInt     int
	nByte    int
	intVals  []uint64
	byteVals [][]byte
	intPool  []uint64
	bytePool [][]byte
	labelPos []int // label i sits before line labelPos[i]; == nLines means end of program
	nLines   int
	specs    []OpSpec
	noPseudo bool // only real opcodes from specs (used by the typed generator)
}

func (g *c33Gen) sep() string {
	switch g.r.Intn(8) {
	case 0:
		return "\t"
	case 1:
		return "  "
	}
	return " "
}

func (g *c33Gen) intSource() (string, bool) {
	r := g.r
	if r.Chance(1, 8) {
		return c33NamedInts()[r.Intn(len(c33NamedInts()))], true
	}
	if g.explicit && g.v < backBranchEnabledVersion {
		// without pushint the value must be in the explicit block
		if len(g.intVals) == 0 {
			return "", false
		}
		return c33IntLit(r, g.intVals[r.Intn(len(g.intVals))], -1), true
	}
	if r.Chance(2, 3) {
		return c33IntLit(r, g.intPool[r.Intn(len(g.intPool))], -1), true
	}
	return c33IntLit(r, r.Boundary64(), -1), true
}

func (g *c33Gen) byteSource() ([]byte, bool) {
	r := g.r
	if g.explicit && g.v < backBranchEnabledVersion {
		if len(g.byteVals) == 0 {
			return nil, false
		}
		return g.byteVals[r.Intn(len(g.byteVals))], true
	}
	if r.Chance(2, 3) {
		return g.bytePool[r.Intn(len(g.bytePool))], true
	}
	return c33RandBytes(r), true
}

// label eligible as target of a branch on line `line`
func (g *c33Gen) pickLabel(line int, varint bool) (string, bool) {
	var ok []int
	for i, p := range g.labelPos {
		if g.v < backBranchEnabledVersion && p <= line {
			continue
		}
		if g.v < 2 && p >= g.nLines && !g.r.Chance(1, 4) {
			continue // v0/v1 may not branch to the end of the program: the assembler must reject it; tried now and then
		}
		if varint && p == line {
			continue // "branch to start of same instruction" cannot be encoded
		}
		ok = append(ok, i)
	}
	if len(ok) == 0 {
		return "", false
	}
	return fmt.Sprintf("L%d", ok[g.r.Intn(len(ok))]), true
}

func (g *c33Gen) instruction(line int) (string, bool) {
	r := g.r
	// pseudo-ops and sugar
	if !g.noPseudo && r.Chance(1, 4) {
		switch r.Intn(9) {
		case 0, 1, 2:
			s, ok := g.intSource()
			if !ok {
				return "", false
			}
			return "int" + g.sep() + s, true
		case 3, 4:
			b, ok := g.byteSource()
			if !ok {
				return "", false
			}
			return "byte" + g.sep() + c33ByteLit(r, b, -1), true
		case 5:
			if g.explicit && g.v < backBranchEnabledVersion {
				return "", false
			}
			var a basics.Address
			copy(a[:], g.bytePool[0])
			if r.Bool() {
				r.Fill(a[:])
			}
			return "addr " + a.String(), true
		case 6:
			if g.explicit && g.v < backBranchEnabledVersion {
				return "", false
			}
			return fmt.Sprintf(`method "m%d(uint64,byte[])void"`, r.Intn(3)), true
		case 7:
			if g.v < 2 {
				return "", false
			}
			names := c33FieldNames(&OpSpec{Name: "txna"}, &immediate{Group: &TxnArrayFields}, g.v, false)
			if len(names) == 0 {
				return "", false
			}
			f := names[r.Intn(len(names))]
			switch r.Intn(3) {
			case 0:
				return fmt.Sprintf("txn %s %d", f, r.Intn(256)), true
			case 1:
				return fmt.Sprintf("gtxn %d %s %d", r.Intn(256), f, r.Intn(256)), true
			default:
				if g.v < 3 {
					return "", false
				}
				return fmt.Sprintf("gtxns %s %d", f, r.Intn(256)), true
			}
		case 8:
			if g.v < 5 {
				return "", false
			}
			if g.v >= 7 && r.Bool() {
				if r.Bool() {
					return "replace", true
				}
				return fmt.Sprintf("replace %d", r.Intn(256)), true
			}
			if r.Bool() {
				return "extract", true
			}
			return fmt.Sprintf("extract %d %d", r.Intn(256), r.Intn(256)), true
		}
	}
	spec := g.specs[r.Intn(len(g.specs))]
	switch spec.Name {
	case "intcblock", "bytecblock":
		if !g.explicit || !r.Chance(1, 6) {
			return "", false
		}
	case "intc":
		if !g.explicit || g.nInt == 0 {
			return "", false
		}
		return fmt.Sprintf("intc %d", r.Intn(min(g.nInt, 256))), true
	case "bytec":
		if !g.explicit || g.nByte == 0 {
			return "", false
		}
		return fmt.Sprintf("bytec %d", r.Intn(min(g.nByte, 256))), true
	case "substring":
		a, b := r.Intn(256), r.Intn(256)
		if a > b {
			a, b = b, a
		}
		return fmt.Sprintf("substring %d %d", a, b), true
	}
	parts := []string{spec.Name}
	for i := range spec.OpDetails.Immediates {
		im := &spec.OpDetails.Immediates[i]
		switch im.kind {
		case immByte:
			if im.Group != nil {
				names := c33FieldNames(&spec, im, g.v, false)
				if len(names) == 0 {
					return "", false
				}
				parts = append(parts, names[r.Intn(len(names))])
			} else {
				val := []int{0, 1, 2, 3, 4, 127, 128, 255, r.Intn(256), r.Intn(256)}[r.Intn(10)]
				parts = append(parts, c33IntLit(r, uint64(val), []int{0, 0, 0, 1}[r.Intn(4)]))
			}
		case immInt8:
			parts = append(parts, fmt.Sprint(r.Range(-128, 127)))
		case immLabel, immVarintLabel:
			l, ok := g.pickLabel(line, im.kind == immVarintLabel)
			if !ok {
				return "", false
			}
			parts = append(parts, l)
		case immInt:
			parts = append(parts, c33IntLit(r, r.Boundary64(), -1))
		case immBytes:
			parts = append(parts, c33ByteLit(r, c33RandBytes(r), -1))
		case immInts:
			n := []int{0, 1, 2, 3, 5, 127, 128, 260}[r.Pick([]int{2, 4, 4, 4, 4, 1, 1, 1})]
			for k := 0; k < n; k++ {
				parts = append(parts, c33IntLit(r, r.Boundary64(), -1))
			}
		case immBytess:
			n := []int{0, 1, 2, 3, 5, 127, 128, 200}[r.Pick([]int{2, 4, 4, 4, 4, 1, 1, 1})]
			for k := 0; k < n; k++ {
				if n > 100 {
					parts = append(parts, c33ByteLit(r, r.Bytes(r.Intn(3)), 0))
				} else {
					parts = append(parts, c33ByteLit(r, c33RandBytes(r), -1))
				}
			}
		case immLabels:
			n := []int{0, 1, 2, 3, 8, 127, 128, 255}[r.Pick([]int{2, 4, 4, 4, 3, 1, 1, 1})]
			for k := 0; k < n; k++ {
				l, ok := g.pickLabel(line, false)
				if !ok {
					return "", false
				}
				parts = append(parts, l)
			}
		}
	}
	return strings.Join(parts, g.sep()), true
}

// c33GenSource produces an untyped (typetrack off) random program.
func c33GenSource(r *kit.Rand) (src string, ver uint64, v uint64, mode RunMode, style string) {
	v = uint64([]int{0, 1, 2, 3, 4, 5, 6, 7, 8, 9, 10, 11, 12, 13, 14}[r.Pick([]int{1, 2, 2, 2, 3, 3, 3, 3, 4, 3, 3, 3, 4, 5, 4})])
	if v > LogicVersion {
		v = LogicVersion
	}
	mode = ModeSig
	if v >= appsEnabledVersion && r.Bool() {
		mode = ModeApp
	}
	g := &c33Gen{r: r, v: v, mode: mode, explicit: r.Chance(1, 3)}
	g.specs = c33SortedSpecs(v, mode)
	for i := 0; i < 6; i++ {
		g.intPool = append(g.intPool, r.Boundary64())
		g.bytePool = append(g.bytePool, c33RandBytes(r))
	}
	g.bytePool[0] = r.Bytes(32)
	var sb strings.Builder
	ver = v
	switch r.Intn(3) {
	case 0:
		fmt.Fprintf(&sb, "#pragma version %d\n", v)
		ver = assemblerNoVersion
	case 1:
		fmt.Fprintf(&sb, "#pragma version %d\n", v) // both pragma and argument (must agree)
	}
	sb.WriteString(c33Notrack)
	if r.Chance(1, 6) {
		fmt.Fprintf(&sb, "#pragma autosalt %v\n", r.Bool())
	}
	style = "pseudo-constants"
	if g.explicit {
		style = "explicit-cblocks"
		g.nInt = []int{0, 1, 2, 4, 5, 9, 130, 300}[r.Pick([]int{1, 3, 3, 3, 3, 3, 1, 1})]
		g.nByte = []int{0, 1, 2, 4, 5, 9, 130, 260}[r.Pick([]int{1, 3, 3, 3, 3, 3, 1, 1})]
		if g.nInt > 0 || r.Bool() {
			sb.WriteString("intcblock")
			for i := 0; i < g.nInt; i++ {
				x := r.Boundary64()
				g.intVals = append(g.intVals, x)
				sb.WriteString(" " + c33IntLit(r, x, -1))
			}
			sb.WriteString("\n")
		}
		if g.nByte > 0 || r.Bool() {
			sb.WriteString("bytecblock")
			for i := 0; i < g.nByte; i++ {
				b := c33RandBytes(r)
				if g.nByte > 100 {
					b = r.Bytes(r.Intn(4))
				}
				g.byteVals = append(g.byteVals, b)
				sb.WriteString(" " + c33ByteLit(r, b, -1))
			}
			sb.WriteString("\n")
		}
	}
	g.nLines = []int{1, 2, 3, 5, 10, 25, 60}[r.Pick([]int{1, 2, 3, 4, 5, 4, 2})]
	nl := r.Intn(min(g.nLines+1, 7) + 1)
	for i := 0; i < nl; i++ {
		g.labelPos = append(g.labelPos, r.Intn(g.nLines+1))
	}
	emitLabels := func(line int) string {
		s := ""
		for i, p := range g.labelPos {
			if p == line {
				s += fmt.Sprintf("L%d:", i)
				if r.Chance(1, 3) {
					s += " "
				} else {
					s += "\n"
				}
			}
		}
		return s
	}
	for line := 0; line < g.nLines; line++ {
		sb.WriteString(emitLabels(line))
		var ins string
		ok := false
		for try := 0; try < 20 && !ok; try++ {
			ins, ok = g.instruction(line)
		}
		if !ok {
			ins = "err"
		}
		if r.Chance(1, 10) {
			ins = g.sep() + ins
		}
		sb.WriteString(ins)
		switch r.Intn(12) {
		case 0:
			sb.WriteString(" // a comment ; with \"quotes\" and // more")
		case 1:
			sb.WriteString(" ;")
		case 2:
			sb.WriteString("; ")
			continue // next instruction on the same source line (labels of the next line then sit mid-line: legal)
		}
		sb.WriteString("\n")
	}
	sb.WriteString(emitLabels(g.nLines))
	if !strings.HasSuffix(sb.String(), "\n") && r.Bool() {
		sb.WriteString("\n")
	}
	return sb.String(), ver, v, mode, style
}

// c33GenTypedSource produces a straight-line program that the assembler's type tracker accepts
// (arguments are pushed with the types the opcode's signature demands, results are popped).
func c33GenTypedSource(r *kit.Rand) (src string, ver uint64, v uint64, mode RunMode) {
	v = uint64(r.Range(1, int(LogicVersion)))
	mode = ModeSig
	if v >= appsEnabledVersion && r.Bool() {
		mode = ModeApp
	}
	specs := c33SortedSpecs(v, mode)
	g := &c33Gen{r: r, v: v, mode: mode}
	var sb strings.Builder
	fmt.Fprintf(&sb, "#pragma version %d\n", v)
	ver = assemblerNoVersion
	if r.Bool() {
		sb.WriteString("#pragma typetrack true\n")
	}
	segs := r.Range(1, 12)
	g.nLines = segs
	nl := r.Intn(4)
	for i := 0; i < nl; i++ {
		g.labelPos = append(g.labelPos, r.Intn(segs+1))
	}
	for i := 0; i < 4; i++ {
		g.intPool = append(g.intPool, uint64(r.Intn(2)))
	}
	push := func(st StackType) {
		switch st.AVMType {
		case avmBytes:
			n := int(st.Bound[0])
			if st.Bound[1] > st.Bound[0] {
				n = r.Range(int(st.Bound[0]), int(min(st.Bound[1], 64)))
			}
			b := r.Bytes(n)
			if r.Chance(1, 3) && n == 32 {
				var a basics.Address
				copy(a[:], b)
				fmt.Fprintf(&sb, "addr %s\n", a)
			} else {
				fmt.Fprintf(&sb, "byte %s\n", c33ByteLit(r, b, -1))
			}
		default:
			x := g.intPool[r.Intn(len(g.intPool))]
			if st.AVMType == avmUint64 && st.Bound[1] > 1 && r.Bool() {
				x = r.Boundary64()
				if x > st.Bound[1] {
					x = st.Bound[1]
				}
			}
			fmt.Fprintf(&sb, "int %s\n", c33IntLit(r, x, -1))
		}
	}
	for s := 0; s < segs; s++ {
		for i, p := range g.labelPos {
			if p == s {
				fmt.Fprintf(&sb, "L%d:\n", i)
			}
		}
		spec := specs[r.Intn(len(specs))]
		switch spec.Name {
		case "intcblock", "bytecblock", "intc", "bytec", "retsub", "proto", "frame_dig", "frame_bury", "callsub", "err", "return", "b":
			sb.WriteString("int 1\npop\n")
			continue
		}
		g.specs, g.noPseudo = []OpSpec{spec}, true
		line, ok := g.instruction(s)
		for try := 0; try < 5 && !ok; try++ {
			line, ok = g.instruction(s)
		}
		if !ok {
			sb.WriteString("int 1\npop\n")
			continue
		}
		for _, at := range spec.Arg.Types {
			push(at)
		}
		sb.WriteString(line + "\n")
		for range spec.Return.Types {
			sb.WriteString("pop\n")
		}
	}
	for i, p := range g.labelPos {
		if p == segs {
			fmt.Fprintf(&sb, "L%d:\n", i)
		}
	}
	sb.WriteString("int 1\n")
	return sb.String(), ver, v, mode
}

func TestVerifC33Programs(t *testing.T) {
	c := kit.Start(t, "C33", "programs")
	defer c.Finish()
	c.Rule("PRNG-generated sources for every version 0..LogicVersion, opcodes drawn from OpsByName[version] restricted to one run mode: (a) untyped programs (#pragma typetrack false) of 1..60 instructions with random immediates (field names valid for the version, boundary bytes, int8, varuints, all byte-literal syntaxes), int/byte/addr/method pseudo-ops drawing from a small pool (so the assembler's constant-block optimisation sorts by frequency and turns singletons into pushint/pushbytes) or explicit intcblock/bytecblock of 0..300 entries, labels before/after/at end with forward and (v4+) backward branches, switch/match tables of 0..255 labels, several statements per line, comments, #pragma version/autosalt; (b) straight-line programs that pass the assembler's type tracker; distinct = distinct assembled bytecode")
	c.Assume("sources the assembler rejects are outside the property (counted); check mode is the mode the generator restricted opcodes to")
	n := c.N(20000, 400000)
	var wg sync.WaitGroup
	var next int64
	var mu sync.Mutex
	take := func() int {
		mu.Lock()
		defer mu.Unlock()
		i := int(next)
		next++
		return i
	}
	for w := 0; w < 12; w++ {
		wg.Add(1)
		go func() {
			defer wg.Done()
			for {
				i := take()
				if i >= n || c.Violations() > 30 {
					return
				}
				r := c.Rand(33, uint64(i))
				var src, style string
				var ver, v uint64
				var mode RunMode
				if i%5 == 4 {
					src, ver, v, mode = c33GenTypedSource(r)
					style = "typed"
				} else {
					src, ver, v, mode, style = c33GenSource(r)
				}
				c.Count("generated_"+style, 1)
				b := c33SourceOracle(c, src, ver, mode, map[string]any{"case": i, "version": v, "style": style})
				if b != nil {
					c.Count("accepted_"+style, 1)
					c.Count(fmt.Sprintf("accepted_v%d", v), 1)
					c.Distinct(string(b))
					c.Max("max_program_bytes", int64(len(b)))
					if i < 40 && len(src) < 400 {
						c.Sample(map[string]any{"case": i, "source": src, "assembled": hex.EncodeToString(b)})
					}
					if bytes.Contains(b[1:], []byte{0x8d}) || bytes.Contains(b[1:], []byte{0x8e}) {
						c.Count("accepted_maybe_switch_match", 1)
					}
				}
			}
		}()
	}
	wg.Wait()
	c.Require("accepted_pseudo-constants", int64(n/10))
	c.Require("accepted_explicit-cblocks", int64(n/25))
	c.Require("accepted_typed", int64(n/40))
	c.Require("roundtrips_equal", int64(n/4))
	for v := uint64(0); v <= LogicVersion; v++ {
		c.Require(fmt.Sprintf("accepted_v%d", v), 10)
	}
}

// ---------------------------------------------------------------------------------------------
// part "bytecode": random bytecode that passes the static check

func c33PutUvarint(out []byte, x uint64, pad bool) []byte {
	var s [binary.MaxVarintLen64]byte
	n := binary.PutUvarint(s[:], x)
	if pad && n < 9 {
		// non-minimal encoding: continuation bit on the last byte, then a zero byte
		s[n-1] |= 0x80
		s[n] = 0
		n++
	}
	return append(out, s[:n]...)
}

type c33Slot struct {
	instr  int // instruction index
	at     int // offset of the label bytes inside the instruction
	varLen int // 0: two byte big-endian, else length of the varint encoding
	fromIE bool
}

// c33GenBytecode synthesises a program instruction by instruction from the opcode table of v.
func c33GenBytecode(r *kit.Rand, v uint64, mode RunMode) []byte {
	var pool []*OpSpec
	for i := range opsByOpcode[v] {
		s := &opsByOpcode[v][i]
		if s.op != nil && s.Modes&mode != 0 {
			pool = append(pool, s)
		}
		for j := range s.SubOps {
			if s.SubOps[j].op != nil && s.SubOps[j].Modes&mode != 0 {
				pool = append(pool, &s.SubOps[j])
			}
		}
	}
	var branchy []*OpSpec
	for _, s := range pool {
		for _, im := range s.OpDetails.Immediates {
			if im.kind == immLabel || im.kind == immVarintLabel || im.kind == immLabels {
				branchy = append(branchy, s)
			}
		}
	}
	n := []int{1, 2, 4, 8, 16, 40}[r.Pick([]int{1, 2, 3, 4, 3, 2})]
	var instrs [][]byte
	var slots []c33Slot
	for i := 0; i < n; i++ {
		s := pool[r.Intn(len(pool))]
		if len(branchy) > 0 && r.Chance(1, 5) {
			s = branchy[r.Intn(len(branchy))]
		}
		b := []byte{s.Opcode}
		if s.SubOpcode != 0 {
			b = append(b, s.SubOpcode)
		}
		for k := range s.OpDetails.Immediates {
			im := &s.OpDetails.Immediates[k]
			switch im.kind {
			case immByte, immInt8:
				if im.Group != nil && !r.Chance(1, 10) {
					var valid []byte
					for fi, nm := range im.Group.Names {
						if nm == "" {
							continue
						}
						if fs, ok := im.Group.SpecByName(nm); ok && (fs.Version() <= v || r.Chance(1, 20)) {
							valid = append(valid, byte(fi))
						}
					}
					if len(valid) > 0 {
						b = append(b, valid[r.Intn(len(valid))])
						continue
					}
				}
				b = append(b, byte(r.Intn(256)))
			case immLabel:
				slots = append(slots, c33Slot{instr: i, at: len(b)})
				b = append(b, 0, 0)
			case immVarintLabel:
				l := r.Range(1, 2)
				slots = append(slots, c33Slot{instr: i, at: len(b), varLen: l})
				b = append(b, make([]byte, l)...)
			case immInt:
				b = c33PutUvarint(b, r.Boundary64(), r.Chance(1, 6))
			case immBytes:
				bs := c33RandBytes(r)
				b = c33PutUvarint(b, uint64(len(bs)), r.Chance(1, 6))
				b = append(b, bs...)
			case immInts:
				cnt := []int{0, 1, 2, 5, 130}[r.Pick([]int{2, 4, 4, 3, 1})]
				b = c33PutUvarint(b, uint64(cnt), r.Chance(1, 8))
				for j := 0; j < cnt; j++ {
					b = c33PutUvarint(b, r.Boundary64(), r.Chance(1, 8))
				}
			case immBytess:
				cnt := []int{0, 1, 2, 5, 130}[r.Pick([]int{2, 4, 4, 3, 1})]
				b = c33PutUvarint(b, uint64(cnt), r.Chance(1, 8))
				for j := 0; j < cnt; j++ {
					bs := c33RandBytes(r)
					if cnt > 100 {
						bs = r.Bytes(r.Intn(3))
					}
					b = c33PutUvarint(b, uint64(len(bs)), r.Chance(1, 8))
					b = append(b, bs...)
				}
			case immLabels:
				cnt := []int{0, 1, 2, 3, 9, 255}[r.Pick([]int{2, 4, 4, 3, 2, 1})]
				b = append(b, byte(cnt))
				for j := 0; j < cnt; j++ {
					slots = append(slots, c33Slot{instr: i, at: len(b), fromIE: true})
					b = append(b, 0, 0)
				}
			}
		}
		instrs = append(instrs, b)
	}
	prog := c33PutUvarint(nil, v, r.Chance(1, 30) && v > 0)
	pos := make([]int, len(instrs)+1)
	for i, b := range instrs {
		pos[i] = len(prog)
		prog = append(prog, b...)
	}
	pos[len(instrs)] = len(prog)
	for _, sl := range slots {
		i := sl.instr
		end := pos[i] + len(instrs[i])
		j := r.Intn(len(instrs) + 1)
		if v < backBranchEnabledVersion && j <= i {
			j = i + 1 + r.Intn(len(instrs)-i)
		}
		if v < 2 && j == len(instrs) {
			j = i + 1
			if j >= len(instrs) {
				j = i // will be rejected by the checker; filtered
			}
		}
		p := pos[i] + sl.at
		if r.Chance(1, 12) { // arbitrary target: mostly rejected by the checker
			prog[p] = byte(r.Intn(256))
			if sl.varLen != 1 {
				prog[p+1] = byte(r.Intn(256))
			}
			continue
		}
		if sl.varLen == 0 {
			off := pos[j] - end
			prog[p] = byte(uint16(int16(off)) >> 8)
			prog[p+1] = byte(uint16(int16(off)))
			continue
		}
		if j == i {
			j = i + 1
		}
		off := pos[j] - end
		if j < i {
			off = pos[j] - pos[i]
		}
		zz := uint64(off<<1) ^ uint64(off>>63)
		if sl.varLen == 1 {
			if zz > 0x7f {
				zz = 0 // next instruction
			}
			prog[p] = byte(zz)
		} else {
			if zz > 0x3fff {
				zz = 0
			}
			prog[p] = byte(zz&0x7f) | 0x80
			prog[p+1] = byte(zz >> 7)
		}
	}
	return prog
}

func TestVerifC33Bytecode(t *testing.T) {
	c := kit.Start(t, "C33", "bytecode")
	defer c.Finish()
	c.Rule("random bytecode for every version 1..LogicVersion: (a) synthesised instruction by instruction from the opcode table with random immediates (arbitrary and valid field bytes, non-minimal varuints, two-byte and varint branch offsets - also padded - aimed at instruction starts, switch/match tables, constant blocks), (b) assembled random sources with 1-2 bytes mutated; kept only if the static checker accepts it (signature mode, else application mode); then t = D(b), b1 = A(t) and the fixed point A(D(b1)) == b1 plus Check(b1) is demanded; distinct = distinct checked bytecode that disassembles and re-assembles")
	c.Assume("b itself may be non-canonical, so b == A(D(b)) is not demanded; bytecode whose disassembly fails or is rejected by the assembler (e.g. field newer than the version, unnamed field byte) is counted, not judged")
	n := c.N(60000, 1200000)
	var wg sync.WaitGroup
	var next int64
	var mu sync.Mutex
	take := func() int {
		mu.Lock()
		defer mu.Unlock()
		i := int(next)
		next++
		return i
	}
	for w := 0; w < 12; w++ {
		wg.Add(1)
		go func() {
			defer wg.Done()
			for {
				i := take()
				if i >= n || c.Violations() > 30 {
					return
				}
				r := c.Rand(3300, uint64(i))
				v := uint64(r.Range(1, int(LogicVersion)))
				mode := ModeSig
				if v >= appsEnabledVersion && r.Bool() {
					mode = ModeApp
				}
				var b []byte
				origin := "synthesised"
				if i%3 == 2 {
					origin = "mutated-assembly"
					src, ver, _, m, _ := c33GenSource(r)
					var ops *OpStream
					var err error
					if c.Guard("assemble", map[string]any{"case": i, "source": c33Clip(src, 6000)}, func() { ops, err = AssembleStringWithVersion(src, ver) }) {
						continue
					}
					if err != nil || ops.Program == nil {
						c.Count("mutation_base_rejected", 1)
						continue
					}
					mode = m
					b = append([]byte(nil), ops.Program...)
					for k := r.Range(1, 2); k > 0 && len(b) > 1; k-- {
						p := r.Range(1, len(b)-1)
						if r.Bool() {
							b[p] ^= 1 << uint(r.Intn(8))
						} else {
							b[p] = byte(r.Intn(256))
						}
					}
				} else {
					b = c33GenBytecode(r, v, mode)
					if r.Chance(1, 6) && len(b) > 1 {
						b[r.Range(1, len(b)-1)] = byte(r.Intn(256))
					}
				}
				c.Count("candidates_"+origin, 1)
				wit := func(extra map[string]any) map[string]any {
					m := map[string]any{"case": i, "origin": origin, "bytecode": c33Clip(hex.EncodeToString(b), 4000), "mode": c33ModeName(mode)}
					for k, x := range extra {
						m[k] = x
					}
					return m
				}
				var cerr error
				if c.Guard("check", wit(nil), func() {
					cerr = c33Check(b, mode)
					if cerr != nil {
						other := ModeApp
						if mode == ModeApp {
							other = ModeSig
						}
						if c33Check(b, other) == nil {
							mode, cerr = other, nil
						}
					}
				}) {
					continue
				}
				if cerr != nil {
					c.Count("rejected_by_static_check", 1)
					continue
				}
				c.Count("passed_static_check_"+origin, 1)
				var text string
				var err error
				if c.Guard("disassemble", wit(nil), func() { text, err = Disassemble(b) }) {
					continue
				}
				if err != nil {
					c.Count("checked_bytecode_not_disassemblable", 1)
					continue
				}
				var ops1 *OpStream
				if c.Guard("assemble", wit(map[string]any{"disassembly": c33Clip(text, 3000)}), func() {
					ops1, err = AssembleStringWithVersion(c33Notrack+text, assemblerNoVersion)
				}) {
					continue
				}
				if err != nil || ops1.Program == nil {
					c.Count("disassembly_rejected_by_assembler", 1)
					if c.Counter("disassembly_rejected_by_assembler") <= 3 {
						c.Observation("disassembly of checked bytecode %x rejected by assembler: %s", b, c33Errs(ops1, err))
					}
					continue
				}
				b1 := ops1.Program
				if bytes.Equal(b1, b) {
					c.Count("first_reassembly_identical", 1)
				} else {
					c.Count("first_reassembly_differs_noncanonical", 1)
				}
				ok := c33ProgramOracle(c, b1, mode, func(extra map[string]any) map[string]any {
					m := wit(map[string]any{"first_disassembly": c33Clip(text, 3000), "first_reassembly": c33Clip(hex.EncodeToString(b1), 4000)})
					for k, x := range extra {
						m[k] = x
					}
					return m
				})
				if ok {
					c.Distinct(string(b))
					if pv, _, perr := transactions.ProgramVersion(b); perr == nil {
						c.Count(fmt.Sprintf("fixed_point_v%d", pv), 1)
					}
				}
			}
		}()
	}
	wg.Wait()
	c.Require("passed_static_check_synthesised", int64(n/30))
	c.Require("passed_static_check_mutated-assembly", int64(n/60))
	c.Require("roundtrips_equal", int64(n/40))
	c.Require("first_reassembly_differs_noncanonical", 20)
}
