package logic

// C31 (part 3 of 3): orchestration.
//
// C31: for any byte string run as a program (any version, mode and inputs) evaluation ends in
// accept, reject or an error, without an internal crash, and never exceeds its cost budget, the
// maximum stack depth or the maximum byte-string length.
//
// TestVerifC31Programs (the part run by the driver) splits the case range over worker processes:
// it re-executes this test binary with TestVerifC31Worker selected. A worker writes every case to
// a file in the scratch directory before evaluating it, so that if the process dies (fatal error,
// sanitizer abort, runaway recursion) the parent still holds the witness and reports it. Case i is
// always generated from PRNG stream (seed, 31, i), whatever the number of workers.

import (
	"encoding/hex"
	"encoding/json"
	"fmt"
	"os"
	"os/exec"
	"path/filepath"
	"runtime"
	"runtime/debug"
	"sort"
	"strconv"
	"strings"
	"sync"
	"syscall"
	"testing"
	"time"

	"verif.local/kit"
)

const (
	c31EnvWorker = "VERIF_C31_WORKER" // worker index; set only in child processes
	c31MinExec   = 100                // an opcode counts as covered when executed successfully this many times
)

var c31Debug = os.Getenv("VERIF_C31_DEBUG") != ""

var c31Mu sync.Mutex // guards the generator caches when a worker runs more than one goroutine

type c31Case struct {
	Index   uint64   `json:"case"`
	Class   string   `json:"class"`
	Mode    string   `json:"mode"`
	Version uint64   `json:"version"`
	Program string   `json:"program_hex"`
	Callees []string `json:"callee_programs_hex,omitempty"`
	NArgs   int      `json:"args"`
	Lens    []int    `json:"lens,omitempty"`

	prog    []byte
	callees [][]byte
}

// hexify fills the printable program fields (only needed when a case is reported)
func (cs *c31Case) hexify() {
	cs.Program = hex.EncodeToString(cs.prog)
	cs.Callees = nil
	for _, cp := range cs.callees {
		cs.Callees = append(cs.Callees, hex.EncodeToString(cp))
	}
}

func c31VersionPick(r *kit.Rand) uint64 {
	if r.Chance(1, 2) {
		return uint64(r.Range(LogicVersion-3, LogicVersion))
	}
	return uint64(r.Range(1, LogicVersion))
}

func c31Args(r *kit.Rand) [][]byte {
	n := r.Intn(5)
	if r.Chance(1, 200) {
		n = []int{254, 255, 256}[r.Intn(3)]
	}
	args := make([][]byte, n)
	for i := range args {
		l := r.Intn(40)
		if r.Chance(1, 30) {
			l = []int{0, 4095, 4096, 4097}[r.Intn(4)]
		}
		if n > 10 {
			l = r.Intn(3)
		}
		args[i] = r.Bytes(l)
	}
	return args
}

// c31OneCase generates and evaluates case i. Returns the case description and the result.
func c31OneCase(st *c31Stats, seed uint64, i uint64, before func(*c31Case)) (cs c31Case, res c31Result) {
	r := kit.NewRand(seed, 31, i)
	c31Mu.Lock()
	locked := true
	defer func() {
		// a panic while generating (before the interpreter is entered) is a harness bug
		if x := recover(); x != nil {
			if locked {
				c31Mu.Unlock()
			}
			st.HarnessErrs = append(st.HarnessErrs, fmt.Sprintf("case %d: generator panic: %v\n%s", i, x, c31Trunc(string(debug.Stack()), 1500)))
			res.outcome = "error:harness"
		}
	}()
	corpus := c31GetCorpus(st)
	mode := ModeSig
	if r.Bool() {
		mode = ModeApp
	}
	var prog []byte
	var v uint64
	class := []string{"random", "mutation", "structured", "corpus"}[r.Pick([]int{24, 29, 43, 4})]
	switch class {
	case "random":
		prog, v = c31GenRandom(r)
	case "corpus": // an unmodified corpus program under a PRNG-chosen environment
		ci := r.Intn(len(corpus.progs))
		prog = corpus.progs[ci]
		v = uint64(prog[0])
		mode = ModeSig
		if corpus.app[ci] {
			mode = ModeApp
		}
	case "mutation":
		var base []byte
		if r.Chance(1, 3) {
			base = c31GenStructured(r, c31VersionPick(r), mode)
		} else {
			ci := r.Intn(len(corpus.progs))
			base = corpus.progs[ci]
			if r.Chance(4, 5) {
				mode = ModeSig
				if corpus.app[ci] {
					mode = ModeApp
				}
			}
		}
		prog = c31Mutate(r, base, corpus.progs[r.Intn(len(corpus.progs))])
		if len(prog) > 0 {
			v = uint64(prog[0])
		}
	default:
		v = c31VersionPick(r)
		prog = c31GenStructured(r, v, mode)
	}
	callees := [][]byte{{6, 0x81, 1}} // v6: pushint 1
	if mode == ModeApp && r.Chance(1, 3) {
		callees = append(callees, c31GenStructured(r, uint64(r.Range(4, LogicVersion)), ModeApp))
		if r.Chance(1, 4) {
			callees = append(callees, c31Mutate(r, callees[1], prog))
		}
	}
	c31Mu.Unlock()
	locked = false
	for ci := range callees {
		// programs above the size limit of an installed app cost read budget before evaluation even
		// starts; keep most callees installable
		if len(callees[ci]) > 550 && !r.Chance(1, 10) {
			callees[ci] = callees[0]
		}
	}
	args := c31Args(r)
	cs = c31Case{Index: i, Class: class, Mode: mode.String(), Version: v, NArgs: len(args), prog: prog, callees: callees[1:]}
	if before != nil {
		before(&cs)
	}
	panicked, origin, frame, value, stack := c31Guarded(func() {
		res = c31Run(st, r, mode, v, prog, callees, args)
	})
	if panicked {
		switch origin {
		case "mock":
			st.Counters["mock_ledger_panics"]++
			res.outcome = "error:mock-ledger-panic"
		case "harness":
			st.HarnessErrs = append(st.HarnessErrs, fmt.Sprintf("case %d: panic inside the harness: %s at %s", i, value, frame))
			res.outcome = "error:harness"
		case "abort":
			res.viol = append(res.viol, c31Viol{"evaluation-does-not-terminate", "more than 20,000,000 steps in one evaluation; aborted by the monitor"})
			res.outcome = "error:aborted"
		default:
			res.viol = append(res.viol, c31Viol{"panic-escaped", fmt.Sprintf("a panic escaped Check/Eval (not converted into an error): %s raised at %s; stack: %s", value, frame, c31Trunc(stack, 3000))})
			res.outcome = "error:escaped-panic"
		}
	}
	return cs, res
}

func c31Record(st *c31Stats, cs *c31Case, res *c31Result) {
	st.Cases++
	if c31Debug && cs.Class == "corpus" {
		fmt.Printf("corpus case %d mode %s v%d len %d steps %d: %s\n", cs.Index, cs.Mode, cs.Version, len(cs.prog), res.steps, res.outcome)
	}
	kind := res.outcome
	if strings.HasPrefix(kind, "error:") {
		cls := kind[6:]
		kind = "error"
		if len(st.ErrClasses) < 600 || st.ErrClasses[cls] > 0 {
			st.ErrClasses[cls]++
		}
	}
	st.Outcomes[cs.Mode+"/"+kind]++
	st.Outcomes["class/"+cs.Class+"/"+kind]++
	st.Outcomes[res.check]++
	if res.steps > 0 {
		st.Counters["programs_executing_steps"]++
	}
	if res.steps >= 100 {
		st.Counters["programs_100_steps_or_more"]++
	}
	st.max("max_steps_one_evaluation", int64(res.steps))
	for _, v := range res.viol {
		cs.hexify()
		if len(st.Violations) < 12 {
			st.Violations = append(st.Violations, c31Witness{Key: v.Key, Witness: map[string]any{"case": cs, "finding": v.Detail, "outcome": res.outcome,
				"replay": "case index + seed regenerate the program; program_hex is the exact input"}})
		} else {
			st.Counters["violations_not_listed"]++
		}
	}
	if len(st.Samples) < 2 && res.steps > 60 && len(cs.prog) < 300 {
		cs.hexify()
		st.Samples = append(st.Samples, map[string]any{"case": cs.Index, "class": cs.Class, "mode": cs.Mode, "version": cs.Version, "outcome": res.outcome, "steps": res.steps, "cost": res.cost, "program_hex": cs.Program})
	}
}

// ---------------------------------------------------------------------------------------------
// worker process

func TestVerifC31Worker(t *testing.T) {
	ws := os.Getenv(c31EnvWorker)
	if ws == "" {
		t.Skip("helper process of TestVerifC31Programs")
	}
	geti := func(name string) uint64 {
		v, err := strconv.ParseUint(os.Getenv(name), 10, 64)
		if err != nil {
			t.Fatalf("bad %s: %v", name, err)
		}
		return v
	}
	k, w, n, seed, from := geti(c31EnvWorker), geti("VERIF_C31_WORKERS"), geti("VERIF_C31_N"), geti("VERIF_C31_SEED"), geti("VERIF_C31_FROM")
	g := int(geti("VERIF_C31_GOROUTINES"))
	dir := os.Getenv("VERIF_C31_DIR")
	skip := map[uint64]bool{}
	for _, s := range strings.Split(os.Getenv("VERIF_C31_SKIP"), ",") {
		if x, err := strconv.ParseUint(s, 10, 64); err == nil {
			skip[x] = true
		}
	}
	only := os.Getenv("VERIF_C31_ONLY")
	if lane := os.Getenv("VERIF_LANE"); lane == "" || lane == "plain" {
		// a runaway allocation must kill this worker quickly (and be reported with its witness) instead of
		// exhausting the machine; sanitizer lanes need their huge shadow mappings, so only here
		lim := syscall.Rlimit{Cur: 24 << 30, Max: 24 << 30}
		_ = syscall.Setrlimit(syscall.RLIMIT_AS, &lim)
	}
	runtime.GOMAXPROCS(g + 1)
	debug.SetGCPercent(400)

	stats := make([]*c31Stats, g)
	var wg sync.WaitGroup
	for gi := 0; gi < g; gi++ {
		stats[gi] = c31NewStats()
		wg.Add(1)
		go func(gi int) {
			defer wg.Done()
			st := stats[gi]
			cur, err := os.OpenFile(filepath.Join(dir, fmt.Sprintf("cur-%d-%d.json", k, gi)), os.O_CREATE|os.O_RDWR|os.O_TRUNC, 0o644)
			if err != nil {
				st.HarnessErrs = append(st.HarnessErrs, "cannot open current-case file: "+err.Error())
				return
			}
			defer cur.Close()
			before := func(cs *c31Case) {
				// header line (JSON, without the programs) followed by the raw program bytes
				hdr := fmt.Sprintf("{\"case\":%d,\"class\":%q,\"mode\":%q,\"version\":%d,\"args\":%d,\"lens\":[%d", cs.Index, cs.Class, cs.Mode, cs.Version, cs.NArgs, len(cs.prog))
				for _, cp := range cs.callees {
					hdr += fmt.Sprintf(",%d", len(cp))
				}
				buf := append([]byte(hdr+"]}\n"), cs.prog...)
				for _, cp := range cs.callees {
					buf = append(buf, cp...)
				}
				cur.WriteAt(buf, 0) // no truncation (metadata traffic): the header says how much is valid
			}
			if only != "" {
				i, _ := strconv.ParseUint(only, 10, 64)
				if gi == 0 {
					cs, res := c31OneCase(st, seed, i, before)
					c31Record(st, &cs, &res)
				}
				return
			}
			// worker k takes cases k, k+w, k+2w, …; goroutine gi every g-th of those
			j := uint64(0)
			for i := k; i < n; i += w {
				mine := j%uint64(g) == uint64(gi)
				j++
				if !mine || i < from || skip[i] {
					continue
				}
				cs, res := c31OneCase(st, seed, i, before)
				c31Record(st, &cs, &res)
				if len(st.HarnessErrs) > 3 || st.Counters["violations_not_listed"] > 2000 {
					return
				}
				if g == 1 && st.Cases%500 == 0 {
					// checkpoint: if this process dies later, the parent keeps these numbers and resumes at Next
					st.Next = i + w
					if b, err := json.Marshal(st); err == nil {
						tmp := filepath.Join(dir, fmt.Sprintf("ckpt-%d-%d.tmp", k, from))
						if os.WriteFile(tmp, b, 0o644) == nil {
							os.Rename(tmp, filepath.Join(dir, fmt.Sprintf("ckpt-%d-%d.json", k, from)))
						}
					}
				}
			}
			cur.Truncate(0)
		}(gi)
	}
	wg.Wait()
	total := stats[0]
	for _, st := range stats[1:] {
		c31Merge(total, st)
	}
	b, err := json.Marshal(total)
	if err != nil {
		t.Fatalf("marshal: %v", err)
	}
	suffix := ""
	if only != "" {
		suffix = "-only-" + only
	}
	if err := os.WriteFile(filepath.Join(dir, fmt.Sprintf("res-%d-%d%s.json", k, from, suffix)), b, 0o644); err != nil {
		t.Fatalf("write result: %v", err)
	}
}

func c31Merge(into, from *c31Stats) {
	into.Cases += from.Cases
	into.Evals += from.Evals
	into.Steps += from.Steps
	for i := range into.OpOK {
		into.OpOK[i] += from.OpOK[i]
		into.OpErr[i] += from.OpErr[i]
	}
	for i := range into.SubOK {
		into.SubOK[i] += from.SubOK[i]
	}
	for k, v := range from.Outcomes {
		into.Outcomes[k] += v
	}
	for k, v := range from.ErrClasses {
		into.ErrClasses[k] += v
	}
	for k, v := range from.Counters {
		if k == "corpus_programs" {
			into.Counters[k] = v
			continue
		}
		into.Counters[k] += v
	}
	for k, v := range from.Max {
		into.max(k, v)
	}
	into.Violations = append(into.Violations, from.Violations...)
	if len(into.Samples) < 4 {
		into.Samples = append(into.Samples, from.Samples...)
	}
	into.HarnessErrs = append(into.HarnessErrs, from.HarnessErrs...)
}

// ---------------------------------------------------------------------------------------------
// parent

func c31Spawn(c *kit.Ctx, dir string, k, w, n uint64, g int, from uint64, skip []uint64, only string) (outFile string, err error) {
	self := os.Getenv("VERIF_SELF")
	if self == "" {
		self, _ = os.Executable()
	}
	cmd := exec.Command(self, "-test.run=^TestVerifC31Worker$", "-test.timeout=0", "-test.count=1")
	sk := make([]string, len(skip))
	for i, s := range skip {
		sk[i] = strconv.FormatUint(s, 10)
	}
	cmd.Env = append(os.Environ(),
		fmt.Sprintf("%s=%d", c31EnvWorker, k), fmt.Sprintf("VERIF_C31_WORKERS=%d", w), fmt.Sprintf("VERIF_C31_N=%d", n),
		fmt.Sprintf("VERIF_C31_SEED=%d", c.Seed), fmt.Sprintf("VERIF_C31_FROM=%d", from), fmt.Sprintf("VERIF_C31_GOROUTINES=%d", g),
		"VERIF_C31_DIR="+dir, "VERIF_C31_SKIP="+strings.Join(sk, ","), "VERIF_C31_ONLY="+only)
	outFile = filepath.Join(dir, fmt.Sprintf("out-%d-%d%s.txt", k, from, only))
	f, ferr := os.Create(outFile)
	if ferr != nil {
		return outFile, ferr
	}
	defer f.Close()
	cmd.Stdout, cmd.Stderr = f, f
	cmd.SysProcAttr = &syscall.SysProcAttr{Pdeathsig: syscall.SIGKILL} // workers never outlive the parent
	if err := cmd.Start(); err != nil {
		return outFile, err
	}
	done := make(chan error, 1)
	go func() { done <- cmd.Wait() }()
	watchdog := time.Duration(c.N(30, 240)) * time.Minute // watchdog only: never part of a verdict
	select {
	case err = <-done:
	case <-time.After(watchdog):
		cmd.Process.Kill()
		<-done
		err = fmt.Errorf("watchdog: worker did not finish within %v", watchdog)
	}
	return outFile, err
}

func c31Tail(path string, n int) string {
	b, _ := os.ReadFile(path)
	if len(b) > n {
		b = b[len(b)-n:]
	}
	return string(b)
}

// c31CrashExcerpt returns the part of a dead worker's output that says why it died.
func c31CrashExcerpt(path string, n int) string {
	b, _ := os.ReadFile(path)
	s := string(b)
	first := -1
	for _, marker := range []string{"fatal error:", "panic:", "SIGSEGV", "ERROR: AddressSanitizer", "runtime error:", "runtime: out of memory", "WARNING: DATA RACE"} {
		if i := strings.Index(s, marker); i >= 0 && (first < 0 || i < first) {
			first = i
		}
	}
	if first < 0 {
		return c31Tail(path, n)
	}
	return c31Trunc(s[first:], n)
}

func TestVerifC31Programs(t *testing.T) {
	if os.Getenv(c31EnvWorker) != "" {
		t.Skip("worker process")
	}
	c := kit.Start(t, "C31", "programs")
	defer c.Finish()
	c.Rule("programs from three generators — random bytes / opcode soup behind every version prefix 0…max+1 (incl. non-canonical varints), mutations of corpus programs (upstream compiled vectors, runnable programs assembled from source, fresh structured programs: opcode substitution, immediate/offset/constant-block corruption, truncation, splicing), and type-aware programs built from the OpSpec table with loops near the budget, callsub recursion, frame ops with extreme offsets, byte ops at length boundaries, 64/65-byte byte-math, json_ref, base64_decode, EC ops, 255-entry switch/match tables, inner transactions, boxes — each run through Check* and Eval* in signature or application mode under PRNG-chosen consensus settings (pooling on/off, older protocol versions, ClearState, tracing), group shapes, args and ledger contents, with the step monitor installed as EvalTracer; distinct = opcodes (by name) executed successfully at least 100 times")
	c.Assume("the upstream test Ledger (ledger_test.go) is a faithful enough LedgerForLogic; a panic raised inside it is counted as mock_ledger_panics, not as a finding")
	c.Assume("opcode costs themselves are taken from the interpreter's own accounting (cx.cost); the monitor checks that what is charged stays within what is available and that every step is charged")

	n := uint64(c.N(100_000, 10_000_000))
	g := 1
	switch c.Lane {
	case "race", "checkptr":
		n = uint64(c.N(20_000, 200_000))
		g = 2
	case "asan":
		n = uint64(c.N(20_000, 300_000))
	}
	if o, err := strconv.ParseUint(os.Getenv("VERIF_C31_CASES"), 10, 64); err == nil && o > 0 {
		n = o // manual smoke runs only; the driver never sets this
	}
	w := uint64(max(min(runtime.NumCPU(), 16)/g, 1))
	dir := c.Scratch("workers")
	defer os.RemoveAll(dir)

	total := c31NewStats()
	var mu sync.Mutex
	var wg sync.WaitGroup
	crashes := 0
	var harness []string
	for k := uint64(0); k < w; k++ {
		wg.Add(1)
		go func(k uint64) {
			defer wg.Done()
			from := uint64(0)
			var skip []uint64
			unknownCrashes, earlyDeaths := 0, 0
			for attempt := 0; attempt < 400 && unknownCrashes < 6; attempt++ {
				out, err := c31Spawn(c, dir, k, w, n, g, from, skip, "")
				resFile := filepath.Join(dir, fmt.Sprintf("res-%d-%d.json", k, from))
				if b, rerr := os.ReadFile(resFile); rerr == nil && err == nil {
					st := c31NewStats()
					if jerr := json.Unmarshal(b, st); jerr != nil {
						mu.Lock()
						harness = append(harness, fmt.Sprintf("worker %d: bad result file: %v", k, jerr))
						mu.Unlock()
						return
					}
					mu.Lock()
					c31Merge(total, st)
					mu.Unlock()
					return
				}
				if err != nil && strings.HasPrefix(err.Error(), "watchdog") {
					mu.Lock()
					harness = append(harness, fmt.Sprintf("worker %d: %v; current case(s): %s", k, err, c31Current(dir, k, g)))
					mu.Unlock()
					return
				}
				// the worker process died: the current-case files hold the candidates
				cands := c31CurrentCases(dir, k, g)
				if origin, frame := c31CrashOrigin(c31Tail(out, 200000)); origin != "code" {
					mu.Lock()
					harness = append(harness, fmt.Sprintf("worker %d died in %s code at %s; output tail: %s", k, origin, frame, c31Tail(out, 1500)))
					mu.Unlock()
					return
				}
				if len(cands) > 0 {
					mu.Lock()
					crashes++
					mu.Unlock()
				}
				if len(cands) == 0 {
					// died before evaluating anything (seen once with the race runtime at start-up, without any
					// output): not attributable to an input. Start it again; give up after three such starts.
					earlyDeaths++
					if earlyDeaths < 3 {
						continue
					}
					mu.Lock()
					harness = append(harness, fmt.Sprintf("worker %d exited abnormally (%v) before any case, %d times; output tail: %q", k, err, earlyDeaths, c31Tail(out, 2000)))
					mu.Unlock()
					return
				}
				excerpt := c31CrashExcerpt(out, 6000)
				key := c31CrashKey(excerpt)
				isNew := false
				minIdx := cands[0].Index
				for _, cs := range cands {
					minIdx = min(minIdx, cs.Index)
					skip = append(skip, cs.Index)
				}
				if len(cands) == 1 {
					// one goroutine per worker: the program being evaluated when the process died is unambiguous
					isNew = c.Violation(key, map[string]any{"case": cands[0], "exit": fmt.Sprint(err), "output": excerpt,
						"note": "the process evaluating this program died (fatal error, sanitizer abort or uncaught runtime failure)"})
				} else {
					confirmed := false
					for _, cs := range cands {
						sout, serr := c31Spawn(c, dir, k, w, n, 1, 0, nil, strconv.FormatUint(cs.Index, 10))
						if serr != nil {
							confirmed = true
							ex := c31CrashExcerpt(sout, 6000)
							if c.Violation(c31CrashKey(ex), map[string]any{"case": cs, "exit": serr.Error(), "reproduced_alone": true, "output": ex,
								"note": "the process evaluating this program died (fatal error, sanitizer abort or uncaught runtime failure)"}) {
								isNew = true
							}
						}
					}
					if !confirmed {
						isNew = c.Violation(key, map[string]any{"candidates": cands, "exit": fmt.Sprint(err), "reproduced_alone": false, "output": excerpt})
					}
				}
				if isNew {
					unknownCrashes++ // crashes listed as known findings do not stop the exploration
				}
				_ = minIdx
				next := from // without a checkpoint nothing of this run was counted: run it again, minus the skipped case(s)
				if b, rerr := os.ReadFile(filepath.Join(dir, fmt.Sprintf("ckpt-%d-%d.json", k, from))); rerr == nil {
					st := c31NewStats()
					if json.Unmarshal(b, st) == nil && st.Next > from {
						// keep what the dead worker had measured up to its last checkpoint and resume there
						mu.Lock()
						c31Merge(total, st)
						mu.Unlock()
						next = st.Next
					}
				}
				from = next
			}
		}(k)
	}
	wg.Wait()

	// evidence
	c.Eval(int(total.Evals))
	c.Count("programs", int(total.Cases))
	c.Count("steps", int(total.Steps))
	c.Count("worker_crashes", crashes)
	for k, v := range total.Counters {
		c.Count(k, int(v))
	}
	for k, v := range total.Max {
		c.Max(k, v)
	}
	for k, v := range total.Outcomes {
		c.Count("outcome:"+k, int(v))
	}
	for _, m := range []string{"Signature", "Application"} {
		for _, o := range []string{"pass", "reject", "error"} {
			c.Count("outcome:"+m+"/"+o, 0)
		}
	}
	c.Count("error_classes", len(total.ErrClasses))
	covered, attempted := 0, 0
	var never []string
	var few []string
	seen := map[string]bool{}
	for _, spec := range OpcodesByVersion(LogicVersion) {
		if seen[spec.Name] {
			continue
		}
		seen[spec.Name] = true
		cnt := total.OpOK[spec.Opcode]
		if spec.SubOpcode != 0 {
			cnt = total.SubOK[spec.SubOpcode]
		}
		if spec.Name == "err" { // never "succeeds": it is covered when executed
			cnt = total.OpErr[spec.Opcode]
		}
		if cnt+total.OpErr[spec.Opcode] > 0 {
			attempted++
		}
		switch {
		case cnt >= c31MinExec:
			covered++
			c.Distinct("op:" + spec.Name)
		case cnt == 0:
			never = append(never, spec.Name)
		default:
			few = append(few, fmt.Sprintf("%s=%d", spec.Name, cnt))
		}
	}
	c.Count("opcodes_in_table", len(seen))
	c.Count("opcodes_executed_100_times", covered)
	c.Count("opcodes_attempted", attempted)
	sort.Strings(never)
	c.Extra("opcodes_never_executed_successfully", never)
	c.Extra("opcodes_executed_fewer_than_100_times", few)
	type kv struct {
		K string
		V int64
	}
	var ecs []kv
	for k, v := range total.ErrClasses {
		ecs = append(ecs, kv{k, v})
	}
	sort.Slice(ecs, func(i, j int) bool { return ecs[i].V > ecs[j].V || (ecs[i].V == ecs[j].V && ecs[i].K < ecs[j].K) })
	if len(ecs) > 40 {
		ecs = ecs[:40]
	}
	c.Extra("top_error_classes", ecs)
	for _, s := range total.Samples {
		c.Sample(s)
	}

	for _, v := range total.Violations {
		c.Violation(v.Key, v.Witness)
	}
	if len(total.HarnessErrs) > 0 {
		harness = append(harness, total.HarnessErrs...)
	}
	if len(harness) > 0 {
		c.Harness("%s", strings.Join(harness[:min(len(harness), 4)], " | "))
	}

	// vacuity guards
	c.Require("programs", int64(n)*99/100)
	c.Require("steps", int64(n)*20)
	c.Require("outcome:Signature/pass", int64(n)/400)
	c.Require("outcome:Signature/reject", int64(n)/400)
	c.Require("outcome:Signature/error", int64(n)/20)
	c.Require("outcome:Application/pass", int64(n)/400)
	c.Require("outcome:Application/error", int64(n)/20)
	c.Require("programs_100_steps_or_more", int64(n)/50)
	c.Require("opcodes_executed_100_times", 150)
	c.Require("max_stack_depth", 1000)           // the stack limit itself was reached by a successful step
	c.Require("max_stack_depth_transient", 1001) // and crossed by a failing one
	c.Require("max_byte_value", 4096)
	c.Require("max_cost_one_program", 19000) // a logicsig ran up to (nearly) its whole budget
	c.Require("max_callstack_depth", 300)
	c.Require("max_inner_app_depth", 1)
	c.Require("max_inner_txns", 1)
}

// c31CrashKey turns the reason a worker died into a finding class (so that a triaged report can be
// listed in known-findings.jsonl without hiding other crashes).
func c31CrashKey(excerpt string) string {
	slug := func(s string) string {
		var b strings.Builder
		dash := false
		for _, ch := range strings.ToLower(s) {
			switch {
			case ch >= 'a' && ch <= 'z':
				b.WriteRune(ch)
				dash = false
			case !dash && b.Len() > 0:
				b.WriteByte('-')
				dash = true
			}
			if b.Len() >= 70 {
				break
			}
		}
		return strings.Trim(b.String(), "-")
	}
	first, _, _ := strings.Cut(excerpt, "\n")
	frame0 := ""
	if i := strings.Index(excerpt, "#0 "); i >= 0 {
		ln, _, _ := strings.Cut(excerpt[i:], "\n")
		if _, fn, ok := strings.Cut(ln, " in "); ok {
			frame0, _, _ = strings.Cut(fn, " ")
		}
	}
	switch {
	case strings.Contains(excerpt, "ERROR: AddressSanitizer"):
		_, kind, _ := strings.Cut(first, "AddressSanitizer: ")
		kind, _, _ = strings.Cut(kind, " ")
		return "asan:" + slug(kind) + "@" + frame0
	case strings.HasPrefix(first, "runtime error:") && frame0 != "":
		return "ubsan:" + slug(strings.TrimPrefix(first, "runtime error:")) + "@" + frame0
	case strings.HasPrefix(first, "fatal error:"):
		return "fatal:" + slug(strings.TrimPrefix(first, "fatal error:"))
	case strings.HasPrefix(first, "panic:"):
		return "go-panic:" + slug(strings.TrimPrefix(first, "panic:"))
	}
	return "process-crash"
}

// c31CrashOrigin looks at the output of a dead worker: for a Go panic / fatal error the first
// non-runtime frame of the first goroutine listed tells whose code was running.
func c31CrashOrigin(out string) (string, string) {
	i := strings.Index(out, "\ngoroutine ")
	if i < 0 {
		return "code", "(no goroutine dump)"
	}
	lines := strings.Split(out[i+1:], "\n")
	for j := 1; j+1 < len(lines); j++ {
		fn := lines[j]
		if fn == "" {
			break
		}
		if strings.HasPrefix(fn, "\t") || !strings.HasPrefix(lines[j+1], "\t") {
			continue
		}
		loc := strings.TrimSpace(lines[j+1])
		if strings.HasPrefix(fn, "runtime.") || strings.HasPrefix(fn, "panic(") || strings.Contains(loc, "/src/runtime/") {
			continue
		}
		switch {
		case strings.Contains(loc, "verif_c31"):
			return "harness", fn + " @ " + loc
		case strings.Contains(loc, "_test.go"):
			return "mock", fn + " @ " + loc
		}
		return "code", fn + " @ " + loc
	}
	return "code", "(no frame found)"
}

func c31CurrentCases(dir string, k uint64, g int) []c31Case {
	var out []c31Case
	for gi := 0; gi < max(g, 1); gi++ {
		b, err := os.ReadFile(filepath.Join(dir, fmt.Sprintf("cur-%d-%d.json", k, gi)))
		if err != nil || len(b) == 0 {
			continue
		}
		var cs c31Case
		hdr, rest, _ := strings.Cut(string(b), "\n")
		if json.Unmarshal([]byte(hdr), &cs) == nil {
			for li, l := range cs.Lens {
				if l > len(rest) {
					l = len(rest)
				}
				if li == 0 {
					cs.prog = []byte(rest[:l])
				} else {
					cs.callees = append(cs.callees, []byte(rest[:l]))
				}
				rest = rest[l:]
			}
			cs.hexify()
			out = append(out, cs)
		}
	}
	return out
}

func c31Current(dir string, k uint64, g int) string {
	b, _ := json.Marshal(c31CurrentCases(dir, k, g))
	return c31Trunc(string(b), 4000)
}
