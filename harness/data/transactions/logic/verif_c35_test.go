package logic

// C35: an application program can touch an account, asset, application, holding, local state or
// box only if the transaction group made it available under the sharing rules of the program's
// version.
//
// Oracle: c35Model below, a reference availability model written from the rules (not from
// resources.go): own foreign arrays / access list; application accounts (own app always, foreign
// apps from v7); resources created earlier in the group (from v6); group sharing from v9 with the
// cross-product rule for holdings and locals (an account from one transaction and an asset from
// another do NOT make the holding available); box references incl. index 0 = called app and the
// unnamed-box quota of freshly created apps; before v4 some opcodes take the id directly and are
// not subject to an availability rule (legitimate old behaviour).
// Only "the access succeeded although the model says unavailable" is a violation. The reverse
// (model: available, program failed) is printed as a discrepancy and was used to debug the model.

import (
	"encoding/hex"
	"encoding/json"
	"fmt"
	"sort"
	"strings"
	"sync"
	"testing"

	"github.com/algorand/go-algorand/config"
	"github.com/algorand/go-algorand/data/basics"
	"github.com/algorand/go-algorand/data/transactions"
	"github.com/algorand/go-algorand/protocol"
	"verif.local/kit"
)

// ---------------------------------------------------------------------------------------------
// universe

var c35Assets = []uint64{1001, 1002, 1003, 1004}
var c35Apps = []uint64{2001, 2002, 2003, 2004}
var c35Names = []string{"b0", "b1", "b2", "b3", "b4", "b5"}

const c35FirstCreated = 5000
const c35UnknownAsset = 9999
const c35UnknownApp = 9998

func c35Acct(i int) basics.Address {
	var a basics.Address
	copy(a[:], fmt.Sprintf("c35-account-%02d...................", i))
	return a
}

var c35Unknown = func() basics.Address {
	var a basics.Address
	copy(a[:], "c35-nobody-mentions-this-account")
	return a
}()

func c35AppAddr(id uint64) basics.Address { return basics.AppIndex(id).Address() }

// ---------------------------------------------------------------------------------------------
// the generated group (the harness's own description; converted to real transactions for the run)

type c35Box struct {
	Idx   int    `json:"idx"`
	Name  string `json:"name"`
	Empty bool   `json:"empty,omitempty"`
}

type c35Ref struct {
	Kind  string         `json:"kind"` // addr asset app holding locals box empty
	Addr  basics.Address `json:"-"`
	AddrS string         `json:"addr,omitempty"`
	Asset uint64         `json:"asset,omitempty"`
	App   uint64         `json:"app,omitempty"`
	AI    int            `json:"addr_index,omitempty"`  // holding/locals: 0 = sender, else 1-based index of an addr entry
	SI    int            `json:"asset_index,omitempty"` // holding: 1-based index of an asset entry
	PI    int            `json:"app_index,omitempty"`   // locals/box: 0 = called app, else 1-based index of an app entry
	Name  string         `json:"name,omitempty"`
}

type c35Txn struct {
	Kind    string         `json:"kind"` // appl pay axfer afrz acfg keyreg
	Sender  basics.Address `json:"-"`
	SenderS string         `json:"sender"`
	// appl
	AppID     uint64           `json:"app_id,omitempty"` // 0 = creation
	Version   uint64           `json:"program_version,omitempty"`
	UseAccess bool             `json:"use_access,omitempty"`
	Accounts  []basics.Address `json:"-"`
	AccountsS []string         `json:"accounts,omitempty"`
	Assets    []uint64         `json:"foreign_assets,omitempty"`
	Apps      []uint64         `json:"foreign_apps,omitempty"`
	Boxes     []c35Box         `json:"boxes,omitempty"`
	Access    []c35Ref         `json:"access,omitempty"`
	// pay / axfer / afrz / acfg
	Receiver    basics.Address `json:"-"`
	Close       basics.Address `json:"-"`
	AssetSender basics.Address `json:"-"`
	Other       string         `json:"other_fields,omitempty"`
	XferAsset   uint64         `json:"asset,omitempty"`
	// assigned when the transaction executes
	Created uint64 `json:"created_id,omitempty"`
}

func c35Name(a basics.Address) string {
	for i := 0; i < 5; i++ {
		if a == c35Acct(i) {
			return fmt.Sprintf("acct%d", i)
		}
	}
	if a == c35Unknown {
		return "unknown"
	}
	if a.IsZero() {
		return "zero"
	}
	for id := uint64(2001); id <= 2004; id++ {
		if a == c35AppAddr(id) {
			return fmt.Sprintf("appaddr(%d)", id)
		}
	}
	for id := uint64(c35FirstCreated); id < c35FirstCreated+8; id++ {
		if a == c35AppAddr(id) {
			return fmt.Sprintf("appaddr(%d)", id)
		}
	}
	return a.String()[:8]
}

func (t *c35Txn) describe() {
	t.SenderS = c35Name(t.Sender)
	t.AccountsS = nil
	for _, a := range t.Accounts {
		t.AccountsS = append(t.AccountsS, c35Name(a))
	}
	for i := range t.Access {
		if t.Access[i].Kind == "addr" {
			t.Access[i].AddrS = c35Name(t.Access[i].Addr)
		}
	}
	switch t.Kind {
	case "pay":
		t.Other = fmt.Sprintf("receiver=%s close=%s", c35Name(t.Receiver), c35Name(t.Close))
	case "axfer":
		t.Other = fmt.Sprintf("receiver=%s assetsender=%s closeto=%s", c35Name(t.Receiver), c35Name(t.AssetSender), c35Name(t.Close))
	case "afrz":
		t.Other = fmt.Sprintf("freezeaccount=%s", c35Name(t.Receiver))
	}
}

// a zero-length name is nil, as in every transaction decoded from the wire (omitempty)
func c35BoxName(n string) []byte {
	if n == "" {
		return nil
	}
	return []byte(n)
}

func (t *c35Txn) real() transactions.SignedTxn {
	var s transactions.SignedTxn
	tx := &s.Txn
	tx.Sender = t.Sender
	tx.FirstValid, tx.LastValid = 100, 200
	tx.Fee.Raw = 2000
	switch t.Kind {
	case "appl":
		tx.Type = protocol.ApplicationCallTx
		tx.ApplicationID = basics.AppIndex(t.AppID)
		if t.UseAccess {
			for _, r := range t.Access {
				var rr transactions.ResourceRef
				switch r.Kind {
				case "addr":
					rr.Address = r.Addr
				case "asset":
					rr.Asset = basics.AssetIndex(r.Asset)
				case "app":
					rr.App = basics.AppIndex(r.App)
				case "holding":
					rr.Holding = transactions.HoldingRef{Address: uint64(r.AI), Asset: uint64(r.SI)}
				case "locals":
					rr.Locals = transactions.LocalsRef{Address: uint64(r.AI), App: uint64(r.PI)}
				case "box":
					rr.Box = transactions.BoxRef{Index: uint64(r.PI), Name: c35BoxName(r.Name)}
				}
				tx.Access = append(tx.Access, rr)
			}
		} else {
			tx.Accounts = append([]basics.Address(nil), t.Accounts...)
			for _, a := range t.Assets {
				tx.ForeignAssets = append(tx.ForeignAssets, basics.AssetIndex(a))
			}
			for _, a := range t.Apps {
				tx.ForeignApps = append(tx.ForeignApps, basics.AppIndex(a))
			}
			for _, b := range t.Boxes {
				tx.Boxes = append(tx.Boxes, transactions.BoxRef{Index: uint64(b.Idx), Name: c35BoxName(b.Name)})
			}
		}
	case "pay":
		tx.Type = protocol.PaymentTx
		tx.Receiver = t.Receiver
		tx.CloseRemainderTo = t.Close
	case "axfer":
		tx.Type = protocol.AssetTransferTx
		tx.XferAsset = basics.AssetIndex(t.XferAsset)
		tx.AssetReceiver = t.Receiver
		tx.AssetSender = t.AssetSender
		tx.AssetCloseTo = t.Close
	case "afrz":
		tx.Type = protocol.AssetFreezeTx
		tx.FreezeAsset = basics.AssetIndex(t.XferAsset)
		tx.FreezeAccount = t.Receiver
	case "acfg":
		tx.Type = protocol.AssetConfigTx
		tx.ConfigAsset = basics.AssetIndex(t.XferAsset)
		tx.AssetParams = basics.AssetParams{Total: 10, UnitName: "u"}
	case "keyreg":
		tx.Type = protocol.KeyRegistrationTx
	}
	return s
}

// ---------------------------------------------------------------------------------------------
// the reference availability model

type c35Model struct {
	g   []c35Txn
	k   int
	v   uint64 // version of the program under test
	cur uint64 // id of the app being executed

	createdApps []uint64 // created by application-creating transactions 0..k
	createdAsas []uint64 // created by asset-config transactions 0..k-1
	quota       int      // unnamed box accesses left

	oldProto bool // generator hint only: the run uses the pre-sharing protocol (callees above v8 cannot run)
}

type c35AcctArg struct {
	ByIndex bool
	Idx     uint64
	Addr    basics.Address
}

func (a c35AcctArg) String() string {
	if a.ByIndex {
		return fmt.Sprintf("index %d", a.Idx)
	}
	return "address " + c35Name(a.Addr)
}

func c35Has(xs []uint64, x uint64) bool {
	for _, y := range xs {
		if x == y {
			return true
		}
	}
	return false
}

func (m *c35Model) me() *c35Txn { return &m.g[m.k] }

// a pre-sharing program cannot run at all with an access list
func (m *c35Model) cannotRun() bool { return m.me().UseAccess && m.v < 9 }

// accounts a transaction makes available to the whole group (v9+)
func c35TxnAccounts(t *c35Txn) []basics.Address {
	out := []basics.Address{t.Sender}
	switch t.Kind {
	case "pay":
		out = append(out, t.Receiver)
		if !t.Close.IsZero() {
			out = append(out, t.Close)
		}
	case "axfer":
		out = append(out, t.Receiver)
		if !t.AssetSender.IsZero() {
			out = append(out, t.AssetSender)
		}
		if !t.Close.IsZero() {
			out = append(out, t.Close)
		}
	case "afrz":
		out = append(out, t.Receiver)
	case "appl":
		if t.UseAccess {
			for _, r := range t.Access {
				if r.Kind == "addr" {
					out = append(out, r.Addr)
				}
			}
		} else {
			out = append(out, t.Accounts...)
			if t.AppID != 0 {
				out = append(out, c35AppAddr(t.AppID))
			}
			for _, a := range t.Apps {
				out = append(out, c35AppAddr(a))
			}
		}
	}
	return out
}

func c35TxnAssets(t *c35Txn) []uint64 {
	switch t.Kind {
	case "axfer", "afrz":
		return []uint64{t.XferAsset}
	case "acfg":
		if t.XferAsset != 0 {
			return []uint64{t.XferAsset}
		}
	case "appl":
		if t.UseAccess {
			var out []uint64
			for _, r := range t.Access {
				if r.Kind == "asset" {
					out = append(out, r.Asset)
				}
			}
			return out
		}
		return t.Assets
	}
	return nil
}

func c35TxnApps(t *c35Txn) []uint64 {
	if t.Kind != "appl" {
		return nil
	}
	var out []uint64
	if t.AppID != 0 {
		out = append(out, t.AppID)
	}
	if t.UseAccess {
		for _, r := range t.Access {
			if r.Kind == "app" {
				out = append(out, r.App)
			}
		}
		return out
	}
	return append(out, t.Apps...)
}

// holdings one transaction makes available (the cross product is taken INSIDE one transaction only)
func c35TxnHoldings(t *c35Txn) map[string]bool {
	out := map[string]bool{}
	key := func(a basics.Address, x uint64) string { return string(a[:]) + fmt.Sprint(x) }
	switch t.Kind {
	case "axfer":
		if t.XferAsset != 0 {
			for _, a := range c35TxnAccounts(t) {
				out[key(a, t.XferAsset)] = true
			}
		}
	case "afrz":
		if t.XferAsset != 0 {
			out[key(t.Receiver, t.XferAsset)] = true
		}
	case "appl":
		if t.UseAccess {
			for _, r := range t.Access {
				if r.Kind == "holding" {
					a := t.Sender
					if r.AI != 0 {
						a = t.Access[r.AI-1].Addr
					}
					out[key(a, t.Access[r.SI-1].Asset)] = true
				}
			}
		} else {
			for _, a := range c35TxnAccounts(t) {
				for _, x := range t.Assets {
					out[key(a, x)] = true
				}
			}
		}
	}
	return out
}

func c35TxnLocals(t *c35Txn) map[string]bool {
	out := map[string]bool{}
	key := func(a basics.Address, x uint64) string { return string(a[:]) + fmt.Sprint(x) }
	if t.Kind != "appl" {
		return out
	}
	if t.UseAccess {
		if t.AppID != 0 {
			out[key(t.Sender, t.AppID)] = true
		}
		for _, r := range t.Access {
			if r.Kind == "locals" {
				a := t.Sender
				if r.AI != 0 {
					a = t.Access[r.AI-1].Addr
				}
				app := t.AppID
				if r.PI != 0 {
					app = t.Access[r.PI-1].App
				}
				out[key(a, app)] = true
			}
		}
		return out
	}
	for _, a := range c35TxnAccounts(t) {
		for _, x := range c35TxnApps(t) {
			out[key(a, x)] = true
		}
	}
	return out
}

func (m *c35Model) acctByIndex(i uint64) (basics.Address, bool) {
	t := m.me()
	if i == 0 {
		return t.Sender, true
	}
	if t.UseAccess {
		if i <= uint64(len(t.Access)) && t.Access[i-1].Kind == "addr" {
			return t.Access[i-1].Addr, true
		}
		return basics.Address{}, false
	}
	if i <= uint64(len(t.Accounts)) {
		return t.Accounts[i-1], true
	}
	return basics.Address{}, false
}

func (m *c35Model) inOwnAccounts(a basics.Address) bool {
	t := m.me()
	if a == t.Sender {
		return true
	}
	if t.UseAccess {
		for _, r := range t.Access {
			if r.Kind == "addr" && r.Addr == a {
				return true
			}
		}
		return false
	}
	for _, x := range t.Accounts {
		if x == a {
			return true
		}
	}
	return false
}

func (m *c35Model) acctAvail(a basics.Address) (bool, string) {
	t := m.me()
	if m.inOwnAccounts(a) {
		return true, "account-in-own-list"
	}
	if a == c35AppAddr(m.cur) {
		return true, "own-app-account"
	}
	if m.v >= 7 && !t.UseAccess {
		for _, x := range t.Apps {
			if a == c35AppAddr(x) {
				return true, "foreign-app-account"
			}
		}
	}
	if m.v >= 6 {
		for _, x := range m.createdApps {
			if a == c35AppAddr(x) {
				return true, "created-app-account"
			}
		}
	}
	if m.v >= 9 {
		for i := range m.g {
			for _, x := range c35TxnAccounts(&m.g[i]) {
				if x == a {
					return true, "account-shared-by-group"
				}
			}
		}
	}
	return false, "account-not-available"
}

func (m *c35Model) acctArg(a c35AcctArg) (basics.Address, bool, string) {
	if a.ByIndex {
		addr, ok := m.acctByIndex(a.Idx)
		if !ok {
			return addr, false, "account-index-out-of-range"
		}
		return addr, true, "account-by-index"
	}
	if m.v < 4 {
		return a.Addr, false, "address-argument-before-v4"
	}
	ok, why := m.acctAvail(a.Addr)
	return a.Addr, ok, why
}

func (m *c35Model) assetAvail(x uint64) (bool, string) {
	if c35Has(c35TxnAssets(m.me()), x) {
		return true, "asset-in-own-list"
	}
	if m.v >= 6 && c35Has(m.createdAsas, x) {
		return true, "created-asset"
	}
	if m.v >= 9 {
		for i := range m.g {
			if c35Has(c35TxnAssets(&m.g[i]), x) {
				return true, "asset-shared-by-group"
			}
		}
	}
	return false, "asset-not-available"
}

// assetRef resolves the integer an opcode received. slotOnly: before v4 the opcode takes a slot in
// ForeignAssets (asset_params_get); otherwise before v4 it takes the id directly, unchecked.
func (m *c35Model) assetRef(ref uint64, slotBeforeV4 bool) (uint64, bool, string) {
	t := m.me()
	if m.v < 4 {
		if !slotBeforeV4 {
			return ref, true, "asset-id-unchecked-before-v4"
		}
		if ref < uint64(len(t.Assets)) {
			return t.Assets[ref], true, "asset-by-slot"
		}
		return 0, false, "asset-slot-out-of-range"
	}
	if ok, why := m.assetAvail(ref); ok {
		return ref, true, why
	}
	if !t.UseAccess && ref < uint64(len(t.Assets)) {
		return t.Assets[ref], true, "asset-by-slot"
	}
	if t.UseAccess && ref >= 1 && ref <= uint64(len(t.Access)) && t.Access[ref-1].Kind == "asset" {
		return t.Access[ref-1].Asset, true, "asset-by-slot"
	}
	return 0, false, "asset-not-available"
}

func (m *c35Model) appAvail(x uint64) (bool, string) {
	if x == m.cur {
		return true, "own-app"
	}
	t := m.me()
	if t.UseAccess {
		for _, r := range t.Access {
			if r.Kind == "app" && r.App == x {
				return true, "app-in-own-list"
			}
		}
	} else if c35Has(t.Apps, x) {
		return true, "app-in-own-list"
	}
	if m.v >= 6 && c35Has(m.createdApps, x) {
		return true, "created-app"
	}
	if m.v >= 9 {
		for i := range m.g {
			if c35Has(c35TxnApps(&m.g[i]), x) {
				return true, "app-shared-by-group"
			}
		}
	}
	return false, "app-not-available"
}

func (m *c35Model) appRef(ref uint64, slotBeforeV4 bool) (uint64, bool, string) {
	t := m.me()
	if ref == 0 {
		return m.cur, true, "own-app"
	}
	if m.v < 4 {
		if !slotBeforeV4 {
			return ref, true, "app-id-unchecked-before-v4"
		}
		if ref <= uint64(len(t.Apps)) {
			return t.Apps[ref-1], true, "app-by-slot"
		}
		return 0, false, "app-slot-out-of-range"
	}
	if ok, why := m.appAvail(ref); ok {
		return ref, true, why
	}
	if !t.UseAccess && ref <= uint64(len(t.Apps)) {
		return t.Apps[ref-1], true, "app-by-slot"
	}
	if t.UseAccess && ref <= uint64(len(t.Access)) && t.Access[ref-1].Kind == "app" {
		return t.Access[ref-1].App, true, "app-by-slot"
	}
	return 0, false, "app-not-available"
}

func (m *c35Model) holding(acct c35AcctArg, assetRef uint64) (bool, string) {
	if m.v < 9 {
		_, ok, why := m.acctArg(acct)
		if !ok {
			return false, why
		}
		_, ok, why2 := m.assetRef(assetRef, false)
		if !ok {
			return false, why2
		}
		return true, "holding:" + why + "+" + why2
	}
	// sharing versions: resolve both, then the PAIR must be available
	var a basics.Address
	if acct.ByIndex {
		var ok bool
		if a, ok = m.acctByIndex(acct.Idx); !ok {
			return false, "account-index-out-of-range"
		}
	} else {
		a = acct.Addr
	}
	x, ok, why := m.assetRef(assetRef, false)
	if !ok {
		return false, why
	}
	return m.holdingPair(a, x)
}

// holdingPair: the v9+ rule for the pair (account a, asset x), both already resolved
func (m *c35Model) holdingPair(a basics.Address, x uint64) (bool, string) {
	key := string(a[:]) + fmt.Sprint(x)
	for i := range m.g {
		if c35TxnHoldings(&m.g[i])[key] {
			return true, "holding-shared-by-one-transaction"
		}
	}
	if c35Has(m.createdAsas, x) {
		if ok, w := m.acctAvail(a); ok {
			return true, "holding-of-created-asset:" + w
		}
		return false, "holding-of-created-asset-account-not-available"
	}
	for _, c := range m.createdApps {
		if a == c35AppAddr(c) {
			if ok, w := m.assetAvail(x); ok {
				return true, "holding-of-created-app-account:" + w
			}
		}
	}
	if ok, _ := m.acctAvail(a); ok {
		return false, "cross-product-missing(account and asset available separately)"
	}
	return false, "holding-account-not-available"
}

func (m *c35Model) locals(acct c35AcctArg, appRefV uint64) (bool, string) {
	if m.v < 9 {
		_, ok, why := m.acctArg(acct)
		if !ok {
			return false, why
		}
		_, ok, why2 := m.appRef(appRefV, false)
		if !ok {
			return false, why2
		}
		return true, "locals:" + why + "+" + why2
	}
	var a basics.Address
	if acct.ByIndex {
		var ok bool
		if a, ok = m.acctByIndex(acct.Idx); !ok {
			return false, "account-index-out-of-range"
		}
	} else {
		a = acct.Addr
	}
	y, ok, why := m.appRef(appRefV, false)
	if !ok {
		return false, why
	}
	return m.localsPair(a, y)
}

// localsPair: the v9+ rule for the pair (account a, app y), both already resolved
func (m *c35Model) localsPair(a basics.Address, y uint64) (bool, string) {
	key := string(a[:]) + fmt.Sprint(y)
	for i := range m.g {
		if c35TxnLocals(&m.g[i])[key] {
			return true, "locals-shared-by-one-transaction"
		}
	}
	if c35Has(m.createdApps, y) {
		if ok, w := m.acctAvail(a); ok {
			return true, "locals-of-created-app:" + w
		}
		return false, "locals-of-created-app-account-not-available"
	}
	for _, c := range m.createdApps {
		if a == c35AppAddr(c) {
			if ok, w := m.appAvail(y); ok {
				return true, "locals-of-created-app-account:" + w
			}
		}
	}
	if ok, _ := m.acctAvail(a); ok {
		return false, "cross-product-missing(account and app available separately)"
	}
	return false, "locals-account-not-available"
}

// box references of the whole group. refs of index 0 in a creating transaction resolve only once it ran.
func (m *c35Model) boxRefs() (map[string]bool, int) {
	refs := map[string]bool{}
	quota := 0
	for i := range m.g {
		t := &m.g[i]
		if t.Kind != "appl" {
			continue
		}
		called := t.AppID
		if called == 0 && i <= m.k {
			called = t.Created
		}
		if t.UseAccess {
			for _, r := range t.Access {
				switch r.Kind {
				case "empty":
					quota++
				case "box":
					app := called
					if r.PI != 0 {
						app = t.Access[r.PI-1].App
					}
					if app != 0 {
						refs[fmt.Sprint(app)+"/"+r.Name] = true
					}
				}
			}
			continue
		}
		for _, b := range t.Boxes {
			// Only the completely empty reference {index 0, no name} is a spare reference that a freshly
			// created app may spend on a box nobody named. {index n != 0, no name} is a legal reference to
			// the zero-length name of a foreign app (it only adds i/o quota) and grants nothing.
			if b.Idx == 0 && b.Name == "" {
				quota++
				continue
			}
			app := called
			if b.Idx > 0 {
				if b.Idx > len(t.Apps) {
					continue
				}
				app = t.Apps[b.Idx-1]
			}
			if app != 0 {
				refs[fmt.Sprint(app)+"/"+b.Name] = true
			}
		}
	}
	return refs, quota
}

// box decides one box access and consumes quota like a real access would
func (m *c35Model) box(app uint64, name string, refs map[string]bool) (bool, string) {
	if m.v < 8 {
		return false, "boxes-before-v8"
	}
	if refs[fmt.Sprint(app)+"/"+name] {
		return true, "box-referenced-in-group"
	}
	if c35Has(m.createdApps, app) {
		if m.quota > 0 {
			m.quota--
			refs[fmt.Sprint(app)+"/"+name] = true
			return true, "unnamed-box-of-created-app"
		}
		return false, "unnamed-box-quota-exhausted"
	}
	return false, "box-not-referenced"
}

// ---------------------------------------------------------------------------------------------
// probes: one access opcode on one resource

type c35Probe struct {
	Op    string     `json:"op"`
	Acct  c35AcctArg `json:"-"`
	AcctS string     `json:"account_arg,omitempty"`
	Ref   uint64     `json:"int_arg,omitempty"`
	Name  string     `json:"box_name,omitempty"`
	Name2 string     `json:"second_box_name,omitempty"`
	// inner transactions: asset / second app / whether an account is passed
	InAsset uint64 `json:"inner_asset,omitempty"`
	InApp2  uint64 `json:"inner_foreign_app,omitempty"`
	HasAcct bool   `json:"inner_has_account,omitempty"`
	Source  string `json:"program"`
}

type c35OpInfo struct {
	name   string
	minV   uint64
	class  string // account asset holding app locals localscur box appbox itxnacct itxnasset itxnapp
	weight int
}

var c35Ops = []c35OpInfo{
	{"balance", 2, "account", 3}, {"min_balance", 3, "account", 1}, {"acct_params_get AcctBalance", 6, "account", 2}, {"voter_params_get VoterBalance", 11, "account", 1},
	{"asset_params_get AssetTotal", 2, "asset", 4},
	{"asset_holding_get AssetBalance", 2, "holding", 8},
	{"app_params_get AppCreator", 5, "app", 2}, {"app_global_get_ex", 2, "app", 3},
	{"app_opted_in", 2, "locals", 6}, {"app_local_get_ex", 2, "locals", 3},
	{"app_local_get", 2, "localscur", 2}, {"app_local_put", 2, "localscur", 2}, {"app_local_del", 2, "localscur", 1},
	{"box_len", 8, "box", 3}, {"box_get", 8, "box", 2}, {"box_create", 8, "box", 2}, {"box_del", 8, "box", 1}, {"box_put", 8, "box", 1}, {"box_create x2", 8, "box2", 3},
	{"app_box_len", 13, "appbox", 2}, {"app_box_get", 13, "appbox", 2},
	{"itxn_field Receiver", 5, "itxnacct", 2}, {"itxn_field Accounts", 6, "itxnacct", 1}, {"itxn_field AssetReceiver", 5, "itxnacct", 1},
	{"itxn_field XferAsset", 5, "itxnasset", 2}, {"itxn_field Assets", 6, "itxnasset", 1},
	{"itxn_field ApplicationID", 6, "itxnapp", 2}, {"itxn_field Applications", 6, "itxnapp", 1},
	{"inner axfer (itxn_submit)", 5, "inneraxfer", 4}, {"inner appl (itxn_submit)", 6, "innerappl", 6},
}

// approval program versions of the pre-existing apps (inner calls into pre-sharing callees are
// checked by the caller, see allows in the rules)
var c35CalleeVersion = map[uint64]uint64{2001: 6, 2002: 8, 2003: 9, 2004: 13}

func c35AddrLit(a basics.Address) string { return "byte 0x" + hex.EncodeToString(a[:]) }

// ---------------------------------------------------------------------------------------------
// generator

type c35Case struct {
	Group []c35Txn `json:"group"`
	K     int      `json:"txn_under_test"`
	Probe c35Probe `json:"probe"`
	// protocol from before group sharing (only when no access list and all program versions <= 8)
	OldProto bool `json:"old_protocol"`
}

func c35PickAddr(r *kit.Rand, wide bool) basics.Address {
	n := r.Intn(20)
	switch {
	case n < 12:
		return c35Acct(r.Intn(5))
	case n < 16:
		return c35AppAddr(c35Apps[r.Intn(4)])
	case n < 18 && wide:
		return c35AppAddr(c35FirstCreated + uint64(r.Intn(2)))
	case n < 19 && wide:
		return c35Unknown
	}
	return c35Acct(r.Intn(5))
}

func c35GenAppl(r *kit.Rand, underTest bool) c35Txn {
	t := c35Txn{Kind: "appl", Sender: c35Acct(r.Intn(5))}
	if !r.Chance(1, 4) {
		t.AppID = c35Apps[r.Intn(4)]
	}
	if underTest {
		t.Version = []uint64{2, 3, 4, 5, 6, 7, 8, 9, 10, 11, 12, 13, 14}[r.Pick([]int{2, 2, 3, 2, 3, 3, 5, 8, 3, 2, 3, 5, 3})]
	} else {
		t.Version = []uint64{3, 6, 8, 9, 13}[r.Intn(5)]
	}
	if t.Version > LogicVersion {
		t.Version = LogicVersion
	}
	if underTest {
		t.UseAccess = (t.Version >= 9 && r.Chance(1, 4)) || r.Chance(1, 40)
	} else {
		t.UseAccess = t.Version >= 9 && r.Chance(1, 3)
	}
	few := func() int { return []int{0, 1, 2, 3}[r.Pick([]int{3, 4, 3, 1})] }
	if !t.UseAccess {
		for i, n := 0, few(); i < n; i++ {
			t.Accounts = append(t.Accounts, c35PickAddr(r, false))
		}
		for i, n := 0, few(); i < n; i++ {
			t.Assets = append(t.Assets, c35Assets[r.Intn(4)])
		}
		for i, n := 0, few(); i < n; i++ {
			t.Apps = append(t.Apps, c35Apps[r.Intn(4)])
		}
		for i, n := 0, few(); i < n; i++ {
			// every combination of index 0 / foreign index (/ dangling index) x named / name-less
			idx := 0
			if len(t.Apps) > 0 && r.Bool() {
				idx = 1 + r.Intn(len(t.Apps))
			}
			if r.Chance(1, 15) {
				idx = len(t.Apps) + 1 // dangling index: contributes nothing
			}
			name := c35Names[r.Intn(len(c35Names))]
			if r.Chance(1, 3) {
				name = ""
			}
			t.Boxes = append(t.Boxes, c35Box{Idx: idx, Name: name, Empty: idx == 0 && name == ""})
		}
		return t
	}
	var addrIx, assetIx, appIx []int
	for i, n := 0, few(); i < n; i++ {
		t.Access = append(t.Access, c35Ref{Kind: "addr", Addr: c35PickAddr(r, false)})
		addrIx = append(addrIx, len(t.Access))
	}
	for i, n := 0, few(); i < n; i++ {
		t.Access = append(t.Access, c35Ref{Kind: "asset", Asset: c35Assets[r.Intn(4)]})
		assetIx = append(assetIx, len(t.Access))
	}
	for i, n := 0, few(); i < n; i++ {
		t.Access = append(t.Access, c35Ref{Kind: "app", App: c35Apps[r.Intn(4)]})
		appIx = append(appIx, len(t.Access))
	}
	pickA := func() int {
		if len(addrIx) == 0 || r.Chance(1, 3) {
			return 0
		}
		return addrIx[r.Intn(len(addrIx))]
	}
	if len(assetIx) > 0 {
		for i, n := 0, few(); i < n; i++ {
			t.Access = append(t.Access, c35Ref{Kind: "holding", AI: pickA(), SI: assetIx[r.Intn(len(assetIx))]})
		}
	}
	for i, n := 0, few(); i < n; i++ {
		ai, pi := pickA(), 0
		if len(appIx) > 0 && (r.Bool() || t.AppID == 0) {
			pi = appIx[r.Intn(len(appIx))]
		}
		if pi == 0 && (t.AppID == 0 || ai == 0) {
			continue // (sender, called app) is implicit; an all-zero entry would be an empty reference
		}
		t.Access = append(t.Access, c35Ref{Kind: "locals", AI: ai, PI: pi})
	}
	for i, n := 0, few(); i < n; i++ {
		pi := 0
		if len(appIx) > 0 && r.Bool() {
			pi = appIx[r.Intn(len(appIx))]
		}
		name := c35Names[r.Intn(len(c35Names))]
		if pi != 0 && r.Chance(1, 4) {
			name = "" // name-less reference to a listed app: i/o quota only (with index 0 it would be an empty entry)
		}
		t.Access = append(t.Access, c35Ref{Kind: "box", PI: pi, Name: name})
	}
	if r.Chance(1, 3) {
		t.Access = append(t.Access, c35Ref{Kind: "empty"})
	}
	if len(t.Access) == 0 {
		t.Access = append(t.Access, c35Ref{Kind: "addr", Addr: c35Acct(r.Intn(5))})
	}
	return t
}

func c35GenOther(r *kit.Rand) c35Txn {
	t := c35Txn{Sender: c35Acct(r.Intn(5))}
	switch r.Pick([]int{2, 4, 2, 3, 1}) {
	case 0:
		t.Kind = "pay"
		t.Receiver = c35PickAddr(r, false)
		if r.Chance(1, 4) {
			t.Close = c35PickAddr(r, false)
		}
	case 1:
		t.Kind = "axfer"
		t.XferAsset = c35Assets[r.Intn(4)]
		t.Receiver = c35PickAddr(r, false)
		if r.Chance(1, 5) {
			t.AssetSender = c35PickAddr(r, false)
		}
		if r.Chance(1, 5) {
			t.Close = c35PickAddr(r, false)
		}
	case 2:
		t.Kind = "afrz"
		t.XferAsset = c35Assets[r.Intn(4)]
		t.Receiver = c35PickAddr(r, false)
	case 3:
		t.Kind = "acfg"
		if r.Bool() {
			t.XferAsset = c35Assets[r.Intn(4)]
		}
	case 4:
		t.Kind = "keyreg"
	}
	return t
}

func c35GenCase(r *kit.Rand) *c35Case {
	n := []int{1, 2, 3, 4}[r.Pick([]int{2, 4, 4, 3})]
	k := r.Intn(n)
	cs := &c35Case{K: k}
	for i := 0; i < n; i++ {
		if i == k {
			cs.Group = append(cs.Group, c35GenAppl(r, true))
		} else if r.Chance(3, 5) {
			cs.Group = append(cs.Group, c35GenAppl(r, false))
		} else {
			cs.Group = append(cs.Group, c35GenOther(r))
		}
	}
	return cs
}

// c35GenProbe picks an opcode available at v and its arguments; ids of things created in the group are known by now.
func c35GenProbe(r *kit.Rand, m *c35Model) c35Probe {
	t := m.me()
	var ops []c35OpInfo
	var w []int
	curExisting := c35Has(c35Apps, m.cur)
	for _, o := range c35Ops {
		if o.minV > m.v {
			continue
		}
		if o.class == "localscur" && !curExisting {
			continue // accounts are not opted in to a just-created app: the ledger would fail for an unrelated reason
		}
		ops = append(ops, o)
		w = append(w, o.weight)
	}
	o := ops[r.Pick(w)]
	p := c35Probe{Op: o.name}

	nAcct := len(t.Accounts)
	if t.UseAccess {
		nAcct = len(t.Access)
	}
	acct := func() (c35AcctArg, string) {
		if m.v < 4 || r.Chance(2, 5) {
			i := uint64(r.Intn(nAcct + 2))
			return c35AcctArg{ByIndex: true, Idx: i}, fmt.Sprintf("int %d", i)
		}
		var a basics.Address
		switch r.Intn(12) {
		case 0:
			a = c35AppAddr(m.cur)
		case 1:
			if len(m.createdApps) > 0 {
				a = c35AppAddr(m.createdApps[r.Intn(len(m.createdApps))])
			} else {
				a = c35Unknown
			}
		case 2:
			a = c35Unknown
		case 3, 4:
			a = c35AppAddr(c35Apps[r.Intn(4)])
		default:
			a = c35Acct(r.Intn(5))
		}
		return c35AcctArg{Addr: a}, c35AddrLit(a)
	}
	assetID := func() uint64 {
		switch r.Intn(10) {
		case 0:
			return c35UnknownAsset
		case 1, 2:
			if len(m.createdAsas) > 0 {
				return m.createdAsas[r.Intn(len(m.createdAsas))]
			}
		}
		return c35Assets[r.Intn(4)]
	}
	asset := func() uint64 {
		if r.Chance(1, 3) {
			n := len(t.Assets)
			if t.UseAccess {
				n = len(t.Access)
			}
			return uint64(r.Intn(n + 2))
		}
		return assetID()
	}
	appID := func() uint64 {
		switch r.Intn(10) {
		case 0:
			return c35UnknownApp
		case 1:
			return m.cur
		case 2, 3:
			if len(m.createdApps) > 0 {
				return m.createdApps[r.Intn(len(m.createdApps))]
			}
		}
		return c35Apps[r.Intn(4)]
	}
	app := func() uint64 {
		if r.Chance(1, 3) {
			n := len(t.Apps)
			if t.UseAccess {
				n = len(t.Access)
			}
			return uint64(r.Intn(n + 2))
		}
		return appID()
	}
	var src string
	switch o.class {
	case "account":
		var lit string
		p.Acct, lit = acct()
		pops := "pop\n"
		if strings.Contains(o.name, "_params_get") {
			pops = "pop\npop\n"
		}
		src = lit + "\n" + o.name + "\n" + pops
	case "asset":
		p.Ref = asset()
		src = fmt.Sprintf("int %d\n%s\npop\npop\n", p.Ref, o.name)
	case "holding":
		var lit string
		p.Acct, lit = acct()
		p.Ref = asset()
		if m.v < 4 {
			p.Ref = assetID() // the id is taken directly
		}
		src = fmt.Sprintf("%s\nint %d\n%s\npop\npop\n", lit, p.Ref, o.name)
	case "app":
		p.Ref = app()
		if m.v < 4 {
			p.Ref = uint64(r.Intn(len(t.Apps) + 2)) // slot
		}
		if o.name == "app_global_get_ex" {
			src = fmt.Sprintf("int %d\nbyte \"k\"\napp_global_get_ex\npop\npop\n", p.Ref)
		} else {
			src = fmt.Sprintf("int %d\n%s\npop\npop\n", p.Ref, o.name)
		}
	case "locals":
		var lit string
		p.Acct, lit = acct()
		p.Ref = app()
		if m.v < 4 || o.name == "app_local_get_ex" {
			// ids taken directly before v4; and app_local_get_ex needs the account to be opted in, which
			// holds for the pre-existing apps only
			if r.Chance(1, 4) {
				p.Ref = 0
			} else if m.v >= 4 && r.Chance(1, 3) {
				p.Ref = uint64(r.Intn(len(t.Apps) + 2))
			} else {
				p.Ref = c35Apps[r.Intn(4)]
			}
		}
		if o.name == "app_opted_in" {
			src = fmt.Sprintf("%s\nint %d\napp_opted_in\npop\n", lit, p.Ref)
		} else {
			src = fmt.Sprintf("%s\nint %d\nbyte \"k\"\napp_local_get_ex\npop\npop\n", lit, p.Ref)
		}
	case "localscur":
		var lit string
		p.Acct, lit = acct()
		switch o.name {
		case "app_local_get":
			src = lit + "\nbyte \"k\"\napp_local_get\npop\n"
		case "app_local_put":
			src = lit + "\nbyte \"k\"\nint 7\napp_local_put\n"
		default:
			src = lit + "\nbyte \"k\"\napp_local_del\n"
		}
	case "box", "box2":
		p.Name = c35Names[r.Intn(len(c35Names))]
		one := func(name string) string {
			switch o.name {
			case "box_len", "box_get":
				return fmt.Sprintf("byte \"%s\"\n%s\npop\npop\n", name, o.name)
			case "box_del":
				return fmt.Sprintf("byte \"%s\"\nbox_del\npop\n", name)
			case "box_put":
				return fmt.Sprintf("byte \"%s\"\nbyte 0x0000000000000000\nbox_put\n", name)
			}
			return fmt.Sprintf("byte \"%s\"\nint 8\nbox_create\npop\n", name)
		}
		src = one(p.Name)
		if o.class == "box2" {
			p.Name2 = c35Names[r.Intn(len(c35Names))]
			src += one(p.Name2)
		}
	case "appbox":
		p.Ref = appID()
		p.Name = c35Names[r.Intn(len(c35Names))]
		src = fmt.Sprintf("int %d\nbyte \"%s\"\n%s\npop\npop\n", p.Ref, p.Name, o.name)
	case "itxnacct":
		a := c35Acct(r.Intn(5))
		switch r.Intn(8) {
		case 0:
			a = c35AppAddr(m.cur)
		case 1:
			a = c35Unknown
		case 2:
			a = c35AppAddr(c35Apps[r.Intn(4)])
		case 3:
			if len(m.createdApps) > 0 {
				a = c35AppAddr(m.createdApps[r.Intn(len(m.createdApps))])
			}
		}
		p.Acct = c35AcctArg{Addr: a}
		src = "itxn_begin\n" + c35AddrLit(a) + "\n" + o.name + "\n"
	case "inneraxfer":
		a := c35Acct(r.Intn(5))
		switch r.Intn(6) {
		case 0:
			a = c35AppAddr(m.cur)
		case 1:
			a = c35AppAddr(c35Apps[r.Intn(4)])
		}
		p.Acct = c35AcctArg{Addr: a}
		p.Ref = assetID()
		src = fmt.Sprintf("itxn_begin\nint axfer\nitxn_field TypeEnum\nint %d\nitxn_field XferAsset\n%s\nitxn_field AssetReceiver\nitxn_submit\n", p.Ref, c35AddrLit(a))
	case "innerappl":
		p.Ref = c35Apps[r.Intn(4)]
		for p.Ref == m.cur || (m.oldProto && c35CalleeVersion[p.Ref] > 8) {
			p.Ref = c35Apps[r.Intn(4)]
		}
		src = fmt.Sprintf("itxn_begin\nint appl\nitxn_field TypeEnum\nint %d\nitxn_field ApplicationID\n", p.Ref)
		if r.Chance(2, 3) {
			a := c35Acct(r.Intn(5))
			if r.Chance(1, 5) {
				a = c35AppAddr(c35Apps[r.Intn(4)])
			}
			p.Acct, p.HasAcct = c35AcctArg{Addr: a}, true
			src += c35AddrLit(a) + "\nitxn_field Accounts\n"
		}
		if r.Chance(2, 3) {
			p.InAsset = assetID()
			src += fmt.Sprintf("int %d\nitxn_field Assets\n", p.InAsset)
		}
		if r.Chance(1, 3) {
			p.InApp2 = c35Apps[r.Intn(4)]
			src += fmt.Sprintf("int %d\nitxn_field Applications\n", p.InApp2)
		}
		src += "itxn_submit\n"
	case "itxnasset":
		p.Ref = assetID()
		src = fmt.Sprintf("itxn_begin\nint %d\n%s\n", p.Ref, o.name)
	case "itxnapp":
		p.Ref = appID()
		src = fmt.Sprintf("itxn_begin\nint %d\n%s\n", p.Ref, o.name)
	}
	p.Source = src + "int 1\n"
	p.AcctS = ""
	if o.class == "account" || o.class == "holding" || o.class == "locals" || o.class == "localscur" || o.class == "itxnacct" || o.class == "inneraxfer" || p.HasAcct {
		p.AcctS = p.Acct.String()
	}
	return p
}

// c35Verdict: the model's answer for a probe
func c35Verdict(m *c35Model, p *c35Probe) (bool, string) {
	if m.cannotRun() {
		return false, "pre-sharing-program-with-access-list"
	}
	var class string
	for _, o := range c35Ops {
		if o.name == p.Op {
			class = o.class
		}
	}
	switch class {
	case "account":
		_, ok, why := m.acctArg(p.Acct)
		return ok, why
	case "asset":
		_, ok, why := m.assetRef(p.Ref, true)
		return ok, why
	case "holding":
		return m.holding(p.Acct, p.Ref)
	case "app":
		_, ok, why := m.appRef(p.Ref, true)
		return ok, why
	case "locals":
		return m.locals(p.Acct, p.Ref)
	case "localscur":
		if m.v < 9 {
			a, ok, why := m.acctArg(p.Acct)
			if !ok {
				return false, why
			}
			if p.Op != "app_local_get" && !p.Acct.ByIndex && !m.inOwnAccounts(a) {
				// available (e.g. an app account) but not expressible as an index into txn.Accounts, which
				// mutation needed before v9: the program fails, though not for lack of availability
				return false, "mutation-needs-account-in-own-list-before-v9"
			}
			return true, "locals-of-own-app:" + why
		}
		return m.locals(p.Acct, 0)
	case "box":
		refs, q := m.boxRefs()
		m.quota = q
		return m.box(m.cur, p.Name, refs)
	case "box2":
		refs, q := m.boxRefs()
		m.quota = q
		ok, why := m.box(m.cur, p.Name, refs)
		if !ok {
			return false, why
		}
		ok2, why2 := m.box(m.cur, p.Name2, refs)
		if !ok2 {
			return false, "second-access:" + why2
		}
		return true, why + "+" + why2
	case "appbox":
		refs, q := m.boxRefs()
		m.quota = q
		return m.box(p.Ref, p.Name, refs)
	case "itxnacct":
		return m.acctAvail(p.Acct.Addr)
	case "inneraxfer":
		// field assignment needs asset and receiver; from v9 the submit additionally needs the holdings
		// of the sender (the app account) and of the receiver
		if ok, why := m.assetAvail(p.Ref); !ok {
			return false, why
		}
		if ok, why := m.acctAvail(p.Acct.Addr); !ok {
			return false, why
		}
		if m.v < 9 {
			return true, "inner-axfer-before-sharing"
		}
		for _, a := range []basics.Address{c35AppAddr(m.cur), p.Acct.Addr} {
			if ok, why := m.holdingPair(a, p.Ref); !ok {
				return false, "inner-axfer:" + why
			}
		}
		return true, "inner-axfer-holdings-available"
	case "innerappl":
		if ok, why := m.appAvail(p.Ref); !ok {
			return false, why
		}
		accts := []basics.Address{c35AppAddr(m.cur)}
		if p.HasAcct {
			if ok, why := m.acctAvail(p.Acct.Addr); !ok {
				return false, why
			}
			accts = append(accts, p.Acct.Addr)
		}
		if p.InAsset != 0 {
			if ok, why := m.assetAvail(p.InAsset); !ok {
				return false, why
			}
		}
		apps := []uint64{p.Ref}
		if p.InApp2 != 0 {
			if ok, why := m.appAvail(p.InApp2); !ok {
				return false, why
			}
			apps = append(apps, p.InApp2)
		}
		if m.v < 9 {
			return true, "inner-appl-before-sharing"
		}
		if c35CalleeVersion[p.Ref] >= 9 {
			return true, "inner-appl-callee-checks-itself"
		}
		// a pre-sharing callee would see the whole cross product of what it is handed: the caller
		// must itself have every one of those holdings and locals
		for _, x := range apps {
			accts = append(accts, c35AppAddr(x))
		}
		for _, a := range accts {
			if p.InAsset != 0 {
				if ok, why := m.holdingPair(a, p.InAsset); !ok {
					return false, "inner-appl-old-callee:" + why
				}
			}
			for _, y := range apps {
				if ok, why := m.localsPair(a, y); !ok {
					return false, "inner-appl-old-callee:" + why
				}
			}
		}
		return true, "inner-appl-old-callee-cross-product-available"
	case "itxnasset":
		return m.assetAvail(p.Ref)
	case "itxnapp":
		return m.appAvail(p.Ref)
	}
	return false, "unknown-probe"
}

// ---------------------------------------------------------------------------------------------
// running a case against the real evaluator

var c35ProtoOnce sync.Once
var c35ProtoModern, c35ProtoOld *config.ConsensusParams

// c35Proto: "modern" = every program version, access lists, and (as in every consensus version that
// has access lists, v38+) AppForbidLowResources; "old" = a protocol from before group sharing
// (program versions up to 8, no access lists, low ids allowed).
func c35Proto(old bool) *config.ConsensusParams {
	c35ProtoOnce.Do(func() {
		common := func(p *config.ConsensusParams) {
			p.BytesPerBoxReference = 1 << 20
			p.MaxBoxSize = 1 << 16
			p.MaxAppProgramCost = 20000
		}
		c35ProtoModern = makeTestProto(func(p *config.ConsensusParams) {
			common(p)
			p.AppForbidLowResources = true
		})
		c35ProtoOld = makeTestProto(func(p *config.ConsensusParams) {
			common(p)
			p.LogicSigVersion = 8
		})
	})
	if old {
		return c35ProtoOld
	}
	return c35ProtoModern
}

func c35Ledger() *Ledger {
	bal := map[basics.Address]uint64{c35Unknown: 10_000_000}
	for i := 0; i < 5; i++ {
		bal[c35Acct(i)] = 10_000_000
	}
	for _, id := range c35Apps {
		bal[c35AppAddr(id)] = 10_000_000
	}
	l := NewLedger(bal)
	for _, id := range c35Assets {
		l.NewAsset(c35Acct(0), basics.AssetIndex(id), basics.AssetParams{Total: 1_000_000, UnitName: "u"})
	}
	for _, id := range c35Apps {
		params := makeApp(5, 5, 5, 5)
		params.ForeignBoxReads = true
		params.ApprovalProgram = c35Trivial(c35CalleeVersion[id])
		params.ClearStateProgram = c35Trivial(c35CalleeVersion[id])
		l.NewApp(c35Acct(0), basics.AppIndex(id), params)
		l.NewGlobal(basics.AppIndex(id), "k", 1)
		ap := l.applications[basics.AppIndex(id)]
		ap.boxes = map[string][]byte{}
		for _, n := range c35Names {
			ap.boxes[n] = make([]byte, 8)
		}
		l.applications[basics.AppIndex(id)] = ap
	}
	for a := range bal {
		for _, id := range c35Assets {
			l.NewHolding(a, basics.AssetIndex(id), 10, false)
		}
		for _, id := range c35Apps {
			l.NewLocals(a, basics.AppIndex(id))
			l.NewLocal(a, basics.AppIndex(id), "k", 1)
		}
	}
	return l
}

var c35TrivialCache sync.Map

func c35Assemble(src string, v uint64) ([]byte, error) {
	ops, err := AssembleStringWithVersion("#pragma typetrack false\n"+src, v)
	if err != nil {
		return nil, err
	}
	return ops.Program, nil
}

func c35Trivial(v uint64) []byte {
	if p, ok := c35TrivialCache.Load(v); ok {
		return p.([]byte)
	}
	p, err := c35Assemble("int 1", v)
	if err != nil {
		panic(err)
	}
	c35TrivialCache.Store(v, p)
	return p
}

type c35Outcome struct {
	setupFailed string
	pass        bool
	err         error
	model       *c35Model
	avail       bool
	why         string
}

// c35Run executes transactions 0..k of the group (trivial approving programs before k, the probe at k)
func c35Run(r *kit.Rand, cs *c35Case) c35Outcome {
	var out c35Outcome
	stxns := make([]transactions.SignedTxn, len(cs.Group))
	for i := range cs.Group {
		stxns[i] = cs.Group[i].real()
	}
	ledger := c35Ledger()
	oldOK := true
	for i := range cs.Group {
		if cs.Group[i].Kind == "appl" && (cs.Group[i].UseAccess || cs.Group[i].Version > 8) {
			oldOK = false
		}
	}
	cs.OldProto = oldOK && r.Bool()
	ep := NewAppEvalParams(transactions.WrapSignedTxnsWithAD(stxns), c35Proto(cs.OldProto), &transactions.SpecialAddresses{})
	ep.Ledger = ledger
	ep.SigLedger = ledger
	next := uint64(c35FirstCreated)
	m := &c35Model{g: cs.Group, k: cs.K, oldProto: cs.OldProto}
	out.model = m
	for i := 0; i <= cs.K; i++ {
		t := &cs.Group[i]
		switch t.Kind {
		case "acfg":
			if t.XferAsset == 0 {
				id := next
				next++
				t.Created = id
				ledger.NewAsset(t.Sender, basics.AssetIndex(id), basics.AssetParams{Total: 10, UnitName: "u"})
				ep.RecordAD(i, transactions.ApplyData{ConfigAsset: basics.AssetIndex(id)})
				m.createdAsas = append(m.createdAsas, id)
			}
		case "appl":
			aid := t.AppID
			if aid == 0 {
				aid = next
				next++
				t.Created = aid
				params := makeApp(5, 5, 5, 5)
				params.ForeignBoxReads = true
				ledger.NewApp(t.Sender, basics.AppIndex(aid), params)
				ledger.NewGlobal(basics.AppIndex(aid), "k", 1)
				// state is complete for created things too: the new app account holds every asset and is
				// opted in everywhere, and everybody is opted in to the new app
				ledger.NewAccount(c35AppAddr(aid), 10_000_000)
				m.createdApps = append(m.createdApps, aid)
				for _, x := range c35Assets {
					ledger.NewHolding(c35AppAddr(aid), basics.AssetIndex(x), 10, false)
				}
				for _, y := range append(append([]uint64(nil), c35Apps...), m.createdApps...) {
					ledger.NewLocals(c35AppAddr(aid), basics.AppIndex(y))
					ledger.NewLocal(c35AppAddr(aid), basics.AppIndex(y), "k", 1)
				}
				for a := range ledger.balances {
					ledger.NewLocals(a, basics.AppIndex(aid))
					ledger.NewLocal(a, basics.AppIndex(aid), "k", 1)
				}
			}
			if i < cs.K {
				pass, _, err := EvalContract(c35Trivial(t.Version), i, basics.AppIndex(aid), ep)
				if err != nil || !pass {
					out.setupFailed = fmt.Sprintf("txn %d: %v", i, err)
					return out
				}
				ep.TxnGroup[i].ApplyData.ApplicationID = basics.AppIndex(t.Created)
				continue
			}
			m.v, m.cur = t.Version, aid
			cs.Probe = c35GenProbe(r, m)
			out.avail, out.why = c35Verdict(m, &cs.Probe)
			program, err := c35Assemble(cs.Probe.Source, t.Version)
			if err != nil {
				out.setupFailed = "assemble: " + err.Error()
				return out
			}
			out.pass, _, out.err = EvalContract(program, i, basics.AppIndex(aid), ep)
		}
	}
	return out
}

func c35Class(op string) string {
	for _, o := range c35Ops {
		if o.name == op {
			return o.class
		}
	}
	return "?"
}

func TestVerifC35Resources(t *testing.T) {
	c := kit.Start(t, "C35", "resources")
	defer c.Finish()
	c.Rule("PRNG groups of 1..4 transactions (application calls with program versions 2..14 weighted around the version boundaries 4/6/7/8/9/13, payments, asset transfers/freezes/configs incl. asset creation, key registrations) over 5 accounts, 4 assets, 4 apps (+ apps/assets created in the group), 6 box names; application calls carry random foreign arrays (accounts incl. app accounts, assets, apps, box references with every combination of index 0 / foreign index / dangling index x named / name-less, the completely empty one being the only spare reference) or, from v9, an access list (addresses, assets, apps, explicit holdings, locals, boxes, empty entries); transactions before the one under test run trivial approving programs (so creations register); the program under test performs ONE access opcode (balance, min_balance, acct_params_get, voter_params_get, asset_params_get, asset_holding_get, app_params_get, app_global_get_ex, app_opted_in, app_local_get_ex, app_local_get/put/del, box_len/get/create/del/put, two consecutive box_create, app_box_len/get, itxn_field Receiver/AssetReceiver/Accounts/XferAsset/Assets/ApplicationID/Applications, a submitted inner asset transfer, a submitted inner application call into a callee of version 6/8/9/13 with account/asset/app arrays) on a random resource given by index (incl. out of range) or by value (incl. app accounts, created things, things nobody mentions); distinct = distinct (version, opcode, by-index/by-value, model verdict and reason, group size, access-list use)")
	c.Assume("upstream in-package test Ledger as state (every account holds every asset and is opted in to every pre-existing app, every pre-existing app has every box, ForeignBoxReads set) so that an available access does not fail for unrelated reasons; programs assembled with the assembler under test; app address derivation (hash) trusted")
	n := c.N(60000, 1500000)
	var wg sync.WaitGroup
	var mu sync.Mutex
	next := 0
	take := func() int {
		mu.Lock()
		defer mu.Unlock()
		i := next
		next++
		return i
	}
	discrepancies := map[string]int{}
	for w := 0; w < 12; w++ {
		wg.Add(1)
		go func() {
			defer wg.Done()
			for {
				i := take()
				if i >= n || c.Violations() > 30 {
					return
				}
				r := c.Rand(35, uint64(i))
				cs := c35GenCase(r)
				var out c35Outcome
				describe := func() map[string]any {
					for j := range cs.Group {
						cs.Group[j].describe()
					}
					w := map[string]any{"case": i, "group": cs.Group, "txn_under_test": cs.K, "probe": cs.Probe,
						"model_available": out.avail, "model_reason": out.why, "program_passed": out.pass, "old_protocol": cs.OldProto}
					if out.model != nil {
						w["program_version"] = out.model.v
						w["app_id_executing"] = out.model.cur
						w["created_apps"] = out.model.createdApps
						w["created_assets"] = out.model.createdAsas
					}
					if out.err != nil {
						w["eval_error"] = c35ErrStr(out.err)
					}
					return w
				}
				if c.Guard("c35-eval", map[string]any{"case": i}, func() { out = c35Run(r, cs) }) {
					continue
				}
				if out.setupFailed != "" {
					c.Count("setup_failed", 1)
					if c.Counter("setup_failed") <= 3 {
						c.Observation("setup failed (case %d): %s", i, out.setupFailed)
					}
					continue
				}
				c.Eval(1)
				m := out.model
				succeeded := out.err == nil && out.pass
				class := c35Class(cs.Probe.Op)
				how := "by-value"
				if cs.Probe.Acct.ByIndex || (cs.Probe.AcctS == "" && cs.Probe.Ref < 100) {
					how = "by-index"
				}
				reason := out.why
				if j := strings.IndexAny(reason, ":("); j > 0 {
					reason = reason[:j]
				}
				c.Distinct(fmt.Sprintf("%d|%s|%s|%v|%s|%d|%v", m.v, cs.Probe.Op, how, out.avail, reason, len(cs.Group), m.me().UseAccess))
				c.Count("probes", 1)
				c.Count("class_"+class, 1)
				switch {
				case succeeded && !out.avail:
					c.Violation("access-to-unavailable-"+class, describe())
				case succeeded:
					c.Count("available_and_succeeded", 1)
					c.Count("ok:"+reason, 1)
					if m.v >= 9 {
						c.Count("sharing_version_successes", 1)
					}
				case out.avail:
					c.Count("discrepancy_available_but_failed", 1)
					mu.Lock()
					key := cs.Probe.Op + " / " + reason
					discrepancies[key]++
					first := discrepancies[key] == 1
					mu.Unlock()
					if first {
						b, _ := json.Marshal(describe())
						fmt.Printf("C35-DISCREPANCY (model says available, program failed): %s\n", b)
					}
				default:
					c.Count("unavailable_and_rejected", 1)
					c.Count("rejected:"+reason, 1)
				}
				if i < 3 {
					c.Sample(describe())
				}
			}
		}()
	}
	wg.Wait()
	var keys []string
	for k := range discrepancies {
		keys = append(keys, fmt.Sprintf("%s x%d", k, discrepancies[k]))
	}
	sort.Strings(keys)
	c.Extra("discrepancies_available_but_failed", keys)
	if len(keys) > 0 {
		c.Observation("model says available but the program failed (not a violation; examine): %v", keys)
	}
	c.Require("probes", int64(n/2))
	c.Require("available_and_succeeded", int64(n/8))
	c.Require("unavailable_and_rejected", int64(n/8))
	c.Require("sharing_version_successes", int64(n/40))
	// every rule of the model must have been exercised in both directions
	for _, k := range []string{"ok:account-shared-by-group", "ok:asset-shared-by-group", "ok:app-shared-by-group", "ok:holding-shared-by-one-transaction",
		"ok:locals-shared-by-one-transaction", "ok:created-app-account", "ok:foreign-app-account", "ok:own-app-account", "ok:box-referenced-in-group",
		"ok:unnamed-box-of-created-app", "ok:locals-of-created-app",
		"rejected:cross-product-missing", "rejected:account-not-available", "rejected:asset-not-available", "rejected:app-not-available",
		"rejected:box-not-referenced", "rejected:unnamed-box-quota-exhausted", "rejected:account-index-out-of-range", "rejected:second-access",
		"ok:inner-axfer-holdings-available", "rejected:inner-axfer", "ok:inner-appl-old-callee-cross-product-available", "rejected:inner-appl-old-callee", "ok:inner-appl-callee-checks-itself"} {
		c.Require(k, 5)
	}
	c.Require("ok:holding-of-created-asset", 3) // the rarest rule (about 13 per 60000 cases)
}

func c35ErrStr(err error) string {
	s := err.Error()
	if len(s) > 400 {
		s = s[:400]
	}
	return s
}
