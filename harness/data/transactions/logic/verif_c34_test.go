package logic

// C34: programs cannot use features newer than their version or outside their mode, and the
// static checker and the evaluator agree on instruction boundaries and branch targets.
//
// Oracle of the gating part: the committed language specification files langspec_v<N>.json
// (per version: opcodes, their modes, and per field immediate the legal values and their modes).
// They are an artefact that is independent of the live opcode/field tables consulted by
// check()/eval(): a table edit that lets a newer opcode or field through is contradicted by them.
//
// Oracle of the branch part: a tiny model of "legal target" written from the prose of the
// specification (DocExtra of bnz): a target is legal iff it is inside the program (the end of the
// program counts from v2 on), it is the first byte of an instruction, and - for the two byte
// encoding before v4 - the offset is not negative. Instruction starts are known by construction
// (the harness lays the instructions out itself), not by decoding with the code under test.

import (
	"encoding/binary"
	"encoding/hex"
	"encoding/json"
	"fmt"
	"os"
	"path/filepath"
	"sort"
	"strings"
	"sync"
	"testing"

	"github.com/algorand/go-algorand/config"
	"github.com/algorand/go-algorand/data/basics"
	"github.com/algorand/go-algorand/data/transactions"
	"github.com/algorand/go-algorand/protocol"
	"verif.local/kit"
)

// ---------------------------------------------------------------------------------------------
// langspec reader

type c34Field struct {
	Name  string
	Enc   byte
	Modes uint64 // 0: same as the opcode
	Type  string
}

type c34Imm struct {
	Enc string // "uint8", "int8", "int16 (big-endian)", "varint (zigzag)", "varuint", ...
	Ref string // non-empty: this immediate is a field
}

type c34Op struct {
	Key      uint16 // opcode<<8 | sub-opcode (0 for single byte opcodes)
	Name     string
	Args     []string
	Size     int
	Imms     []c34Imm
	FieldImm int // index into Imms of the field immediate, -1 if none
	Fields   map[byte]c34Field
	Modes    uint64
}

type c34Spec struct {
	Version uint64
	Ops     map[uint16]*c34Op
}

type c34JSONOp struct {
	Opcode       json.RawMessage
	Name         string
	Args         []string
	Size         int
	ArgEnum      []string
	ArgEnumTypes []string
	ArgDetails   []struct {
		Name         string
		ByteEncoding int
		Modes        uint64
		Version      uint64
		Type         string
	}
	ImmediateNote []struct {
		Encoding  string
		Name      string
		Reference string
	}
	IntroducedVersion uint64
	Modes             uint64
}

func c34LoadSpecs(c *kit.Ctx) map[uint64]*c34Spec {
	files, _ := filepath.Glob("langspec_v*.json")
	specs := map[uint64]*c34Spec{}
	for _, f := range files {
		raw, err := os.ReadFile(f)
		if err != nil {
			c.Harness("read %s: %v", f, err)
		}
		var doc struct {
			Version uint64
			Ops     []c34JSONOp
		}
		if err := json.Unmarshal(raw, &doc); err != nil {
			c.Harness("parse %s: %v", f, err)
		}
		sp := &c34Spec{Version: doc.Version, Ops: map[uint16]*c34Op{}}
		for _, jo := range doc.Ops {
			var key uint16
			var one int
			var two []int
			if json.Unmarshal(jo.Opcode, &one) == nil {
				key = uint16(one) << 8
			} else if json.Unmarshal(jo.Opcode, &two) == nil && len(two) == 2 {
				key = uint16(two[0])<<8 | uint16(two[1])
			} else if len(two) == 1 {
				key = uint16(two[0]) << 8
			} else {
				c.Harness("%s: opcode of %s not understood: %s", f, jo.Name, jo.Opcode)
			}
			op := &c34Op{Key: key, Name: jo.Name, Args: jo.Args, Size: jo.Size, FieldImm: -1, Modes: jo.Modes}
			for i, im := range jo.ImmediateNote {
				op.Imms = append(op.Imms, c34Imm{Enc: im.Encoding, Ref: im.Reference})
				if im.Reference != "" && len(jo.ArgDetails) > 0 {
					op.FieldImm = i
				}
			}
			if len(jo.ArgDetails) > 0 {
				if op.FieldImm < 0 {
					c.Harness("%s: %s has field details but no field immediate", f, jo.Name)
				}
				op.Fields = map[byte]c34Field{}
				for _, d := range jo.ArgDetails {
					op.Fields[byte(d.ByteEncoding)] = c34Field{Name: d.Name, Enc: byte(d.ByteEncoding), Modes: d.Modes, Type: d.Type}
				}
			}
			sp.Ops[key] = op
		}
		specs[doc.Version] = sp
	}
	if len(specs) < 2 {
		c.Harness("found %d langspec files in %s", len(specs), c34Getwd())
	}
	return specs
}

func c34Getwd() string { d, _ := os.Getwd(); return d }

// ---------------------------------------------------------------------------------------------
// program construction for one (version, opcode, field value)

type c34Val struct {
	bytes bool
	u     uint64
	b     []byte
}

func c34Int(u uint64) c34Val   { return c34Val{u: u} }
func c34Bytes(b []byte) c34Val { return c34Val{bytes: true, b: b} }

func c34Rep(b byte, n int) []byte {
	out := make([]byte, n)
	for i := range out {
		out[i] = b
	}
	return out
}

func c34Hex(s string) []byte {
	b, err := hex.DecodeString(s)
	if err != nil {
		panic(err)
	}
	return b
}

// 32 byte big-endian number
func c34Num32(n byte) []byte { b := make([]byte, 32); b[31] = n; return b }

var c34Sender = func() basics.Address { return makeSampleTxn().Txn.Sender }()

const (
	c34App   = 888
	c34Asset = 55
	c34Round = 41 // FirstValid-1 of the sample transaction
	c34Box   = "b1"
)

// secp256k1 / P-256 generator points in compressed form (valid input of ecdsa_pk_decompress)
var c34K1 = c34Hex("0279be667ef9dcbbac55a06295ce870b07029bfcdb2dce28d959f2815b16f81798")
var c34R1 = c34Hex("036b17d1f2e12c4247f8bce6e563a440f277037d812deb33a0f4a13945d898c296")

// argument override per opcode name (deepest first). Everything else is derived from the
// argument type names of the specification.
func c34ArgOverride(name string, field byte) []c34Val {
	g1 := append(c34Num32(1), c34Num32(2)...) // BN254 G1 generator (1,2)
	switch name {
	case "/", "%", "exp", "expw":
		return []c34Val{c34Int(1), c34Int(1)}
	case "divw":
		return []c34Val{c34Int(0), c34Int(1), c34Int(1)}
	case "divmodw":
		return []c34Val{c34Int(0), c34Int(1), c34Int(0), c34Int(1)}
	case "assert", "return":
		return []c34Val{c34Int(1)}
	case "box_create", "box_resize":
		return []c34Val{c34Bytes([]byte(c34Box)), c34Int(16)}
	case "box_put":
		return []c34Val{c34Bytes([]byte(c34Box)), c34Bytes(c34Rep('A', 16))}
	case "app_box_create", "app_box_resize":
		return []c34Val{c34Int(c34App), c34Bytes([]byte(c34Box)), c34Int(16)}
	case "app_box_put":
		return []c34Val{c34Int(c34App), c34Bytes([]byte(c34Box)), c34Bytes(c34Rep('A', 16))}
	case "app_box_extract":
		return []c34Val{c34Int(c34App), c34Bytes([]byte(c34Box)), c34Int(0), c34Int(0)}
	case "app_box_replace":
		return []c34Val{c34Int(c34App), c34Bytes([]byte(c34Box)), c34Int(0), c34Bytes([]byte("AAAAAAAA"))}
	case "app_box_del", "app_box_len", "app_box_get":
		return []c34Val{c34Int(c34App), c34Bytes([]byte(c34Box))}
	case "app_box_splice":
		return []c34Val{c34Int(c34App), c34Bytes([]byte(c34Box)), c34Int(0), c34Int(0), c34Bytes([]byte("AAAAAAAA"))}
	case "block":
		return []c34Val{c34Int(c34Round)}
	case "ecdsa_pk_decompress":
		if field == 1 {
			return []c34Val{c34Bytes(c34R1)}
		}
		return []c34Val{c34Bytes(c34K1)}
	case "json_ref":
		switch field {
		case 1:
			return []c34Val{c34Bytes([]byte(`{"a":7}`)), c34Bytes([]byte("a"))}
		case 2:
			return []c34Val{c34Bytes([]byte(`{"a":{"b":1}}`)), c34Bytes([]byte("a"))}
		}
		return []c34Val{c34Bytes([]byte(`{"a":"b"}`)), c34Bytes([]byte("a"))}
	case "ec_add":
		return []c34Val{c34Bytes(g1), c34Bytes(g1)}
	case "ec_scalar_mul":
		return []c34Val{c34Bytes(g1), c34Bytes(c34Num32(2))}
	case "ec_multi_scalar_mul":
		return []c34Val{c34Bytes(g1), c34Bytes(c34Num32(2))}
	case "ec_subgroup_check":
		return []c34Val{c34Bytes(g1)}
	case "ec_map_to":
		return []c34Val{c34Bytes(c34Num32(1))}
	case "ec_pairing_check":
		return []c34Val{c34Bytes(nil), c34Bytes(nil)}
	case "mimc", "poseidon2":
		return []c34Val{c34Bytes(c34Num32(1))}
	case "app_params_set":
		return []c34Val{c34Int(1)}
	}
	return nil
}

func c34ArgByType(t string) c34Val {
	switch t {
	case "uint64", "bool", "any", "":
		return c34Int(0)
	case "[]byte":
		return c34Bytes([]byte("AAAAAAAA"))
	case "address":
		return c34Bytes(c34Sender[:])
	case "bigint":
		return c34Bytes([]byte{1})
	case "boxName":
		return c34Bytes([]byte(c34Box))
	case "stateKey":
		return c34Bytes([]byte("k"))
	}
	var n int
	if _, err := fmt.Sscanf(t, "[%d]byte", &n); err == nil {
		return c34Bytes(c34Rep('A', n))
	}
	return c34Int(0)
}

// value to hand to itxn_field for a field of the given type
func c34ItxnFieldArg(f c34Field) c34Val {
	switch f.Name {
	case "Type":
		return c34Bytes([]byte("pay"))
	case "ConfigAssetUnitName", "ConfigAssetName", "ConfigAssetURL":
		return c34Bytes([]byte("u"))
	case "TypeEnum":
		return c34Int(1)
	case "XferAsset", "ConfigAsset", "FreezeAsset", "Assets":
		return c34Int(c34Asset)
	case "ApplicationID", "Applications":
		return c34Int(c34App)
	}
	return c34ArgByType(f.Type)
}

type c34Builder struct {
	version uint64
	ints    []uint64
	byts    [][]byte
	body    []byte
}

func c34NewBuilder(v uint64) *c34Builder {
	// four constants of each kind always exist, so intc_0..3 / bytec_0..3 / intc i / bytec i run
	return &c34Builder{version: v, ints: []uint64{0, 1, 2, 3}, byts: [][]byte{[]byte("AAAAAAAA"), {1}, []byte("k"), []byte(c34Box)}}
}

func (b *c34Builder) push(v c34Val) {
	if v.bytes {
		idx := -1
		for i, x := range b.byts {
			if string(x) == string(v.b) {
				idx = i
			}
		}
		if idx < 0 {
			idx = len(b.byts)
			b.byts = append(b.byts, v.b)
		}
		b.body = append(b.body, 0x27, byte(idx)) // bytec i
		return
	}
	idx := -1
	for i, x := range b.ints {
		if x == v.u {
			idx = i
		}
	}
	if idx < 0 {
		idx = len(b.ints)
		b.ints = append(b.ints, v.u)
	}
	b.body = append(b.body, 0x21, byte(idx)) // intc i
}

func c34Uvarint(x uint64) []byte {
	var s [binary.MaxVarintLen64]byte
	return append([]byte(nil), s[:binary.PutUvarint(s[:], x)]...)
}

// finish returns the program and the pc of body offset `at`.
func (b *c34Builder) finish(at int) ([]byte, int) {
	p := c34Uvarint(b.version)
	p = append(p, 0x20)
	p = append(p, c34Uvarint(uint64(len(b.ints)))...)
	for _, x := range b.ints {
		p = append(p, c34Uvarint(x)...)
	}
	p = append(p, 0x26)
	p = append(p, c34Uvarint(uint64(len(b.byts)))...)
	for _, x := range b.byts {
		p = append(p, c34Uvarint(uint64(len(x)))...)
		p = append(p, x...)
	}
	pc := len(p) + at
	p = append(p, b.body...)
	return p, pc
}

// callsub to the next instruction, in the encoding of the program's version
func (b *c34Builder) callsubNext(branchVarint bool) {
	if branchVarint {
		b.body = append(b.body, 0x88, 0x00)
	} else {
		b.body = append(b.body, 0x88, 0x00, 0x00)
	}
}

func c34ImmBytes(enc string) []byte {
	switch enc {
	case "uint8", "int8":
		return []byte{0}
	case "int16 (big-endian)":
		return []byte{0, 0}
	default: // varint, varuint, counted lists: a single zero byte is "0" / "empty list"
		return []byte{0}
	}
}

// c34Program builds a minimal type-correct program around one instruction described by shape
// (the specification entry used for the instruction's layout), with field immediate value f.
func c34Program(v uint64, shape *c34Op, f int, branchVarint bool) ([]byte, int) {
	b := c34NewBuilder(v)
	fb := byte(0)
	if f >= 0 {
		fb = byte(f)
	}
	// two spare values below the arguments keep dig/cover/bury style opcodes happy
	b.push(c34Int(0))
	b.push(c34Int(0))

	name := shape.Name
	var args []c34Val
	if ov := c34ArgOverride(name, fb); ov != nil {
		args = ov
	} else {
		for _, t := range shape.Args {
			args = append(args, c34ArgByType(t))
		}
	}
	imms := make([][]byte, len(shape.Imms))
	for i, im := range shape.Imms {
		imms[i] = c34ImmBytes(im.Enc)
	}
	if shape.FieldImm >= 0 && f >= 0 {
		imms[shape.FieldImm] = []byte{fb}
	}

	pay := func() { // itxn_begin; int pay; itxn_field TypeEnum
		b.body = append(b.body, 0xb1)
		b.push(c34Int(1))
		b.body = append(b.body, 0xb2, byte(TypeEnum))
	}
	switch name {
	case "retsub":
		b.callsubNext(branchVarint)
	case "proto":
		b.callsubNext(branchVarint)
	case "frame_dig":
		b.callsubNext(branchVarint)
		b.body = append(b.body, protoByte, 0, 0)
		b.push(c34Int(0))
	case "frame_bury":
		b.callsubNext(branchVarint)
		b.body = append(b.body, protoByte, 0, 0)
		b.push(c34Int(0))
	case "bury":
		imms[0] = []byte{1}
		args = []c34Val{c34Int(0), c34Int(0)}
	case "itxn_field":
		b.body = append(b.body, 0xb1)
		if fs, ok := shape.Fields[fb]; ok {
			args = []c34Val{c34ItxnFieldArg(fs)}
		}
	case "itxn_submit", "itxn_next":
		pay()
	case "itxn", "itxna", "itxnas", "gitxn", "gitxna", "gitxnas":
		pay()
		b.body = append(b.body, 0xb3)
	}
	for _, a := range args {
		b.push(a)
	}
	at := len(b.body)
	b.body = append(b.body, byte(shape.Key>>8))
	if shape.Key&0xff != 0 {
		b.body = append(b.body, byte(shape.Key))
	}
	for _, im := range imms {
		b.body = append(b.body, im...)
	}
	b.body = append(b.body, 0x21, 0x00) // trailer: a v1 instruction, so that a branch with offset 0 has a target
	return b.finish(at)
}

// generic attempts for an opcode byte that no specification knows
func c34UnknownPrograms(v uint64, key uint16) [][2]any {
	var out [][2]any
	for shape := 0; shape < 4; shape++ {
		b := c34NewBuilder(v)
		for i := 0; i < 6; i++ {
			switch shape {
			case 0:
				b.push(c34Int(1))
			case 1:
				b.push(c34Bytes([]byte("AAAAAAAA")))
			case 2:
				if i%2 == 0 {
					b.push(c34Int(1))
				} else {
					b.push(c34Bytes([]byte("AAAAAAAA")))
				}
			case 3:
				if i%2 == 1 {
					b.push(c34Int(1))
				} else {
					b.push(c34Bytes([]byte("AAAAAAAA")))
				}
			}
		}
		at := len(b.body)
		b.body = append(b.body, byte(key>>8))
		if key&0xff != 0 {
			b.body = append(b.body, byte(key))
		}
		b.body = append(b.body, 0x00, 0x00, 0x21, 0x00)
		p, pc := b.finish(at)
		out = append(out, [2]any{p, pc})
	}
	return out
}

// ---------------------------------------------------------------------------------------------
// running a program and observing whether the instruction at a pc completed

type c34Tracer struct {
	NullEvalTracer
	target   int
	cur      int
	done     bool // instruction at target completed without error (at least once)
	failed   bool // instruction at target returned an error
	failMsg  string
	visited  []int
	maxVisit int
}

func (t *c34Tracer) BeforeOpcode(cx *EvalContext) {
	t.cur = cx.pc
	if len(t.visited) < t.maxVisit {
		t.visited = append(t.visited, cx.pc)
	}
}

func (t *c34Tracer) AfterOpcode(cx *EvalContext, err error) {
	if t.cur == t.target {
		if err == nil {
			t.done = true
		} else {
			t.failed = true
			t.failMsg = err.Error()
		}
	}
}

func c34Proto(budget int) *config.ConsensusParams {
	return makeTestProto(func(p *config.ConsensusParams) {
		p.MaxAppProgramCost = budget
		p.LogicSigMaxCost = uint64(budget)
		p.MaxBoxSize = 1000
		p.BytesPerBoxReference = 1000
	})
}

type c34Result struct {
	checkErr error
	evalErr  error
	pass     bool
	executed bool // the instruction under test ran to completion
	failMsg  string
	visited  []int
}

func c34Run(program []byte, target int, mode RunMode, trace int, budget int) c34Result {
	tr := &c34Tracer{target: target, maxVisit: trace}
	proto := c34Proto(budget)
	var res c34Result
	// The same ledger state backs both modes. Signature evaluation has no ledger in production; giving
	// it one here removes the accidental second line of defence (nil ledger panic) so that the mode
	// gate itself is what the monitor observes. Likewise application-mode transactions carry
	// logicsig arguments so that `arg` would work if its mode gate were missing.
	ledger := NewLedger(map[basics.Address]uint64{c34Sender: 1_000_000_000, basics.AppIndex(c34App).Address(): 1_000_000_000})
	ledger.NewApp(c34Sender, c34App, makeApp(10, 10, 10, 10))
	ledger.NewLocals(c34Sender, c34App)
	ledger.NewLocal(c34Sender, c34App, "k", 1)
	ledger.NewGlobal(c34App, "k", 1)
	ledger.NewAsset(c34Sender, c34Asset, basics.AssetParams{Total: 1000, UnitName: "u", AssetName: "n", URL: "x"})
	_ = ledger.NewBox(c34App, c34Box, make([]byte, 16), basics.AppIndex(c34App).Address())
	args := [][]byte{[]byte("a0"), []byte("a1"), []byte("a2"), []byte("a3")}
	if mode == ModeApp {
		t0, t1 := makeSampleAppl(c34App), makeSampleAppl(c34App)
		for _, t := range []*transactions.SignedTxn{&t0, &t1} {
			t.Txn.Boxes = []transactions.BoxRef{{Index: 0, Name: []byte(c34Box)}, {}}
			t.Txn.ApprovalProgram = []byte{0x06, 0x81, 0x01}
			t.Txn.ClearStateProgram = []byte{0x06, 0x81, 0x01}
			t.Lsig.Args = args
		}
		ep := NewAppEvalParams(transactions.WrapSignedTxnsWithAD([]transactions.SignedTxn{t0, t1}), proto, &transactions.SpecialAddresses{})
		ep.Ledger = ledger
		ep.SigLedger = ledger
		ep.Tracer = tr
		ep.pastScratch[0] = &scratchSpace{}
		ep.TxnGroup[0].ApplyData.ApplicationID = 5000
		ep.TxnGroup[0].EvalDelta.Logs = []string{"x"}
		res.checkErr = CheckContract(program, 1, ep)
		res.pass, _, res.evalErr = EvalContract(program, 1, c34App, ep)
	} else {
		t0, t1 := makeSampleTxn(), makeSampleTxn()
		for _, t := range []*transactions.SignedTxn{&t0, &t1} {
			t.Txn.Type = protocol.PaymentTx
			t.Txn.RekeyTo = basics.Address{}
			t.Lsig.Logic = program
			t.Lsig.Args = args
		}
		ep := NewSigEvalParams([]transactions.SignedTxn{t0, t1}, proto, ledger)
		ep.Ledger = ledger
		ep.EvalConstants = RuntimeEvalConstants()
		ep.appAddrCache = make(map[basics.AppIndex]basics.Address)
		ep.pastScratch[0] = &scratchSpace{}
		ep.TxnGroup[0].ApplyData.ApplicationID = 5000
		ep.Tracer = tr
		res.checkErr = CheckSignature(1, ep)
		res.pass, _, res.evalErr = EvalSignatureFull(1, ep)
	}
	res.executed = tr.done
	res.failMsg = tr.failMsg
	res.visited = tr.visited
	return res
}

func c34ModeName(m RunMode) string {
	if m == ModeApp {
		return "app"
	}
	return "sig"
}

func c34ErrStr(err error) string {
	if err == nil {
		return ""
	}
	s := err.Error()
	if i := strings.Index(s, "\n"); i >= 0 {
		s = s[:i]
	}
	if len(s) > 300 {
		s = s[:300]
	}
	return s
}

// ---------------------------------------------------------------------------------------------
// part "gating"

func TestVerifC34Gating(t *testing.T) {
	c := kit.Start(t, "C34", "gating")
	defer c.Finish()
	c.Rule("exhaustive product: program version 0..LogicVersion x {signature, application} x first opcode byte 0..255 (x second byte 0..255 for prefix opcodes) x field immediate value 0..255 for every opcode that has a field immediate in any langspec; each case is one instruction embedded in a minimal type-correct program (constants via intcblock/bytecblock so that it is expressible in v1), statically checked and evaluated with a tracer that reports whether the instruction completed; distinct = distinct (version, mode, opcode, field value, classification)")
	c.Assume("langspec_v<N>.json (committed, generated documentation) is the reference for which opcode / field / mode exists at version N; v0 is treated as v1; versions above the newest langspec are only checked for mode gating")
	c.Assume("an instruction that the tracer sees complete without error inside a program accepted by the static checker counts as 'accepted' (from v2 on any such program can be completed into an approving one by appending a constant and `return`)")
	specs := c34LoadSpecs(c)
	var specVersions []uint64
	for v := range specs {
		specVersions = append(specVersions, v)
	}
	sort.Slice(specVersions, func(i, j int) bool { return specVersions[i] < specVersions[j] })
	maxSpec := specVersions[len(specVersions)-1]
	c.Extra("langspec_versions", specVersions)

	// union: all keys ever specified, whether they have fields, which bytes are prefixes
	hasFields := map[uint16]bool{}
	prefixes := map[byte]bool{}
	known := map[uint16]bool{}
	for _, sp := range specs {
		for k, op := range sp.Ops {
			known[k] = true
			if op.Fields != nil {
				hasFields[k] = true
			}
			if k&0xff != 0 {
				prefixes[byte(k>>8)] = true
			}
		}
	}
	// shape(v,k): the specification entry describing k at the lowest version >= v that has it
	shapeFor := func(v uint64, k uint16) *c34Op {
		if v == 0 {
			v = 1
		}
		for _, sv := range specVersions {
			if sv >= v {
				if op, ok := specs[sv].Ops[k]; ok {
					return op
				}
			}
		}
		// removed later? use the newest that has it
		for i := len(specVersions) - 1; i >= 0; i-- {
			if op, ok := specs[specVersions[i]].Ops[k]; ok {
				return op
			}
		}
		return nil
	}
	branchVarintAt := func(v uint64) bool {
		// the specification says: callsub has Size 3 up to the version before varint branches
		sv := v
		if sv == 0 {
			sv = 1
		}
		if sv > maxSpec {
			sv = maxSpec
		}
		if op, ok := specs[sv].Ops[0x8800]; ok {
			return op.Size == 0
		}
		return false
	}

	type task struct {
		v    uint64
		mode RunMode
	}
	var tasks []task
	for v := uint64(0); v <= LogicVersion; v++ {
		tasks = append(tasks, task{v, ModeSig}, task{v, ModeApp})
	}

	// positive controls per (opcode key): did an in-spec use ever execute?
	var mu sync.Mutex
	posOK := map[uint16]bool{}
	posSeen := map[uint16]string{}
	fieldPosOK := map[string]bool{}
	fieldPosSeen := map[string]bool{}

	oneCase := func(tk task, key uint16, f int) {
		if c.Violations() > 40 {
			return
		}
		v, mode := tk.v, tk.mode
		sv := v
		if sv == 0 {
			sv = 1
		}
		aboveSpec := sv > maxSpec
		if aboveSpec {
			sv = maxSpec
		}
		spec := specs[sv]
		op := spec.Ops[key]
		modeBit := uint64(mode)

		// classification by the specification
		class := "in-spec"
		switch {
		case op == nil:
			class = "absent-opcode"
		case op.Modes&modeBit == 0:
			class = "wrong-mode-opcode"
		case f >= 0 && op.Fields != nil:
			fs, ok := op.Fields[byte(f)]
			if !ok {
				class = "absent-field"
			} else if fs.Modes != 0 && fs.Modes&modeBit == 0 {
				class = "wrong-mode-field"
			}
		}
		if aboveSpec && (class == "absent-opcode" || class == "absent-field") {
			class = "unspecified-version" // no reference for what v14 adds: no verdict
		}

		shape := shapeFor(v, key)
		var progs [][2]any
		if shape != nil {
			p, pc := c34Program(v, shape, f, branchVarintAt(v))
			progs = append(progs, [2]any{p, pc})
		} else {
			progs = c34UnknownPrograms(v, key)
		}
		executed := false
		var lastRes c34Result
		var lastProg []byte
		for _, pp := range progs {
			program, pc := pp[0].([]byte), pp[1].(int)
			var res c34Result
			if c.Guard("c34-eval", map[string]any{"program": hex.EncodeToString(program), "mode": c34ModeName(mode)}, func() {
				res = c34Run(program, pc, mode, 0, 200_000)
			}) {
				return
			}
			c.Eval(1)
			lastRes, lastProg = res, program
			if res.checkErr == nil && res.executed {
				executed = true
				break
			}
		}
		c.Count("cases", 1)
		c.Count("class_"+class, 1)
		c.Distinct(fmt.Sprintf("%d|%d|%04x|%d|%s", v, mode, key, f, class))
		name := ""
		if shape != nil {
			name = shape.Name
		}
		switch class {
		case "in-spec":
			mu.Lock()
			posSeen[key] = name
			if executed {
				posOK[key] = true
			}
			if f >= 0 && op.Fields != nil {
				fk := fmt.Sprintf("%s %s", name, op.Fields[byte(f)].Name)
				fieldPosSeen[fk] = true
				if executed {
					fieldPosOK[fk] = true
				}
			}
			mu.Unlock()
			if executed {
				c.Count("in_spec_executed", 1)
			} else {
				c.Count("in_spec_not_executed", 1)
			}
		case "unspecified-version":
			if executed {
				c.Count("unspecified_version_executed", 1)
				c.Observation("v%d (above newest langspec v%d) executes opcode %04x %s field %d in %s mode: no reference, no verdict", v, maxSpec, key, name, f, c34ModeName(mode))
			}
		default:
			c.Count("must_reject", 1)
			if executed {
				fname := ""
				if f >= 0 && shape != nil && shape.Fields != nil {
					fname = shape.Fields[byte(f)].Name
				}
				c.Violation(class+"-accepted", map[string]any{
					"version": v, "mode": c34ModeName(mode), "opcode": fmt.Sprintf("%04x", key), "name_in_later_spec": name,
					"field_value": f, "field_name_in_later_spec": fname, "langspec_used": sv,
					"program": hex.EncodeToString(lastProg), "check_error": c34ErrStr(lastRes.checkErr),
					"whole_program_pass": lastRes.pass, "eval_error": c34ErrStr(lastRes.evalErr),
					"meaning": "the static check passed and the evaluator completed this instruction although langspec_v" + fmt.Sprint(sv) + " does not allow it for this version/mode",
				})
			} else {
				c.Count("rejected_as_required", 1)
			}
		}
	}

	var wg sync.WaitGroup
	ch := make(chan task)
	for w := 0; w < 12; w++ {
		wg.Add(1)
		go func() {
			defer wg.Done()
			for tk := range ch {
				for b := 0; b < 256; b++ {
					key := uint16(b) << 8
					if prefixes[byte(b)] {
						// the bare prefix byte followed by an out-of-table / zero sub-opcode, and every second byte
						for s := 0; s < 256; s++ {
							oneCase(tk, key|uint16(s), -1)
						}
						continue
					}
					if hasFields[key] {
						for f := 0; f < 256; f++ {
							oneCase(tk, key, f)
						}
						continue
					}
					oneCase(tk, key, -1)
				}
			}
		}()
	}
	for _, tk := range tasks {
		ch <- tk
	}
	close(ch)
	wg.Wait()

	// blind spots: specified opcodes / fields the harness never managed to execute (no detection power there)
	var blind []string
	for k, n := range posSeen {
		if !posOK[k] {
			blind = append(blind, n)
		}
	}
	sort.Strings(blind)
	var blindFields []string
	for fk := range fieldPosSeen {
		if !fieldPosOK[fk] {
			blindFields = append(blindFields, fk)
		}
	}
	sort.Strings(blindFields)
	c.Extra("opcodes_never_executed_in_spec", blind)
	c.Extra("fields_never_executed_in_spec", blindFields)
	c.Count("opcodes_specified", len(posSeen))
	c.Count("opcodes_with_positive_control", len(posOK))
	c.Count("fields_specified", len(fieldPosSeen))
	c.Count("fields_with_positive_control", len(fieldPosOK))
	fmt.Printf("C34 gating: opcodes specified=%d executed-in-spec=%d never=%v\n", len(posSeen), len(posOK), blind)
	fmt.Printf("C34 gating: fields specified=%d executed-in-spec=%d never=%v\n", len(fieldPosSeen), len(fieldPosOK), blindFields)
	c.Sample(map[string]any{"example": "v3 program, application mode, opcode 0x78 (min_balance, v3): in-spec; same at v2: must reject"})
	c.Exhaustive()
	c.Require("must_reject", 50_000)
	c.Require("rejected_as_required", 50_000)
	c.Require("in_spec_executed", 5_000)
	c.Require("opcodes_with_positive_control", 150)
	c.Require("fields_with_positive_control", 250)
	_ = known
}

// ---------------------------------------------------------------------------------------------
// part "branch": static checker vs evaluator vs model on branch targets

type c34Instr struct {
	bytes []byte
	exec  bool // safe to execute on the way to the branch
}

// filler instructions (all valid from v1 unless noted), each leaves the stack as it found it
func c34Fillers(v uint64) []c34Instr {
	f := []c34Instr{
		{[]byte{0x23, 0x48}, true},                         // intc_1; pop     (two instructions, see split below)
		{[]byte{0x21, 0x01}, true},                         // intc 1          (followed by pop)
		{[]byte{0x33, 0x00, 0x00}, true},                   // gtxn 0 Sender   (followed by pop)
		{[]byte{0x26, 0x01, 0x03, 0xaa, 0x42, 0x88}, true}, // bytecblock with data that looks like opcodes
		{[]byte{0x34, 0x07}, true},                         // load 7          (followed by pop)
	}
	if v >= 3 {
		f = append(f, c34Instr{[]byte{0x81, 0xac, 0x02}, true})             // pushint 300
		f = append(f, c34Instr{[]byte{0x80, 0x03, 0x40, 0x00, 0x00}, true}) // pushbytes 0x400000
	}
	return f
}

type c34Layout struct {
	program []byte
	starts  map[int]bool
	brPC    int
	brSize  int
	offPos  int // position of the (first) offset byte
	kind    string
	taken   bool
	npc     int // pc following the branch instruction
	labelIx int // for switch/match: which label is exercised
	nlabels int
}

// appends an instruction and records its start; pushes that are followed by a pop
func (l *c34Layout) add(b []byte) {
	l.starts[len(l.program)] = true
	l.program = append(l.program, b...)
}

func (l *c34Layout) addFiller(in c34Instr) {
	switch in.bytes[0] {
	case 0x23: // intc_1; pop
		l.add([]byte{0x23})
		l.add([]byte{0x48})
	case 0x26: // bytecblock pushes nothing
		l.add(in.bytes)
	default:
		l.add(in.bytes)
		l.add([]byte{0x48})
	}
}

// c34BuildLayout lays out: version, intcblock 0 1, fillers, pushes, BRANCH(placeholder), fillers.
// enc: "2b" or "v1" (one byte varint) or "v2" (padded two byte varint).
func c34BuildLayout(v uint64, kind string, taken bool, pre, post []c34Instr, enc string, nlabels, labelIx int) *c34Layout {
	l := &c34Layout{starts: map[int]bool{}, kind: kind, taken: taken, nlabels: nlabels, labelIx: labelIx}
	l.program = c34Uvarint(v)
	l.add([]byte{0x20, 0x02, 0x00, 0x01}) // intcblock 0 1
	for _, in := range pre {
		l.addFiller(in)
	}
	one, zero := []byte{0x23}, []byte{0x22}
	opcode := byte(0)
	switch kind {
	case "bnz":
		opcode = 0x40
		if taken {
			l.add(one)
		} else {
			l.add(zero)
		}
	case "bz":
		opcode = 0x41
		if taken {
			l.add(zero)
		} else {
			l.add(one)
		}
	case "b":
		opcode = 0x42
	case "callsub":
		opcode = 0x88
	case "switch":
		opcode = 0x8d
		if taken && labelIx == 1 {
			l.add(one)
		} else if taken {
			l.add(zero)
		} else {
			// index beyond the table: falls through
			l.add([]byte{0x21, 0x01})
			l.add([]byte{0x21, 0x01})
			l.add([]byte{0x08}) // 1+1 = 2 >= nlabels (nlabels <= 2)
		}
	case "match":
		opcode = 0x8e
		// match list: nlabels values (0,1,..), then the value to find
		for i := 0; i < nlabels; i++ {
			if i == 0 {
				l.add(zero)
			} else {
				l.add(one)
			}
		}
		if taken && labelIx == 1 {
			l.add(one)
		} else if taken {
			l.add(zero)
		} else {
			l.add([]byte{0x21, 0x01})
			l.add([]byte{0x21, 0x01})
			l.add([]byte{0x08})
		}
	}
	l.brPC = len(l.program)
	l.starts[l.brPC] = true
	switch kind {
	case "switch", "match":
		l.program = append(l.program, opcode, byte(nlabels))
		l.offPos = len(l.program) + 2*labelIx
		for i := 0; i < nlabels; i++ {
			l.program = append(l.program, 0, 0)
		}
	default:
		l.program = append(l.program, opcode)
		l.offPos = len(l.program)
		switch enc {
		case "2b":
			l.program = append(l.program, 0, 0)
		case "v1":
			l.program = append(l.program, 0)
		case "v2":
			l.program = append(l.program, 0x80, 0)
		}
	}
	l.brSize = len(l.program) - l.brPC
	l.npc = len(l.program)
	for _, in := range post {
		l.addFiller(in)
	}
	return l
}

// setTarget writes the offset that makes the branch go to absolute position T. false if not encodable.
func (l *c34Layout) setTarget(T int, enc string) bool {
	switch {
	case l.kind == "switch" || l.kind == "match" || enc == "2b":
		off := T - l.npc
		if off < -32768 || off > 32767 {
			return false
		}
		l.program[l.offPos] = byte(uint16(int16(off)) >> 8)
		l.program[l.offPos+1] = byte(uint16(int16(off)))
		return true
	default:
		var off int
		switch {
		case T >= l.npc:
			off = T - l.npc
		case T < l.brPC:
			off = T - l.brPC
		default:
			return false // inside the instruction itself (or its own start): not expressible
		}
		zz := uint64(off<<1) ^ uint64(off>>63)
		if enc == "v1" {
			if zz > 0x7f {
				return false
			}
			l.program[l.offPos] = byte(zz)
		} else {
			if zz > 0x3fff {
				return false
			}
			l.program[l.offPos] = byte(zz&0x7f) | 0x80
			l.program[l.offPos+1] = byte(zz >> 7)
		}
		return true
	}
}

// the model: is T a legal target at version v?
func (l *c34Layout) legal(v uint64, T int, enc string) (bool, string) {
	n := len(l.program)
	if T < 0 || T > n {
		return false, "outside program"
	}
	if T == n {
		if v < 2 {
			return false, "end of program before v2"
		}
	} else if !l.starts[T] {
		return false, "not the first byte of an instruction"
	}
	if enc == "2b" && v < 4 && l.kind != "switch" && l.kind != "match" && T < l.npc {
		return false, "backward before v4"
	}
	return true, ""
}

func c34BranchKinds(v uint64) []string {
	k := []string{"bnz"}
	if v >= 2 {
		k = append(k, "bz", "b")
	}
	if v >= 4 {
		k = append(k, "callsub")
	}
	if v >= 8 {
		k = append(k, "switch", "match")
	}
	return k
}

// "Starting at v13, the offset is encoded as a binary.Varint" (documentation of bnz)
const c34VarintFrom = 13

func TestVerifC34Branch(t *testing.T) {
	c := kit.Start(t, "C34", "branch")
	defer c.Finish()
	c.Rule("for every version 1..LogicVersion and every branch instruction of that version (bnz, bz, b, callsub, switch, match; taken and not taken; two-byte, minimal varint and padded varint encodings; one or two labels): PRNG-chosen small layouts of multi-byte filler instructions before and after the branch, with the target swept over EVERY byte position from -4 to len+4 (instruction starts, immediates, embedded constant data, version byte, end of program, beyond); the static checker's verdict is compared with a prose-derived model and, when the checker accepts, the evaluator is traced: every pc it visits must be an instruction start of the layout and the pc after a taken branch must be the target; distinct = distinct (version, kind, encoding, taken, layout, target)")
	c.Assume("instruction starts are known from how the harness laid the program out; legality follows the bnz/switch documentation: inside the program (end allowed from v2), first byte of an instruction, no backward two-byte offsets before v4")
	layouts := c.N(6, 60)
	var wg sync.WaitGroup
	sem := make(chan struct{}, 12)
	for v := uint64(1); v <= LogicVersion; v++ {
		v := v
		wg.Add(1)
		sem <- struct{}{}
		go func() {
			defer wg.Done()
			defer func() { <-sem }()
			fillers := c34Fillers(v)
			encs := []string{"2b"}
			if v >= c34VarintFrom {
				encs = []string{"v1", "v2"}
			}
			for li := 0; li < layouts; li++ {
				r := c.Rand(34, v, uint64(li))
				var pre, post []c34Instr
				for i, n := 0, r.Intn(4); i < n; i++ {
					pre = append(pre, fillers[r.Intn(len(fillers))])
				}
				for i, n := 0, r.Range(1, 4); i < n; i++ {
					post = append(post, fillers[r.Intn(len(fillers))])
				}
				for _, kind := range c34BranchKinds(v) {
					for _, taken := range []bool{true, false} {
						if (kind == "b" || kind == "callsub") && !taken {
							continue
						}
						kencs := encs
						nl := []int{0}
						if kind == "switch" || kind == "match" {
							kencs = []string{"2b"}
							nl = []int{1, 2}
						}
						for _, enc := range kencs {
							for _, nlabels := range nl {
								for labelIx := 0; labelIx < max(nlabels, 1); labelIx++ {
									c34SweepTargets(c, v, kind, taken, pre, post, enc, nlabels, labelIx, li)
								}
							}
						}
					}
				}
			}
		}()
	}
	wg.Wait()
	if n := c.Counter("branch_not_reached"); n > 0 {
		c.Harness("%d generated programs failed before reaching the branch instruction (harness layout problem)", n)
	}
	c.Require("targets", 5000)
	c.Require("checker_accepts_legal", 500)
	c.Require("checker_rejects_illegal", 1000)
	c.Require("taken_branch_lands_on_target", 300)
	c.Require("targets_into_immediates", 300)
}

func c34SweepTargets(c *kit.Ctx, v uint64, kind string, taken bool, pre, post []c34Instr, enc string, nlabels, labelIx, li int) {
	base := c34BuildLayout(v, kind, taken, pre, post, enc, nlabels, labelIx)
	n := len(base.program)
	for T := -4; T <= n+4; T++ {
		if c.Violations() > 30 {
			return
		}
		l := *base
		l.program = append([]byte(nil), base.program...)
		// the unexercised label of a two-label table points at the next instruction (always legal)
		if !l.setTarget(T, enc) {
			c.Count("targets_not_encodable", 1)
			continue
		}
		legal, why := l.legal(v, T, enc)
		wit := func(extra map[string]any) map[string]any {
			var st []int
			for s := range l.starts {
				st = append(st, s)
			}
			sort.Ints(st)
			m := map[string]any{"version": v, "kind": kind, "encoding": enc, "taken": taken, "labels": nlabels, "label_index": labelIx,
				"program": hex.EncodeToString(l.program), "branch_pc": l.brPC, "target": T, "instruction_starts": st,
				"model_legal": legal, "model_reason": why, "layout_case": li}
			for k, x := range extra {
				m[k] = x
			}
			return m
		}
		var res c34Result
		if c.Guard("c34-branch", wit(nil), func() { res = c34Run(l.program, l.brPC, ModeSig, 400, 150) }) {
			continue
		}
		c.Eval(1)
		c.Count("targets", 1)
		c.Distinct(fmt.Sprintf("%d|%s|%s|%v|%d|%d|%d|%d", v, kind, enc, taken, nlabels, labelIx, li, T))
		if T >= 0 && T < n && !l.starts[T] && T != 0 {
			c.Count("targets_into_immediates", 1)
		}
		accepted := res.checkErr == nil
		switch {
		case accepted && !legal:
			c.Violation("checker-accepts-illegal-target", wit(map[string]any{"eval_error": c34ErrStr(res.evalErr), "visited": res.visited}))
			continue
		case !accepted && legal:
			c.Violation("checker-rejects-legal-target", wit(map[string]any{"check_error": c34ErrStr(res.checkErr)}))
			continue
		case !accepted:
			c.Count("checker_rejects_illegal", 1)
			continue
		}
		c.Count("checker_accepts_legal", 1)
		// evaluator must stay on instruction starts and land on the target
		for i, pc := range res.visited {
			if !l.starts[pc] {
				c.Violation("evaluator-off-instruction-boundary", wit(map[string]any{"visited": res.visited, "bad_index": i}))
				break
			}
		}
		at := -1
		for i, pc := range res.visited {
			if pc == l.brPC {
				at = i
				break
			}
		}
		if at < 0 {
			c.Count("branch_not_reached", 1)
			c.Observation("branch not reached: %v", wit(map[string]any{"visited": res.visited, "eval_error": c34ErrStr(res.evalErr)}))
			continue
		}
		if !res.executed {
			c.Violation("evaluator-rejects-checked-target", wit(map[string]any{"visited": res.visited, "branch_error": res.failMsg}))
			continue
		}
		want := l.npc
		if taken {
			want = T
		}
		if want == n {
			if at != len(res.visited)-1 {
				c.Violation("evaluator-target-differs", wit(map[string]any{"visited": res.visited, "want_next_pc": "end of program"}))
			} else if taken {
				c.Count("taken_branch_lands_on_target", 1)
			}
			continue
		}
		if at+1 >= len(res.visited) || res.visited[at+1] != want {
			c.Violation("evaluator-target-differs", wit(map[string]any{"visited": res.visited, "want_next_pc": want}))
			continue
		}
		if taken {
			c.Count("taken_branch_lands_on_target", 1)
		} else {
			c.Count("untaken_branch_falls_through", 1)
		}
	}
}
