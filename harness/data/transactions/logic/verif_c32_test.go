package logic

// C32: AVM arithmetic / comparison / bitwise / byte-math / conversion / wide-arithmetic opcodes
// return the mathematically specified value for all operands and fail exactly when the
// language specification says so.
//
// Oracle: a math/big (or plain byte-slice) reference per opcode, written from the opcode
// documentation shipped with the package (langspec_v*.json "Doc"/"DocExtra", NamedTypes bounds).
// Each case is a tiny program  [version] intcblock bytecblock  intc(sentinel) <arg loads> <op>
// evaluated by the real interpreter (EvalSignatureFull); the stack before/after the opcode and
// the step error are captured through the production EvalTracer.
//
// The oracle is deliberately not stricter than the documentation:
//   - byte-math results (b+ b- b* b/ b% bsqrt) are compared numerically; a non-minimal encoding
//     is only recorded as an observation (the minimal-encoding rule is not in the shipped docs);
//   - operands outside a documented domain whose failure is not documented (setbit C>1,
//     setbyte C>255, == on mixed types) are not generated.

import (
	"bytes"
	"encoding/binary"
	"encoding/hex"
	"encoding/json"
	"errors"
	"fmt"
	"math/big"
	"os"
	"runtime"
	"runtime/debug"
	"strings"
	"sync"
	"testing"

	"github.com/algorand/go-algorand/data/transactions"
	"verif.local/kit"
)

// ---------------------------------------------------------------------------------------------
// values

type c32Val struct {
	IsBytes bool
	U       uint64
	B       []byte
}

func c32U(x uint64) c32Val  { return c32Val{U: x} }
func c32B(b []byte) c32Val  { return c32Val{IsBytes: true, B: append([]byte{}, b...)} }
func c32Bool(x bool) c32Val { return c32Val{U: boolToUint(x)} }

func (v c32Val) String() string {
	if v.IsBytes {
		if len(v.B) > 80 {
			return fmt.Sprintf("0x%s…(%d bytes)", hex.EncodeToString(v.B[:40]), len(v.B))
		}
		return "0x" + hex.EncodeToString(v.B)
	}
	return fmt.Sprintf("%d", v.U)
}

func c32Vals(vs []c32Val) string {
	s := make([]string, len(vs))
	for i, v := range vs {
		s[i] = v.String()
	}
	return "[" + strings.Join(s, " ") + "]"
}

func (v c32Val) big() *big.Int {
	if v.IsBytes {
		return new(big.Int).SetBytes(v.B)
	}
	return new(big.Int).SetUint64(v.U)
}

var (
	c32Two64  = new(big.Int).Lsh(big.NewInt(1), 64)
	c32Two128 = new(big.Int).Lsh(big.NewInt(1), 128)
	c32Mask64 = new(big.Int).Sub(c32Two64, big.NewInt(1))
)

func c32Lo(x *big.Int) uint64 { return new(big.Int).And(x, c32Mask64).Uint64() }
func c32Hi(x *big.Int) uint64 { return new(big.Int).Rsh(x, 64).Uint64() }
func c32W(hi, lo uint64) *big.Int {
	x := new(big.Int).SetUint64(hi)
	x.Lsh(x, 64)
	return x.Add(x, new(big.Int).SetUint64(lo))
}

// ---------------------------------------------------------------------------------------------
// reference semantics, from the opcode documentation

// c32Num marks a result that is compared numerically (byte-math), not bytewise.
type c32Out struct {
	vals    []c32Val
	numeric bool // byte-math result: compare as big-endian unsigned integers
	maxLen  int  // documented bound on the result length (0 = none beyond 4096)
}

type c32Ref func(a []c32Val, imm []byte) (out c32Out, fail bool)

type c32Spec struct {
	name  string
	args  string // i=uint64, b=[]byte (any length ≤4096), I=bigint operand; used to build operand tuples
	nimm  int
	shape string // operand generator
	ref   c32Ref
}

func c32One(v c32Val) c32Out { return c32Out{vals: []c32Val{v}} }

func c32UintBin(f func(a, b *big.Int) (*big.Int, bool)) c32Ref {
	return func(a []c32Val, _ []byte) (c32Out, bool) {
		r, fail := f(a[0].big(), a[1].big())
		if fail {
			return c32Out{}, true
		}
		if r.Sign() < 0 || r.Cmp(c32Two64) >= 0 {
			return c32Out{}, true
		}
		return c32One(c32U(r.Uint64())), false
	}
}

func c32Cmp(f func(c int) bool) c32Ref {
	return func(a []c32Val, _ []byte) (c32Out, bool) {
		return c32One(c32Bool(f(a[0].big().Cmp(a[1].big())))), false
	}
}

// byte-math operands are "bigint": at most 64 bytes (NamedTypes bound in the langspec)
func c32TooLong(a []c32Val) bool {
	for _, v := range a {
		if v.IsBytes && len(v.B) > 64 {
			return true
		}
	}
	return false
}

func c32ByteBin(maxLen int, f func(a, b *big.Int) (*big.Int, bool)) c32Ref {
	return func(a []c32Val, _ []byte) (c32Out, bool) {
		if c32TooLong(a) {
			return c32Out{}, true
		}
		r, fail := f(a[0].big(), a[1].big())
		if fail || r.Sign() < 0 {
			return c32Out{}, true
		}
		return c32Out{vals: []c32Val{c32B(r.Bytes())}, numeric: true, maxLen: maxLen}, false
	}
}

func c32ByteCmp(f func(c int) bool) c32Ref {
	return func(a []c32Val, _ []byte) (c32Out, bool) {
		if c32TooLong(a) {
			return c32Out{}, true
		}
		return c32One(c32Bool(f(a[0].big().Cmp(a[1].big())))), false
	}
}

func c32BitwiseBytes(f func(x, y byte) byte) c32Ref {
	return func(a []c32Val, _ []byte) (c32Out, bool) {
		x, y := a[0].B, a[1].B
		n := max(len(x), len(y))
		px := append(make([]byte, n-len(x)), x...)
		py := append(make([]byte, n-len(y)), y...)
		out := make([]byte, n)
		for i := range out {
			out[i] = f(px[i], py[i])
		}
		return c32One(c32B(out)), false
	}
}

func c32ExtractUint(n int) c32Ref {
	return func(a []c32Val, _ []byte) (c32Out, bool) {
		end := new(big.Int).Add(a[1].big(), big.NewInt(int64(n)))
		if end.Cmp(big.NewInt(int64(len(a[0].B)))) > 0 {
			return c32Out{}, true
		}
		s := int(a[1].U)
		return c32One(c32U(new(big.Int).SetBytes(a[0].B[s : s+n]).Uint64())), false
	}
}

func c32Range(x []byte, start, end *big.Int) (c32Out, bool) {
	l := big.NewInt(int64(len(x)))
	if end.Cmp(start) < 0 || start.Cmp(l) > 0 || end.Cmp(l) > 0 {
		return c32Out{}, true
	}
	return c32One(c32B(x[start.Int64():end.Int64()])), false
}

func c32Replace(orig, repl []byte, start *big.Int) (c32Out, bool) {
	end := new(big.Int).Add(start, big.NewInt(int64(len(repl))))
	if end.Cmp(big.NewInt(int64(len(orig)))) > 0 {
		return c32Out{}, true
	}
	out := append([]byte{}, orig...)
	copy(out[start.Int64():], repl)
	return c32One(c32B(out)), false
}

func c32Pow(a, b uint64, limit *big.Int) (*big.Int, bool) {
	if a == 0 && b == 0 {
		return nil, true
	}
	if a == 0 {
		return big.NewInt(0), false
	}
	if a == 1 || b == 0 {
		return big.NewInt(1), false
	}
	if b >= uint64(limit.BitLen()) { // a >= 2: a^b >= 2^b >= limit
		return nil, true
	}
	r := new(big.Int).Exp(new(big.Int).SetUint64(a), new(big.Int).SetUint64(b), nil)
	if r.Cmp(limit) >= 0 {
		return nil, true
	}
	return r, false
}

func c32Specs() []c32Spec {
	bi := big.NewInt
	specs := []c32Spec{
		{"+", "ii", 0, "uu", c32UintBin(func(a, b *big.Int) (*big.Int, bool) { return new(big.Int).Add(a, b), false })},
		{"-", "ii", 0, "uu", c32UintBin(func(a, b *big.Int) (*big.Int, bool) { return new(big.Int).Sub(a, b), false })},
		{"*", "ii", 0, "uu", c32UintBin(func(a, b *big.Int) (*big.Int, bool) { return new(big.Int).Mul(a, b), false })},
		{"/", "ii", 0, "uu", c32UintBin(func(a, b *big.Int) (*big.Int, bool) {
			if b.Sign() == 0 {
				return nil, true
			}
			return new(big.Int).Quo(a, b), false
		})},
		{"%", "ii", 0, "uu", c32UintBin(func(a, b *big.Int) (*big.Int, bool) {
			if b.Sign() == 0 {
				return nil, true
			}
			return new(big.Int).Rem(a, b), false
		})},
		{"<", "ii", 0, "uu", c32Cmp(func(c int) bool { return c < 0 })},
		{">", "ii", 0, "uu", c32Cmp(func(c int) bool { return c > 0 })},
		{"<=", "ii", 0, "uu", c32Cmp(func(c int) bool { return c <= 0 })},
		{">=", "ii", 0, "uu", c32Cmp(func(c int) bool { return c >= 0 })},
		{"&&", "ii", 0, "uu", func(a []c32Val, _ []byte) (c32Out, bool) { return c32One(c32Bool(a[0].U != 0 && a[1].U != 0)), false }},
		{"||", "ii", 0, "uu", func(a []c32Val, _ []byte) (c32Out, bool) { return c32One(c32Bool(a[0].U != 0 || a[1].U != 0)), false }},
		{"==", "ii", 0, "uu", c32Cmp(func(c int) bool { return c == 0 })},
		{"!=", "ii", 0, "uu", c32Cmp(func(c int) bool { return c != 0 })},
		{"==", "bb", 0, "bb", func(a []c32Val, _ []byte) (c32Out, bool) { return c32One(c32Bool(bytes.Equal(a[0].B, a[1].B))), false }},
		{"!=", "bb", 0, "bb", func(a []c32Val, _ []byte) (c32Out, bool) { return c32One(c32Bool(!bytes.Equal(a[0].B, a[1].B))), false }},
		{"!", "i", 0, "u", func(a []c32Val, _ []byte) (c32Out, bool) { return c32One(c32Bool(a[0].U == 0)), false }},
		{"~", "i", 0, "u", func(a []c32Val, _ []byte) (c32Out, bool) {
			return c32One(c32U(new(big.Int).Sub(c32Mask64, a[0].big()).Uint64())), false
		}},
		{"|", "ii", 0, "uu", c32UintBin(func(a, b *big.Int) (*big.Int, bool) { return new(big.Int).Or(a, b), false })},
		{"&", "ii", 0, "uu", c32UintBin(func(a, b *big.Int) (*big.Int, bool) { return new(big.Int).And(a, b), false })},
		{"^", "ii", 0, "uu", c32UintBin(func(a, b *big.Int) (*big.Int, bool) { return new(big.Int).Xor(a, b), false })},
		{"mulw", "ii", 0, "uu", func(a []c32Val, _ []byte) (c32Out, bool) {
			p := new(big.Int).Mul(a[0].big(), a[1].big())
			return c32Out{vals: []c32Val{c32U(c32Hi(p)), c32U(c32Lo(p))}}, false
		}},
		{"addw", "ii", 0, "uu", func(a []c32Val, _ []byte) (c32Out, bool) {
			s := new(big.Int).Add(a[0].big(), a[1].big())
			return c32Out{vals: []c32Val{c32U(c32Hi(s)), c32U(c32Lo(s))}}, false
		}},
		{"divmodw", "iiii", 0, "uuuu", func(a []c32Val, _ []byte) (c32Out, bool) {
			n, d := c32W(a[0].U, a[1].U), c32W(a[2].U, a[3].U)
			if d.Sign() == 0 {
				return c32Out{}, true
			}
			q, r := new(big.Int).QuoRem(n, d, new(big.Int))
			return c32Out{vals: []c32Val{c32U(c32Hi(q)), c32U(c32Lo(q)), c32U(c32Hi(r)), c32U(c32Lo(r))}}, false
		}},
		{"divw", "iii", 0, "uuu", func(a []c32Val, _ []byte) (c32Out, bool) {
			n, d := c32W(a[0].U, a[1].U), a[2].big()
			if d.Sign() == 0 {
				return c32Out{}, true
			}
			q := new(big.Int).Quo(n, d)
			if q.Cmp(c32Two64) >= 0 {
				return c32Out{}, true
			}
			return c32One(c32U(q.Uint64())), false
		}},
		{"exp", "ii", 0, "exp", func(a []c32Val, _ []byte) (c32Out, bool) {
			r, fail := c32Pow(a[0].U, a[1].U, c32Two64)
			if fail {
				return c32Out{}, true
			}
			return c32One(c32U(r.Uint64())), false
		}},
		{"expw", "ii", 0, "exp", func(a []c32Val, _ []byte) (c32Out, bool) {
			r, fail := c32Pow(a[0].U, a[1].U, c32Two128)
			if fail {
				return c32Out{}, true
			}
			return c32Out{vals: []c32Val{c32U(c32Hi(r)), c32U(c32Lo(r))}}, false
		}},
		{"sqrt", "i", 0, "u", func(a []c32Val, _ []byte) (c32Out, bool) {
			return c32One(c32U(new(big.Int).Sqrt(a[0].big()).Uint64())), false
		}},
		{"shl", "ii", 0, "shift", func(a []c32Val, _ []byte) (c32Out, bool) {
			if a[1].U > 63 {
				return c32Out{}, true
			}
			return c32One(c32U(c32Lo(new(big.Int).Lsh(a[0].big(), uint(a[1].U))))), false
		}},
		{"shr", "ii", 0, "shift", func(a []c32Val, _ []byte) (c32Out, bool) {
			if a[1].U > 63 {
				return c32Out{}, true
			}
			return c32One(c32U(new(big.Int).Rsh(a[0].big(), uint(a[1].U)).Uint64())), false
		}},
		{"bitlen", "i", 0, "u", func(a []c32Val, _ []byte) (c32Out, bool) { return c32One(c32U(uint64(a[0].big().BitLen()))), false }},
		{"bitlen", "b", 0, "b", func(a []c32Val, _ []byte) (c32Out, bool) { return c32One(c32U(uint64(a[0].big().BitLen()))), false }},
		{"itob", "i", 0, "u", func(a []c32Val, _ []byte) (c32Out, bool) {
			return c32One(c32B(a[0].big().FillBytes(make([]byte, 8)))), false
		}},
		{"btoi", "b", 0, "b", func(a []c32Val, _ []byte) (c32Out, bool) {
			if len(a[0].B) > 8 {
				return c32Out{}, true
			}
			return c32One(c32U(a[0].big().Uint64())), false
		}},
		{"len", "b", 0, "b", func(a []c32Val, _ []byte) (c32Out, bool) { return c32One(c32U(uint64(len(a[0].B)))), false }},
		{"getbit", "ii", 0, "ubit", func(a []c32Val, _ []byte) (c32Out, bool) {
			if a[1].U >= 64 {
				return c32Out{}, true
			}
			return c32One(c32U(uint64(a[0].big().Bit(int(a[1].U))))), false
		}},
		{"getbit", "bi", 0, "bbit", func(a []c32Val, _ []byte) (c32Out, bool) {
			if a[1].big().Cmp(bi(int64(8*len(a[0].B)))) >= 0 {
				return c32Out{}, true
			}
			// index 0 is the leftmost bit of the leftmost byte
			return c32One(c32U(uint64(a[0].B[a[1].U/8]>>(7-a[1].U%8)) & 1)), false
		}},
		{"setbit", "iii", 0, "usetbit", func(a []c32Val, _ []byte) (c32Out, bool) {
			if a[1].U >= 64 {
				return c32Out{}, true
			}
			return c32One(c32U(new(big.Int).SetBit(a[0].big(), int(a[1].U), uint(a[2].U)).Uint64())), false
		}},
		{"setbit", "bii", 0, "bsetbit", func(a []c32Val, _ []byte) (c32Out, bool) {
			if a[1].big().Cmp(bi(int64(8*len(a[0].B)))) >= 0 {
				return c32Out{}, true
			}
			out := append([]byte{}, a[0].B...)
			m := byte(0x80) >> (a[1].U % 8)
			if a[2].U == 1 {
				out[a[1].U/8] |= m
			} else {
				out[a[1].U/8] &^= m
			}
			return c32One(c32B(out)), false
		}},
		{"getbyte", "bi", 0, "bidx", func(a []c32Val, _ []byte) (c32Out, bool) {
			if a[1].U >= uint64(len(a[0].B)) {
				return c32Out{}, true
			}
			return c32One(c32U(uint64(a[0].B[a[1].U]))), false
		}},
		{"setbyte", "bii", 0, "bsetbyte", func(a []c32Val, _ []byte) (c32Out, bool) {
			if a[1].U >= uint64(len(a[0].B)) {
				return c32Out{}, true
			}
			out := append([]byte{}, a[0].B...)
			out[a[1].U] = byte(a[2].U)
			return c32One(c32B(out)), false
		}},
		{"extract_uint16", "bi", 0, "bidx", c32ExtractUint(2)},
		{"extract_uint32", "bi", 0, "bidx", c32ExtractUint(4)},
		{"extract_uint64", "bi", 0, "bidx", c32ExtractUint(8)},
		{"concat", "bb", 0, "concat", func(a []c32Val, _ []byte) (c32Out, bool) {
			if len(a[0].B)+len(a[1].B) > 4096 {
				return c32Out{}, true
			}
			return c32One(c32B(append(append([]byte{}, a[0].B...), a[1].B...))), false
		}},
		{"substring3", "bii", 0, "brange", func(a []c32Val, _ []byte) (c32Out, bool) { return c32Range(a[0].B, a[1].big(), a[2].big()) }},
		{"substring", "b", 2, "bimm", func(a []c32Val, imm []byte) (c32Out, bool) {
			return c32Range(a[0].B, bi(int64(imm[0])), bi(int64(imm[1])))
		}},
		{"extract3", "bii", 0, "brange", func(a []c32Val, _ []byte) (c32Out, bool) {
			return c32Range(a[0].B, a[1].big(), new(big.Int).Add(a[1].big(), a[2].big()))
		}},
		{"extract", "b", 2, "bimm", func(a []c32Val, imm []byte) (c32Out, bool) {
			s, l := bi(int64(imm[0])), bi(int64(imm[1]))
			if imm[1] == 0 { // "If L is 0, then extract to the end of the string"
				return c32Range(a[0].B, s, bi(int64(len(a[0].B))))
			}
			return c32Range(a[0].B, s, new(big.Int).Add(s, l))
		}},
		{"replace2", "bb", 1, "breplimm", func(a []c32Val, imm []byte) (c32Out, bool) { return c32Replace(a[0].B, a[1].B, bi(int64(imm[0]))) }},
		{"replace3", "bib", 0, "brepl", func(a []c32Val, _ []byte) (c32Out, bool) { return c32Replace(a[0].B, a[2].B, a[1].big()) }},

		// byte math: operands are big-endian unsigned integers of at most 64 bytes
		{"b+", "II", 0, "BB", c32ByteBin(0, func(a, b *big.Int) (*big.Int, bool) { return new(big.Int).Add(a, b), false })},
		{"b-", "II", 0, "BB", c32ByteBin(64, func(a, b *big.Int) (*big.Int, bool) { return new(big.Int).Sub(a, b), false })},
		{"b*", "II", 0, "BB", c32ByteBin(0, func(a, b *big.Int) (*big.Int, bool) { return new(big.Int).Mul(a, b), false })},
		{"b/", "II", 0, "BB", c32ByteBin(64, func(a, b *big.Int) (*big.Int, bool) {
			if b.Sign() == 0 {
				return nil, true
			}
			return new(big.Int).Quo(a, b), false
		})},
		{"b%", "II", 0, "BB", c32ByteBin(64, func(a, b *big.Int) (*big.Int, bool) {
			if b.Sign() == 0 {
				return nil, true
			}
			return new(big.Int).Rem(a, b), false
		})},
		{"b<", "II", 0, "BB", c32ByteCmp(func(c int) bool { return c < 0 })},
		{"b>", "II", 0, "BB", c32ByteCmp(func(c int) bool { return c > 0 })},
		{"b<=", "II", 0, "BB", c32ByteCmp(func(c int) bool { return c <= 0 })},
		{"b>=", "II", 0, "BB", c32ByteCmp(func(c int) bool { return c >= 0 })},
		{"b==", "II", 0, "BB", c32ByteCmp(func(c int) bool { return c == 0 })},
		{"b!=", "II", 0, "BB", c32ByteCmp(func(c int) bool { return c != 0 })},
		{"b|", "bb", 0, "bb", c32BitwiseBytes(func(x, y byte) byte { return x | y })},
		{"b&", "bb", 0, "bb", c32BitwiseBytes(func(x, y byte) byte { return x & y })},
		{"b^", "bb", 0, "bb", c32BitwiseBytes(func(x, y byte) byte { return x ^ y })},
		{"b~", "b", 0, "b", func(a []c32Val, _ []byte) (c32Out, bool) {
			out := make([]byte, len(a[0].B))
			for i, x := range a[0].B {
				out[i] = ^x
			}
			return c32One(c32B(out)), false
		}},
		{"bsqrt", "I", 0, "B", func(a []c32Val, _ []byte) (c32Out, bool) {
			if c32TooLong(a) {
				return c32Out{}, true
			}
			return c32Out{vals: []c32Val{c32B(new(big.Int).Sqrt(a[0].big()).Bytes())}, numeric: true, maxLen: 64}, false
		}},
		{"bzero", "i", 0, "bzero", func(a []c32Val, _ []byte) (c32Out, bool) {
			if a[0].U > 4096 {
				return c32Out{}, true
			}
			return c32One(c32B(make([]byte, a[0].U))), false
		}},
	}
	return specs
}

// ---------------------------------------------------------------------------------------------
// operand sets

func c32UintBoundary() []uint64 {
	m := ^uint64(0)
	vs := []uint64{0, 1, 2, 3, 7, 8, 9, 63, 64, 65, 127, 128, 255, 256, 257, 4095, 4096, 4097, 65535, 65536,
		1<<31 - 1, 1 << 31, 1<<31 + 1, 1<<32 - 1, 1 << 32, 1<<32 + 1, 1<<63 - 1, 1 << 63, 1<<63 + 1, m - 1, m,
		(1<<32 - 1) * (1<<32 - 1), (1<<32-1)*(1<<32-1) - 1, (1<<32-1)*(1<<32-1) + 1, // perfect square near 2^64 and neighbours
		0xffffffff00000000, 0x00000000ffffffff, 0xaaaaaaaaaaaaaaaa, 0x5555555555555555,
		10000000000000000000, 12157665459056928801 /* 3^40 */, 6074000999 /* ~ 2^32.5 */, 4294967296 * 3}
	return vs
}

// a smaller set for 3- and 4-operand ops
func c32UintSmall() []uint64 {
	m := ^uint64(0)
	return []uint64{0, 1, 2, 3, 1<<32 - 1, 1 << 32, 1<<63 - 1, 1 << 63, m - 1, m}
}

func c32Rep(b byte, n int) []byte { return bytes.Repeat([]byte{b}, n) }

func c32Cat(parts ...[]byte) []byte {
	var out []byte
	for _, p := range parts {
		out = append(out, p...)
	}
	return out
}

// byte operands for byte-math (bigint): lengths around 0,1,8,32,63,64,65, with leading zeros
func c32BigBoundary() [][]byte {
	var vs [][]byte
	for _, n := range []int{0, 1, 2, 7, 8, 9, 31, 32, 33, 63, 64, 65} {
		if n == 0 {
			vs = append(vs, []byte{})
			continue
		}
		vs = append(vs, c32Rep(0, n), c32Rep(0xff, n), c32Cat([]byte{1}, c32Rep(0, n-1)), c32Cat(c32Rep(0, n-1), []byte{1}))
		if n >= 2 {
			vs = append(vs, c32Cat([]byte{0}, c32Rep(0xff, n-1)), c32Cat(c32Rep(0xff, n-1), []byte{0xfe}))
		}
	}
	// perfect squares and neighbours for bsqrt / division edge cases
	sq := new(big.Int).Lsh(big.NewInt(1), 255)
	sq.Sub(sq, big.NewInt(19))
	sq2 := new(big.Int).Mul(sq, sq)
	vs = append(vs, sq.Bytes(), sq2.Bytes(), new(big.Int).Sub(sq2, big.NewInt(1)).Bytes(), new(big.Int).Add(sq2, big.NewInt(1)).Bytes())
	vs = append(vs, c32Cat(c32Rep(0, 30), sq.Bytes()), []byte{2}, []byte{0, 2}, []byte{3}, []byte{0x80}, c32Rep(0, 66), c32Cat(c32Rep(0, 64), []byte{1}))
	return vs
}

// byte operands for bitwise / conversion ops: any length up to 4096
func c32BytesBoundary(r *kit.Rand) [][]byte {
	vs := c32BigBoundary()
	for _, n := range []int{66, 100, 255, 256, 2047, 2048, 2049, 4095, 4096} {
		vs = append(vs, c32Rep(0, n), c32Rep(0xff, n), r.Bytes(n))
	}
	return vs
}

func c32RandBig(r *kit.Rand) []byte {
	var n int
	switch r.Intn(10) {
	case 0:
		n = r.Range(65, 70)
	case 1:
		n = 64
	case 2:
		n = r.Range(0, 8)
	default:
		n = r.Range(0, 64)
	}
	b := r.Bytes(n)
	if n > 0 && r.Chance(1, 4) { // leading zeros
		z := r.Intn(n + 1)
		for i := 0; i < z; i++ {
			b[i] = 0
		}
	}
	if n > 0 && r.Chance(1, 8) {
		for i := range b {
			b[i] = 0xff
		}
	}
	return b
}

func c32RandBytes(r *kit.Rand) []byte {
	switch r.Intn(8) {
	case 0:
		return r.Bytes([]int{0, 1, 8, 4095, 4096, 2048}[r.Intn(6)])
	case 1:
		return r.Bytes(r.Range(0, 4096))
	default:
		return c32RandBig(r)
	}
}

// index values around a length L (byte or bit indices)
func c32IdxAround(l uint64) []uint64 {
	m := ^uint64(0)
	vs := []uint64{0, 1, 2, 7, 8, 9, l, l + 1, l + 2, l + 7, l + 8, 1 << 31, 1<<32 - 1, 1 << 32, 1 << 63, m - 8, m - 7, m - 3, m - 1, m}
	for _, d := range []uint64{1, 2, 3, 4, 7, 8, 9} {
		if l >= d {
			vs = append(vs, l-d)
		}
	}
	return vs
}

type c32Case struct {
	args []c32Val
	imm  []byte
}

// c32Cases builds the operand tuples for one op: the complete boundary product plus nrand random tuples.
func c32Cases(sp c32Spec, r *kit.Rand, nrand int, emit func(c32Case)) {
	add := func(imm []byte, vs ...c32Val) { emit(c32Case{args: vs, imm: imm}) }
	ub := c32UintBoundary()
	us := c32UintSmall()
	switch sp.shape {
	case "u":
		for _, a := range ub {
			add(nil, c32U(a))
		}
		for k := uint(0); k < 64; k++ { // every power of two and neighbours; every square boundary
			add(nil, c32U(1<<k))
			add(nil, c32U(1<<k-1))
			add(nil, c32U(1<<k+1))
		}
		for i := 0; i < nrand; i++ {
			x := r.Boundary64()
			if r.Chance(1, 4) { // perfect squares and neighbours
				s := r.Uint64() >> 32
				x = s*s + uint64(r.Intn(3)) - 1
			}
			add(nil, c32U(x))
		}
	case "uu":
		for _, a := range ub {
			for _, b := range ub {
				add(nil, c32U(a), c32U(b))
			}
		}
		for i := 0; i < nrand; i++ {
			a, b := r.Boundary64(), r.Boundary64()
			switch r.Intn(6) {
			case 0: // sums/differences around the 2^64 boundary
				b = ^a + uint64(r.Intn(3)) - 1
			case 1: // products around 2^64
				if a != 0 {
					b = ^uint64(0)/a + uint64(r.Intn(3)) - 1
				}
			case 2:
				b = a + uint64(r.Intn(3)) - 1
			}
			add(nil, c32U(a), c32U(b))
		}
	case "shift":
		for _, a := range ub {
			for b := uint64(0); b <= 66; b++ {
				add(nil, c32U(a), c32U(b))
			}
			for _, b := range []uint64{127, 128, 255, 256, 1 << 32, 1 << 63, ^uint64(0)} {
				add(nil, c32U(a), c32U(b))
			}
		}
		for i := 0; i < nrand; i++ {
			b := uint64(r.Intn(70))
			if r.Chance(1, 10) {
				b = r.Boundary64()
			}
			add(nil, c32U(r.Boundary64()), c32U(b))
		}
	case "exp":
		for _, a := range ub {
			for _, b := range ub {
				add(nil, c32U(a), c32U(b))
			}
		}
		for a := uint64(0); a <= 17; a++ { // every small base with every exponent around the overflow point
			for b := uint64(0); b <= 130; b++ {
				add(nil, c32U(a), c32U(b))
			}
		}
		for i := 0; i < nrand; i++ {
			a := r.Boundary64()
			if r.Bool() {
				a = uint64(r.Intn(70000))
			}
			add(nil, c32U(a), c32U(uint64(r.Intn(140))))
		}
	case "uuu": // divw: A,B / C
		for _, a := range us {
			for _, b := range us {
				for _, c := range us {
					add(nil, c32U(a), c32U(b), c32U(c))
				}
			}
		}
		for i := 0; i < nrand; i++ {
			c := r.Boundary64()
			a := r.Boundary64()
			switch r.Intn(4) {
			case 0: // around the overflow condition: quotient >= 2^64 iff A >= C
				a = c + uint64(r.Intn(3)) - 1
			case 1:
				if c != 0 {
					a = r.Uint64() % c
				}
			}
			add(nil, c32U(a), c32U(r.Boundary64()), c32U(c))
		}
	case "uuuu": // divmodw
		for _, a := range us {
			for _, b := range us {
				for _, c := range us {
					for _, d := range us {
						add(nil, c32U(a), c32U(b), c32U(c), c32U(d))
					}
				}
			}
		}
		for i := 0; i < nrand; i++ {
			c := r.Boundary64()
			if r.Bool() {
				c = 0
			}
			add(nil, c32U(r.Boundary64()), c32U(r.Boundary64()), c32U(c), c32U(r.Boundary64()))
		}
	case "B":
		for _, a := range c32BigBoundary() {
			add(nil, c32B(a))
		}
		for i := 0; i < nrand; i++ {
			a := c32RandBig(r)
			if r.Chance(1, 3) && len(a) <= 32 { // perfect squares and neighbours
				x := new(big.Int).SetBytes(a)
				x.Mul(x, x)
				x.Add(x, big.NewInt(int64(r.Intn(3)-1)))
				if x.Sign() >= 0 {
					a = x.Bytes()
				}
			}
			add(nil, c32B(a))
		}
	case "BB":
		bb := c32BigBoundary()
		for _, a := range bb {
			for _, b := range bb {
				add(nil, c32B(a), c32B(b))
			}
		}
		for i := 0; i < nrand; i++ {
			a, b := c32RandBig(r), c32RandBig(r)
			switch r.Intn(6) {
			case 0: // equal values, different encodings
				b = c32Cat(c32Rep(0, r.Intn(4)), bytes.TrimLeft(a, "\x00"))
			case 1: // b = a ± 1
				x := new(big.Int).SetBytes(a)
				x.Add(x, big.NewInt(int64(2*r.Intn(2)-1)))
				if x.Sign() >= 0 {
					b = x.Bytes()
				}
			}
			add(nil, c32B(a), c32B(b))
		}
	case "b":
		for _, a := range c32BytesBoundary(r) {
			add(nil, c32B(a))
		}
		for i := 0; i < nrand; i++ {
			add(nil, c32B(c32RandBytes(r)))
		}
	case "bb":
		bb := c32BytesBoundary(r)
		for _, a := range bb {
			for _, b := range bb {
				if len(a) > 70 && len(b) > 70 && len(a) != len(b) && len(a)+len(b) < 4096 {
					continue // keep the product small: long×long only for equal or extreme lengths
				}
				add(nil, c32B(a), c32B(b))
			}
		}
		for i := 0; i < nrand; i++ {
			a := c32RandBytes(r)
			b := c32RandBytes(r)
			if r.Chance(1, 4) {
				b = append([]byte{}, a...)
				if len(b) > 0 && r.Bool() {
					b[r.Intn(len(b))] ^= 1 << uint(r.Intn(8))
				}
			}
			add(nil, c32B(a), c32B(b))
		}
	case "concat":
		for _, la := range []int{0, 1, 2047, 2048, 2049, 4095, 4096} {
			for _, lb := range []int{0, 1, 2047, 2048, 2049, 4095, 4096} {
				add(nil, c32B(r.Bytes(la)), c32B(r.Bytes(lb)))
			}
		}
		for i := 0; i < nrand; i++ {
			la := r.Range(0, 4096)
			lb := r.Range(0, 64)
			if r.Bool() {
				lb = 4096 - la + r.Intn(5) - 2
				lb = min(max(lb, 0), 4096)
			}
			add(nil, c32B(r.Bytes(la)), c32B(r.Bytes(lb)))
		}
	case "bzero":
		for _, a := range ub {
			add(nil, c32U(a))
		}
		for a := uint64(4090); a < 4100; a++ {
			add(nil, c32U(a))
		}
		for i := 0; i < nrand; i++ {
			add(nil, c32U(uint64(r.Intn(4200))))
		}
	case "ubit":
		for _, a := range ub {
			for b := uint64(0); b <= 66; b++ {
				add(nil, c32U(a), c32U(b))
			}
			add(nil, c32U(a), c32U(^uint64(0)))
		}
		for i := 0; i < nrand; i++ {
			add(nil, c32U(r.Uint64()), c32U(uint64(r.Intn(66))))
		}
	case "usetbit":
		for _, a := range ub {
			for b := uint64(0); b <= 66; b++ {
				add(nil, c32U(a), c32U(b), c32U(0))
				add(nil, c32U(a), c32U(b), c32U(1))
			}
		}
		for i := 0; i < nrand; i++ {
			add(nil, c32U(r.Uint64()), c32U(uint64(r.Intn(66))), c32U(uint64(r.Intn(2))))
		}
	case "bbit", "bsetbit", "bidx", "bsetbyte":
		targets := [][]byte{{}, {0}, {0xff}, {0x80, 0x01}, c32Rep(0xa5, 7), r.Bytes(8), r.Bytes(9), r.Bytes(64), r.Bytes(65), r.Bytes(4095), r.Bytes(4096), c32Rep(0, 32), c32Rep(0xff, 32)}
		for i := 0; i < nrand/64+1; i++ {
			targets = append(targets, r.Bytes(r.Range(0, 40)))
		}
		for _, tg := range targets {
			l := uint64(len(tg))
			if sp.shape == "bbit" || sp.shape == "bsetbit" {
				l *= 8
			}
			idxs := c32IdxAround(l)
			for i := 0; i < 6; i++ {
				if l > 0 {
					idxs = append(idxs, r.Uint64n(l))
				}
			}
			for _, ix := range idxs {
				switch sp.shape {
				case "bbit", "bidx":
					add(nil, c32B(tg), c32U(ix))
				case "bsetbit":
					add(nil, c32B(tg), c32U(ix), c32U(0))
					add(nil, c32B(tg), c32U(ix), c32U(1))
				case "bsetbyte":
					for _, v := range []uint64{0, 1, 0x7f, 0x80, 0xff, uint64(r.Intn(256))} {
						add(nil, c32B(tg), c32U(ix), c32U(v))
					}
				}
			}
		}
	case "brange", "bimm", "brepl", "breplimm":
		targets := [][]byte{{}, {7}, r.Bytes(2), r.Bytes(8), r.Bytes(64), r.Bytes(254), r.Bytes(255), r.Bytes(256), r.Bytes(257), r.Bytes(4095), r.Bytes(4096)}
		for i := 0; i < nrand/256+1; i++ {
			targets = append(targets, r.Bytes(r.Range(0, 300)))
		}
		for _, tg := range targets {
			l := uint64(len(tg))
			switch sp.shape {
			case "brange":
				ix := c32IdxAround(l)
				for _, s := range ix {
					for _, e := range ix {
						add(nil, c32B(tg), c32U(s), c32U(e))
					}
				}
				for i := 0; i < 20; i++ {
					add(nil, c32B(tg), c32U(r.Uint64n(l+2)), c32U(r.Uint64n(l+2)))
				}
			case "bimm":
				var ix []byte
				for _, v := range c32IdxAround(l) {
					if v <= 255 {
						ix = append(ix, byte(v))
					}
				}
				ix = append(ix, 254, 255, byte(r.Intn(256)))
				for _, s := range ix {
					for _, e := range ix {
						add([]byte{s, e}, c32B(tg))
					}
				}
			case "brepl":
				for _, rl := range []uint64{0, 1, 2, l / 2, l - 1, l, l + 1} {
					if rl > 4096 {
						continue
					}
					repl := r.Bytes(int(rl))
					for _, s := range c32IdxAround(l - min(rl, l)) {
						add(nil, c32B(tg), c32U(s), c32B(repl))
					}
				}
			case "breplimm":
				for _, rl := range []uint64{0, 1, 2, l / 2, l - 1, l, l + 1} {
					if rl > 4096 {
						continue
					}
					repl := r.Bytes(int(rl))
					for _, s := range c32IdxAround(l - min(rl, l)) {
						if s <= 255 {
							add([]byte{byte(s)}, c32B(tg), c32B(repl))
						}
					}
					add([]byte{255}, c32B(tg), c32B(repl))
				}
			}
		}
	default:
		panic("c32: unknown shape " + sp.shape)
	}
}

// ---------------------------------------------------------------------------------------------
// running one case through the real interpreter

type c32Tracer struct {
	NullEvalTracer
	opPC   int
	armed  bool
	seen   bool
	before []c32Val
	after  []c32Val
	err    error
}

func c32Snapshot(st []stackValue) []c32Val {
	out := make([]c32Val, len(st))
	for i, sv := range st {
		if sv.Bytes != nil {
			out[i] = c32B(sv.Bytes)
		} else {
			out[i] = c32U(sv.Uint)
		}
	}
	return out
}

func (t *c32Tracer) BeforeOpcode(cx *EvalContext) {
	if cx.pc == t.opPC && !t.seen {
		t.armed = true
		t.before = c32Snapshot(cx.Stack)
	}
}

func (t *c32Tracer) AfterOpcode(cx *EvalContext, err error) {
	if t.armed {
		t.armed = false
		t.seen = true
		t.err = err
		t.after = c32Snapshot(cx.Stack)
	}
}

const c32Sentinel = 0x5e17715e17

func c32Uvarint(x uint64) []byte { return binary.AppendUvarint(nil, x) }

// c32Program: [version] intcblock? bytecblock? intc 0 (sentinel) <loads> op imm...
func c32Program(version uint64, opcode byte, args []c32Val, imm []byte) (prog []byte, opPC int) {
	prog = c32Uvarint(version)
	ints := []uint64{c32Sentinel}
	var bs [][]byte
	for _, a := range args {
		if a.IsBytes {
			bs = append(bs, a.B)
		} else {
			ints = append(ints, a.U)
		}
	}
	prog = append(prog, 0x20)
	prog = append(prog, c32Uvarint(uint64(len(ints)))...)
	for _, x := range ints {
		prog = append(prog, c32Uvarint(x)...)
	}
	if len(bs) > 0 {
		prog = append(prog, 0x26)
		prog = append(prog, c32Uvarint(uint64(len(bs)))...)
		for _, b := range bs {
			prog = append(prog, c32Uvarint(uint64(len(b)))...)
			prog = append(prog, b...)
		}
	}
	prog = append(prog, 0x21, 0) // intc 0: sentinel below the operands
	ii, bi := 1, 0
	for _, a := range args {
		if a.IsBytes {
			prog = append(prog, 0x27, byte(bi)) // bytec
			bi++
		} else {
			prog = append(prog, 0x21, byte(ii)) // intc
			ii++
		}
	}
	opPC = len(prog)
	prog = append(prog, opcode)
	prog = append(prog, imm...)
	return prog, opPC
}

func c32Equal(a, b c32Val, numeric bool) bool {
	if a.IsBytes != b.IsBytes {
		return false
	}
	if !a.IsBytes {
		return a.U == b.U
	}
	if numeric {
		return a.big().Cmp(b.big()) == 0
	}
	return bytes.Equal(a.B, b.B)
}

// c32Run evaluates one case and returns a finding key ("" if the oracle is satisfied) and a message.
// c32Stats are per-job counters, flushed into the kit context once per (opcode, version).
type c32Stats struct{ evals, fails, oks, nonMinimal int }

func c32Run(c *kit.Ctx, st *c32Stats, sp c32Spec, version uint64, opcode byte, cs c32Case) (string, string) {
	prog, opPC := c32Program(version, opcode, cs.args, cs.imm)
	orig := append([]byte{}, prog...)
	tr := &c32Tracer{opPC: opPC}
	var txn transactions.SignedTxn
	txn.Lsig.Logic = prog
	ep := NewSigEvalParams([]transactions.SignedTxn{txn}, c32Proto, &NoHeaderLedger{})
	ep.Tracer = tr
	_, _, err := EvalSignatureFull(0, ep)
	var pe panicError
	if errors.As(err, &pe) {
		return "panic-error:" + sp.name, fmt.Sprintf("evaluation returned the recovered-panic error: %.600s", err.Error())
	}
	if !tr.seen {
		return "harness", fmt.Sprintf("opcode at pc %d not reached: %v", opPC, err)
	}
	want, wantFail := sp.ref(cs.args, cs.imm)
	st.evals++
	expBefore := append([]c32Val{c32U(c32Sentinel)}, cs.args...)
	if len(tr.before) != len(expBefore) {
		return "harness", fmt.Sprintf("stack before op is %s, expected %s", c32Vals(tr.before), c32Vals(expBefore))
	}
	for i := range expBefore {
		if !c32Equal(tr.before[i], expBefore[i], false) {
			return "harness", fmt.Sprintf("stack before op is %s, expected %s", c32Vals(tr.before), c32Vals(expBefore))
		}
	}
	if !bytes.Equal(prog, orig) {
		return "modifies-program-constant:" + sp.name, "the opcode changed its operand in place (program bytes differ after evaluation)"
	}
	if wantFail {
		st.fails++
		if tr.err == nil {
			return "missing-failure:" + sp.name, fmt.Sprintf("specification says the opcode fails, interpreter continued with stack %s", c32Vals(tr.after))
		}
		return "", ""
	}
	st.oks++
	if tr.err != nil {
		return "unexpected-failure:" + sp.name, fmt.Sprintf("specification gives %s, interpreter failed: %v", c32Vals(want.vals), tr.err)
	}
	if len(tr.after) != 1+len(want.vals) {
		return "result-mismatch:" + sp.name, fmt.Sprintf("stack after op is %s, expected sentinel + %s", c32Vals(tr.after), c32Vals(want.vals))
	}
	if !c32Equal(tr.after[0], c32U(c32Sentinel), false) {
		return "clobbers-stack:" + sp.name, fmt.Sprintf("value below the operands changed: %s", tr.after[0])
	}
	for i, w := range want.vals {
		got := tr.after[1+i]
		if !c32Equal(got, w, want.numeric) {
			return "result-mismatch:" + sp.name, fmt.Sprintf("result %d is %s, specification gives %s", i, got, w)
		}
		if want.numeric && !bytes.Equal(got.B, w.B) {
			st.nonMinimal++
			c.Observation("%s returned a non-minimal big-endian encoding %s for %s", sp.name, got, w)
		}
		if want.maxLen > 0 && len(got.B) > want.maxLen {
			return "result-too-long:" + sp.name, fmt.Sprintf("result %s longer than the documented %d bytes", got, want.maxLen)
		}
	}
	return "", ""
}

var c32Proto = makeTestProto()

// ---------------------------------------------------------------------------------------------
// language spec cross-check

type c32LangOp struct {
	Opcode            json.RawMessage // a number, or [prefix, sub-opcode] for multi-byte opcodes
	Name              string
	Args              []string
	Returns           []string
	IntroducedVersion uint64
}

type c32LangSpec struct {
	Version int
	Ops     []c32LangOp
}

func c32LoadLangSpec(v uint64) (map[string]c32LangOp, error) {
	b, err := os.ReadFile(fmt.Sprintf("langspec_v%d.json", v))
	if err != nil {
		return nil, err
	}
	var ls c32LangSpec
	if err := json.Unmarshal(b, &ls); err != nil {
		return nil, err
	}
	m := map[string]c32LangOp{}
	for _, o := range ls.Ops {
		m[o.Name] = o
	}
	return m, nil
}

func c32ArgKind(t string) byte {
	switch t {
	case "uint64", "bool":
		return 'i'
	case "any":
		return 'a'
	case "bigint":
		return 'I'
	}
	return 'b'
}

// ---------------------------------------------------------------------------------------------

func TestVerifC32Opcodes(t *testing.T) {
	c := kit.Start(t, "C32", "opcodes")
	defer c.Finish()
	c.Rule("for every arithmetic/comparison/bitwise/byte-math/conversion/wide opcode and every AVM version that has it: the complete product of a boundary operand set (uint: 0,1,2,2^k±1,2^31±1,2^32±1,2^63±1,2^64-1,squares…; bytes: lengths 0,1,8,32,63,64,65,… with leading zeros, all-ones, powers) plus PRNG operands biased to the failure boundaries, each run as a tiny program through EvalSignatureFull and compared with a math/big reference written from the langspec docs; distinct = distinct (opcode, operand kinds, version, outcome class)")
	c.Assume("math/big and the per-opcode reference functions (written from langspec_v*.json Doc/DocExtra and NamedTypes bounds) are correct; intcblock/bytecblock/intc/bytec deliver operands unchanged (checked on every case by comparing the stack before the opcode)")

	defer debug.SetGCPercent(debug.SetGCPercent(400)) // every evaluation allocates an 8 KB EvalContext
	specs := c32Specs()
	nrand := c.N(1000, 20000) // random operand tuples per (opcode, version), on top of the boundary product

	// cross-check the reference table against the shipped language spec (opcode byte, arity and operand kinds)
	lang := map[uint64]map[string]c32LangOp{}
	for v := uint64(1); v <= LogicVersion; v++ {
		m, err := c32LoadLangSpec(v)
		if err != nil {
			if v == LogicVersion { // the newest (experimental) version has no frozen spec file
				continue
			}
			c.Harness("cannot read langspec_v%d.json: %v", v, err)
		}
		lang[v] = m
	}

	type job struct {
		si      int
		version uint64
		first   bool // the lowest version that has the opcode
	}
	var jobs []job
	for si, sp := range specs {
		found := false
		for v := uint64(0); v <= LogicVersion; v++ {
			ospec, ok := OpsByName[v][sp.name]
			if !ok {
				continue
			}
			jobs = append(jobs, job{si, v, !found})
			found = true
			if lang[v] == nil {
				continue
			}
			lo, ok := lang[v][sp.name]
			if !ok {
				c.Violation("langspec-missing-op:"+sp.name, map[string]any{"version": v, "note": "the opcode table has the op in this version, langspec_v*.json does not"})
				continue
			}
			c.Count("langspec_crosschecks", 1)
			if strings.TrimSpace(string(lo.Opcode)) != fmt.Sprint(int(ospec.Opcode)) {
				c.Violation("langspec-opcode-mismatch:"+sp.name, map[string]any{"version": v, "langspec_opcode": string(lo.Opcode), "table_opcode": ospec.Opcode})
			}
			if len(lo.Args) != len(sp.args) {
				c.Harness("reference table arity for %s (%q) disagrees with langspec_v%d %v", sp.name, sp.args, v, lo.Args)
			}
			for i, a := range lo.Args {
				k := c32ArgKind(a)
				have := sp.args[i]
				if !(k == 'a' || k == have) {
					c.Harness("reference table arg %d of %s is %c, langspec_v%d says %s", i, sp.name, have, v, a)
				}
			}
		}
		if !found {
			c.Harness("opcode %s not in any version", sp.name)
		}
	}

	var wg sync.WaitGroup
	ch := make(chan job)
	nw := min(runtime.NumCPU(), 16)
	var opsSeen sync.Map
	var hmu sync.Mutex
	var harnessErr string
	for w := 0; w < nw; w++ {
		wg.Add(1)
		go func() {
			defer wg.Done()
			for j := range ch {
				sp := specs[j.si]
				ospec := OpsByName[j.version][sp.name]
				r := c.Rand(32, uint64(j.si), j.version)
				nfail, nok, ncases := 0, 0, 0
				st := &c32Stats{}
				var last c32Case
				jobViol := 0
				// quick tier: the complete boundary product runs in the version that introduced the opcode, in
				// the current release version and in the newest one; the other versions run a PRNG-chosen
				// quarter of it. The thorough tier runs everything in every version.
				full := !c.Quick() || j.first || j.version >= LogicVersion-1
				thin := c.Rand(3232, uint64(j.si), j.version)
				c32Cases(sp, r, nrand, func(cs c32Case) {
					if !full && !thin.Chance(1, 4) {
						return
					}
					if jobViol >= 3 || c.Violations() > 300 { // a few witnesses per (opcode, version) are enough
						return
					}
					ci := ncases
					ncases++
					last = cs
					var fk, msg string
					panicked := c.Guard("eval:"+sp.name, map[string]any{"op": sp.name, "version": j.version, "args": c32Vals(cs.args), "imm": fmt.Sprint(cs.imm)}, func() {
						fk, msg = c32Run(c, st, sp, j.version, ospec.Opcode, cs)
					})
					if panicked {
						jobViol++
						return
					}
					if fk == "harness" {
						hmu.Lock()
						if harnessErr == "" {
							harnessErr = fmt.Sprintf("%s v%d case %d args %s: %s", sp.name, j.version, ci, c32Vals(cs.args), msg)
						}
						hmu.Unlock()
						return
					}
					if fk != "" {
						prog, _ := c32Program(j.version, ospec.Opcode, cs.args, cs.imm)
						c.Violation(fk, map[string]any{"op": sp.name, "kinds": sp.args, "version": j.version, "case_index": ci,
							"args": c32Vals(cs.args), "immediates": fmt.Sprint(cs.imm), "program_hex": hex.EncodeToString(prog), "message": msg})
						jobViol++
						return
					}
					if _, fail := sp.ref(cs.args, cs.imm); fail {
						nfail++
					} else {
						nok++
					}
				})
				if nok > 0 {
					c.Distinct(fmt.Sprintf("%s/%s/v%d/ok", sp.name, sp.args, j.version))
				}
				if nfail > 0 {
					c.Distinct(fmt.Sprintf("%s/%s/v%d/fail", sp.name, sp.args, j.version))
				}
				c.Eval(st.evals)
				c.Count("expected_failures", st.fails)
				c.Count("expected_successes", st.oks)
				c.Count("non_minimal_encodings", st.nonMinimal)
				c.Count("op_version_pairs", 1)
				if _, loaded := opsSeen.LoadOrStore(sp.name+"/"+sp.args, true); !loaded {
					c.Count("ops_covered", 1)
				}
				if j.version == LogicVersion && j.si%9 == 0 && ncases > 0 {
					w, f := sp.ref(last.args, last.imm)
					c.Sample(map[string]any{"op": sp.name, "version": j.version, "args": c32Vals(last.args), "spec_fails": f, "spec_result": c32Vals(w.vals), "cases_for_this_op_version": ncases})
				}
			}
		}()
	}
	for _, j := range jobs {
		ch <- j
	}
	close(ch)
	wg.Wait()
	if harnessErr != "" {
		c.Harness("%s", harnessErr)
	}

	c.Require("ops_covered", int64(len(specs)))
	c.Require("expected_failures", 100000)
	c.Require("expected_successes", 500000)
	c.Require("langspec_crosschecks", 100)
}
