package logic

// C31 (part 2 of 3): program generators.
//
//   (i)   c31GenRandom     random bytes / opcode soup behind a valid (possibly multi-byte) version prefix
//   (ii)  c31GenMutation   mutations of corpus programs (upstream compiled test vectors, runnable
//                          programs assembled from source, freshly generated structured programs)
//   (iii) c31GenStructured type-aware programs built from the OpSpec table, with gadgets that make
//                          execution deep: loops near the budget, callsub recursion, frames with extreme
//                          offsets, byte ops at length boundaries, 64/65 byte byte-math, json_ref,
//                          base64_decode, EC ops, huge switch/match tables, inner transactions, boxes.
//
// All randomness comes from the kit PRNG handed in by the caller.

import (
	"encoding/base64"
	"encoding/binary"
	"encoding/hex"
	"fmt"
	"os"
	"sort"
	"strings"

	"verif.local/kit"
)

// ---------------------------------------------------------------------------------------------
// (iii) structured builder

type c31Kind uint8

const (
	c31KU c31Kind = iota
	c31KB
	c31KAny
)

type c31Abs struct {
	k c31Kind
	n int // byte length when known, else -1
}

type c31Fix struct {
	at     int // position of the offset bytes
	instr  int // pc of the instruction
	varint bool
	label  int
}

type c31Builder struct {
	r      *kit.Rand
	v      uint64
	mode   RunMode
	code   []byte
	st     []c31Abs
	ops    []OpSpec // candidates for generic emission
	nInts  int
	nBytes int
	fixes  []c31Fix
	labels []int // label id -> pc (-1 unresolved)
	subs   []c31Sub
	budget int
}

type c31Sub struct {
	pc      int
	args    int
	returns int
	proto   bool
}

var c31OpPool [LogicVersion + 1][3][]OpSpec // [version][mode index] -> generic candidates

var c31SkipGeneric = map[string]bool{
	"intcblock": true, "bytecblock": true, "pushbytes": true, "pushint": true, "pushbytess": true, "pushints": true,
	"bnz": true, "bz": true, "b": true, "callsub": true, "retsub": true, "proto": true, "switch": true, "match": true,
	"err": true, "return": true,
}

func c31ModeIdx(m RunMode) int {
	if m == ModeSig {
		return 1
	}
	return 2
}

func c31Pool(v uint64, mode RunMode) []OpSpec {
	mi := c31ModeIdx(mode)
	if c31OpPool[v][mi] != nil {
		return c31OpPool[v][mi]
	}
	var pool []OpSpec
	for _, s := range OpsByName[v] { // the spec in force for this version
		if c31SkipGeneric[s.Name] || s.Modes&mode == 0 {
			continue
		}
		pool = append(pool, s)
	}
	sort.Slice(pool, func(i, j int) bool { return pool[i].Name < pool[j].Name }) // map order is random: keep cases reproducible
	c31OpPool[v][mi] = pool
	return pool
}

func c31NewBuilder(r *kit.Rand, v uint64, mode RunMode) *c31Builder {
	b := &c31Builder{r: r, v: v, mode: mode, budget: 700}
	if mode == ModeSig {
		b.budget = 20000
	}
	b.code = binary.AppendUvarint(nil, v)
	b.ops = c31Pool(v, mode)
	return b
}

func (b *c31Builder) has(name string) bool { _, ok := OpsByName[b.v][name]; return ok }

func (b *c31Builder) push(k c31Kind, n int) { b.st = append(b.st, c31Abs{k, n}) }
func (b *c31Builder) pop(n int) {
	if n > len(b.st) {
		n = len(b.st)
	}
	b.st = b.st[:len(b.st)-n]
}
func (b *c31Builder) depth() int { return len(b.st) }

// op emits an opcode by name with raw immediates; false if the version lacks it.
func (b *c31Builder) op(name string, imm ...byte) bool {
	s, ok := OpsByName[b.v][name]
	if !ok {
		return false
	}
	b.code = append(b.code, s.Opcode)
	if s.SubOpcode != 0 {
		b.code = append(b.code, s.SubOpcode)
	}
	b.code = append(b.code, imm...)
	return true
}

func (b *c31Builder) uvarint(x uint64) { b.code = binary.AppendUvarint(b.code, x) }

// prologue: constant blocks so that intc_N/bytec_N work in every version
func (b *c31Builder) prologue() {
	r := b.r
	b.nInts = r.Range(2, 8)
	b.code = append(b.code, 0x20)
	b.uvarint(uint64(b.nInts))
	for i := 0; i < b.nInts; i++ {
		x := r.Boundary64()
		if i < 3 {
			x = uint64(i) // 0,1,2 always available
		}
		b.uvarint(x)
	}
	b.nBytes = r.Range(1, 5)
	b.code = append(b.code, 0x26)
	b.uvarint(uint64(b.nBytes))
	for i := 0; i < b.nBytes; i++ {
		v := c31RandBytes(r, -1)
		b.uvarint(uint64(len(v)))
		b.code = append(b.code, v...)
	}
}

func c31RandLen(r *kit.Rand) int {
	switch r.Intn(12) {
	case 0:
		return []int{0, 1, 7, 8, 9}[r.Intn(5)]
	case 1:
		return []int{31, 32, 33, 63, 64, 65}[r.Intn(6)]
	case 2:
		return []int{4095, 4096, 2048, 1024, 1025}[r.Intn(5)]
	case 3:
		return r.Range(0, 300)
	default:
		return r.Range(0, 40)
	}
}

func c31RandBytes(r *kit.Rand, n int) []byte {
	if n < 0 {
		n = c31RandLen(r)
	}
	v := r.Bytes(n)
	switch r.Intn(6) {
	case 0:
		for i := range v {
			v[i] = 0
		}
	case 1:
		for i := range v {
			v[i] = 0xff
		}
	case 2:
		for i := 0; i < len(v)/2; i++ {
			v[i] = 0
		}
	}
	return v
}

func (b *c31Builder) pushInt(x uint64) {
	if b.v >= 3 && !b.r.Chance(1, 10) {
		b.code = append(b.code, 0x81)
		b.uvarint(x)
	} else if x < 3 && b.nInts >= 3 {
		b.code = append(b.code, 0x22+byte(x)) // intc_0..2 hold 0,1,2
	} else if b.v >= 3 {
		b.code = append(b.code, 0x81)
		b.uvarint(x)
	} else {
		b.code = append(b.code, 0x21, byte(b.r.Intn(max(b.nInts, 1)))) // intc k (value not controlled before v3)
	}
	b.push(c31KU, 0)
}

func (b *c31Builder) pushBytes(v []byte) {
	if b.v >= 3 {
		if len(v) > 48 && b.v >= 4 && b.r.Chance(3, 4) {
			// cheap long value: bzero, optionally made non-zero
			b.code = append(b.code, 0x81)
			b.uvarint(uint64(len(v)))
			b.op("bzero")
			if b.r.Bool() {
				b.code = append(b.code, 0x81)
				b.uvarint(uint64(b.r.Intn(len(v))))
				b.code = append(b.code, 0x81)
				b.uvarint(uint64(b.r.Intn(256)))
				b.op("setbyte")
			}
		} else {
			b.code = append(b.code, 0x80)
			b.uvarint(uint64(len(v)))
			b.code = append(b.code, v...)
		}
		b.push(c31KB, len(v))
		return
	}
	b.code = append(b.code, 0x27, byte(b.r.Intn(max(b.nBytes, 1))))
	b.push(c31KB, -1)
}

func (b *c31Builder) pushBytesLen(n int) { b.pushBytes(c31RandBytes(b.r, n)) }

// ---- labels -------------------------------------------------------------------------------

func (b *c31Builder) newLabel() int { b.labels = append(b.labels, -1); return len(b.labels) - 1 }

func (b *c31Builder) place(label int) {
	b.labels[label] = len(b.code)
}

// branch emits b/bz/bnz/callsub to a label (resolved later if forward)
func (b *c31Builder) branch(name string, label int) bool {
	s, ok := OpsByName[b.v][name]
	if !ok {
		return false
	}
	instr := len(b.code)
	b.code = append(b.code, s.Opcode)
	if b.v >= varintBranchVersion {
		b.fixes = append(b.fixes, c31Fix{at: len(b.code), instr: instr, varint: true, label: label})
		b.code = append(b.code, 0x80, 0x80, 0x00) // 3-byte padded varint placeholder
	} else {
		b.fixes = append(b.fixes, c31Fix{at: len(b.code), instr: instr, label: label})
		b.code = append(b.code, 0, 0)
	}
	return true
}

func (b *c31Builder) resolve() {
	for _, f := range b.fixes {
		target := b.labels[f.label]
		if target < 0 {
			target = len(b.code)
		}
		if f.varint {
			// offset < 0: measured from the instruction start; >= 0: from the instruction end (instr+4)
			off := int64(target - f.instr)
			if target >= f.instr+4 {
				off = int64(target - (f.instr + 4))
			} else if off > 0 {
				off = 0
			}
			z := uint64(off<<1) ^ uint64(off>>63) // zigzag
			if z >= 1<<21 {
				z = 0
			}
			b.code[f.at] = byte(z&0x7f) | 0x80
			b.code[f.at+1] = byte((z>>7)&0x7f) | 0x80
			b.code[f.at+2] = byte(z >> 14)
		} else {
			off := target - (f.instr + 3)
			if off > 32767 || off < -32768 {
				off = 0
			}
			b.code[f.at] = byte(uint16(int16(off)) >> 8)
			b.code[f.at+1] = byte(uint16(int16(off)))
		}
	}
	b.fixes = nil
}

// ---- fields -------------------------------------------------------------------------------

type c31Field struct {
	b byte
	t StackType
}

var c31FieldCache = map[string][]c31Field{}

func c31Fields(g *FieldGroup, v uint64) []c31Field {
	key := fmt.Sprintf("%s/%p/%d", g.Name, g, v)
	if f, ok := c31FieldCache[key]; ok {
		return f
	}
	var out []c31Field
	for _, name := range g.Names {
		if name == "" {
			continue
		}
		if fs, ok := g.SpecByName(name); ok && fs.Version() <= v {
			out = append(out, c31Field{fs.Field(), fs.Type()})
		}
	}
	c31FieldCache[key] = out
	return out
}

func c31KindOf(t StackType) c31Kind {
	switch t.AVMType {
	case avmUint64:
		return c31KU
	case avmBytes:
		return c31KB
	}
	return c31KAny
}

// ---- operand values ----------------------------------------------------------------------

var c31KnownAddrs = []string{
	"aoeuiaoeuiaoeuiaoeuiaoeuiaoeui00", // sample sender
	"aoeuiaoeuiaoeuiaoeuiaoeuiaoeui01", // sample receiver / app creator
	"aoeuiaoeuiaoeuiaoeuiaoeuiaoeui02",
}

func (b *c31Builder) pushAddress() {
	r := b.r
	switch r.Intn(6) {
	case 0:
		b.pushBytes(make([]byte, 32))
	case 1:
		if b.mode == ModeApp && b.v >= 5 {
			b.op("global", byte(CurrentApplicationAddress))
			b.push(c31KB, 32)
			return
		}
		b.pushBytes([]byte(c31KnownAddrs[0]))
	case 2:
		b.pushBytes(r.Bytes([]int{31, 32, 33}[r.Intn(3)]))
	default:
		b.pushBytes([]byte(c31KnownAddrs[r.Intn(len(c31KnownAddrs))]))
	}
}

// pushTyped pushes a fresh operand fitting a declared stack type (boundary biased)
func (b *c31Builder) pushTyped(t StackType) {
	r := b.r
	switch t.AVMType {
	case avmUint64:
		lo, hi := t.Bound[0], t.Bound[1]
		switch {
		case hi != 0 && hi < 1<<32 && r.Chance(5, 6):
			b.pushInt(lo + r.Uint64n(hi-lo+1))
		case r.Chance(1, 3):
			b.pushInt(uint64(r.Intn(6)))
		default:
			b.pushInt(r.Boundary64())
		}
	case avmBytes:
		lo, hi := int(t.Bound[0]), int(t.Bound[1])
		switch {
		case t.Name == "address":
			b.pushAddress()
		case lo == hi && lo > 0:
			n := lo
			if r.Chance(1, 8) {
				n = lo + r.Intn(3) - 1
			}
			b.pushBytesLen(n)
		case hi > 0 && hi < maxStringSize:
			n := r.Range(lo, hi)
			if r.Chance(1, 3) {
				n = []int{lo, hi, hi + 1, max(lo-1, 0)}[r.Intn(4)]
			}
			b.pushBytesLen(n)
		default:
			b.pushBytesLen(-1)
		}
	default:
		if r.Bool() {
			b.pushInt(r.Boundary64())
		} else {
			b.pushBytesLen(-1)
		}
	}
}

// index values around a length
func (b *c31Builder) around(l int) uint64 {
	r := b.r
	switch r.Intn(10) {
	case 0:
		return uint64(l)
	case 1:
		return uint64(l + 1)
	case 2:
		return uint64(max(l-1, 0))
	case 3:
		return 0
	case 4:
		return r.Boundary64()
	case 5:
		return uint64(max(l-8, 0))
	default:
		return uint64(r.Intn(l + 1))
	}
}

var c31JSONDocs = []string{
	`{"a":1,"b":"str","c":{"d":[1,2,3],"e":null},"f":18446744073709551615}`,
	`{"a":18446744073709551616,"b":-1,"c":1.5,"a":2}`,
	`{"k":"é😀","a":"x"}`,
	`[1,2,3]`, `"str"`, `{}`, `{"a":{"a":{"a":{"a":{"a":{"a":{"a":{"a":1}}}}}}}}`,
	`{"a":1`, `{"a":}`, "{\"a\":\"\x00\xff\"}", `{"a":1e400}`, `{"a":true,"b":false}`, ``, `null`,
	`{"a":"` + strings.Repeat("z", 300) + `"}`,
}

func (b *c31Builder) deepJSON(n int) string {
	return strings.Repeat(`{"a":`, n) + "1" + strings.Repeat("}", n)
}

// EC element sizes per group index (BN254g1, BN254g2, BLS12_381g1, BLS12_381g2)
var c31EcSizes = []int{64, 128, 96, 192}

// special emits the operands (and the op itself) for opcodes whose interesting inputs are not
// described by their stack types. Returns false if it does not handle this op.
func (b *c31Builder) special(s *OpSpec) bool {
	r := b.r
	emitPop := func(nargs int, rets ...c31Abs) {
		b.op(s.Name)
		b.pop(nargs)
		b.st = append(b.st, rets...)
	}
	switch s.Name {
	case "substring3", "extract3":
		l := c31RandLen(r)
		b.pushBytesLen(l)
		st := b.around(l)
		b.pushInt(st)
		if s.Name == "substring3" {
			b.pushInt(b.around(l))
		} else {
			b.pushInt(b.around(max(l-int(min(st, uint64(l))), 0)))
		}
		emitPop(3, c31Abs{c31KB, -1})
	case "substring", "extract":
		l := c31RandLen(r)
		b.pushBytesLen(l)
		s0 := byte(b.around(min(l, 255)))
		s1 := byte(b.around(min(l, 255)))
		b.op(s.Name, s0, s1)
		b.pop(1)
		b.push(c31KB, -1)
	case "replace2", "replace3":
		l := c31RandLen(r)
		rl := int(b.around(l))
		if rl > 4096 {
			rl = l
		}
		b.pushBytesLen(l)
		st := b.around(max(l-rl, 0))
		if s.Name == "replace3" {
			b.pushInt(st)
			b.pushBytesLen(rl)
			emitPop(3, c31Abs{c31KB, l})
		} else {
			b.pushBytesLen(rl)
			b.op(s.Name, byte(min(st, 255)))
			b.pop(2)
			b.push(c31KB, l)
		}
	case "getbit", "setbit":
		if r.Bool() {
			b.pushInt(r.Boundary64())
			b.pushInt([]uint64{0, 1, 62, 63, 64, 65, r.Boundary64()}[r.Intn(7)])
		} else {
			l := c31RandLen(r)
			b.pushBytesLen(l)
			b.pushInt(b.around(8 * l))
		}
		if s.Name == "setbit" {
			b.pushInt(uint64(r.Intn(3)))
			emitPop(3, c31Abs{c31KAny, -1})
		} else {
			emitPop(2, c31Abs{c31KU, 0})
		}
	case "getbyte", "setbyte", "extract_uint16", "extract_uint32", "extract_uint64":
		l := c31RandLen(r)
		b.pushBytesLen(l)
		b.pushInt(b.around(l))
		if s.Name == "setbyte" {
			b.pushInt([]uint64{0, 255, 256, r.Boundary64()}[r.Intn(4)])
			emitPop(3, c31Abs{c31KB, l})
		} else {
			emitPop(2, c31Abs{c31KU, 0})
		}
	case "concat":
		l := c31RandLen(r)
		l2 := c31RandLen(r)
		if r.Chance(1, 3) {
			l2 = max(0, 4096-l+r.Intn(3)-1)
		}
		b.pushBytesLen(l)
		b.pushBytesLen(l2)
		emitPop(2, c31Abs{c31KB, l + l2})
	case "bzero":
		b.pushInt([]uint64{0, 1, 4095, 4096, 4097, 1 << 32, r.Boundary64(), uint64(r.Intn(5000))}[r.Intn(8)])
		emitPop(1, c31Abs{c31KB, -1})
	case "b+", "b-", "b*", "b/", "b%", "b<", "b>", "b<=", "b>=", "b==", "b!=", "bsqrt":
		n := len(s.Arg.Types)
		for i := 0; i < n; i++ {
			b.pushBytesLen([]int{0, 1, 8, 32, 63, 64, 64, 65, r.Range(0, 64)}[r.Intn(9)])
		}
		k := c31KB
		if len(s.Return.Types) == 1 && s.Return.Types[0].AVMType == avmUint64 {
			k = c31KU
		}
		emitPop(n, c31Abs{k, -1})
	case "shl", "shr":
		b.pushInt(r.Boundary64())
		b.pushInt([]uint64{0, 1, 63, 64, 65, r.Boundary64()}[r.Intn(6)])
		emitPop(2, c31Abs{c31KU, 0})
	case "exp", "expw":
		b.pushInt([]uint64{0, 1, 2, 3, 10, 1 << 32, r.Boundary64()}[r.Intn(7)])
		b.pushInt([]uint64{0, 1, 2, 63, 64, 65, 127, 128, 129, r.Boundary64()}[r.Intn(10)])
		if s.Name == "expw" {
			emitPop(2, c31Abs{c31KU, 0}, c31Abs{c31KU, 0})
		} else {
			emitPop(2, c31Abs{c31KU, 0})
		}
	case "loads", "stores":
		b.pushInt([]uint64{0, 1, 254, 255, 256, 257, r.Boundary64()}[r.Intn(7)])
		if s.Name == "stores" {
			b.pushTyped(StackAny)
			emitPop(2)
		} else {
			emitPop(1, c31Abs{c31KAny, -1})
		}
	case "args":
		b.pushInt([]uint64{0, 1, 2, 3, 4, 254, 255, 256, r.Boundary64()}[r.Intn(9)])
		emitPop(1, c31Abs{c31KB, -1})
	case "json_ref":
		doc := c31JSONDocs[r.Intn(len(c31JSONDocs))]
		if r.Chance(1, 6) {
			doc = b.deepJSON([]int{10, 100, 600, 1300}[r.Intn(4)])
		}
		if r.Chance(1, 6) && len(doc) > 0 {
			d := []byte(doc)
			d[r.Intn(len(d))] ^= byte(1 << uint(r.Intn(8)))
			doc = string(d)
		}
		b.pushBytes([]byte(doc))
		b.pushBytes([]byte([]string{"a", "b", "c", "f", "k", "", "zz"}[r.Intn(7)]))
		f := c31Fields(&JSONRefTypes, b.v)
		imm := byte(r.Intn(4))
		if len(f) > 0 && r.Chance(9, 10) {
			imm = f[r.Intn(len(f))].b
		}
		b.op(s.Name, imm)
		b.pop(2)
		b.push(c31KAny, -1)
	case "base64_decode":
		raw := r.Bytes(r.Intn(80))
		var enc string
		switch r.Intn(6) {
		case 0:
			enc = base64.StdEncoding.EncodeToString(raw)
		case 1:
			enc = base64.URLEncoding.EncodeToString(raw)
		case 2:
			enc = base64.RawStdEncoding.EncodeToString(raw)
		case 3:
			enc = base64.StdEncoding.EncodeToString(raw) + "\n=="
		case 4:
			enc = strings.Repeat("=", r.Intn(5)) + string(raw)
		default:
			enc = base64.StdEncoding.EncodeToString(r.Bytes(3000))
		}
		b.pushBytes([]byte(enc))
		b.op(s.Name, byte(r.Intn(3)))
		b.pop(1)
		b.push(c31KB, -1)
	case "ec_add", "ec_scalar_mul", "ec_pairing_check", "ec_multi_scalar_mul", "ec_subgroup_check", "ec_map_to":
		g := r.Intn(4)
		if r.Chance(1, 20) {
			g = r.Intn(256)
		}
		sz := c31EcSizes[g%4]
		point := func() {
			switch r.Intn(5) {
			case 0:
				b.pushBytesLen(sz) // junk of the right size
			case 1:
				b.pushBytes(make([]byte, sz)) // point at infinity encoding
			case 2:
				b.pushBytesLen(sz + r.Intn(3) - 1)
			default:
				// a valid point produced at run time by ec_map_to
				fe := r.Bytes(sz / 2)
				fe[0] &= 0x0f
				if sz/2 > 48 {
					fe[sz/4] &= 0x0f
				}
				b.pushBytes(fe)
				b.op("ec_map_to", byte(g))
				b.pop(1)
				b.push(c31KB, sz)
			}
		}
		switch s.Name {
		case "ec_add":
			point()
			if r.Bool() {
				b.op("dup")
				b.push(c31KB, sz)
			} else {
				point()
			}
		case "ec_scalar_mul":
			point()
			b.pushBytesLen([]int{0, 1, 31, 32, 33}[r.Intn(5)])
		case "ec_multi_scalar_mul":
			n := r.Intn(3)
			point()
			for i := 0; i < n; i++ {
				point()
				b.op("concat")
				b.pop(1)
			}
			sc := r.Bytes(32 * (n + 1 + r.Intn(2)*r.Intn(2)))
			for i := 0; i+32 <= len(sc); i += 32 {
				sc[i] &= 0x0f
			}
			b.pushBytes(sc)
		case "ec_pairing_check":
			g &^= 1 // first operand is in G1 of the pair
			sz = c31EcSizes[g%4]
			point()
			g |= 1
			sz = c31EcSizes[g%4]
			point()
			g &^= 1
		case "ec_subgroup_check":
			point()
		case "ec_map_to":
			fe := r.Bytes([]int{sz / 2, sz / 2, sz/2 + 1, 0, 32}[r.Intn(5)])
			if len(fe) > 0 && r.Bool() {
				fe[0] &= 0x0f
			}
			b.pushBytes(fe)
		}
		b.op(s.Name, byte(g))
		b.pop(len(s.Arg.Types))
		if s.Return.Types[0].AVMType == avmUint64 {
			b.push(c31KU, 0)
		} else {
			b.push(c31KB, -1)
		}
	case "mimc", "poseidon2":
		n := 32 * r.Intn(4)
		if r.Chance(1, 5) {
			n += r.Intn(3) - 1
		}
		v := r.Bytes(max(n, 0))
		for i := 0; i+32 <= len(v); i += 32 {
			if r.Chance(4, 5) {
				v[i] &= 0x0f
			}
		}
		b.pushBytes(v)
		b.op(s.Name, byte(r.Intn(3)))
		b.pop(1)
		b.push(c31KB, 32)
	case "box_create", "box_extract", "box_replace", "box_del", "box_len", "box_get", "box_put", "box_splice", "box_resize",
		"app_box_create", "app_box_extract", "app_box_replace", "app_box_del", "app_box_len", "app_box_get", "app_box_put", "app_box_splice", "app_box_resize":
		foreign := strings.HasPrefix(s.Name, "app_")
		if foreign {
			b.pushInt([]uint64{56, 888, 100, 0, 1, 2, r.Boundary64()}[r.Intn(7)])
		}
		names := []string{"self", "other", "self", "x", "", strings.Repeat("n", 64), strings.Repeat("n", 65)}
		b.pushBytes([]byte(names[r.Intn(len(names))]))
		base := strings.TrimPrefix(s.Name, "app_")
		sizes := []uint64{0, 1, 23, 24, 25, 50, 100, 999, 1000, 1001, 4096, 4097, 32768, 32769, r.Boundary64()}
		sz := func() uint64 { return sizes[r.Intn(len(sizes))] }
		switch base {
		case "box_create", "box_resize":
			b.pushInt(sz())
		case "box_extract":
			b.pushInt(sz())
			b.pushInt(sz())
		case "box_replace":
			b.pushInt(sz())
			b.pushBytesLen(-1)
		case "box_put":
			b.pushBytesLen([]int{0, 24, 50, 1000, 1001, 4096}[r.Intn(6)])
		case "box_splice":
			b.pushInt(sz())
			b.pushInt(sz())
			b.pushBytesLen(-1)
		}
		b.op(s.Name)
		b.pop(len(s.Arg.Types))
		for _, t := range s.Return.Types {
			b.push(c31KindOf(t), -1)
		}
	case "log":
		b.pushBytesLen([]int{0, 1, 32, 33, 512, 1024, 1025, 4096}[r.Intn(8)])
		emitPop(1)
	case "block":
		b.pushInt([]uint64{0, 1, 40, 41, 42, 43, 1065, 1066, r.Boundary64()}[r.Intn(9)])
		f := c31Fields(&BlockFields, b.v)
		imm := byte(r.Intn(8))
		if len(f) > 0 && r.Chance(9, 10) {
			imm = f[r.Intn(len(f))].b
		}
		b.op(s.Name, imm)
		b.pop(1)
		b.push(c31KAny, -1)
	case "gtxns", "gtxnsa", "gtxnsas", "gloads", "gloadss", "gaids":
		b.pushInt([]uint64{0, 1, 2, 3, 4, 15, 16, 17, r.Boundary64()}[r.Intn(9)])
		return b.generic(s, 1)
	case "txnas", "gtxnas", "itxnas", "gitxnas":
		b.pushInt([]uint64{0, 1, 2, 7, 8, 9, 255, 256, r.Boundary64()}[r.Intn(9)])
		return b.generic(s, 1)
	case "app_local_get", "app_local_get_ex", "app_local_put", "app_local_del", "app_opted_in", "balance", "min_balance", "acct_params_get", "voter_params_get", "asset_holding_get":
		// account reference: index or (v4+) address
		if b.v >= directRefEnabledVersion && r.Bool() {
			b.pushAddress()
		} else {
			b.pushInt([]uint64{0, 1, 2, 3, 4, r.Boundary64()}[r.Intn(6)])
		}
		return b.generic(s, 1)
	case "dup":
		if b.depth() == 0 {
			b.pushTyped(StackAny)
		}
		top := b.st[len(b.st)-1]
		b.op("dup")
		b.st = append(b.st, top)
	case "dup2":
		for b.depth() < 2 {
			b.pushTyped(StackAny)
		}
		a, c := b.st[len(b.st)-2], b.st[len(b.st)-1]
		b.op("dup2")
		b.st = append(b.st, a, c)
	case "swap":
		for b.depth() < 2 {
			b.pushTyped(StackAny)
		}
		n := len(b.st)
		b.op("swap")
		b.st[n-1], b.st[n-2] = b.st[n-2], b.st[n-1]
	case "pop":
		if b.depth() == 0 {
			b.pushTyped(StackAny)
		}
		b.op("pop")
		b.pop(1)
	case "select":
		for b.depth() < 2 {
			b.pushTyped(StackAny)
		}
		b.pushInt(uint64(r.Intn(3)))
		b.op("select")
		b.pop(3)
		b.push(c31KAny, -1)
	case "dig", "cover", "uncover", "bury":
		if b.depth() == 0 {
			b.pushTyped(StackAny)
		}
		d := b.depth()
		n := []int{0, 1, d - 1, d, d + 1, 255, r.Intn(d + 1)}[r.Intn(7)]
		n = min(max(n, 0), 255)
		b.op(s.Name, byte(n))
		switch s.Name {
		case "dig":
			if n < d {
				b.st = append(b.st, b.st[d-1-n])
			} else {
				b.push(c31KAny, -1)
			}
		case "bury":
			if n > 0 && n < d {
				b.st[d-1-n] = b.st[d-1]
			}
			b.pop(1)
		default:
			for i := range b.st { // order changes: forget kinds
				b.st[i] = c31Abs{c31KAny, -1}
			}
		}
	case "popn":
		d := b.depth()
		n := min(max([]int{0, 1, d - 1, d, d + 1, r.Intn(d + 1)}[r.Intn(6)], 0), 255)
		b.op("popn", byte(n))
		b.pop(n)
	case "dupn":
		if b.depth() == 0 {
			b.pushTyped(StackAny)
		}
		n := []int{0, 1, 2, 10, 255}[r.Intn(5)]
		top := b.st[len(b.st)-1]
		b.op("dupn", byte(n))
		for i := 0; i < n; i++ {
			b.st = append(b.st, top)
		}
	case "itxn_field":
		b.itxnField()
	default:
		return false
	}
	return true
}

// generic emits op s: operands that are not already provided (the first `given` arguments
// counted from the top-most provided one... i.e. the LAST `given` args were pushed by the caller)
// are produced from the declared types, immediates are chosen valid most of the time.
func (b *c31Builder) generic(s *OpSpec, given int) bool {
	r := b.r
	types := s.Arg.Types
	need := len(types) - given
	if given > 0 && need > 0 {
		// the caller pushed the last `given` operands already; the earlier ones must sit below:
		// insert by pushing them now and rotating them under (cover), or just push the rest first
		// when nothing was given. Keep it simple: typed pushes then `cover`-free order is only
		// possible when the caller pushed the FIRST operands. Callers of generic(s, 1) push arg 0.
		for i := given; i < len(types); i++ {
			b.pushTyped(types[i])
		}
	} else if given == 0 {
		// reuse what is on the abstract stack when its kinds fit the first operands
		reuse := 0
		if r.Bool() {
			for k := min(len(types), b.depth()); k > 0; k-- {
				fits := true
				for i := 0; i < k; i++ {
					have := b.st[len(b.st)-k+i]
					want := c31KindOf(types[i])
					if want != c31KAny && have.k != want {
						fits = false
						break
					}
				}
				if fits {
					reuse = k
					break
				}
			}
		}
		for i := reuse; i < len(types); i++ {
			b.pushTyped(types[i])
		}
	}
	b.code = append(b.code, s.Opcode)
	if s.SubOpcode != 0 {
		b.code = append(b.code, s.SubOpcode)
	}
	var fieldType *StackType
	for _, im := range s.Immediates {
		switch im.kind {
		case immByte, immInt8:
			v := byte(r.Intn(256))
			if r.Chance(2, 3) {
				v = byte(r.Intn(4))
			}
			if im.kind == immInt8 {
				v = byte(int8([]int{-1, -2, -3, -4, -128, -127, 0, 1, 2, 127, r.Intn(256) - 128}[r.Intn(11)]))
			}
			if im.Group != nil {
				f := c31Fields(im.Group, b.v)
				if len(f) > 0 && r.Chance(15, 16) {
					pick := f[r.Intn(len(f))]
					v = pick.b
					t := pick.t
					fieldType = &t
				}
			}
			b.code = append(b.code, v)
		default:
			// label / constant immediates are handled by dedicated gadgets
			b.code = append(b.code, 0)
		}
	}
	b.pop(len(types))
	for _, t := range s.Return.Types {
		k := c31KindOf(t)
		if k == c31KAny && fieldType != nil && len(s.Return.Types) <= 2 && t.AVMType == avmAny {
			k = c31KindOf(*fieldType)
		}
		if t.AVMType == avmNone {
			continue
		}
		b.push(k, -1)
	}
	return true
}

// itxnField pushes a value of the field's type and sets it on the inner transaction under construction
func (b *c31Builder) itxnField() {
	r := b.r
	cands := c31ItxnFields[b.v]
	if cands == nil {
		for i := range txnFieldSpecs {
			if fs := &txnFieldSpecs[i]; fs.itxVersion != 0 && fs.itxVersion <= b.v {
				cands = append(cands, fs)
			}
		}
		c31ItxnFields[b.v] = cands
	}
	if len(cands) == 0 {
		return
	}
	fs := cands[r.Intn(len(cands))]
	switch fs.field {
	case TypeEnum:
		b.pushInt(uint64(r.Intn(8)))
	case ApplicationID:
		b.pushInt([]uint64{56, 100, 111, 888, 0, 5000}[r.Intn(6)])
	case XferAsset, ConfigAsset, FreezeAsset, Assets:
		b.pushInt([]uint64{55, 77, 0, 5000}[r.Intn(4)])
	case OnCompletion:
		b.pushInt(uint64(r.Intn(7)))
	case Fee, Amount, AssetAmount:
		b.pushInt([]uint64{0, 1, 1000, 1001, 1_000_000, r.Boundary64()}[r.Intn(6)])
	case ApprovalProgram, ClearStateProgram:
		b.pushBytes(c31TinyProgram(r, b.v))
	default:
		if r.Chance(1, 12) {
			b.pushTyped(StackAny)
		} else {
			b.pushTyped(fs.ftype)
		}
	}
	b.op("itxn_field", byte(fs.field))
	b.pop(1)
}

var c31ItxnFields [LogicVersion + 1][]*txnFieldSpec

func c31TinyProgram(r *kit.Rand, v uint64) []byte {
	pv := v
	if r.Chance(1, 6) {
		pv = uint64(r.Range(1, LogicVersion))
	}
	p := binary.AppendUvarint(nil, pv)
	switch r.Intn(4) {
	case 0:
		return append(p, 0x81, 1) // pushint 1
	case 1:
		return append(p, 0x81, 0)
	case 2:
		return append(p, 0x81, 1, 0x81, 1, 0x08, 0x48, 0x81, 1) // 1 1 + pop 1
	default:
		return append(p, r.Bytes(r.Intn(6))...)
	}
}

// ---- gadgets ------------------------------------------------------------------------------

// opcodes implemented in C (libsodium, secp256k1, falcon): favoured in the ASan lane
var c31CgoOps = []string{"ed25519verify", "ed25519verify_bare", "ecdsa_verify", "ecdsa_pk_decompress", "ecdsa_pk_recover", "vrf_verify", "falcon_verify"}
var c31AsanLane = os.Getenv("VERIF_LANE") == "asan"

// typedOps emits n random type-correct opcodes
func (b *c31Builder) typedOps(n int) {
	for i := 0; i < n && len(b.ops) > 0; i++ {
		s := &b.ops[b.r.Intn(len(b.ops))]
		if c31AsanLane && b.r.Chance(1, 3) {
			if cs, ok := OpsByName[b.v][c31CgoOps[b.r.Intn(len(c31CgoOps))]]; ok && cs.Modes&b.mode != 0 {
				s = &cs
			}
		}
		if b.depth() > 900 || len(b.code) > 30000 {
			return
		}
		if !b.special(s) {
			b.generic(s, 0)
		}
	}
}

// restore pops abstract entries above depth d (emitting pops)
func (b *c31Builder) restore(d int) {
	for b.depth() > d {
		extra := b.depth() - d
		if extra > 2 && b.has("popn") {
			n := min(extra, 255)
			b.op("popn", byte(n))
			b.pop(n)
		} else {
			b.op("pop")
			b.pop(1)
		}
	}
}

// loop: counter loop whose iteration count is chosen near what the budget allows
func (b *c31Builder) loop() {
	if b.v < backBranchEnabledVersion {
		b.typedOps(3)
		return
	}
	r := b.r
	bodyOps := r.Intn(4)
	perIter := 5 + 2*bodyOps
	n := uint64(max(b.budget/perIter+r.Intn(9)-4, 1))
	switch r.Intn(6) {
	case 0:
		n = uint64(r.Range(1, 5))
	case 1:
		n = r.Boundary64()
	}
	grow := r.Chance(1, 5) // leave one extra value per iteration: walks into the stack limit
	b.pushInt(n)
	top := b.newLabel()
	b.place(top)
	d := b.depth()
	b.typedOps(bodyOps)
	b.restore(d)
	if grow {
		b.op("dup")
		b.push(c31KAny, -1)
	}
	b.pushInt(1)
	b.op("-")
	b.pop(1)
	b.op("dup")
	b.branch("bnz", top)
	if grow && len(b.st) > d {
		b.st = b.st[:d]
	}
	b.op("pop")
	b.pop(1)
}

// subroutine: defines a subroutine (skipped over at definition) and calls it; possibly recursive
func (b *c31Builder) subroutine() {
	if !b.has("callsub") {
		b.typedOps(3)
		return
	}
	r := b.r
	skip := b.newLabel()
	sub := b.newLabel()
	b.branch("b", skip)
	saved := b.st
	b.st = nil
	b.place(sub)
	useProto := b.has("proto") && r.Chance(2, 3)
	nargs, nrets := r.Intn(4), r.Intn(3)
	if useProto {
		a, rt := byte(nargs), byte(nrets)
		if r.Chance(1, 10) {
			a, rt = byte(r.Intn(256)), byte(r.Intn(256))
		}
		b.op("proto", a, rt)
	}
	if b.has("frame_dig") {
		for i := 0; i < r.Intn(4); i++ {
			off := []int{-1, -2, -nargs, -nargs - 1, 0, 1, -128, 127, r.Intn(256) - 128}[r.Intn(9)]
			if r.Bool() {
				b.op("frame_dig", byte(int8(off)))
				b.push(c31KAny, -1)
			} else {
				b.pushTyped(StackAny)
				b.op("frame_bury", byte(int8(off)))
				b.pop(1)
			}
		}
	}
	b.typedOps(r.Intn(4))
	recursion := r.Intn(4)
	switch recursion {
	case 0: // unbounded recursion: ends by budget, callstack grows
		for i := 0; i < nargs; i++ {
			b.pushInt(uint64(i))
		}
		b.branch("callsub", sub)
	case 1: // bounded by a counter kept in scratch slot 200
		done := b.newLabel()
		b.op("load", 200)
		b.branch("bz", done)
		b.op("load", 200)
		b.pushInt(1)
		b.op("-")
		b.op("store", 200)
		b.pop(1)
		for i := 0; i < nargs; i++ {
			b.pushInt(uint64(i))
		}
		b.branch("callsub", sub)
		b.place(done)
	}
	b.st = nil
	for i := 0; i < nrets; i++ {
		b.pushInt(uint64(i))
	}
	if r.Chance(1, 8) {
		b.typedOps(1)
	}
	b.op("retsub")
	b.st = saved
	b.place(skip)
	if recursion == 1 {
		b.pushInt(uint64([]int{0, 1, 3, 50, b.budget / 8, b.budget}[r.Intn(6)]))
		b.op("store", 200)
		b.pop(1)
	}
	for i := 0; i < nargs; i++ {
		b.pushTyped(StackAny)
	}
	b.branch("callsub", sub)
	if useProto {
		b.pop(nargs)
	}
	for i := 0; i < nrets; i++ {
		b.push(c31KU, 0)
	}
	if r.Chance(1, 10) {
		b.op("retsub") // retsub with an empty callstack
	}
}

// table: switch / match with many labels
func (b *c31Builder) table() {
	if !b.has("switch") {
		b.typedOps(3)
		return
	}
	r := b.r
	n := []int{0, 1, 2, 3, 254, 255, r.Intn(256)}[r.Intn(7)]
	isMatch := r.Bool()
	if isMatch {
		m := min(n, 40)
		n = m
		kindBytes := r.Bool()
		for i := 0; i < m; i++ {
			if kindBytes {
				b.pushBytes([]byte{byte(i)})
			} else {
				b.pushInt(uint64(i))
			}
		}
		if kindBytes {
			b.pushBytes([]byte{byte(r.Intn(m + 2))})
		} else {
			b.pushInt(uint64(r.Intn(m + 2)))
		}
		b.code = append(b.code, 0x8e, byte(n))
		b.pop(m + 1)
	} else {
		b.pushInt([]uint64{0, 1, uint64(n), uint64(max(n-1, 0)), uint64(n + 1), r.Boundary64()}[r.Intn(6)])
		b.code = append(b.code, 0x8d, byte(n))
		b.pop(1)
	}
	filler := r.Intn(6)
	for i := 0; i < n; i++ {
		off := 0
		switch r.Intn(8) {
		case 0:
			off = r.Intn(2*filler + 1)
		case 1:
			off = 2 * filler
		case 2:
			off = -(2*n + 2 + r.Intn(8)) // back into or before the table itself
		case 3:
			off = r.Intn(65536) - 32768
		}
		b.code = append(b.code, byte(uint16(int16(off))>>8), byte(uint16(int16(off))))
	}
	for i := 0; i < filler; i++ { // landing zone: harmless pairs
		b.pushInt(uint64(i))
		b.op("pop")
		b.pop(1)
	}
}

// inner: inner transaction construction (app mode)
func (b *c31Builder) inner() {
	if !b.has("itxn_begin") || b.mode != ModeApp {
		b.typedOps(3)
		return
	}
	r := b.r
	b.op("itxn_begin")
	txns := 1
	if b.has("itxn_next") {
		txns = []int{1, 1, 1, 2, 3, 8, 9, 17}[r.Intn(8)]
	}
	for t := 0; t < txns; t++ {
		if t > 0 {
			b.op("itxn_next")
		}
		switch r.Intn(6) {
		case 0: // payment
			b.pushInt(1)
			b.op("itxn_field", byte(TypeEnum))
			b.pop(1)
			b.pushInt([]uint64{0, 1, 1000, 3_000_000, r.Boundary64()}[r.Intn(5)])
			b.op("itxn_field", byte(Amount))
			b.pop(1)
			b.pushAddress()
			b.op("itxn_field", byte(Receiver))
			b.pop(1)
		case 1, 2: // application call
			if b.v >= innerAppsEnabledVersion {
				b.pushInt(6)
				b.op("itxn_field", byte(TypeEnum))
				b.pop(1)
				b.pushInt([]uint64{56, 100, 111, 888, 56, 5000, 0}[r.Intn(7)])
				b.op("itxn_field", byte(ApplicationID))
				b.pop(1)
				if r.Chance(1, 3) {
					b.pushInt(uint64(r.Intn(6)))
					b.op("itxn_field", byte(OnCompletion))
					b.pop(1)
				}
			}
		case 3: // asset transfer
			b.pushInt(4)
			b.op("itxn_field", byte(TypeEnum))
			b.pop(1)
			b.pushInt(55)
			b.op("itxn_field", byte(XferAsset))
			b.pop(1)
			b.pushAddress()
			b.op("itxn_field", byte(AssetReceiver))
			b.pop(1)
		}
		for i := 0; i < r.Intn(5); i++ {
			b.itxnField()
		}
	}
	if r.Chance(9, 10) {
		b.op("itxn_submit")
	}
	if r.Bool() {
		if s, ok := OpsByName[b.v][[]string{"itxn", "itxna", "gitxn", "gitxna"}[r.Intn(4)]]; ok {
			b.generic(&s, 0)
		}
	}
}

// stackStress approaches the stack depth limit
func (b *c31Builder) stackStress() {
	r := b.r
	target := []int{998, 999, 1000, 1001, 1002, 1256}[r.Intn(6)] - b.depth()
	if target <= 0 {
		return
	}
	switch {
	case b.has("dupn"):
		b.pushTyped(StackAny)
		top := b.st[len(b.st)-1]
		target--
		for target > 0 {
			n := min(target, 255)
			b.op("dupn", byte(n))
			for i := 0; i < n; i++ {
				b.st = append(b.st, top)
			}
			target -= n
		}
	case b.v >= backBranchEnabledVersion:
		// counter loop leaving one value per iteration
		b.pushInt(uint64(target))
		top := b.newLabel()
		b.place(top)
		b.op("dup")
		b.pushInt(1)
		b.op("-")
		b.pop(1)
		b.op("dup")
		b.branch("bnz", top)
		for i := 0; i < min(target, 1000); i++ {
			b.push(c31KU, 0)
		}
	default:
		for i := 0; i < min(target, 1100); i++ {
			b.code = append(b.code, 0x22) // intc_0
			b.push(c31KU, 0)
		}
	}
	// operate at the limit
	switch r.Intn(5) {
	case 0:
		b.op("dup2")
	case 1:
		b.op("dup")
	case 2:
		if b.has("pushints") {
			b.constList(false)
		}
	case 3:
		if b.has("dig") {
			b.op("dig", byte(r.Intn(256)))
		}
	}
	if r.Bool() {
		b.restore(r.Intn(3))
	}
}

// constList: pushints / pushbytess with many or oversized entries
func (b *c31Builder) constList(bytesKind bool) {
	r := b.r
	n := []int{0, 1, 2, 255, 256, 300, 1001}[r.Intn(7)]
	if bytesKind {
		if !b.has("pushbytess") {
			return
		}
		n = min(n, 300)
		b.code = append(b.code, 0x82)
		b.uvarint(uint64(n))
		for i := 0; i < n; i++ {
			l := r.Intn(3)
			if i == 0 && r.Chance(1, 3) {
				l = []int{4095, 4096, 4097, 5000}[r.Intn(4)]
			}
			b.uvarint(uint64(l))
			b.code = append(b.code, make([]byte, l)...)
			b.push(c31KB, l)
		}
		return
	}
	if !b.has("pushints") {
		return
	}
	b.code = append(b.code, 0x83)
	b.uvarint(uint64(n))
	for i := 0; i < n; i++ {
		b.uvarint(uint64(i))
		b.push(c31KU, 0)
	}
}

// grow: doubling concat up to the byte-length limit, then boundary operations on the big value
func (b *c31Builder) grow() {
	if !b.has("concat") {
		b.typedOps(3)
		return
	}
	r := b.r
	start := []int{1, 2, 3, 4, 8, 1024, 1025, 2048, 2049}[r.Intn(9)]
	b.pushBytesLen(start)
	l := start
	for l < 4096 && r.Chance(15, 16) {
		b.op("dup")
		b.op("concat")
		l *= 2
	}
	b.st[len(b.st)-1].n = l
	if s, ok := OpsByName[b.v][[]string{"len", "sha256", "keccak256", "b~", "bitlen", "btoi", "sha512_256", "sha3_256", "sha512", "sumhash512"}[r.Intn(10)]]; ok {
		b.generic(&s, 0)
	}
	if r.Bool() {
		b.op("store", byte(r.Intn(256)))
		b.pop(1)
	}
}

// scratch traffic, including earlier transactions' scratch
func (b *c31Builder) scratch() {
	r := b.r
	b.pushTyped(StackAny)
	slot := byte(r.Intn(256))
	b.op("store", slot)
	b.pop(1)
	b.op("load", slot)
	b.push(c31KAny, -1)
	if b.mode == ModeApp && b.has("gload") {
		b.op("gload", byte(r.Intn(5)), byte(r.Intn(3)))
		b.push(c31KAny, -1)
	}
}

func (b *c31Builder) exit() {
	r := b.r
	switch r.Intn(4) {
	case 0:
		b.op("err")
	case 1:
		if b.has("return") {
			b.pushInt(uint64(r.Intn(2)))
			b.op("return")
			b.pop(1)
		}
	case 2:
		if b.has("assert") {
			b.pushInt(uint64(r.Intn(2)))
			b.op("assert")
			b.pop(1)
		}
	case 3:
		if b.v >= 2 { // jump to the end of the program
			end := b.newLabel()
			b.branch("b", end)
		}
	}
}

// c31GenStructured builds one structured program
func c31GenStructured(r *kit.Rand, v uint64, mode RunMode) []byte {
	b := c31NewBuilder(r, v, mode)
	b.prologue()
	gadgets := r.Range(1, 7)
	for g := 0; g < gadgets && len(b.code) < 20000; g++ {
		switch r.Pick([]int{40, 12, 10, 6, 8, 3, 3, 6, 4, 2}) {
		case 0:
			b.typedOps(r.Range(1, 12))
		case 1:
			b.loop()
		case 2:
			b.subroutine()
		case 3:
			b.table()
		case 4:
			b.inner()
		case 5:
			b.stackStress()
		case 6:
			b.constList(r.Bool())
		case 7:
			b.grow()
		case 8:
			b.scratch()
		case 9:
			b.exit()
		}
	}
	// epilogue: usually leave exactly one integer
	if r.Chance(3, 4) {
		b.restore(0)
		b.pushInt(uint64(r.Intn(3)))
	}
	b.resolve()
	return b.code
}

// ---------------------------------------------------------------------------------------------
// (i) random programs

func c31VersionPrefix(r *kit.Rand) ([]byte, uint64) {
	switch r.Intn(20) {
	case 0: // non-canonical multi-byte varint of a valid version
		v := uint64(r.Range(0, LogicVersion+1))
		return []byte{byte(v) | 0x80, 0x00}, v
	case 1:
		v := uint64(r.Range(0, LogicVersion+1))
		return []byte{byte(v) | 0x80, 0x80, 0x80, 0x00}, v
	case 2: // huge / overlong versions
		p := [][]byte{{0xff, 0xff, 0xff, 0xff, 0xff, 0xff, 0xff, 0xff, 0xff, 0x01}, {0xff, 0xff, 0xff, 0xff, 0xff, 0xff, 0xff, 0xff, 0xff, 0xff, 0x01}, {0x80}, {0x7f}, {0xff, 0x7f}}[r.Intn(5)]
		return p, 0
	default:
		v := uint64(r.Range(0, LogicVersion+1))
		return []byte{byte(v)}, v
	}
}

var c31OpcodeBytes [LogicVersion + 2][]byte

func c31ValidOpcodes(v uint64) []byte {
	if v > LogicVersion {
		v = LogicVersion
	}
	if c31OpcodeBytes[v] != nil {
		return c31OpcodeBytes[v]
	}
	var out []byte
	for i := 0; i < 256; i++ {
		if opsByOpcode[v][i].op != nil || opsByOpcode[v][i].SubOps != nil {
			out = append(out, byte(i))
		}
	}
	c31OpcodeBytes[v] = out
	return out
}

func c31GenRandom(r *kit.Rand) ([]byte, uint64) {
	prefix, v := c31VersionPrefix(r)
	if r.Chance(1, 60) {
		return nil, 0 // the empty program
	}
	var body []byte
	n := r.Intn(120)
	if r.Chance(1, 10) {
		n = r.Intn(3)
	}
	switch r.Intn(3) {
	case 0: // uniform bytes
		body = r.Bytes(n)
	case 1: // valid opcode bytes with random immediates in between
		ops := c31ValidOpcodes(v)
		for i := 0; i < n; i++ {
			if r.Chance(3, 4) {
				body = append(body, ops[r.Intn(len(ops))])
			} else {
				body = append(body, byte(r.Intn(8)))
			}
		}
	default: // mostly stack-feeding opcodes so that later opcodes find operands
		ops := c31ValidOpcodes(v)
		body = append(body, 0x20, 3, 0, 1, byte(r.Intn(128)), 0x26, 2, 1, byte(r.Intn(256)), 2, 0xff, 0xfe)
		for i := 0; i < n; i++ {
			switch r.Intn(4) {
			case 0:
				body = append(body, 0x22+byte(r.Intn(3))) // intc_N
			case 1:
				body = append(body, 0x28+byte(r.Intn(2))) // bytec_N
			default:
				body = append(body, ops[r.Intn(len(ops))])
				if r.Bool() {
					body = append(body, byte(r.Intn(4)))
				}
			}
		}
	}
	return append(prefix, body...), v
}

// ---------------------------------------------------------------------------------------------
// (ii) corpus and mutations

// runnable programs (TEAL source, minimum version). They execute deep on the sample environment, so
// that mutations explore behaviour behind the first few instructions.
var c31Sources = []struct {
	minV uint64
	app  bool
	src  string
}{
	{4, false, `int 0; store 0; int 50
loop: dup; load 0; +; store 0; int 1; -; dup; bnz loop
pop; load 0; int 1275; ==`},
	{4, false, `int 10; callsub fact; int 3628800; ==; return
fact: dup; int 1; <=; bnz done; dup; int 1; -; callsub fact; *
done: retsub`},
	{8, false, `int 3; int 4; callsub add; int 7; ==; return
add: proto 2 1; frame_dig -1; frame_dig -2; +; dup; frame_bury 0; retsub`},
	{5, false, `byte "hello world"; dup; concat; dup; len; int 22; ==; assert
extract 3 5; byte "lo wo"; ==; assert
byte 0x0102030405060708; dup; int 2; extract_uint32; int 0x03040506; ==; assert
int 1; int 9; setbyte; int 1; getbyte; int 9; ==; assert
byte 0xffff; byte 0x01; b+; byte 0x010000; b==; assert
int 7; itob; btoi; int 7; ==`},
	{2, false, `txn Sender; len; int 32; ==; txn Fee; int 1337; ==; &&; txn Note; byte "fnord"; ==; &&; global MinTxnFee; int 1001; ==; &&; gtxn 0 Amount; int 1000000; ==; &&; arg 0; len; int 0; >=; &&`},
	{3, false, `int 5; int 6; int 7; dig 2; swap; select; pushbytes 0x00ff; int 9; getbit; +; +; int 1; >=`},
	{7, false, `byte "{\"a\":1,\"b\":\"x\",\"c\":{\"d\":2}}"; dup; byte "a"; json_ref JSONUint64; int 1; ==; assert
dup; byte "c"; json_ref JSONObject; byte "d"; json_ref JSONUint64; int 2; ==; assert
byte "b"; json_ref JSONString; byte "x"; ==; assert
byte "YWJj"; base64_decode StdEncoding; byte "abc"; ==`},
	{8, false, `int 2; switch a b c; err
a: err
b: err
c: byte "x"; byte "y"; byte "z"; byte "z"; match d e f; err
d: err
e: err
f: pushints 1 2 3; popn 2; pushbytess "aa" "bb"; concat; len; int 4; ==; &&`},
	{6, false, `byte 0x0102; sha256; keccak256; sha512_256; len; int 32; ==; assert
byte 0x01; dup; concat; dup; concat; dup; concat; dup; concat; dup; concat; dup; concat; len; int 64; ==; assert
int 1; int 2; mulw; pop; pop; int 1; int 0; int 3; int 1; divmodw; pop; pop; pop; pop
int 2; int 10; exp; int 1024; ==; int 2; int 100; expw; pop; pop; byte 0x10; bsqrt; byte 0x04; b==; &&`},
	{10, false, `byte 0x0000000000000000000000000000000000000000000000000000000000000001; ec_map_to BN254g1; dup; ec_subgroup_check BN254g1; assert
dup; ec_add BN254g1; byte 0x02; ec_scalar_mul BN254g1; len; int 64; ==`},
	{3, true, `byte "k"; int 5; app_global_put; byte "k"; app_global_get; int 5; ==; assert
int 0; byte "l"; byte "v"; app_local_put; int 0; int 0; byte "l"; app_local_get_ex; assert; byte "v"; ==; assert
byte "k"; app_global_del; int 0; balance; int 0; >`},
	{5, true, `byte "a log"; log; itxn_begin; int pay; itxn_field TypeEnum; int 5; itxn_field Amount; txn Sender; itxn_field Receiver; itxn_submit
itxn Amount; int 5; ==`},
	{6, true, `itxn_begin; int appl; itxn_field TypeEnum; int 56; itxn_field ApplicationID; itxn_next; int pay; itxn_field TypeEnum; txn Sender; itxn_field Receiver; itxn_submit
gitxn 1 Amount; int 0; ==; global OpcodeBudget; int 0; >; &&`},
	{8, true, `byte "self"; int 24; box_create; pop; byte "self"; int 2; byte 0xaabb; box_replace; byte "self"; int 0; int 8; box_extract; len; int 8; ==; assert
byte "other"; box_len; assert; int 50; ==; assert; byte "other"; box_get; assert; len; int 50; ==; assert
byte "self"; box_del`},
	{6, true, `itxn_begin; int appl; itxn_field TypeEnum; int 56; itxn_field ApplicationID; byte "arg0"; itxn_field ApplicationArgs; byte "arg1"; itxn_field ApplicationArgs; itxn_submit
itxna ApplicationArgs 1; byte "arg1"; ==; assert; gitxna 0 ApplicationArgs 0; len; int 4; ==; assert
int 0; itxnas ApplicationArgs; pop; int 1; gitxnas 0 ApplicationArgs; pop; itxn NumAppArgs; int 2; ==`},
	{6, true, `gaid 0; pop; int 0; gaids; pop; int 0; int 1; gloadss; pop; int 0; gloads 1; pop; gload 0 0; pop; int 0; gtxnsa ApplicationArgs 0; pop; int 0; txnas ApplicationArgs; pop; int 0; gtxnas 0 ApplicationArgs; pop; int 0; int 0; gtxnsas ApplicationArgs; pop; int 1`},
	{13, true, `int 56; byte "self"; app_box_len; pop; pop; int 56; byte "self"; app_box_get; pop; pop; int 56; byte "self"; int 0; int 4; app_box_extract; pop
int 56; byte "self"; int 1; byte 0x77; app_box_replace; int 56; byte "self"; byte 0x00010203040506070809; app_box_put
int 56; byte "self"; int 1; int 2; byte 0x5566; app_box_splice; int 56; byte "self"; int 12; app_box_resize; int 56; byte "fresh"; int 8; app_box_create; pop
int 56; byte "fresh"; app_box_del; pop; int 1`},
	{10, true, `byte "self"; int 24; box_create; pop; byte "self"; int 2; int 3; byte 0x11223344; box_splice; byte "self"; int 20; box_resize; byte "other"; byte "01234567890123456789012345678901234567890123456789"; box_put; int 1`},
	{6, true, `int 0; int 55; asset_holding_get AssetBalance; pop; pop; int 0; int 888; app_opted_in; pop; int 0; byte "lu"; app_local_get; pop; txn Sender; acct_params_get AcctBalance; pop; pop; int 1`},
	{5, false, `byte 0x02a1b1c1d1e1f101112131415161718191a1b1c1d1e1f101112131415161718191; ecdsa_pk_decompress Secp256k1; pop; pop; int 1`},
	{13, false, `byte 0x0000000000000000000000000000000000000000000000000000000000000001; dup; concat; poseidon2 BN254t2; len; int 32; ==
byte 0x0000000000000000000000000000000000000000000000000000000000000001; ec_map_to BN254g1; byte 0x0000000000000000000000000000000000000000000000000000000000000002; ec_multi_scalar_mul BN254g1; len; int 64; ==; &&`},
	{5, true, `int 0; gload 0 0; pop; int 1; int 0; gaid 0; pop; int 888; app_params_get AppCreator; pop; pop; int 55; asset_params_get AssetTotal; pop; pop; int 1`},
}

type c31Corpus struct {
	progs [][]byte
	app   []bool // written for application mode
}

var c31TheCorpus *c31Corpus

func c31GetCorpus(st *c31Stats) *c31Corpus {
	if c31TheCorpus != nil {
		return c31TheCorpus
	}
	co := &c31Corpus{}
	for v := uint64(1); v <= LogicVersion; v++ {
		if h, ok := compiled[v]; ok {
			if p, err := hex.DecodeString(h); err == nil {
				co.progs = append(co.progs, p)
				co.app = append(co.app, false)
			}
		}
	}
	for _, s := range c31Sources {
		for v := s.minV; v <= LogicVersion; v++ {
			if v != s.minV && v != LogicVersion && v != LogicVersion-1 && v%3 != 0 {
				continue
			}
			ops, err := AssembleStringWithVersion(strings.ReplaceAll(s.src, "; ", "\n"), v)
			if err != nil {
				st.Counters["corpus_assembly_failures"]++
				if os.Getenv("VERIF_C31_DEBUG") != "" {
					fmt.Printf("corpus source %.30q v%d: %v %v\n", s.src, v, err, ops.Errors)
				}
				continue
			}
			co.progs = append(co.progs, ops.Program)
			co.app = append(co.app, s.app)
		}
	}
	st.Counters["corpus_programs"] = int64(len(co.progs))
	c31TheCorpus = co
	return co
}

// c31InstrStarts decodes instruction boundaries with the opcode table (best effort: stops at the
// first undecodable instruction)
func c31InstrStarts(p []byte) []int {
	v, vlen := binary.Uvarint(p)
	if vlen <= 0 || v > LogicVersion {
		return nil
	}
	var out []int
	pc := vlen
	uv := func(at int) (uint64, int) {
		if at >= len(p) {
			return 0, -1
		}
		x, n := binary.Uvarint(p[at:])
		if n <= 0 {
			return 0, -1
		}
		return x, n
	}
	for pc < len(p) && len(out) < 5000 {
		out = append(out, pc)
		spec := &opsByOpcode[v][p[pc]]
		if spec.SubOps != nil {
			pc += 2
			continue
		}
		if spec.op == nil {
			return out
		}
		if spec.Size != 0 {
			pc += spec.Size
			continue
		}
		switch spec.Name {
		case "intcblock", "pushints":
			n, k := uv(pc + 1)
			if k < 0 || n > uint64(len(p)) {
				return out
			}
			pc += 1 + k
			for i := uint64(0); i < n; i++ {
				_, k := uv(pc)
				if k < 0 {
					return out
				}
				pc += k
			}
		case "bytecblock", "pushbytess":
			n, k := uv(pc + 1)
			if k < 0 || n > uint64(len(p)) {
				return out
			}
			pc += 1 + k
			for i := uint64(0); i < n; i++ {
				l, k := uv(pc)
				if k < 0 || l > uint64(len(p)) {
					return out
				}
				pc += k + int(l)
			}
		case "pushint":
			_, k := uv(pc + 1)
			if k < 0 {
				return out
			}
			pc += 1 + k
		case "pushbytes":
			l, k := uv(pc + 1)
			if k < 0 || l > uint64(len(p)) {
				return out
			}
			pc += 1 + k + int(l)
		case "switch", "match":
			if pc+1 >= len(p) {
				return out
			}
			pc += 2 + 2*int(p[pc+1])
		default: // varint branches
			_, k := uv(pc + 1)
			if k < 0 {
				return out
			}
			pc += 1 + k
		}
	}
	return out
}

func c31Mutate(r *kit.Rand, base []byte, other []byte) []byte {
	p := append([]byte{}, base...)
	n := r.Range(1, 4)
	for m := 0; m < n && len(p) > 1; m++ {
		starts := c31InstrStarts(p)
		at := 1 + r.Intn(len(p)-1)
		if len(starts) > 0 && r.Chance(3, 4) {
			at = starts[r.Intn(len(starts))]
		}
		v, _ := binary.Uvarint(p)
		switch r.Intn(12) {
		case 0: // opcode substitution
			ops := c31ValidOpcodes(v)
			p[at] = ops[r.Intn(len(ops))]
		case 1: // immediate corruption
			if at+1 < len(p) {
				p[at+1+r.Intn(min(3, len(p)-at-1))] = []byte{0, 1, 0x7f, 0x80, 0xff, byte(r.Intn(256))}[r.Intn(6)]
			}
		case 2: // truncation
			p = p[:at]
		case 3: // bit flip
			p[at] ^= 1 << uint(r.Intn(8))
		case 4: // delete a range
			end := min(len(p), at+r.Range(1, 6))
			p = append(p[:at], p[end:]...)
		case 5: // duplicate a range
			end := min(len(p), at+r.Range(1, 12))
			seg := append([]byte{}, p[at:end]...)
			for k := r.Range(1, 4); k > 0 && len(p) < 30000; k-- {
				p = append(p[:at], append(seg, p[at:]...)...)
			}
		case 6: // insert random bytes / opcodes
			ops := c31ValidOpcodes(v)
			ins := []byte{ops[r.Intn(len(ops))], byte(r.Intn(256))}[:r.Range(1, 2)]
			p = append(p[:at], append(ins, p[at:]...)...)
		case 7: // version change
			if r.Bool() {
				p[0] = byte(r.Range(0, LogicVersion+1))
			} else if p[0] > 1 {
				p[0] += byte(r.Intn(3)) - 1
			}
		case 8: // branch offset edit: find a branch-like opcode and rewrite its offset
			for _, s := range starts {
				if (p[s] >= 0x40 && p[s] <= 0x42) || p[s] == 0x88 {
					if s+2 < len(p) && r.Chance(1, 3) {
						off := []int{0, -1, -3, -4, 1, 2, 32767, -32768, r.Intn(64) - 32}[r.Intn(9)]
						if v >= varintBranchVersion {
							z := uint64(int64(off)<<1) ^ uint64(int64(off)>>63)
							enc := binary.AppendUvarint(nil, z)
							p = append(p[:s+1], append(enc, p[s+1+1:]...)...)
						} else {
							p[s+1], p[s+2] = byte(uint16(int16(off))>>8), byte(uint16(int16(off)))
						}
						break
					}
				}
			}
		case 9: // constant block corruption: rewrite a count or length varint
			for _, s := range starts {
				if p[s] == 0x20 || p[s] == 0x26 || p[s] == 0x80 || p[s] == 0x82 || p[s] == 0x83 {
					if s+1 < len(p) && r.Bool() {
						p[s+1] = []byte{0, 1, 0x7f, 0x80, 0xff, byte(r.Intn(256))}[r.Intn(6)]
						break
					}
				}
			}
		case 10: // splice with another program
			if len(other) > 2 {
				cut := 1 + r.Intn(len(other)-1)
				p = append(p[:at], other[cut:]...)
			}
		case 11: // overwrite a range with 0xff / 0x00 / 0x80
			fill := []byte{0xff, 0x00, 0x80}[r.Intn(3)]
			for i := at; i < min(len(p), at+r.Range(1, 10)); i++ {
				p[i] = fill
			}
		}
	}
	return p
}
