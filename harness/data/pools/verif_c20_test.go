package pools

// C20, part "pool": blocks that a node assembles from its own transaction pool validate.
//
// The C20 "determinism" part generates blocks straight from the evaluator and never goes through
// TransactionPool.AssembleBlock. This part does: on a real in-memory ledger with the real pool
// (helpers shared with the C44 harness) the pool is filled to about 0.2x, 1x, 1.2x and 2.5x of one
// block's capacity, and for several consecutive rounds the monitor does what a proposing node does:
// AssembleBlock(next round) -> FinishBlock(seed, proposer) -> Ledger.Validate on the same ledger
// (real signature verification) -> AddValidatedBlock -> OnNewBlock.
//
// Oracle: Validate must ACCEPT every assembled block (it recomputes Load, TxnCounter, FeesCollected,
// the payset commitment ... from the payset and compares with the header the pool's evaluator
// produced); independently the monitor checks that the payset fits MaxTxnBytesPerBlock, that it
// matches the header commitment and - under a LoadTracking protocol - that the header's Load equals
// ComputeLoad(bytes of the payset). Nothing is demanded about WHICH pending transactions are taken.

import (
	"context"
	"fmt"
	"sync"
	"sync/atomic"
	"testing"
	"time"

	"github.com/algorand/go-algorand/agreement"
	"github.com/algorand/go-algorand/config"
	"github.com/algorand/go-algorand/data/basics"
	"github.com/algorand/go-algorand/data/bookkeeping"
	"github.com/algorand/go-algorand/data/committee"
	"github.com/algorand/go-algorand/data/transactions"
	"github.com/algorand/go-algorand/ledger/eval"
	"github.com/algorand/go-algorand/ledger/ledgercore"
	"github.com/algorand/go-algorand/protocol"
	"github.com/algorand/go-algorand/util/execpool"
	"verif.local/kit"
)

var c20Protos = map[int]protocol.ConsensusVersion{}

// c20RegisterProtos registers private copies of the current consensus parameters whose only
// difference is a small MaxTxnBytesPerBlock, so that "more than one block's worth of pending
// transactions" costs dozens of transactions instead of thousands.
func c20RegisterProtos() {
	for _, sz := range []int{4000, 12000, 40000} {
		v := protocol.ConsensusVersion(fmt.Sprintf("verif-c20-blockbytes-%d", sz))
		p := config.Consensus[protocol.ConsensusCurrentVersion]
		p.MaxTxnBytesPerBlock = sz
		p.ApprovedUpgrades = map[protocol.ConsensusVersion]uint64{}
		config.Consensus[v] = p
		c20Protos[sz] = v
	}
}

func c20Bytes(groups [][]transactions.SignedTxn) int {
	n := 0
	for _, g := range groups {
		for _, t := range g {
			n += t.GetEncodedLength()
		}
	}
	return n
}

// c20Fill submits payments and small groups until the pool's pending set is about target bytes.
func c20Fill(c *kit.Ctx, w *c44World, r *kit.Rand, target int, maxNote int) {
	have := c20Bytes(w.pool.PendingTxGroups())
	next := w.next()
	for tries := 0; have < target && tries < 20000; tries++ {
		mk := func() transactions.Transaction {
			a := w.funded[r.Intn(len(w.funded))]
			tx := w.pay(r, a, w.other(r, a), uint64(r.Range(0, 1000)), 0, next, next+basics.Round(r.Range(20, 200)))
			if r.Chance(3, 4) {
				tx.Note = w.note(r, r.Range(0, maxNote))
			}
			// enough for the current dynamic fee-per-byte threshold of the pool
			tx.Fee.Raw = w.params.MinTxnFee*uint64(r.Range(1, 5)) + (w.pool.FeePerByte()+1)*uint64(len(tx.Note)+400)
			return tx
		}
		var g []transactions.SignedTxn
		if r.Chance(1, 6) {
			txs := make([]transactions.Transaction, r.Range(2, 3))
			for i := range txs {
				txs[i] = mk()
			}
			g = w.group(txs)
		} else {
			g = []transactions.SignedTxn{w.sign(mk())}
		}
		if err := w.pool.Remember(g); err != nil {
			c.Count("fill_rejected:"+c44ErrClass(err), 1)
			continue
		}
		c.Count("fill_accepted_txns", len(g))
		have += c20Bytes([][]transactions.SignedTxn{g})
	}
}

type c20Step struct {
	Round        uint64
	FillFactor   string
	PendingBytes int
	PendingTxns  int
	BlockTxns    int
	BlockBytes   int
	Load         uint64
}

func c20RunCase(c *kit.Ctx, i int, scratch string, proto protocol.ConsensusVersion, rounds int, fills []int, backlog execpool.BacklogPool) {
	cfg := c44Config{Case: 200000 + i, Proto: proto, PoolSize: 200000, NFunded: 8, NFresh: 1, Balance: 1 << 50, ExpFactor: 2}
	w, err := c44NewWorld(c, cfg, scratch)
	if err != nil {
		c.Harness("case %d: cannot build world: %v", i, err)
		return
	}
	defer w.close()
	r := c.Rand(2001, uint64(i))
	maxBytes := w.params.MaxTxnBytesPerBlock
	maxNote := w.params.MaxTxnNoteBytes - 8
	if maxBytes < 8000 {
		maxNote = 300
	}
	var trail []c20Step
	fullInARow := 0
	// what the pool held when it last re-evaluated (OnNewBlock) = what the next proposal was assembled from
	asmPendBytes, asmPendTxns := 0, 0
	names := map[int]string{20: "0.2x", 100: "1x", 120: "1.2x", 250: "2.5x"}
	c.Guard("pool-assemble", map[string]any{"case": i, "proto": string(proto)}, func() {
		for k := 0; k < rounds && c.Violations() == 0; k++ {
			// 1. the proposal for the next round was pre-assembled by the pool at the last OnNewBlock from
			//    what was pending then (the first proposal of a fresh pool is therefore empty)
			next := w.next()
			pendBytes, pendTxns := asmPendBytes, asmPendTxns
			ub, err := w.pool.AssembleBlock(next, time.Now().Add(10*time.Minute))
			if err != nil || ub == nil {
				c.Harness("case %d round %d: AssembleBlock: %v", i, next, err)
				return
			}
			// 2. meanwhile transactions keep arriving: fill so that about f x one block will be pending
			//    once this proposal has been committed (that is what the following proposal is built from)
			f := fills[r.Intn(len(fills))]
			if k == 0 {
				f = fills[i%len(fills)]
			}
			jitter := 100
			if f == 100 {
				jitter = r.Range(92, 108)
			}
			propBytes := 0
			for _, t := range ub.UnfinishedBlock().Payset {
				propBytes += t.GetEncodedLength()
			}
			c20Fill(c, w, r, propBytes+maxBytes*f/100*jitter/100, maxNote)
			// 3. what agreement does with the assembled block
			proposer := w.funded[r.Intn(len(w.funded))]
			var seed committee.Seed
			copy(seed[:], r.Bytes(32))
			blk := ub.FinishBlock(seed, proposer, false)
			blockBytes := 0
			for j := range blk.Payset {
				blockBytes += blk.Payset[j].GetEncodedLength()
			}
			st := c20Step{Round: uint64(next), FillFactor: names[f], PendingBytes: pendBytes, PendingTxns: pendTxns,
				BlockTxns: len(blk.Payset), BlockBytes: blockBytes, Load: uint64(blk.BlockHeader.Load)}
			trail = append(trail, st)
			wit := func(extra map[string]any) map[string]any {
				m := map[string]any{"case": i, "protocol": string(proto), "max_txn_bytes_per_block": maxBytes, "round": uint64(next),
					"assembled": st, "history": trail}
				for k, v := range extra {
					m[k] = v
				}
				return m
			}
			c.Eval(1)
			// 4. the oracle
			if blk.Round() != next {
				c.Violation("assembled-block-wrong-round", wit(map[string]any{"got_round": uint64(blk.Round())}))
				return
			}
			if blockBytes > maxBytes {
				c.Violation("assembled-block-too-large", wit(nil))
				return
			}
			if !blk.ContentsMatchHeader() {
				c.Violation("assembled-block-payset-commitment-mismatch", wit(nil))
				return
			}
			if want := eval.ComputeLoad(blockBytes, maxBytes); w.params.LoadTracking && blk.BlockHeader.Load != want {
				c.Violation("assembled-block-load-mismatch", wit(map[string]any{"header_load": uint64(blk.BlockHeader.Load), "load_recomputed_from_payset": uint64(want)}))
				return
			}
			vb, verr := w.l.Validate(context.Background(), blk, backlog)
			if verr != nil {
				if c44InfraErr(verr) {
					c.Harness("case %d: Validate hit a database lock error: %v", i, verr)
					return
				}
				c.Violation("assembled-block-rejected", wit(map[string]any{"validate_error": verr.Error()}))
				return
			}
			c.Count("blocks_validated", 1)
			// classification for the vacuity guards and the distinct keys
			full := len(blk.Payset) < pendTxns && blockBytes*10 >= maxBytes*6
			over := pendBytes > maxBytes
			if over {
				c.Count("pool_over_one_block_at_assembly", 1)
			}
			switch {
			case full:
				c.Count("full_blocks_assembled", 1)
				fullInARow++
				if fullInARow >= 2 {
					c.Count("consecutive_full_blocks", 1)
				}
				if proto == protocol.ConsensusCurrentVersion {
					c.Count("current_protocol_full_blocks", 1)
				}
			case len(blk.Payset) == 0:
				c.Count("empty_blocks", 1)
				fullInARow = 0
			default:
				c.Count("partial_blocks", 1)
				fullInARow = 0
			}
			groups := 0
			for j := range blk.Payset {
				if !blk.Payset[j].Txn.Group.IsZero() {
					groups++
				}
			}
			ratio := 0
			if maxBytes > 0 {
				ratio = pendBytes * 4 / maxBytes
			}
			c.Distinct(fmt.Sprintf("%s|full%v|pend%d|load%d|grp%v|row%d", proto, full, min(ratio, 12), uint64(blk.BlockHeader.Load)/100000, groups > 0, min(fullInARow, 3)))
			c.Max("max_pending_over_block_x100", int64(pendBytes*100/maxBytes))
			// 5. commit and tell the pool
			if err := w.l.AddValidatedBlock(*vb, agreement.Certificate{}); err != nil {
				c.Harness("case %d: AddValidatedBlock: %v", i, err)
				return
			}
			w.pool.OnNewBlock(blk, vb.Delta())
			pend := w.pool.PendingTxGroups()
			asmPendBytes, asmPendTxns = c20Bytes(pend), c44Count(pend)
		}
	})
	if i < 4 && len(trail) > 0 {
		c.Sample(map[string]any{"case": i, "protocol": string(proto), "max_txn_bytes_per_block": maxBytes, "rounds": trail[:min(len(trail), 6)]})
	}
}

var _ = bookkeeping.Block{}
var _ = ledgercore.ErrNoSpace

func TestVerifC20Pool(t *testing.T) {
	c := kit.Start(t, "C20", "pool")
	defer c.Finish()
	c.Rule("PRNG histories on a real in-memory ledger with the real TransactionPool: the pool is filled with signed payments and 2-3 transaction groups (notes of PRNG size) to about 0.2x / 1x / 1.2x / 2.5x of MaxTxnBytesPerBlock, then for consecutive rounds AssembleBlock(next) -> FinishBlock(seed, proposer) -> Ledger.Validate with real signature verification -> AddValidatedBlock -> OnNewBlock, refilling in between; protocols: private copies of the current version with 4/12/40 kB blocks plus the unmodified current version (5 MB blocks); distinct = distinct (protocol, block full or not, pending bytes in quarters of a block, header Load bucket, groups in block, consecutive full blocks)")
	c.Assume("Ledger.Validate on the same ledger is what every other node with the same state computes; the small-block protocols differ from the current one only in MaxTxnBytesPerBlock")
	c20RegisterProtos()
	scratch := c.Scratch("c20pool")
	backlog := execpool.MakeBacklog(nil, 0, execpool.LowPriority, nil)
	defer backlog.Shutdown()
	fills := []int{20, 100, 120, 250}
	type job struct {
		proto  protocol.ConsensusVersion
		rounds int
		fills  []int
	}
	var jobs []job
	nsmall := c.N(18, 240)
	for i := 0; i < nsmall; i++ {
		jobs = append(jobs, job{c20Protos[[]int{4000, 12000, 40000}[i%3]], c.N(8, 12), fills})
	}
	// the unmodified current protocol: 5 MB blocks, thousands of transactions per block
	for i := 0; i < c.N(1, 4); i++ {
		jobs = append(jobs, job{protocol.ConsensusCurrentVersion, c.N(3, 4), [][]int{{120}, {250}, {100}, {120, 20}}[i%4]})
	}
	var wg sync.WaitGroup
	var nextJob atomic.Int64
	for wk := 0; wk < 8; wk++ {
		wg.Add(1)
		go func() {
			defer wg.Done()
			for {
				// the big cases first so that they overlap with the small ones
				k := int(nextJob.Add(1)) - 1
				if k >= len(jobs) || c.Violations() > 0 {
					return
				}
				i := len(jobs) - 1 - k
				c20RunCase(c, i, scratch, jobs[i].proto, jobs[i].rounds, jobs[i].fills, backlog)
				c.Count("cases", 1)
			}
		}()
	}
	wg.Wait()
	c.Require("cases", int64(len(jobs)))
	c.Require("blocks_validated", int64(6*nsmall))
	c.Require("full_blocks_assembled", int64(2*nsmall))
	c.Require("pool_over_one_block_at_assembly", int64(2*nsmall))
	c.Require("consecutive_full_blocks", int64(nsmall/2))
	c.Require("partial_blocks", int64(nsmall/2))
	c.Require("current_protocol_full_blocks", 1)
}
