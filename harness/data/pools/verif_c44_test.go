package pools

// C44: the transaction pool only holds transactions that can still commit.
//
// Oracle (sequential part). After every step of a history (a submission through Remember or a new
// block followed by OnNewBlock), with P = PendingTxGroups():
//   - no txid of P is in a committed block (the monitor keeps its own set of committed txids);
//   - no txid occurs twice in P;
//   - |P| (in transactions) <= the configured TxPoolSize (+1 if P holds a state-proof transaction,
//     the one documented exception in checkPendingQueueSize);
//   - no member has LastValid < next round;
//   - P replayed in order by the monitor on a FRESH evaluator for the next round on the real ledger
//     has no rejected group. The replay treats ErrNoSpace exactly like the pool does (the pending set
//     may legitimately span several blocks: ResetTxnBytes and retry once), so it is not stricter
//     than the code;
//   - Remember returned nil only for a group that the same replay accepts on top of the P observed
//     before the call.
// The oracle does not demand that Remember accepts anything (fee threshold, capacity, the pool's
// stricter multi-block expiry rule are all legitimate reasons to refuse).
//
// P is only read at quiescent points: every block is added to the ledger and then handed to
// OnNewBlock synchronously before the next step, so the pool never lags behind the ledger when
// the oracle looks.
//
// The concurrent part runs the same operations from several goroutines (blocks are delivered by the
// ledger's block notifier like in a node). It exists for the race detector; at the final quiescent
// point the same invariants are evaluated, except that a size overshoot is an observation (the size
// check in Remember is not atomic with the insertion; the property is stated over sequential
// histories).

import (
	"errors"
	"fmt"
	"io"
	"strings"
	"path/filepath"
	"sync"
	"sync/atomic"
	"testing"
	"time"

	"github.com/algorand/go-algorand/agreement"
	"github.com/algorand/go-algorand/config"
	"github.com/algorand/go-algorand/crypto"
	"github.com/algorand/go-algorand/data/basics"
	"github.com/algorand/go-algorand/data/bookkeeping"
	"github.com/algorand/go-algorand/data/transactions"
	"github.com/algorand/go-algorand/ledger"
	"github.com/algorand/go-algorand/ledger/ledgercore"
	"github.com/algorand/go-algorand/logging"
	"github.com/algorand/go-algorand/protocol"
	"verif.local/kit"
)

// ---------------------------------------------------------------------------------------------
// world: a real in-memory ledger + the real pool + the monitor's own bookkeeping

type c44Config struct {
	Case      int
	Proto     protocol.ConsensusVersion
	PoolSize  int
	NFunded   int
	NFresh    int
	Balance   uint64
	ExpFactor uint64
}

type c44Op struct {
	Kind   string                      // "submit" | "block" | "assemble"
	Label  string                      // generator label (for the witness and for distinct keys)
	Group  []transactions.SignedTxn    // submit
	Groups [][]transactions.SignedTxn  // block: candidates in order; those the evaluator rejects are skipped
}

func (o c44Op) String() string {
	switch o.Kind {
	case "submit":
		s := o.Label + "["
		for i, t := range o.Group {
			if i > 0 {
				s += ","
			}
			s += c44Txn(t)
		}
		return s + "]"
	case "block":
		n := 0
		for _, g := range o.Groups {
			n += len(g)
		}
		return fmt.Sprintf("block:%s(%d groups/%d txns offered)", o.Label, len(o.Groups), n)
	}
	return o.Kind + ":" + o.Label
}

func c44Txn(t transactions.SignedTxn) string {
	x := t.Txn
	s := fmt.Sprintf("%s %s>%s amt=%d fee=%d fv=%d lv=%d", t.ID().String()[:6], x.Sender.String()[:4], x.Receiver.String()[:4], x.Amount.Raw, x.Fee.Raw, x.FirstValid, x.LastValid)
	if !x.CloseRemainderTo.IsZero() {
		s += " close>" + x.CloseRemainderTo.String()[:4]
	}
	if x.Lease != ([32]byte{}) {
		s += fmt.Sprintf(" lease=%x", x.Lease[:2])
	}
	if !x.RekeyTo.IsZero() {
		s += " rekey>" + x.RekeyTo.String()[:4]
	}
	if !t.AuthAddr.IsZero() {
		s += " auth=" + t.AuthAddr.String()[:4]
	}
	if !x.Group.IsZero() {
		s += fmt.Sprintf(" grp=%x", x.Group[:2])
	}
	if len(x.Note) > 16 {
		s += fmt.Sprintf(" note=%dB", len(x.Note))
	}
	return s
}

type c44World struct {
	cfg       c44Config
	params    config.ConsensusParams
	l         *ledger.Ledger
	pool      *TransactionPool
	genHash   crypto.Digest
	keys      map[basics.Address]*crypto.SignatureSecrets
	funded    []basics.Address
	fresh     []basics.Address
	committed map[transactions.Txid]basics.Round
	noteCtr   uint64
	// everything ever created, for duplicate submissions
	history [][]transactions.SignedTxn
	// per-step facts for counters / distinct keys
	lastRememberErr error
}

var c44LedgerSeq atomic.Uint64

func c44Logger() logging.Logger {
	lg := logging.NewLogger()
	lg.SetOutput(io.Discard)
	lg.SetLevel(logging.Error)
	return lg
}

// c44NewWorld builds the genesis deterministically from the case PRNG stream (keys, balances) and
// opens a real in-memory ledger plus a real TransactionPool over it.
func c44NewWorld(c *kit.Ctx, cfg c44Config, scratch string) (*c44World, error) {
	r := c.Rand(4400, uint64(cfg.Case))
	w := &c44World{cfg: cfg, params: config.Consensus[cfg.Proto], keys: map[basics.Address]*crypto.SignatureSecrets{},
		committed: map[transactions.Txid]basics.Round{}}
	mk := func() basics.Address {
		var seed crypto.Seed
		copy(seed[:], r.Bytes(32))
		s := crypto.GenerateSignatureSecrets(seed)
		a := basics.Address(s.SignatureVerifier)
		w.keys[a] = s
		return a
	}
	accts := map[basics.Address]basics.AccountData{}
	for i := 0; i < cfg.NFunded; i++ {
		a := mk()
		w.funded = append(w.funded, a)
		accts[a] = basics.AccountData{MicroAlgos: basics.MicroAlgos{Raw: cfg.Balance}}
	}
	for i := 0; i < cfg.NFresh; i++ {
		w.fresh = append(w.fresh, mk())
	}
	var sink, rewards basics.Address
	copy(sink[:], r.Bytes(32))
	copy(rewards[:], r.Bytes(32))
	accts[sink] = basics.AccountData{MicroAlgos: basics.MicroAlgos{Raw: 1 << 32}}
	accts[rewards] = basics.AccountData{MicroAlgos: basics.MicroAlgos{Raw: 1 << 32}}
	copy(w.genHash[:], r.Bytes(32))
	initBlock := bookkeeping.Block{BlockHeader: bookkeeping.BlockHeader{
		GenesisID:    "verif-c44",
		GenesisHash:  w.genHash,
		UpgradeState: bookkeeping.UpgradeState{CurrentProtocol: cfg.Proto},
		RewardsState: bookkeeping.RewardsState{FeeSink: sink, RewardsPool: rewards},
	}}
	var err error
	initBlock.TxnCommitments, err = initBlock.PaysetCommit()
	if err != nil {
		return nil, err
	}
	lcfg := config.GetDefaultLocal()
	lcfg.Archival = true
	prefix := filepath.Join(scratch, fmt.Sprintf("l%d-%d", cfg.Case, c44LedgerSeq.Add(1)))
	w.l, err = ledger.OpenLedger(c44Logger(), prefix, true, ledgercore.InitState{Block: initBlock, Accounts: accts, GenesisHash: w.genHash}, lcfg)
	if err != nil {
		return nil, err
	}
	pcfg := config.GetDefaultLocal()
	pcfg.TxPoolSize = cfg.PoolSize
	pcfg.TxPoolExponentialIncreaseFactor = cfg.ExpFactor
	w.pool = MakeTransactionPool(w.l, pcfg, c44Logger(), nil)
	return w, nil
}

func (w *c44World) close() {
	w.pool.Shutdown()
	w.l.Close()
}

func (w *c44World) next() basics.Round { return w.l.Latest() + 1 }

func (w *c44World) balance(a basics.Address) uint64 {
	d, _, err := w.l.LookupWithoutRewards(w.l.Latest(), a)
	if err != nil {
		return 0
	}
	return d.MicroAlgos.Raw
}

// freshEval starts a brand-new evaluator for the next round on the real ledger.
func (w *c44World) freshEval() (*evalT, error) {
	prev, err := w.l.BlockHdr(w.l.Latest())
	if err != nil {
		return nil, err
	}
	e, err := w.l.StartEvaluator(bookkeeping.MakeBlock(prev).BlockHeader, 0, 0, nil)
	if err != nil {
		return nil, err
	}
	return &evalT{e}, nil
}

type evalT struct{ BlockEvaluator }

// applyLikePool feeds a group the way the pool does: a full block is not a reason to reject
// (the pool models several pending blocks), so ErrNoSpace => ResetTxnBytes and one retry.
func (e *evalT) applyLikePool(g []transactions.SignedTxn) error {
	err := e.TransactionGroup(transactions.WrapSignedTxnsWithAD(g)...)
	if err == ledgercore.ErrNoSpace {
		e.ResetTxnBytes()
		err = e.TransactionGroup(transactions.WrapSignedTxnsWithAD(g)...)
	}
	return err
}

// ---------------------------------------------------------------------------------------------
// the oracle

type c44Finding struct {
	Key string
	Msg string
}

func c44Count(p [][]transactions.SignedTxn) int {
	n := 0
	for _, g := range p {
		n += len(g)
	}
	return n
}

// checkPending evaluates the state invariants on P. sizeIsObservation is set only by the concurrent part.
func (w *c44World) checkPending(c *kit.Ctx, P [][]transactions.SignedTxn) *c44Finding {
	c.Eval(1)
	next := w.next()
	seen := map[transactions.Txid]bool{}
	for gi, g := range P {
		for _, t := range g {
			id := t.ID()
			if seen[id] {
				return &c44Finding{"duplicate-in-pool", fmt.Sprintf("txid %v occurs twice in PendingTxGroups (second time in group %d)", id, gi)}
			}
			seen[id] = true
			if rnd, ok := w.committed[id]; ok {
				return &c44Finding{"committed-in-pool", fmt.Sprintf("txid %v (group %d) was committed in round %d but is still pending at next round %d: %s", id, gi, rnd, next, c44Txn(t))}
			}
			if t.Txn.LastValid < next {
				return &c44Finding{"expired-in-pool", fmt.Sprintf("group %d holds %s but the next round is %d", gi, c44Txn(t), next)}
			}
		}
	}
	return w.replay(P, nil)
}

func (w *c44World) checkSize(P [][]transactions.SignedTxn) *c44Finding {
	n := c44Count(P)
	allow := w.cfg.PoolSize
	for _, g := range P {
		if len(g) == 1 && g[0].Txn.Type == protocol.StateProofTx {
			allow = w.cfg.PoolSize + 1 // documented single overflow for a state proof txn
			break
		}
	}
	if n > allow {
		return &c44Finding{"over-capacity", fmt.Sprintf("pool holds %d transactions, configured TxPoolSize is %d", n, w.cfg.PoolSize)}
	}
	return nil
}

// c44InfraErr recognises the one environment fault seen with in-memory sqlite ledgers: an account
// lookup that falls through to the database while the ledger's background flush holds the table
// lock fails with SQLITE_LOCKED. That says nothing about the transaction; the replay is repeated.
func c44InfraErr(err error) bool {
	m := err.Error()
	return strings.Contains(m, "database table is locked") || strings.Contains(m, "database is locked")
}

var c44ReplayRetries atomic.Int64

// replay feeds P (then extra, if not nil) to a fresh evaluator for the next round.
func (w *c44World) replay(P [][]transactions.SignedTxn, extra []transactions.SignedTxn) *c44Finding {
	for attempt := 0; ; attempt++ {
		f, infra := w.replayOnce(P, extra)
		if !infra {
			return f
		}
		c44ReplayRetries.Add(1)
		if attempt >= 50 {
			return &c44Finding{"harness", "replay keeps failing with a database lock error: " + f.Msg}
		}
		time.Sleep(20 * time.Millisecond)
	}
}

func (w *c44World) replayOnce(P [][]transactions.SignedTxn, extra []transactions.SignedTxn) (*c44Finding, bool) {
	f, err := w.replayOnce1(P, extra)
	return f, f != nil && err != nil && c44InfraErr(err)
}

func (w *c44World) replayOnce1(P [][]transactions.SignedTxn, extra []transactions.SignedTxn) (*c44Finding, error) {
	e, err := w.freshEval()
	if err != nil {
		return &c44Finding{"harness", "cannot start fresh evaluator: " + err.Error()}, err
	}
	for gi, g := range P {
		if len(g) == 0 {
			continue
		}
		if err := e.applyLikePool(g); err != nil {
			s := ""
			for _, t := range g {
				s += c44Txn(t) + "; "
			}
			return &c44Finding{"pending-not-applicable", fmt.Sprintf("group %d of %d in PendingTxGroups is rejected by a fresh evaluator for round %d after the groups before it: %v -- group: %s", gi, len(P), w.next(), err, s)}, err
		}
	}
	if extra != nil {
		if err := e.applyLikePool(extra); err != nil {
			s := ""
			for _, t := range extra {
				s += c44Txn(t) + "; "
			}
			return &c44Finding{"admitted-not-applicable", fmt.Sprintf("Remember returned nil but a fresh evaluator for round %d rejects the group on top of the %d pending groups: %v -- group: %s", w.next(), len(P), err, s)}, err
		}
	}
	return nil, nil
}

func c44SameGroup(a, b []transactions.SignedTxn) bool {
	if len(a) != len(b) {
		return false
	}
	for i := range a {
		if a[i].ID() != b[i].ID() {
			return false
		}
	}
	return true
}

// apply executes one concrete op against the real pool/ledger and runs the oracle.
func (w *c44World) apply(c *kit.Ctx, o c44Op) *c44Finding {
	switch o.Kind {
	case "submit":
		before := w.pool.PendingTxGroups()
		err := w.pool.Remember(o.Group)
		w.lastRememberErr = err
		after := w.pool.PendingTxGroups()
		if err == nil {
			c.Count("remember_accepted", 1)
			if len(after) == len(before)+1 && c44SameGroup(after[len(after)-1], o.Group) {
				// the state check below replays before+group: that IS the admission check
				c.Count("admissions_checked_by_state_replay", 1)
			} else if f := w.replay(before, o.Group); f != nil {
				return f
			} else {
				c.Count("admissions_checked_by_explicit_replay", 1)
			}
		} else {
			c.Count("remember_rejected", 1)
			c.Count("reject:"+c44ErrClass(err), 1)
		}
	case "block":
		if f := w.commitBlock(c, o.Groups); f != nil {
			return f
		}
	case "assemble":
		next := w.next()
		ub, err := w.pool.AssembleBlock(next, time.Now().Add(10*time.Second))
		if err != nil || ub == nil {
			// not part of C44; fall back to an empty block so the history goes on
			c.Count("assemble_failed", 1)
			return w.commitBlock(c, nil)
		}
		vb := ledgercore.MakeValidatedBlock(ub.UnfinishedBlock(), ub.UnfinishedDeltas())
		if f := w.addValidated(c, vb); f != nil {
			return f
		}
		c.Count("blocks_from_assemble", 1)
		if len(vb.Block().Payset) > 0 {
			c.Count("blocks_from_assemble_nonempty", 1)
		}
	}
	P := w.pool.PendingTxGroups()
	if f := w.checkSize(P); f != nil {
		return f
	}
	return w.checkPending(c, P)
}

func c44ErrClass(err error) string {
	var fe *ErrTxPoolFeeError
	var dead *bookkeeping.TxnDeadError
	var inl *ledgercore.TransactionInLedgerError
	var lease *ledgercore.LeaseInLedgerError
	var mal *ledgercore.TxGroupMalformedError
	var nwf *ledgercore.TxnNotWellFormedError
	var minb *ledgercore.MinBalanceError
	switch {
	case errors.Is(err, ErrPendingQueueReachedMaxCap):
		return "capacity"
	case errors.As(err, &fe):
		return "fee-threshold"
	case errors.As(err, &dead):
		return "dead"
	case errors.As(err, &inl):
		return "duplicate"
	case errors.As(err, &lease):
		return "lease"
	case errors.As(err, &mal):
		return "group-malformed"
	case errors.As(err, &nwf):
		return "not-well-formed"
	case errors.As(err, &minb):
		return "min-balance"
	case errors.Is(err, ledgercore.ErrNoSpace):
		return "no-space"
	}
	// counters only (never a verdict): classify the two frequent fmt.Errorf-style evaluator errors
	switch m := err.Error(); {
	case strings.Contains(m, "overspend"):
		return "overspend"
	case strings.Contains(m, "should have been authorized by"):
		return "wrong-authorizer"
	}
	return "other"
}

// commitBlock builds a block for the next round from the offered groups (skipping what the
// evaluator refuses), appends it to the real ledger and tells the pool, synchronously.
func (w *c44World) commitBlock(c *kit.Ctx, groups [][]transactions.SignedTxn) *c44Finding {
	prev, err := w.l.BlockHdr(w.l.Latest())
	if err != nil {
		return &c44Finding{"harness", err.Error()}
	}
	e, err := w.l.StartEvaluator(bookkeeping.MakeBlock(prev).BlockHeader, 0, 0, nil)
	if err != nil {
		return &c44Finding{"harness", err.Error()}
	}
	for _, g := range groups {
		if err := e.TransactionGroup(transactions.WrapSignedTxnsWithAD(g)...); err != nil {
			c.Count("block_candidates_skipped", 1)
			continue
		}
		c.Count("block_groups_committed", 1)
	}
	ub, err := e.GenerateBlock(nil)
	if err != nil {
		return &c44Finding{"harness", "GenerateBlock: " + err.Error()}
	}
	return w.addValidated(c, ledgercore.MakeValidatedBlock(ub.UnfinishedBlock(), ub.UnfinishedDeltas()))
}

func (w *c44World) addValidated(c *kit.Ctx, vb ledgercore.ValidatedBlock) *c44Finding {
	blk := vb.Block()
	if err := w.l.AddValidatedBlock(vb, agreement.Certificate{}); err != nil {
		return &c44Finding{"harness", "AddValidatedBlock: " + err.Error()}
	}
	// the monitor's own record of what is committed comes from the block itself
	txns, err := blk.DecodePaysetFlat()
	if err != nil {
		return &c44Finding{"harness", "DecodePaysetFlat: " + err.Error()}
	}
	pend := map[transactions.Txid]bool{}
	for _, g := range w.pool.PendingTxGroups() {
		for _, t := range g {
			pend[t.ID()] = true
		}
	}
	for _, t := range txns {
		id := t.ID()
		w.committed[id] = blk.Round()
		if pend[id] {
			c.Count("pending_txns_committed_by_blocks", 1)
		} else {
			c.Count("foreign_txns_committed_by_blocks", 1)
		}
	}
	before := c44Count(w.pool.PendingTxGroups())
	w.pool.OnNewBlock(blk, vb.Delta())
	c.Count("blocks", 1)
	after := w.pool.PendingTxGroups()
	// how many were dropped for a reason other than being in the block (invalidated / expired)
	still := map[transactions.Txid]bool{}
	for _, g := range after {
		for _, t := range g {
			still[t.ID()] = true
		}
	}
	dropped := 0
	for id := range pend {
		if !still[id] {
			if _, ok := w.committed[id]; !ok {
				dropped++
			}
		}
	}
	if dropped > 0 {
		c.Count("pending_txns_dropped_as_invalid_or_expired", dropped)
	}
	_ = before
	return nil
}

// ---------------------------------------------------------------------------------------------
// generators

func (w *c44World) note(r *kit.Rand, pad int) []byte {
	w.noteCtr++
	n := make([]byte, 8+pad)
	for i := 0; i < 8; i++ {
		n[i] = byte(w.noteCtr >> (8 * i))
	}
	if pad > 0 {
		copy(n[8:], r.Bytes(pad))
	}
	return n
}

func (w *c44World) pay(r *kit.Rand, from, to basics.Address, amt, fee uint64, fv, lv basics.Round) transactions.Transaction {
	return transactions.Transaction{
		Type: protocol.PaymentTx,
		Header: transactions.Header{Sender: from, Fee: basics.MicroAlgos{Raw: fee}, FirstValid: fv, LastValid: lv,
			Note: w.note(r, 0), GenesisHash: w.genHash},
		PaymentTxnFields: transactions.PaymentTxnFields{Receiver: to, Amount: basics.MicroAlgos{Raw: amt}},
	}
}

// sign signs like a user who knows the committed state: with the key the sender is currently
// rekeyed to in the ledger (a rekey that is only pending is not known, which makes later
// transactions of that sender conflict with it).
func (w *c44World) sign(tx transactions.Transaction) transactions.SignedTxn {
	if d, _, err := w.l.LookupWithoutRewards(w.l.Latest(), tx.Sender); err == nil && !d.AuthAddr.IsZero() && w.keys[d.AuthAddr] != nil {
		st := tx.Sign(w.keys[d.AuthAddr])
		st.AuthAddr = d.AuthAddr
		return st
	}
	return tx.Sign(w.keys[tx.Sender])
}

func (w *c44World) window(r *kit.Rand) (basics.Round, basics.Round) {
	next := w.next()
	fv := next
	if back := basics.Round(r.Intn(4)); back < next {
		fv = next - back
	}
	var lv basics.Round
	switch r.Pick([]int{4, 3, 1}) {
	case 0:
		lv = next + basics.Round(r.Intn(4)) // about to expire
	case 1:
		lv = next + basics.Round(r.Range(4, 30))
	default:
		lv = fv + basics.Round(w.params.MaxTxnLife)
	}
	return fv, lv
}

// anyFunded prefers senders that still have a spendable balance in the committed state
// (closed accounts stay selectable, with lower probability).
func (w *c44World) anyFunded(r *kit.Rand) basics.Address {
	a := w.funded[r.Intn(len(w.funded))]
	for i := 0; i < 3 && w.balance(a) < w.params.MinBalance+10*w.params.MinTxnFee; i++ {
		a = w.funded[r.Intn(len(w.funded))]
	}
	return a
}

func (w *c44World) other(r *kit.Rand, a basics.Address) basics.Address {
	for i := 0; i < 8; i++ {
		b := w.funded[r.Intn(len(w.funded))]
		if b != a {
			return b
		}
	}
	return w.fresh[0]
}

func (w *c44World) fee(r *kit.Rand) uint64 {
	min := w.params.MinTxnFee
	switch r.Pick([]int{5, 3, 2}) {
	case 0:
		return min
	case 1:
		return min + uint64(r.Intn(3000))
	default:
		return min * uint64(r.Range(5, 200)) // enough for an elevated fee-per-byte threshold
	}
}

func (w *c44World) group(txs []transactions.Transaction) []transactions.SignedTxn {
	var g transactions.TxGroup
	for _, t := range txs {
		t.Group = crypto.Digest{}
		g.TxGroupHashes = append(g.TxGroupHashes, crypto.Digest(t.ID()))
	}
	gid := crypto.HashObj(g)
	out := make([]transactions.SignedTxn, len(txs))
	for i := range txs {
		txs[i].Group = gid
		out[i] = w.sign(txs[i])
	}
	return out
}

// genSubmit produces one submission; label says which class it came from.
func (w *c44World) genSubmit(r *kit.Rand) c44Op {
	fv, lv := w.window(r)
	next := w.next()
	one := func(label string, tx transactions.Transaction) c44Op {
		return c44Op{Kind: "submit", Label: label, Group: []transactions.SignedTxn{w.sign(tx)}}
	}
	switch r.Pick([]int{30, 12, 4, 10, 8, 10, 8, 10, 6, 6, 4}) {
	case 0: // plain valid payment
		a := w.anyFunded(r)
		return one("pay", w.pay(r, a, w.other(r, a), uint64(r.Range(0, 5000)), w.fee(r), fv, lv))
	case 1: // large spend: two of these from one sender cannot both apply
		a := w.anyFunded(r)
		bal := w.balance(a)
		amt := bal / 100 * uint64(r.Range(40, 99))
		return one("bigspend", w.pay(r, a, w.other(r, a), amt, w.fee(r), fv, lv))
	case 2: // close-out: everything after it from the same sender is dead
		a := w.anyFunded(r)
		tx := w.pay(r, a, w.other(r, a), uint64(r.Intn(1000)), w.fee(r), fv, lv)
		tx.CloseRemainderTo = w.other(r, a)
		return one("close", tx)
	case 3: // leases from a tiny space so that they clash
		a := w.anyFunded(r)
		tx := w.pay(r, a, w.other(r, a), uint64(r.Intn(1000)), w.fee(r), fv, lv)
		tx.Lease[0] = byte(1 + r.Intn(2))
		return one("lease", tx)
	case 4: // dependent chain through a fresh (unfunded) account: fund it, or spend from it
		f := w.fresh[r.Intn(len(w.fresh))]
		if r.Bool() {
			a := w.anyFunded(r)
			return one("fund-fresh", w.pay(r, a, f, w.params.MinBalance+uint64(r.Range(0, 300000)), w.fee(r), fv, lv))
		}
		amt := uint64(r.Range(0, 150000))
		tx := w.pay(r, f, w.anyFunded(r), amt, w.params.MinTxnFee, fv, lv)
		if r.Chance(1, 4) {
			tx.CloseRemainderTo = w.anyFunded(r)
		}
		return one("spend-from-fresh", tx)
	case 5: // groups
		n := r.Range(2, 4)
		kind := r.Pick([]int{6, 3, 1, 1, 1})
		if kind == 4 {
			n = w.params.MaxTxGroupSize + 1
		}
		txs := make([]transactions.Transaction, n)
		for i := range txs {
			a := w.anyFunded(r)
			txs[i] = w.pay(r, a, w.other(r, a), uint64(r.Intn(3000)), w.fee(r), fv, lv)
		}
		label := "group"
		switch kind {
		case 1: // a later member overspends: the whole group must be refused
			i := r.Range(1, n-1)
			txs[i].Amount.Raw = w.balance(txs[i].Sender) + uint64(r.Range(0, 1000))
			label = "group-overspend-member"
		case 4:
			label = "group-too-large"
		}
		g := w.group(txs)
		switch kind {
		case 2: // drop a member: incomplete group
			g = g[:len(g)-1]
			label = "group-incomplete"
		case 3: // a member with a different group id
			t := g[len(g)-1].Txn
			t.Group[0] ^= 0xff
			g[len(g)-1] = w.sign(t)
			label = "group-inconsistent"
		}
		return c44Op{Kind: "submit", Label: label, Group: g}
	case 6: // malformed / never valid
		a := w.anyFunded(r)
		tx := w.pay(r, a, w.other(r, a), uint64(r.Intn(1000)), w.fee(r), fv, lv)
		label := ""
		switch r.Intn(8) {
		case 0:
			tx.Fee.Raw = uint64(r.Intn(int(w.params.MinTxnFee)))
			label = "bad-fee-below-min"
		case 1:
			tx.FirstValid, tx.LastValid = lv+1, lv
			label = "bad-range-inverted"
		case 2:
			tx.LastValid = tx.FirstValid + basics.Round(w.params.MaxTxnLife) + 1
			label = "bad-window-too-wide"
		case 3:
			tx.GenesisHash[3] ^= 1
			label = "bad-genesis-hash"
		case 4:
			tx.Note = make([]byte, w.params.MaxAbsoluteTxnNoteBytes+1)
			copy(tx.Note, w.note(r, 0))
			label = "bad-note-too-big"
		case 5:
			tx.Sender = basics.Address{}
			g := transactions.SignedTxn{Txn: tx}
			return c44Op{Kind: "submit", Label: "bad-zero-sender", Group: []transactions.SignedTxn{g}}
		case 6:
			tx.Amount.Raw = w.balance(a) + 1
			label = "bad-overspend"
		case 7:
			tx.Type = protocol.TxType("nope")
			label = "bad-type"
		}
		return one(label, tx)
	case 7: // duplicates of something created earlier (pending, committed or refused)
		if len(w.history) > 0 {
			P := w.pool.PendingTxGroups()
			if len(P) > 0 && r.Bool() {
				return c44Op{Kind: "submit", Label: "dup-pending", Group: P[r.Intn(len(P))]}
			}
			return c44Op{Kind: "submit", Label: "dup-history", Group: w.history[r.Intn(len(w.history))]}
		}
		a := w.anyFunded(r)
		return one("pay", w.pay(r, a, w.other(r, a), 1, w.fee(r), fv, lv))
	case 8: // outside the validity window
		a := w.anyFunded(r)
		if r.Bool() && next > 2 {
			return one("dead-expired", w.pay(r, a, w.other(r, a), 1, w.fee(r), next-2, next-1))
		}
		return one("dead-early", w.pay(r, a, w.other(r, a), 1, w.fee(r), next+basics.Round(r.Range(1, 3)), next+10))
	case 9: // minimum flat fee with a big note: first victim of the dynamic fee-per-byte threshold
		a := w.anyFunded(r)
		tx := w.pay(r, a, w.other(r, a), uint64(r.Intn(1000)), w.params.MinTxnFee, fv, lv)
		tx.Note = w.note(r, r.Range(100, w.params.MaxTxnNoteBytes-8))
		return one("minfee-bignote", tx)
	default: // rekey: afterwards the sender's own key no longer authorises
		a := w.anyFunded(r)
		tx := w.pay(r, a, w.other(r, a), uint64(r.Intn(1000)), w.fee(r), fv, lv)
		switch r.Intn(3) {
		case 0:
			tx.RekeyTo = w.other(r, a)
			return one("rekey", tx)
		case 1:
			tx.RekeyTo = a // rekey back to self, signed by whoever holds it now
		}
		if r.Chance(1, 3) { // stale key: the sender's own key although the account may be rekeyed
			return c44Op{Kind: "submit", Label: "signed-by-own-key", Group: []transactions.SignedTxn{tx.Sign(w.keys[a])}}
		}
		return one("rekey-back-or-pay", tx)
	}
}

// genForeign makes transactions that never go through the pool but end up in a block and
// invalidate pending ones: overspending the same sender, taking the same lease, closing or rekeying the sender.
func (w *c44World) genForeign(r *kit.Rand, P [][]transactions.SignedTxn) [][]transactions.SignedTxn {
	var out [][]transactions.SignedTxn
	next := w.next()
	n := r.Range(1, 3)
	for i := 0; i < n; i++ {
		a := w.anyFunded(r)
		var victim *transactions.SignedTxn
		if len(P) > 0 && r.Chance(3, 4) {
			g := P[r.Intn(len(P))]
			victim = &g[r.Intn(len(g))]
			if w.keys[victim.Txn.Sender] != nil {
				a = victim.Txn.Sender
			}
		}
		tx := w.pay(r, a, w.other(r, a), 0, w.params.MinTxnFee, next, next+basics.Round(r.Range(0, 8)))
		switch r.Intn(5) {
		case 0:
			bal := w.balance(a)
			if bal > 2*w.params.MinBalance {
				tx.Amount.Raw = bal - w.params.MinBalance - w.params.MinTxnFee - uint64(r.Intn(2000))
			}
		case 1:
			if victim != nil {
				tx.Lease = victim.Txn.Lease
			} else {
				tx.Lease[0] = byte(1 + r.Intn(2))
			}
		case 2:
			tx.CloseRemainderTo = w.other(r, a)
		case 3:
			tx.RekeyTo = w.other(r, a)
		default:
			tx.Amount.Raw = uint64(r.Intn(1000))
		}
		out = append(out, []transactions.SignedTxn{w.sign(tx)})
	}
	return out
}

func (w *c44World) genBlock(r *kit.Rand) c44Op {
	P := w.pool.PendingTxGroups()
	switch r.Pick([]int{5, 3, 3, 2}) {
	case 0: // random subset of P, original order
		var gs [][]transactions.SignedTxn
		keep := r.Range(1, 4)
		for _, g := range P {
			if r.Chance(keep, 4) {
				gs = append(gs, g)
			}
		}
		return c44Op{Kind: "block", Label: "subset", Groups: gs}
	case 1: // foreign transactions first, then a subset of P in shuffled order
		gs := w.genForeign(r, P)
		for _, i := range r.Perm(len(P)) {
			if r.Bool() {
				gs = append(gs, P[i])
			}
		}
		return c44Op{Kind: "block", Label: "foreign+subset", Groups: gs}
	case 2:
		return c44Op{Kind: "block", Label: "empty"}
	default:
		return c44Op{Kind: "assemble", Label: "pool-assembled"}
	}
}

// ---------------------------------------------------------------------------------------------
// sequential histories

var c44SmallProtos = map[int]protocol.ConsensusVersion{}

// c44RegisterProtos adds copies of the current consensus parameters with a small block size, so
// that "several blocks worth of pending transactions" (fee escalation, multi-block expiry) is
// reachable with a few dozen transactions. Everything else is the current protocol.
func c44RegisterProtos() {
	for _, sz := range []int{1300, 2600, 7000} {
		v := protocol.ConsensusVersion(fmt.Sprintf("verif-c44-blockbytes-%d", sz))
		p := config.Consensus[protocol.ConsensusCurrentVersion]
		p.MaxTxnBytesPerBlock = sz
		p.ApprovedUpgrades = map[protocol.ConsensusVersion]uint64{}
		config.Consensus[v] = p
		c44SmallProtos[sz] = v
	}
}

func c44MakeConfig(c *kit.Ctx, i int) c44Config {
	r := c.Rand(4401, uint64(i))
	cfg := c44Config{Case: i, Proto: protocol.ConsensusCurrentVersion,
		PoolSize: []int{5, 12, 30, 80}[r.Intn(4)], NFunded: r.Range(3, 8), NFresh: r.Range(1, 3),
		Balance: []uint64{3_000_000, 50_000_000}[r.Intn(2)], ExpFactor: uint64(r.Range(1, 3))}
	if i%3 != 0 { // two thirds of the histories use small blocks
		cfg.Proto = c44SmallProtos[[]int{1300, 2600, 7000}[r.Intn(3)]]
	}
	return cfg
}

// c44Replay re-executes concrete ops on a fresh world (used by the shrinker).
func c44Replay(cfg c44Config, scratch string, ops []c44Op) (key string) {
	defer func() {
		if r := recover(); r != nil {
			key = "panic:pool"
		}
	}()
	c := kit.Start(&testing.T{}, "C44", "shrink")
	w, err := c44NewWorld(c, cfg, scratch)
	if err != nil {
		return "harness"
	}
	defer w.close()
	for _, o := range ops {
		if f := w.apply(c, o); f != nil {
			return f.Key
		}
	}
	return ""
}

func c44RunHistory(c *kit.Ctx, i int, scratch string) {
	cfg := c44MakeConfig(c, i)
	w, err := c44NewWorld(c, cfg, scratch)
	if err != nil {
		c.Harness("case %d: cannot build world: %v", i, err)
		return
	}
	defer w.close()
	r := c.Rand(4402, uint64(i))
	nsteps := r.Range(c.N(60, 100), c.N(220, 400))
	var ops []c44Op
	var fnd *c44Finding
	labels := map[string]bool{}
	maxFeePerByte := uint64(0)
	panicked := c.Guard("pool", map[string]any{"case": i, "cfg": fmt.Sprintf("%+v", cfg)}, func() {
		for s := 0; s < nsteps && fnd == nil; s++ {
			var batch []c44Op
			switch r.Pick([]int{70, 14, 3, 3}) {
			case 0:
				batch = []c44Op{w.genSubmit(r)}
			case 1:
				batch = []c44Op{w.genBlock(r)}
			case 2: // empty blocks until things expire
				for k := r.Range(2, 6); k > 0; k-- {
					batch = append(batch, c44Op{Kind: "block", Label: "empty"})
				}
			case 3: // burst of valid payments: drives the pool to capacity / several pending blocks
				for k := r.Range(cfg.PoolSize/2, cfg.PoolSize+3); k > 0; k-- {
					a := w.anyFunded(r)
					fv, lv := w.window(r)
					tx := w.pay(r, a, w.other(r, a), uint64(r.Intn(50)), w.params.MinTxnFee*uint64(r.Range(1, 40)), fv, lv)
					if r.Chance(1, 3) {
						tx.Note = w.note(r, r.Range(50, 400))
					}
					batch = append(batch, c44Op{Kind: "submit", Label: "burst", Group: []transactions.SignedTxn{w.sign(tx)}})
				}
			}
			for _, o := range batch {
				if o.Kind == "submit" {
					w.history = append(w.history, o.Group)
				}
				ops = append(ops, o)
				c.Count("steps", 1)
				fnd = w.apply(c, o)
				if fnd != nil {
					break
				}
				P := w.pool.PendingTxGroups()
				n := c44Count(P)
				if o.Kind == "submit" {
					acc := "rej:" + "none"
					if w.lastRememberErr == nil {
						acc = "acc"
						c.Count("accepted:"+o.Label, 1)
					} else {
						acc = "rej:" + c44ErrClass(w.lastRememberErr)
					}
					labels[o.Label+"/"+acc] = true
					if n > 0 && w.lastRememberErr == nil {
						c.Count("accepted_on_top_of_nonempty_pool", 1)
					}
				} else {
					labels[o.Kind+":"+o.Label] = true
				}
				if n == cfg.PoolSize {
					c.Count("steps_with_pool_exactly_full", 1)
				}
				if fpb := w.pool.FeePerByte(); fpb > maxFeePerByte {
					maxFeePerByte = fpb
				}
				// a distinct non-trivial case: what happened (op class + outcome), on which pool shape
				fill := 0
				if cfg.PoolSize > 0 {
					fill = 4 * n / cfg.PoolSize
				}
				c.Distinct(fmt.Sprintf("%s|%v|%s|fill%d|fpb%d|wb%d", cfg.Proto, o.Kind, o.Label+fmt.Sprint(w.lastRememberErr == nil), fill, c44Log2(w.pool.FeePerByte()), min(int(w.pool.numPendingWholeBlocks), 4)))
				c.Max("max_pending_txns", int64(n))
			}
		}
	})
	if maxFeePerByte > 1 {
		c.Count("histories_with_escalated_fee_threshold", 1)
	}
	c.Max("max_fee_per_byte", int64(maxFeePerByte))
	if i < 4 {
		ls := make([]string, 0, len(labels))
		for k := range labels {
			ls = append(ls, k)
		}
		c.Sample(map[string]any{"case": i, "config": fmt.Sprintf("%+v", cfg), "steps": len(ops), "final_round": uint64(w.l.Latest()),
			"final_pending": c44Count(w.pool.PendingTxGroups()), "op_outcomes_seen": len(ls)})
	}
	c44TraceMu.Lock()
	c44Trace[i] = kit.Fingerprint(c44Strs(ops), kit.FPOptions{})
	c44TraceMu.Unlock()
	if panicked || fnd == nil {
		return
	}
	if fnd.Key == "harness" {
		c.Harness("case %d: %s", i, fnd.Msg)
		return
	}
	key := fnd.Key
	small := kit.Shrink(ops, 30, func(cand []c44Op) bool { return c44Replay(cfg, scratch, cand) == key })
	tail := ops
	if len(tail) > 40 {
		tail = tail[len(tail)-40:]
	}
	c.Violation(key, map[string]any{"case": i, "config": fmt.Sprintf("%+v", cfg), "failed_at_step": len(ops) - 1, "message": fnd.Msg,
		"minimised_ops": c44Strs(small), "last_ops": c44Strs(tail), "replay": "VERIF_SEED and case index regenerate the same history (streams 4400-4402)"})
}

var (
	c44TraceMu sync.Mutex
	c44Trace   = map[int]any{}
)

func c44Strs(ops []c44Op) []string {
	out := make([]string, len(ops))
	for i, o := range ops {
		out[i] = o.String()
	}
	return out
}

func c44Log2(v uint64) int {
	n := 0
	for v > 0 {
		n++
		v >>= 1
	}
	return n
}

func TestVerifC44Sequential(t *testing.T) {
	c := kit.Start(t, "C44", "sequential")
	defer c.Finish()
	c.Rule("PRNG-driven sequential histories against the real TransactionPool over a real in-memory ledger: submissions (valid payments, large spends that conflict pairwise, close-outs, clashing leases, dependent chains through unfunded accounts, well-formed and broken groups, malformed transactions, duplicates of pending/committed/refused groups, expired and not-yet-valid, minimum-fee big-note transactions against the dynamic fee threshold, rekeying, bursts up to capacity) interleaved with blocks (random subsets of the pending set, foreign transactions that overspend/lease/close/rekey a pending sender, empty blocks up to expiry, blocks assembled by the pool itself); after EVERY step PendingTxGroups is checked against the monitor's committed set, for duplicates, size, expiry and replayed on a fresh evaluator for the next round; distinct = distinct (protocol variant, op class and outcome, pool fill quartile, fee-per-byte magnitude, pending whole blocks)")
	c.Assume("the block evaluator (ledger/eval) is the definition of 'the ledger would accept': the monitor replays through a fresh evaluator instance, it does not re-implement transaction semantics")
	c.Assume("two thirds of the histories use a copy of the current consensus parameters with MaxTxnBytesPerBlock reduced to 1.3-7 kB so that several pending blocks and the fee escalation are reachable with dozens of transactions; signatures are real but not verified by Remember (caller's precondition)")
	c44RegisterProtos()
	scratch := c.Scratch("seq")
	n := c.N(90, 500)
	workers := 12
	var wg sync.WaitGroup
	var nextCase atomic.Int64
	for wkr := 0; wkr < workers; wkr++ {
		wg.Add(1)
		go func() {
			defer wg.Done()
			for {
				i := int(nextCase.Add(1)) - 1
				if i >= n || c.Violations() > 2 {
					return
				}
				c44RunHistory(c, i, scratch)
				c.Count("histories", 1)
			}
		}()
	}
	wg.Wait()
	c.Count("replays_repeated_after_db_lock_error", int(c44ReplayRetries.Load()))
	// fingerprint of all generated histories in case order: equal across runs with the same seed
	var all []any
	for i := 0; i < n; i++ {
		all = append(all, c44Trace[i])
	}
	c.Extra("histories_fingerprint", kit.Fingerprint(all, kit.FPOptions{}))
	c.Require("histories", int64(n))
	c.Require("steps", 3000)
	c.Require("remember_accepted", 500)
	c.Require("accepted_on_top_of_nonempty_pool", 200)
	c.Require("reject:capacity", 20)
	c.Require("reject:fee-threshold", 5)
	c.Require("reject:duplicate", 20)
	c.Require("reject:lease", 5)
	c.Require("reject:dead", 20)
	c.Require("reject:group-malformed", 5)
	c.Require("reject:not-well-formed", 5)
	c.Require("accepted:group", 10)
	c.Require("accepted:spend-from-fresh", 3)
	c.Require("pending_txns_committed_by_blocks", 100)
	c.Require("foreign_txns_committed_by_blocks", 20)
	c.Require("pending_txns_dropped_as_invalid_or_expired", 50)
	c.Require("steps_with_pool_exactly_full", 20)
	c.Require("histories_with_escalated_fee_threshold", 2)
	c.Require("blocks_from_assemble_nonempty", 3)
}

// ---------------------------------------------------------------------------------------------
// concurrent part (race detector; invariants re-checked at the final quiescent point)

// c44WaitCaughtUp blocks until the pool has processed every block of the ledger, using the pool's
// own mutex/condition variable (the same wait ingest() performs). Watchdog only.
func c44WaitCaughtUp(c *kit.Ctx, w *c44World) bool {
	done := make(chan struct{})
	go func() {
		w.pool.mu.Lock()
		for w.pool.pendingBlockEvaluator == nil || w.pool.pendingBlockEvaluator.Round() <= w.l.Latest() {
			w.pool.cond.Wait()
		}
		w.pool.mu.Unlock()
		close(done)
	}()
	select {
	case <-done:
		return true
	case <-time.After(120 * time.Second):
		c.Harness("pool did not catch up with the ledger within the watchdog")
		return false
	}
}

func TestVerifC44Concurrent(t *testing.T) {
	c := kit.Start(t, "C44", "concurrent")
	defer c.Finish()
	c.Rule("the same operation classes issued by 5 submitter goroutines, a reader goroutine (PendingTxGroups/PendingTxIDs/PendingCount/Lookup/Test/FeePerByte) and a block producer whose blocks reach the pool through the ledger's block notifier, as in a node; data races are detected by the race lane; at the final quiescent point (all goroutines joined, pool caught up with the ledger) the state invariants are evaluated, a size overshoot being reported as an observation only; distinct = distinct (case, final pool fill, overshoot yes/no)")
	c.Assume("the size bound under concurrent Remember calls is outside the property's quantifier (check-then-insert is not atomic): reported, not alarmed")
	c44RegisterProtos()
	scratch := c.Scratch("conc")
	ncases := c.N(4, 16)
	for i := 0; i < ncases && c.Violations() == 0; i++ {
		cfg := c44MakeConfig(c, 100000+i)
		cfg.PoolSize = []int{6, 15, 40}[i%3]
		cfg.NFunded = 8
		w, err := c44NewWorld(c, cfg, scratch)
		if err != nil {
			c.Harness("case %d: %v", i, err)
			return
		}
		w.l.RegisterBlockListeners([]ledgercore.BlockListener{w.pool})
		var wg, subWg sync.WaitGroup
		var mu sync.Mutex // protects the world's generator state (note counter, history) and w.committed
		stop := make(chan struct{})
		nsub := c.N(120, 250)
		var overshootSeen atomic.Int64
		c.Guard("pool-concurrent", map[string]any{"case": i}, func() {
			for g := 0; g < 5; g++ {
				subWg.Add(1)
				go func(g int) {
					defer subWg.Done()
					r := c.Rand(4410, uint64(i), uint64(g))
					for k := 0; k < nsub; k++ {
						mu.Lock()
						o := w.genSubmit(r)
						w.history = append(w.history, o.Group)
						mu.Unlock()
						if err := w.pool.Remember(o.Group); err == nil {
							c.Count("remember_accepted", 1)
						} else {
							c.Count("remember_rejected", 1)
						}
						if n := w.pool.PendingCount(); n > cfg.PoolSize {
							overshootSeen.Add(1)
						}
					}
				}(g)
			}
			wg.Add(1)
			go func() { // readers
				defer wg.Done()
				r := c.Rand(4411, uint64(i))
				for {
					select {
					case <-stop:
						return
					default:
					}
					P := w.pool.PendingTxGroups()
					for _, g := range P {
						for _, t := range g {
							_ = t.Txn.LastValid
						}
					}
					ids := w.pool.PendingTxIDs()
					if len(ids) > 0 {
						w.pool.Lookup(ids[r.Intn(len(ids))])
					}
					if len(P) > 0 {
						_ = w.pool.Test(P[r.Intn(len(P))])
					}
					_ = w.pool.PendingCount()
					_ = w.pool.FeePerByte()
					c.Count("reader_rounds", 1)
				}
			}()
			wg.Add(1)
			go func() { // block producer: ledger.AddValidatedBlock -> notifier -> pool.OnNewBlock
				defer wg.Done()
				r := c.Rand(4412, uint64(i))
				for b := 0; ; b++ {
					select {
					case <-stop:
						return
					default:
					}
					P := w.pool.PendingTxGroups()
					var gs [][]transactions.SignedTxn
					if r.Chance(1, 3) {
						mu.Lock()
						gs = w.genForeign(r, P)
						mu.Unlock()
					}
					for _, g := range P {
						if r.Bool() {
							gs = append(gs, g)
						}
					}
					prev, err := w.l.BlockHdr(w.l.Latest())
					if err != nil {
						return
					}
					e, err := w.l.StartEvaluator(bookkeeping.MakeBlock(prev).BlockHeader, 0, 0, nil)
					if err != nil {
						return
					}
					for _, g := range gs {
						_ = e.TransactionGroup(transactions.WrapSignedTxnsWithAD(g)...)
					}
					ub, err := e.GenerateBlock(nil)
					if err != nil {
						return
					}
					vb := ledgercore.MakeValidatedBlock(ub.UnfinishedBlock(), ub.UnfinishedDeltas())
					if err := w.l.AddValidatedBlock(vb, agreement.Certificate{}); err != nil {
						return
					}
					txns, _ := vb.Block().DecodePaysetFlat()
					mu.Lock()
					for _, t := range txns {
						w.committed[t.ID()] = vb.Block().Round()
					}
					mu.Unlock()
					c.Count("blocks", 1)
					if len(txns) > 0 {
						c.Count("nonempty_blocks", 1)
					}
					if r.Chance(1, 4) {
						if _, err := w.pool.AssembleBlock(w.l.Latest()+1, time.Now().Add(50*time.Millisecond)); err == nil {
							c.Count("assemble_calls_ok", 1)
						}
					}
					time.Sleep(time.Duration(r.Intn(3)) * time.Millisecond)
				}
			}()
			// join submitters first, then stop the others
			subDone := make(chan struct{})
			go func() { subWg.Wait(); close(subDone) }()
			select {
			case <-subDone:
			case <-time.After(20 * time.Minute):
				close(stop)
				c.Harness("concurrent case %d did not finish within the watchdog", i)
				return
			}
			close(stop)
			wg.Wait()
			if !c44WaitCaughtUp(c, w) {
				return
			}
			P := w.pool.PendingTxGroups()
			over := false
			if f := w.checkSize(P); f != nil {
				over = true
				c.Count("final_size_overshoot", 1)
				c.Observation("concurrent Remember overshoot (outside the sequential quantifier): case %d: %s", i, f.Msg)
			}
			if overshootSeen.Load() > 0 {
				c.Count("transient_size_overshoot_samples", int(overshootSeen.Load()))
				c.Observation("case %d: PendingCount() exceeded TxPoolSize=%d at %d sampling points while 5 goroutines were submitting (check-then-insert in Remember is not atomic)", i, cfg.PoolSize, overshootSeen.Load())
			}
			if f := w.checkPending(c, P); f != nil {
				if f.Key == "harness" {
					c.Harness("case %d: %s", i, f.Msg)
					return
				}
				c.Violation(f.Key+"-after-concurrent-history", map[string]any{"case": i, "config": fmt.Sprintf("%+v", cfg), "message": f.Msg,
					"note": "evaluated at a quiescent point: all goroutines joined and the pool caught up with the ledger"})
			}
			c.Distinct(fmt.Sprintf("%d|%d|%v", i, c44Count(P), over))
			c.Count("cases", 1)
		})
		w.close()
	}
	c.Require("cases", int64(ncases))
	c.Require("remember_accepted", 100)
	c.Require("nonempty_blocks", 5)
}
