package bookkeeping

// C25: rewards accounting distributes exactly the rewards rate.
//
// Statement: each round, (level' - level) * units + (residue' - residue) equals the rewards rate in
// effect; a rate refresh never schedules more than the rewards pool holds above its minimum balance.
//
// Oracle: the identity and the refresh bound are evaluated in math/big on the inputs and outputs of
// RewardsState.NextRewardsState. It is not stricter than the statement and the code's documented behaviour:
//   - "the rate in effect" at a refresh round is the NEW rate when the protocol has RewardsCalculationFix
//     and the OLD rate otherwise (consensus flag "When rewards rate changes, use the new value immediately");
//   - with zero reward units nothing is distributed and nothing is demanded (code: "keep the previous
//     rewards level"); only the refresh bound and the absence of a panic are checked;
//   - when rate+residue or level+(rate+residue)/units does not fit in 64 bits the identity cannot hold in
//     uint64; the code logs and keeps the old level and residue, and that is what is required then;
//   - the refresh bound subtracts the carried residue only for protocols with PendingResidueRewards;
//     a pool below the minimum schedules a zero rate (the bound is max(0, ...));
//   - the carried residue must be a remainder (< units) after a distribution, otherwise the identity could be
//     met by never distributing; the INPUT residue may be >= units (the unit total changes between rounds);
//   - RewardsRateRefreshInterval == 0 is a misconfiguration (division by zero) and is never generated.

import (
	"encoding/json"
	"fmt"
	"io"
	"math"
	"math/big"
	"sort"
	"sync"
	"sync/atomic"
	"testing"

	"github.com/algorand/go-algorand/config"
	"github.com/algorand/go-algorand/data/basics"
	"github.com/algorand/go-algorand/logging"
	"github.com/algorand/go-algorand/protocol"
	"verif.local/kit"
)

var c25Max64 = new(big.Int).SetUint64(math.MaxUint64)

func c25B(x uint64) *big.Int { return new(big.Int).SetUint64(x) }

// c25Proto is one combination of the protocol parameters NextRewardsState reads.
type c25Proto struct {
	Name     string
	Params   config.ConsensusParams
	Versions int // number of registered consensus versions sharing this combination (0 = synthetic)
}

// class is the key used for distinct-case accounting: synthetic random combinations are classed by
// flags only (their MinBalance/interval are PRNG values and would make every case "distinct").
func (p c25Proto) class() string {
	if p.Name == "synthetic-random" {
		return fmt.Sprintf("random pendingResidue=%v calcFix=%v", p.Params.PendingResidueRewards, p.Params.RewardsCalculationFix)
	}
	return p.key()
}

func (p c25Proto) key() string {
	return fmt.Sprintf("min=%d interval=%d pendingResidue=%v calcFix=%v", p.Params.MinBalance, p.Params.RewardsRateRefreshInterval, p.Params.PendingResidueRewards, p.Params.RewardsCalculationFix)
}

// c25RegisteredProtos returns one entry per distinct (MinBalance, interval, flags) combination found in
// config.Consensus, in a deterministic order, and the number of versions examined.
func c25RegisteredProtos() ([]c25Proto, int) {
	var names []string
	for v := range config.Consensus {
		names = append(names, string(v))
	}
	sort.Strings(names)
	idx := map[string]int{}
	var out []c25Proto
	for _, n := range names {
		p := c25Proto{Name: n, Params: config.Consensus[protocol.ConsensusVersion(n)]}
		if p.Params.RewardsRateRefreshInterval == 0 {
			continue
		}
		if i, ok := idx[p.key()]; ok {
			out[i].Versions++
			continue
		}
		idx[p.key()] = len(out)
		p.Versions = 1
		out = append(out, p)
	}
	return out, len(names)
}

func c25Synthetic(min, interval uint64, pending, fix bool) c25Proto {
	p := config.Consensus[protocol.ConsensusCurrentVersion]
	p.MinBalance, p.RewardsRateRefreshInterval, p.PendingResidueRewards, p.RewardsCalculationFix = min, interval, pending, fix
	return c25Proto{Name: "synthetic", Params: p}
}

type c25Case struct {
	State State25
	Round uint64
	Pool  uint64
	Units uint64
}

// State25 is the numeric part of a RewardsState (for witnesses).
type State25 struct{ Level, Rate, Residue, RecalcRound uint64 }

// c25Lazy is the Guard input; it is only rendered if the code under test panics.
type c25Lazy struct {
	p  *c25Proto
	in c25Case
}

func (l c25Lazy) MarshalJSON() ([]byte, error) {
	return json.Marshal(map[string]any{"protocol": l.p.Name, "params": l.p.key(), "case": l.in})
}

// c25Log wraps a real (discarding) logger and swallows the error/warning records NextRewardsState emits on
// unrepresentable sums: logrus formatting with caller lookup costs tens of microseconds per record and
// would dominate the run. Every other Logger method falls through to the real logger.
type c25Log struct {
	logging.Logger
	records int64
}

func (l *c25Log) Errorf(string, ...any) { l.records++ }
func (l *c25Log) Error(...any)          { l.records++ }
func (l *c25Log) Errorln(...any)        { l.records++ }
func (l *c25Log) Warnf(string, ...any)  { l.records++ }
func (l *c25Log) Warn(...any)           { l.records++ }
func (l *c25Log) Warnln(...any)         { l.records++ }
func (l *c25Log) Infof(string, ...any)  {}
func (l *c25Log) Debugf(string, ...any) {}

type c25Worker struct {
	c    *kit.Ctx
	log  *c25Log
	stop *atomic.Bool

	evals    int64
	counters map[string]int64
	classes  map[string]struct{}
}

func newC25Worker(c *kit.Ctx, stop *atomic.Bool) *c25Worker {
	l := logging.NewLogger()
	l.SetOutput(io.Discard)
	return &c25Worker{c: c, log: &c25Log{Logger: l}, stop: stop, counters: map[string]int64{}, classes: map[string]struct{}{}}
}

func (w *c25Worker) merge() {
	w.c.Eval(int(w.evals))
	w.c.Count("error_records_logged_by_code", int(w.log.records))
	for k, v := range w.counters {
		w.c.Count(k, int(v))
	}
	for k := range w.classes {
		w.c.Distinct(k)
	}
}

func (w *c25Worker) fail(key string, p *c25Proto, in c25Case, out RewardsState, msg string) {
	w.c.Violation(key, map[string]any{"protocol": p.Name, "params": p.key(), "prev_state": fmt.Sprintf("%+v", in.State), "next_round": in.Round,
		"pool_balance": in.Pool, "total_reward_units": in.Units,
		"got": fmt.Sprintf("level=%d rate=%d residue=%d recalc=%d", out.RewardsLevel, out.RewardsRate, out.RewardsResidue, out.RewardsRecalculationRound), "message": msg})
	w.stop.Store(w.c.Violations() > 20)
}

// check runs NextRewardsState on one input and evaluates the property; it returns the successor state.
func (w *c25Worker) check(p *c25Proto, in c25Case) (res RewardsState, distributed *big.Int, effRate uint64, ok bool) {
	s := RewardsState{RewardsLevel: in.State.Level, RewardsRate: in.State.Rate, RewardsResidue: in.State.Residue, RewardsRecalculationRound: basics.Round(in.State.RecalcRound)}
	s.FeeSink[0], s.RewardsPool[0] = 1, 2
	if w.c.Guard("NextRewardsState", c25Lazy{p, in}, func() {
		res = s.NextRewardsState(basics.Round(in.Round), p.Params, basics.MicroAlgos{Raw: in.Pool}, in.Units, w.log)
	}) {
		w.stop.Store(w.c.Violations() > 20)
		return res, nil, 0, false
	}
	w.evals++
	refresh := in.Round == in.State.RecalcRound
	L, Lp := c25B(in.State.Level), c25B(res.RewardsLevel)
	F, Fp := c25B(in.State.Residue), c25B(res.RewardsResidue)
	U := c25B(in.Units)

	// clause 2: refresh bound
	class := "norefresh"
	if refresh {
		w.counters["refresh_cases"]++
		bound := new(big.Int).Sub(c25B(in.Pool), c25B(p.Params.MinBalance))
		if p.Params.PendingResidueRewards {
			bound.Sub(bound, F)
		}
		class = "refresh"
		if bound.Sign() <= 0 {
			bound.SetInt64(0)
			w.counters["refresh_pool_not_above_minimum"]++
			class = "refresh-clamped"
		}
		scheduled := new(big.Int).Mul(c25B(res.RewardsRate), c25B(p.Params.RewardsRateRefreshInterval))
		if scheduled.Cmp(bound) > 0 {
			w.fail("refresh-exceeds-pool", p, in, res, fmt.Sprintf("refresh schedules rate*interval = %v, but the pool holds only %v above its minimum balance (and carried residue, if the protocol counts it)", scheduled, bound))
		}
		if res.RewardsRate > 0 {
			w.counters["refresh_nonzero_rate"]++
		}
	} else if res.RewardsRate != in.State.Rate {
		w.fail("rate-changed-off-schedule", p, in, res, "rewards rate changed in a round that is not the recalculation round")
	}
	if res.FeeSink != s.FeeSink || res.RewardsPool != s.RewardsPool {
		w.fail("addresses-changed", p, in, res, "fee sink / rewards pool address changed")
	}

	// clause 1: distribution identity
	effRate = in.State.Rate
	if refresh && p.Params.RewardsCalculationFix {
		effRate = res.RewardsRate
	}
	distributed = new(big.Int)
	if in.Units == 0 {
		w.counters["zero_units_cases"]++
		w.classes[p.class()+"|"+class+"|units0"] = struct{}{}
		return res, distributed, effRate, true
	}
	withResidue := new(big.Int).Add(c25B(effRate), F)
	newLevel := new(big.Int).Add(L, new(big.Int).Quo(withResidue, U))
	switch {
	case withResidue.Cmp(c25Max64) > 0 || newLevel.Cmp(c25Max64) > 0:
		// not representable: the old level and residue must be kept
		w.counters["unrepresentable_cases"]++
		class += "|unrepresentable"
		if res.RewardsLevel != in.State.Level || res.RewardsResidue != in.State.Residue {
			w.fail("overflow-state-changed", p, in, res, fmt.Sprintf("rate+residue = %v or the next level %v does not fit in 64 bits, yet level/residue changed", withResidue, newLevel))
		}
		effRate = 0
	default:
		lhs := new(big.Int).Sub(Lp, L)
		lhs.Mul(lhs, U)
		distributed.Set(lhs)
		lhs.Add(lhs, new(big.Int).Sub(Fp, F))
		w.counters["identity_cases"]++
		if lhs.Cmp(c25B(effRate)) != 0 {
			w.fail("identity", p, in, res, fmt.Sprintf("(level'-level)*units + (residue'-residue) = %v, rate in effect = %d", lhs, effRate))
		} else if Fp.Cmp(U) >= 0 {
			w.fail("residue-not-reduced", p, in, res, fmt.Sprintf("carried residue %v is not smaller than the number of reward units %v", Fp, U))
		}
		if res.RewardsLevel != in.State.Level {
			w.counters["level_increased"]++
			class += "|level+"
		}
		if in.State.Residue >= in.Units {
			class += "|residue>=units"
		}
		if res.RewardsResidue != in.State.Residue {
			class += "|residue-changed"
		}
	}
	w.classes[p.class()+"|"+class] = struct{}{}
	return res, distributed, effRate, true
}

func c25Dedup(v []uint64) []uint64 {
	sort.Slice(v, func(i, j int) bool { return v[i] < v[j] })
	out := v[:0]
	for i, x := range v {
		if i == 0 || x != v[i-1] {
			out = append(out, x)
		}
	}
	return out
}

// c25Run runs f(i) for i in [0,n) on 16 workers, each with its own logger and tallies.
func c25Run(c *kit.Ctx, n int, stop *atomic.Bool, f func(w *c25Worker, i int)) {
	var next atomic.Int64
	var wg sync.WaitGroup
	for k := 0; k < 16; k++ {
		wg.Add(1)
		go func() {
			defer wg.Done()
			w := newC25Worker(c, stop)
			defer w.merge()
			for {
				i := int(next.Add(1) - 1)
				if i >= n || stop.Load() {
					return
				}
				f(w, i)
			}
		}()
	}
	wg.Wait()
}

func c25AllProtos(c *kit.Ctx) []c25Proto {
	protos, nver := c25RegisteredProtos()
	c.Count("consensus_versions_examined", nver)
	c.Count("registered_parameter_combinations", len(protos))
	for _, min := range []uint64{0, 1, 100_000, 1 << 63, math.MaxUint64} {
		for _, interval := range []uint64{1, 2, 7, 500_000, math.MaxUint64} {
			for f := 0; f < 4; f++ {
				protos = append(protos, c25Synthetic(min, interval, f&1 != 0, f&2 != 0))
			}
		}
	}
	return protos
}

func TestVerifC25Grid(t *testing.T) {
	c := kit.Start(t, "C25", "grid")
	defer c.Finish()
	c.Rule("boundary grid: reward units x level x residue x rate x pool balance x {refresh round, other round}, values placed around 0, the unit count, 2^63, 2^64-1, the level-overflow edge and the pool's minimum balance/refresh interval edges, for every distinct (MinBalance, RewardsRateRefreshInterval, PendingResidueRewards, RewardsCalculationFix) combination of every registered consensus version plus 100 synthetic combinations; distinct = (parameter combination, refresh/clamped, outcome class: level increased / residue changed / input residue >= units / unrepresentable / zero units)")
	c.Assume("math/big is exact; the rate in effect at a refresh round is the new rate iff RewardsCalculationFix")
	protos := c25AllProtos(c)
	var stop atomic.Bool
	unitsSet := []uint64{0, 1, 2, 3, 1000, 6_756_334_087, 1 << 63, math.MaxUint64}
	type job struct {
		p c25Proto
		u uint64
	}
	var jobs []job
	for _, p := range protos {
		for _, u := range unitsSet {
			jobs = append(jobs, job{p, u})
		}
	}
	c25Run(c, len(jobs), &stop, func(w *c25Worker, i int) {
		p, u := &jobs[i].p, jobs[i].u
		min, iv := p.Params.MinBalance, p.Params.RewardsRateRefreshInterval
		residues := c25Dedup([]uint64{0, 1, u - 1, u, u + 1, 545_321_700, 1 << 63, math.MaxUint64})
		rates := c25Dedup([]uint64{0, 1, u - 1, u, u + 1, 24_000_000, 1 << 63, math.MaxUint64 - 1, math.MaxUint64})
		for _, residue := range residues {
			pools := c25Dedup([]uint64{0, 1, min - 1, min, min + 1, min + residue - 1, min + residue, min + residue + 1,
				min + iv - 1, min + iv, min + residue + iv - 1, min + residue + iv, min + residue + 3*iv + 1, 10_464_550_021_728, 1 << 63, math.MaxUint64})
			for _, rate := range rates {
				levels := []uint64{0, 1, 215_332, 1 << 63, math.MaxUint64 - 1, math.MaxUint64}
				if u > 0 {
					// the level-overflow edge for this (rate, residue, units)
					q := (rate + residue) / u
					levels = append(levels, math.MaxUint64-q, math.MaxUint64-q+1, math.MaxUint64-q-1)
				}
				if w.stop.Load() {
					return
				}
				for _, level := range c25Dedup(levels) {
					for _, pool := range pools {
						for _, refresh := range []bool{true, false} {
							in := c25Case{State: State25{Level: level, Rate: rate, Residue: residue, RecalcRound: 1000}, Round: 1000, Pool: pool, Units: u}
							if !refresh {
								in.Round = 999
							}
							w.check(p, in)
						}
					}
				}
			}
		}
	})
	c.Sample(map[string]any{"parameter_combinations": len(protos), "unit_values": unitsSet})
	c.Require("identity_cases", 100_000)
	c.Require("unrepresentable_cases", 10_000)
	c.Require("refresh_nonzero_rate", 10_000)
	c.Require("refresh_pool_not_above_minimum", 1_000)
	c.Require("level_increased", 10_000)
	c.Require("registered_parameter_combinations", 2)
}

func c25RandValue(r *kit.Rand, around ...uint64) uint64 {
	switch r.Intn(6) {
	case 0:
		return r.Uint64()
	case 1:
		return r.Uint64() >> uint(r.Intn(64))
	case 2:
		if len(around) > 0 {
			return around[r.Intn(len(around))] + uint64(r.Intn(5)) - 2
		}
		return r.Boundary64()
	case 3:
		return uint64(r.Intn(1_000_000))
	default:
		return r.Boundary64()
	}
}

func TestVerifC25Random(t *testing.T) {
	c := kit.Start(t, "C25", "random")
	defer c.Finish()
	c.Rule("PRNG-driven single steps: parameter combination drawn from the registered versions or synthesised (boundary-biased MinBalance and interval >= 1, all four flag settings); level, rate, residue, pool and units drawn uniform / shifted / boundary-biased / placed next to the unit count, the minimum balance and the overflow edge; half of the steps are refresh rounds; distinct as in the grid part")
	protos, nver := c25RegisteredProtos()
	c.Count("consensus_versions_examined", nver)
	var stop atomic.Bool
	n := c.N(200_000, 2_000_000)
	const chunk = 1000
	c25Run(c, (n+chunk-1)/chunk, &stop, func(w *c25Worker, ch int) {
		r := c.Rand(25, uint64(ch))
		var p c25Proto // one (large) parameter struct per chunk, overwritten per case
		for k := 0; k < chunk && !stop.Load(); k++ {
			if r.Chance(1, 3) {
				p = protos[r.Intn(len(protos))]
			} else {
				iv := c25RandValue(r, 1, 500_000)
				if iv == 0 {
					iv = 1
				}
				p = c25Synthetic(c25RandValue(r, 100_000), iv, r.Bool(), r.Bool())
				p.Name = "synthetic-random"
			}
			u := c25RandValue(r, 6_756_334_087)
			if r.Chance(1, 20) {
				u = 0
			}
			residue := c25RandValue(r, u)
			if r.Chance(1, 2) && u > 0 {
				residue = r.Uint64n(u) // the reachable case: a remainder of the same unit count
			}
			rate := c25RandValue(r, u, math.MaxUint64-residue)
			level := c25RandValue(r)
			if u > 0 && r.Chance(1, 4) {
				level = math.MaxUint64 - (rate+residue)/u + uint64(r.Intn(3)) - 1
			}
			min := p.Params.MinBalance
			pool := c25RandValue(r, min, min+residue, min+residue+p.Params.RewardsRateRefreshInterval)
			rnd := uint64(r.Intn(1 << 30))
			in := c25Case{State: State25{Level: level, Rate: rate, Residue: residue, RecalcRound: rnd}, Round: rnd, Pool: pool, Units: u}
			if r.Bool() {
				in.State.RecalcRound = rnd + 1 + uint64(r.Intn(1000))
			}
			w.check(&p, in)
		}
	})
	c.Require("identity_cases", 50_000)
	c.Require("unrepresentable_cases", 1_000)
	c.Require("refresh_nonzero_rate", 1_000)
	c.Require("level_increased", 10_000)
}

func TestVerifC25Chain(t *testing.T) {
	c := kit.Start(t, "C25", "chain")
	defer c.Finish()
	c.Rule("chains of 10^4 consecutive rounds through NextRewardsState: the pool is debited by (level'-level)*units each round exactly as the block evaluator does and occasionally credited (fees), the unit total random-walks (sometimes to zero), the refresh interval is small so that each chain sees many refreshes; half of the chains switch between registered parameter combinations mid-way (protocol upgrade). Every step is checked as in the grid part; the telescoped sum of rates in effect is compared with the telescoped distribution plus residue change; for chains run entirely under a protocol with both PendingResidueRewards and RewardsCalculationFix, started at a refresh, the pool must never fall below its minimum balance. distinct = (parameter combination, refresh/clamped, outcome class)")
	c.Assume("the block evaluator debits the pool by (level'-level)*units (ledger/eval.StartEvaluator); deposits only increase the pool")
	protos, nver := c25RegisteredProtos()
	c.Count("consensus_versions_examined", nver)
	var stop atomic.Bool
	nchains := c.N(48, 480)
	const rounds = 10_000
	c25Run(c, nchains, &stop, func(w *c25Worker, ci int) {
		r := c.Rand(2525, uint64(ci))
		pick := func() c25Proto {
			p := protos[r.Intn(len(protos))]
			// shrink the refresh interval so that a chain sees many refreshes; keep flags and minimum balance
			p.Params.RewardsRateRefreshInterval = uint64(r.Range(1, 400))
			return p
		}
		p := pick()
		if ci%2 == 0 {
			// make sure the fully fixed protocols get their share of chains
			for !(p.Params.PendingResidueRewards && p.Params.RewardsCalculationFix) {
				p = pick()
			}
		}
		switchAt := -1
		if r.Bool() {
			switchAt = r.Range(1, rounds-1)
		}
		strict := switchAt < 0 && p.Params.PendingResidueRewards && p.Params.RewardsCalculationFix
		units := uint64(r.Range(1, 1<<20))
		if r.Chance(1, 3) {
			units = 6_000_000_000 + r.Uint64n(1_000_000_000)
		}
		pool := p.Params.MinBalance + r.Uint64n(1<<uint(r.Range(8, 50)))
		start := uint64(r.Intn(1 << 20))
		// the chain starts at a refresh round with a zero rate, so every rate in it was scheduled by the code
		// and a carried residue that the pool really holds above its minimum (a residue is undistributed pool money)
		st := State25{Level: r.Uint64n(1 << 40), Rate: 0, Residue: r.Uint64n(min(units, pool-p.Params.MinBalance+1)), RecalcRound: start}
		startResidue := st.Residue
		sumRate, sumDist := new(big.Int), new(big.Int)
		for i := 0; i < rounds && !stop.Load(); i++ {
			if i == switchAt {
				p = pick()
				w.counters["chain_protocol_switches"]++
			}
			in := c25Case{State: st, Round: start + uint64(i), Pool: pool, Units: units}
			res, dist, eff, ok := w.check(&p, in)
			if !ok {
				return
			}
			w.counters["chain_rounds"]++
			if units > 0 {
				sumRate.Add(sumRate, c25B(eff))
				sumDist.Add(sumDist, dist)
			}
			// debit the pool as the evaluator does
			if dist.Cmp(c25B(pool)) > 0 {
				if strict {
					w.fail("chain-pool-overdrawn", &p, in, res, fmt.Sprintf("round %d of chain %d distributes %v, more than the pool balance", i, ci, dist))
				}
				w.counters["chain_legacy_pool_exhausted"]++
				return // legacy protocols could overspend (the reason for the two fixes); the evaluator rejects the block
			}
			pool -= dist.Uint64()
			if strict && pool < p.Params.MinBalance {
				w.fail("chain-pool-below-minimum", &p, in, res, fmt.Sprintf("round %d of chain %d leaves the pool at %d, below its minimum balance", i, ci, pool))
				return
			}
			if strict {
				w.counters["chain_strict_rounds"]++
			}
			st = State25{Level: res.RewardsLevel, Rate: res.RewardsRate, Residue: res.RewardsResidue, RecalcRound: uint64(res.RewardsRecalculationRound)}
			// environment moves: fees flow into the pool, stake moves change the unit total
			if r.Chance(1, 10) {
				pool += r.Uint64n(1 << uint(r.Range(1, 36)))
			}
			switch r.Intn(12) {
			case 0:
				units += r.Uint64n(units/16 + 2)
			case 1:
				units -= r.Uint64n(units/16 + 1)
			case 2:
				if r.Chance(1, 20) {
					units = 0
				}
			case 3:
				if units == 0 {
					units = uint64(r.Range(1, 1<<20))
				}
			}
		}
		// telescoped: sum of rates in effect == sum of distributions + residue_end - residue_start
		tele := new(big.Int).Add(sumDist, new(big.Int).Sub(c25B(st.Residue), c25B(startResidue)))
		if tele.Cmp(sumRate) != 0 {
			w.c.Violation("chain-telescoped-sum", map[string]any{"chain": ci, "params": p.key(), "sum_of_rates_in_effect": sumRate.String(), "distributed_plus_residue_change": tele.String()})
		}
		w.counters["chains_completed"]++
		if ci < 3 {
			w.c.Sample(map[string]any{"chain": ci, "params": p.key(), "strict_pool_invariant": strict, "rounds": rounds, "distributed_total": sumDist.String(), "final_state": fmt.Sprintf("%+v", st), "final_pool": pool})
		}
	})
	c.Require("chain_rounds", 100_000)
	c.Require("chain_strict_rounds", 20_000)
	c.Require("refresh_nonzero_rate", 500)
	c.Require("level_increased", 1_000)
	c.Require("chains_completed", 10)
}
