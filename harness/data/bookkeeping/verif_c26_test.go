package bookkeeping

// C26: protocol upgrades switch only when approved, at the announced round.
//
// Statement: the consensus protocol changes only at the switch round announced by a proposal that
// gathered at least the threshold of approvals before its vote deadline; at most one proposal is pending
// at a time; a block header whose upgrade state does not follow these rules is rejected.
//
// Oracle: a trace checker (c26Ref) written from the statement and the documented parameters of
// config.ConsensusParams (UpgradeVoteRounds, UpgradeThreshold, Min/Max/DefaultUpgradeWaitRounds,
// MaxVersionStringLen). It keeps the live announcement (name, round announced, vote deadline, switch round)
// and counts the approvals it saw itself; it never reads the code's UpgradeState to decide. The code's
// UpgradeState after every vote, every rejection, and every BlockHeader.PreCheck verdict is compared with it.
//
// Legitimate behaviours the checker allows (read from the code and its comments):
//   - a proposal and an approval may share one vote (the proposer's approval counts, its round is before the deadline);
//   - a delay of 0 in the vote means DefaultUpgradeWaitRounds, but 0 must itself lie in [Min,Max] to be accepted;
//   - a failed proposal is cleared AT its deadline round (that round's vote can no longer approve), so a new
//     proposal can be made from the round after the deadline;
//   - an approved proposal stays pending (blocking new proposals, refusing further approvals) until its switch round;
//   - any version string not longer than MaxVersionStringLen may be proposed, including one this binary does
//     not know and the current protocol itself; once the chain switched to an unknown protocol every further
//     vote and header is rejected ("unsupported protocol") - the node halts rather than guess;
//   - PreCheck also rejects for reasons unrelated to upgrades; mutants are therefore only ever required to be
//     REJECTED, and only the unmutated successor (built to satisfy all other clauses) is required to be accepted;
//   - two different votes can lead to the same successor state (delay 0 vs. the default delay): a header is
//     legitimate iff its state equals the checker's successor for ITS OWN vote.
//
// Small-window protocols are registered in config.Consensus under private names before any worker starts
// (as block_test.go does in its init).

import (
	"encoding/json"
	"fmt"
	"strings"
	"sync"
	"sync/atomic"
	"testing"

	"github.com/algorand/go-algorand/config"
	"github.com/algorand/go-algorand/crypto"
	"github.com/algorand/go-algorand/data/basics"
	"github.com/algorand/go-algorand/protocol"
	"verif.local/kit"
)

// ---------------------------------------------------------------------------------------------
// reference trace checker

type c26Announcement struct {
	Name      protocol.ConsensusVersion
	Announced uint64
	Deadline  uint64 // approvals count only in rounds < Deadline
	SwitchOn  uint64
	Threshold uint64
	Approvals uint64
}

type c26Ref struct {
	Cur   protocol.ConsensusVersion
	Live  *c26Announcement
	Event string // what the last accepted vote's round did to the live announcement: "", "failed", "switched"
}

func (m c26Ref) clone() c26Ref {
	if m.Live != nil {
		l := *m.Live
		m.Live = &l
	}
	return m
}

// step applies the vote of round r. It returns a non-empty reason when the vote is not allowed in this
// state (the state is then unchanged).
func (m *c26Ref) step(r uint64, v UpgradeVote) (reject string) {
	params, ok := config.Consensus[m.Cur]
	if !ok {
		return "unsupported-protocol"
	}
	live := m.Live
	if v.UpgradePropose != "" {
		if live != nil {
			return "second-proposal"
		}
		if len(v.UpgradePropose) > params.MaxVersionStringLen {
			return "overlong-version"
		}
		d := uint64(v.UpgradeDelay)
		if d < params.MinUpgradeWaitRounds || d > params.MaxUpgradeWaitRounds {
			return "delay-out-of-range"
		}
		if d == 0 {
			d = params.DefaultUpgradeWaitRounds
		}
		live = &c26Announcement{Name: v.UpgradePropose, Announced: r, Deadline: r + params.UpgradeVoteRounds,
			SwitchOn: r + params.UpgradeVoteRounds + d, Threshold: params.UpgradeThreshold}
	} else if v.UpgradeDelay != 0 {
		return "delay-without-proposal"
	}
	if v.UpgradeApprove {
		if live == nil {
			return "approval-without-proposal"
		}
		if r >= live.Deadline {
			return "approval-after-deadline"
		}
		live.Approvals++
	}
	m.Live, m.Event = live, ""
	if m.Live != nil && r == m.Live.Deadline && m.Live.Approvals < m.Live.Threshold {
		m.Live, m.Event = nil, "failed" // cleared at the deadline
	}
	if m.Live != nil && r == m.Live.SwitchOn {
		m.Cur = m.Live.Name // approved (it survived its deadline) and this is the announced round
		m.Live, m.Event = nil, "switched"
	}
	return ""
}

// state renders the checker's view in the header's representation.
func (m c26Ref) state() UpgradeState {
	s := UpgradeState{CurrentProtocol: m.Cur}
	if m.Live != nil {
		s.NextProtocol = m.Live.Name
		s.NextProtocolApprovals = basics.Round(m.Live.Approvals)
		s.NextProtocolVoteBefore = basics.Round(m.Live.Deadline)
		s.NextProtocolSwitchOn = basics.Round(m.Live.SwitchOn)
	}
	return s
}

// ---------------------------------------------------------------------------------------------
// registered test protocols

type c26Set struct {
	A, B                   protocol.ConsensusVersion // twins with identical parameters (targets of each other's proposals)
	W, T, Min, Max, Defalt uint64
}

const c26MaxVer = 16

var (
	c26Once    sync.Once
	c26Sets    []c26Set                    // exhaustive part
	c26Family  []protocol.ConsensusVersion // random walks
	c26Unknown = protocol.ConsensusVersion("vC26-unknown")
	c26TooLong = protocol.ConsensusVersion("vC26-" + strings.Repeat("x", c26MaxVer))
	c26GenHash = crypto.Digest{0xc2, 0x6}
)

func c26Register() {
	c26Once.Do(func() {
		base := config.Consensus[protocol.ConsensusCurrentVersion]
		mk := func(name protocol.ConsensusVersion, from config.ConsensusParams, w, t, min, max, def uint64) {
			p := from
			p.UpgradeVoteRounds, p.UpgradeThreshold = w, t
			p.MinUpgradeWaitRounds, p.MaxUpgradeWaitRounds, p.DefaultUpgradeWaitRounds = min, max, def
			p.MaxVersionStringLen = c26MaxVer
			p.ApprovedUpgrades = map[protocol.ConsensusVersion]uint64{}
			config.Consensus[name] = p
		}
		i := 0
		for w := uint64(3); w <= 5; w++ {
			for t := uint64(1); t <= 4; t++ {
				for _, d := range [][3]uint64{{1, 3, 2}, {0, 2, 1}, {0, 0, 0}} {
					s := c26Set{A: protocol.ConsensusVersion(fmt.Sprintf("vC26-e%02da", i)), B: protocol.ConsensusVersion(fmt.Sprintf("vC26-e%02db", i)),
						W: w, T: t, Min: d[0], Max: d[1], Defalt: d[2]}
					mk(s.A, base, w, t, d[0], d[1], d[2])
					mk(s.B, base, w, t, d[0], d[1], d[2])
					c26Sets = append(c26Sets, s)
					i++
				}
			}
		}
		// a family with different windows per member for the random walks; member k approves member k+1
		// (so MakeBlock proposes and votes by itself); two members are derived from old consensus versions.
		fam := []struct {
			from             protocol.ConsensusVersion
			w, t, mn, mx, df uint64
		}{
			{protocol.ConsensusCurrentVersion, 3, 2, 0, 2, 1},
			{protocol.ConsensusCurrentVersion, 5, 5, 1, 4, 2},
			{protocol.ConsensusV7, 4, 1, 0, 0, 0},
			{protocol.ConsensusCurrentVersion, 2, 2, 2, 9, 5},
			{protocol.ConsensusV25, 6, 4, 0, 7, 0},
			{protocol.ConsensusCurrentVersion, 1, 1, 0, 1, 1},
			{protocol.ConsensusCurrentVersion, 7, 3, 3, 3, 3},
			{protocol.ConsensusCurrentVersion, 4, 5, 0, 3, 2}, // threshold above the window: can never be approved
		}
		for k, f := range fam {
			name := protocol.ConsensusVersion(fmt.Sprintf("vC26-w%d", k))
			mk(name, config.Consensus[f.from], f.w, f.t, f.mn, f.mx, f.df)
			c26Family = append(c26Family, name)
		}
		for k, name := range c26Family {
			p := config.Consensus[name]
			p.ApprovedUpgrades = map[protocol.ConsensusVersion]uint64{c26Family[(k+1)%len(c26Family)]: p.MaxUpgradeWaitRounds}
			config.Consensus[name] = p
		}
	})
}

// ---------------------------------------------------------------------------------------------
// monitor

type c26Mon struct {
	c        *kit.Ctx
	stop     *atomic.Bool
	evals    int64
	counters map[string]int64
	keys     map[string]struct{} // distinct (parameter set, state relative to the round, vote, outcome)
	preSeen  map[string]struct{} // PreCheck mutation already done for this key (exhaustive part)
}

func newC26Mon(c *kit.Ctx, stop *atomic.Bool) *c26Mon {
	return &c26Mon{c: c, stop: stop, counters: map[string]int64{}, keys: map[string]struct{}{}, preSeen: map[string]struct{}{}}
}

func (m *c26Mon) merge() {
	m.c.Eval(int(m.evals))
	for k, v := range m.counters {
		m.c.Count(k, int(v))
	}
	for k := range m.keys {
		m.c.Distinct(k)
	}
}

func (m *c26Mon) fail(key string, w map[string]any) {
	m.c.Violation(key, w)
	m.stop.Store(m.c.Violations() > 20)
}

// c26Lazy is a Guard input that is rendered only if the guarded code panics.
type c26Lazy func() map[string]any

func (l c26Lazy) MarshalJSON() ([]byte, error) { return json.Marshal(l()) }
func (l c26Lazy) String() string               { return fmt.Sprint(l()) }

func c26VoteStr(v UpgradeVote) string {
	return fmt.Sprintf("{propose=%q delay=%d approve=%v}", v.UpgradePropose, v.UpgradeDelay, v.UpgradeApprove)
}

func c26StateStr(s UpgradeState) string {
	return fmt.Sprintf("{cur=%s next=%q approvals=%d voteBefore=%d switchOn=%d}", s.CurrentProtocol, s.NextProtocol, s.NextProtocolApprovals, s.NextProtocolVoteBefore, s.NextProtocolSwitchOn)
}

// relKey fingerprints a state relative to the round about to be voted.
func c26RelKey(s UpgradeState, r uint64) string {
	if s.NextProtocol == "" {
		return string(s.CurrentProtocol) + "|idle"
	}
	return fmt.Sprintf("%s|%s|a%d|d%d|s%d", s.CurrentProtocol, s.NextProtocol, s.NextProtocolApprovals, int64(uint64(s.NextProtocolVoteBefore)-r), int64(uint64(s.NextProtocolSwitchOn)-r))
}

// apply feeds one vote to the code and to the checker and compares. It returns the code's successor state
// and whether the vote was accepted (by the code). trace is only rendered on failure.
func (m *c26Mon) apply(ref *c26Ref, prev UpgradeState, r uint64, v UpgradeVote, trace func() string) (UpgradeState, bool) {
	var got UpgradeState
	var err error
	if m.c.Guard("applyUpgradeVote", c26Lazy(func() map[string]any {
		return map[string]any{"state": c26StateStr(prev), "round": r, "vote": c26VoteStr(v), "trace": trace()}
	}), func() {
		got, err = prev.applyUpgradeVote(basics.Round(r), v)
	}) {
		m.stop.Store(m.c.Violations() > 20)
		return prev, false
	}
	m.evals++
	before := ref.clone()
	reject := ref.step(r, v)
	wit := func(msg string) map[string]any {
		return map[string]any{"round": r, "vote": c26VoteStr(v), "state_before": c26StateStr(prev), "code_state": c26StateStr(got), "code_error": fmt.Sprint(err),
			"checker_before": c26StateStr(before.state()), "checker_after": c26StateStr(ref.state()), "checker_rejects": reject, "message": msg, "trace": trace()}
	}
	if err != nil {
		if reject == "" {
			m.fail("rejects-valid-vote", wit("the code rejects a vote the rules allow"))
			*ref = before
		} else {
			m.counters["rejections_agreed"]++
			m.counters["rejected:"+reject]++
		}
		return prev, false
	}
	if reject != "" {
		m.fail("accepts-"+reject, wit("the code accepts a vote the rules forbid"))
		// continue from the code's state so that one defect is not reported at every later round
		*ref = c26FromState(got, before)
		return got, true
	}
	want := ref.state()
	if got != want {
		key := "pending-state-mismatch"
		switch {
		case got.CurrentProtocol != want.CurrentProtocol && got.CurrentProtocol != prev.CurrentProtocol:
			key = "switch-unapproved-or-wrong-round"
		case got.CurrentProtocol != want.CurrentProtocol:
			key = "approved-switch-missed"
		case want.NextProtocol == "" && got.NextProtocol != "":
			key = "failed-proposal-not-cleared"
		case want.NextProtocol != "" && got.NextProtocol == "":
			key = "pending-proposal-dropped"
		case got.NextProtocolApprovals != want.NextProtocolApprovals:
			key = "approval-count"
		}
		m.fail(key, wit("the code's upgrade state differs from the trace checker's"))
		*ref = c26FromState(got, before)
		return got, true
	}
	// event counters (vacuity guards)
	switch ref.Event {
	case "switched":
		m.counters["switches"]++
	case "failed":
		m.counters["failed_proposals_cleared"]++
	}
	if v.UpgradePropose != "" {
		m.counters["proposals_accepted"]++
	}
	if v.UpgradeApprove {
		m.counters["approvals_counted"]++
	}
	return got, true
}

// c26FromState re-synchronises the checker with the code after a reported divergence.
func c26FromState(s UpgradeState, before c26Ref) c26Ref {
	m := c26Ref{Cur: s.CurrentProtocol}
	if s.NextProtocol != "" {
		m.Live = &c26Announcement{Name: s.NextProtocol, Deadline: uint64(s.NextProtocolVoteBefore), SwitchOn: uint64(s.NextProtocolSwitchOn), Approvals: uint64(s.NextProtocolApprovals)}
		if p, ok := config.Consensus[s.CurrentProtocol]; ok {
			m.Live.Threshold = p.UpgradeThreshold
		}
		if before.Live != nil {
			m.Live.Announced = before.Live.Announced
		}
	}
	return m
}

// ---------------------------------------------------------------------------------------------
// headers and PreCheck

func c26Genesis(cur protocol.ConsensusVersion, round uint64) BlockHeader {
	h := BlockHeader{Round: basics.Round(round), GenesisID: "verif-c26"}
	h.CurrentProtocol = cur
	if config.Consensus[cur].SupportGenesisHash {
		h.GenesisHash = c26GenHash
	}
	h.FeeSink[0], h.RewardsPool[0] = 1, 2
	return h
}

// c26Successor builds a header that satisfies every PreCheck clause other than the upgrade clause, carrying
// the given vote and upgrade state.
func c26Successor(prev BlockHeader, v UpgradeVote, st UpgradeState) BlockHeader {
	bh := BlockHeader{Round: prev.Round + 1, Branch: prev.Hash(), GenesisID: prev.GenesisID, TimeStamp: prev.TimeStamp, UpgradeVote: v, UpgradeState: st}
	bh.FeeSink, bh.RewardsPool = prev.FeeSink, prev.RewardsPool
	if params, ok := config.Consensus[st.CurrentProtocol]; ok {
		if params.EnableSha512BlockHash {
			bh.Branch512 = prev.Hash512()
		}
		if params.SupportGenesisHash {
			bh.GenesisHash = c26GenHash
		}
		bh.Bonus = NextBonus(prev, &params)
	}
	bh.CongestionTax = NextCongestionTax(prev.Load, prev.CongestionTax)
	return bh
}

type c26Mutant struct {
	What string
	Vote UpgradeVote
	St   UpgradeState
}

// c26Mutants lists single-field mutations of (vote, state); other names are drawn from `others`.
func c26Mutants(v UpgradeVote, st UpgradeState, prevSt UpgradeState, r uint64, others []protocol.ConsensusVersion) []c26Mutant {
	var out []c26Mutant
	add := func(what string, f func(v *UpgradeVote, s *UpgradeState)) {
		mv, ms := v, st
		f(&mv, &ms)
		if mv != v || ms != st {
			out = append(out, c26Mutant{what, mv, ms})
		}
	}
	for _, o := range others {
		o := o
		add("state.CurrentProtocol="+string(o), func(_ *UpgradeVote, s *UpgradeState) { s.CurrentProtocol = o })
		add("state.NextProtocol="+string(o), func(_ *UpgradeVote, s *UpgradeState) { s.NextProtocol = o })
		add("vote.UpgradePropose="+string(o), func(v *UpgradeVote, _ *UpgradeState) { v.UpgradePropose = o })
	}
	add("state.NextProtocol=\"\"", func(_ *UpgradeVote, s *UpgradeState) { s.NextProtocol = "" })
	add("state.NextProtocolApprovals+1", func(_ *UpgradeVote, s *UpgradeState) { s.NextProtocolApprovals++ })
	add("state.NextProtocolApprovals-1", func(_ *UpgradeVote, s *UpgradeState) { s.NextProtocolApprovals-- })
	add("state.NextProtocolVoteBefore+1", func(_ *UpgradeVote, s *UpgradeState) { s.NextProtocolVoteBefore++ })
	add("state.NextProtocolVoteBefore-1", func(_ *UpgradeVote, s *UpgradeState) { s.NextProtocolVoteBefore-- })
	add("state.NextProtocolVoteBefore=0", func(_ *UpgradeVote, s *UpgradeState) { s.NextProtocolVoteBefore = 0 })
	add("state.NextProtocolSwitchOn+1", func(_ *UpgradeVote, s *UpgradeState) { s.NextProtocolSwitchOn++ })
	add("state.NextProtocolSwitchOn-1", func(_ *UpgradeVote, s *UpgradeState) { s.NextProtocolSwitchOn-- })
	add("state.NextProtocolSwitchOn=0", func(_ *UpgradeVote, s *UpgradeState) { s.NextProtocolSwitchOn = 0 })
	add("state.NextProtocolSwitchOn=round", func(_ *UpgradeVote, s *UpgradeState) { s.NextProtocolSwitchOn = basics.Round(r) })
	add("state=previous state (not advanced)", func(_ *UpgradeVote, s *UpgradeState) { *s = prevSt })
	add("state: early switch to the pending protocol", func(_ *UpgradeVote, s *UpgradeState) {
		if prevSt.NextProtocol != "" {
			*s = UpgradeState{CurrentProtocol: prevSt.NextProtocol}
		}
	})
	add("vote.UpgradeApprove flipped", func(v *UpgradeVote, _ *UpgradeState) { v.UpgradeApprove = !v.UpgradeApprove })
	add("vote.UpgradePropose=\"\"", func(v *UpgradeVote, _ *UpgradeState) { v.UpgradePropose = "" })
	add("vote.UpgradeDelay+1", func(v *UpgradeVote, _ *UpgradeState) { v.UpgradeDelay++ })
	add("vote.UpgradeDelay=0", func(v *UpgradeVote, _ *UpgradeState) { v.UpgradeDelay = 0 })
	return out
}

// precheck compares BlockHeader.PreCheck with the checker on one candidate (vote, state) for the successor of prev.
// refBefore is the checker before the vote of this round.
func (m *c26Mon) precheck(prev BlockHeader, refBefore c26Ref, what string, v UpgradeVote, st UpgradeState, trace func() string) {
	r := uint64(prev.Round) + 1
	bh := c26Successor(prev, v, st)
	var err error
	if m.c.Guard("PreCheck", c26Lazy(func() map[string]any {
		return map[string]any{"prev_state": c26StateStr(prev.UpgradeState), "round": r, "vote": c26VoteStr(v), "state": c26StateStr(st), "mutation": what, "trace": trace()}
	}), func() {
		err = bh.PreCheck(prev)
	}) {
		m.stop.Store(m.c.Violations() > 20)
		return
	}
	m.evals++
	ref := refBefore.clone()
	reject := ref.step(r, v)
	_, supported := config.Consensus[st.CurrentProtocol]
	legit := reject == "" && ref.state() == st && supported
	wit := func(msg string) map[string]any {
		return map[string]any{"round": r, "mutation": what, "header_vote": c26VoteStr(v), "header_state": c26StateStr(st), "prev_state": c26StateStr(prev.UpgradeState),
			"checker_successor_for_this_vote": c26StateStr(ref.state()), "checker_rejects_vote": reject, "precheck_error": fmt.Sprint(err), "message": msg, "trace": trace()}
	}
	switch {
	case legit && err != nil:
		// only reported for the unmutated successor; a mutant that happens to be legitimate is also a valid header
		m.fail("precheck-rejects-valid-successor", wit("PreCheck rejects a header whose upgrade vote and state follow the rules"))
	case legit:
		m.counters["precheck_valid_accepted"]++
	case err == nil:
		m.fail("precheck-accepts-bad-upgrade-state", wit("PreCheck accepts a header whose upgrade state is not the successor the rules give for its vote"))
	default:
		m.counters["precheck_mutants_rejected"]++
		if strings.Contains(err.Error(), "UpgradeState mismatch") || strings.Contains(err.Error(), "applyUpgradeVote") {
			m.counters["precheck_rejected_by_upgrade_clause"]++
		}
	}
}

// ---------------------------------------------------------------------------------------------
// exhaustive part

type c26Letter struct {
	Name string
	Vote func(s c26Set, target protocol.ConsensusVersion) UpgradeVote
	Leaf bool // a vote that is invalid in every state: explored as a leaf only
}

var c26Alphabet = []c26Letter{
	{"none", func(s c26Set, t protocol.ConsensusVersion) UpgradeVote { return UpgradeVote{} }, false},
	{"approve", func(s c26Set, t protocol.ConsensusVersion) UpgradeVote { return UpgradeVote{UpgradeApprove: true} }, false},
	{"propose(min)", func(s c26Set, t protocol.ConsensusVersion) UpgradeVote {
		return UpgradeVote{UpgradePropose: t, UpgradeDelay: basics.Round(s.Min)}
	}, false},
	{"propose(max)", func(s c26Set, t protocol.ConsensusVersion) UpgradeVote {
		return UpgradeVote{UpgradePropose: t, UpgradeDelay: basics.Round(s.Max)}
	}, false},
	{"propose(min)+approve", func(s c26Set, t protocol.ConsensusVersion) UpgradeVote {
		return UpgradeVote{UpgradePropose: t, UpgradeDelay: basics.Round(s.Min), UpgradeApprove: true}
	}, false},
	{"propose(max+1)", func(s c26Set, t protocol.ConsensusVersion) UpgradeVote {
		return UpgradeVote{UpgradePropose: t, UpgradeDelay: basics.Round(s.Max + 1)}
	}, true},
	{"propose(0)", func(s c26Set, t protocol.ConsensusVersion) UpgradeVote { return UpgradeVote{UpgradePropose: t} }, false},
	{"delay-without-proposal", func(s c26Set, t protocol.ConsensusVersion) UpgradeVote { return UpgradeVote{UpgradeDelay: 1} }, true},
	{"propose(overlong)", func(s c26Set, t protocol.ConsensusVersion) UpgradeVote {
		return UpgradeVote{UpgradePropose: c26TooLong, UpgradeDelay: basics.Round(s.Min)}
	}, true},
}

// The first five letters are the alphabet that is enumerated to full depth; "propose(0)" is enumerated as a
// leaf where the minimum delay is positive (always rejected) and skipped where it equals propose(min).
const c26Core = 5

func TestVerifC26Exhaustive(t *testing.T) {
	c := kit.Start(t, "C26", "exhaustive")
	defer c.Finish()
	c26Register()
	depth := c.N(10, 14)
	c.Rule(fmt.Sprintf("all vote sequences up to length %d over {none, approve, propose(min delay), propose(max delay), propose(min delay)+approve} (plus, as leaves at every node, the always-invalid votes: delay out of range, delay without proposal, over-long version) for 36 registered parameter sets (vote window 3-5, threshold 1-4, delay ranges [1,3] default 2 / [0,2] default 1 / [0,0]) from base rounds 0 and 1000, through UpgradeState.applyUpgradeVote; a sequence ends at the first vote the code rejects, and the rejection is compared with the trace checker; for every distinct (parameter set, state relative to the round, vote) reached, BlockHeader.PreCheck is run on the correct successor header and on ~25 single-field mutations of its upgrade vote/state; distinct = those (parameter set, relative state, vote, accepted/rejected) keys", depth))
	c.Assume("config.Consensus entries registered for the test are read-only while workers run; the header builder satisfies every PreCheck clause other than the upgrade clause (controlled by requiring the unmutated successor to be accepted)")
	var stop atomic.Bool
	type job struct {
		set  int
		base uint64
	}
	var jobs []job
	for si := range c26Sets {
		for _, base := range []uint64{0, 1000} {
			jobs = append(jobs, job{si, base})
		}
	}
	var next atomic.Int64
	var wg sync.WaitGroup
	for k := 0; k < 16; k++ {
		wg.Add(1)
		go func() {
			defer wg.Done()
			m := newC26Mon(c, &stop)
			defer m.merge()
			for {
				i := int(next.Add(1) - 1)
				if i >= len(jobs) || stop.Load() {
					return
				}
				j := jobs[i]
				c26Explore(m, c26Sets[j.set], j.set, j.base, depth)
			}
		}()
	}
	wg.Wait()
	c.Exhaustive()
	c.Sample(map[string]any{"parameter_sets": len(c26Sets), "depth": depth, "alphabet": len(c26Alphabet), "example_set": fmt.Sprintf("%+v", c26Sets[7])})
	c.Require("sequences", 10_000)
	c.Require("switches", 1_000)
	c.Require("failed_proposals_cleared", 1_000)
	c.Require("rejections_agreed", 1_000)
	c.Require("rejected:second-proposal", 100)
	c.Require("rejected:approval-after-deadline", 100)
	c.Require("rejected:approval-without-proposal", 100)
	c.Require("rejected:delay-out-of-range", 100)
	c.Require("rejected:overlong-version", 100)
	c.Require("precheck_valid_accepted", 500)
	c.Require("precheck_mutants_rejected", 5_000)
	c.Require("precheck_rejected_by_upgrade_clause", 5_000)
}

func c26Explore(m *c26Mon, set c26Set, si int, base uint64, depth int) {
	letters := make([]int, 0, depth)
	trace := func() string {
		var sb strings.Builder
		fmt.Fprintf(&sb, "set %d %+v, first vote at round %d: ", si, set, base+1)
		for _, l := range letters {
			sb.WriteString(c26Alphabet[l].Name)
			sb.WriteByte(' ')
		}
		return sb.String()
	}
	others := []protocol.ConsensusVersion{set.A, set.B, c26Unknown}
	var rec func(prevHdr BlockHeader, ref c26Ref, d int)
	rec = func(prevHdr BlockHeader, ref c26Ref, d int) {
		r := uint64(prevHdr.Round) + 1
		for li, l := range c26Alphabet {
			if m.stop.Load() {
				return
			}
			if l.Name == "propose(0)" && set.Min == 0 {
				continue // identical to propose(min)
			}
			target := set.B
			if prevHdr.CurrentProtocol == set.B {
				target = set.A
			}
			v := l.Vote(set, target)
			letters = append(letters, li)
			nref := ref.clone()
			got, ok := m.apply(&nref, prevHdr.UpgradeState, r, v, trace)
			m.counters["sequences"]++
			outcome := "rejected"
			if ok {
				outcome = "accepted"
			}
			key := fmt.Sprintf("s%d|b%d|%s|%s", si, base, c26RelKey(prevHdr.UpgradeState, r), l.Name)
			m.keys[key+"|"+outcome] = struct{}{}
			if _, seen := m.preSeen[key]; !seen {
				m.preSeen[key] = struct{}{}
				// header checks: the correct successor (if the vote is allowed) and single-field mutants
				st := got
				if ok {
					m.precheck(prevHdr, ref, "none (correct successor)", v, st, trace)
				} else {
					m.precheck(prevHdr, ref, "forbidden vote with unchanged state", v, prevHdr.UpgradeState, trace)
					st = prevHdr.UpgradeState
				}
				for _, mu := range c26Mutants(v, st, prevHdr.UpgradeState, r, others) {
					m.precheck(prevHdr, ref, mu.What, mu.Vote, mu.St, trace)
				}
			}
			if ok && !l.Leaf && d+1 < depth {
				nh := BlockHeader{Round: basics.Round(r), GenesisID: prevHdr.GenesisID, GenesisHash: prevHdr.GenesisHash, UpgradeState: got, UpgradeVote: v}
				nh.FeeSink, nh.RewardsPool = prevHdr.FeeSink, prevHdr.RewardsPool
				rec(nh, nref, d+1)
			}
			letters = letters[:len(letters)-1]
		}
	}
	rec(c26Genesis(set.A, base), c26Ref{Cur: set.A}, 0)
}

// ---------------------------------------------------------------------------------------------
// long random walks

func TestVerifC26Walk(t *testing.T) {
	c := kit.Start(t, "C26", "walk")
	defer c.Finish()
	c26Register()
	rounds := 10_000
	c.Rule(fmt.Sprintf("random walks of %d rounds over a family of 8 registered protocols with different vote windows (1-7), thresholds, delay ranges and two members derived from old consensus versions; each round's header is either produced by MakeBlock (the node's own proposing/approving logic, driven by ApprovedUpgrades) or carries a PRNG vote (proposals of family members, of the current protocol itself, of an unknown version, of an over-long version; delays inside and outside the range; approvals with a per-proposal probability; stray approvals/delays); every accepted header is chained (real Branch hashes) and checked with PreCheck, together with one PRNG-chosen single-field mutant; the walk restarts when the chain switches to a version this binary does not know; distinct = (current protocol, state relative to the round, vote kind, accepted/rejected)", rounds))
	c.Assume("MakeBlock stamps time.Now() into TimeStamp; no verdict depends on it (successors copy the previous timestamp)")
	var stop atomic.Bool
	nwalks := c.N(32, 400)
	if c.Lane == "race" {
		nwalks = 60 // the race detector costs ~6x; the lane looks for unsynchronised shared state (config.Consensus, logging) in MakeBlock/PreCheck
	}
	var next atomic.Int64
	var wg sync.WaitGroup
	for k := 0; k < 16; k++ {
		wg.Add(1)
		go func() {
			defer wg.Done()
			m := newC26Mon(c, &stop)
			defer m.merge()
			for {
				i := int(next.Add(1) - 1)
				if i >= nwalks || stop.Load() {
					return
				}
				c26Walk(m, i, rounds)
			}
		}()
	}
	wg.Wait()
	c.Require("walk_rounds", 100_000)
	c.Require("switches", 200)
	c.Require("switches_to_other_parameters", 100)
	c.Require("failed_proposals_cleared", 200)
	c.Require("makeblock_headers", 10_000)
	c.Require("rejections_agreed", 5_000)
	c.Require("rejected:second-proposal", 100)
	c.Require("rejected:approval-after-deadline", 100)
	c.Require("unknown_protocol_reached", 1)
	c.Require("precheck_valid_accepted", 50_000)
	c.Require("precheck_mutants_rejected", 50_000)
}

func c26Walk(m *c26Mon, wi int, rounds int) {
	r := m.c.Rand(26, uint64(wi))
	var recent []string
	note := func(s string) {
		recent = append(recent, s)
		if len(recent) > 40 {
			recent = recent[len(recent)-40:]
		}
	}
	trace := func() string {
		return fmt.Sprintf("walk %d, last votes (round:vote): %s", wi, strings.Join(recent, " "))
	}
	restart := func() (BlockHeader, c26Ref) {
		cur := c26Family[r.Intn(len(c26Family))]
		base := uint64(r.Intn(3)) * uint64(r.Intn(1<<30))
		return c26Genesis(cur, base), c26Ref{Cur: cur}
	}
	prev, ref := restart()
	approveP := 8
	stuck := 0
	// how often the node's own logic (MakeBlock) produces the header, out of 10: walks range from pure PRNG votes
	// to pure MakeBlock chains (which cycle through the family by themselves)
	makeBlockShare := []int{0, 2, 5, 10}[wi%4]
	for i := 0; i < rounds && !m.stop.Load(); i++ {
		rnd := uint64(prev.Round) + 1
		m.counters["walk_rounds"]++
		if _, ok := config.Consensus[prev.CurrentProtocol]; !ok {
			// the chain switched to a version this binary does not know: every vote must now be refused
			m.counters["unknown_protocol_reached"]++
			m.apply(&ref, prev.UpgradeState, rnd, UpgradeVote{}, trace)
			m.precheck(prev, ref, "successor under an unknown protocol", UpgradeVote{}, prev.UpgradeState, trace)
			prev, ref = restart()
			continue
		}
		params := config.Consensus[prev.CurrentProtocol]
		// a protocol whose threshold exceeds its vote window can never be left; look at it for a while, then start over
		if params.UpgradeThreshold > params.UpgradeVoteRounds {
			if stuck++; stuck > 150 {
				m.counters["restarts_from_unleavable_protocol"]++
				stuck = 0
				prev, ref = restart()
				continue
			}
		}
		others := []protocol.ConsensusVersion{c26Family[r.Intn(len(c26Family))], c26Unknown}
		before := ref.clone()

		if prev.NextProtocol != c26Unknown && r.Chance(makeBlockShare, 10) {
			// the node's own logic (MakeBlock legitimately panics when asked to build a block for a version it does not know)
			var blk Block
			if m.c.Guard("MakeBlock", map[string]any{"prev_state": c26StateStr(prev.UpgradeState), "round": rnd}, func() { blk = MakeBlock(prev) }) {
				m.stop.Store(m.c.Violations() > 20)
				return
			}
			m.counters["makeblock_headers"]++
			// MakeBlock copies the previous genesis hash; the block evaluator then sets it according to the new
			// block's protocol (ledger/eval.StartEvaluator: "if eval.proto.SupportGenesisHash"). Do the same, so that
			// a switch between protocols with and without SupportGenesisHash yields a complete header.
			if np, ok := config.Consensus[blk.CurrentProtocol]; ok {
				blk.BlockHeader.GenesisHash = crypto.Digest{}
				if np.SupportGenesisHash {
					blk.BlockHeader.GenesisHash = c26GenHash
				}
			}
			v := blk.UpgradeVote
			note(fmt.Sprintf("%d:MakeBlock%s", rnd, c26VoteStr(v)))
			got, ok := m.apply(&ref, prev.UpgradeState, rnd, v, trace)
			if !ok {
				m.fail("makeblock-vote-refused", map[string]any{"round": rnd, "vote": c26VoteStr(v), "prev_state": c26StateStr(prev.UpgradeState), "trace": trace()})
				return
			}
			if got != blk.UpgradeState {
				m.fail("makeblock-state", map[string]any{"round": rnd, "vote": c26VoteStr(v), "prev_state": c26StateStr(prev.UpgradeState), "block_state": c26StateStr(blk.UpgradeState), "applyUpgradeVote_state": c26StateStr(got), "trace": trace()})
				return
			}
			var err error
			m.c.Guard("PreCheck", "MakeBlock header", func() { err = blk.BlockHeader.PreCheck(prev) })
			m.evals++
			if err != nil {
				m.fail("precheck-rejects-valid-successor", map[string]any{"round": rnd, "message": "PreCheck rejects the header MakeBlock produced", "error": err.Error(), "trace": trace()})
				return
			}
			m.counters["precheck_valid_accepted"]++
			mus := c26Mutants(v, got, prev.UpgradeState, rnd, others)
			mu := mus[r.Intn(len(mus))]
			m.precheck(prev, before, mu.What, mu.Vote, mu.St, trace)
			m.keys[fmt.Sprintf("%s|makeblock|%v%v", c26RelKey(prev.UpgradeState, rnd), v.UpgradePropose != "", v.UpgradeApprove)] = struct{}{}
			c26CountSwitch(m, prev.UpgradeState, got)
			prev = blk.BlockHeader
			continue
		}

		// a PRNG vote
		var v UpgradeVote
		kind := "none"
		pending := prev.NextProtocol != ""
		inWindow := pending && rnd < uint64(prev.NextProtocolVoteBefore)
		switch {
		case !pending && r.Chance(1, 3):
			kind = "propose"
			switch r.Intn(12) {
			case 0:
				v.UpgradePropose = c26Unknown
			case 1:
				v.UpgradePropose = c26TooLong
				kind = "propose-overlong"
			case 2:
				v.UpgradePropose = prev.CurrentProtocol
			default:
				v.UpgradePropose = c26Family[r.Intn(len(c26Family))]
			}
			switch r.Intn(8) {
			case 0:
				v.UpgradeDelay = 0
			case 1:
				v.UpgradeDelay = basics.Round(params.MaxUpgradeWaitRounds + 1)
				kind += "-delay-high"
			case 2:
				if params.MinUpgradeWaitRounds > 0 {
					v.UpgradeDelay = basics.Round(params.MinUpgradeWaitRounds - 1)
					kind += "-delay-low"
				}
			case 3:
				v.UpgradeDelay = basics.Round(params.MaxUpgradeWaitRounds)
			default:
				v.UpgradeDelay = basics.Round(params.MinUpgradeWaitRounds + r.Uint64n(params.MaxUpgradeWaitRounds-params.MinUpgradeWaitRounds+1))
			}
			v.UpgradeApprove = r.Bool()
			approveP = []int{5, 8, 10, 10}[r.Intn(4)] // how eagerly this proposal will be approved (out of 10)
		case pending && r.Chance(1, 25):
			kind = "second-proposal"
			v.UpgradePropose = c26Family[r.Intn(len(c26Family))]
			v.UpgradeDelay = basics.Round(params.MinUpgradeWaitRounds)
		case inWindow:
			v.UpgradeApprove = r.Chance(approveP, 10)
			if v.UpgradeApprove {
				kind = "approve"
			}
		case pending && r.Chance(1, 6):
			kind = "late-approve"
			v.UpgradeApprove = true
		case !pending && r.Chance(1, 20):
			kind = "stray-approve"
			v.UpgradeApprove = true
		case r.Chance(1, 30):
			kind = "stray-delay"
			v.UpgradeDelay = basics.Round(r.Range(1, 3))
		}
		note(fmt.Sprintf("%d:%s", rnd, c26VoteStr(v)))
		got, ok := m.apply(&ref, prev.UpgradeState, rnd, v, trace)
		outcome := "rejected"
		if ok {
			outcome = "accepted"
		}
		m.keys[fmt.Sprintf("%s|%s|%s", c26RelKey(prev.UpgradeState, rnd), kind, outcome)] = struct{}{}
		if !ok {
			// the block is invalid; a header carrying this vote must be refused whatever state it claims
			m.precheck(prev, before, "forbidden vote with unchanged state", v, prev.UpgradeState, trace)
			if st, err := prev.UpgradeState.applyUpgradeVote(basics.Round(rnd), UpgradeVote{}); err == nil {
				m.precheck(prev, before, "forbidden vote with the state of an empty vote", v, st, trace)
			}
			// the proposer is replaced by one casting an empty vote
			v = UpgradeVote{}
			note(fmt.Sprintf("%d:retry%s", rnd, c26VoteStr(v)))
			got, ok = m.apply(&ref, prev.UpgradeState, rnd, v, trace)
			if !ok {
				return // reported by apply (an empty vote is always allowed under a known protocol)
			}
		}
		m.precheck(prev, before, "none (correct successor)", v, got, trace)
		mus := c26Mutants(v, got, prev.UpgradeState, rnd, others)
		mu := mus[r.Intn(len(mus))]
		m.precheck(prev, before, mu.What, mu.Vote, mu.St, trace)
		c26CountSwitch(m, prev.UpgradeState, got)
		prev = c26Successor(prev, v, got)
	}
	if wi < 4 {
		m.c.Sample(map[string]any{"walk": wi, "rounds": rounds, "final_state": c26StateStr(prev.UpgradeState), "last_votes": recent[max(0, len(recent)-8):]})
	}
}

func c26CountSwitch(m *c26Mon, before, after UpgradeState) {
	if before.CurrentProtocol == after.CurrentProtocol {
		return
	}
	a, okA := config.Consensus[before.CurrentProtocol]
	b, okB := config.Consensus[after.CurrentProtocol]
	if okA && okB && (a.UpgradeVoteRounds != b.UpgradeVoteRounds || a.UpgradeThreshold != b.UpgradeThreshold) {
		m.counters["switches_to_other_parameters"]++
	}
}

