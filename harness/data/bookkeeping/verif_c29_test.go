package bookkeeping

// C29 (part "bookkeeping"): a block's transactions must match the header's commitment(s), and the header must
// link to the previous block (hash, round). Stateless half: Block.ContentsMatchHeader and BlockHeader.PreCheck
// on synthetic blocks; the ledger half (Validate, group ids in the evaluator) is in ledger/verif_c29_test.go.
//
// Oracles (one-directional: "accepted only if"):
//  * reference commitment: c29RefRoot recomputes the native SHA-512/256 transaction Merkle root from the payset
//    with a dozen lines (leaf = H("TL" || txid || H("STIB" || enc(stib))), node = H("MA" || l || r-or-zeros));
//    ContentsMatchHeader()==true with header.Native != reference is a violation (flat commitment for protocols
//    before the Merkle one: H("PF" || enc(payset)));
//  * differential: a payset whose encoding differs from the committed one, or a header whose SHA-256 / SHA-512
//    commitments were swapped/zeroed/garbled, must not match (a match would be a hash collision or an unchecked
//    field);
//  * PreCheck(prev) must fail when Branch, Branch512 or Round do not link to prev.

import (
	"bytes"
	"fmt"
	"testing"

	"github.com/algorand/go-algorand/config"
	"github.com/algorand/go-algorand/crypto"
	"github.com/algorand/go-algorand/data/basics"
	"github.com/algorand/go-algorand/data/transactions"
	"github.com/algorand/go-algorand/protocol"
	"verif.local/kit"
)

func c29RefRoot(b Block) (crypto.Digest, error) {
	params := config.Consensus[b.CurrentProtocol]
	if params.PaysetCommit == config.PaysetCommitFlat {
		var ps transactions.Payset
		if len(b.Payset) > 0 {
			ps = b.Payset
		}
		return crypto.Hash(append([]byte("PF"), protocol.Encode(ps)...)), nil
	}
	if len(b.Payset) == 0 {
		return crypto.Digest{}, nil
	}
	layer := make([]crypto.Digest, len(b.Payset))
	for i := range b.Payset {
		stib := b.Payset[i]
		st, _, err := b.BlockHeader.DecodeSignedTxn(stib)
		if err != nil {
			return crypto.Digest{}, err
		}
		txid := crypto.Hash(append([]byte("TX"), protocol.Encode(&st.Txn)...))
		sh := crypto.Hash(append([]byte("STIB"), protocol.Encode(&stib)...))
		leaf := append([]byte("TL"), txid[:]...)
		leaf = append(leaf, sh[:]...)
		layer[i] = crypto.Hash(leaf)
	}
	for len(layer) > 1 {
		next := make([]crypto.Digest, (len(layer)+1)/2)
		for i := 0; i < len(layer); i += 2 {
			buf := append([]byte("MA"), layer[i][:]...)
			if i+1 < len(layer) {
				buf = append(buf, layer[i+1][:]...)
			} else {
				buf = append(buf, make([]byte, 32)...)
			}
			next[i/2] = crypto.Hash(buf)
		}
		layer = next
	}
	return layer[0], nil
}

func c29RandTxn(r *kit.Rand, gh crypto.Digest, gid string) (transactions.SignedTxn, transactions.ApplyData) {
	var t transactions.Transaction
	t.Type = protocol.PaymentTx
	r.Fill(t.Sender[:])
	r.Fill(t.Receiver[:])
	t.Amount.Raw = r.Boundary64()
	t.Fee.Raw = uint64(r.Intn(5000))
	t.FirstValid = basics.Round(r.Intn(1000))
	t.LastValid = t.FirstValid + basics.Round(r.Intn(1000))
	t.GenesisHash = gh
	if r.Bool() {
		t.GenesisID = gid
	}
	if r.Bool() {
		t.Note = r.Bytes(r.Range(1, 30))
	}
	if r.Chance(1, 3) {
		r.Fill(t.Group[:])
	}
	if r.Chance(1, 4) {
		t.Type = protocol.ApplicationCallTx
		t.PaymentTxnFields = transactions.PaymentTxnFields{}
		t.ApplicationID = basics.AppIndex(r.Range(1, 1000))
		t.ApplicationArgs = [][]byte{r.Bytes(4)}
	}
	st := transactions.SignedTxn{Txn: t}
	if r.Chance(3, 4) {
		r.Fill(st.Sig[:])
	}
	var ad transactions.ApplyData
	if r.Bool() {
		ad.ClosingAmount.Raw = r.Boundary64()
		ad.SenderRewards.Raw = uint64(r.Intn(100))
	}
	if t.Type == protocol.ApplicationCallTx && r.Bool() {
		ad.EvalDelta.GlobalDelta = basics.StateDelta{"k": basics.ValueDelta{Action: basics.SetUintAction, Uint: r.Uint64()}}
		ad.EvalDelta.Logs = []string{string(r.Bytes(5))}
	}
	return st, ad
}

func c29EncodePayset(p transactions.Payset) []byte { return protocol.Encode(p) }

func TestVerifC29Bookkeeping(t *testing.T) {
	c := kit.Start(t, "C29", "bookkeeping")
	defer c.Finish()
	c.Rule("synthetic blocks of 0..70 random signed transactions with ApplyData under v11 (flat commitment), v32 (Merkle), v34/v40 (+SHA-256 vector commitment), v41/Future (+SHA-512) linked to a random previous header; mutations: transaction dropped / inserted / last duplicated / two swapped / field altered / signature altered / ApplyData altered / genesis flags flipped, each of the three commitments swapped with another, zeroed, set although not enabled, or bit-flipped, Branch / Branch512 bit-flipped or taken from another header, Round +-1; ContentsMatchHeader and PreCheck are compared with the reference root, the differential rule and the link rule; distinct = (protocol, payset size bucket, mutation)")
	c.Assume("trusted: SHA-512/256, SHA-256, SHA-512, msgpack encoding of SignedTxnInBlock / Transaction / BlockHeader")
	cvs := []protocol.ConsensusVersion{protocol.ConsensusV11, protocol.ConsensusV32, protocol.ConsensusV34, protocol.ConsensusV40, protocol.ConsensusV41, protocol.ConsensusFuture}
	ncases := c.N(900, 12000)
	for ci := 0; ci < ncases && c.Violations() < 20; ci++ {
		r := c.Rand(29, 1, uint64(ci))
		cv := cvs[ci%len(cvs)]
		params := config.Consensus[cv]
		// previous header and an honest successor
		var prev BlockHeader
		prev.Round = basics.Round(r.Range(1, 1_000_000))
		prev.CurrentProtocol = cv
		prev.GenesisID = "c29"
		r.Fill(prev.GenesisHash[:])
		r.Fill(prev.Branch[:])
		r.Fill(prev.Seed[:])
		r.Fill(prev.FeeSink[:])
		r.Fill(prev.RewardsPool[:])
		prev.TimeStamp = int64(r.Range(1, 1_000_000))
		prev.NextProtocolVoteBefore = 0
		blk := MakeBlock(prev)
		blk.TimeStamp = prev.TimeStamp + int64(r.Intn(int(params.MaxTimestampIncrement)+1))
		if !params.SupportGenesisHash {
			blk.BlockHeader.GenesisHash = crypto.Digest{}
		}
		n := []int{0, 1, 2, 3, 4, 5, 7, 8, 9, 16, 17, 33, 70}[r.Intn(13)]
		for i := 0; i < n; i++ {
			st, ad := c29RandTxn(r, blk.BlockHeader.GenesisHash, blk.BlockHeader.GenesisID)
			if !params.SupportGenesisHash {
				st.Txn.GenesisHash = crypto.Digest{}
			}
			stib, err := blk.BlockHeader.EncodeSignedTxn(st, ad)
			if err != nil {
				c.Harness("EncodeSignedTxn: %v", err)
			}
			blk.Payset = append(blk.Payset, stib)
		}
		var err error
		blk.TxnCommitments, err = blk.PaysetCommit()
		if err != nil {
			c.Harness("PaysetCommit: %v", err)
		}
		caseID := fmt.Sprintf("seed=%d case=%d proto=%s txns=%d", c.Seed, ci, cv, n)
		bucket := map[bool]string{true: "small", false: "large"}[n <= 4]

		// honest block: must match, must pre-check, and the native commitment must equal the reference
		ref, err := c29RefRoot(blk)
		if err != nil {
			c.Harness("reference root: %v", err)
		}
		c.Eval(1)
		if !blk.ContentsMatchHeader() {
			c.Observation("honest synthetic block does not match its own header: %s", caseID)
			c.Count("honest_mismatch", 1)
			continue
		}
		if blk.TxnCommitments.NativeSha512_256Commitment != ref {
			c.Violation("commitment-differs-from-reference", map[string]any{"case": caseID, "native": blk.TxnCommitments.NativeSha512_256Commitment.String(), "reference": ref.String(),
				"block": fmt.Sprintf("%x", protocol.Encode(&blk))})
			continue
		}
		if err := blk.BlockHeader.PreCheck(prev); err != nil {
			c.Harness("honest header fails PreCheck: %v (%s)", err, caseID)
		}
		c.Count("honest_blocks", 1)
		origEnc := c29EncodePayset(blk.Payset)

		clonePayset := func() transactions.Payset {
			var p transactions.Payset
			if err := protocol.Decode(origEnc, &p); err != nil {
				c.Harness("payset clone: %v", err)
			}
			if len(p) == 0 {
				p = nil
			}
			return p
		}
		// ---- payset mutations, header untouched
		type pm struct {
			name string
			f    func(rm *kit.Rand, p transactions.Payset) transactions.Payset
		}
		pms := []pm{
			{"txn-dropped", func(rm *kit.Rand, p transactions.Payset) transactions.Payset {
				if len(p) == 0 {
					return nil
				}
				i := rm.Intn(len(p))
				return append(append(transactions.Payset{}, p[:i]...), p[i+1:]...)
			}},
			{"txn-inserted", func(rm *kit.Rand, p transactions.Payset) transactions.Payset {
				st, ad := c29RandTxn(rm, blk.BlockHeader.GenesisHash, blk.BlockHeader.GenesisID)
				if !params.SupportGenesisHash {
					st.Txn.GenesisHash = crypto.Digest{}
				}
				stib, err := blk.BlockHeader.EncodeSignedTxn(st, ad)
				if err != nil {
					return nil
				}
				i := rm.Intn(len(p) + 1)
				out := append(transactions.Payset{}, p[:i]...)
				out = append(out, stib)
				return append(out, p[i:]...)
			}},
			{"last-txn-duplicated", func(rm *kit.Rand, p transactions.Payset) transactions.Payset {
				if len(p) == 0 {
					return nil
				}
				return append(append(transactions.Payset{}, p...), p[len(p)-1])
			}},
			{"txns-swapped", func(rm *kit.Rand, p transactions.Payset) transactions.Payset {
				if len(p) < 2 {
					return nil
				}
				i := rm.Intn(len(p) - 1)
				j := i + 1 + rm.Intn(len(p)-i-1)
				p[i], p[j] = p[j], p[i]
				return p
			}},
			{"txn-field-altered", func(rm *kit.Rand, p transactions.Payset) transactions.Payset {
				if len(p) == 0 {
					return nil
				}
				t := &p[rm.Intn(len(p))]
				switch rm.Intn(4) {
				case 0:
					t.Txn.Fee.Raw++
				case 1:
					t.Txn.Sender[rm.Intn(32)] ^= 1
				case 2:
					t.Txn.Note = append(append([]byte(nil), t.Txn.Note...), 1)
				case 3:
					t.Txn.LastValid++
				}
				return p
			}},
			{"signature-altered", func(rm *kit.Rand, p transactions.Payset) transactions.Payset {
				if len(p) == 0 {
					return nil
				}
				p[rm.Intn(len(p))].Sig[rm.Intn(64)] ^= 1 << uint(rm.Intn(8))
				return p
			}},
			{"applydata-altered", func(rm *kit.Rand, p transactions.Payset) transactions.Payset {
				if len(p) == 0 {
					return nil
				}
				t := &p[rm.Intn(len(p))]
				switch rm.Intn(4) {
				case 0:
					t.ClosingAmount.Raw++
				case 1:
					t.ReceiverRewards.Raw++
				case 2:
					t.EvalDelta.GlobalDelta = basics.StateDelta{"z": basics.ValueDelta{Action: basics.SetUintAction, Uint: rm.Uint64() | 1}}
				case 3:
					t.ApplyData.ConfigAsset++
				}
				return p
			}},
			{"genesis-flag-flipped", func(rm *kit.Rand, p transactions.Payset) transactions.Payset {
				if len(p) == 0 {
					return nil
				}
				t := &p[rm.Intn(len(p))]
				if rm.Bool() {
					t.HasGenesisID = !t.HasGenesisID
				} else {
					t.HasGenesisHash = !t.HasGenesisHash
				}
				return p
			}},
		}
		for mi, m := range pms {
			rm := c.Rand(29, 2, uint64(ci), uint64(mi))
			mp := m.f(rm, clonePayset())
			if mp == nil && !(m.name == "txn-dropped" && n == 1) {
				continue
			}
			if bytes.Equal(c29EncodePayset(mp), origEnc) {
				continue
			}
			mb := blk
			mb.Payset = mp
			var match bool
			if c.Guard("ContentsMatchHeader", map[string]any{"case": caseID, "mutation": m.name}, func() { match = mb.ContentsMatchHeader() }) {
				continue
			}
			c.Eval(1)
			c.Distinct(fmt.Sprintf("%s|%s|%s", cv, bucket, m.name))
			if match {
				c.Violation("contents-match-after-payset-mutation", map[string]any{"case": caseID, "mutation": m.name, "block": fmt.Sprintf("%x", protocol.Encode(&mb)),
					"original_payset": fmt.Sprintf("%x", origEnc)})
				continue
			}
			c.Count("payset_mutants_rejected", 1)
			c.Count("rejected:"+m.name, 1)
		}
		// ---- commitment mutations, payset untouched
		type cm struct {
			name string
			f    func(rm *kit.Rand, tc *TxnCommitments) bool
		}
		cms := []cm{
			{"native<->sha256", func(rm *kit.Rand, tc *TxnCommitments) bool {
				tc.NativeSha512_256Commitment, tc.Sha256Commitment = tc.Sha256Commitment, tc.NativeSha512_256Commitment
				return true
			}},
			{"sha256:=native", func(rm *kit.Rand, tc *TxnCommitments) bool {
				tc.Sha256Commitment = tc.NativeSha512_256Commitment
				return true
			}},
			{"native:=sha256", func(rm *kit.Rand, tc *TxnCommitments) bool {
				tc.NativeSha512_256Commitment = tc.Sha256Commitment
				return true
			}},
			{"sha512:=native|sha256", func(rm *kit.Rand, tc *TxnCommitments) bool {
				copy(tc.Sha512Commitment[:32], tc.NativeSha512_256Commitment[:])
				copy(tc.Sha512Commitment[32:], tc.Sha256Commitment[:])
				return true
			}},
			{"native-bitflip", func(rm *kit.Rand, tc *TxnCommitments) bool {
				tc.NativeSha512_256Commitment[rm.Intn(32)] ^= 1 << uint(rm.Intn(8))
				return true
			}},
			{"sha256-bitflip", func(rm *kit.Rand, tc *TxnCommitments) bool {
				tc.Sha256Commitment[rm.Intn(32)] ^= 1 << uint(rm.Intn(8))
				return true
			}},
			{"sha512-bitflip", func(rm *kit.Rand, tc *TxnCommitments) bool {
				tc.Sha512Commitment[rm.Intn(64)] ^= 1 << uint(rm.Intn(8))
				return true
			}},
			{"sha256-zeroed", func(rm *kit.Rand, tc *TxnCommitments) bool { tc.Sha256Commitment = crypto.Digest{}; return true }},
			{"sha512-zeroed", func(rm *kit.Rand, tc *TxnCommitments) bool { tc.Sha512Commitment = crypto.Sha512Digest{}; return true }},
			{"native-zeroed", func(rm *kit.Rand, tc *TxnCommitments) bool {
				tc.NativeSha512_256Commitment = crypto.Digest{}
				return true
			}},
		}
		for mi, m := range cms {
			rm := c.Rand(29, 3, uint64(ci), uint64(mi))
			mb := blk
			if !m.f(rm, &mb.TxnCommitments) || mb.TxnCommitments == blk.TxnCommitments {
				continue // e.g. zeroing a commitment that is legitimately zero under this protocol
			}
			match := mb.ContentsMatchHeader()
			c.Eval(1)
			c.Distinct(fmt.Sprintf("%s|%s|%s", cv, bucket, m.name))
			if match {
				c.Violation("contents-match-after-commitment-mutation", map[string]any{"case": caseID, "mutation": m.name, "honest": fmt.Sprintf("%+v", blk.TxnCommitments),
					"mutated": fmt.Sprintf("%+v", mb.TxnCommitments)})
				continue
			}
			c.Count("commitment_mutants_rejected", 1)
			c.Count("rejected:"+m.name, 1)
		}
		// ---- link mutations
		type lm struct {
			name string
			f    func(rm *kit.Rand, h *BlockHeader) bool
		}
		lms := []lm{
			{"branch-bitflip", func(rm *kit.Rand, h *BlockHeader) bool { h.Branch[rm.Intn(32)] ^= 1 << uint(rm.Intn(8)); return true }},
			{"branch-of-grandparent", func(rm *kit.Rand, h *BlockHeader) bool { h.Branch = prev.Branch; return true }},
			{"branch-zero", func(rm *kit.Rand, h *BlockHeader) bool { h.Branch = BlockHash{}; return true }},
			{"branch512-bitflip", func(rm *kit.Rand, h *BlockHeader) bool {
				h.Branch512[rm.Intn(64)] ^= 1 << uint(rm.Intn(8))
				return true
			}},
			{"branch512-zero", func(rm *kit.Rand, h *BlockHeader) bool {
				if h.Branch512 == (crypto.Sha512Digest{}) {
					return false
				}
				h.Branch512 = crypto.Sha512Digest{}
				return true
			}},
			{"round+1", func(rm *kit.Rand, h *BlockHeader) bool { h.Round++; return true }},
			{"round-1", func(rm *kit.Rand, h *BlockHeader) bool { h.Round--; return true }},
			{"round=prev-round-with-prev-branch", func(rm *kit.Rand, h *BlockHeader) bool { h.Round = prev.Round; h.Branch = prev.Branch; return true }},
		}
		for mi, m := range lms {
			rm := c.Rand(29, 4, uint64(ci), uint64(mi))
			mh := blk.BlockHeader
			if !m.f(rm, &mh) {
				continue
			}
			var perr error
			if c.Guard("PreCheck", map[string]any{"case": caseID, "mutation": m.name}, func() { perr = mh.PreCheck(prev) }) {
				continue
			}
			c.Eval(1)
			c.Distinct(fmt.Sprintf("%s|link|%s", cv, m.name))
			if perr == nil {
				c.Violation("precheck-accepts-broken-link", map[string]any{"case": caseID, "mutation": m.name, "prev": fmt.Sprintf("%x", protocol.Encode(&prev)), "header": fmt.Sprintf("%x", protocol.Encode(&mh))})
				continue
			}
			c.Count("link_mutants_rejected", 1)
			c.Count("rejected:"+m.name, 1)
		}
		// a successor of a DIFFERENT parent with the same round must not pre-check against prev
		other := prev
		other.Seed[0] ^= 1
		ob := MakeBlock(other)
		ob.TimeStamp = blk.TimeStamp
		if err := ob.BlockHeader.PreCheck(prev); err == nil {
			c.Violation("precheck-accepts-broken-link", map[string]any{"case": caseID, "mutation": "child-of-sibling-parent"})
		} else {
			c.Count("link_mutants_rejected", 1)
		}
		c.Eval(1)
		if ci < 3 {
			c.Sample(map[string]any{"case": ci, "protocol": string(cv), "txns": n, "native": blk.TxnCommitments.NativeSha512_256Commitment.String()})
		}
	}
	c.Require("honest_blocks", int64(c.N(800, 11000)))
	c.Require("payset_mutants_rejected", int64(c.N(4000, 60000)))
	c.Require("commitment_mutants_rejected", int64(c.N(4000, 60000)))
	c.Require("link_mutants_rejected", int64(c.N(4000, 60000)))
	for _, k := range []string{"rejected:txn-dropped", "rejected:txn-inserted", "rejected:txns-swapped", "rejected:applydata-altered", "rejected:native<->sha256", "rejected:sha512-bitflip",
		"rejected:branch-bitflip", "rejected:branch512-bitflip", "rejected:round+1", "rejected:round-1", "rejected:last-txn-duplicated"} {
		c.Require(k, 10)
	}
}
