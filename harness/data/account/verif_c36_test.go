package account

// C36 (persistence part): forward security of the voting keys across the two places where a node stores them,
//   A. the partkey database (FillDBWithParticipationKeys / PersistedParticipation.DeleteOldKeys / RestoreParticipation)
//   B. the participation registry (Insert / DeleteExpired / Flush / a second registry opened on the same file).
// After every advance the secrets a restart would reload are read back from the database and judged by the same
// model as the in-memory part: rounds below the watermark (the highest round passed to the deletion so far) must
// not be signable — neither through Sign nor by forging with whatever secret is left — and every round from the
// watermark to LastValid must be. The stored voting blob is searched for the seeds of secrets that could certify
// an earlier round. Remnants in unreferenced pages of the database/WAL files are counted as an observation only
// (same class as process memory; outside the statement).

import (
	"bytes"
	"context"
	"database/sql"
	"fmt"
	"os"
	"path/filepath"
	"testing"
	"time"

	"github.com/algorand/go-algorand/config"
	"github.com/algorand/go-algorand/crypto"
	"github.com/algorand/go-algorand/data/basics"
	"github.com/algorand/go-algorand/logging"
	"github.com/algorand/go-algorand/protocol"
	"github.com/algorand/go-algorand/util/db"
	"verif.local/kit"
)

type c36msg []byte

func (m c36msg) ToBeHashed() (protocol.HashID, []byte) { return protocol.Vote, m }

type c36rng struct{ r *kit.Rand }

func (g c36rng) RandBytes(b []byte) { g.r.Fill(b) }

type c36secret struct {
	seed     [32]byte
	batchKey bool
	batch    uint64
	offset   uint64
}

func c36less(a, b crypto.OneTimeSignatureIdentifier) bool {
	return a.Batch < b.Batch || (a.Batch == b.Batch && a.Offset < b.Offset)
}

// stale: able to certify the identifier of some round below the watermark round
func (s c36secret) stale(wm crypto.OneTimeSignatureIdentifier) bool {
	if s.batchKey {
		return s.batch < wm.Batch || (s.batch == wm.Batch && wm.Offset > 0)
	}
	return c36less(crypto.OneTimeSignatureIdentifier{Batch: s.batch, Offset: s.offset}, wm)
}

type c36model struct {
	path        string // "partkey-db" or "registry"
	first, last basics.Round
	dil         uint64
	wm          basics.Round // rounds < wm have been deleted (0 = nothing deleted)
	recorded    map[[32]byte]c36secret
	calls       []basics.Round
}

func (m *c36model) record(s *crypto.OneTimeSignatureSecrets) {
	if s == nil {
		return
	}
	for i := range s.Batches {
		var sd [32]byte
		copy(sd[:], s.Batches[i].SK[:32])
		if _, ok := m.recorded[sd]; !ok {
			m.recorded[sd] = c36secret{seed: sd, batchKey: true, batch: s.FirstBatch + uint64(i)}
		}
	}
	for j := range s.Offsets {
		var sd [32]byte
		copy(sd[:], s.Offsets[j].SK[:32])
		if _, ok := m.recorded[sd]; !ok {
			m.recorded[sd] = c36secret{seed: sd, batch: s.FirstBatch - 1, offset: s.FirstOffset + uint64(j)}
		}
	}
}

func (m *c36model) witness(extra map[string]any) map[string]any {
	w := map[string]any{"store": m.path, "first_valid": m.first, "last_valid": m.last, "key_dilution": m.dil,
		"deletion_calls(round)": fmt.Sprint(m.calls), "watermark_round": m.wm}
	for k, v := range extra {
		w[k] = v
	}
	return w
}

// judge applies the model to one secrets object. verifier is the key's public identity (fixed at creation).
func (m *c36model) judge(c *kit.Ctx, s *crypto.OneTimeSignatureSecrets, verifier crypto.OneTimeSignatureVerifier, which string, r *kit.Rand) {
	msg := c36msg(r.Bytes(8))
	lo := basics.Round(0)
	if m.first > 2 {
		lo = m.first - 2
	}
	for rnd := lo; rnd <= m.last+2; rnd++ {
		id := basics.OneTimeIDForRound(rnd, m.dil)
		ok := false
		if s != nil {
			if c.Guard("Sign/Verify", m.witness(map[string]any{"round": rnd, "object": which}), func() {
				ok = verifier.Verify(id, msg, s.Sign(id, msg))
			}) {
				continue
			}
		}
		c.Eval(1)
		switch {
		case rnd < m.wm:
			if ok {
				c.Violation("signs-deleted-round", m.witness(map[string]any{"object": which, "round": rnd, "id": fmt.Sprint(id),
					"what": "a signature verifying for a round below the watermark was produced from the " + which + " secrets"}))
			} else {
				c.Count("earlier_rounds_refused", 1)
			}
		case rnd >= m.first && rnd <= m.last:
			if !ok {
				c.Violation("cannot-sign-later-round", m.witness(map[string]any{"object": which, "round": rnd, "id": fmt.Sprint(id),
					"what": "no verifying signature for a round >= watermark inside the validity range from the " + which + " secrets"}))
			} else {
				c.Count("later_rounds_signed", 1)
			}
		}
	}
	if s == nil {
		return
	}
	// forge with whatever secret is left (public fields only: anybody holding the stored blob could do this)
	wmID := basics.OneTimeIDForRound(m.wm, m.dil)
	forgeMsg := c36msg("forged vote")
	for i := range s.Batches {
		b := s.FirstBatch + uint64(i)
		early := crypto.OneTimeSignatureIdentifier{Batch: b, Offset: 0}
		c.Count("remaining_secrets_examined", 1)
		if !c36less(early, wmID) {
			continue
		}
		// a one-batch secrets object holding only this batch key signs any offset of the batch
		tmp := &crypto.OneTimeSignatureSecrets{}
		tmp.OneTimeSignatureVerifier = s.OneTimeSignatureVerifier
		tmp.FirstBatch = b
		tmp.Batches = s.Batches[i : i+1]
		c.Eval(1)
		if verifier.Verify(early, forgeMsg, tmp.Sign(early, forgeMsg)) {
			c.Violation("forgeable-from-remaining-batch-key", m.witness(map[string]any{"object": which, "forged_id": fmt.Sprint(early),
				"what": fmt.Sprintf("the key of batch %d is still stored and certifies an identifier below the watermark", b)}))
		}
	}
	for j := range s.Offsets {
		id := crypto.OneTimeSignatureIdentifier{Batch: s.FirstBatch - 1, Offset: s.FirstOffset + uint64(j)}
		c.Count("remaining_secrets_examined", 1)
		if c36less(id, wmID) {
			c.Eval(1)
			if verifier.Verify(id, forgeMsg, s.Sign(id, forgeMsg)) {
				c.Violation("forgeable-from-remaining-offset-key", m.witness(map[string]any{"object": which, "forged_id": fmt.Sprint(id)}))
			}
		}
	}
}

// searchBlob looks for seeds of stale secrets in the stored voting blob (what a restart decodes).
func (m *c36model) searchBlob(c *kit.Ctx, blob []byte, live *crypto.OneTimeSignatureSecrets) {
	wmID := basics.OneTimeIDForRound(m.wm, m.dil)
	n := 0
	for _, x := range m.recorded {
		if !x.stale(wmID) {
			continue
		}
		n++
		c.Eval(1)
		if bytes.Contains(blob, x.seed[:]) {
			c.Violation("stale-secret-in-stored-blob", m.witness(map[string]any{"secret_for": fmt.Sprintf("batchKey=%v batch=%d offset=%d", x.batchKey, x.batch, x.offset),
				"what": "the stored voting blob still contains the seed of a secret able to certify a round below the watermark"}))
		}
	}
	c.Count("stale_secrets_searched_in_blob", n)
	if live != nil && len(blob) > 0 {
		var sd []byte
		if len(live.Offsets) > 0 {
			sd = live.Offsets[0].SK[:32]
		} else if len(live.Batches) > 0 {
			sd = live.Batches[0].SK[:32]
		}
		if sd != nil {
			if !bytes.Contains(blob, sd) {
				c.Harness("search control failed: a live secret is not found in the stored blob (%v)", m.witness(nil))
			}
			c.Count("search_controls_ok", 1)
		}
	}
}

// rawRemnants counts stale seeds still present somewhere in the database files (observation only).
func (m *c36model) rawRemnants(c *kit.Ctx, file string) {
	wmID := basics.OneTimeIDForRound(m.wm, m.dil)
	for _, suffix := range []string{"", "-wal"} {
		raw, err := os.ReadFile(file + suffix)
		if err != nil {
			continue
		}
		for _, x := range m.recorded {
			if x.stale(wmID) && bytes.Contains(raw, x.seed[:]) {
				c.Count("stale_seeds_in_raw_db_files:"+m.path+":"+map[string]string{"": "main-file", "-wal": "wal-file"}[suffix], 1)
			}
		}
	}
}

func c36sequence(r *kit.Rand, first, last basics.Round) []basics.Round {
	n := r.Range(2, 5)
	lo, hi := int(first)-1, int(last)+2
	if lo < 0 {
		lo = 0
	}
	var seq []basics.Round
	cur := lo
	for i := 0; i < n; i++ {
		switch {
		case r.Chance(1, 6) && cur > lo: // a call for an earlier round (must be harmless)
			seq = append(seq, basics.Round(r.Range(lo, cur)))
			continue
		case r.Chance(1, 2): // next round, as the node does
			cur++
		default:
			cur += r.Range(0, (hi-lo)/2+1)
		}
		if cur > hi {
			cur = hi
		}
		seq = append(seq, basics.Round(cur))
	}
	return seq
}

func TestVerifC36Persist(t *testing.T) {
	c := kit.Start(t, "C36", "persist")
	defer c.Finish()
	logging.Base().SetLevel(logging.Error)
	c.Rule("PRNG (firstValid, lastValid, keyDilution in {1,2,3,5,8}) with up to ~40 rounds and PRNG sequences of 2-5 deletion calls (mostly advancing by one or jumping, some going backwards, some past LastValid), through both stores: partkey DB (FillDBWithParticipationKeys, DeleteOldKeys, RestoreParticipation) and participation registry (Insert, DeleteExpired+Flush, second registry on the same file). After every call the live secrets and the secrets reloaded from the database are judged for every round first-2..last+2, forged against with every remaining secret, and the stored blob is searched for stale seeds. distinct = (store, dilution, first%dilution, watermark position class, remaining batches, remaining offsets)")
	c.Assume("the key material of partkey-DB cases comes from the system RNG inside FillDBWithParticipationKeys (cases and verdicts do not depend on it)")
	c.Assume("database/WAL pages that are no longer referenced are outside the statement (counted as an observation)")
	proto := config.Consensus[protocol.ConsensusCurrentVersion]
	dir := c.Scratch("persist")
	defer os.RemoveAll(dir)
	ncases := c.N(60, 600)
	if c.Lane == "race" {
		ncases = c.N(60, 200)
	}
	for i := 0; i < ncases && c.Violations() <= 20; i++ {
		r := c.Rand(3601, uint64(i))
		dil := []uint64{1, 2, 3, 5, 8}[r.Intn(5)]
		first := basics.Round(r.Range(0, 20))
		if r.Chance(1, 3) {
			first = basics.Round(uint64(r.Range(0, 4)) * dil) // batch aligned
		}
		last := first + basics.Round(r.Range(1, int(4*dil)+2))
		seq := c36sequence(r, first, last)
		if i%2 == 0 {
			c36partkeyDB(c, r, proto, filepath.Join(dir, fmt.Sprintf("part-%d.sqlite", i)), first, last, dil, seq)
		} else {
			c36registry(c, r, proto, filepath.Join(dir, fmt.Sprintf("reg-%d.sqlite", i)), first, last, dil, seq)
		}
		c.Count("cases", 1)
	}
	for _, k := range []string{"partkey-db:main-file", "partkey-db:wal-file", "registry:main-file", "registry:wal-file"} {
		if n := c.Counter("stale_seeds_in_raw_db_files:" + k); n > 0 {
			c.Observation("stale_seeds_in_raw_db_files:%s=%d: seeds of deleted voting secrets were still found in the raw sqlite file (pages/frames no longer referenced; secure_delete is on, journal mode WAL, database still open) after the row had been updated; a restart does not reload them", k, n)
		}
	}
	c.Require("cases", 40)
	c.Require("earlier_rounds_refused", 500)
	c.Require("later_rounds_signed", 500)
	c.Require("reloads_from_db", 100)
	c.Require("stale_secrets_searched_in_blob", 200)
	c.Require("search_controls_ok", 50)
	c.Require("remaining_secrets_examined", 200)
}

func c36distinct(c *kit.Ctx, m *c36model, s *crypto.OneTimeSignatureSecrets) {
	class := "none"
	switch {
	case m.wm > m.last:
		class = "past-last"
	case m.wm > m.first:
		class = fmt.Sprintf("in-range,offset=%d", uint64(m.wm)%m.dil)
	case m.wm > 0:
		class = "at-or-before-first"
	}
	nb, no := -1, -1
	if s != nil {
		nb, no = len(s.Batches), len(s.Offsets)
	}
	c.Distinct(fmt.Sprintf("%s|%d|%d|%s|%d|%d", m.path, m.dil, uint64(m.first)%m.dil, class, nb, no))
	c.Sample(map[string]any{"path": m.path, "key_dilution": m.dil, "first_valid": uint64(m.first), "last_valid": uint64(m.last), "advanced_to": uint64(m.wm), "class": class, "remaining_batches": nb, "remaining_offsets": no})
}

func c36partkeyDB(c *kit.Ctx, r *kit.Rand, proto config.ConsensusParams, file string, first, last basics.Round, dil uint64, seq []basics.Round) {
	m := &c36model{path: "partkey-db", first: first, last: last, dil: dil, recorded: map[[32]byte]c36secret{}}
	store, err := db.MakeErasableAccessor(file) // as libgoal/participation does
	if err != nil {
		c.Harness("open %s: %v", file, err)
	}
	defer store.Close()
	var addr basics.Address
	r.Fill(addr[:])
	part, err := FillDBWithParticipationKeys(store, addr, first, last, dil)
	if err != nil {
		c.Harness("FillDBWithParticipationKeys: %v", err)
	}
	verifier := part.Voting.OneTimeSignatureVerifier
	m.record(part.Voting)
	reload := func() {
		st2, err := db.MakeErasableAccessor(file)
		if err != nil {
			c.Harness("reopen %s: %v", file, err)
		}
		defer st2.Close()
		restored, err := RestoreParticipation(st2)
		if err != nil {
			c.Violation("restore-failed", m.witness(map[string]any{"err": err.Error()}))
			return
		}
		c.Count("reloads_from_db", 1)
		m.judge(c, restored.Voting, verifier, "reloaded-from-db", r)
		var blob []byte
		err = st2.Atomic(func(ctx context.Context, tx *sql.Tx) error {
			return tx.QueryRow("select voting from ParticipationAccount").Scan(&blob)
		})
		if err != nil {
			c.Harness("read voting blob: %v", err)
		}
		m.searchBlob(c, blob, restored.Voting)
		c36distinct(c, m, restored.Voting)
	}
	m.judge(c, part.Voting, verifier, "live", r)
	reload()
	for _, cur := range seq {
		m.calls = append(m.calls, cur)
		var derr error
		if c.Guard("DeleteOldKeys", m.witness(nil), func() { derr = <-part.DeleteOldKeys(cur, proto) }) {
			return
		}
		if derr != nil {
			c.Harness("DeleteOldKeys: %v", derr)
		}
		if cur > m.wm {
			m.wm = cur
		}
		m.record(part.Voting)
		m.judge(c, part.Voting, verifier, "live", r)
		reload()
	}
	m.rawRemnants(c, file)
}

func c36registry(c *kit.Ctx, r *kit.Rand, proto config.ConsensusParams, file string, first, last basics.Round, dil uint64, seq []basics.Round) {
	m := &c36model{path: "registry", first: first, last: last, dil: dil, recorded: map[[32]byte]c36secret{}}
	pair, err := db.OpenErasablePair(file) // as node.go does
	if err != nil {
		c.Harness("open %s: %v", file, err)
	}
	reg, err := makeParticipationRegistry(pair, logging.Base())
	if err != nil {
		c.Harness("makeParticipationRegistry: %v", err)
	}
	defer reg.Close()
	firstID := basics.OneTimeIDForRound(first, dil)
	lastID := basics.OneTimeIDForRound(last, dil)
	p := Participation{FirstValid: first, LastValid: last, KeyDilution: dil,
		Voting: crypto.GenerateOneTimeSignatureSecretsRNG(firstID.Batch, lastID.Batch-firstID.Batch+1, c36rng{r}),
		VRF:    crypto.GenerateVRFSecrets()}
	r.Fill(p.Parent[:])
	verifier := p.Voting.OneTimeSignatureVerifier
	m.record(p.Voting)
	id, err := reg.Insert(p)
	if err != nil {
		c.Harness("Insert: %v", err)
	}
	if err := reg.Flush(30 * time.Second); err != nil {
		c.Harness("Flush: %v", err)
	}
	deleted := false // the whole record was removed (LastValid < latest round)
	check := func() {
		rec := reg.Get(id)
		if rec.IsZero() != deleted {
			if deleted {
				c.Violation("expired-record-still-in-registry", m.witness(nil))
			} else {
				c.Violation("live-record-missing-from-registry", m.witness(nil))
			}
			return
		}
		m.record(rec.Voting)
		m.judge(c, rec.Voting, verifier, "live", r)
		// what a restart loads
		pair2, err := db.OpenErasablePair(file)
		if err != nil {
			c.Harness("reopen %s: %v", file, err)
		}
		reg2, err := makeParticipationRegistry(pair2, logging.Base())
		if err != nil {
			c.Harness("second registry: %v", err)
		}
		rec2 := reg2.Get(id)
		c.Count("reloads_from_db", 1)
		if rec2.IsZero() != deleted {
			c.Violation("reloaded-registry-disagrees-on-record-presence", m.witness(map[string]any{"deleted_expected": deleted}))
		} else {
			m.judge(c, rec2.Voting, verifier, "reloaded-from-db", r)
		}
		var blobs [][]byte
		err = pair2.Rdb.Atomic(func(ctx context.Context, tx *sql.Tx) error {
			rows, err := tx.Query("select voting from Rolling")
			if err != nil {
				return err
			}
			defer rows.Close()
			for rows.Next() {
				var b []byte
				if err := rows.Scan(&b); err != nil {
					return err
				}
				blobs = append(blobs, b)
			}
			return rows.Err()
		})
		if err != nil {
			c.Harness("read Rolling: %v", err)
		}
		m.searchBlob(c, bytes.Join(blobs, nil), rec2.Voting)
		c36distinct(c, m, rec2.Voting)
		reg2.Close()
	}
	check()
	for _, cur := range seq {
		if cur == 0 {
			continue
		}
		latest := cur - 1 // DeleteExpired(latest) keeps the key for latest+1
		m.calls = append(m.calls, cur)
		var derr error
		if c.Guard("DeleteExpired", m.witness(nil), func() { derr = reg.DeleteExpired(latest, proto) }) {
			return
		}
		if derr != nil {
			c.Harness("DeleteExpired: %v", derr)
		}
		if err := reg.Flush(30 * time.Second); err != nil {
			c.Harness("Flush: %v", err)
		}
		// documented behaviour of DeleteExpired: expired keys are removed entirely, keys that are not yet valid are untouched
		switch {
		case deleted:
		case last < latest:
			deleted = true
			m.wm = last + 1
			if cur > m.wm {
				m.wm = cur
			}
		case first <= latest:
			if cur > m.wm {
				m.wm = cur
			}
		}
		check()
	}
	m.rawRemnants(c, file)
}
