package basics

// C45: overflow-checked arithmetic is exact.
//
// Statement: checked add, subtract, multiply, signed difference and multiply-divide report
// overflow exactly when the true result is out of range, and otherwise return the exact result;
// saturating variants return the nearest representable value; fraction splits sum back to the input.
//
// Oracles: exact arithmetic in a wider native type for the 8/16-bit instantiations of the
// width-generic helpers (OAdd, OSub, OMul, AddSaturate, SubSaturate, MulSaturate, DivCeil), math/big
// for the 64-bit helpers. ODiff, Muldiv/muldiv, Mul2div, Micros.Mul/MulInt, MulMicros, FeeForUsage and
// Fraction.Divvy are NOT width-generic (their type parameters are ~uint64 only), so they are
// covered by boundary grids and PRNG-driven operands, not by small-width enumeration.
//
// What the oracle deliberately does not demand (read from the code and its comments):
//   - the VALUE returned together with overflowed=true by OAdd/OSub/OMul/ODiff/Muldiv is unspecified
//     (OAdd returns the wrapped sum, OMul returns 0); only helpers documented as saturating are
//     checked for the saturated value (Micros.Mul, MulInt, MulMicros, Mul2div, FeeForUsage, *Saturate);
//   - DivCeil documents "assumes both numbers are positive and does not check for divide-by-zero"
//     and is not overflow-checked, so it is evaluated only where numerator+denominator-1 fits the type;
//   - Fraction.Divvy is specified for proper fractions (NewFraction rejects the others);
//   - FeeForUsage is specified for residues in [0, 1e12) ("they always live in [0, feeResidueScale)");
//   - MulAIntSaturate converts its int operand with uint64(b); negative b is outside what callers
//     pass (encoded sizes) and is not evaluated;
//   - a zero divisor has no exact result: Muldiv/Mul2div must then report overflow (and not panic).

import (
	"fmt"
	"math"
	"math/big"
	"runtime/debug"
	"sync"
	"sync/atomic"
	"testing"

	"golang.org/x/exp/constraints"
	"verif.local/kit"
)

type c45U8 uint8
type c45U16 uint16

// c45Tally accumulates per-worker statistics that are merged into the kit context at the end.
type c45Tally struct {
	evals    int64
	overflow int64
	exact    int64
	classes  map[string]struct{}
}

func (t *c45Tally) class(helper string, ov bool) {
	if t.classes == nil {
		t.classes = map[string]struct{}{}
	}
	k := helper + "|exact"
	if ov {
		k = helper + "|overflow"
	}
	t.classes[k] = struct{}{}
}

func (t *c45Tally) merge(c *kit.Ctx) {
	c.Eval(int(t.evals))
	c.Count("overflow_cases", int(t.overflow))
	c.Count("exact_cases", int(t.exact))
	for k := range t.classes {
		c.Distinct(k)
	}
}

func c45Fail(c *kit.Ctx, key, helper string, operands any, want, got any) {
	c.Violation(key, map[string]any{"helper": helper, "operands": fmt.Sprint(operands), "expected": fmt.Sprint(want), "got": fmt.Sprint(got)})
}

// c45SmallUnsigned enumerates all operand pairs of an unsigned type of the given width (<=16 bits)
// for rows a in [lo,hi) and checks every width-generic helper against uint64 arithmetic.
func c45SmallUnsigned[T constraints.Unsigned](c *kit.Ctx, tname string, width uint, lo, hi uint64, stop *atomic.Bool) *c45Tally {
	t := &c45Tally{}
	max := uint64(1)<<width - 1
	var seen [7][2]bool
	names := [7]string{"OAdd", "OSub", "OMul", "AddSaturate", "SubSaturate", "MulSaturate", "DivCeil"}
	for a := lo; a < hi; a++ {
		if stop.Load() {
			break
		}
		for b := uint64(0); b <= max && !stop.Load(); b++ {
			x, y := T(a), T(b)
			// OAdd
			sum := a + b
			r, ov := OAdd(x, y)
			if ov != (sum > max) || (!ov && uint64(r) != sum) {
				c45Fail(c, "oadd-small", "OAdd["+tname+"]", []uint64{a, b}, fmt.Sprintf("%d overflow=%v", sum, sum > max), fmt.Sprintf("%d overflow=%v", r, ov))
				stop.Store(c.Violations() > 20)
			}
			seen[0][c45b(ov)] = true
			// OSub
			r, ov = OSub(x, y)
			if ov != (b > a) || (!ov && uint64(r) != a-b) {
				c45Fail(c, "osub-small", "OSub["+tname+"]", []uint64{a, b}, fmt.Sprintf("%d overflow=%v", int64(a)-int64(b), b > a), fmt.Sprintf("%d overflow=%v", r, ov))
				stop.Store(c.Violations() > 20)
			}
			seen[1][c45b(ov)] = true
			// OMul
			prod := a * b
			r, ov = OMul(x, y)
			if ov != (prod > max) || (!ov && uint64(r) != prod) {
				c45Fail(c, "omul-small", "OMul["+tname+"]", []uint64{a, b}, fmt.Sprintf("%d overflow=%v", prod, prod > max), fmt.Sprintf("%d overflow=%v", r, ov))
				stop.Store(c.Violations() > 20)
			}
			seen[2][c45b(ov)] = true
			nov := int64(c45b(sum > max) + c45b(b > a) + c45b(prod > max))
			t.overflow += nov
			t.exact += 3 - nov
			// saturating variants: nearest representable value
			if want := min(sum, max); uint64(AddSaturate(x, y)) != want {
				c45Fail(c, "addsaturate-small", "AddSaturate["+tname+"]", []uint64{a, b}, want, AddSaturate(x, y))
				stop.Store(c.Violations() > 20)
			}
			seen[3][c45b(sum > max)] = true
			wantSub := uint64(0)
			if a > b {
				wantSub = a - b
			}
			if uint64(SubSaturate(x, y)) != wantSub {
				c45Fail(c, "subsaturate-small", "SubSaturate["+tname+"]", []uint64{a, b}, wantSub, SubSaturate(x, y))
				stop.Store(c.Violations() > 20)
			}
			seen[4][c45b(b > a)] = true
			if want := min(prod, max); uint64(MulSaturate(x, y)) != want {
				c45Fail(c, "mulsaturate-small", "MulSaturate["+tname+"]", []uint64{a, b}, want, MulSaturate(x, y))
				stop.Store(c.Violations() > 20)
			}
			seen[5][c45b(prod > max)] = true
			t.evals += 6
			// DivCeil, inside its documented domain only
			if b > 0 && a+b-1 <= max {
				want := a / b
				if a%b != 0 {
					want++
				}
				if got := DivCeil(x, y); uint64(got) != want {
					c45Fail(c, "divceil-small", "DivCeil["+tname+"]", []uint64{a, b}, want, got)
					stop.Store(c.Violations() > 20)
				}
				seen[6][c45b(a%b != 0)] = true
				t.evals++
			}
		}
	}
	for i, n := range names {
		for j := 0; j < 2; j++ {
			if seen[i][j] {
				t.class(n+"["+tname+"]", j == 1)
			}
		}
	}
	return t
}

// c45SmallSignedDivCeil enumerates DivCeil over the positive half of a signed type.
func c45SmallSignedDivCeil[T constraints.Signed](c *kit.Ctx, tname string, width uint, lo, hi int64, stop *atomic.Bool) *c45Tally {
	t := &c45Tally{}
	max := int64(1)<<(width-1) - 1
	for a := lo; a < hi; a++ {
		if stop.Load() {
			break
		}
		for b := int64(1); b <= max && a+b-1 <= max && !stop.Load(); b++ {
			want := a / b
			if a%b != 0 {
				want++
			}
			if got := DivCeil(T(a), T(b)); int64(got) != want {
				c45Fail(c, "divceil-small", "DivCeil["+tname+"]", []int64{a, b}, want, got)
				stop.Store(c.Violations() > 20)
			}
			t.evals++
		}
	}
	t.class("DivCeil["+tname+"]", false)
	return t
}

func c45b(b bool) int {
	if b {
		return 1
	}
	return 0
}

// c45Parallel splits [0,n) into chunks and runs f(chunkLo, chunkHi) on 16 workers.
func c45Parallel(c *kit.Ctx, n, chunk uint64, f func(lo, hi uint64) *c45Tally) {
	var next atomic.Uint64
	var wg sync.WaitGroup
	var mu sync.Mutex
	total := &c45Tally{classes: map[string]struct{}{}}
	for w := 0; w < 16; w++ {
		wg.Add(1)
		go func() {
			defer wg.Done()
			for {
				lo := next.Add(chunk) - chunk
				if lo >= n {
					return
				}
				var t *c45Tally
				// a panic of the code under test on a worker goroutine must become a violation, not a dead process
				if c.Guard("arith", fmt.Sprintf("chunk [%d,%d) of %d", lo, min(lo+chunk, n), n), func() { t = f(lo, min(lo+chunk, n)) }) || t == nil {
					return
				}
				mu.Lock()
				total.evals += t.evals
				total.overflow += t.overflow
				total.exact += t.exact
				for k := range t.classes {
					total.classes[k] = struct{}{}
				}
				mu.Unlock()
			}
		}()
	}
	wg.Wait()
	total.merge(c)
}

func TestVerifC45Exhaustive8(t *testing.T) {
	c := kit.Start(t, "C45", "exhaustive8")
	defer c.Finish()
	c.Rule("all 2^16 operand pairs of the uint8 and a named ~uint8 instantiation of OAdd, OSub, OMul, AddSaturate, SubSaturate, MulSaturate and DivCeil (DivCeil inside its documented domain; also int8 positive operands), each compared with uint64 arithmetic; distinct = (helper instantiation, overflow/exact outcome) classes reached")
	var stop atomic.Bool
	c.Guard("small-width", "uint8 enumeration", func() {
		c45SmallUnsigned[uint8](c, "uint8", 8, 0, 256, &stop).merge(c)
		c45SmallUnsigned[c45U8](c, "~uint8", 8, 0, 256, &stop).merge(c)
		c45SmallSignedDivCeil[int8](c, "int8", 8, 0, 128, &stop).merge(c)
	})
	c.Exhaustive()
	c.Sample(map[string]any{"type": "uint8", "pairs": 65536, "helpers": 7})
	c.Require("overflow_cases", 1000)
	c.Require("exact_cases", 1000)
}

func TestVerifC45Exhaustive16(t *testing.T) {
	c := kit.Start(t, "C45", "exhaustive16")
	defer c.Finish()
	c.Rule("all 2^32 operand pairs of the uint16 instantiation (and, thorough tier, of a named ~uint16 instantiation) of OAdd, OSub, OMul, AddSaturate, SubSaturate, MulSaturate and DivCeil, plus DivCeil[int16] over all positive pairs in its domain, each compared with uint64 arithmetic, on 16 workers; distinct = (helper instantiation, overflow/exact outcome) classes reached")
	var stop atomic.Bool
	c.Guard("small-width", "uint16 enumeration", func() {
		c45Parallel(c, 1<<16, 256, func(lo, hi uint64) *c45Tally {
			return c45SmallUnsigned[uint16](c, "uint16", 16, lo, hi, &stop)
		})
		if !c.Quick() {
			c45Parallel(c, 1<<16, 256, func(lo, hi uint64) *c45Tally {
				return c45SmallUnsigned[c45U16](c, "~uint16", 16, lo, hi, &stop)
			})
		}
		c45Parallel(c, 1<<15, 256, func(lo, hi uint64) *c45Tally {
			return c45SmallSignedDivCeil[int16](c, "int16", 16, int64(lo), int64(hi), &stop)
		})
	})
	c.Exhaustive()
	c.Sample(map[string]any{"type": "uint16", "pairs": uint64(1) << 32, "helpers": 7})
	c.Require("overflow_cases", 1<<30)
	c.Require("exact_cases", 1<<30)
}

// ---------------------------------------------------------------------------------------------
// 64-bit (and 32-bit) operands: math/big oracle.

var (
	c45Max64  = new(big.Int).SetUint64(math.MaxUint64)
	c45MaxI64 = big.NewInt(math.MaxInt64)
	c45MinI64 = big.NewInt(math.MinInt64)
	c45E6     = big.NewInt(1_000_000)
	c45E12    = big.NewInt(1_000_000_000_000)
)

func c45B(x uint64) *big.Int { return new(big.Int).SetUint64(x) }

// c45Boundary is the 64-bit boundary set used for the grids.
func c45Boundary(small bool) []uint64 {
	v := []uint64{0, 1, 2, 3, 7, 10, 99, 100, 999_999, 1_000_000, 1_000_001, 500_000, 100_000,
		999_999_999_999, 1_000_000_000_000, 1_000_000_000_001,
		1<<31 - 1, 1 << 31, 1<<32 - 1, 1 << 32, 1<<32 + 1,
		1<<63 - 1, 1 << 63, 1<<63 + 1, math.MaxUint64 - 2, math.MaxUint64 - 1, math.MaxUint64}
	if !small {
		v = append(v, 255, 256, 65535, 65536, 1<<16 + 1, 1<<33 - 1, 1 << 33, 1<<48 - 1, 1 << 48, 1<<62 - 1, 1 << 62,
			math.MaxUint64 / 2, math.MaxUint64/3 + 1, math.MaxUint64 / 1_000_000, math.MaxUint64/1_000_000 + 1,
			math.MaxUint64 / 1_000_000_000_000, math.MaxUint64/1_000_000_000_000 + 1, 18_446_744_073_709, 4_294_967_296_000_000)
	}
	return v
}

type c45Wide struct {
	c    *kit.Ctx
	t    *c45Tally
	stop *atomic.Bool
	cur  string   // which check is running, for panic witnesses
	ops  []uint64 // its operands
}

// caught is deferred by the worker closures: a panic of the code under test becomes a violation
// carrying the operands (c.Guard around the worker would lose them).
func (w *c45Wide) caught() {
	if r := recover(); r != nil {
		w.c.Violation("panic:arith", map[string]any{"panic": fmt.Sprint(r), "check": w.cur, "operands": fmt.Sprint(w.ops), "stack": string(debug.Stack())})
		w.stop.Store(w.c.Violations() > 20)
	}
}

func (w *c45Wide) fail(key, helper string, operands any, want, got any) {
	c45Fail(w.c, key, helper, operands, want, got)
	w.stop.Store(w.c.Violations() > 20)
}

func (w *c45Wide) note(helper string, ov bool) {
	w.t.evals++
	if ov {
		w.t.overflow++
	} else {
		w.t.exact++
	}
	w.t.class(helper, ov)
}

// pair checks every two-operand helper on (a,b).
func (w *c45Wide) pair(a, b uint64) {
	w.cur, w.ops = "pair", []uint64{a, b}
	A, B := c45B(a), c45B(b)
	sum := new(big.Int).Add(A, B)
	diff := new(big.Int).Sub(A, B)
	prod := new(big.Int).Mul(A, B)
	sumOv, subOv, mulOv := sum.Cmp(c45Max64) > 0, diff.Sign() < 0, prod.Cmp(c45Max64) > 0
	op := []uint64{a, b}

	r, ov := OAdd(a, b)
	if ov != sumOv || (!ov && c45B(r).Cmp(sum) != 0) {
		w.fail("oadd-64", "OAdd[uint64]", op, fmt.Sprintf("%v overflow=%v", sum, sumOv), fmt.Sprintf("%d overflow=%v", r, ov))
	}
	w.note("OAdd[uint64]", sumOv)
	r, ov = OSub(a, b)
	if ov != subOv || (!ov && c45B(r).Cmp(diff) != 0) {
		w.fail("osub-64", "OSub[uint64]", op, fmt.Sprintf("%v overflow=%v", diff, subOv), fmt.Sprintf("%d overflow=%v", r, ov))
	}
	w.note("OSub[uint64]", subOv)
	r, ov = OMul(a, b)
	if ov != mulOv || (!ov && c45B(r).Cmp(prod) != 0) {
		w.fail("omul-64", "OMul[uint64]", op, fmt.Sprintf("%v overflow=%v", prod, mulOv), fmt.Sprintf("%d overflow=%v", r, ov))
	}
	w.note("OMul[uint64]", mulOv)

	// MicroAlgos wrappers and the tracker (flag must be set exactly on overflow; result exact otherwise)
	ra, ov := OAddA(MicroAlgos{a}, MicroAlgos{b})
	if ov != sumOv || (!ov && c45B(ra.Raw).Cmp(sum) != 0) {
		w.fail("oadd-64", "OAddA", op, fmt.Sprintf("%v overflow=%v", sum, sumOv), fmt.Sprintf("%d overflow=%v", ra.Raw, ov))
	}
	ra, ov = OSubA(MicroAlgos{a}, MicroAlgos{b})
	if ov != subOv || (!ov && c45B(ra.Raw).Cmp(diff) != 0) {
		w.fail("osub-64", "OSubA", op, fmt.Sprintf("%v overflow=%v", diff, subOv), fmt.Sprintf("%d overflow=%v", ra.Raw, ov))
	}
	for i, want := range []struct {
		v  *big.Int
		ov bool
	}{{sum, sumOv}, {diff, subOv}, {prod, mulOv}, {sum, sumOv}, {diff, subOv}, {prod, mulOv}} {
		var ot OverflowTracker
		var got uint64
		switch i {
		case 0:
			got = ot.Add(a, b)
		case 1:
			got = ot.Sub(a, b)
		case 2:
			got = ot.Mul(a, b)
		case 3:
			got = ot.AddA(MicroAlgos{a}, MicroAlgos{b}).Raw
		case 4:
			got = ot.SubA(MicroAlgos{a}, MicroAlgos{b}).Raw
		case 5:
			got = ot.ScalarMulA(MicroAlgos{a}, b).Raw
		}
		name := []string{"OverflowTracker.Add", "OverflowTracker.Sub", "OverflowTracker.Mul", "OverflowTracker.AddA", "OverflowTracker.SubA", "OverflowTracker.ScalarMulA"}[i]
		if ot.Overflowed != want.ov || (!want.ov && c45B(got).Cmp(want.v) != 0) {
			w.fail("tracker-64", name, op, fmt.Sprintf("%v overflow=%v", want.v, want.ov), fmt.Sprintf("%d overflow=%v", got, ot.Overflowed))
		}
		// the flag is sticky: a later in-range operation must not clear it
		if want.ov {
			ot.Add(1, 1)
			if !ot.Overflowed {
				w.fail("tracker-64", name+" (sticky flag)", op, "overflow=true after a later exact op", "overflow=false")
			}
		}
		w.note(name, want.ov)
	}

	// saturating variants
	sat := func(v *big.Int) uint64 {
		if v.Sign() < 0 {
			return 0
		}
		if v.Cmp(c45Max64) > 0 {
			return math.MaxUint64
		}
		return v.Uint64()
	}
	if got := AddSaturate(a, b); got != sat(sum) {
		w.fail("addsaturate-64", "AddSaturate[uint64]", op, sat(sum), got)
	}
	w.note("AddSaturate[uint64]", sumOv)
	if got := SubSaturate(a, b); got != sat(diff) {
		w.fail("subsaturate-64", "SubSaturate[uint64]", op, sat(diff), got)
	}
	w.note("SubSaturate[uint64]", subOv)
	if got := MulSaturate(a, b); got != sat(prod) {
		w.fail("mulsaturate-64", "MulSaturate[uint64]", op, sat(prod), got)
	}
	w.note("MulSaturate[uint64]", mulOv)
	if got := (MicroAlgos{a}).AddSaturate(MicroAlgos{b}); got.Raw != sat(sum) {
		w.fail("addsaturate-64", "MicroAlgos.AddSaturate", op, sat(sum), got.Raw)
	}
	if got := (MicroAlgos{a}).SubSaturate(MicroAlgos{b}); got.Raw != sat(diff) {
		w.fail("subsaturate-64", "MicroAlgos.SubSaturate", op, sat(diff), got.Raw)
	}
	if got := Round(a).SubSaturate(Round(b)); uint64(got) != sat(diff) {
		w.fail("subsaturate-64", "Round.SubSaturate", op, sat(diff), got)
	}
	if b <= math.MaxInt64 { // non-negative int operand only (see header)
		if got := MulAIntSaturate(MicroAlgos{a}, int(b)); got.Raw != sat(prod) {
			w.fail("mulsaturate-64", "MulAIntSaturate", op, sat(prod), got.Raw)
		}
		w.t.evals++
	}
	w.t.evals += 5

	// signed difference
	dOv := diff.Cmp(c45MaxI64) > 0 || diff.Cmp(c45MinI64) < 0
	d, ov := ODiff(a, b)
	if ov != dOv || (!ov && big.NewInt(d).Cmp(diff) != 0) {
		w.fail("odiff", "ODiff", op, fmt.Sprintf("%v overflow=%v", diff, dOv), fmt.Sprintf("%d overflow=%v", d, ov))
	}
	w.note("ODiff", dOv)

	// Micros: product scaled by 1e6, saturating and reporting
	q := new(big.Int).Quo(prod, c45E6)
	qOv := q.Cmp(c45Max64) > 0
	m, ov := Micros(a).Mul(Micros(b))
	if ov != qOv || uint64(m) != sat(q) {
		w.fail("micros-mul", "Micros.Mul", op, fmt.Sprintf("%d overflow=%v", sat(q), qOv), fmt.Sprintf("%d overflow=%v", uint64(m), ov))
	}
	w.note("Micros.Mul", qOv)
	ma, ov := (MicroAlgos{a}).MulMicros(Micros(b))
	if ov != qOv || ma.Raw != sat(q) {
		w.fail("micros-mul", "MicroAlgos.MulMicros", op, fmt.Sprintf("%d overflow=%v", sat(q), qOv), fmt.Sprintf("%d overflow=%v", ma.Raw, ov))
	}
	w.note("MicroAlgos.MulMicros", qOv)
	// MulInt: plain product with an int; a negative int reports (0, true)
	i := int(int64(b))
	m, ov = Micros(a).MulInt(i)
	if i < 0 {
		if !ov || m != 0 {
			w.fail("micros-mulint", "Micros.MulInt", []any{a, i}, "0 overflow=true", fmt.Sprintf("%d overflow=%v", uint64(m), ov))
		}
		w.note("Micros.MulInt(negative)", true)
	} else {
		if ov != mulOv || uint64(m) != sat(prod) {
			w.fail("micros-mulint", "Micros.MulInt", []any{a, i}, fmt.Sprintf("%d overflow=%v", sat(prod), mulOv), fmt.Sprintf("%d overflow=%v", uint64(m), ov))
		}
		w.note("Micros.MulInt", mulOv)
	}

	// DivCeil inside its documented domain
	if b > 0 && new(big.Int).Sub(sum, big.NewInt(1)).IsUint64() {
		want := new(big.Int).Quo(new(big.Int).Add(A, new(big.Int).Sub(B, big.NewInt(1))), B)
		if got := DivCeil(a, b); c45B(got).Cmp(want) != 0 {
			w.fail("divceil-64", "DivCeil[uint64]", op, want, got)
		}
		w.note("DivCeil[uint64]", false)
		if a <= math.MaxInt64 && b <= math.MaxInt64 && sum.Cmp(c45MaxI64) <= 0 {
			if got := DivCeil(int64(a), int64(b)); big.NewInt(got).Cmp(want) != 0 {
				w.fail("divceil-64", "DivCeil[int64]", op, want, got)
			}
			if got := DivCeil(int(a), int(b)); big.NewInt(int64(got)).Cmp(want) != 0 {
				w.fail("divceil-64", "DivCeil[int]", op, want, got)
			}
			w.t.evals += 2
		}
	}

	// 32-bit instantiations of the width-generic helpers on the low halves
	a32, b32 := uint32(a), uint32(b)
	s32, p32 := uint64(a32)+uint64(b32), uint64(a32)*uint64(b32)
	r32, ov := OAdd(a32, b32)
	if ov != (s32 > math.MaxUint32) || (!ov && uint64(r32) != s32) {
		w.fail("oadd-32", "OAdd[uint32]", []uint32{a32, b32}, s32, fmt.Sprintf("%d overflow=%v", r32, ov))
	}
	w.note("OAdd[uint32]", s32 > math.MaxUint32)
	r32, ov = OSub(a32, b32)
	if ov != (b32 > a32) || (!ov && r32 != a32-b32) {
		w.fail("osub-32", "OSub[uint32]", []uint32{a32, b32}, int64(a32)-int64(b32), fmt.Sprintf("%d overflow=%v", r32, ov))
	}
	w.note("OSub[uint32]", b32 > a32)
	r32, ov = OMul(a32, b32)
	if ov != (p32 > math.MaxUint32) || (!ov && uint64(r32) != p32) {
		w.fail("omul-32", "OMul[uint32]", []uint32{a32, b32}, p32, fmt.Sprintf("%d overflow=%v", r32, ov))
	}
	w.note("OMul[uint32]", p32 > math.MaxUint32)
	if got := AddSaturate(a32, b32); uint64(got) != min(s32, math.MaxUint32) {
		w.fail("addsaturate-32", "AddSaturate[uint32]", []uint32{a32, b32}, min(s32, math.MaxUint32), got)
	}
	if got := MulSaturate(a32, b32); uint64(got) != min(p32, math.MaxUint32) {
		w.fail("mulsaturate-32", "MulSaturate[uint32]", []uint32{a32, b32}, min(p32, math.MaxUint32), got)
	}
	wantSub32 := uint32(0)
	if a32 > b32 {
		wantSub32 = a32 - b32
	}
	if got := SubSaturate(a32, b32); got != wantSub32 {
		w.fail("subsaturate-32", "SubSaturate[uint32]", []uint32{a32, b32}, wantSub32, got)
	}
	w.t.evals += 3
}

// triple checks the multiply-divide helpers and the fraction split on (a,b,c).
func (w *c45Wide) triple(a, b, c uint64) {
	w.cur, w.ops = "triple (Muldiv a*b/c, Divvy)", []uint64{a, b, c}
	A, B, C := c45B(a), c45B(b), c45B(c)
	prod := new(big.Int).Mul(A, B)
	op := []uint64{a, b, c}
	if c == 0 {
		// no exact result exists; the helpers must say so instead of panicking or returning a value
		if _, ov := Muldiv(a, b, c); !ov {
			w.fail("muldiv", "Muldiv (zero divisor)", op, "overflow=true", "overflow=false")
		}
		w.note("Muldiv(zero divisor)", true)
	} else {
		q, rem := new(big.Int).QuoRem(prod, C, new(big.Int))
		qOv := q.Cmp(c45Max64) > 0
		got, ov := Muldiv(a, b, c)
		if ov != qOv || (!ov && c45B(got).Cmp(q) != 0) {
			w.fail("muldiv", "Muldiv", op, fmt.Sprintf("%v overflow=%v", q, qOv), fmt.Sprintf("%d overflow=%v", got, ov))
		}
		gq, gr, ov := muldiv(a, b, c)
		if ov != qOv || (!ov && (c45B(gq).Cmp(q) != 0 || c45B(gr).Cmp(rem) != 0)) {
			w.fail("muldiv", "muldiv (quotient, remainder)", op, fmt.Sprintf("%v rem %v overflow=%v", q, rem, qOv), fmt.Sprintf("%d rem %d overflow=%v", gq, gr, ov))
		}
		// a named ~uint64 instantiation
		gm, ov := Muldiv(Micros(a), Round(b), c)
		if ov != qOv || (!ov && c45B(uint64(gm)).Cmp(q) != 0) {
			w.fail("muldiv", "Muldiv[Micros,Round]", op, fmt.Sprintf("%v overflow=%v", q, qOv), fmt.Sprintf("%d overflow=%v", uint64(gm), ov))
		}
		w.note("Muldiv", qOv)

		// Fraction.Divvy: proper fraction b'/c' of quantity a; parts sum to the input, first = floor(a*n/d)
		n, d := b, c
		if n > d {
			n, d = d, n
		}
		if d > 0 {
			frac := NewFraction(n, d)
			first, second := frac.Divvy(a)
			wantFirst := new(big.Int).Quo(new(big.Int).Mul(A, c45B(n)), c45B(d))
			if c45B(first).Cmp(wantFirst) != 0 || new(big.Int).Add(c45B(first), c45B(second)).Cmp(A) != 0 {
				w.fail("divvy", "Fraction.Divvy", []any{frac.String(), a}, fmt.Sprintf("%v + %v", wantFirst, new(big.Int).Sub(A, wantFirst)), fmt.Sprintf("%d + %d", first, second))
			}
			fa, sa := frac.DivvyAlgos(MicroAlgos{a})
			if fa.Raw != first || sa.Raw != second {
				w.fail("divvy", "Fraction.DivvyAlgos", []any{frac.String(), a}, fmt.Sprintf("%d + %d", first, second), fmt.Sprintf("%d + %d", fa.Raw, sa.Raw))
			}
			w.note("Fraction.Divvy", false)
			w.t.class(fmt.Sprintf("Fraction.Divvy|first0=%v|second0=%v", first == 0, second == 0), false)
		}
	}
}

// quad checks Mul2div and FeeForUsage on (a,b,c,d); residue is used by FeeForUsage only.
func (w *c45Wide) quad(a, b, c, d, residue uint64) {
	w.cur, w.ops = "quad (Mul2div a*b*c/d, FeeForUsage residue)", []uint64{a, b, c, d, residue}
	total := new(big.Int).Mul(new(big.Int).Mul(c45B(a), c45B(b)), c45B(c))
	op := []uint64{a, b, c, d}
	gq, gr, ov := Mul2div(a, Micros(b), Micros(c), d)
	if d == 0 {
		if !ov || gq != math.MaxUint64 || gr != 0 {
			w.fail("mul2div", "Mul2div (zero divisor)", op, "MaxUint64 rem 0 overflow=true", fmt.Sprintf("%d rem %d overflow=%v", gq, gr, ov))
		}
		w.note("Mul2div(zero divisor)", true)
	} else {
		q, rem := new(big.Int).QuoRem(total, c45B(d), new(big.Int))
		qOv := q.Cmp(c45Max64) > 0
		bad := ov != qOv
		if !bad && ov {
			bad = gq != math.MaxUint64 || gr != 0 // documented: saturated quotient, zero remainder
		}
		if !bad && !ov {
			bad = c45B(gq).Cmp(q) != 0 || c45B(gr).Cmp(rem) != 0
		}
		if bad {
			w.fail("mul2div", "Mul2div", op, fmt.Sprintf("%v rem %v overflow=%v (saturated MaxUint64 rem 0 on overflow)", q, rem, qOv), fmt.Sprintf("%d rem %d overflow=%v", gq, gr, ov))
		}
		w.note("Mul2div", qOv)
	}

	// FeeForUsage: the smallest fee with fee*1e12 + residue >= base*usage*multiplier; the new residue is the
	// overpayment carried forward, so fee*1e12 + residue == total + newResidue with newResidue in [0,1e12).
	residue %= 1_000_000_000_000
	R := c45B(residue)
	fee := new(big.Int).Sub(total, R)
	if fee.Sign() < 0 {
		fee.SetInt64(0)
	} else {
		fee.Add(fee, new(big.Int).Sub(c45E12, big.NewInt(1)))
		fee.Quo(fee, c45E12)
	}
	feeOv := fee.Cmp(c45Max64) > 0
	gf, gres, ov := (MicroAlgos{a}).FeeForUsage(Micros(b), Micros(c), residue)
	fop := []uint64{a, b, c, residue}
	if feeOv {
		if !ov || gf.Raw != math.MaxUint64 || gres != residue {
			w.fail("feeforusage", "MicroAlgos.FeeForUsage", fop, fmt.Sprintf("fee MaxUint64 residue %d overflow=true (true fee %v)", residue, fee), fmt.Sprintf("fee %d residue %d overflow=%v", gf.Raw, gres, ov))
		}
	} else {
		wantRes := new(big.Int).Mul(fee, c45E12)
		wantRes.Add(wantRes, R).Sub(wantRes, total)
		if ov || c45B(gf.Raw).Cmp(fee) != 0 || c45B(gres).Cmp(wantRes) != 0 || gres >= 1_000_000_000_000 {
			w.fail("feeforusage", "MicroAlgos.FeeForUsage", fop, fmt.Sprintf("fee %v residue %v overflow=false", fee, wantRes), fmt.Sprintf("fee %d residue %d overflow=%v", gf.Raw, gres, ov))
		}
		w.t.class(fmt.Sprintf("FeeForUsage|roundup=%v|residue0=%v", gres > residue, residue == 0), false)
	}
	w.note("MicroAlgos.FeeForUsage", feeOv)
}

// c45NearOverflow picks b so that a*b/c lands next to 2^64 (the overflow edge of Muldiv).
func c45NearOverflow(r *kit.Rand, a, c uint64) uint64 {
	if a == 0 {
		return r.Uint64()
	}
	// b ~ c*2^64/a
	t := new(big.Int).Lsh(c45B(c), 64)
	t.Quo(t, c45B(a))
	t.Add(t, big.NewInt(int64(r.Intn(5))-2))
	if t.Sign() < 0 || !t.IsUint64() {
		return r.Boundary64()
	}
	return t.Uint64()
}

func c45Operand(r *kit.Rand) uint64 {
	switch r.Intn(6) {
	case 0:
		return r.Uint64()
	case 1:
		return r.Uint64() >> uint(r.Intn(64))
	case 2:
		return uint64(r.Intn(3_000_000)) // around the Micros scale
	case 3:
		return 1_000_000_000_000 + uint64(r.Intn(5)) - 2
	default:
		return r.Boundary64()
	}
}

func TestVerifC45Wide(t *testing.T) {
	c := kit.Start(t, "C45", "wide")
	defer c.Finish()
	c.Rule("64-bit helpers against math/big: a boundary grid (grid^2 for the two-operand helpers incl. OverflowTracker, MicroAlgos wrappers, ODiff, Micros.Mul/MulInt, MulMicros, DivCeil and the uint32 instantiations; grid^3 for Muldiv/muldiv and Fraction.Divvy; grid^4 over a reduced grid for Mul2div and FeeForUsage) plus PRNG-driven operands (uniform, shifted, Micros-scale, boundary-biased, and operands solved to land next to the 2^64 overflow edge of Muldiv/Mul2div and next to the residue edge of FeeForUsage); distinct = (helper, overflow/exact or rounding outcome) classes reached")
	c.Assume("math/big is exact; Muldiv, Mul2div, ODiff, Micros and Fraction helpers are not width-generic, so no small-width enumeration exists for them")
	var stop atomic.Bool
	grid := c45Boundary(false)
	small := c45Boundary(true)
	ng := uint64(len(grid))
	c.Guard("wide", "grid", func() {
		// grid^2 and grid^3
		c45Parallel(c, ng, 1, func(lo, hi uint64) *c45Tally {
			w := &c45Wide{c: c, t: &c45Tally{}, stop: &stop}
			defer w.caught()
			for i := lo; i < hi && !stop.Load(); i++ {
				for _, b := range grid {
					w.pair(grid[i], b)
					for _, d := range grid {
						w.triple(grid[i], b, d)
					}
				}
			}
			return w.t
		})
		// grid^4 (reduced grid), residue swept over a few values including the remainder edge
		quadGrid := small
		if !c.Quick() {
			quadGrid = grid
		}
		ns := uint64(len(quadGrid))
		c45Parallel(c, ns*ns, 4, func(lo, hi uint64) *c45Tally {
			w := &c45Wide{c: c, t: &c45Tally{}, stop: &stop}
			defer w.caught()
			for i := lo; i < hi && !stop.Load(); i++ {
				a, b := quadGrid[i/ns], quadGrid[i%ns]
				for _, x := range quadGrid {
					for j, d := range quadGrid {
						w.quad(a, b, x, d, []uint64{0, 1, 999_999_999_999, 500_000_000_000}[j%4])
					}
				}
			}
			return w.t
		})
	})
	c.Count("grid_cases", int(c.Counter("overflow_cases")+c.Counter("exact_cases")))

	// random operands: case i uses c.Rand(45, chunk) so the run replays from the seed
	nrand := uint64(c.N(400_000, 10_000_000))
	const chunk = 4096
	c.Guard("wide", "random", func() {
		c45Parallel(c, (nrand+chunk-1)/chunk, 1, func(lo, hi uint64) *c45Tally {
			w := &c45Wide{c: c, t: &c45Tally{}, stop: &stop}
			defer w.caught()
			for ch := lo; ch < hi && !stop.Load(); ch++ {
				r := c.Rand(45, ch)
				for k := 0; k < chunk; k++ {
					a, b, d := c45Operand(r), c45Operand(r), c45Operand(r)
					w.pair(a, b)
					if r.Chance(1, 3) && d != 0 {
						b = c45NearOverflow(r, a, d)
					}
					w.triple(a, b, d)
					// Mul2div/FeeForUsage: base*usage*multiplier with Micros-scale factors, and products near the edge
					x := c45Operand(r)
					div := d
					if r.Chance(1, 2) {
						div = 1_000_000_000_000
					}
					if r.Chance(1, 3) && div != 0 && a != 0 && b != 0 {
						// x ~ div*2^64/(a*b)
						t := new(big.Int).Lsh(c45B(div), 64)
						t.Quo(t, new(big.Int).Mul(c45B(a), c45B(b)))
						t.Add(t, big.NewInt(int64(r.Intn(5))-2))
						if t.Sign() >= 0 && t.IsUint64() {
							x = t.Uint64()
						}
					}
					// residue: uniform, or right at the remainder of the product (the round-up edge)
					res := r.Uint64n(1_000_000_000_000)
					if r.Chance(1, 2) {
						rem := new(big.Int).Mod(new(big.Int).Mul(new(big.Int).Mul(c45B(a), c45B(b)), c45B(x)), c45E12).Uint64()
						res = (rem + uint64(r.Intn(3)) + 1_000_000_000_000 - 1) % 1_000_000_000_000
					}
					w.quad(a, b, x, div, res)
				}
			}
			return w.t
		})
	})
	c.Count("random_cases", int(nrand))
	// outside the evaluated domain (see header): a negative int operand is converted with uint64(b)
	if got := MulAIntSaturate(MicroAlgos{Raw: 2}, -1); got.Raw != 0 {
		c.Observation("MulAIntSaturate(2 microAlgos, -1) = %d: a negative int operand saturates upward (uint64 conversion) instead of to 0; callers pass encoded sizes (never negative), so this is not evaluated as a violation", got.Raw)
	}
	c.Sample(map[string]any{"grid_values": len(grid), "quad_grid_values": c.N(len(small), len(grid)), "random_operand_tuples": nrand})
	c.Require("overflow_cases", 10_000)
	c.Require("exact_cases", 10_000)
	c.Require("grid_cases", 100_000)
}
