package ledger

// HL reference model: per-round plain maps obtained by applying each block's StateDelta.
// Deliberately trivial: no caches, no lookback windows, no database. Every key keeps its
// version history so the model can answer "value of key k at round r" for any r.

import (
	"bytes"
	"fmt"
	"math/big"
	"sort"

	"github.com/algorand/go-algorand/config"
	"github.com/algorand/go-algorand/data/basics"
	"github.com/algorand/go-algorand/data/bookkeeping"
	"github.com/algorand/go-algorand/data/transactions"
	"github.com/algorand/go-algorand/ledger/ledgercore"
)

type hlVer[T any] struct {
	rnd     basics.Round
	val     T
	present bool
}

type hlHist[T any] struct{ v []hlVer[T] }

func (h *hlHist[T]) at(r basics.Round) (T, bool) {
	var zero T
	if h == nil {
		return zero, false
	}
	// versions are appended in increasing round order
	i := sort.Search(len(h.v), func(i int) bool { return h.v[i].rnd > r })
	if i == 0 {
		return zero, false
	}
	e := h.v[i-1]
	if !e.present {
		return zero, false
	}
	return e.val, true
}

func (h *hlHist[T]) set(r basics.Round, val T, present bool) {
	if n := len(h.v); n > 0 && h.v[n-1].rnd == r {
		h.v[n-1] = hlVer[T]{r, val, present}
		return
	}
	h.v = append(h.v, hlVer[T]{r, val, present})
}

// truncate drops versions after round r (used when a crash loses the tail).
func (h *hlHist[T]) truncate(r basics.Round) {
	i := sort.Search(len(h.v), func(i int) bool { return h.v[i].rnd > r })
	h.v = h.v[:i]
}

// lastChange returns the round of the newest version at or before r (0 if none).
func (h *hlHist[T]) lastChange(r basics.Round) basics.Round {
	if h == nil {
		return 0
	}
	i := sort.Search(len(h.v), func(i int) bool { return h.v[i].rnd > r })
	if i == 0 {
		return 0
	}
	return h.v[i-1].rnd
}

type hlRes struct {
	addr basics.Address
	idx  basics.CreatableIndex
}

type hlCreator struct {
	ctype basics.CreatableType
	addr  basics.Address
}

type hlModel struct {
	hdrs        map[basics.Round]bookkeeping.BlockHeader
	accts       map[basics.Address]*hlHist[ledgercore.AccountData]
	assetParams map[hlRes]*hlHist[basics.AssetParams]
	assetHold   map[hlRes]*hlHist[basics.AssetHolding]
	appParams   map[hlRes]*hlHist[basics.AppParams]
	appLocal    map[hlRes]*hlHist[basics.AppLocalState]
	kv          map[string]*hlHist[[]byte]
	creators    map[basics.CreatableIndex]*hlHist[hlCreator]
	txids       map[transactions.Txid]basics.Round
	blockTxids  map[basics.Round][]transactions.Txid
	latest      basics.Round
}

func hlNewModel() *hlModel {
	return &hlModel{
		hdrs:        map[basics.Round]bookkeeping.BlockHeader{},
		accts:       map[basics.Address]*hlHist[ledgercore.AccountData]{},
		assetParams: map[hlRes]*hlHist[basics.AssetParams]{},
		assetHold:   map[hlRes]*hlHist[basics.AssetHolding]{},
		appParams:   map[hlRes]*hlHist[basics.AppParams]{},
		appLocal:    map[hlRes]*hlHist[basics.AppLocalState]{},
		kv:          map[string]*hlHist[[]byte]{},
		creators:    map[basics.CreatableIndex]*hlHist[hlCreator]{},
		txids:       map[transactions.Txid]basics.Round{},
		blockTxids:  map[basics.Round][]transactions.Txid{},
	}
}

func hlGet[K comparable, T any](m map[K]*hlHist[T], k K) *hlHist[T] {
	h := m[k]
	if h == nil {
		h = &hlHist[T]{}
		m[k] = h
	}
	return h
}

func (m *hlModel) initGenesis(hdr bookkeeping.BlockHeader, accts map[basics.Address]basics.AccountData) {
	m.hdrs[0] = hdr
	for a, d := range accts {
		hlGet(m.accts, a).set(0, ledgercore.ToAccountData(d), true)
	}
	m.latest = 0
}

// apply folds the delta of block rnd into the model.
func (m *hlModel) apply(hdr bookkeeping.BlockHeader, d ledgercore.StateDelta) {
	rnd := hdr.Round
	m.hdrs[rnd] = hdr
	for i := 0; i < d.Accts.Len(); i++ {
		addr, data := d.Accts.GetByIdx(i)
		hlGet(m.accts, addr).set(rnd, data, true)
	}
	for _, rec := range d.Accts.GetAllAssetResources() {
		k := hlRes{rec.Addr, basics.CreatableIndex(rec.Aidx)}
		if rec.Params.Deleted {
			hlGet(m.assetParams, k).set(rnd, basics.AssetParams{}, false)
		} else if rec.Params.Params != nil {
			hlGet(m.assetParams, k).set(rnd, *rec.Params.Params, true)
		}
		if rec.Holding.Deleted {
			hlGet(m.assetHold, k).set(rnd, basics.AssetHolding{}, false)
		} else if rec.Holding.Holding != nil {
			hlGet(m.assetHold, k).set(rnd, *rec.Holding.Holding, true)
		}
	}
	for _, rec := range d.Accts.GetAllAppResources() {
		k := hlRes{rec.Addr, basics.CreatableIndex(rec.Aidx)}
		if rec.Params.Deleted {
			hlGet(m.appParams, k).set(rnd, basics.AppParams{}, false)
		} else if rec.Params.Params != nil {
			hlGet(m.appParams, k).set(rnd, hlCloneAppParams(*rec.Params.Params), true)
		}
		if rec.State.Deleted {
			hlGet(m.appLocal, k).set(rnd, basics.AppLocalState{}, false)
		} else if rec.State.LocalState != nil {
			ls := *rec.State.LocalState
			ls.KeyValue = ls.KeyValue.Clone()
			hlGet(m.appLocal, k).set(rnd, ls, true)
		}
	}
	for key, mod := range d.KvMods {
		if mod.Data == nil {
			hlGet(m.kv, key).set(rnd, nil, false)
		} else {
			hlGet(m.kv, key).set(rnd, append([]byte{}, mod.Data...), true)
		}
	}
	for idx, mc := range d.Creatables {
		if mc.Created {
			hlGet(m.creators, idx).set(rnd, hlCreator{mc.Ctype, mc.Creator}, true)
		} else {
			hlGet(m.creators, idx).set(rnd, hlCreator{}, false)
		}
	}
	for txid := range d.Txids {
		if _, dup := m.txids[txid]; !dup {
			m.txids[txid] = rnd
		}
		m.blockTxids[rnd] = append(m.blockTxids[rnd], txid)
	}
	m.latest = rnd
}

func hlCloneAppParams(p basics.AppParams) basics.AppParams {
	p.GlobalState = p.GlobalState.Clone()
	p.ApprovalProgram = append([]byte(nil), p.ApprovalProgram...)
	p.ClearStateProgram = append([]byte(nil), p.ClearStateProgram...)
	return p
}

// truncate rolls the model back to round r (crash lost the tail).
func (m *hlModel) truncate(r basics.Round) {
	for _, h := range m.accts {
		h.truncate(r)
	}
	for _, h := range m.assetParams {
		h.truncate(r)
	}
	for _, h := range m.assetHold {
		h.truncate(r)
	}
	for _, h := range m.appParams {
		h.truncate(r)
	}
	for _, h := range m.appLocal {
		h.truncate(r)
	}
	for _, h := range m.kv {
		h.truncate(r)
	}
	for _, h := range m.creators {
		h.truncate(r)
	}
	for rr := range m.hdrs {
		if rr > r {
			delete(m.hdrs, rr)
		}
	}
	for rr, ids := range m.blockTxids {
		if rr > r {
			for _, id := range ids {
				if m.txids[id] == rr {
					delete(m.txids, id)
				}
			}
			delete(m.blockTxids, rr)
		}
	}
	m.latest = r
}

func (m *hlModel) proto(r basics.Round) config.ConsensusParams {
	return config.Consensus[m.hdrs[r].CurrentProtocol]
}

func (m *hlModel) acct(r basics.Round, a basics.Address) ledgercore.AccountData {
	d, _ := m.accts[a].at(r)
	return d
}

// acctWithRewards is what LookupAccount reports: pending rewards at round r's level applied.
func (m *hlModel) acctWithRewards(r basics.Round, a basics.Address) ledgercore.AccountData {
	d := m.acct(r, a)
	return hlWithRewards(d, m.proto(r).RewardUnit, m.hdrs[r].RewardsLevel)
}

// hlWithRewards: independent statement of the pending-rewards rule.
func hlWithRewards(d ledgercore.AccountData, unit, level uint64) ledgercore.AccountData {
	if d.Status == basics.NotParticipating {
		return d
	}
	units := d.MicroAlgos.Raw / unit
	delta := level - d.RewardsBase
	rew := new(big.Int).Mul(new(big.Int).SetUint64(units), new(big.Int).SetUint64(delta))
	if !rew.IsUint64() || level < d.RewardsBase {
		return d // unreachable with the workloads used (evaluator would have failed)
	}
	d.MicroAlgos.Raw += rew.Uint64()
	d.RewardsBase = level
	d.RewardedMicroAlgos.Raw += rew.Uint64()
	return d
}

func (m *hlModel) creator(r basics.Round, idx basics.CreatableIndex, ct basics.CreatableType) (basics.Address, bool) {
	c, ok := m.creators[idx].at(r)
	if !ok || c.ctype != ct {
		return basics.Address{}, false
	}
	return c.addr, true
}

// addresses returns the closed universe of addresses that ever existed, sorted.
func (m *hlModel) addresses() []basics.Address {
	out := make([]basics.Address, 0, len(m.accts))
	for a := range m.accts {
		out = append(out, a)
	}
	sort.Slice(out, func(i, j int) bool { return bytes.Compare(out[i][:], out[j][:]) < 0 })
	return out
}

// totals recomputes AccountTotals at round r by plain summation over the universe.
func (m *hlModel) totals(r basics.Round) ledgercore.AccountTotals {
	var t ledgercore.AccountTotals
	unit := m.proto(r).RewardUnit
	level := m.hdrs[r].RewardsLevel
	t.RewardsLevel = level
	for _, a := range m.addresses() {
		d, ok := m.accts[a].at(r)
		if !ok {
			continue
		}
		var c *ledgercore.AlgoCount
		switch d.Status {
		case basics.Online:
			c = &t.Online
		case basics.Offline:
			c = &t.Offline
		case basics.NotParticipating:
			c = &t.NotParticipating
		default:
			continue
		}
		c.Money.Raw += hlWithRewards(d, unit, level).MicroAlgos.Raw
		c.RewardUnits += d.MicroAlgos.Raw / unit
	}
	return t
}

// assetsOf lists (sorted by index) the asset resources of addr at round r.
func (m *hlModel) assetsOf(r basics.Round, a basics.Address) []basics.CreatableIndex {
	seen := map[basics.CreatableIndex]bool{}
	for k, h := range m.assetHold {
		if k.addr == a {
			if _, ok := h.at(r); ok {
				seen[k.idx] = true
			}
		}
	}
	for k, h := range m.assetParams {
		if k.addr == a {
			if _, ok := h.at(r); ok {
				seen[k.idx] = true
			}
		}
	}
	return hlSortedIdx(seen)
}

func (m *hlModel) appsOf(r basics.Round, a basics.Address) []basics.CreatableIndex {
	seen := map[basics.CreatableIndex]bool{}
	for k, h := range m.appLocal {
		if k.addr == a {
			if _, ok := h.at(r); ok {
				seen[k.idx] = true
			}
		}
	}
	for k, h := range m.appParams {
		if k.addr == a {
			if _, ok := h.at(r); ok {
				seen[k.idx] = true
			}
		}
	}
	return hlSortedIdx(seen)
}

func hlSortedIdx(s map[basics.CreatableIndex]bool) []basics.CreatableIndex {
	out := make([]basics.CreatableIndex, 0, len(s))
	for k := range s {
		out = append(out, k)
	}
	sort.Slice(out, func(i, j int) bool { return out[i] < out[j] })
	return out
}

// kvKeys lists the kv keys with the given prefix present at round r, sorted.
func (m *hlModel) kvKeys(r basics.Round, prefix string) []string {
	var out []string
	for k, h := range m.kv {
		if len(k) >= len(prefix) && k[:len(prefix)] == prefix {
			if _, ok := h.at(r); ok {
				out = append(out, k)
			}
		}
	}
	sort.Strings(out)
	return out
}

// fullAccount assembles basics.AccountData (with resources) at round r, without pending rewards.
func (m *hlModel) fullAccount(r basics.Round, a basics.Address) basics.AccountData {
	var out basics.AccountData
	ledgercore.AssignAccountData(&out, m.acct(r, a))
	for _, idx := range m.assetsOf(r, a) {
		k := hlRes{a, idx}
		if p, ok := m.assetParams[k].at(r); ok {
			if out.AssetParams == nil {
				out.AssetParams = map[basics.AssetIndex]basics.AssetParams{}
			}
			out.AssetParams[basics.AssetIndex(idx)] = p
		}
		if h, ok := m.assetHold[k].at(r); ok {
			if out.Assets == nil {
				out.Assets = map[basics.AssetIndex]basics.AssetHolding{}
			}
			out.Assets[basics.AssetIndex(idx)] = h
		}
	}
	for _, idx := range m.appsOf(r, a) {
		k := hlRes{a, idx}
		if p, ok := m.appParams[k].at(r); ok {
			if out.AppParams == nil {
				out.AppParams = map[basics.AppIndex]basics.AppParams{}
			}
			out.AppParams[basics.AppIndex(idx)] = p
		}
		if l, ok := m.appLocal[k].at(r); ok {
			if out.AppLocalStates == nil {
				out.AppLocalStates = map[basics.AppIndex]basics.AppLocalState{}
			}
			out.AppLocalStates[basics.AppIndex(idx)] = l
		}
	}
	return out
}

func hlShort(a basics.Address) string { return fmt.Sprintf("%x", a[:4]) }

// onlineData is what consensus must see for an account at round r (zero unless online).
func (m *hlModel) onlineData(r basics.Round, a basics.Address) basics.OnlineAccountData {
	d := m.acct(r, a)
	if d.Status != basics.Online {
		return basics.OnlineAccountData{}
	}
	w := hlWithRewards(d, m.proto(r).RewardUnit, m.hdrs[r].RewardsLevel)
	return basics.OnlineAccountData{MicroAlgosWithRewards: w.MicroAlgos, VotingData: d.VotingData, IncentiveEligible: d.IncentiveEligible, LastProposed: d.LastProposed, LastHeartbeat: d.LastHeartbeat}
}

func (m *hlModel) circulation(r, voteRnd basics.Round) (*big.Int, *big.Int) {
	total, expired := new(big.Int), new(big.Int)
	p := m.proto(r)
	for _, a := range m.addresses() {
		d := m.acct(r, a)
		if d.Status != basics.Online {
			continue
		}
		w := new(big.Int).SetUint64(hlWithRewards(d, p.RewardUnit, m.hdrs[r].RewardsLevel).MicroAlgos.Raw)
		total.Add(total, w)
		if d.VoteLastValid != 0 && voteRnd > d.VoteLastValid {
			expired.Add(expired, w)
		}
	}
	if p.ExcludeExpiredCirculation && r != 0 {
		return new(big.Int).Sub(total, expired), expired
	}
	return total, expired
}
